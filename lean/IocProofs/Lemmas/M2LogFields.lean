/-
  Population comes before initialization: the step that logs `before n` is the finishing step of n's frame, which has
  gone through all its points; a field is written only by the frame of its holder; nothing of a published component
  (cache entry, fields) ever changes again.
-/
import IocProofs.Lemmas.M2Log
namespace Ioc.M2.Lc
open Ioc.M2

/-! ### frames never run past their points -/

def FrameInv (sc : Scen) (st : St) : Prop := ∀ f ∈ st.stack, f.p ≤ (pts sc f.name).length

theorem frameInv_init (sc : Scen) : FrameInv sc (init sc) := by simp [FrameInv, init]

theorem frameInv_bump (sc : Scen) (stk : List Frame) (o : Obj)
    (h : ∀ f ∈ stk, f.p ≤ (pts sc f.name).length) : ∀ f ∈ bump stk o, f.p ≤ (pts sc f.name).length := by
  cases stk with
  | nil => simp [bump]
  | cons g rest =>
    intro f hf
    simp [bump] at hf
    rcases hf with rfl | hf
    · exact h g (by simp)
    · exact h f (by simp [hf])

theorem frameInv_src {sc : Scen} {st st0 : St} {c : Nat} (src : Src sc st st0 c) (h : FrameInv sc st) :
    FrameInv sc st0 := by
  unfold FrameInv; rw [src.same.2.2.2.1]; exact h

theorem frameInv_push (sc : Scen) (st : St) (c : Nat) (h : FrameInv sc st) :
    ∀ f ∈ (push st c).stack, f.p ≤ (pts sc f.name).length := by
  intro f hf
  simp [push] at hf
  rcases hf with rfl | hf
  · simp
  · exact h f hf

theorem frameInv_stepR (sc : Scen) (st st' : St) (h : FrameInv sc st) (hstep : StepR sc st st') :
    FrameInv sc st' := by
  cases hstep with
  | done hs hb ht => exact h
  | hit st0 c src o ho => exact frameInv_bump sc _ o (frameInv_src src h)
  | promote st0 c src h1 h2 h3 hf => exact frameInv_bump sc _ _ (frameInv_src src h)
  | earlyFail st0 c src h1 h2 h3 hf => simp [FrameInv, failAt]
  | unknown st0 c src h1 h2 h3 hn => simp [FrameInv, failAt]
  | enterU st0 c src h1 h2 h3 hn hw => exact frameInv_push sc st0 c (frameInv_src src h)
  | enterFail st0 c src h1 h2 h3 hn hw hbad => simp [FrameInv, failAt]
  | enterW st0 c src h1 h2 h3 hn hw hcfg hpts =>
    unfold FrameInv; simp only [addLog_stack]; exact frameInv_push sc st0 c (frameInv_src src h)
  | advance f rest hs hp hd hwhy =>
    intro g hg
    simp at hg
    rcases hg with rfl | hg
    · simp [advance]; omega
    · exact h g (by rw [hs]; simp [hg])
  | injFail f rest hs hp hd hne hreq hwhy => simp [FrameInv, failAt]
  | write f rest hs hp hd hne hm hc =>
    intro g hg
    simp at hg
    rcases hg with rfl | hg
    · simp [advance]; omega
    · exact h g (by rw [hs]; simp [hg])
  | cbFail f rest hs hp hcb => simp [FrameInv, failAt]
  | stale f rest hs hp hcb e he hw hh => simp [FrameInv, failAt]
  | publish f rest hs hp hcb pub hpub =>
    intro g hg
    cases rest with
    | nil => simp [publish] at hg
    | cons g0 rest' =>
      simp [publish] at hg
      rcases hg with rfl | hg
      · exact h g0 (by rw [hs]; simp)
      · exact h g (by rw [hs]; simp [hg])

theorem frameInv_run (sc : Scen) (k : Nat) : FrameInv sc (run sc k (init sc)) :=
  run_inv sc (FrameInv sc) (step_inv_of_rel sc _ (fun st st' hi _ h => frameInv_stepR sc st st' hi h)) k _
    (frameInv_init sc)

/-! ### what one step appends to the log -/

theorem addLog_log (sc : Scen) (st : St) (m : Nat) (e : Ev) :
    (addLog sc st m e).log = (if sc.logged m then [e] else []) ++ st.log := by
  unfold addLog; cases sc.logged m <;> simp

theorem mem_of_mem_ite {b : Bool} {l : List Ev} {e : Ev} (h : e ∈ (if b = true then l else [])) : e ∈ l := by
  cases b
  · simp at h
  · simpa using h

/-- a step either appends early / new / conf events only, or it is the finishing step of the top frame, appends that
    component's callback events and writes no field -/
theorem stepR_log (sc : Scen) (st st' : St) (hstep : StepR sc st st') :
    (∃ evs, st'.log = evs ++ st.log ∧ ∀ e ∈ evs, ∃ c, e = .early c ∨ e = .new c ∨ e = .conf c) ∨
    (∃ f rest, st.stack = f :: rest ∧ ¬ f.p < (pts sc f.name).length ∧
      st'.log = cbEvs sc f.name ++ st.log ∧ st'.fields = st.fields) := by
  cases hstep with
  | done hs hb ht => exact Or.inl ⟨[], rfl, by simp⟩
  | hit st0 c src o ho => exact Or.inl ⟨[], by simp [src.same.2.2.2.2.2.1], by simp⟩
  | promote st0 c src h1 h2 h3 hf =>
    refine Or.inl ⟨if sc.logged c then [.early c] else [], ?_, ?_⟩
    · change (addLog sc st0 c (.early c)).log = _
      rw [addLog_log, src.same.2.2.2.2.2.1]
    · intro e he; have he := mem_of_mem_ite he; simp at he; exact ⟨c, Or.inl he⟩
  | earlyFail st0 c src h1 h2 h3 hf =>
    refine Or.inl ⟨if sc.logged c then [.early c] else [], ?_, ?_⟩
    · change (addLog sc st0 c (.early c)).log = _
      rw [addLog_log, src.same.2.2.2.2.2.1]
    · intro e he; have he := mem_of_mem_ite he; simp at he; exact ⟨c, Or.inl he⟩
  | unknown st0 c src h1 h2 h3 hn => exact Or.inl ⟨[], by simp [failAt, src.same.2.2.2.2.2.1], by simp⟩
  | enterU st0 c src h1 h2 h3 hn hw => exact Or.inl ⟨[], by simp [push, src.same.2.2.2.2.2.1], by simp⟩
  | enterFail st0 c src h1 h2 h3 hn hw hbad =>
    refine Or.inl ⟨if sc.logged c then [.new c] else [], ?_, ?_⟩
    · change (addLog sc (push st0 c) c (.new c)).log = _
      rw [addLog_log]; simp [push, src.same.2.2.2.2.2.1]
    · intro e he; have he := mem_of_mem_ite he; simp at he; exact ⟨c, Or.inr (Or.inl he)⟩
  | enterW st0 c src h1 h2 h3 hn hw hcfg hpts =>
    refine Or.inl ⟨if sc.logged c then [.conf c, .new c] else [], ?_, ?_⟩
    · rw [addLog_log, addLog_log]; cases sc.logged c <;> simp [push, src.same.2.2.2.2.2.1]
    · intro e he; have he := mem_of_mem_ite he; simp at he
      rcases he with he | he
      · exact ⟨c, Or.inr (Or.inr he)⟩
      · exact ⟨c, Or.inr (Or.inl he)⟩
  | advance f rest hs hp hd hwhy => exact Or.inl ⟨[], rfl, by simp⟩
  | injFail f rest hs hp hd hne hreq hwhy => exact Or.inl ⟨[], rfl, by simp⟩
  | write f rest hs hp hd hne hm hc => exact Or.inl ⟨[], rfl, by simp⟩
  | cbFail f rest hs hp hcb =>
    exact Or.inr ⟨f, rest, hs, hp, by change (initCallbacks sc st f.name).1.log = _; rw [initCallbacks_log],
      by simp [failAt]⟩
  | stale f rest hs hp hcb e he hw hh =>
    exact Or.inr ⟨f, rest, hs, hp, by change (initCallbacks sc st f.name).1.log = _; rw [initCallbacks_log],
      by simp [failAt]⟩
  | publish f rest hs hp hcb pub hpub =>
    exact Or.inr ⟨f, rest, hs, hp, by change (initCallbacks sc st f.name).1.log = _; rw [initCallbacks_log],
      by simp [publish]⟩

/-- the step that logs `before n` (or any other initialization callback of n) -/
theorem callback_logged (sc : Scen) (st : St) (hfi : FrameInv sc st) (hr : st.status = .running) (n : Nat) (e : Ev)
    (he : e = .before n ∨ e = .aps n ∨ e = .init n ∨ e = .after n)
    (hnew : e ∈ (step sc st).log) (hold : e ∉ st.log) :
    ∃ f rest, st.stack = f :: rest ∧ f.name = n ∧ f.p = (pts sc n).length ∧ (step sc st).fields = st.fields := by
  rcases stepR_log sc st _ (step_rel sc st hr) with ⟨evs, hl, hev⟩ | ⟨f, rest, hs, hp, hl, hf⟩
  · rw [hl] at hnew
    simp at hnew
    rcases hnew with hnew | hnew
    · obtain ⟨c, hc⟩ := hev e hnew
      rcases he with rfl | rfl | rfl | rfl <;> simp at hc
    · exact absurd hnew hold
  · rw [hl] at hnew
    simp at hnew
    rcases hnew with hnew | hnew
    · have hn : f.name = n := by
        have := cbEvs_name sc f.name e hnew
        rcases he with rfl | rfl | rfl | rfl <;> exact this.symm
      have := hfi f (by rw [hs]; simp)
      exact ⟨f, rest, hs, hn, by rw [← hn]; omega, hf⟩
    · exact absurd hnew hold

/-! ### fields -/

/-- a field is written only by the frame of its holder, at the point the frame is working on -/
theorem field_writer_rel (sc : Scen) (st st' : St) (hstep : StepR sc st st') (h i : Nat)
    (hne : st'.fields h i ≠ st.fields h i) :
    ∃ f rest, st.stack = f :: rest ∧ f.name = h ∧ f.p = i ∧ i < (pts sc h).length := by
  cases hstep with
  | write f rest hs hp hd hne' hm hc =>
    by_cases hh : h = f.name ∧ i = f.p
    · obtain ⟨rfl, rfl⟩ := hh; exact ⟨f, rest, hs, rfl, rfl, hp⟩
    · exfalso; apply hne; simp [upd2, hh]
  | hit st0 c src o ho => exfalso; apply hne; simp [src.same.2.2.2.2.1]
  | promote st0 c src h1 h2 h3 hf => exfalso; apply hne; simp [src.same.2.2.2.2.1]
  | earlyFail st0 c src h1 h2 h3 hf => exfalso; apply hne; simp [failAt, src.same.2.2.2.2.1]
  | unknown st0 c src h1 h2 h3 hn => exfalso; apply hne; simp [failAt, src.same.2.2.2.2.1]
  | enterU st0 c src h1 h2 h3 hn hw => exfalso; apply hne; simp [push, src.same.2.2.2.2.1]
  | enterFail st0 c src h1 h2 h3 hn hw hbad => exfalso; apply hne; simp [failAt, push, src.same.2.2.2.2.1]
  | enterW st0 c src h1 h2 h3 hn hw hcfg hpts => exfalso; apply hne; simp [push, src.same.2.2.2.2.1]
  | done hs hb ht => exact absurd rfl hne
  | advance f rest hs hp hd hwhy => exact absurd rfl hne
  | injFail f rest hs hp hd hne' hreq hwhy => exact absurd rfl hne
  | cbFail f rest hs hp hcb => exfalso; apply hne; simp [failAt]
  | stale f rest hs hp hcb e he hw hh => exfalso; apply hne; simp [failAt]
  | publish f rest hs hp hcb pub hpub => exfalso; apply hne; simp [publish]

/-- a published cache entry never changes -/
theorem l1_stable_rel (sc : Scen) (st st' : St) (hi : Inv sc st) (hstep : StepR sc st st') (n : Nat)
    (hp : st.l1 n ≠ none) : st'.l1 n = st.l1 n := by
  cases hstep with
  | publish f rest hs hp' hcb pub hpub =>
    have : n ≠ f.name := by intro h; subst h; exact hp (hi.l1_off _ (by simp [snames, hs]))
    simp [publish, this]
  | hit st0 c src o ho => simp [src.same.1]
  | promote st0 c src h1 h2 h3 hf => simp [src.same.1]
  | earlyFail st0 c src h1 h2 h3 hf => simp [failAt, src.same.1]
  | unknown st0 c src h1 h2 h3 hn => simp [failAt, src.same.1]
  | enterU st0 c src h1 h2 h3 hn hw => simp [push, src.same.1]
  | enterFail st0 c src h1 h2 h3 hn hw hbad => simp [failAt, push, src.same.1]
  | enterW st0 c src h1 h2 h3 hn hw hcfg hpts => simp [push, src.same.1]
  | done hs hb ht => rfl
  | advance f rest hs hp hd hwhy => rfl
  | injFail f rest hs hp hd hne' hreq hwhy => rfl
  | write f rest hs hp hd hne' hm hc => rfl
  | cbFail f rest hs hp hcb => simp [failAt]
  | stale f rest hs hp hcb e he hw hh => simp [failAt]

/-- nothing of a published component changes in a step: its cache entry and all its fields stay -/
theorem published_frozen_step (sc : Scen) (st : St) (hi : Inv sc st) (n : Nat) (hp : st.l1 n ≠ none) :
    (step sc st).l1 n = st.l1 n ∧ (step sc st).fields n = st.fields n := by
  by_cases hr : st.status = .running
  · have hrel := step_rel sc st hr
    refine ⟨l1_stable_rel sc st _ hi hrel n hp, ?_⟩
    funext i
    apply Classical.byContradiction
    intro hne
    obtain ⟨f, rest, hs, hn, _, _⟩ := field_writer_rel sc st _ hrel n i hne
    exact hp (hn ▸ hi.l1_off _ (by simp [snames, hs]))
  · rw [step_not_running sc st hr]; exact ⟨rfl, rfl⟩

theorem published_frozen (sc : Scen) (k m : Nat) (n : Nat) (hp : (run sc k (init sc)).l1 n ≠ none) :
    (run sc (k + m) (init sc)).l1 n = (run sc k (init sc)).l1 n ∧
    (run sc (k + m) (init sc)).fields n = (run sc k (init sc)).fields n := by
  induction m with
  | zero => exact ⟨rfl, rfl⟩
  | succ m ih =>
    have hi := inv_run sc (k + m)
    have hp' : (run sc (k + m) (init sc)).l1 n ≠ none := by rw [ih.1]; exact hp
    have := published_frozen_step sc _ hi n hp'
    rw [← Nat.add_assoc, run_succ]
    exact ⟨this.1.trans ih.1, this.2.trans ih.2⟩

end Ioc.M2.Lc
