/-
  The regenerated programs of the delegate's initialization path compute M4's chains:
  applyPostProcessBeforeInitialization / AfterInitialization = Order.applyBefore / applyAfter, invokeInitMethods,
  InitializeComponent = Order.initializeComponent.
-/
import Ioc.SemInit
import IocProofs.Lemmas.GoTactics
namespace Ioc.Sem
open Ioc Ioc.Go Ioc.Order


variable (procs : List Nat) (before after : Nat → Nat → Res Nat) (im : InitM)

theorem invokeInitMethods_sem (c : Nat) (w : List IEv) :
    run (initBase procs before after im) Progs.del_invokeInitMethods [.str "n", encC c] w =
      some (if (initMethods im c).2 then errN else .nil, w ++ (initMethods im c).1) := by
  unfold initMethods
  cases h1 : im.hasAps c <;> cases h2 : im.apsOk c <;> cases h3 : im.hasInit c <;> cases h4 : im.initOk c <;>
    go_simp [Progs.del_invokeInitMethods, initBase, initFn, encC, h1, h2, h3, h4, errN]

/-- events of a processor list -/
def bevs (l : List Nat) : List IEv := l.map IEv.before
def aevs (l : List Nat) : List IEv := l.map IEv.after

/-- the before-initialization chain without the log accumulator: (processors called, result) -/
def beforeLoop (before : Nat → Nat → Res Nat) : List Nat → Nat → List Nat × Res Nat
  | [], c => ([], .val c)
  | p :: rest, c =>
    match before p c with
    | .err => ([p], .err)
    | .nil => ([p], .nil)
    | .val c' => (p :: (beforeLoop before rest c').1, (beforeLoop before rest c').2)

theorem applyBefore_eq (before : Nat → Nat → Res Nat) (ps : List Nat) (c : Nat) (lg : List Nat) :
    applyBefore before ps c lg = (lg ++ (beforeLoop before ps c).1, (beforeLoop before ps c).2) := by
  induction ps generalizing c lg with
  | nil => simp [applyBefore, beforeLoop]
  | cons p rest ih =>
    simp only [applyBefore, beforeLoop]
    cases before p c with
    | err => simp
    | nil => simp
    | val c' => simp [ih, List.append_assoc]

def ctlOfRes : Res Nat → Ctl
  | .err => .ret (.tuple [.nil, errN])
  | .nil => .ret (.tuple [.nil, .nil])
  | .val _ => .norm

/-- the before-initialization loop -/
theorem loopM_before (before : Nat → Nat → Res Nat) (f : Nat → Val → Env → List IEv → Option (Env × List IEv × Ctl)) (envB : Val → Env)
    (hf : ∀ i p c w, ∃ e', f i (encP p) (envB (encC c)) w = some (e', w ++ [.before p], ctlOfRes (before p c)) ∧
        (∀ c', before p c = .val c' → e' = envB (encC c'))) :
    ∀ (ps : List Nat) (i c : Nat) (w : List IEv),
      ∃ e', loopM f i (ps.map encP) (envB (encC c)) w =
        some (e', w ++ bevs (beforeLoop before ps c).1, ctlOfRes (beforeLoop before ps c).2) ∧
        (∀ c', (beforeLoop before ps c).2 = .val c' → e' = envB (encC c')) := by
  intro ps
  induction ps with
  | nil =>
    intro i c w
    refine ⟨envB (encC c), by simp [loopM, beforeLoop, bevs, ctlOfRes], ?_⟩
    intro c' h
    simp only [beforeLoop, Res.val.injEq] at h
    rw [h]
  | cons p rest ih =>
    intro i c w
    obtain ⟨e', he, hv⟩ := hf i p c w
    simp only [List.map_cons, loopM, he, beforeLoop]
    cases hb : before p c with
    | err => exact ⟨e', by simp [bevs, ctlOfRes], by intro c' h; cases h⟩
    | nil => exact ⟨e', by simp [bevs, ctlOfRes], by intro c' h; cases h⟩
    | val c1 =>
      have := hv c1 hb
      subst this
      obtain ⟨e2, he2, hv2⟩ := ih (i + 1) c1 (w ++ [.before p])
      refine ⟨e2, ?_, hv2⟩
      have hc : ctlOfRes (Res.val c1 : Res Nat) = Ctl.norm := rfl
      simp only [hc]
      rw [he2]
      simp [bevs, List.append_assoc]


def abBody : List Stmt :=
  match Progs.del_applyBefore.body with
  | [_, _, .range _ _ _ b, _] => b
  | _ => []
theorem ab_shape : Progs.del_applyBefore.body =
    [.define ["current"] (.var "c"), .define ["err"] .nil,
     .range "_" "processor" (.glob "self.componentPostProcessors") abBody, .ret [.var "current", .nil]] := rfl
theorem ab_params : Progs.del_applyBefore.params = ["c", "name"] := rfl

def envAB (c0 : Nat) (cur : Val) : Env := [("err", .nil), ("current", cur), ("c", encC c0), ("name", .str "n")]

theorem ab_iter (c0 i p c : Nat) (w : List IEv) :
    ∃ e', (evalB (initBase procs before after im) (Env.def (Env.def (envAB c0 (encC c)) "_" (.int i)) "processor" (encP p)) w abBody).map
        (fun (e', w'', ctl) => (Env.leave e' (envAB c0 (encC c)).length, w'', ctl)) =
      some (e', w ++ [.before p], ctlOfRes (before p c)) ∧ (∀ c', before p c = .val c' → e' = envAB c0 (encC c')) := by
  cases hb : before p c with
  | err => exact ⟨_, by go_simp [abBody, Progs.del_applyBefore, initBase, initFn, envAB, encP, encC, encRes, hb, ctlOfRes, errN]; rfl, by intro c' h; cases h⟩
  | nil => exact ⟨_, by go_simp [abBody, Progs.del_applyBefore, initBase, initFn, envAB, encP, encC, encRes, hb, ctlOfRes, errN]; rfl, by intro c' h; cases h⟩
  | val c1 =>
    refine ⟨envAB c0 (encC c1), by go_simp [abBody, Progs.del_applyBefore, initBase, initFn, envAB, encP, encC, encRes, hb, ctlOfRes, errN], ?_⟩
    intro c' h; cases h; rfl

/-- applyPostProcessBeforeInitialization, regenerated: the chain `Order.applyBefore` -/
theorem applyBefore_sem (c : Nat) (w : List IEv) :
    run (initBase procs before after im) Progs.del_applyBefore [encC c, .str "n"] w =
      some (encRes (beforeLoop before procs c).2, w ++ bevs (beforeLoop before procs c).1) := by
  simp only [run, ab_params, ab_shape, List.length_cons, List.length_nil, if_true, List.zip_cons_cons, List.zip_nil_right]
  rw [evalB_cons]
  have h0 : evalS (initBase procs before after im) [("c", encC c), ("name", Val.str "n")] w (.define ["current"] (.var "c")) =
      some ([("current", encC c), ("c", encC c), ("name", .str "n")], w, .norm) := by go_simp []
  rw [h0]; simp only []
  rw [evalB_cons]
  have h1 : evalS (initBase procs before after im) [("current", encC c), ("c", encC c), ("name", .str "n")] w (.define ["err"] .nil) =
      some (envAB c (encC c), w, .norm) := by go_simp [envAB]
  rw [h1]; simp only []
  rw [evalB_cons]
  simp only [evalS]
  have hcoll : evalE (initBase procs before after im) (envAB c (encC c)) w (.glob "self.componentPostProcessors") =
      some (.list (procs.map encP), w) := by go_simp [initBase, initFn]
  rw [hcoll]; simp only []
  obtain ⟨e', he, hv⟩ := loopM_before before
    (fun i x e w' => (evalB (initBase procs before after im) (Env.def (Env.def e "_" (.int i)) "processor" x) w' abBody).map
      (fun (e', w'', ctl) => (Env.leave e' e.length, w'', ctl)))
    (envAB c) (fun i p c' w' => ab_iter procs before after im c i p c' w') procs 0 c w
  rw [he]
  cases hr : (beforeLoop before procs c).2 with
  | err => simp [ctlOfRes, encRes]
  | nil => simp [ctlOfRes, encRes]
  | val c1 =>
    have := hv c1 hr
    subst this
    simp only [ctlOfRes]
    go_simp [envAB, encRes, encC]


/-- the after-initialization chain without the log accumulator: (processors called, `none` = error) -/
def afterLoop (after : Nat → Nat → Res Nat) : List Nat → Nat → List Nat × Option Nat
  | [], r => ([], some r)
  | p :: rest, r =>
    match after p r with
    | .err => ([p], none)
    | .nil => ([p], some r)
    | .val c' => (p :: (afterLoop after rest c').1, (afterLoop after rest c').2)

theorem applyAfter_eq (after : Nat → Nat → Res Nat) (ps : List Nat) (r : Nat) (lg : List Nat) :
    applyAfter after ps r lg = (lg ++ (afterLoop after ps r).1, (afterLoop after ps r).2) := by
  induction ps generalizing r lg with
  | nil => simp [applyAfter, afterLoop]
  | cons p rest ih =>
    simp only [applyAfter, afterLoop]
    cases after p r with
    | err => simp
    | nil => simp
    | val c' => simp [ih, List.append_assoc]

def encAfter : Option Nat → Val
  | some r => .tuple [encC r, .nil]
  | none => .tuple [.nil, errN]

/-- how the after-loop ends -/
inductive AEnd
  | err
  | nilAt (r : Nat)      -- a processor returned nil: `return result, nil` from inside the loop
  | done (r : Nat)       -- fell off the end with `result`

def afterEnd (after : Nat → Nat → Res Nat) : List Nat → Nat → List Nat × AEnd
  | [], r => ([], .done r)
  | p :: rest, r =>
    match after p r with
    | .err => ([p], .err)
    | .nil => ([p], .nilAt r)
    | .val c' => (p :: (afterEnd after rest c').1, (afterEnd after rest c').2)

def AEnd.res : AEnd → Option Nat
  | .err => none
  | .nilAt r => some r
  | .done r => some r

theorem afterEnd_loop (after : Nat → Nat → Res Nat) (ps : List Nat) (r : Nat) :
    afterLoop after ps r = ((afterEnd after ps r).1, (afterEnd after ps r).2.res) := by
  induction ps generalizing r with
  | nil => rfl
  | cons p rest ih =>
    simp only [afterLoop, afterEnd]
    cases after p r with
    | err => rfl
    | nil => rfl
    | val c' => simp [ih]

def ctlOfEnd : AEnd → Ctl
  | .err => .ret (.tuple [.nil, errN])
  | .nilAt r => .ret (.tuple [encC r, .nil])
  | .done _ => .norm

def ctlAfter (r : Nat) : Res Nat → Ctl
  | .err => .ret (.tuple [.nil, errN])
  | .nil => .ret (.tuple [encC r, .nil])
  | .val _ => .norm

theorem loopM_after (after : Nat → Nat → Res Nat) (f : Nat → Val → Env → List IEv → Option (Env × List IEv × Ctl))
    (envA : Val → Val → Env)
    (hf : ∀ i p r cur w, ∃ e', f i (encP p) (envA cur (encC r)) w = some (e', w ++ [.after p], ctlAfter r (after p r)) ∧
        (∀ c', after p r = .val c' → e' = envA (encC c') (encC c'))) :
    ∀ (ps : List Nat) (i r : Nat) (cur : Val) (w : List IEv),
      ∃ e', loopM f i (ps.map encP) (envA cur (encC r)) w =
        some (e', w ++ aevs (afterEnd after ps r).1, ctlOfEnd (afterEnd after ps r).2) ∧
        (∀ r', (afterEnd after ps r).2 = .done r' → ∃ cur', e' = envA cur' (encC r')) := by
  intro ps
  induction ps with
  | nil =>
    intro i r cur w
    refine ⟨envA cur (encC r), by simp [loopM, afterEnd, aevs, ctlOfEnd], ?_⟩
    intro r' h
    simp only [afterEnd, AEnd.done.injEq] at h
    exact ⟨cur, by rw [h]⟩
  | cons p rest ih =>
    intro i r cur w
    obtain ⟨e', he, hv⟩ := hf i p r cur w
    simp only [List.map_cons, loopM, he, afterEnd]
    cases hb : after p r with
    | err => exact ⟨e', by simp [aevs, ctlOfEnd, ctlAfter], by intro r' h; cases h⟩
    | nil => exact ⟨e', by simp [aevs, ctlOfEnd, ctlAfter], by intro r' h; cases h⟩
    | val c1 =>
      have := hv c1 hb
      subst this
      obtain ⟨e2, he2, hv2⟩ := ih (i + 1) c1 (encC c1) (w ++ [.after p])
      refine ⟨e2, ?_, hv2⟩
      have hc : ctlAfter r (Res.val c1 : Res Nat) = Ctl.norm := rfl
      simp only [hc]
      rw [he2]
      simp [aevs, List.append_assoc]



def aaBody : List Stmt :=
  match Progs.del_applyAfter.body with
  | [_, _, _, .range _ _ _ b, _] => b
  | _ => []
theorem aa_shape : Progs.del_applyAfter.body =
    [.define ["result"] (.var "c"), .define ["err"] .nil, .define ["current"] .nil,
     .range "_" "processor" (.glob "self.componentPostProcessors") aaBody, .ret [.var "result", .nil]] := rfl
theorem aa_params : Progs.del_applyAfter.params = ["c", "name"] := rfl

def envAA (c0 : Nat) (cur res : Val) : Env :=
  [("current", cur), ("err", .nil), ("result", res), ("c", encC c0), ("name", .str "n")]

theorem aa_iter (c0 i p r : Nat) (cur : Val) (w : List IEv) :
    ∃ e', (evalB (initBase procs before after im) (Env.def (Env.def (envAA c0 cur (encC r)) "_" (.int i)) "processor" (encP p)) w aaBody).map
        (fun (e', w'', ctl) => (Env.leave e' (envAA c0 cur (encC r)).length, w'', ctl)) =
      some (e', w ++ [.after p], ctlAfter r (after p r)) ∧ (∀ c', after p r = .val c' → e' = envAA c0 (encC c') (encC c')) := by
  cases hb : after p r with
  | err => exact ⟨_, by go_simp [aaBody, Progs.del_applyAfter, initBase, initFn, envAA, encP, encC, encRes, hb, ctlAfter, errN]; rfl, by intro c' h; cases h⟩
  | nil => exact ⟨_, by go_simp [aaBody, Progs.del_applyAfter, initBase, initFn, envAA, encP, encC, encRes, hb, ctlAfter, errN]; rfl, by intro c' h; cases h⟩
  | val c1 =>
    refine ⟨envAA c0 (encC c1) (encC c1), by go_simp [aaBody, Progs.del_applyAfter, initBase, initFn, envAA, encP, encC, encRes, hb, ctlAfter, errN], ?_⟩
    intro c' h; cases h; rfl

/-- applyPostProcessAfterInitialization, regenerated: the chain `Order.applyAfter` -/
theorem applyAfter_sem (c : Nat) (w : List IEv) :
    run (initBase procs before after im) Progs.del_applyAfter [encC c, .str "n"] w =
      some (encAfter (afterLoop after procs c).2, w ++ aevs (afterLoop after procs c).1) := by
  simp only [run, aa_params, aa_shape, List.length_cons, List.length_nil, if_true, List.zip_cons_cons, List.zip_nil_right]
  have h012 : evalB (initBase procs before after im) [("c", encC c), ("name", Val.str "n")] w
      [.define ["result"] (.var "c"), .define ["err"] .nil, .define ["current"] .nil] = some (envAA c .nil (encC c), w, .norm) := by
    go_simp [envAA]
  rw [show [Stmt.define ["result"] (.var "c"), .define ["err"] .nil, .define ["current"] .nil,
        .range "_" "processor" (.glob "self.componentPostProcessors") aaBody, .ret [.var "result", .nil]] =
      [Stmt.define ["result"] (.var "c"), .define ["err"] .nil, .define ["current"] .nil] ++
      [.range "_" "processor" (.glob "self.componentPostProcessors") aaBody, .ret [.var "result", .nil]] from rfl]
  rw [evalB_append, h012]; simp only []
  rw [evalB_cons]
  simp only [evalS]
  have hcoll : evalE (initBase procs before after im) (envAA c .nil (encC c)) w (.glob "self.componentPostProcessors") =
      some (.list (procs.map encP), w) := by go_simp [initBase, initFn]
  rw [hcoll]; simp only []
  obtain ⟨e', he, hv⟩ := loopM_after after
    (fun i x e w' => (evalB (initBase procs before after im) (Env.def (Env.def e "_" (.int i)) "processor" x) w' aaBody).map
      (fun (e', w'', ctl) => (Env.leave e' e.length, w'', ctl)))
    (envAA c) (fun i p r cur w' => aa_iter procs before after im c i p r cur w') procs 0 c .nil w
  rw [he, afterEnd_loop]
  cases hr : (afterEnd after procs c).2 with
  | err => simp [ctlOfEnd, encAfter, AEnd.res]
  | nilAt r => simp [ctlOfEnd, encAfter, AEnd.res]
  | done r =>
    obtain ⟨cur', hc⟩ := hv r hr
    subst hc
    simp only [ctlOfEnd, AEnd.res]
    go_simp [envAA, encAfter, encC]


def callAB (args : List Val) (w : List IEv) := run (initBase procs before after im) Progs.del_applyBefore args w
def callIM (args : List Val) (w : List IEv) := run (initBase procs before after im) Progs.del_invokeInitMethods args w
def callAA (args : List Val) (w : List IEv) := run (initBase procs before after im) Progs.del_applyAfter args w

/-- InitializeComponent sees its sibling methods as runs of their regenerated programs -/
def initFull : Prims (List IEv) :=
  { fn := fun f args w =>
      match f with
      | "self.applyPostProcessBeforeInitialization" => callAB procs before after im args w
      | "self.invokeInitMethods" => callIM procs before after im args w
      | "self.applyPostProcessAfterInitialization" => callAA procs before after im args w
      | _ => initFn procs before after im f args w }

/-- InitializeComponent on the model: (result: `none` error / `some c` the component handed back, events in order) -/
def initializeModel (c : Nat) : Option Nat × List IEv :=
  match beforeLoop before procs c with
  | (lb, .err) => (none, bevs lb)
  | (lb, .nil) => (some c, bevs lb)
  | (lb, .val w1) =>
    if (initMethods im w1).2 then (none, bevs lb ++ (initMethods im w1).1)
    else ((afterLoop after procs w1).2, bevs lb ++ (initMethods im w1).1 ++ aevs (afterLoop after procs w1).1)

/-- InitializeComponent, regenerated: before-initialization chain, then AfterPropertiesSet, then Init, then the
    after-initialization chain; the first error ends it; a nil from a before-callback hands back the original -/
theorem initializeComponent_sem (c : Nat) :
    run (initFull procs before after im) Progs.del_InitializeComponent [.str "n", encC c] [] =
      some (encAfter (initializeModel procs before after im c).1, (initializeModel procs before after im c).2) := by
  have hab : callAB procs before after im [encC c, .str "n"] [] = _ := applyBefore_sem procs before after im c []
  unfold initializeModel
  cases hb : beforeLoop before procs c with
  | mk lb rb =>
    rw [hb] at hab
    simp only [encC, List.nil_append] at hab
    cases rb with
    | err => go_simp [Progs.del_InitializeComponent, initFull, hab, encRes, encAfter, errN, encC]
    | nil => go_simp [Progs.del_InitializeComponent, initFull, hab, encRes, encAfter, errN, encC]
    | val w1 =>
      have him : callIM procs before after im [.str "n", encC w1] (bevs lb) = _ :=
        invokeInitMethods_sem procs before after im w1 (bevs lb)
      simp only [encC] at him
      cases hf : (initMethods im w1).2 with
      | true =>
        rw [hf] at him
        go_simp [Progs.del_InitializeComponent, initFull, hab, him, encRes, encAfter, errN, encC, hf]
      | false =>
        rw [hf] at him
        have haa : callAA procs before after im [encC w1, .str "n"] (bevs lb ++ (initMethods im w1).1) = _ :=
          applyAfter_sem procs before after im w1 _
        simp only [encC] at haa
        cases hr : (afterLoop after procs w1).2 with
        | none =>
          rw [hr] at haa
          go_simp [Progs.del_InitializeComponent, initFull, hab, him, haa, encRes, encAfter, errN, encC, hf, hr]
        | some r =>
          rw [hr] at haa
          go_simp [Progs.del_InitializeComponent, initFull, hab, him, haa, encRes, encAfter, errN, encC, hf, hr]

/-- the model function of M4 is this one: same logs, same result -/
theorem initializeModel_eq (c : Nat) :
    initializeComponent before after (fun w => (initMethods im w).2) procs c =
      (match beforeLoop before procs c with
       | (lb, .err) => (lb, [], none)
       | (lb, .nil) => (lb, [], some c)
       | (lb, .val w1) =>
         if (initMethods im w1).2 then (lb, [], none)
         else (lb, (afterLoop after procs w1).1, (afterLoop after procs w1).2)) := by
  unfold initializeComponent
  rw [applyBefore_eq]
  cases hb : beforeLoop before procs c with
  | mk lb rb =>
    cases rb with
    | err => simp
    | nil => simp
    | val w1 =>
      simp only [List.nil_append]
      cases (initMethods im w1).2 with
      | true => simp
      | false => simp [applyAfter_eq]


end Ioc.Sem
