/-
  The regenerated programs `defaultFactory.Refresh` and `Meta.IsSelf` (a type switch and a three-clause loop) compute the
  models of Ioc.SemRefresh: Refresh creates the non-lazy definitions in the order of their sorted names, IsSelf walks the
  whole proxy chain.
-/
import Ioc.SemRefresh
import IocProofs.Lemmas.GoTactics
namespace Ioc.Sem
open Ioc Ioc.Go Ioc.Order

section isself
variable (selfPtr : Nat) (addr : Nat → Nat)

def isStep (t : Option Nat) (w : Unit) : Option Nat × Unit × Option Ctl :=
  match t with
  | none => (none, w, some .norm)
  | some k =>
    if addr k == selfPtr then (some k, w, some (.ret (.bool true)))
    else (match k with | 0 => none | k' + 1 => some k', w, none)

theorem isStep_loop (k : Nat) : ∀ n, k + 2 ≤ n →
    ∃ t', stepWhile (isStep selfPtr addr) n (some k) () =
      some (t', (), if isSelfModel selfPtr addr (some k) then .ret (.bool true) else .norm) := by
  induction k with
  | zero =>
    intro n hn
    obtain ⟨m, rfl⟩ : ∃ m, n = m + 2 := ⟨n - 2, by omega⟩
    by_cases h : addr 0 == selfPtr
    · exact ⟨some 0, by simp [stepWhile, isStep, h, isSelfModel, List.range_succ]⟩
    · exact ⟨none, by simp [stepWhile, isStep, h, isSelfModel, List.range_succ]⟩
  | succ k ih =>
    intro n hn
    obtain ⟨m, rfl⟩ : ∃ m, n = m + 1 := ⟨n - 1, by omega⟩
    by_cases h : addr (k + 1) == selfPtr
    · exact ⟨some (k + 1), by simp [stepWhile, isStep, h, isSelfModel, List.range_succ]⟩
    · obtain ⟨t', ht⟩ := ih m (by omega)
      refine ⟨t', ?_⟩
      simp only [stepWhile, isStep, h, Bool.false_eq_true, if_false]
      rw [ht]
      have : isSelfModel selfPtr addr (some (k + 1)) = isSelfModel selfPtr addr (some k) := by
        simp only [isSelfModel]
        rw [List.range_succ (n := k + 1), List.any_append]
        simp [h]
      simp [this]


def isBody : List Stmt :=
  match Progs.meta_IsSelf.body with
  | [.forc _ _ _ b, _] => b
  | _ => []
theorem is_shape : Progs.meta_IsSelf.body =
    [.forc [.define ["p"] (.var "o")] (.bin "!=" (.var "p") .nil) [.assign ["p"] (.sel (.var "p") "ProxyMeta")] isBody,
     .ret [.bool false]] := rfl
theorem is_params : Progs.meta_IsSelf.params = ["o"] := rfl

def envIS (o : Val) (t : Option Nat) : Env := [("p", encMetaO t), ("o", o)]

/-- one round of the loop: condition, body, post statement -/
theorem is_iter (fuel : Nat) (o : Val) (t : Option Nat) (w : Unit) :
    forcIter (isSelfPrims selfPtr addr fuel) (.bin "!=" (.var "p") .nil) [.assign ["p"] (.sel (.var "p") "ProxyMeta")] isBody (envIS o t) w =
    some (envIS o (isStep selfPtr addr t w).1, (isStep selfPtr addr t w).2.1, (isStep selfPtr addr t w).2.2) := by
  cases t with
  | none => go_simp [forcIter, envIS, encMetaO, isStep]
  | some k =>
    by_cases h : addr k == selfPtr
    · have h' : addr k = selfPtr := by simpa using h
      have hI : ((selfPtr : Int) == (addr k : Int)) = true := by simp [h']
      go_simp [forcIter, envIS, encMetaO, encMeta, isStep, isBody, Progs.meta_IsSelf, isSelfPrims, isSelfFn, h, hI]
    · have h' : ¬ addr k = selfPtr := by simpa using h
      have hI : ((selfPtr : Int) == (addr k : Int)) = false := by
        have : ¬ (selfPtr : Int) = (addr k : Int) := by omega
        simpa using this
      cases k with
      | zero => go_simp [forcIter, envIS, encMetaO, encMeta, isStep, isBody, Progs.meta_IsSelf, isSelfPrims, isSelfFn, h, hI]
      | succ k => go_simp [forcIter, envIS, encMetaO, encMeta, isStep, isBody, Progs.meta_IsSelf, isSelfPrims, isSelfFn, h, hI]

/-- Meta.IsSelf, regenerated (meta.go:76-83): true exactly when some meta on the proxy chain of `o` has the holder's
    address as its origin address — for EVERY chain length, given enough fuel (any fuel above the chain length + 1) -/
theorem isSelf_sem (t : Option Nat) (fuel : Nat) (hf : (match t with | none => 1 | some k => k + 2) ≤ fuel) :
    run (isSelfPrims selfPtr addr fuel) Progs.meta_IsSelf [encMetaO t] () =
      some (.bool (isSelfModel selfPtr addr t), ()) := by
  simp only [run, is_params, is_shape, List.length_cons, List.length_nil, if_true, List.zip_cons_cons, List.zip_nil_right]
  rw [evalB_cons]
  rw [evalS_forc_state (isSelfPrims selfPtr addr fuel) [("o", encMetaO t)] () () _ _ _ _ (envIS (encMetaO t)) (isStep selfPtr addr) t
    (by go_simp [envIS]) (fun t' w' => is_iter selfPtr addr fuel (encMetaO t) t' w')]
  have hfuel : (isSelfPrims selfPtr addr fuel).fuel = fuel := rfl
  rw [hfuel]
  cases t with
  | none =>
    obtain ⟨m, rfl⟩ : ∃ m, fuel = m + 1 := ⟨fuel - 1, by simp at hf; omega⟩
    go_simp [stepWhile, isStep, isSelfModel, envIS]
  | some k =>
    obtain ⟨t', ht⟩ := isStep_loop selfPtr addr k fuel (by simpa using hf)
    rw [ht]
    cases hm : isSelfModel selfPtr addr (some k) <;> go_simp [envIS]

end isself

section refresh
variable (sort : (Nat → Nat → Bool) → List Nat → List Nat) (metas : List Nat) (lazy getFails : Nat → Bool)

def ltb (a b : Nat) : Bool := decide (a < b)

def encNames : List Nat → Val
  | [] => .nil
  | l => .list (l.map (fun (n : Nat) => Val.int n))

/-- the names Refresh creates, in creation order: the non-lazy definitions, sorted by name -/
def refreshNames : List Nat :=
  match metas.filter (fun n => !lazy n) with
  | [] => []
  | l => sort ltb l

def rfStmt (i : Nat) : Stmt := Progs.fac_Refresh.body.getD i .brk
theorem rf_body : Progs.fac_Refresh.body = [rfStmt 0, rfStmt 1, rfStmt 2, rfStmt 3, rfStmt 4] := rfl
theorem rf_params : Progs.fac_Refresh.params = [] := rfl
def rfBody1 : List Stmt := match rfStmt 1 with | .range _ _ _ b => b | _ => []
def rfBody3 : List Stmt := match rfStmt 3 with | .range _ _ _ b => b | _ => []
theorem rf_s1_shape : rfStmt 1 = .range "_" "meta" (.call "self.definitionRegistry.GetMetas" []) rfBody1 := rfl
theorem rf_s3_shape : rfStmt 3 = .range "_" "name" (.var "names") rfBody3 := rfl

abbrev RFP := refreshPrims sort metas lazy getFails

def collectStep (n : Nat) (l : List Nat) (w : List Nat) : List Nat × List Nat × Option Val :=
  (if lazy n then l else l ++ [n], w, none)

theorem collectStep_loop (xs l w : List Nat) :
    stepLoop (collectStep lazy) xs l w = (l ++ xs.filter (fun n => !lazy n), w, none) := by
  induction xs generalizing l with
  | nil => simp [stepLoop]
  | cons x xs ih =>
    simp only [stepLoop, collectStep, List.filter_cons]
    cases hl : lazy x <;> simp [ih]

theorem encNames_snoc (l : List Nat) (n : Nat) : encNames (l ++ [n]) = .list ((l ++ [n]).map (fun (n : Nat) => Val.int n)) := by
  cases l <;> rfl

theorem rf1_iter (i n : Nat) (l w : List Nat) :
    ∃ c, (evalB (RFP sort metas lazy getFails) (Env.def (Env.def [("names", encNames l)] "_" (.int i)) "meta" (.ref n 70)) w rfBody1).map
        (fun (e', w'', ctl) => (Env.leave e' ([("names", encNames l)] : Env).length, w'', ctl)) =
      some ([("names", encNames (collectStep lazy n l w).1)], (collectStep lazy n l w).2.1, c) ∧
      CtlMatches c (collectStep lazy n l w).2.2 := by
  cases hl : lazy n with
  | true => exact ⟨.cont, by go_simp [rfBody1, rfStmt, Progs.fac_Refresh, refreshPrims, refreshFn, collectStep, hl], Or.inl ⟨rfl, Or.inr rfl⟩⟩
  | false =>
    refine ⟨.norm, ?_, Or.inl ⟨rfl, Or.inl rfl⟩⟩
    cases l with
    | nil => go_simp [rfBody1, rfStmt, Progs.fac_Refresh, refreshPrims, refreshFn, collectStep, hl, encNames]
    | cons a l => go_simp [rfBody1, rfStmt, Progs.fac_Refresh, refreshPrims, refreshFn, collectStep, hl, encNames]

theorem rf_s1 (w : List Nat) :
    evalS (RFP sort metas lazy getFails) [("names", .nil)] w (rfStmt 1) =
      some ([("names", encNames (metas.filter (fun n => !lazy n)))], w, .norm) := by
  rw [rf_s1_shape]
  simp only [evalS]
  have hcoll : evalE (RFP sort metas lazy getFails) [("names", .nil)] w (.call "self.definitionRegistry.GetMetas" []) =
      some (.list (metas.map (fun n => .ref n 70)), w) := by go_simp [refreshPrims, refreshFn]
  rw [hcoll]; simp only []
  have := loopM_state_cont (fun n => Val.ref n 70)
    (fun i x e w' => (evalB (RFP sort metas lazy getFails) (Env.def (Env.def e "_" (.int i)) "meta" x) w' rfBody1).map
      (fun (e', w'', ctl) => (Env.leave e' e.length, w'', ctl)))
    (fun l => [("names", encNames l)]) (collectStep lazy) (fun i x l w' => rf1_iter sort metas lazy getFails i x l w') metas 0 [] w
  rw [show ([("names", Val.nil)] : Env) = (fun l => [("names", encNames l)]) [] from rfl, this, collectStep_loop]
  simp [ctlOf]

theorem decInts_map (l : List Nat) : decInts (l.map (fun (n : Nat) => Val.int n)) = some l := by
  induction l with
  | nil => rfl
  | cons a l ih => simp [decInts, ih]

def refreshSortedVal : Val :=
  match metas.filter (fun n => !lazy n) with
  | [] => .nil
  | l => .list ((sort ltb l).map (fun (n : Nat) => Val.int n))

/-- the sort call: the comparator literal `i < j` is what the handler computes -/
theorem rf_s2 (w : List Nat) :
    evalS (RFP sort metas lazy getFails) [("names", encNames (metas.filter (fun n => !lazy n)))] w (rfStmt 2) =
      some ([("names", refreshSortedVal sort metas lazy)], w, .norm) := by
  unfold refreshSortedVal
  cases hl : metas.filter (fun n => !lazy n) with
  | nil => go_simp [rfStmt, Progs.fac_Refresh, refreshPrims, refreshHfn, encNames]
  | cons a l =>
    have hd := decInts_map (a :: l)
    simp only [List.map_cons] at hd
    have hcmp : (fun (a b : Nat) => decide (a < b)) = ltb := rfl
    go_simp [rfStmt, Progs.fac_Refresh, refreshPrims, refreshHfn, encNames, hd, hcmp]

def getStep (n : Nat) (_ : Unit) (w : List Nat) : Unit × List Nat × Option Val :=
  ((), w ++ [n], if getFails n then some errN else none)

theorem getStep_loop (xs w : List Nat) :
    stepLoop (getStep getFails) xs () w = ((), (runLoop getFails xs w).1, if (runLoop getFails xs w).2 then some errN else none) := by
  induction xs generalizing w with
  | nil => simp [stepLoop, runLoop]
  | cons x xs ih =>
    by_cases hf : getFails x = true
    · simp [stepLoop, getStep, runLoop, hf]
    · simp [stepLoop, getStep, runLoop, hf, ih]

theorem rf3_iter (v : Val) (i n : Nat) (w : List Nat) :
    (evalB (RFP sort metas lazy getFails) (Env.def (Env.def [("names", v)] "_" (.int i)) "name" (.int n)) w rfBody3).map
        (fun (e', w'', ctl) => (Env.leave e' ([("names", v)] : Env).length, w'', ctl)) =
      some ([("names", v)], (getStep getFails n () w).2.1, ctlOf (getStep getFails n () w).2.2) := by
  cases hf : getFails n <;>
    go_simp [rfBody3, rfStmt, Progs.fac_Refresh, refreshPrims, refreshFn, getStep, hf, ctlOf, errN]

theorem rf_s3 (w : List Nat) :
    evalS (RFP sort metas lazy getFails) [("names", refreshSortedVal sort metas lazy)] w (rfStmt 3) =
      some ([("names", refreshSortedVal sort metas lazy)], (runLoop getFails (refreshNames sort metas lazy) w).1,
            if (runLoop getFails (refreshNames sort metas lazy) w).2 then .ret errN else .norm) := by
  rw [rf_s3_shape]
  simp only [evalS]
  unfold refreshSortedVal refreshNames
  cases hl : metas.filter (fun n => !lazy n) with
  | nil => go_simp [runLoop]
  | cons a l =>
    have hcoll : evalE (RFP sort metas lazy getFails) [("names", .list ((sort ltb (a :: l)).map (fun (n : Nat) => Val.int n)))] w (.var "names") =
        some (.list ((sort ltb (a :: l)).map (fun (n : Nat) => Val.int n)), w) := by go_simp []
    simp only []
    rw [hcoll]; simp only []
    have := loopM_state (fun (n : Nat) => Val.int n)
      (fun i x e w' => (evalB (RFP sort metas lazy getFails) (Env.def (Env.def e "_" (.int i)) "name" x) w' rfBody3).map
        (fun (e', w'', ctl) => (Env.leave e' e.length, w'', ctl)))
      (fun (_ : Unit) => [("names", .list ((sort ltb (a :: l)).map (fun (n : Nat) => Val.int n)))]) (getStep getFails)
      (fun i x _ w' => rf3_iter sort metas lazy getFails _ i x w') (sort ltb (a :: l)) 0 () w
    rw [this, getStep_loop]
    cases h : (runLoop getFails (sort ltb (a :: l)) w).2 <;> simp [ctlOf]

/-- Refresh, regenerated (factory.go:92-118): the non-lazy definitions' names are collected in enumeration order, SORTED
    with the comparator `i < j`, and created in that order; the first failing creation ends the refresh -/
theorem refresh_sem :
    run (RFP sort metas lazy getFails) Progs.fac_Refresh [] [] =
      some (if (runLoop getFails (refreshNames sort metas lazy) []).2 then errN else .nil,
            (runLoop getFails (refreshNames sort metas lazy) []).1) := by
  simp only [run, rf_params, rf_body, List.length_nil, if_true, List.zip_nil_left]
  rw [evalB_cons]
  have h0 : evalS (RFP sort metas lazy getFails) [] [] (rfStmt 0) = some ([("names", .nil)], [], .norm) := by
    go_simp [rfStmt, Progs.fac_Refresh]
  rw [h0]; simp only []
  rw [evalB_cons, rf_s1]; simp only []
  rw [evalB_cons, rf_s2]; simp only []
  rw [evalB_cons, rf_s3]
  cases h : (runLoop getFails (refreshNames sort metas lazy) []).2 with
  | true => simp
  | false =>
    simp only [Bool.false_eq_true, if_false]
    go_simp [rfStmt, Progs.fac_Refresh]

end refresh

/-- the creation order does not depend on the order in which the registry enumerates the definitions: any sort that returns
    a sorted permutation gives the same list for permuted inputs -/
theorem refreshNames_perm (sort : (Nat → Nat → Bool) → List Nat → List Nat) (lazy : Nat → Bool) (m1 m2 : List Nat)
    (hs : ∀ l, (sort ltb l).Perm l ∧ (sort ltb l).Pairwise (fun a b => a ≤ b)) (h : m1.Perm m2) :
    refreshNames sort m1 lazy = refreshNames sort m2 lazy := by
  have hf : (m1.filter (fun n => !lazy n)).Perm (m2.filter (fun n => !lazy n)) := h.filter _
  unfold refreshNames
  cases h1 : m1.filter (fun n => !lazy n) with
  | nil =>
    rw [h1] at hf
    have : m2.filter (fun n => !lazy n) = [] := List.Perm.eq_nil hf.symm
    simp [this]
  | cons a l =>
    cases h2 : m2.filter (fun n => !lazy n) with
    | nil => rw [h1, h2] at hf; exact absurd (List.Perm.eq_nil hf) (by simp)
    | cons b l' =>
      simp only []
      rw [h1, h2] at hf
      exact List.Perm.eq_of_pairwise (le := fun a b => a ≤ b) (fun a b _ _ h1 h2 => Nat.le_antisymm h1 h2)
        (hs _).2 (hs _).2 (((hs _).1.trans hf).trans (hs _).1.symm)

end Ioc.Sem
