/-
  Faithfulness of the tag grammar: Split is the inverse of joining bracket-balanced parts, and
  TagArg.Parse recovers exactly what `render` wrote.
-/
import IocProofs.Lemmas.TagTotal
namespace Ioc.Tag

/-! ### Index on text without a top-level separator -/

section generic
variable {α : Type} [DecidableEq α]

/-- on balanced text whose separators are all inside brackets the loop ends with -1
    (it returns at the last closing bracket that brings the depth back to 0) -/
theorem loop_wf_neg (sep : α) (isL isR : α → Bool) (pre : List α) (d i : Nat) (idx : Int)
    (hwf : WFpre sep isL isR pre d = true)
    (hidx : d = 0 → ∃ k, idxFrom sep pre = some k ∧ idx = (i : Int) + k) :
    loop sep isL isR pre i (d : Int) idx = -1 := by
  induction pre generalizing d i idx with
  | nil =>
    simp only [WFpre, beq_iff_eq] at hwf
    obtain ⟨k, hk, _⟩ := hidx hwf
    simp [idxFrom] at hk
  | cons a rest ih =>
    simp only [loop]
    simp only [WFpre] at hwf
    by_cases hL : isL a = true
    · simp only [hL, if_true] at hwf ⊢
      have := ih (d+1) (i+1) idx hwf (by intro h; omega)
      push_cast at this
      exact this
    · simp only [hL, Bool.false_eq_true, if_false] at hwf ⊢
      by_cases hR : isR a = true
      · simp only [hR, if_true, Bool.and_eq_true, decide_eq_true_eq] at hwf ⊢
        obtain ⟨hd, hwf⟩ := hwf
        by_cases hd1 : (d : Int) - 1 = 0
        · simp only [hd1, if_true]
          have hd' : d - 1 = 0 := by omega
          cases hk : idxFrom sep rest with
          | none => rfl
          | some k =>
            simp only
            have := ih 0 (i+1) ((k : Int) + i + 1) (by rw [hd'] at hwf; exact hwf)
              (by intro _; exact ⟨k, hk, by push_cast; omega⟩)
            push_cast at this
            exact this
        · simp only [hd1, if_false]
          have hcast : ((d : Int) - 1) = ((d - 1 : Nat) : Int) := by omega
          rw [hcast]
          have := ih (d-1) (i+1) idx hwf (by intro h; omega)
          push_cast at this
          exact this
      · simp only [hR, Bool.false_eq_true, if_false] at hwf ⊢
        by_cases hs : a = sep
        · simp only [hs, if_true, Bool.and_eq_true, decide_eq_true_eq] at hwf
          obtain ⟨hd, hwf⟩ := hwf
          have hne : ¬ ((d : Int) = 0 ∧ idx ≤ (i : Int)) := by omega
          simp only [hne, if_false]
          have := ih d (i+1) idx hwf (by intro h; omega)
          push_cast at this
          exact this
        · simp only [hs, if_false] at hwf
          by_cases hd0 : d = 0
          · obtain ⟨k, hk, hidx'⟩ := hidx hd0
            simp only [idxFrom, hs, if_false] at hk
            cases hk' : idxFrom sep rest with
            | none => simp [hk'] at hk
            | some k' =>
              simp [hk'] at hk
              have hne : ¬ ((d : Int) = 0 ∧ idx ≤ (i : Int)) := by omega
              simp only [hne, if_false]
              have := ih d (i+1) idx hwf (by intro _; exact ⟨k', hk', by push_cast; omega⟩)
              push_cast at this
              exact this
          · have hne : ¬ ((d : Int) = 0 ∧ idx ≤ (i : Int)) := by omega
            simp only [hne, if_false]
            have := ih d (i+1) idx hwf (by intro h; exact absurd h hd0)
            push_cast at this
            exact this

/-- no top-level separator: Index answers -1 -/
theorem index_wf_neg (sep : α) (isL isR : α → Bool) (s : List α)
    (hwf : WFpre sep isL isR s 0 = true) : index sep isL isR s = -1 := by
  unfold index
  cases hk : idxFrom sep s with
  | none => rfl
  | some k =>
    have := loop_wf_neg sep isL isR s 0 0 k hwf (by intro _; exact ⟨k, hk, by simp⟩)
    simpa using this

/-- balanced pieces concatenate -/
theorem WFpre_append (sep : α) (isL isR : α → Bool) (s t : List α) (d : Nat)
    (hs : WFpre sep isL isR s d = true) (ht : WFpre sep isL isR t 0 = true) :
    WFpre sep isL isR (s ++ t) d = true := by
  induction s generalizing d with
  | nil =>
    simp only [WFpre, beq_iff_eq] at hs
    subst hs; simpa using ht
  | cons a s ih =>
    simp only [List.cons_append, WFpre] at hs ⊢
    by_cases hL : isL a = true
    · simp only [hL, if_true] at hs ⊢
      exact ih _ hs
    · simp only [hL, Bool.false_eq_true, if_false] at hs ⊢
      by_cases hR : isR a = true
      · simp only [hR, if_true, Bool.and_eq_true, decide_eq_true_eq] at hs ⊢
        exact ⟨hs.1, ih _ hs.2⟩
      · simp only [hR, Bool.false_eq_true, if_false] at hs ⊢
        by_cases hq : a = sep
        · simp only [hq, if_true, Bool.and_eq_true, decide_eq_true_eq] at hs ⊢
          exact ⟨hs.1, ih _ hs.2⟩
        · simp only [hq, if_false] at hs ⊢
          exact ih _ hs

/-- text without separator and without brackets is well-formed at depth 0 -/
theorem WFpre_plain (sep : α) (isL isR : α → Bool) (s : List α)
    (h : ∀ b ∈ s, b ≠ sep ∧ isL b = false ∧ isR b = false) : WFpre sep isL isR s 0 = true := by
  induction s with
  | nil => rfl
  | cons a s ih =>
    have ha := h a (by simp)
    simp only [WFpre, ha.1, ha.2.1, ha.2.2, Bool.false_eq_true, if_false]
    exact ih (fun b hb => h b (by simp [hb]))

theorem idxFrom_plain (sep : α) (pre post : List α) (h : ∀ b ∈ pre, b ≠ sep) :
    idxFrom sep (pre ++ sep :: post) = some pre.length := by
  induction pre with
  | nil => simp [idxFrom]
  | cons a pre ih =>
    have ha := h a (by simp)
    simp only [List.cons_append, idxFrom, ha, if_false, ih (fun b hb => h b (by simp [hb]))]
    simp

omit [DecidableEq α] in
theorem drop_append_cons (p : List α) (x : α) (t : List α) : List.drop (p.length + 1) (p ++ x :: t) = t := by
  induction p with
  | nil => rfl
  | cons a p ih => simp

end generic

/-! ### Split ∘ join = id -/

theorem joinB_cons2 (sep : UInt8) (p q : Bytes) (r : List Bytes) :
    joinB sep (p :: q :: r) = p ++ sep :: joinB sep (q :: r) := rfl

theorem splitGo_joinB (sep : UInt8) (isL isR : UInt8 → Bool) (hsL : isL sep = false) (hsR : isR sep = false)
    (parts : List Bytes) (hne : parts ≠ []) (hwf : ∀ p ∈ parts, WFpre sep isL isR p 0 = true)
    (k : Nat) (hk : parts.length ≤ k + 1) :
    splitGo sep isL isR k (joinB sep parts) = parts := by
  induction parts generalizing k with
  | nil => exact absurd rfl hne
  | cons p rest ih =>
    cases rest with
    | nil =>
      have hp := index_wf_neg sep isL isR p (hwf p (by simp))
      cases k with
      | zero => simp [joinB, splitGo]
      | succ k => simp [joinB, splitGo, hp]
    | cons q r =>
      cases k with
      | zero => simp at hk
      | succ k =>
        rw [joinB_cons2]
        have hi := index_toplevel sep isL isR hsL hsR p (joinB sep (q :: r)) (hwf p (by simp))
        simp only [splitGo, hi]
        have hneg : ¬ ((p.length : Int) < 0) := by omega
        simp only [hneg, if_false, Int.toNat_natCast]
        have h1 : List.take p.length (p ++ sep :: joinB sep (q :: r)) = p := by simp
        have h2 := drop_append_cons p sep (joinB sep (q :: r))
        rw [h1, h2, ih (by simp) (fun x hx => hwf x (by simp [hx])) k (by simp at hk ⊢; omega)]

theorem count_append (sep : UInt8) (s t : Bytes) : count sep (s ++ t) = count sep s + count sep t := by
  simp [count]

theorem count_joinB (sep : UInt8) (parts : List Bytes) : parts.length ≤ count sep (joinB sep parts) + 1 := by
  induction parts with
  | nil => simp
  | cons p rest ih =>
    cases rest with
    | nil => simp
    | cons q r =>
      rw [joinB_cons2, count_append]
      have : count sep (sep :: joinB sep (q :: r)) = count sep (joinB sep (q :: r)) + 1 := by
        simp [count]
      rw [this]
      simp only [List.length_cons] at ih ⊢
      omega

theorem length_joinB (sep : UInt8) (parts : List Bytes) : parts.length ≤ (joinB sep parts).length + 1 := by
  induction parts with
  | nil => simp
  | cons p rest ih =>
    cases rest with
    | nil => simp
    | cons q r =>
      rw [joinB_cons2]
      simp only [List.length_cons, List.length_append] at ih ⊢
      omega

/-- strings2.Split undoes the join of bracket-balanced parts whose separators are all inside brackets -/
theorem split_joinB (sep : UInt8) (isL isR : UInt8 → Bool) (hsL : isL sep = false) (hsR : isR sep = false)
    (parts : List Bytes) (hne : parts ≠ []) (hwf : ∀ p ∈ parts, WFpre sep isL isR p 0 = true) :
    split sep isL isR (joinB sep parts) = parts := by
  unfold split
  apply splitGo_joinB sep isL isR hsL hsR parts hne hwf
  have h1 := count_joinB sep parts
  have h2 := length_joinB sep parts
  omega

theorem split?_joinB (sep : UInt8) (isL isR : UInt8 → Bool) (hsL : isL sep = false) (hsR : isR sep = false)
    (parts : List Bytes) (hne : parts ≠ []) (hwf : ∀ p ∈ parts, WFpre sep isL isR p 0 = true) :
    split? sep isL isR (joinB sep parts) = some parts := by
  rw [split?_eq, split_joinB sep isL isR hsL hsR parts hne hwf]

/-- joining well-formed parts with a neutral byte keeps them well-formed (for another separator) -/
theorem WFpre_joinB (sep j : UInt8) (isL isR : UInt8 → Bool)
    (hj : j ≠ sep) (hjL : isL j = false) (hjR : isR j = false)
    (parts : List Bytes) (hwf : ∀ p ∈ parts, WFpre sep isL isR p 0 = true) :
    WFpre sep isL isR (joinB j parts) 0 = true := by
  induction parts with
  | nil => rfl
  | cons p rest ih =>
    cases rest with
    | nil => exact hwf p (by simp)
    | cons q r =>
      rw [joinB_cons2]
      apply WFpre_append _ _ _ _ _ _ (hwf p (by simp))
      have : WFpre sep isL isR (j :: joinB j (q :: r)) 0 = WFpre sep isL isR (joinB j (q :: r)) 0 := by
        simp [WFpre, hj, hjL, hjR]
      rw [this]
      exact ih (fun x hx => hwf x (by simp [hx]))

/-! ### the structured tag -/

/-- a well-formed argument: non-empty name without `=` `,` or brackets; at least one item; every item bracket-balanced
    with spaces and commas only inside brackets -/
structure WFArg (a : Bytes × List Bytes) : Prop where
  name_ne  : a.1 ≠ []
  name_ok  : ∀ b ∈ a.1, b ≠ cEq ∧ b ≠ cComma ∧ isLB b = false ∧ isRB b = false
  items_ne : a.2 ≠ []
  items_ok : ∀ it ∈ a.2, WFpre cSp isLB isRB it 0 = true ∧ WFpre cComma isLB isRB it 0 = true

theorem WFpre_renderArg (a : Bytes × List Bytes) (h : WFArg a) :
    WFpre cComma isLB isRB (renderArg a) 0 = true := by
  unfold renderArg
  apply WFpre_append
  · exact WFpre_plain _ _ _ _ (fun b hb => ⟨(h.name_ok b hb).2.1, (h.name_ok b hb).2.2⟩)
  · have : WFpre cComma isLB isRB (cEq :: joinB cSp a.2) 0 = WFpre cComma isLB isRB (joinB cSp a.2) 0 := by
      have e1 : isLB cEq = false := by decide
      have e2 : isRB cEq = false := by decide
      have e3 : cEq ≠ cComma := by decide
      simp [WFpre, e1, e2, e3]
    rw [this]
    exact WFpre_joinB cComma cSp isLB isRB (by decide) (by decide) (by decide) a.2
      (fun it hit => (h.items_ok it hit).2)

theorem parseExp?_renderArg (m : Args) (a : Bytes × List Bytes) (h : WFArg a) :
    parseExp? m (renderArg a) = some (setArg m a.1 a.2) := by
  unfold parseExp? renderArg
  rw [idxFrom_plain cEq a.1 (joinB cSp a.2) (fun b hb => (h.name_ok b hb).1)]
  simp only
  rw [slice?_some _ 0 _ (by simp; omega), slice?_some _ _ _ (by simp; omega)]
  have h1 : (0 : Int).toNat = 0 := rfl
  have h2 : ((a.1.length : Int) + 1).toNat = a.1.length + 1 := by omega
  have h3 : (((a.1 ++ cEq :: joinB cSp a.2).length : Nat) : Int).toNat = (a.1 ++ cEq :: joinB cSp a.2).length :=
    Int.toNat_natCast _
  simp only [h1, h2, h3, Int.toNat_natCast, List.drop_zero, Nat.sub_zero]
  have e1 : List.take a.1.length (a.1 ++ cEq :: joinB cSp a.2) = a.1 := by simp
  have e2 : List.take ((a.1 ++ cEq :: joinB cSp a.2).length - (a.1.length + 1))
      (List.drop (a.1.length + 1) (a.1 ++ cEq :: joinB cSp a.2)) = joinB cSp a.2 := by
    rw [drop_append_cons]
    apply List.take_of_length_le
    simp only [List.length_append, List.length_cons]; omega
  rw [e1, e2, split?_joinB cSp isLB isRB (by decide) (by decide) a.2 h.items_ne
    (fun it hit => (h.items_ok it hit).1)]

theorem parseExps?_render (m : Args) (as : List (Bytes × List Bytes)) (has : ∀ a ∈ as, WFArg a) :
    parseExps? m (as.map renderArg) = some (as.foldl (fun m a => setArg m a.1 a.2) m) := by
  induction as generalizing m with
  | nil => rfl
  | cons a as ih =>
    simp only [List.map_cons, parseExps?, parseExp?_renderArg m a (has a (by simp)), List.foldl_cons]
    exact ih _ (fun x hx => has x (by simp [hx]))

/-- TagArg.Parse recovers a rendered structured tag exactly -/
theorem parse?_render (v : Bytes) (as : List (Bytes × List Bytes))
    (hv : WFpre cComma isLB isRB v 0 = true) (has : ∀ a ∈ as, WFArg a) :
    parse? (render v as) = some (v, as.foldl (fun m a => setArg m a.1 a.2) []) := by
  unfold parse? render
  rw [split?_joinB cComma isLB isRB (by decide) (by decide) (v :: as.map renderArg) (by simp)]
  · simp only [parseExps?_render [] as has, Option.map_some]
  · intro p hp
    simp only [List.mem_cons, List.mem_map] at hp
    rcases hp with rfl | ⟨a, ha, rfl⟩
    · exact hv
    · exact WFpre_renderArg a (has a ha)

end Ioc.Tag
