/-
  The regenerated per-property loop of the narrowing processor computes `Sem.fmLoop`.
-/
import Ioc.SemMatchLoop
import IocProofs.Lemmas.SemMatch
namespace Ioc.Sem
open Ioc Ioc.Go Ioc.Match Ioc.Tag


theorem decIds_map (l : List Nat) : decIds (l.map encId) = some l := by
  induction l with
  | nil => rfl
  | cons a t ih => simp [decIds, List.mapM_cons, encId] at ih ⊢; rw [ih]; rfl

/-- how one iteration ends: `continue` for a skipped property, falling off the end otherwise, `return` on a required miss -/
def fmCtl (p : PropInfo) : Ctl :=
  if !p.isComponent then .cont else
  match filterDeps p.ctx p.injects with
  | some _ => .norm
  | none => if isRequired p.ctx.args then .ret (.tuple [.nil, errV]) else .cont

theorem fmCtl_cases (p : PropInfo) (k : Nat) (w : List (Nat × List Nat)) :
    ((fmStep p k w).isSome = true ∧ (fmCtl p = .norm ∨ fmCtl p = .cont)) ∨
    ((fmStep p k w) = none ∧ fmCtl p = .ret (.tuple [.nil, errV])) := by
  unfold fmStep fmCtl
  cases p.isComponent <;> simp
  cases filterDeps p.ctx p.injects <;> simp
  cases isRequired p.ctx.args <;> simp

/-- the per-property loop: a failing required point returns, everything else continues -/
theorem loopM_fm (ps : List PropInfo) (f : Nat → Val → Env → List (Nat × List Nat) → Option (Env × List (Nat × List Nat) × Ctl))
    (env : Env)
    (hf : ∀ i k w p, ps[k]? = some p → f i (.ref k 20) env w =
      some (env, (fmStep p k w).getD w, fmCtl p)) :
    ∀ (suffix : List PropInfo) (k i : Nat) (w : List (Nat × List Nat)), ps.drop k = suffix →
      loopM f i ((List.range' k suffix.length).map (fun j => Val.ref j 20)) env w =
        some (env, (fmLoop suffix k w).1, if (fmLoop suffix k w).2 then Ctl.ret (.tuple [.nil, errV]) else Ctl.norm) := by
  intro suffix
  induction suffix with
  | nil => intro k i w _; simp [loopM, fmLoop]
  | cons p rest ih =>
    intro k i w hd
    have hp : ps[k]? = some p := by
      have := congrArg List.head? hd
      simpa [List.head?_drop] using this
    have hrest : ps.drop (k + 1) = rest := by
      have := congrArg List.tail hd
      simpa [List.tail_drop] using this
    simp only [List.length_cons, List.range'_succ, List.map_cons, loopM, hf i k w p hp, fmLoop]
    rcases fmCtl_cases p k w with ⟨hs, hc | hc⟩ | ⟨hs, hc⟩
    · obtain ⟨w', hw'⟩ := Option.isSome_iff_exists.mp hs
      simp [hc, hw', ih (k + 1) (i + 1) w' hrest]
    · obtain ⟨w', hw'⟩ := Option.isSome_iff_exists.mp hs
      simp [hc, hw', ih (k + 1) (i + 1) w' hrest]
    · simp [hc, hs]

def fmBody : List Stmt :=
  match Progs.furtherMatching_PostProcessProperties.body with
  | [.range _ _ _ b, _] => b
  | _ => []
theorem fm_shape : Progs.furtherMatching_PostProcessProperties.body =
    [.range "_" "prop" (.var "properties") fmBody, .ret [.nil, .nil]] := rfl
theorem fm_params : Progs.furtherMatching_PostProcessProperties.params = ["properties", "component", "componentName"] := rfl

def fmEnv (n : Nat) : Env :=
  [("properties", .list ((List.range' 0 n).map (fun j => Val.ref j 20))), ("component", .nil), ("componentName", .nil)]

/-- one iteration of the loop body -/
theorem fm_iter (ps : List PropInfo) (i k : Nat) (w : List (Nat × List Nat)) (p : PropInfo) (hp : ps[k]? = some p) :
    (evalB (fmPrims ps) (Env.def (Env.def (fmEnv ps.length) "_" (.int i)) "prop" (.ref k 20)) w fmBody).map
        (fun (e', w'', c) => (Env.leave e' (fmEnv ps.length).length, w'', c)) =
      some (fmEnv ps.length, (fmStep p k w).getD w, fmCtl p) := by
  have hpa : propAt ps k = some p := hp
  have hd0 : decIds [] = some [] := rfl
  unfold fmStep fmCtl
  cases hc : p.isComponent with
  | false => go_simp [fmBody, Progs.furtherMatching_PostProcessProperties, fmPrims, fmFn, fmEnv, hpa, hc]
  | true =>
    cases hfd : filterDeps p.ctx p.injects with
    | some l =>
      have hd := decIds_map l
      cases l with
      | nil => go_simp [fmBody, Progs.furtherMatching_PostProcessProperties, fmPrims, fmFn, fmEnv, hpa, hc, hfd, encFD, errV, hd0]
      | cons a t =>
        simp only [List.map_cons] at hd
        go_simp [fmBody, Progs.furtherMatching_PostProcessProperties, fmPrims, fmFn, fmEnv, hpa, hc, hfd, encFD, errV, hd]
    | none =>
      cases hr : isRequired p.ctx.args <;>
        go_simp [fmBody, Progs.furtherMatching_PostProcessProperties, fmPrims, fmFn, fmEnv, hpa, hc, hfd, encFD, errV, hr]

/-- the per-property loop of the narrowing processor, regenerated: `fmLoop` -/
theorem furtherMatching_sem (ps : List PropInfo) :
    run (fmPrims ps) Progs.furtherMatching_PostProcessProperties [fmEnv ps.length |>.head!.2, .nil, .nil] [] =
      some (if (fmLoop ps 0 []).2 then .tuple [.nil, errV] else .tuple [.nil, .nil], (fmLoop ps 0 []).1) := by
  simp only [run, fm_params, fm_shape, List.length_cons, List.length_nil, if_true, List.zip_cons_cons, List.zip_nil_right]
  have henv : ([("properties", (fmEnv ps.length).head!.2), ("component", Val.nil), ("componentName", Val.nil)] : Env) = fmEnv ps.length := rfl
  rw [henv, evalB_cons]
  simp only [evalS]
  have hcoll : evalE (fmPrims ps) (fmEnv ps.length) [] (.var "properties") =
      some (.list ((List.range' 0 ps.length).map (fun j => Val.ref j 20)), []) := by go_simp [fmEnv]
  rw [hcoll]
  simp only []
  rw [loopM_fm ps _ (fmEnv ps.length) (by
    intro i k w p hp
    exact fm_iter ps i k w p hp) ps 0 0 [] (by simp)]
  cases h : (fmLoop ps 0 []).2 with
  | true => simp
  | false =>
    simp only [Bool.false_eq_true, if_false]
    go_simp []


end Ioc.Sem
