/-
  Vocabulary of the success characterisation of the factory machine (C02_succeeds, C09_fault_fails, C10_run_perm_partial):
  predicates on the SCENARIO alone — the machine is not mentioned.
    NoSubstitution   no post-processor replaces an instance (GetEarlyBeanReference and InitializeComponent return the
                     registered object)
    Reach            the names the start can ever ask for: boot ++ eager, closed under "candidate of a point of"
    StaticFault      the fault sites that are met whenever the component is created: unknown name, configuration
                     failure, failing initialization callback, a required point whose candidates are only the holder
                     itself, a required point with an unassignable candidate
    NoFault          no reached name has a static fault, and no reached name has a failing early-reference factory
                     (that one only matters when the early reference is asked for, which depends on the order: see
                     C10_counterexample_early)
    NoFaultOn sc S   a decidable certificate for NoFault: a list S that contains the roots, is closed under candidates
                     and is fault free
-/
import IocProofs.Lemmas.M2LogDeps
import IocProofs.Lemmas.M2StepFault
namespace Ioc.M2.Sx
open Ioc.M2

/-- no post-processor substitutes a component -/
def NoSubstitution (sc : Scen) : Prop := ∀ n, sc.earlyO n = raw n ∧ sc.afterO n = raw n

/-- the names a start can ask for -/
inductive Reach (sc : Scen) : Nat → Prop
  | root {n : Nat} (h : n ∈ sc.boot ++ sc.eager) : Reach sc n
  | cand {n c : Nat} {pt : Point} (hn : Reach sc n) (hp : pt ∈ pts sc n) (hc : c ∈ pt.cands) : Reach sc c

theorem reach_iff_root (sc : Scen) (n : Nat) : Reach sc n ↔ Lc.Root sc n := by
  constructor
  · intro h
    induction h with
    | root h => exact ⟨_, h, Lc.Reaches.refl _⟩
    | cand _ hp hc ih =>
      obtain ⟨r, hr, hrn⟩ := ih
      exact ⟨r, hr, Lc.Reaches.tail hrn ⟨_, hp, hc⟩⟩
  · rintro ⟨r, hr, h⟩
    induction h with
    | refl => exact Reach.root hr
    | tail _ hn ih =>
      obtain ⟨pt, hp, hc⟩ := hn
      exact Reach.cand ih hp hc

/-- `c` is a candidate of some point of `n` (computable, for concrete paths) -/
def needsB (sc : Scen) (n c : Nat) : Bool := (pts sc n).any (fun pt => pt.cands.contains c)

theorem Reach.edge {sc : Scen} {n : Nat} (hn : Reach sc n) (c : Nat) (h : needsB sc n c = true) : Reach sc c := by
  obtain ⟨pt, hp, hc⟩ := List.any_eq_true.mp h
  exact Reach.cand hn hp (by simpa using hc)

/-- a required point that has candidates, all of them the holder itself -/
def SelfOnly (n : Nat) (pt : Point) : Prop := pt.required = true ∧ pt.cands ≠ [] ∧ ∀ c ∈ pt.cands, c = n

/-- a required point with a candidate (other than the holder) that cannot be assigned to the field -/
def Unassignable (n : Nat) (pt : Point) : Prop := pt.required = true ∧ ∃ c ∈ pt.cands, c ≠ n ∧ c ∈ pt.incompat

def BadPoint (n : Nat) (pt : Point) : Prop := SelfOnly n pt ∨ Unassignable n pt

/-- the fault sites that are met whenever `n` is created, whatever the order and the post-processors -/
def StaticFault (sc : Scen) (n : Nat) : Prop :=
  n ∉ sc.names ∨
  (sc.wired n = true ∧ (sc.cfgOk n = false ∨ sc.points n = none)) ∨
  Lc.CbFault sc n ∨
  ∃ pt ∈ pts sc n, BadPoint n pt

instance (n : Nat) (pt : Point) : Decidable (BadPoint n pt) := by
  unfold BadPoint SelfOnly Unassignable; infer_instance
instance (sc : Scen) (n : Nat) : Decidable (Lc.CbFault sc n) := by unfold Lc.CbFault; infer_instance
instance (sc : Scen) (n : Nat) : Decidable (StaticFault sc n) := by unfold StaticFault; infer_instance

structure NoFault (sc : Scen) : Prop where
  static : ∀ n, Reach sc n → ¬ StaticFault sc n
  early : ∀ n, Reach sc n → sc.fEarly n = false

/-- decidable certificate: `S` contains the roots, is closed under candidates and is fault free -/
def NoFaultOn (sc : Scen) (S : List Nat) : Prop :=
  (∀ n ∈ sc.boot ++ sc.eager, n ∈ S) ∧
  (∀ n ∈ S, ∀ pt ∈ pts sc n, ∀ c ∈ pt.cands, c ∈ S) ∧
  (∀ n ∈ S, ¬ StaticFault sc n ∧ sc.fEarly n = false)

instance (sc : Scen) (S : List Nat) : Decidable (NoFaultOn sc S) := by unfold NoFaultOn; infer_instance

theorem reach_sub {sc : Scen} {S : List Nat} (h0 : ∀ n ∈ sc.boot ++ sc.eager, n ∈ S)
    (hcl : ∀ n ∈ S, ∀ pt ∈ pts sc n, ∀ c ∈ pt.cands, c ∈ S) {n : Nat} (h : Reach sc n) : n ∈ S := by
  induction h with
  | root h => exact h0 _ h
  | cand _ hp hc ih => exact hcl _ ih _ hp _ hc

theorem noFault_of_on {sc : Scen} {S : List Nat} (h : NoFaultOn sc S) : NoFault sc :=
  ⟨fun n hn => (h.2.2 n (reach_sub h.1 h.2.1 hn)).1, fun n hn => (h.2.2 n (reach_sub h.1 h.2.1 hn)).2⟩

theorem NoSubstitution.wf {sc : Scen} (ns : NoSubstitution sc) : Lc.WF sc :=
  ⟨fun n => by rw [(ns n).1]; rfl, fun n => by rw [(ns n).2]; rfl⟩

theorem NoSubstitution.initResult {sc : Scen} (ns : NoSubstitution sc) (n : Nat) : initResult sc n = raw n := by
  unfold M2.initResult; split
  · exact (ns n).2
  · rfl

/-! ### what Inject sees, in terms of the candidate names -/

theorem metas_nil_iff (f : Frame) (cs : List Nat) (h : f.acc.map (·.name) = cs) :
    Lc.metasOf f = [] ↔ ∀ c ∈ cs, c = f.name := by
  subst h
  simp [Lc.metasOf, List.filter_eq_nil_iff]

theorem metas_any_iff (f : Frame) (cs inc : List Nat) (h : f.acc.map (·.name) = cs) :
    (Lc.metasOf f).any (fun o => inc.contains o.name) = true ↔ ∃ c ∈ cs, c ≠ f.name ∧ c ∈ inc := by
  subst h
  simp only [Lc.metasOf, List.any_eq_true, List.mem_filter, List.mem_map, List.contains_iff_mem, bne_iff_ne, ne_eq]
  constructor
  · rintro ⟨o, ⟨ho, hne⟩, hi⟩; exact ⟨o.name, ⟨o, ho, rfl⟩, hne, hi⟩
  · rintro ⟨c, ⟨o, ho, rfl⟩, hne, hi⟩; exact ⟨o, ⟨ho, hne⟩, hi⟩

end Ioc.M2.Sx
