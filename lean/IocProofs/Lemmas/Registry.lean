/-
  Lemmas about M1 (Ioc.Registry): the cache invariant and its preservation by every primitive
  operation and by every operation tree; monotonicity of publication; the trace automata used by
  C04 (`earlyRun`: inside one creation; `absentRun`: after a failed creation).
  Core Lean only.
-/
import Ioc.Registry
namespace Ioc
namespace Reg

/-! ### the invariant -/

/-- l1 ∩ inCr = ∅, l2 ∪ l3 ⊆ inCr, l2 ∩ l3 = ∅, and the four containers hold every key once -/
structure Inv (r : Reg) : Prop where
  l1_inCr : ∀ n, r.l1? n ≠ none → n ∉ r.inCr
  l2_inCr : ∀ n, r.l2? n ≠ none → n ∈ r.inCr
  l3_inCr : ∀ n, n ∈ r.l3 → n ∈ r.inCr
  l2_l3 : ∀ n, r.l2? n ≠ none → n ∉ r.l3
  nd1 : (akeys r.l1).Nodup
  nd2 : (akeys r.l2).Nodup
  nd3 : r.l3.Nodup
  nd4 : r.inCr.Nodup

theorem inv_empty : empty.Inv := by
  constructor <;> simp [empty, l1?, l2?, akeys]

theorem Inv.get {r : Reg} (h : r.Inv) (n : Name) (b : Bool) (e : Except Err Obj) : (r.get n b e).2.Inv := by
  cases h1 : r.l1? n with
  | some o => rw [get_l1 r n b e o h1]; exact h
  | none =>
    cases h2 : r.l2? n with
    | some o => rw [get_l2 r n b e o h1 h2]; exact h
    | none =>
      by_cases h3 : n ∈ r.l3
      · cases b with
        | false => rw [get_not_allowed r n e h1 h2]; exact h
        | true =>
          cases e with
          | error x => rw [get_early_err r n x h1 h2 h3]; exact h
          | ok o =>
            rw [get_early_ok r n o h1 h2 h3]
            constructor
            · exact h.l1_inCr
            · intro m hm
              by_cases hmn : m = n
              · subst hmn; exact h.l3_inCr _ h3
              · apply h.l2_inCr m
                simpa [l2?, hmn] using hm
            · intro m hm
              simp only [mem_sdel] at hm
              exact h.l3_inCr m hm.1
            · intro m hm
              by_cases hmn : m = n
              · subst hmn; simp
              · simp only [mem_sdel, not_and]
                intro hm3
                have : r.l2? m ≠ none := by simpa [l2?, hmn] using hm
                exact absurd hm3 (h.l2_l3 m this)
            · exact h.nd1
            · exact nodup_akeys_aset n o r.l2 h.nd2
            · exact nodup_sdel n r.l3 h.nd3
            · exact h.nd4
      · rw [get_no_factory r n b e h1 h2 h3]; exact h

theorem Inv.beginCreate {r : Reg} (h : r.Inv) (n : Name) : (r.beginCreate n).2.Inv := by
  cases h1 : r.l1? n with
  | some o => rw [beginCreate_hit r n o h1]; exact h
  | none =>
    rw [beginCreate_miss r n h1]
    constructor
    · intro m hm
      simp only [mem_sput, not_or]
      refine ⟨?_, h.l1_inCr m hm⟩
      intro hmn; subst hmn; exact hm h1
    · intro m hm; simp only [mem_sput]; exact Or.inr (h.l2_inCr m hm)
    · intro m hm; simp only [mem_sput]; exact Or.inr (h.l3_inCr m hm)
    · exact h.l2_l3
    · exact h.nd1
    · exact h.nd2
    · exact h.nd3
    · exact nodup_sput n r.inCr h.nd4

theorem Inv.addFactory {r : Reg} (h : r.Inv) (n : Name) (hc : n ∈ r.inCr) (h2 : r.l2? n = none) :
    (r.addFactory n).Inv := by
  constructor
  · exact h.l1_inCr
  · exact h.l2_inCr
  · intro m hm
    simp only [mem_l3_addFactory] at hm
    rcases hm with hm | hm
    · subst hm; exact hc
    · exact h.l3_inCr m hm
  · intro m hm
    simp only [mem_l3_addFactory, not_or]
    refine ⟨?_, h.l2_l3 m hm⟩
    intro hmn; subst hmn; exact hm h2
  · exact h.nd1
  · exact h.nd2
  · exact nodup_sput n r.l3 h.nd3
  · exact h.nd4

theorem Inv.startCreate {r : Reg} (h : r.Inv) (n : Name) (h2 : r.l2? n = none) : (r.startCreate n).Inv := by
  unfold Reg.startCreate
  dsimp only
  split
  · rename_i hc
    refine (h.beginCreate n).addFactory n ?_ ?_
    · simpa using hc
    · simpa using h2
  · exact h.beginCreate n

theorem Inv.remove {r : Reg} (h : r.Inv) (n : Name) : (r.remove n).Inv := by
  constructor
  · intro m hm
    simp only [l1?_remove] at hm
    simp only [mem_inCr_remove, not_and]
    intro hc
    by_cases hmn : m = n
    · simp [hmn] at hm
    · simp only [hmn, if_false] at hm; exact absurd hc (h.l1_inCr m hm)
  · intro m hm
    simp only [l2?_remove] at hm
    by_cases hmn : m = n
    · simp [hmn] at hm
    · simp only [hmn, if_false] at hm
      simp only [mem_inCr_remove]; exact ⟨h.l2_inCr m hm, hmn⟩
  · intro m hm
    simp only [mem_l3_remove] at hm
    simp only [mem_inCr_remove]; exact ⟨h.l3_inCr m hm.1, hm.2⟩
  · intro m hm
    simp only [l2?_remove] at hm
    by_cases hmn : m = n
    · simp [hmn] at hm
    · simp only [hmn, if_false] at hm
      simp only [mem_l3_remove, not_and]
      intro h3; exact absurd h3 (h.l2_l3 m hm)
  · exact nodup_akeys_adel n r.l1 h.nd1
  · exact nodup_akeys_adel n r.l2 h.nd2
  · exact nodup_sdel n r.l3 h.nd3
  · exact nodup_sdel n r.inCr h.nd4

theorem Inv.endCreate {r : Reg} (h : r.Inv) (n : Name) (res : Except Err Obj) : (r.endCreate n res).Inv := by
  cases res with
  | error x => exact h.remove n
  | ok o =>
    constructor
    · intro m hm
      simp only [l1?_endCreate_ok] at hm
      simp only [mem_inCr_endCreate_ok, not_and]
      intro hc
      by_cases hmn : m = n
      · simp [hmn]
      · simp only [hmn, if_false] at hm; exact absurd hc (h.l1_inCr m hm)
    · intro m hm
      simp only [l2?_endCreate_ok] at hm
      by_cases hmn : m = n
      · simp [hmn] at hm
      · simp only [hmn, if_false] at hm
        simp only [mem_inCr_endCreate_ok]; exact ⟨h.l2_inCr m hm, hmn⟩
    · intro m hm
      simp only [mem_l3_endCreate_ok] at hm
      simp only [mem_inCr_endCreate_ok]; exact ⟨h.l3_inCr m hm.1, hm.2⟩
    · intro m hm
      simp only [l2?_endCreate_ok] at hm
      by_cases hmn : m = n
      · simp [hmn] at hm
      · simp only [hmn, if_false] at hm
        simp only [mem_l3_endCreate_ok, not_and]
        intro h3; exact absurd h3 (h.l2_l3 m hm)
    · exact nodup_akeys_aset n o r.l1 h.nd1
    · exact nodup_akeys_adel n r.l2 h.nd2
    · exact nodup_sdel n r.l3 h.nd3
    · exact nodup_sdel n r.inCr h.nd4

/-- AddSingleton called directly (not through endCreate) keeps the invariant for a name that is not in creation -/
theorem Inv.addSingleton {r : Reg} (h : r.Inv) (n : Name) (o : Obj) (hn : n ∉ r.inCr) : (r.addSingleton n o).Inv := by
  have e : r.addSingleton n o = r.endCreate n (.ok o) := by
    have : sdel n r.inCr = r.inCr := by
      simp only [sdel]
      apply List.filter_eq_self.mpr
      intro a ha
      have : a ≠ n := fun hh => hn (hh ▸ ha)
      simpa using this
    simp [Reg.endCreate, this]
  rw [e]; exact h.endCreate n (.ok o)

/-! ### runsEarly / lookupEv by cases -/

theorem runsEarly_l1 (r : Reg) (n : Name) (b : Bool) (o : Obj) (h : r.l1? n = some o) : r.runsEarly n b = false := by
  simp [runsEarly, h]
theorem runsEarly_l2 (r : Reg) (n : Name) (b : Bool) (o : Obj) (h : r.l2? n = some o) : r.runsEarly n b = false := by
  simp [runsEarly, h]
theorem runsEarly_no_factory (r : Reg) (n : Name) (b : Bool) (h : n ∉ r.l3) : r.runsEarly n b = false := by
  simp [runsEarly, h]
@[simp] theorem runsEarly_false (r : Reg) (n : Name) : r.runsEarly n false = false := by
  simp [runsEarly]
theorem runsEarly_true (r : Reg) (n : Name) (h1 : r.l1? n = none) (h2 : r.l2? n = none) (h3 : n ∈ r.l3) :
    r.runsEarly n true = true := by
  simp [runsEarly, h1, h2, h3]

end Reg

open Reg

/-- a published name: every lookup returns the published object, not in creation, no factory run -/
theorem lookupEv_published (r : Reg) (hi : r.Inv) (n : Name) (b : Bool) (e : Except Err Obj) (o : Obj)
    (h : r.l1? n = some o) : lookupEv r n b e = .ret n (.obj o) false false := by
  have hc : n ∉ r.inCr := hi.l1_inCr n (by simp [h])
  simp [lookupEv, get_l1 r n b e o h, Ret.ofGet, runsEarly_l1 r n b o h, hc]

/-! ### every operation tree preserves the invariant -/

mutual
theorem exec_inv (r : Reg) (h : r.Inv) : (a : Act) → (exec r a).1.Inv
  | .lookup n b e => by rw [exec_lookup]; exact h.get n b e
  | .getOrCreate n early body res => by
    by_cases hg : (r.get n true early).1 = .ok none
    · rw [exec_create r n early body res hg]
      obtain ⟨_, _, h2, _⟩ := get_miss r n true early hg
      exact (execs_inv _ (h.startCreate n h2) body).endCreate n res
    · rw [exec_answered r n early body res hg]; exact h.get n true early
theorem execs_inv (r : Reg) (h : r.Inv) : (as : List Act) → (execs r as).1.Inv
  | [] => by simpa using h
  | a :: as => by rw [execs_cons]; exact execs_inv _ (exec_inv r h a) as
end

/-! ### publication is final -/

mutual
theorem exec_l1_mono (r : Reg) (m : Name) (o : Obj) (h : r.l1? m = some o) : (a : Act) → (exec r a).1.l1? m = some o
  | .lookup n b e => by rw [exec_lookup]; simpa using h
  | .getOrCreate n early body res => by
    by_cases hg : (r.get n true early).1 = .ok none
    · rw [exec_create r n early body res hg]
      obtain ⟨_, h1, _, _⟩ := get_miss r n true early hg
      have hmn : m ≠ n := fun hh => by subst hh; rw [h1] at h; cases h
      rw [(endCreate_other _ n m res hmn).1]
      exact execs_l1_mono _ m o (by simpa using h) body
    · rw [exec_answered r n early body res hg]; simpa using h
theorem execs_l1_mono (r : Reg) (m : Name) (o : Obj) (h : r.l1? m = some o) : (as : List Act) → (execs r as).1.l1? m = some o
  | [] => by simpa using h
  | a :: as => by rw [execs_cons]; exact execs_l1_mono _ m o (exec_l1_mono r m o h a) as
end

mutual
theorem exec_stable (r : Reg) (hi : r.Inv) (m : Name) (o : Obj) (h : r.l1? m = some o) :
    (a : Act) → ∀ ev ∈ (exec r a).2, ev.name = m → ev = .ret m (.obj o) false false
  | .lookup n b e => by
    rw [exec_lookup]
    intro ev hev hname
    simp only [List.mem_singleton] at hev
    subst hev
    have : n = m := by simpa [lookupEv, Ev.name] using hname
    subst this
    exact lookupEv_published r hi n b e o h
  | .getOrCreate n early body res => by
    by_cases hg : (r.get n true early).1 = .ok none
    · rw [exec_create r n early body res hg]
      obtain ⟨_, h1, h2, _⟩ := get_miss r n true early hg
      have hmn : m ≠ n := fun hh => by subst hh; rw [h1] at h; cases h
      intro ev hev hname
      simp only [List.mem_cons, List.mem_append, List.cons_append, List.not_mem_nil, or_false] at hev
      rcases hev with hev | hev | hev
      · subst hev; exact absurd hname.symm hmn
      · exact execs_stable _ (hi.startCreate n h2) m o (by simpa using h) body ev hev hname
      · subst hev; exact absurd hname.symm hmn
    · rw [exec_answered r n early body res hg]
      intro ev hev hname
      simp only [List.mem_singleton] at hev
      subst hev
      have : n = m := by simpa [lookupEv, Ev.name] using hname
      subst this
      exact lookupEv_published r hi n true early o h
theorem execs_stable (r : Reg) (hi : r.Inv) (m : Name) (o : Obj) (h : r.l1? m = some o) :
    (as : List Act) → ∀ ev ∈ (execs r as).2, ev.name = m → ev = .ret m (.obj o) false false
  | [] => by simp
  | a :: as => by
    rw [execs_cons]
    intro ev hev hname
    simp only [List.mem_append] at hev
    rcases hev with hev | hev
    · exact exec_stable r hi m o h a ev hev hname
    · exact execs_stable _ (exec_inv r hi a) m o (exec_l1_mono r m o h a) as ev hev hname
end

/-! ### inside one creation: the early reference -/

/-- one step of the automaton that reads the trace of the body of a creation of `n`.
    State = the early reference handed out so far.  `none` = the trace is not allowed. -/
def earlyStep (n : Name) (cur : Option Obj) : Ev → Option (Option Obj)
  | .begin m => if m = n then none else some cur           -- no second creation of n inside its creation
  | .ret m ret inCr ran =>
    if m = n then
      if inCr then
        match cur, ret, ran with
        | none, .obj e, true => some (some e)               -- the one successful run of the early factory
        | none, .none, false => some none                   -- early references not allowed, none taken yet
        | none, .err, true => some none                     -- the early factory failed: nothing is stored
        | some e, .obj e', false => if e = e' then some (some e) else none   -- afterwards: that object, no run
        | _, _, _ => none
      else none                                             -- n is reported in creation all the time
    else some cur

def earlyRun (n : Name) : Option Obj → List Ev → Option (Option Obj)
  | cur, [] => some cur
  | cur, ev :: rest =>
    match earlyStep n cur ev with
    | some c => earlyRun n c rest
    | none => none

theorem earlyRun_append (n : Name) (cur : Option Obj) (xs ys : List Ev) :
    earlyRun n cur (xs ++ ys) = (earlyRun n cur xs).bind (fun c => earlyRun n c ys) := by
  induction xs generalizing cur with
  | nil => simp [earlyRun]
  | cons x xs ih =>
    simp only [List.cons_append, earlyRun]
    cases earlyStep n cur x with
    | none => simp
    | some c => simpa using ih c

theorem earlyStep_other (n : Name) (cur : Option Obj) (ev : Ev) (h : ev.name ≠ n) : earlyStep n cur ev = some cur := by
  cases ev with
  | begin m => simp only [Ev.name] at h; simp [earlyStep, h]
  | ret m ret c ran => simp only [Ev.name] at h; simp [earlyStep, h]

/-- objects returned by calls on `n` -/
def objsOf (n : Name) : List Ev → List Obj
  | [] => []
  | .ret m (.obj o) _ _ :: rest => if m = n then o :: objsOf n rest else objsOf n rest
  | _ :: rest => objsOf n rest

/-- calls on `n` that ran its early-reference factory and obtained an object -/
def okRuns (n : Name) : List Ev → Nat
  | [] => 0
  | .ret m (.obj _) _ true :: rest => if m = n then okRuns n rest + 1 else okRuns n rest
  | _ :: rest => okRuns n rest

/-- once an early reference `e` exists: every later call on `n` returns `e`, reports `n` in creation,
    and does not run the factory; no creation of `n` starts -/
theorem earlyRun_some (n : Name) (e : Obj) (evs : List Ev) (c : Option Obj) (h : earlyRun n (some e) evs = some c) :
    c = some e ∧ (∀ ev ∈ evs, ev.name = n → ev = .ret n (.obj e) true false) ∧ okRuns n evs = 0 := by
  induction evs with
  | nil => simp [earlyRun] at h; simp [h.symm, okRuns]
  | cons ev rest ih =>
    simp only [earlyRun] at h
    cases hs : earlyStep n (some e) ev with
    | none => simp [hs] at h
    | some c' =>
      simp only [hs] at h
      cases ev with
      | begin m =>
        by_cases hm : m = n
        · simp [earlyStep, hm] at hs
        · simp only [earlyStep, hm, if_false, Option.some.injEq] at hs
          subst hs
          obtain ⟨h1, h2, h3⟩ := ih h
          refine ⟨h1, ?_, by simpa [okRuns] using h3⟩
          intro ev hev hname
          simp only [List.mem_cons] at hev
          rcases hev with hev | hev
          · subst hev; exact absurd hname hm
          · exact h2 ev hev hname
      | ret m ret ic ran =>
        by_cases hm : m = n
        · subst hm
          cases ic with
          | false => simp [earlyStep] at hs
          | true =>
            cases ret with
            | none => simp [earlyStep] at hs
            | err => simp [earlyStep] at hs
            | obj e' =>
              cases ran with
              | true => simp [earlyStep] at hs
              | false =>
                by_cases he : e = e'
                · subst he
                  simp only [earlyStep, if_true, Option.some.injEq] at hs
                  subst hs
                  obtain ⟨h1, h2, h3⟩ := ih h
                  refine ⟨h1, ?_, by simpa [okRuns] using h3⟩
                  intro ev hev hname
                  simp only [List.mem_cons] at hev
                  rcases hev with hev | hev
                  · exact hev
                  · exact h2 ev hev hname
                · simp [earlyStep, he] at hs
        · simp only [earlyStep, hm, if_false, Option.some.injEq] at hs
          subst hs
          obtain ⟨h1, h2, h3⟩ := ih h
          refine ⟨h1, ?_, ?_⟩
          · intro ev hev hname
            simp only [List.mem_cons] at hev
            rcases hev with hev | hev
            · subst hev; exact absurd hname hm
            · exact h2 ev hev hname
          · cases ret <;> cases ran <;> simp [okRuns, hm, h3]

theorem objsOf_of_all (n : Name) (e : Obj) (evs : List Ev)
    (h : ∀ ev ∈ evs, ev.name = n → ev = .ret n (.obj e) true false) : ∀ o ∈ objsOf n evs, o = e := by
  induction evs with
  | nil => simp [objsOf]
  | cons ev rest ih =>
    have ih' := ih (fun ev' hev' => h ev' (List.mem_cons_of_mem _ hev'))
    cases ev with
    | begin m => simpa [objsOf] using ih'
    | ret m ret ic ran =>
      cases ret with
      | none => simpa [objsOf] using ih'
      | err => simpa [objsOf] using ih'
      | obj o' =>
        by_cases hm : m = n
        · subst hm
          have := h _ (List.mem_cons_self) rfl
          simp only [Ev.ret.injEq, Ret.obj.injEq, true_and] at this
          intro o ho
          simp only [objsOf, if_true, List.mem_cons] at ho
          rcases ho with ho | ho
          · rw [ho]; exact this.1
          · exact ih' o ho
        · simpa [objsOf, hm] using ih'

/-- what an accepted trace means: one object, obtained by at most one successful run of the factory -/
theorem earlyRun_spec (n : Name) (cur : Option Obj) (evs : List Ev) (c : Option Obj) (h : earlyRun n cur evs = some c) :
    (∀ o ∈ objsOf n evs, c = some o) ∧ okRuns n evs ≤ 1 ∧
    (∀ ev ∈ evs, ev ≠ .begin n) ∧ (∀ ev ∈ evs, ∀ m ret ic ran, ev = .ret m ret ic ran → m = n → ic = true) := by
  induction evs generalizing cur with
  | nil => simp [objsOf, okRuns]
  | cons ev rest ih =>
    simp only [earlyRun] at h
    cases hs : earlyStep n cur ev with
    | none => simp [hs] at h
    | some c' =>
      simp only [hs] at h
      obtain ⟨i1, i2, i3, i4⟩ := ih c' h
      cases ev with
      | begin m =>
        by_cases hm : m = n
        · simp [earlyStep, hm] at hs
        · refine ⟨by simpa [objsOf] using i1, by simpa [okRuns] using i2, ?_, ?_⟩
          · intro ev hev
            simp only [List.mem_cons] at hev
            rcases hev with hev | hev
            · subst hev; simpa using hm
            · exact i3 ev hev
          · intro ev hev m' ret ic ran he hm'
            simp only [List.mem_cons] at hev
            rcases hev with hev | hev
            · subst hev; cases he
            · exact i4 ev hev m' ret ic ran he hm'
      | ret m ret ic ran =>
        by_cases hm : m = n
        · subst hm
          have hic : ic = true := by
            cases ic with
            | true => rfl
            | false => simp [earlyStep] at hs
          subst hic
          have i3' : ∀ ev ∈ Ev.ret m ret true ran :: rest, ev ≠ .begin m := by
            intro ev hev
            simp only [List.mem_cons] at hev
            rcases hev with hev | hev
            · subst hev; simp
            · exact i3 ev hev
          have i4' : ∀ ev ∈ Ev.ret m ret true ran :: rest, ∀ m' ret' ic' ran', ev = .ret m' ret' ic' ran' → m' = m → ic' = true := by
            intro ev hev m' ret' ic' ran' he hm'
            simp only [List.mem_cons] at hev
            rcases hev with hev | hev
            · subst hev; cases he; rfl
            · exact i4 ev hev m' ret' ic' ran' he hm'
          cases cur with
          | none =>
            cases ret with
            | none =>
              cases ran with
              | true => simp [earlyStep] at hs
              | false =>
                exact ⟨by simpa [objsOf] using i1, by simpa [okRuns] using i2, i3', i4'⟩
            | err =>
              cases ran with
              | false => simp [earlyStep] at hs
              | true => exact ⟨by simpa [objsOf] using i1, by simpa [okRuns] using i2, i3', i4'⟩
            | obj e =>
              cases ran with
              | false => simp [earlyStep] at hs
              | true =>
                simp only [earlyStep, if_true, Option.some.injEq] at hs
                subst hs
                obtain ⟨j1, j2, j3⟩ := earlyRun_some m e rest c h
                refine ⟨?_, by simp [okRuns, j3], i3', i4'⟩
                intro o ho
                simp only [objsOf, if_true, List.mem_cons] at ho
                rcases ho with ho | ho
                · rw [ho]; exact j1
                · exact i1 o ho
          | some e =>
            cases ret with
            | none => simp [earlyStep] at hs
            | err => simp [earlyStep] at hs
            | obj e' =>
              cases ran with
              | true => simp [earlyStep] at hs
              | false =>
                by_cases he : e = e'
                · subst he
                  simp only [earlyStep, if_true, Option.some.injEq] at hs
                  subst hs
                  obtain ⟨j1, _, j3⟩ := earlyRun_some m e rest c h
                  refine ⟨?_, by simp [okRuns, j3], i3', i4'⟩
                  intro o ho
                  simp only [objsOf, if_true, List.mem_cons] at ho
                  rcases ho with ho | ho
                  · rw [ho]; exact j1
                  · exact i1 o ho
                · simp [earlyStep, he] at hs
        · refine ⟨?_, ?_, ?_, ?_⟩
          · cases ret <;> simpa [objsOf, hm] using i1
          · cases ret <;> cases ran <;> simpa [okRuns, hm] using i2
          · intro ev hev
            simp only [List.mem_cons] at hev
            rcases hev with hev | hev
            · subst hev; simp
            · exact i3 ev hev
          · intro ev hev m' ret' ic' ran' he hm'
            simp only [List.mem_cons] at hev
            rcases hev with hev | hev
            · subst hev; cases he; exact absurd hm' hm
            · exact i4 ev hev m' ret' ic' ran' he hm'

/-- `n` is being created: not published, and either its early reference or its factory is there -/
structure InCreation (r : Reg) (n : Name) : Prop where
  l1 : r.l1? n = none
  has : r.l2? n ≠ none ∨ n ∈ r.l3

theorem InCreation.not_miss {r : Reg} {n : Name} (hc : InCreation r n) (early : Except Err Obj) :
    (r.get n true early).1 ≠ .ok none := by
  intro hg
  obtain ⟨_, _, h2, h3⟩ := get_miss r n true early hg
  rcases hc.has with h | h
  · exact h h2
  · exact h3 rfl h

/-- a GetSingleton on the name in creation -/
theorem lookup_early (r : Reg) (hi : r.Inv) (n : Name) (hc : InCreation r n) (b : Bool) (e : Except Err Obj) :
    earlyStep n (r.l2? n) (lookupEv r n b e) = some ((r.get n b e).2.l2? n) ∧ InCreation (r.get n b e).2 n := by
  have h1 := hc.l1
  cases h2 : r.l2? n with
  | some e0 =>
    have hcr : n ∈ r.inCr := hi.l2_inCr n (by simp [h2])
    rw [show lookupEv r n b e = .ret n (.obj e0) true false by
      simp [lookupEv, get_l2 r n b e e0 h1 h2, Ret.ofGet, runsEarly_l2 r n b e0 h2, hcr]]
    rw [get_l2 r n b e e0 h1 h2]
    exact ⟨by simp [earlyStep, h2], hc⟩
  | none =>
    have h3 : n ∈ r.l3 := by
      rcases hc.has with h | h
      · exact absurd h2 h
      · exact h
    have hcr : n ∈ r.inCr := hi.l3_inCr n h3
    cases b with
    | false =>
      rw [show lookupEv r n false e = .ret n .none true false by
        simp [lookupEv, get_not_allowed r n e h1 h2, Ret.ofGet, hcr]]
      rw [get_not_allowed r n e h1 h2]
      exact ⟨by simp [earlyStep, h2], hc⟩
    | true =>
      cases e with
      | error x =>
        rw [show lookupEv r n true (.error x) = .ret n .err true true by
          simp [lookupEv, get_early_err r n x h1 h2 h3, Ret.ofGet, runsEarly_true r n h1 h2 h3, hcr]]
        rw [get_early_err r n x h1 h2 h3]
        exact ⟨by simp [earlyStep, h2], hc⟩
      | ok o =>
        rw [show lookupEv r n true (.ok o) = .ret n (.obj o) true true by
          simp [lookupEv, get_early_ok r n o h1 h2 h3, Ret.ofGet, runsEarly_true r n h1 h2 h3, hcr]]
        rw [get_early_ok r n o h1 h2 h3]
        refine ⟨by simp [earlyStep, l2?], ⟨h1, Or.inl (by simp [l2?])⟩⟩

/-- a GetSingleton on another name -/
theorem lookup_other (r : Reg) (n k : Name) (hk : n ≠ k) (hc : InCreation r n) (b : Bool) (e : Except Err Obj) :
    (r.get k b e).2.l2? n = r.l2? n ∧ InCreation (r.get k b e).2 n := by
  refine ⟨get_l2?_other r k n b e hk, ⟨by simpa using hc.l1, ?_⟩⟩
  rw [get_l2?_other r k n b e hk, get_l3_other r k n b e hk]
  exact hc.has

theorem InCreation.startCreate_other {r : Reg} {n : Name} (hc : InCreation r n) (k : Name) (h1 : r.l1? k = none) :
    InCreation (r.startCreate k) n := by
  refine ⟨by simpa using hc.l1, ?_⟩
  rcases hc.has with h | h
  · exact Or.inl (by simpa using h)
  · right; rw [startCreate_eq r k h1]; simp [h]

mutual
theorem exec_early (r : Reg) (hi : r.Inv) (n : Name) (hc : InCreation r n) :
    (a : Act) → earlyRun n (r.l2? n) (exec r a).2 = some ((exec r a).1.l2? n) ∧ InCreation (exec r a).1 n
  | .lookup k b e => by
    rw [exec_lookup]
    by_cases hk : n = k
    · subst hk
      obtain ⟨s, c⟩ := lookup_early r hi n hc b e
      exact ⟨by simp [earlyRun, s], c⟩
    · obtain ⟨s, c⟩ := lookup_other r n k hk hc b e
      have : earlyStep n (r.l2? n) (lookupEv r k b e) = some (r.l2? n) :=
        earlyStep_other n _ _ (by simpa [lookupEv, Ev.name] using fun h => hk h.symm)
      exact ⟨by simp [earlyRun, this, s], c⟩
  | .getOrCreate k early body res => by
    by_cases hg : (r.get k true early).1 = .ok none
    · have hk : n ≠ k := fun h => by subst h; exact hc.not_miss early hg
      rw [exec_create r k early body res hg]
      obtain ⟨_, h1, h2, _⟩ := get_miss r k true early hg
      have hc2 := hc.startCreate_other k h1
      obtain ⟨s, c⟩ := execs_early _ (hi.startCreate k h2) n hc2 body
      obtain ⟨o1, o2, o3, _⟩ := endCreate_other (execs (r.startCreate k) body).1 k n res hk
      refine ⟨?_, ⟨by rw [o1]; exact c.l1, by rw [o2, o3]; exact c.has⟩⟩
      have hb : earlyStep n (r.l2? n) (.begin k) = some (r.l2? n) :=
        earlyStep_other n _ _ (by simpa [Ev.name] using fun h => hk h.symm)
      rw [List.cons_append, earlyRun, hb]
      simp only
      rw [earlyRun_append]
      have s' : earlyRun n (r.l2? n) (execs (r.startCreate k) body).2 = some ((execs (r.startCreate k) body).1.l2? n) := by
        simpa using s
      rw [s']
      simp only [Option.bind_some, earlyRun]
      rw [earlyStep_other n _ _ (by simpa [Ev.name] using fun h => hk h.symm)]
      simp [o2]
    · rw [exec_answered r k early body res hg]
      by_cases hk : n = k
      · subst hk
        obtain ⟨s, c⟩ := lookup_early r hi n hc true early
        exact ⟨by simp [earlyRun, s], c⟩
      · obtain ⟨s, c⟩ := lookup_other r n k hk hc true early
        have : earlyStep n (r.l2? n) (lookupEv r k true early) = some (r.l2? n) :=
          earlyStep_other n _ _ (by simpa [lookupEv, Ev.name] using fun h => hk h.symm)
        exact ⟨by simp [earlyRun, this, s], c⟩
theorem execs_early (r : Reg) (hi : r.Inv) (n : Name) (hc : InCreation r n) :
    (as : List Act) → earlyRun n (r.l2? n) (execs r as).2 = some ((execs r as).1.l2? n) ∧ InCreation (execs r as).1 n
  | [] => by simp [earlyRun]; exact hc
  | a :: as => by
    rw [execs_cons]
    obtain ⟨s1, c1⟩ := exec_early r hi n hc a
    obtain ⟨s2, c2⟩ := execs_early _ (exec_inv r hi a) n c1 as
    refine ⟨?_, c2⟩
    rw [earlyRun_append, s1]
    simpa using s2
end

/-! ### after a failed creation: nothing is visible until a new creation starts -/

/-- `n` is in none of the four containers -/
structure Absent (r : Reg) (n : Name) : Prop where
  l1 : r.l1? n = none
  l2 : r.l2? n = none
  l3 : n ∉ r.l3
  inCr : n ∉ r.inCr

def hasBegin (n : Name) : List Ev → Bool
  | [] => false
  | .begin m :: rest => decide (m = n) || hasBegin n rest
  | _ :: rest => hasBegin n rest

/-- until a creation of `n` begins, every call on `n` returns nil, reports "not in creation", runs no factory -/
def absentRun (n : Name) : List Ev → Bool
  | [] => true
  | .begin m :: rest => if m = n then true else absentRun n rest
  | .ret m ret ic ran :: rest =>
    if m = n then (decide (ret = .none) && !ic && !ran) && absentRun n rest else absentRun n rest

theorem hasBegin_append (n : Name) (xs ys : List Ev) : hasBegin n (xs ++ ys) = (hasBegin n xs || hasBegin n ys) := by
  induction xs with
  | nil => simp [hasBegin]
  | cons x xs ih => cases x <;> simp [hasBegin, ih, Bool.or_assoc]

theorem absentRun_append (n : Name) (xs ys : List Ev) :
    absentRun n (xs ++ ys) = (absentRun n xs && (hasBegin n xs || absentRun n ys)) := by
  induction xs with
  | nil => simp [absentRun, hasBegin]
  | cons x xs ih =>
    cases x with
    | begin m => by_cases hm : m = n <;> simp [absentRun, hasBegin, hm, ih]
    | ret m ret ic ran => by_cases hm : m = n <;> simp [absentRun, hasBegin, hm, ih, Bool.and_assoc]

theorem hasBegin_iff (n : Name) (xs : List Ev) : hasBegin n xs = true ↔ .begin n ∈ xs := by
  induction xs with
  | nil => simp [hasBegin]
  | cons x xs ih =>
    cases x with
    | begin m =>
      simp only [hasBegin, Bool.or_eq_true, decide_eq_true_eq, ih, List.mem_cons, Ev.begin.injEq]
      constructor
      · rintro (h | h)
        · exact Or.inl h.symm
        · exact Or.inr h
      · rintro (h | h)
        · exact Or.inl h.symm
        · exact Or.inr h
    | ret m ret ic ran => simp [hasBegin, ih]

theorem lookupEv_absent (r : Reg) (n : Name) (ha : Absent r n) (b : Bool) (e : Except Err Obj) :
    r.get n b e = (.ok none, r) ∧ lookupEv r n b e = .ret n .none false false := by
  have hg := get_no_factory r n b e ha.l1 ha.l2 ha.l3
  refine ⟨hg, ?_⟩
  simp [lookupEv, hg, Ret.ofGet, runsEarly_no_factory r n b ha.l3, ha.inCr]

theorem Absent.get_other {r : Reg} {n : Name} (ha : Absent r n) (k : Name) (hk : n ≠ k) (b : Bool) (e : Except Err Obj) :
    Absent (r.get k b e).2 n :=
  ⟨by simpa using ha.l1, by rw [get_l2?_other r k n b e hk]; exact ha.l2,
   by rw [get_l3_other r k n b e hk]; exact ha.l3, by simpa using ha.inCr⟩

theorem Absent.startCreate_other {r : Reg} {n : Name} (ha : Absent r n) (k : Name) (hk : n ≠ k) (h1 : r.l1? k = none) :
    Absent (r.startCreate k) n := by
  refine ⟨by simpa using ha.l1, by simpa using ha.l2, ?_, ?_⟩
  · rw [startCreate_eq r k h1]; simp [hk, ha.l3]
  · rw [startCreate_eq r k h1]; simp [hk, ha.inCr]

theorem absentRun_single_other (n : Name) (ev : Ev) (h : ev.name ≠ n) : absentRun n [ev] = true ∧ hasBegin n [ev] = false := by
  cases ev with
  | begin m => simp only [Ev.name] at h; simp [absentRun, hasBegin, h]
  | ret m ret ic ran => simp only [Ev.name] at h; simp [absentRun, hasBegin, h]

mutual
theorem exec_absent (r : Reg) (n : Name) (ha : Absent r n) :
    (a : Act) → absentRun n (exec r a).2 = true ∧ (hasBegin n (exec r a).2 = false → Absent (exec r a).1 n)
  | .lookup k b e => by
    rw [exec_lookup]
    by_cases hk : n = k
    · subst hk
      obtain ⟨hg, hev⟩ := lookupEv_absent r n ha b e
      rw [hev, hg]
      exact ⟨by simp [absentRun], fun _ => ha⟩
    · have := absentRun_single_other n (lookupEv r k b e) (by simpa [lookupEv, Ev.name] using fun h => hk h.symm)
      exact ⟨this.1, fun _ => ha.get_other k hk b e⟩
  | .getOrCreate k early body res => by
    by_cases hg : (r.get k true early).1 = .ok none
    · rw [exec_create r k early body res hg]
      by_cases hk : n = k
      · subst hk
        exact ⟨by simp [absentRun], by simp [hasBegin]⟩
      · obtain ⟨_, h1, _, _⟩ := get_miss r k true early hg
        have hkn : ¬ k = n := fun h => hk h.symm
        obtain ⟨s, c⟩ := execs_absent _ n (ha.startCreate_other k hk h1) body
        have hl := absentRun_single_other n
          (.ret k (Ret.ofRes res) ((((execs (r.startCreate k) body).1).endCreate k res).isInCreation k) false)
          (by simpa [Ev.name] using hkn)
        refine ⟨?_, ?_⟩
        · simp only [List.cons_append, absentRun, hkn, if_false]
          rw [absentRun_append, s, hl.1]; simp
        · intro hb
          simp only [List.cons_append, hasBegin, hkn, decide_false, Bool.false_or] at hb
          rw [hasBegin_append] at hb
          have hb' : hasBegin n (execs (r.startCreate k) body).2 = false := by
            cases h : hasBegin n (execs (r.startCreate k) body).2 with
            | false => rfl
            | true => simp [h] at hb
          have c' := c hb'
          obtain ⟨o1, o2, o3, o4⟩ := endCreate_other (execs (r.startCreate k) body).1 k n res hk
          exact ⟨by rw [o1]; exact c'.l1, by rw [o2]; exact c'.l2, by rw [o3]; exact c'.l3, by rw [o4]; exact c'.inCr⟩
    · rw [exec_answered r k early body res hg]
      by_cases hk : n = k
      · subst hk
        obtain ⟨hg', hev⟩ := lookupEv_absent r n ha true early
        rw [hev, hg']
        exact ⟨by simp [absentRun], fun _ => ha⟩
      · have := absentRun_single_other n (lookupEv r k true early) (by simpa [lookupEv, Ev.name] using fun h => hk h.symm)
        exact ⟨this.1, fun _ => ha.get_other k hk true early⟩
theorem execs_absent (r : Reg) (n : Name) (ha : Absent r n) :
    (as : List Act) → absentRun n (execs r as).2 = true ∧ (hasBegin n (execs r as).2 = false → Absent (execs r as).1 n)
  | [] => by simp [absentRun]; exact fun _ => ha
  | a :: as => by
    rw [execs_cons]
    obtain ⟨s1, c1⟩ := exec_absent r n ha a
    cases hb : hasBegin n (exec r a).2 with
    | true =>
      refine ⟨by rw [absentRun_append, s1, hb]; simp, ?_⟩
      intro h; rw [hasBegin_append, hb] at h; simp at h
    | false =>
      obtain ⟨s2, c2⟩ := execs_absent _ n (c1 hb) as
      refine ⟨by rw [absentRun_append, s1, s2]; simp, ?_⟩
      intro h; rw [hasBegin_append, hb] at h
      exact c2 (by simpa using h)
end

end Ioc
