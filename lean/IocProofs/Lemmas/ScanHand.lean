/-
  Lemmas for C11: which property list every processor is handed.
  (i)  model: `Scan.handedLoop` hands every processor `all`, whatever the processors return; the recorder's filter of it is
       the custom scanner's properties;
  (ii) code: the regenerated ResolveAfterInstantiation, run by the MiniGo interpreter, hands every processor the value of
       `meta.GetAllProperties()` — for EVERY behaviour `ret` of the processors' PostProcessProperties.
-/
import IocProofs.Lemmas.Scan
import Ioc.SemScan
import IocProofs.Lemmas.GoTactics
namespace Ioc.Scan

theorem handedLoop_eq (all : List Property) (rets : List PropsRet) :
    handedLoop all rets = rets.map (fun _ => all) := by
  induction rets with
  | nil => rfl
  | cons r rest ih => simp [handedLoop, ih]

/-- every property a processor builds carries the processor's own tag when its ExtractHandler (if any) leaves the tag empty -/
theorem propsOf_tag (d : TagProc) (hx : ∀ e, d.extract = some e → ∀ f t tv, e f = .yes t tv → t = [])
    (fields : List ScannedField) : ∀ q ∈ propsOf d fields, q.tag = d.tag := by
  intro q hq
  obtain ⟨f, _, t, tv, hr, rfl⟩ := (mem_propsOf d fields q).1 hq
  simp only [mkProperty]
  simp only [recognise] at hr
  split at hr
  · simp only [Extract.yes.injEq] at hr; exact hr.1.symm
  · cases hxe : d.extract with
    | none => simp [hxe] at hr
    | some e =>
      simp only [hxe] at hr
      cases he : e f with
      | no => simp [he] at hr
      | panic => simp [he] at hr
      | yes t' tv' =>
        simp only [he, Extract.yes.injEq] at hr
        have := hx e hxe f t' tv' he
        subst this
        simpa using hr.1.symm

theorem filter_tag_none (tag : Bytes) (l : List Property) (h : ∀ q ∈ l, q.tag ≠ tag) : ofTag tag l = [] := by
  simp only [ofTag, List.filter_eq_nil_iff]
  intro q hq; simpa using h q hq

theorem filter_tag_all (tag : Bytes) (l : List Property) (h : ∀ q ∈ l, q.tag = tag) : ofTag tag l = l := by
  simp only [ofTag, List.filter_eq_self]
  intro q hq; simpa using h q hq

theorem ofTag_append (tag : Bytes) (a b : List Property) : ofTag tag (a ++ b) = ofTag tag a ++ ofTag tag b := by
  simp [ofTag]

theorem valueExtract_tag (f : ScannedField) (t tv : Bytes) (h : valueExtract f = .yes t tv) : t = [] := by
  simp only [valueExtract] at h
  split at h
  · split at h
    · simp only [Extract.yes.injEq] at h; exact h.1.symm
    · cases h
  · cases h

theorem markerExtract_tag (f : ScannedField) (t tv : Bytes) (h : markerExtract f = .yes t tv) : t = [] := by
  simp only [markerExtract] at h
  split at h
  · simp only [Extract.yes.injEq] at h; exact h.1.symm
  · cases h

/-- of everything the built-in scanners and one custom scanner build, the properties carrying the custom tag are exactly
    the custom scanner's (its tag is none of the built-in ones) -/
theorem ofTag_builtin_custom (nt tag : Bytes) (hb : tag ∉ [tLogger, tPrefix, tValue, tWire, tFunc])
    (fields : List ScannedField) :
    ofTag tag (properties (builtinProcs ++ [customProc nt tag]) fields) = propsOf (customProc nt tag) fields := by
  simp only [List.mem_cons, List.not_mem_nil, or_false, not_or] at hb
  obtain ⟨h1, h2, h3, h4, h5⟩ := hb
  have none_ : ∀ e, (none : Option (ScannedField → Extract)) = some e → ∀ f t tv, e f = .yes t tv → t = [] := by
    intro e he; cases he
  simp only [properties, builtinProcs, List.cons_append, List.nil_append, List.flatMap_cons, List.flatMap_nil,
    List.append_nil, ofTag_append]
  rw [filter_tag_none tag (propsOf procLogger fields) (fun q hq => by
        rw [propsOf_tag procLogger none_ fields q hq]; exact fun h => h1 h.symm),
      filter_tag_none tag (propsOf procProperties fields) (fun q hq => by
        rw [propsOf_tag procProperties (fun e he f t tv h => by
          simp only [procProperties, Option.some.injEq] at he; subst he; exact markerExtract_tag f t tv h) fields q hq]
        exact fun h => h2 h.symm),
      filter_tag_none tag (propsOf procValue fields) (fun q hq => by
        rw [propsOf_tag procValue (fun e he f t tv h => by
          simp only [procValue, Option.some.injEq] at he; subst he; exact valueExtract_tag f t tv h) fields q hq]
        exact fun h => h3 h.symm),
      filter_tag_none tag (propsOf procWire fields) (fun q hq => by
        rw [propsOf_tag procWire none_ fields q hq]; exact fun h => h4 h.symm),
      filter_tag_none tag (propsOf procFunc fields) (fun q hq => by
        rw [propsOf_tag procFunc none_ fields q hq]; exact fun h => h5 h.symm),
      filter_tag_all tag (propsOf (customProc nt tag) fields) (fun q hq =>
        propsOf_tag (customProc nt tag) none_ fields q hq)]
  simp

end Ioc.Scan

namespace Ioc.Sem
open Ioc Ioc.Go

section hand
variable (procs : List Nat) (all : Val) (ret : Nat → Val → Val)

def handStep (p : Nat) (_ : Unit) (w : List (Nat × Val)) : Unit × List (Nat × Val) × Option Val :=
  ((), w ++ [(p, all)], none)

theorem handStep_loop (ps : List Nat) (w : List (Nat × Val)) :
    stepLoop (handStep all) ps () w = ((), w ++ ps.map (fun p => (p, all)), none) := by
  induction ps generalizing w with
  | nil => simp [stepLoop]
  | cons p rest ih => simp [stepLoop, handStep, ih]

def handBody : List Stmt :=
  match Progs.del_ResolveAfterInstantiation.body with
  | [.range _ _ _ b, _] => b
  | _ => []
theorem hand_shape : Progs.del_ResolveAfterInstantiation.body =
    [.range "_" "processor" (.glob "self.componentPostProcessors") handBody, .ret [.nil]] := rfl
theorem hand_params : Progs.del_ResolveAfterInstantiation.params = ["meta", "name"] := rfl

def envHand : Env := [("meta", .str "meta"), ("name", .str "n")]

theorem hand_iter (i p : Nat) (w : List (Nat × Val)) :
    (evalB (handPrims procs all ret) (Env.def (Env.def envHand "_" (.int i)) "processor" (encP p)) w handBody).map
        (fun (e', w'', ctl) => (Env.leave e' envHand.length, w'', ctl)) =
      some (envHand, (handStep all p () w).2.1, ctlOf (handStep all p () w).2.2) := by
  go_simp [handBody, Progs.del_ResolveAfterInstantiation, handPrims, handFn, envHand, encP, handStep, ctlOf]

/-- ResolveAfterInstantiation, regenerated: every processor is handed the value of `meta.GetAllProperties()`, whatever the
    processors before it returned -/
theorem resolveAfterInstantiation_hands_all (w : List (Nat × Val)) :
    run (handPrims procs all ret) Progs.del_ResolveAfterInstantiation [.str "meta", .str "n"] w =
      some (.nil, w ++ procs.map (fun p => (p, all))) := by
  simp only [run, hand_params, hand_shape, List.length_cons, List.length_nil, if_true, List.zip_cons_cons, List.zip_nil_right]
  rw [evalB_cons]
  simp only [evalS]
  have hcoll : evalE (handPrims procs all ret) envHand w (.glob "self.componentPostProcessors") =
      some (.list (procs.map encP), w) := by go_simp [handPrims, handFn]
  rw [show ([("meta", Val.str "meta"), ("name", Val.str "n")] : Env) = envHand from rfl, hcoll]; simp only []
  have := loopM_state encP
    (fun i x e w' => (evalB (handPrims procs all ret) (Env.def (Env.def e "_" (.int i)) "processor" x) w' handBody).map
      (fun (e', w'', ctl) => (Env.leave e' e.length, w'', ctl)))
    (fun (_ : Unit) => envHand) (handStep all) (fun i x _ w' => hand_iter procs all ret i x w') procs 0 () w
  rw [this, handStep_loop]
  go_simp [ctlOf]

end hand
end Ioc.Sem
