/-
  Semantic theorems for the REGENERATED reflectx.Id / TypeId and FileLoader.Order (interpretation: Ioc.SemTypeId).
-/
import Ioc.SemTypeId
import IocProofs.Lemmas.GoTactics
set_option linter.unusedSimpArgs false
namespace Ioc.Sem
open Ioc Ioc.Go

section typeid
variable (ts : List TyD) (typeOf : Nat → Nat) (join : String → String → String)

/-- TypeId: exactly ONE pointer level is removed (a pointer to a pointer is rendered by String()); an unnamed type is its
    String(), a named type path.Join(PkgPath, Name) -/
theorem typeId_sem (t : Nat) :
    run (tiPrims ts typeOf join) Progs.reflectx_TypeId [.ref t 190] () = some (.str (typeIdOf ts join t), ()) := by
  cases hp : (tyAt ts t).isPtr with
  | false =>
    by_cases hn : (tyAt ts t).name = ""
    · have hb : ((tyAt ts t).name == "") = true := by simpa using hn
      go_simp [Progs.reflectx_TypeId, tiPrims, tiFn, typeIdOf, hp, hn, hb]
    · have hb : ((tyAt ts t).name == "") = false := by simpa using hn
      go_simp [Progs.reflectx_TypeId, tiPrims, tiFn, typeIdOf, hp, hn, hb]
  | true =>
    by_cases hn : (tyAt ts (tyAt ts t).elem).name = ""
    · have hb : ((tyAt ts (tyAt ts t).elem).name == "") = true := by simpa using hn
      go_simp [Progs.reflectx_TypeId, tiPrims, tiFn, typeIdOf, hp, hn, hb]
    · have hb : ((tyAt ts (tyAt ts t).elem).name == "") = false := by simpa using hn
      go_simp [Progs.reflectx_TypeId, tiPrims, tiFn, typeIdOf, hp, hn, hb]

/-- Id: "<nil>" for nil, else the type id of the component's dynamic type -/
theorem id_sem (c : Nat) :
    run (tiPrims ts typeOf join) Progs.reflectx_Id [.nil] () = some (.str "<nil>", ()) ∧
    run (tiPrims ts typeOf join) Progs.reflectx_Id [.ref c 0] () = some (.str (typeIdOf ts join (typeOf c)), ()) := by
  constructor
  · go_simp [Progs.reflectx_Id]
  · go_simp [Progs.reflectx_Id, tiPrims, tiFn, typeIdOf]

end typeid

/-- FileLoader.Order is 0 -/
theorem fileLoaderOrder_sem : run (tiPrims [] id (· ++ ·)) Progs.loader_File_Order [] () = some (.int 0, ()) := by
  go_simp [Progs.loader_File_Order]

end Ioc.Sem
