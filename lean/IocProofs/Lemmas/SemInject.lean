/-
  The regenerated program of component_definition/property.go `Property.Inject` computes `Sem.injectModel`.
-/
import Ioc.SemInject
import IocProofs.Lemmas.GoTactics
namespace Ioc.Sem
open Ioc Ioc.Go


/-- the assignability loop of Inject: returns at the first unassignable meta -/
theorem loopM_assignable {σ : Type} (ok : Nat → Bool) (out : Val) (f : Nat → Val → Env → σ → Option (Env × σ × Ctl)) (env : Env) (w : σ)
    (hf : ∀ i m, f i (encM m) env w = some (env, w, if ok m then Ctl.norm else Ctl.ret out)) :
    ∀ (ms : List Nat) (i : Nat), loopM f i (ms.map encM) env w =
      some (env, w, if ms.any (fun m => !(ok m)) then Ctl.ret out else Ctl.norm) := by
  intro ms
  induction ms with
  | nil => intro i; simp [loopM]
  | cons m rest ih =>
    intro i
    simp only [List.map_cons, loopM, hf, List.any_cons]
    by_cases hm : ok m = true
    · simp [hm, ih]
    · have hm' : ok m = false := by simpa using hm
      simp [hm']

/-- the slice-fill loop of Inject: element i receives the i-th meta, which records the holder as a dependent -/
theorem loopM_fill (f : Nat → Val → Env → InjW → Option (Env × InjW × Ctl)) (env : Env)
    (hf : ∀ i m w, f i (encM m) env w = some (env, { w with elems := w.elems ++ [(i, m)], deps := w.deps ++ [m] }, Ctl.norm)) :
    ∀ (ms : List Nat) (k : Nat) (w : InjW), loopM f k (ms.map encM) env w =
      some (env, { w with elems := w.elems ++ (List.range' k ms.length).zip ms, deps := w.deps ++ ms }, Ctl.norm) := by
  intro ms
  induction ms with
  | nil => intro k w; simp [loopM]
  | cons m rest ih =>
    intro k w
    simp only [List.map_cons, loopM, hf, ih, List.length_cons, List.range'_succ, List.zip_cons_cons]
    simp [List.append_assoc]

def injStmt (i : Nat) : Stmt := Progs.prop_Inject.body.getD i .brk
theorem inj_body : Progs.prop_Inject.body =
    [injStmt 0, injStmt 1, injStmt 2, injStmt 3, injStmt 4, injStmt 5, injStmt 6, injStmt 7, injStmt 8, injStmt 9, injStmt 10] := rfl
theorem inj_params : Progs.prop_Inject.params = ["metas"] := rfl

def envI (ms : List Nat) (req : Bool) : Env := [("isRequired", .bool req), ("metas", .list (ms.map encM))]
def envI2 (c : InjCtx) (ms : List Nat) : Env := ("elemType", if c.slice then .ref 0 6 else .ref 0 5) :: envI ms c.required

theorem inj_s0 (c : InjCtx) (ms : List Nat) (w : InjW) :
    evalS (injPrims c) [("metas", .list (ms.map encM))] w (injStmt 0) =
      some ([("metas", .list (ms.map encM))], w, if c.isComponent then .norm else .ret errI) := by
  cases h : c.isComponent <;> go_simp [injStmt, Progs.prop_Inject, injPrims, injFn, h]

theorem inj_s1 (c : InjCtx) (ms : List Nat) (w : InjW) :
    evalS (injPrims c) [("metas", .list (ms.map encM))] w (injStmt 1) = some (envI ms c.required, w, .norm) := by
  go_simp [injStmt, Progs.prop_Inject, injPrims, injFn, envI]

/-- statements 2 and 4: nothing (left) to inject -/
theorem inj_empty (c : InjCtx) (ms : List Nat) (w : InjW) (k : Nat) (hk : k = 2 ∨ k = 4) :
    evalS (injPrims c) (envI ms c.required) w (injStmt k) =
      some (envI ms c.required, w, if ms.isEmpty then .ret (if c.required then errI else .nil) else .norm) := by
  rcases hk with rfl | rfl <;> cases ms <;> cases hr : c.required <;>
    go_simp [injStmt, Progs.prop_Inject, injPrims, injFn, envI, hr]

theorem inj_s3 (c : InjCtx) (ms : List Nat) (w : InjW) :
    evalS (injPrims c) (envI ms c.required) w (injStmt 3) =
      some (envI (ms.filter (fun m => !(c.isSelf m))) c.required, w, .norm) := by
  simp only [injStmt, Progs.prop_Inject, List.getD_cons_succ, List.getD_cons_zero, evalS, evalE, evalEs, envI, Env.get,
    String.reduceEq, if_false, if_true, Option.map, injPrims, injHfn]
  rw [filterM_pure encM _ (fun m => !(c.isSelf m)) w ms (by
    intro x hx
    go_simp [injFn, encM])]
  go_simp [envI]


theorem inj_s56 (c : InjCtx) (ms : List Nat) (w : InjW) :
    evalB (injPrims c) (envI ms c.required) w [injStmt 5, injStmt 6] = some (envI2 c ms, w, .norm) := by
  cases hs : c.slice <;> go_simp [injStmt, Progs.prop_Inject, injPrims, injFn, envI, envI2, hs]

theorem inj_s7 (c : InjCtx) (ms : List Nat) (w : InjW) :
    evalS (injPrims c) (envI2 c ms) w (injStmt 7) =
      some (envI2 c ms, w, if ms.any (fun m => !(c.assignable m)) then .ret (if c.required then errI else .nil) else .norm) := by
  simp only [injStmt, Progs.prop_Inject, List.getD_cons_succ, List.getD_cons_zero, evalS]
  have hcoll : evalE (injPrims c) (envI2 c ms) w (.var "metas") = some (.list (ms.map encM), w) := by go_simp [envI2, envI]
  rw [hcoll]
  simp only []
  rw [loopM_assignable c.assignable (if c.required then errI else .nil) _ (envI2 c ms) w (by
    intro i m
    cases ha : c.assignable m <;> cases hr : c.required <;> cases hs : c.slice <;>
      go_simp [injPrims, injFn, envI2, envI, encM, ha, hr, hs])]

def inj8Parts : Stmt × Expr × Stmt × Stmt :=
  match injStmt 8 with
  | .ifs _ _ [tagDef, .ifs _ c [setMake, fill] _] _ => (tagDef, c, setMake, fill)
  | _ => (.brk, .nil, .brk, .brk)

def inj8Else : List Stmt :=
  match injStmt 8 with
  | .ifs _ _ [_, .ifs _ _ _ els] _ => els
  | _ => []

theorem inj8_shape : injStmt 8 =
    .ifs [] (.bool true) [inj8Parts.1, .ifs [] inj8Parts.2.1 [inj8Parts.2.2.1, inj8Parts.2.2.2] inj8Else] [] := rfl

def envI3 (c : InjCtx) (ms : List Nat) : Env := ("$tag", .int (if c.slice then 23 else 22)) :: envI2 c ms

theorem inj8_tag (c : InjCtx) (ms : List Nat) (w : InjW) :
    evalS (injPrims c) (envI2 c ms) w inj8Parts.1 = some (envI3 c ms, w, .norm) := by
  go_simp [inj8Parts, injStmt, Progs.prop_Inject, injPrims, injFn, envI3, envI2, envI]

theorem inj8_cond (c : InjCtx) (ms : List Nat) (w : InjW) :
    evalE (injPrims c) (envI3 c ms) w inj8Parts.2.1 = some (.bool c.slice, w) := by
  cases hs : c.slice <;> go_simp [inj8Parts, injStmt, Progs.prop_Inject, injPrims, injFn, envI3, envI2, envI, hs]

theorem inj8_make (c : InjCtx) (ms : List Nat) (w : InjW) :
    evalS (injPrims c) (envI3 c ms) w inj8Parts.2.2.1 = some (envI3 c ms, { w with made := some ms.length }, .norm) := by
  go_simp [inj8Parts, injStmt, Progs.prop_Inject, injPrims, injFn, envI3, envI2, envI]

theorem inj8_fill (c : InjCtx) (ms : List Nat) (w : InjW) :
    evalS (injPrims c) (envI3 c ms) w inj8Parts.2.2.2 =
      some (envI3 c ms, { w with elems := w.elems ++ (List.range' 0 ms.length).zip ms, deps := w.deps ++ ms }, .norm) := by
  simp only [inj8Parts, injStmt, Progs.prop_Inject, List.getD_cons_succ, List.getD_cons_zero, evalS]
  have hcoll : evalE (injPrims c) (envI3 c ms) w (.var "metas") = some (.list (ms.map encM), w) := by
    go_simp [envI3, envI2, envI]
  rw [hcoll]
  simp only []
  rw [loopM_fill _ (envI3 c ms) (by
    intro i m w
    go_simp [injPrims, injFn, envI3, envI2, envI, encM]) ms 0 w]

theorem inj8_else (c : InjCtx) (m : Nat) (rest : List Nat) (w : InjW) :
    evalB (injPrims c) (envI3 c (m :: rest)) w inj8Else =
      some (("m", encM m) :: envI3 c (m :: rest), { w with single := some m, deps := w.deps ++ [m] }, .norm) := by
  go_simp [inj8Else, injStmt, Progs.prop_Inject, injPrims, injFn, envI3, envI2, envI, encM]

@[simp] theorem lenI2 (c : InjCtx) (ms : List Nat) : (envI2 c ms).length = 3 := by simp [envI2, envI]
@[simp] theorem lenI3 (c : InjCtx) (ms : List Nat) : (envI3 c ms).length = 4 := by simp [envI3]

/-- statement 8: the switch on the field's kind -/
theorem inj_s8 (c : InjCtx) (ms : List Nat) (hne : ms ≠ []) (w : InjW) :
    evalS (injPrims c) (envI2 c ms) w (injStmt 8) =
      some (envI2 c ms,
        (if c.slice then { w with made := some ms.length, elems := w.elems ++ (List.range' 0 ms.length).zip ms, deps := w.deps ++ ms }
         else { w with single := ms.head?, deps := w.deps ++ ms.take 1 }), .norm) := by
  rw [inj8_shape]
  rw [evalS_ifs_true (w1 := w) (w2 := w) _ _ _ _ _ _ _ _ (evalB_nil _ _ _) (by go_simp [])]
  rw [evalB_cons, inj8_tag]
  simp only []
  rw [evalB_cons]
  cases hs : c.slice with
  | true =>
    rw [evalS_ifs_true (w1 := w) (w2 := w) _ _ _ _ _ _ _ _ (evalB_nil _ _ _) (by rw [inj8_cond, hs])]
    rw [evalB_cons, inj8_make]
    simp only []
    rw [evalB_cons, inj8_fill]
    simp [evalB_nil, Env.leave, envI3]
  | false =>
    rw [evalS_ifs_false (w1 := w) (w2 := w) _ _ _ _ _ _ _ _ (evalB_nil _ _ _) (by rw [inj8_cond, hs])]
    cases ms with
    | nil => exact absurd rfl hne
    | cons m rest =>
      rw [inj8_else]
      simp [evalB_nil, Env.leave, envI3]


theorem decM_map (l : List Nat) : (l.map encM).mapM decM = some l := by
  induction l with
  | nil => rfl
  | cons a t ih => simp [List.mapM_cons, decM, encM] at ih ⊢; rw [ih]; rfl

theorem inj_s9 (c : InjCtx) (ms : List Nat) (w : InjW) :
    evalS (injPrims c) (envI2 c ms) w (injStmt 9) = some (envI2 c ms, { w with injects := some ms }, .norm) := by
  have hd := decM_map ms
  go_simp [injStmt, Progs.prop_Inject, injPrims, injFn, envI2, envI, hd]

theorem inj_s10 (c : InjCtx) (ms : List Nat) (w : InjW) :
    evalS (injPrims c) (envI2 c ms) w (injStmt 10) = some (envI2 c ms, w, .ret .nil) := by
  go_simp [injStmt, Progs.prop_Inject, envI2, envI]

def encErr (b : Bool) : Val := if b then errI else .nil

/-- Property.Inject, regenerated: which error it returns and what it writes, for every list of metas and every answer of
    IsRequired / IsSelf / AssignableTo / Kind -/
theorem inject_sem (c : InjCtx) (metas : List Nat) :
    run (injPrims c) Progs.prop_Inject [.list (metas.map encM)] {} =
      some (encErr (injectModel c metas).1, (injectModel c metas).2) := by
  simp only [run, inj_params, inj_body, List.length_cons, List.length_nil, if_true, List.zip_cons_cons, List.zip_nil_right]
  unfold injectModel injectTail
  rw [evalB_cons, inj_s0]
  cases hc : c.isComponent with
  | false => simp [encErr]
  | true =>
    simp only [if_true, Bool.not_true, Bool.false_eq_true, if_false]
    rw [evalB_cons, inj_s1]; simp only []
    rw [evalB_cons, inj_empty c metas _ 2 (Or.inl rfl)]
    cases h1 : metas.isEmpty with
    | true => cases c.required <;> simp [encErr]
    | false =>
      simp only [Bool.false_eq_true, if_false]
      rw [evalB_cons, inj_s3]; simp only []
      rw [evalB_cons, inj_empty c _ _ 4 (Or.inr rfl)]
      cases h2 : (metas.filter (fun m => !(c.isSelf m))).isEmpty with
      | true => cases c.required <;> simp [encErr]
      | false =>
        simp only [Bool.false_eq_true, if_false]
        rw [show [injStmt 5, injStmt 6, injStmt 7, injStmt 8, injStmt 9, injStmt 10] =
              [injStmt 5, injStmt 6] ++ [injStmt 7, injStmt 8, injStmt 9, injStmt 10] from rfl]
        rw [evalB_append, inj_s56]; simp only []
        rw [evalB_cons, inj_s7]
        cases h3 : (metas.filter (fun m => !(c.isSelf m))).any (fun m => !(c.assignable m)) with
        | true => cases c.required <;> simp [encErr]
        | false =>
          simp only [Bool.false_eq_true, if_false]
          have hne : metas.filter (fun m => !(c.isSelf m)) ≠ [] := by
            intro h; rw [h] at h2; cases h2
          rw [evalB_cons, inj_s8 c _ hne]; simp only []
          rw [evalB_cons, inj_s9]; simp only []
          rw [evalB_cons, inj_s10]
          cases hs : c.slice with
          | true => simp [encErr, List.range_eq_range']
          | false =>
            cases hms : metas.filter (fun m => !(c.isSelf m)) with
            | nil => exact absurd hms hne
            | cons m rest => simp [encErr]


end Ioc.Sem
