/-
  The regenerated programs of the delegate that walk `componentPostProcessors` outside the initialization path compute M4's
  loops: ResolveAfterInstantiation = Order.twoStepLoop over the InstantiationAware processors, GetEarlyBeanReference =
  Order.getEarlyBeanReference, InvokeBeanFactoryPostProcessors = Order.registerLoop over the sorted raw processors.
-/
import Ioc.SemDelegate
import IocProofs.Lemmas.GoTactics
namespace Ioc.Sem
open Ioc Ioc.Go Ioc.Order


/-! ### ResolveAfterInstantiation -/
section rai
variable (procs : List Nat) (isInst : Nat → Bool) (res : Nat → Step) (errOk : Nat → Bool)

def raiStep (p : Nat) (_ : Unit) (w : List (Ev Nat)) : Unit × List (Ev Nat) × Option Val :=
  if isInst p then ((), w ++ (res p).evs p, if (res p).stops then some errN else none) else ((), w, none)

theorem raiStep_loop (ps : List Nat) (w : List (Ev Nat)) :
    stepLoop (raiStep isInst res) ps () w =
      ((), (twoStepLoop res (ps.filter isInst) w).1, if (twoStepLoop res (ps.filter isInst) w).2 then some errN else none) := by
  induction ps generalizing w with
  | nil => simp [stepLoop, twoStepLoop]
  | cons p rest ih =>
    simp only [stepLoop, raiStep, List.filter_cons]
    cases hi : isInst p with
    | false => simp [ih]
    | true =>
      simp only [if_true, twoStepLoop]
      obtain hr | hr | ⟨b, hr⟩ : res p = .err ∨ res p = .skip ∨ ∃ b, res p = .next b := by
        cases res p <;> simp
      · simp [hr, Step.stops, Step.evs]
      · simp [hr, Step.stops, Step.evs, ih]
      · cases b <;> simp [hr, Step.stops, Step.evs, ih]

def raiBody : List Stmt :=
  match Progs.del_ResolveAfterInstantiation.body with
  | [.range _ _ _ b, _] => b
  | _ => []
theorem rai_shape : Progs.del_ResolveAfterInstantiation.body =
    [.range "_" "processor" (.glob "self.componentPostProcessors") raiBody, .ret [.nil]] := rfl
theorem rai_params : Progs.del_ResolveAfterInstantiation.params = ["meta", "name"] := rfl

def envRAI : Env := [("meta", .str "meta"), ("name", .str "n")]

theorem rai_iter (i p : Nat) (w : List (Ev Nat)) :
    (evalB (raiPrims procs isInst res errOk) (Env.def (Env.def envRAI "_" (.int i)) "processor" (encP p)) w raiBody).map
        (fun (e', w'', ctl) => (Env.leave e' envRAI.length, w'', ctl)) =
      some (envRAI, (raiStep isInst res p () w).2.1, ctlOf (raiStep isInst res p () w).2.2) := by
  cases hi : isInst p with
  | false => go_simp [raiBody, Progs.del_ResolveAfterInstantiation, raiPrims, raiFn, envRAI, encP, raiStep, hi, ctlOf]
  | true =>
    cases hr : res p with
    | err => cases he : errOk p <;> go_simp [raiBody, Progs.del_ResolveAfterInstantiation, raiPrims, raiFn, envRAI, encP, raiStep, hi, hr, he, ctlOf, Step.evs, Step.stops, errN]
    | skip => go_simp [raiBody, Progs.del_ResolveAfterInstantiation, raiPrims, raiFn, envRAI, encP, raiStep, hi, hr, ctlOf, Step.evs, Step.stops, errN]
    | next b => cases b <;> go_simp [raiBody, Progs.del_ResolveAfterInstantiation, raiPrims, raiFn, envRAI, encP, raiStep, hi, hr, ctlOf, Step.evs, Step.stops, errN]

/-- ResolveAfterInstantiation, regenerated: the two-step loop over the InstantiationAware processors, in list order -/
theorem resolveAfterInstantiation_sem (w : List (Ev Nat)) :
    run (raiPrims procs isInst res errOk) Progs.del_ResolveAfterInstantiation [.str "meta", .str "n"] w =
      some (if (twoStepLoop res (procs.filter isInst) w).2 then errN else .nil, (twoStepLoop res (procs.filter isInst) w).1) := by
  simp only [run, rai_params, rai_shape, List.length_cons, List.length_nil, if_true, List.zip_cons_cons, List.zip_nil_right]
  rw [evalB_cons]
  simp only [evalS]
  have hcoll : evalE (raiPrims procs isInst res errOk) envRAI w (.glob "self.componentPostProcessors") =
      some (.list (procs.map encP), w) := by go_simp [raiPrims, raiFn]
  rw [show ([("meta", Val.str "meta"), ("name", Val.str "n")] : Env) = envRAI from rfl, hcoll]; simp only []
  have := loopM_state encP
    (fun i x e w' => (evalB (raiPrims procs isInst res errOk) (Env.def (Env.def e "_" (.int i)) "processor" x) w' raiBody).map
      (fun (e', w'', ctl) => (Env.leave e' e.length, w'', ctl)))
    (fun (_ : Unit) => envRAI) (raiStep isInst res) (fun i x _ w' => rai_iter procs isInst res errOk i x w') procs 0 () w
  rw [this, raiStep_loop]
  cases h : (twoStepLoop res (procs.filter isInst) w).2 <;> go_simp [ctlOf, h]

end rai

/-! ### GetEarlyBeanReference -/
section geb
variable (procs : List Nat) (hasInst : Bool) (isSmart : Nat → Bool) (get : Nat → Nat → Option Nat)

/-- state: the current `exposedComponent` (`none` once a callback failed: the code assigns the nil it got) -/
def gebStep (p : Nat) (cur : Option Nat) (w : List Nat) : Option Nat × List Nat × Option Val :=
  match cur with
  | none => (none, w, none)
  | some c =>
    if isSmart p then
      match get p c with
      | none => (none, w ++ [p], some (.tuple [.nil, errN]))
      | some c' => (some c', w ++ [p], none)
    else (some c, w, none)

theorem gebStep_loop (ps : List Nat) (c : Nat) (w : List Nat) :
    stepLoop (gebStep isSmart get) ps (some c) w =
      ((earlyRefLoop isSmart get ps c w).2, (earlyRefLoop isSmart get ps c w).1,
        match (earlyRefLoop isSmart get ps c w).2 with
        | none => some (.tuple [.nil, errN])
        | some _ => none) := by
  induction ps generalizing c w with
  | nil => simp [stepLoop, earlyRefLoop]
  | cons p rest ih =>
    simp only [stepLoop, gebStep, earlyRefLoop]
    cases hs : isSmart p with
    | false => simp [ih]
    | true =>
      simp only [if_true]
      cases hg : get p c with
      | none => simp
      | some c' => simp [ih]

def gebBody : List Stmt :=
  match Progs.del_GetEarlyBeanReference.body with
  | [_, _, .ifs _ _ [.range _ _ _ b] _, _] => b
  | _ => []
theorem geb_shape : Progs.del_GetEarlyBeanReference.body =
    [.define ["exposedComponent"] (.var "m"), .define ["err"] .nil,
     .ifs [] (.glob "self.hasInstantiationAwareComponentPostProcessor")
       [.range "_" "processor" (.glob "self.componentPostProcessors") gebBody] [],
     .ret [.var "exposedComponent", .nil]] := rfl
theorem geb_params : Progs.del_GetEarlyBeanReference.params = ["name", "m"] := rfl

def encO : Option Nat → Val
  | none => .nil
  | some c => encC c

def envGEB (c0 : Nat) : Option Nat → Env
  | none => [("err", errN), ("exposedComponent", .nil), ("name", .str "n"), ("m", encC c0)]
  | some c => [("err", .nil), ("exposedComponent", encC c), ("name", .str "n"), ("m", encC c0)]

theorem envGEB_length (c0 : Nat) (t : Option Nat) : (envGEB c0 t).length = 4 := by cases t <;> rfl

theorem geb_iter (c0 i p : Nat) (cur : Option Nat) (w : List Nat) (hc : cur.isSome) :
    (evalB (dgebPrims procs hasInst isSmart get) (Env.def (Env.def (envGEB c0 cur) "_" (.int i)) "processor" (encP p)) w gebBody).map
        (fun (e', w'', ctl) => (Env.leave e' (envGEB c0 cur).length, w'', ctl)) =
      some (envGEB c0 (gebStep isSmart get p cur w).1, (gebStep isSmart get p cur w).2.1, ctlOf (gebStep isSmart get p cur w).2.2) := by
  cases cur with
  | none => simp at hc
  | some c =>
    cases hs : isSmart p with
    | false => go_simp [gebBody, Progs.del_GetEarlyBeanReference, dgebPrims, dgebFn, envGEB, encP, encC, gebStep, hs, ctlOf]
    | true =>
      cases hg : get p c with
      | none => go_simp [gebBody, Progs.del_GetEarlyBeanReference, dgebPrims, dgebFn, envGEB, encP, encC, gebStep, hs, hg, ctlOf, errN]
      | some c' => go_simp [gebBody, Progs.del_GetEarlyBeanReference, dgebPrims, dgebFn, envGEB, encP, encC, gebStep, hs, hg, ctlOf, errN]

theorem gebStep_inv (p : Nat) (t : Option Nat) (w : List Nat) (ht : t.isSome) (h : (gebStep isSmart get p t w).2.2 = none) :
    (gebStep isSmart get p t w).1.isSome := by
  cases t with
  | none => simp at ht
  | some c =>
    simp only [gebStep] at h ⊢
    cases hs : isSmart p with
    | false => simp
    | true =>
      simp only [hs, if_true] at h ⊢
      cases hg : get p c with
      | none => simp [hg] at h
      | some c' => simp

def encEarlyD : Option Nat → Val
  | none => .tuple [.nil, errN]
  | some c => .tuple [encC c, .nil]

/-- GetEarlyBeanReference of the delegate, regenerated: `Order.getEarlyBeanReference` -/
theorem delegateEarlyRef_sem (c : Nat) :
    run (dgebPrims procs hasInst isSmart get) Progs.del_GetEarlyBeanReference [.str "n", encC c] [] =
      some (encEarlyD (getEarlyBeanReference hasInst isSmart get procs c).2, (getEarlyBeanReference hasInst isSmart get procs c).1) := by
  simp only [run, geb_params, geb_shape, List.length_cons, List.length_nil, if_true, List.zip_cons_cons, List.zip_nil_right]
  rw [evalB_cons]
  have h0 : evalS (dgebPrims procs hasInst isSmart get) [("name", .str "n"), ("m", encC c)] [] (.define ["exposedComponent"] (.var "m")) =
      some ([("exposedComponent", encC c), ("name", .str "n"), ("m", encC c)], [], .norm) := by go_simp []
  rw [h0]; simp only []
  rw [evalB_cons]
  have h1 : evalS (dgebPrims procs hasInst isSmart get) [("exposedComponent", encC c), ("name", .str "n"), ("m", encC c)] [] (.define ["err"] .nil) =
      some (envGEB c (some c), [], .norm) := by go_simp [envGEB]
  rw [h1]; simp only []
  rw [evalB_cons]
  cases hh : hasInst with
  | false =>
    rw [evalS_ifs_false (w1 := []) (w2 := []) (env1 := envGEB c (some c)) (hinit := by rw [evalB_nil])
      (hc := by go_simp [dgebPrims, dgebFn, hh])]
    go_simp [envGEB, getEarlyBeanReference, encEarlyD, encC]
  | true =>
    rw [evalS_ifs_true (w1 := []) (w2 := []) (env1 := envGEB c (some c)) (hinit := by rw [evalB_nil])
      (hc := by go_simp [dgebPrims, dgebFn, hh])]
    rw [evalB_cons]
    simp only [evalS]
    have hcoll : evalE (dgebPrims procs true isSmart get) (envGEB c (some c)) [] (.glob "self.componentPostProcessors") =
        some (.list (procs.map encP), []) := by go_simp [dgebPrims, dgebFn]
    rw [hcoll]; simp only []
    have := loopM_state_inv encP
      (fun i x e w' => (evalB (dgebPrims procs true isSmart get) (Env.def (Env.def e "_" (.int i)) "processor" x) w' gebBody).map
        (fun (e', w'', ctl) => (Env.leave e' e.length, w'', ctl)))
      (envGEB c) (gebStep isSmart get) (fun t => t.isSome = true)
      (fun i x t w' ht => geb_iter procs true isSmart get c i x t w' ht)
      (fun x t w' ht h => gebStep_inv isSmart get x t w' ht h) procs 0 (some c) [] rfl
    rw [this, gebStep_loop]
    simp only [getEarlyBeanReference, if_true]
    cases hr : (earlyRefLoop isSmart get procs c []).2 with
    | none => go_simp [ctlOf, encEarlyD, envGEB_length]
    | some c' => go_simp [ctlOf, encEarlyD, envGEB, encC]

end geb

/-! ### InvokeBeanFactoryPostProcessors -/
section reg
variable (fpFails : Nat → Bool) (drFails : Bool) (sorted : List Nat) (lazy : Nat → Bool) (getc : Nat → Option Nat) (isCPP : Nat → Bool)

def fpStep (p : Nat) (_ : Unit) (w : RegW) : Unit × RegW × Option Val :=
  ((), { w with fcalls := w.fcalls ++ [p] }, if fpFails p then some errN else none)

theorem fpStep_loop (ps : List Nat) (w : RegW) :
    stepLoop (fpStep fpFails) ps () w =
      ((), { w with fcalls := (runLoop fpFails ps w.fcalls).1 }, if (runLoop fpFails ps w.fcalls).2 then some errN else none) := by
  induction ps generalizing w with
  | nil => simp [stepLoop, runLoop]
  | cons p rest ih =>
    by_cases hf : fpFails p = true
    · simp [stepLoop, fpStep, runLoop, hf]
    · simp [stepLoop, fpStep, runLoop, hf, ih]

def regStep (p : Nat) (_ : Unit) (w : RegW) : Unit × RegW × Option Val :=
  if lazy p then ((), { w with cpp := w.cpp ++ [encP p] }, none) else
    match getc p with
    | none => ((), { w with gets := w.gets ++ [p] }, some errN)
    | some q => ((), { w with gets := w.gets ++ [p], cpp := w.cpp ++ [encP (if isCPP q then q else p)] }, none)

/-- which processors GetComponentByName is asked for: the non-lazy ones, up to the first failure -/
def getsLoop : List Nat → List Nat
  | [] => []
  | p :: rest => if lazy p then getsLoop rest else
      match getc p with
      | none => [p]
      | some _ => p :: getsLoop rest

theorem regStep_loop (ps : List Nat) (w : RegW) (cpp0 : List Nat) (hw : w.cpp = cpp0.map encP) :
    stepLoop (regStep lazy getc isCPP) ps () w =
      ((), { w with gets := w.gets ++ getsLoop lazy getc ps,
                    cpp := (registerLoop (resolveOf lazy getc isCPP) ps cpp0).1.map encP },
        if (registerLoop (resolveOf lazy getc isCPP) ps cpp0).2 then some errN else none) := by
  induction ps generalizing w cpp0 with
  | nil => simp [stepLoop, registerLoop, getsLoop, ← hw]
  | cons p rest ih =>
    by_cases hl : lazy p = true
    · simp only [stepLoop, regStep, registerLoop, resolveOf, getsLoop, hl, if_true]
      rw [ih _ (cpp0 ++ [p]) (by simp [hw])]
    · obtain hg | ⟨q, hg⟩ : getc p = none ∨ ∃ q, getc p = some q := by cases getc p <;> simp
      · simp [stepLoop, regStep, registerLoop, resolveOf, getsLoop, hl, hg, hw]
      · simp only [stepLoop, regStep, registerLoop, resolveOf, getsLoop, hl, hg, if_false, Bool.false_eq_true]
        rw [ih _ (cpp0 ++ [if isCPP q then q else p]) (by simp [hw])]
        simp [List.append_assoc]


def ibStmt (i : Nat) : Stmt := Progs.del_InvokeBeanFactoryPostProcessors.body.getD i .brk
theorem ib_body : Progs.del_InvokeBeanFactoryPostProcessors.body =
    [ibStmt 0, ibStmt 1, ibStmt 2, ibStmt 3, ibStmt 4, ibStmt 5, ibStmt 6] := rfl
theorem ib_params : Progs.del_InvokeBeanFactoryPostProcessors.params = ["factory", "factoryProcessors"] := rfl

def ibBody1 : List Stmt := match ibStmt 0 with | .range _ _ _ b => b | _ => []
def ibBody2 : List Stmt := match ibStmt 4 with | .range _ _ _ b => b | _ => []
theorem ib_s0_shape : ibStmt 0 = .range "_" "processor" (.var "factoryProcessors") ibBody1 := rfl
theorem ib_s4_shape : ibStmt 4 = .range "_" "processor" (.glob "self.rawComponentPostProcessors") ibBody2 := rfl

def envIB (fprocs : List Nat) : Env := [("factory", .str "factory"), ("factoryProcessors", .list (fprocs.map encP))]
def envIB2 (fprocs : List Nat) : Env := ("err", .nil) :: envIB fprocs

abbrev RP := regPrims' fpFails drFails sorted lazy getc isCPP

theorem ib1_iter (fprocs : List Nat) (i p : Nat) (w : RegW) :
    (evalB (RP fpFails drFails sorted lazy getc isCPP) (Env.def (Env.def (envIB fprocs) "_" (.int i)) "processor" (encP p)) w ibBody1).map
        (fun (e', w'', ctl) => (Env.leave e' (envIB fprocs).length, w'', ctl)) =
      some (envIB fprocs, (fpStep fpFails p () w).2.1, ctlOf (fpStep fpFails p () w).2.2) := by
  cases hf : fpFails p <;>
    go_simp [ibBody1, ibStmt, Progs.del_InvokeBeanFactoryPostProcessors, regPrims', regFn, envIB, encP, fpStep, hf, ctlOf, errN]

theorem ib_s0 (fprocs : List Nat) (w : RegW) :
    evalS (RP fpFails drFails sorted lazy getc isCPP) (envIB fprocs) w (ibStmt 0) =
      some (envIB fprocs, { w with fcalls := (runLoop fpFails fprocs w.fcalls).1 },
            if (runLoop fpFails fprocs w.fcalls).2 then .ret errN else .norm) := by
  rw [ib_s0_shape]
  simp only [evalS]
  have hcoll : evalE (RP fpFails drFails sorted lazy getc isCPP) (envIB fprocs) w (.var "factoryProcessors") =
      some (.list (fprocs.map encP), w) := by go_simp [envIB]
  rw [hcoll]; simp only []
  have := loopM_state encP
    (fun i x e w' => (evalB (RP fpFails drFails sorted lazy getc isCPP) (Env.def (Env.def e "_" (.int i)) "processor" x) w' ibBody1).map
      (fun (e', w'', ctl) => (Env.leave e' e.length, w'', ctl)))
    (fun (_ : Unit) => envIB fprocs) (fpStep fpFails) (fun i x _ w' => ib1_iter fpFails drFails sorted lazy getc isCPP fprocs i x w') fprocs 0 () w
  rw [this, fpStep_loop]
  cases h : (runLoop fpFails fprocs w.fcalls).2 <;> simp [ctlOf]

theorem ib2_iter (fprocs : List Nat) (i p : Nat) (w : RegW) :
    (evalB (RP fpFails drFails sorted lazy getc isCPP) (Env.def (Env.def (envIB2 fprocs) "_" (.int i)) "processor" (encP p)) w ibBody2).map
        (fun (e', w'', ctl) => (Env.leave e' (envIB2 fprocs).length, w'', ctl)) =
      some (envIB2 fprocs, (regStep lazy getc isCPP p () w).2.1, ctlOf (regStep lazy getc isCPP p () w).2.2) := by
  cases hl : lazy p with
  | true => go_simp [ibBody2, ibStmt, Progs.del_InvokeBeanFactoryPostProcessors, regPrims', regFn, envIB2, envIB, encP, regStep, hl, ctlOf, errN]
  | false =>
    cases hg : getc p with
    | none => go_simp [ibBody2, ibStmt, Progs.del_InvokeBeanFactoryPostProcessors, regPrims', regFn, envIB2, envIB, encP, regStep, hl, hg, ctlOf, errN]
    | some q =>
      cases hq : isCPP q <;>
        go_simp [ibBody2, ibStmt, Progs.del_InvokeBeanFactoryPostProcessors, regPrims', regFn, envIB2, envIB, encP, regStep, hl, hg, hq, ctlOf, errN]


theorem ib_s4 (fprocs cpp0 : List Nat) (w : RegW) (hraw : w.raw = .list (sorted.map encP)) (hw : w.cpp = cpp0.map encP) :
    evalS (RP fpFails drFails sorted lazy getc isCPP) (envIB2 fprocs) w (ibStmt 4) =
      some (envIB2 fprocs, { w with gets := w.gets ++ getsLoop lazy getc sorted,
                                    cpp := (registerLoop (resolveOf lazy getc isCPP) sorted cpp0).1.map encP },
            if (registerLoop (resolveOf lazy getc isCPP) sorted cpp0).2 then .ret errN else .norm) := by
  rw [ib_s4_shape]
  simp only [evalS]
  have hcoll : evalE (RP fpFails drFails sorted lazy getc isCPP) (envIB2 fprocs) w (.glob "self.rawComponentPostProcessors") =
      some (.list (sorted.map encP), w) := by go_simp [regPrims', regFn, hraw]
  rw [hcoll]; simp only []
  have := loopM_state encP
    (fun i x e w' => (evalB (RP fpFails drFails sorted lazy getc isCPP) (Env.def (Env.def e "_" (.int i)) "processor" x) w' ibBody2).map
      (fun (e', w'', ctl) => (Env.leave e' e.length, w'', ctl)))
    (fun (_ : Unit) => envIB2 fprocs) (regStep lazy getc isCPP) (fun i x _ w' => ib2_iter fpFails drFails sorted lazy getc isCPP fprocs i x w') sorted 0 () w
  rw [this, regStep_loop lazy getc isCPP sorted w cpp0 hw]
  cases h : (registerLoop (resolveOf lazy getc isCPP) sorted cpp0).2 <;> simp [ctlOf]

/-- what InvokeBeanFactoryPostProcessors does, on the model -/
def invokeModel (fprocs raw cpp0 : List Nat) : Val × RegW :=
  let fl := runLoop fpFails fprocs []
  if fl.2 then (errN, { fcalls := fl.1, raw := .list (raw.map encP), cpp := cpp0.map encP })
  else if drFails then (errN, { fcalls := fl.1, defReg := true, raw := .list (raw.map encP), cpp := cpp0.map encP })
  else
    let r := registerLoop (resolveOf lazy getc isCPP) sorted cpp0
    (if r.2 then errN else .nil,
     { fcalls := fl.1, defReg := true, raw := if r.2 then .list (sorted.map encP) else .nil, cpp := r.1.map encP,
       gets := getsLoop lazy getc sorted })

/-- InvokeBeanFactoryPostProcessors, regenerated: every factory post-processor in the order given (first error ends it), the
    definition-registry processors, then the raw component post-processors are SORTED and registered in that order
    (`Order.registerLoop` = `Order.invokeRegister` with the sort's result): a non-lazy one is first created through the factory
    and the created instance is what gets registered -/
theorem invokeBeanFactoryPostProcessors_sem (fprocs raw cpp0 : List Nat) :
    run (RP fpFails drFails sorted lazy getc isCPP) Progs.del_InvokeBeanFactoryPostProcessors
        [.str "factory", .list (fprocs.map encP)] { raw := .list (raw.map encP), cpp := cpp0.map encP } =
      some (invokeModel fpFails drFails sorted lazy getc isCPP fprocs raw cpp0) := by
  simp only [run, ib_params, ib_body, List.length_cons, List.length_nil, if_true, List.zip_cons_cons, List.zip_nil_right]
  rw [show ([("factory", Val.str "factory"), ("factoryProcessors", Val.list (fprocs.map encP))] : Env) = envIB fprocs from rfl]
  rw [evalB_cons, ib_s0]
  unfold invokeModel
  cases hfl : (runLoop fpFails fprocs []).2 with
  | true => simp [hfl]
  | false =>
    simp only [hfl, Bool.false_eq_true, if_false]
    rw [evalB_cons]
    cases hd : drFails with
    | true =>
      go_simp [ibStmt, Progs.del_InvokeBeanFactoryPostProcessors, regPrims', regFn, envIB, hd, errN]
    | false =>
      have h1 : evalS (RP fpFails false sorted lazy getc isCPP) (envIB fprocs)
          { fcalls := (runLoop fpFails fprocs []).1, raw := .list (raw.map encP), cpp := cpp0.map encP } (ibStmt 1) =
          some (envIB2 fprocs, { fcalls := (runLoop fpFails fprocs []).1, defReg := true, raw := .list (raw.map encP), cpp := cpp0.map encP }, .norm) := by
        go_simp [ibStmt, Progs.del_InvokeBeanFactoryPostProcessors, regPrims', regFn, envIB, envIB2]
      rw [h1]; simp only []
      rw [evalB_cons]
      have h2 : ∀ w, evalS (RP fpFails false sorted lazy getc isCPP) (envIB2 fprocs) w (ibStmt 2) = some (envIB2 fprocs, w, .norm) := by
        intro w; go_simp [ibStmt, Progs.del_InvokeBeanFactoryPostProcessors, regPrims', regFn, envIB, envIB2]
      rw [h2]; simp only []
      rw [evalB_cons]
      have h3 : ∀ w : RegW, evalS (RP fpFails false sorted lazy getc isCPP) (envIB2 fprocs) w (ibStmt 3) =
          some (envIB2 fprocs, { w with raw := .list (sorted.map encP) }, .norm) := by
        intro w; go_simp [ibStmt, Progs.del_InvokeBeanFactoryPostProcessors, regPrims', regFn, envIB, envIB2]
      rw [h3]; simp only []
      rw [evalB_cons, ib_s4 fpFails false sorted lazy getc isCPP fprocs cpp0 _ rfl rfl]
      cases hr : (registerLoop (resolveOf lazy getc isCPP) sorted cpp0).2 with
      | true => simp
      | false =>
        simp only [Bool.false_eq_true, if_false]
        go_simp [ibStmt, Progs.del_InvokeBeanFactoryPostProcessors, regPrims', regFn, envIB, envIB2]

end reg
end Ioc.Sem
