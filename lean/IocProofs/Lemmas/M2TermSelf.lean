/-
  The self filter of Inject (component_definition/property.go:72-81) in the factory machine (Ioc.Container, M2):
  no field ever holds its own holder, and a point whose only obtained candidates are the holder itself is an error when
  required and left empty when optional.
-/
import IocProofs.Lemmas.M2Term
namespace Ioc.M2
open Term

/-- no injection point holds (a version of) its own holder -/
def NoSelf (st : St) : Prop := ∀ h i o, o ∈ st.fields h i → o.name ≠ h

namespace Term

theorem noSelf_of_eq {st st' : St} (h : NoSelf st) (e : st'.fields = st.fields) : NoSelf st' := by
  intro a i o ho; rw [e] at ho; exact h a i o ho

/-- the three outcomes of a cache lookup followed by "else create" leave the fields alone -/
theorem noSelf_get (sc : Scen) (st sA : St) (c : Nat) (h : NoSelf st) (e : sA.fields = st.fields)
    (k : Obj → St → St) (hk : ∀ o s, (k o s).fields = s.fields) :
    NoSelf (match lookup sc sA c with
      | .hit o st' => k o st'
      | .err st' => failAt st' c
      | .miss => enter sc sA c) := by
  split
  · rename_i o st' hl
    exact noSelf_of_eq h ((hk o st').trans ((lookup_hit sc sA st' c o hl).2.2.2.2.2.1.trans e))
  · rename_i st' hl
    exact noSelf_of_eq h (show (failAt st' c).fields = st.fields from (lookup_err sc sA st' c hl).1.trans e)
  · exact noSelf_of_eq h ((enter_fields sc sA c).trans e)

theorem noSelf_step (sc : Scen) (st : St) (h : NoSelf st) : NoSelf (step sc st) := by
  unfold step
  split
  rotate_left
  · exact h
  split
  · split
    · rename_i n t _
      dsimp only
      exact noSelf_get sc st { st with todoBoot := t, stage := .factory } n h rfl (fun _ s => s) (fun _ _ => rfl)
    · split
      · exact noSelf_of_eq h rfl
      · rename_i n t _
        dsimp only
        exact noSelf_get sc st { st with todo := t, stage := .refresh } n h rfl (fun _ s => s) (fun _ _ => rfl)
  · rename_i f rest hstack
    dsimp only
    split
    · split
      · exact noSelf_get sc st st _ h rfl
          (fun o s => { s with stack := { f with d := f.d + 1, acc := f.acc ++ [o] } :: rest }) (fun _ _ => rfl)
      · split
        · exact noSelf_of_eq h rfl
        · split
          · split
            · exact noSelf_of_eq h rfl
            · exact noSelf_of_eq h rfl
          · split
            · split
              · exact noSelf_of_eq h rfl
              · exact noSelf_of_eq h rfl
            · -- the only write: what is stored went through the filter `o.name != f.name`
              intro a i o ho
              simp only [upd2] at ho
              split at ho
              · rename_i hc
                have hmem : o ∈ f.acc.filter (fun o => o.name != f.name) := by
                  split at ho
                  · exact ho
                  · exact List.mem_of_mem_take ho
                have hne := (List.mem_filter.mp hmem).2
                rw [hc.1]; simpa using hne
              · exact h a i o ho
    · have hsame := (initCallbacks_same sc st f.name).fields
      split
      · exact noSelf_of_eq h (show (failAt _ f.name).fields = st.fields from hsame)
      · split
        · exact noSelf_of_eq h (show (publish _ f.name _ rest).fields = st.fields from hsame)
        · split
          · exact noSelf_of_eq h (show (publish _ f.name _ rest).fields = st.fields from hsame)
          · split
            · exact noSelf_of_eq h (show (failAt _ f.name).fields = st.fields from hsame)
            · exact noSelf_of_eq h (show (publish _ f.name _ rest).fields = st.fields from hsame)

theorem noSelf_run (sc : Scen) (k : Nat) (st : St) (h : NoSelf st) : NoSelf (run sc k st) := by
  induction k generalizing st with
  | zero => exact h
  | succ k ih => exact ih _ (noSelf_step sc st h)

theorem filter_self_nil (f : Frame) (hacc : ∀ o ∈ f.acc, o.name = f.name) :
    f.acc.filter (fun o => o.name != f.name) = [] := by
  rw [List.filter_eq_nil_iff]
  intro o ho
  simp [hacc o ho]

end Term

theorem noSelf_reachable (sc : Scen) (k : Nat) : NoSelf (run sc k (init sc)) :=
  noSelf_run sc k (init sc) (fun _ _ _ ho => by simp [init] at ho)

/-- the step taken when the top frame has collected a non-empty point and everything it obtained is the holder itself -/
theorem step_self_only (sc : Scen) (st : St) (f : Frame) (rest : List Frame)
    (hr : st.status = .running) (hs : st.stack = f :: rest)
    (hp : f.p < (pts sc f.name).length)
    (hd : f.d = ((pts sc f.name)[f.p]).cands.length)
    (hne : ((pts sc f.name)[f.p]).cands ≠ [])
    (hacc : ∀ o ∈ f.acc, o.name = f.name) :
    step sc st =
      if ((pts sc f.name)[f.p]).required then failAt st f.name
      else { st with stack := { f with p := f.p + 1, d := 0, acc := [] } :: rest } := by
  have hnd : ¬ f.d < ((pts sc f.name)[f.p]).cands.length := by omega
  have hemp : ((pts sc f.name)[f.p]).cands.isEmpty = false := by
    cases hc : ((pts sc f.name)[f.p]).cands with
    | nil => exact absurd hc hne
    | cons _ _ => rfl
  unfold step
  split
  rotate_left
  · rename_i hnr; exact absurd hr hnr
  split
  · rename_i he; rw [hs] at he; cases he
  · rename_i f' rest' he
    rw [hs] at he
    obtain ⟨rfl, rfl⟩ := List.cons.inj he
    dsimp only
    rw [dif_pos hp, dif_neg hnd]
    simp only [hemp, filter_self_nil f hacc, List.isEmpty_nil, if_true, Bool.false_eq_true, if_false]

end Ioc.M2
