/-
  Semantic theorems for the REGENERATED small methods of package processors (interpretation: Ioc.SemProcessors).
-/
import Ioc.SemProcessors
import IocProofs.Lemmas.GoTactics
set_option linter.unusedSimpArgs false
namespace Ioc.Sem
open Ioc Ioc.Go

theorem pp_quote_Order_sem (w : Option Val) : run ppPrims Progs.pp_quote_Order [] w = some (.str "PriorityOrderPropertyConfigQuoteAware", w) := by
  go_simp [Progs.pp_quote_Order, ppPrims, ppFn]
theorem pp_quote_After_sem (c n : Val) (w : Option Val) :
    run ppPrims Progs.pp_quote_AfterInstantiation [c, n] w = some (.tuple [.bool true, .nil], w) := by
  go_simp [Progs.pp_quote_AfterInstantiation, ppPrims, ppFn]
theorem pp_quote_Factory_sem (w : Option Val) :
    run ppPrims Progs.pp_quote_ComponentFactory [.ref 0 171] w =
      some (.nil, some (.tuple [.str "Configure", .str "factory.GetConfigure()"])) := by
  go_simp [Progs.pp_quote_ComponentFactory, ppPrims, ppFn]
theorem pp_dep_Order_sem (w : Option Val) : run ppPrims Progs.pp_dep_Order [] w = some (.str "OrderDependencyAware", w) := by
  go_simp [Progs.pp_dep_Order, ppPrims, ppFn]
theorem pp_dep_After_sem (c n : Val) (w : Option Val) :
    run ppPrims Progs.pp_dep_AfterInstantiation [c, n] w = some (.tuple [.bool true, .nil], w) := by
  go_simp [Progs.pp_dep_AfterInstantiation, ppPrims, ppFn]
theorem pp_dep_Factory_sem (w : Option Val) :
    run ppPrims Progs.pp_dep_ComponentFactory [.ref 0 171] w =
      some (.nil, some (.tuple [.str "Registry", .str "factory.GetDefinitionRegistry()"])) := by
  go_simp [Progs.pp_dep_ComponentFactory, ppPrims, ppFn]
theorem pp_depfn_Order_sem (w : Option Val) : run ppPrims Progs.pp_depfn_Order [] w = some (.str "OrderDependencyAware", w) := by
  go_simp [Progs.pp_depfn_Order, ppPrims, ppFn]
theorem pp_depfn_After_sem (c n : Val) (w : Option Val) :
    run ppPrims Progs.pp_depfn_AfterInstantiation [c, n] w = some (.tuple [.bool true, .nil], w) := by
  go_simp [Progs.pp_depfn_AfterInstantiation, ppPrims, ppFn]
theorem pp_depfn_Factory_sem (w : Option Val) :
    run ppPrims Progs.pp_depfn_ComponentFactory [.ref 0 171] w =
      some (.nil, some (.tuple [.str "Registry", .str "factory.GetDefinitionRegistry()"])) := by
  go_simp [Progs.pp_depfn_ComponentFactory, ppPrims, ppFn]
theorem pp_further_Order_sem (w : Option Val) : run ppPrims Progs.pp_further_Order [] w = some (.str "OrderDependencyFurtherMatching", w) := by
  go_simp [Progs.pp_further_Order, ppPrims, ppFn]
theorem pp_further_After_sem (c n : Val) (w : Option Val) :
    run ppPrims Progs.pp_further_AfterInstantiation [c, n] w = some (.tuple [.bool true, .nil], w) := by
  go_simp [Progs.pp_further_AfterInstantiation, ppPrims, ppFn]
theorem pp_expr_Order_sem (w : Option Val) : run ppPrims Progs.pp_expr_Order [] w = some (.str "PriorityOrderPropertyExpressionTagAware", w) := by
  go_simp [Progs.pp_expr_Order, ppPrims, ppFn]
theorem pp_expr_After_sem (c n : Val) (w : Option Val) :
    run ppPrims Progs.pp_expr_AfterInstantiation [c, n] w = some (.tuple [.bool true, .nil], w) := by
  go_simp [Progs.pp_expr_AfterInstantiation, ppPrims, ppFn]
theorem pp_logger_Order_sem (w : Option Val) : run ppPrims Progs.pp_logger_Order [] w = some (.str "PriorityOrderLoggerAware", w) := by
  go_simp [Progs.pp_logger_Order, ppPrims, ppFn]
theorem pp_logger_After_sem (c n : Val) (w : Option Val) :
    run ppPrims Progs.pp_logger_AfterInstantiation [c, n] w = some (.tuple [.bool true, .nil], w) := by
  go_simp [Progs.pp_logger_AfterInstantiation, ppPrims, ppFn]
theorem pp_props_Order_sem (w : Option Val) : run ppPrims Progs.pp_props_Order [] w = some (.str "PriorityOrderPopulateProperties", w) := by
  go_simp [Progs.pp_props_Order, ppPrims, ppFn]
theorem pp_props_After_sem (c n : Val) (w : Option Val) :
    run ppPrims Progs.pp_props_AfterInstantiation [c, n] w = some (.tuple [.bool true, .nil], w) := by
  go_simp [Progs.pp_props_AfterInstantiation, ppPrims, ppFn]
theorem pp_props_Factory_sem (w : Option Val) :
    run ppPrims Progs.pp_props_ComponentFactory [.ref 0 171] w =
      some (.nil, some (.tuple [.str "Configure", .str "factory.GetConfigure()"])) := by
  go_simp [Progs.pp_props_ComponentFactory, ppPrims, ppFn]
theorem pp_validate_Order_sem (w : Option Val) : run ppPrims Progs.pp_validate_Order [] w = some (.str "OrderValidate", w) := by
  go_simp [Progs.pp_validate_Order, ppPrims, ppFn]
theorem pp_validate_After_sem (c n : Val) (w : Option Val) :
    run ppPrims Progs.pp_validate_AfterInstantiation [c, n] w = some (.tuple [.bool true, .nil], w) := by
  go_simp [Progs.pp_validate_AfterInstantiation, ppPrims, ppFn]
theorem pp_value_Order_sem (w : Option Val) : run ppPrims Progs.pp_value_Order [] w = some (.str "PriorityOrderPopulateProperties", w) := by
  go_simp [Progs.pp_value_Order, ppPrims, ppFn]
theorem pp_value_After_sem (c n : Val) (w : Option Val) :
    run ppPrims Progs.pp_value_AfterInstantiation [c, n] w = some (.tuple [.bool true, .nil], w) := by
  go_simp [Progs.pp_value_AfterInstantiation, ppPrims, ppFn]

theorem pp_default_sem (c n : Val) (w : Option Val) :
    run ppPrims Progs.pp_default_BeforeInitialization [c, n] w = some (.tuple [c, .nil], w) ∧
    run ppPrims Progs.pp_default_AfterInitialization [c, n] w = some (.tuple [c, .nil], w) ∧
    run ppPrims Progs.pp_default_BeforeInstantiation [c, n] w = some (.tuple [.nil, .nil], w) ∧
    run ppPrims Progs.pp_default_AfterInstantiation [c, n] w = some (.tuple [.bool false, .nil], w) ∧
    (∀ ps, run ppPrims Progs.pp_default_Properties [ps, c, n] w = some (.tuple [.nil, .nil], w)) := by
  refine ⟨?_, ?_, ?_, ?_, ?_⟩
  · go_simp [Progs.pp_default_BeforeInitialization]
  · go_simp [Progs.pp_default_AfterInitialization]
  · go_simp [Progs.pp_default_BeforeInstantiation]
  · go_simp [Progs.pp_default_AfterInstantiation]
  · intro ps; go_simp [Progs.pp_default_Properties]

/-! ### loggerAwarePostProcessors.PostProcessProperties -/

section loggerpp
variable (ps : List LProp)

def lgBody : List Stmt := match Progs.pp_logger_Properties.body with | [.range _ _ _ b, _] => b | _ => []
theorem lg_shape : Progs.pp_logger_Properties.body =
    [.range "_" "property" (.var "properties") lgBody, .ret [(.var "properties"), .nil]] := rfl

def envLG (n : Nat) : Env :=
  [("properties", .list ((List.range' 0 n).map (fun i => Val.ref i 20))), ("component", .str "c"), ("componentName", .str "n")]

theorem lg_iter (n j i : Nat) (w : List (Nat × String)) :
    (evalB (lgPrims ps) (Env.def (Env.def (envLG n) "_" (.int j)) "property" (.ref i 20)) w lgBody).map
        (fun (e', w'', ctl) => (Env.leave e' (envLG n).length, w'', ctl)) =
      some (envLG n, (lgStep ps i () w).2.1, ctlOf (lgStep ps i () w).2.2) := by
  cases h1 : (lpropAt ps i).isLoggerTag with
  | false => go_simp [lgBody, Progs.pp_logger_Properties, lgPrims, lgFn, envLG, lgStep, ctlOf, h1]
  | true =>
    cases h2 : (lpropAt ps i).implements with
    | false => go_simp [lgBody, Progs.pp_logger_Properties, lgPrims, lgFn, envLG, lgStep, ctlOf, h1, h2]
    | true =>
      by_cases h3 : (lpropAt ps i).tagStr = ""
      · have hb : ((lpropAt ps i).tagStr == "") = true := by simpa using h3
        cases h4 : (lpropAt ps i).hasEmbed <;>
          go_simp [lgBody, Progs.pp_logger_Properties, lgPrims, lgFn, envLG, lgStep, ctlOf, loggerPref, h1, h2, h3, hb, h4]
      · have hb : ((lpropAt ps i).tagStr == "") = false := by simpa using h3
        go_simp [lgBody, Progs.pp_logger_Properties, lgPrims, lgFn, envLG, lgStep, ctlOf, loggerPref, h1, h2, h3, hb]

theorem lgStep_loop (l : List Nat) (w : List (Nat × String)) :
    stepLoop (lgStep ps) l () w =
      ((), w ++ (l.filter (fun i => (lpropAt ps i).isLoggerTag && (lpropAt ps i).implements)).map
                  (fun i => (i, loggerPref (lpropAt ps i))), none) := by
  induction l generalizing w with
  | nil => simp [stepLoop]
  | cons i rest ih =>
    simp only [stepLoop, lgStep]
    cases h : ((lpropAt ps i).isLoggerTag && (lpropAt ps i).implements) <;> simp [ih, List.filter_cons, h, List.append_assoc]

/-- the logger processor: exactly the properties that carry the logger tag AND whose type implements syslog.Logger get a logger,
    in order, with the prefix `loggerPref`; every other property is left alone; the properties are returned unchanged, never an
    error -/
theorem loggerProperties_sem (n : Nat) (w : List (Nat × String)) :
    run (lgPrims ps) Progs.pp_logger_Properties [.list ((List.range' 0 n).map (fun i => Val.ref i 20)), .str "c", .str "n"] w =
      some (.tuple [.list ((List.range' 0 n).map (fun i => Val.ref i 20)), .nil],
        w ++ ((List.range' 0 n).filter (fun i => (lpropAt ps i).isLoggerTag && (lpropAt ps i).implements)).map
               (fun i => (i, loggerPref (lpropAt ps i)))) := by
  simp only [run, lg_shape, show Progs.pp_logger_Properties.params = ["properties", "component", "componentName"] from rfl,
    List.length_cons, List.length_nil, if_true, List.zip_cons_cons, List.zip_nil_right]
  rw [evalB_cons]
  simp only [evalS]
  rw [show ([("properties", Val.list ((List.range' 0 n).map (fun i => Val.ref i 20))), ("component", Val.str "c"),
    ("componentName", Val.str "n")] : Env) = envLG n from rfl]
  have hc : evalE (lgPrims ps) (envLG n) w (.var "properties") = some (.list ((List.range' 0 n).map (fun i => Val.ref i 20)), w) := by
    go_simp [envLG]
  rw [hc]; simp only []
  have hl := loopM_state (fun i => Val.ref i 20)
    (fun j x e w' => (evalB (lgPrims ps) (Env.def (Env.def e "_" (.int j)) "property" x) w' lgBody).map
      (fun (e', w'', ctl) => (Env.leave e' e.length, w'', ctl)))
    (fun (_ : Unit) => envLG n) (lgStep ps) (fun j i _ w' => lg_iter ps n j i w') (List.range' 0 n) 0 () w
  rw [hl, lgStep_loop]
  go_simp [ctlOf, envLG]

end loggerpp
end Ioc.Sem
