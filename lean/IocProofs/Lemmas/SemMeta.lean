/-
  Semantic theorems for the REGENERATED naming helper and small Meta methods (interpretation: Ioc.SemMeta).
-/
import Ioc.SemMeta
import IocProofs.Lemmas.GoTactics
set_option linter.unusedSimpArgs false
namespace Ioc.Sem
open Ioc Ioc.Go

section naming
variable (tyName : Nat → String) (naming namingZero : Nat → Option String)

/-- the component itself, or a reflect.Value of it: the type-derived id and what ITS Naming() answers ("" without the method) -/
theorem nameWithAlias_component_sem (i : Nat) :
    run (namePrims tyName naming namingZero) Progs.name_GetComponentNameWithAlias [.ref i 50] () =
      some (.tuple [.str (tyName i), .str ((naming i).getD "")], ()) ∧
    run (namePrims tyName naming namingZero) Progs.name_GetComponentNameWithAlias [.ref i 10] () =
      some (.tuple [.str (tyName i), .str ((naming i).getD "")], ()) := by
  constructor <;> cases hn : naming i <;>
    go_simp [Progs.name_GetComponentNameWithAlias, namePrims, nameFn, hn]

/-- a reflect.Type: the same id, and the Naming() of a FRESH ZERO instance of the type -/
theorem nameWithAlias_type_sem (i : Nat) :
    run (namePrims tyName naming namingZero) Progs.name_GetComponentNameWithAlias [.ref i 11] () =
      some (.tuple [.str (tyName i), .str ((namingZero i).getD "")], ()) := by
  cases hn : namingZero i <;> go_simp [Progs.name_GetComponentNameWithAlias, namePrims, nameFn, hn]

/-- the registered name: the custom name when it is not empty, else the type-derived id -/
theorem componentName_sem (n a : String) (t : Val) :
    run (name2Prims n a) Progs.name_GetComponentName [t] () = some (.str (if a != "" then a else n), ()) := by
  by_cases ha : a = ""
  · go_simp [Progs.name_GetComponentName, name2Prims, ha]
  · have ha' : (a == "") = false := by simpa using ha
    go_simp [Progs.name_GetComponentName, name2Prims, ha, ha']

end naming

section metaops
variable (idOf nameOf : Nat → String) (isComp : Nat → Bool)

abbrev MP := metaPrims idOf nameOf isComp

theorem metaIsAlias_sem (w : MW) : run (MP idOf nameOf isComp) Progs.meta_IsAlias [] w = some (.bool (w.alias != ""), w) := by
  by_cases ha : w.alias = ""
  · go_simp [Progs.meta_IsAlias, MP, metaPrims, metaFn, ha]
  · have ha' : (w.alias == "") = false := by simpa using ha
    have hb : (w.alias != "") = true := by simp [bne, ha']
    go_simp [Progs.meta_IsAlias, MP, metaPrims, metaFn, ha, ha', hb]

theorem metaName_sem (w : MW) :
    run (MP idOf nameOf isComp) Progs.meta_Name [] w = some (.str (if w.alias != "" then w.alias else w.name), w) := by
  by_cases ha : w.alias = ""
  · go_simp [Progs.meta_Name, MP, metaPrims, metaFn, ha]
  · have ha' : (w.alias == "") = false := by simpa using ha
    have hb : (w.alias != "") = true := by simp [bne, ha']
    go_simp [Progs.meta_Name, MP, metaPrims, metaFn, ha, ha', hb]

theorem metaSetName_sem (n : String) (w : MW) :
    run (MP idOf nameOf isComp) Progs.meta_SetName [.str n] w =
      some (.tuple [], if n != w.name then { w with alias := n } else w) := by
  by_cases hn : n = w.name
  · go_simp [Progs.meta_SetName, MP, metaPrims, metaFn, hn]
  · have hn' : (n == w.name) = false := by simpa using hn
    have hb : (n != w.name) = true := by simp [bne, hn']
    go_simp [Progs.meta_SetName, MP, metaPrims, metaFn, hn, hn', hb]

/-- dependOn: a holder is recorded once per ID, in the order of first recording -/
theorem metaDependOn_sem (d : Nat) (w : MW) :
    run (MP idOf nameOf isComp) Progs.meta_dependOn [.ref d 0] w =
      some (.tuple [], if w.depSet.contains (idOf d) then w
                       else { w with dependent := w.dependent ++ [d], depSet := w.depSet ++ [idOf d] }) := by
  cases hc : w.depSet.contains (idOf d) with
  | true =>
    have hm : idOf d ∈ w.depSet := by simpa using hc
    go_simp [Progs.meta_dependOn, MP, metaPrims, metaFn, hc, hm]
  | false =>
    have hm : idOf d ∉ w.depSet := by simpa using hc
    cases hd : w.dependent with
    | nil => go_simp [Progs.meta_dependOn, MP, metaPrims, metaFn, hc, hm, hd, decDeps]
    | cons x rest =>
      have h1 := decDeps_map (x :: rest ++ [d])
      simp only [List.map_append, List.map_cons, List.map_nil, List.cons_append] at h1
      go_simp [Progs.meta_dependOn, MP, metaPrims, metaFn, hc, hm, hd, h1]

/-! GetDependents -/

def gdBody : List Stmt := match Progs.meta_GetDependents.body with | [_, .range _ _ _ b, _] => b | _ => []
theorem gd_shape : Progs.meta_GetDependents.body =
    [.define ["names"] .nil, .range "_" "meta" (.glob "self.Dependent") gdBody, .ret [.var "names"]] := rfl

def gdStep (d : Nat) (acc : List String) (w : MW) : List String × MW × Option Val := (acc ++ [nameOf d], w, none)

theorem gdStep_loop (ds : List Nat) (acc : List String) (w : MW) :
    stepLoop (gdStep nameOf) ds acc w = (acc ++ ds.map nameOf, w, none) := by
  induction ds generalizing acc with
  | nil => simp [stepLoop]
  | cons d rest ih => simp [stepLoop, gdStep, ih, List.append_assoc]

theorem encStrs_append (acc : List String) (s : String) : encStrs (acc ++ [s]) = .list ((acc ++ [s]).map Val.str) := by
  cases acc <;> simp [encStrs]

/-- GetDependents: the names of the recorded holders, in the order of recording (nil when there is none) -/
theorem metaGetDependents_sem (w : MW) :
    run (MP idOf nameOf isComp) Progs.meta_GetDependents [] w = some (encStrs (w.dependent.map nameOf), w) := by
  simp only [run, gd_shape, show Progs.meta_GetDependents.params = [] from rfl, List.length_nil, if_true, List.zip_nil_right]
  rw [evalB_cons]
  have h0 : evalS (MP idOf nameOf isComp) [] w (.define ["names"] .nil) = some ([("names", .nil)], w, .norm) := by go_simp []
  rw [h0]; simp only []
  rw [evalB_cons]
  cases hd : w.dependent with
  | nil =>
    have : evalS (MP idOf nameOf isComp) [("names", Val.nil)] w (.range "_" "meta" (.glob "self.Dependent") gdBody) =
        some ([("names", .nil)], w, .norm) := by go_simp [MP, metaPrims, metaFn, hd]
    rw [this]; go_simp [encStrs]
  | cons x rest =>
    simp only [evalS]
    have hcoll : evalE (MP idOf nameOf isComp) [("names", Val.nil)] w (.glob "self.Dependent") =
        some (.list ((x :: rest).map (fun d => Val.ref d 0)), w) := by go_simp [MP, metaPrims, metaFn, hd]
    rw [hcoll]; simp only []
    have := loopM_state (fun d => Val.ref d 0)
      (fun i v e w' => (evalB (MP idOf nameOf isComp) (Env.def (Env.def e "_" (.int i)) "meta" v) w' gdBody).map
        (fun (e', w'', ctl) => (Env.leave e' e.length, w'', ctl)))
      (fun (acc : List String) => [("names", encStrs acc)]) (gdStep nameOf)
      (by intro i d acc w'
          cases acc with
          | nil => go_simp [gdBody, Progs.meta_GetDependents, MP, metaPrims, metaFn, gdStep, ctlOf, encStrs]
          | cons a as =>
            have := encStrs_append (a :: as) (nameOf d)
            go_simp [gdBody, Progs.meta_GetDependents, MP, metaPrims, metaFn, gdStep, ctlOf, encStrs, this])
      (x :: rest) 0 [] w
    have henv : ([("names", Val.nil)] : Env) = [("names", encStrs [])] := rfl
    rw [henv, this, gdStep_loop]
    go_simp [ctlOf]

/-! SetProperties / GetComponentProperties -/

def spBody : List Stmt := match Progs.meta_SetProperties.body with | [.range _ _ _ b] => b | _ => []
theorem sp_shape : Progs.meta_SetProperties.body = [.range "_" "prop" (.var "properties") spBody] := rfl

def spStep (i : Nat) (_ : Unit) (w : MW) : Unit × MW × Option Val :=
  ((), if isComp i then { w with comp := w.comp ++ [i] } else { w with conf := w.conf ++ [i] }, none)

theorem spStep_loop (ps : List Nat) (w : MW) :
    stepLoop (spStep isComp) ps () w =
      ((), { w with comp := w.comp ++ ps.filter isComp, conf := w.conf ++ ps.filter (fun i => !isComp i) }, none) := by
  induction ps generalizing w with
  | nil => simp [stepLoop]
  | cons i rest ih =>
    simp only [stepLoop, spStep]
    cases hi : isComp i <;> simp [ih, List.filter_cons, hi, List.append_assoc]

def envSP (ps : List Nat) : Env := [("properties", .list (ps.map (fun i => Val.ref i 20)))]

theorem sp_iter (ps : List Nat) (j i : Nat) (w : MW) :
    (evalB (MP idOf nameOf isComp) (Env.def (Env.def (envSP ps) "_" (.int j)) "prop" (.ref i 20)) w spBody).map
        (fun (e', w'', ctl) => (Env.leave e' (envSP ps).length, w'', ctl)) =
      some (envSP ps, (spStep isComp i () w).2.1, ctlOf (spStep isComp i () w).2.2) := by
  cases hi : isComp i with
  | true =>
    cases hc : w.comp with
    | nil => go_simp [spBody, Progs.meta_SetProperties, MP, metaPrims, metaFn, envSP, spStep, ctlOf, hi, hc, encProps, decProps]
    | cons x rest =>
      have h1 := decProps_map (x :: rest ++ [i])
      simp only [List.map_append, List.map_cons, List.map_nil, List.cons_append] at h1
      go_simp [spBody, Progs.meta_SetProperties, MP, metaPrims, metaFn, envSP, spStep, ctlOf, hi, hc, encProps, h1]
  | false =>
    cases hc : w.conf with
    | nil => go_simp [spBody, Progs.meta_SetProperties, MP, metaPrims, metaFn, envSP, spStep, ctlOf, hi, hc, encProps, decProps]
    | cons x rest =>
      have h1 := decProps_map (x :: rest ++ [i])
      simp only [List.map_append, List.map_cons, List.map_nil, List.cons_append] at h1
      go_simp [spBody, Progs.meta_SetProperties, MP, metaPrims, metaFn, envSP, spStep, ctlOf, hi, hc, encProps, h1]

/-- SetProperties: EVERY property handed over is appended to the group of its type, in the order given — nothing is dropped,
    whatever the field name or tag of a property -/
theorem metaSetProperties_sem (ps : List Nat) (w : MW) :
    run (MP idOf nameOf isComp) Progs.meta_SetProperties [.list (ps.map (fun i => Val.ref i 20))] w =
      some (.tuple [], { w with comp := w.comp ++ ps.filter isComp, conf := w.conf ++ ps.filter (fun i => !isComp i) }) := by
  simp only [run, sp_shape, show Progs.meta_SetProperties.params = ["properties"] from rfl, List.length_cons, List.length_nil, if_true,
    List.zip_cons_cons, List.zip_nil_right]
  rw [evalB_cons]
  simp only [evalS]
  rw [show ([("properties", Val.list (ps.map (fun i => Val.ref i 20)))] : Env) = envSP ps from rfl]
  have hcoll : evalE (MP idOf nameOf isComp) (envSP ps) w (.var "properties") = some (.list (ps.map (fun i => Val.ref i 20)), w) := by
    go_simp [envSP]
  rw [hcoll]; simp only []
  have := loopM_state (fun i => Val.ref i 20)
    (fun j x e w' => (evalB (MP idOf nameOf isComp) (Env.def (Env.def e "_" (.int j)) "prop" x) w' spBody).map
      (fun (e', w'', ctl) => (Env.leave e' e.length, w'', ctl)))
    (fun (_ : Unit) => envSP ps) (spStep isComp) (fun j i _ w' => sp_iter idOf nameOf isComp ps j i w') ps 0 () w
  rw [this, spStep_loop]
  go_simp [ctlOf]

theorem metaGetComponentProperties_sem (w : MW) :
    run (MP idOf nameOf isComp) Progs.meta_GetComponentProperties [] w = some (encProps w.comp, w) := by
  go_simp [Progs.meta_GetComponentProperties, MP, metaPrims, metaFn]

end metaops
end Ioc.Sem
