/-
  Lemmas about the loader sequence (SortOrderedComponents on loaders), the option fold and the
  loadConfigure loop (C15).
-/
import IocProofs.Lemmas.Config
namespace Ioc.Config

/-! ### insertion sort by key -/

theorem insertByKey_perm (x : Loader) (l : List Loader) : (insertByKey x l).Perm (x :: l) := by
  induction l with
  | nil => exact List.Perm.refl _
  | cons y ys ih =>
    simp only [insertByKey]
    split
    · exact List.Perm.refl _
    · exact ((List.Perm.cons y ih).trans (List.Perm.swap x y ys))

theorem mem_insertByKey (x y : Loader) (l : List Loader) : y ∈ insertByKey x l ↔ y = x ∨ y ∈ l := by
  rw [(insertByKey_perm x l).mem_iff]; simp

theorem foldl_insert_perm (l acc : List Loader) :
    (l.foldl (fun acc x => insertByKey x acc) acc).Perm (acc ++ l) := by
  induction l generalizing acc with
  | nil => simp
  | cons x rest ih =>
    simp only [List.foldl_cons]
    refine (ih _).trans ?_
    refine ((insertByKey_perm x acc).append_right rest).trans ?_
    simpa using (List.perm_middle (a := x) (l₁ := acc) (l₂ := rest)).symm

theorem sortByKey_perm (l : List Loader) : (sortByKey l).Perm l := by
  simpa [sortByKey] using foldl_insert_perm l []

def KeyLe (x y : Loader) : Prop := x.cls.key ≤ y.cls.key

theorem insertByKey_sorted (x : Loader) (l : List Loader) (h : l.Pairwise KeyLe) : (insertByKey x l).Pairwise KeyLe := by
  induction l with
  | nil => simp [insertByKey]
  | cons y ys ih =>
    rw [List.pairwise_cons] at h
    simp only [insertByKey]
    split
    · rename_i hlt
      rw [List.pairwise_cons]
      refine ⟨?_, List.pairwise_cons.mpr h⟩
      intro z hz
      rcases List.mem_cons.mp hz with rfl | hz
      · exact Int.le_of_lt hlt
      · exact Int.le_trans (Int.le_of_lt hlt) (h.1 z hz)
    · rename_i hnlt
      rw [List.pairwise_cons]
      refine ⟨?_, ih h.2⟩
      intro z hz
      rcases (mem_insertByKey x z ys).mp hz with rfl | hz
      · exact Int.not_lt.mp hnlt
      · exact h.1 z hz

theorem foldl_insert_sorted (l acc : List Loader) (h : acc.Pairwise KeyLe) :
    (l.foldl (fun acc x => insertByKey x acc) acc).Pairwise KeyLe := by
  induction l generalizing acc with
  | nil => exact h
  | cons x rest ih => exact ih _ (insertByKey_sorted x acc h)

theorem sortByKey_sorted (l : List Loader) : (sortByKey l).Pairwise KeyLe :=
  foldl_insert_sorted l [] List.Pairwise.nil

/-- equal keys: the element goes to the end (stability of the insertion step) -/
theorem insertByKey_const (x : Loader) (l : List Loader) (k : Int) (hx : x.cls.key = k) (h : ∀ y ∈ l, y.cls.key = k) :
    insertByKey x l = l ++ [x] := by
  induction l with
  | nil => rfl
  | cons y ys ih =>
    have hy : y.cls.key = k := h y List.mem_cons_self
    simp only [insertByKey, hx, hy, Int.lt_irrefl, if_false, List.cons_append]
    rw [ih (fun z hz => h z (List.mem_cons_of_mem _ hz))]

theorem foldl_insert_const (l acc : List Loader) (k : Int) (hacc : ∀ y ∈ acc, y.cls.key = k) (h : ∀ y ∈ l, y.cls.key = k) :
    l.foldl (fun acc x => insertByKey x acc) acc = acc ++ l := by
  induction l generalizing acc with
  | nil => simp
  | cons x rest ih =>
    simp only [List.foldl_cons]
    rw [insertByKey_const x acc k (h x List.mem_cons_self) hacc]
    rw [ih]
    · simp
    · intro y hy
      rcases List.mem_append.mp hy with hy | hy
      · exact hacc y hy
      · simp at hy; subst hy; exact h _ List.mem_cons_self
    · exact fun y hy => h y (List.mem_cons_of_mem _ hy)

/-- loaders with one and the same Order() keep the order in which they were added -/
theorem sortByKey_const (l : List Loader) (k : Int) (h : ∀ y ∈ l, y.cls.key = k) : sortByKey l = l := by
  simpa [sortByKey] using foldl_insert_const l [] k (by simp) h

/-- inserting = splitting the list in two and putting the element in between -/
theorem insertByKey_split (x : Loader) (l : List Loader) :
    ∃ pre post, l = pre ++ post ∧ insertByKey x l = pre ++ x :: post := by
  induction l with
  | nil => exact ⟨[], [], rfl, rfl⟩
  | cons y ys ih =>
    simp only [insertByKey]
    split
    · exact ⟨[], y :: ys, rfl, rfl⟩
    · obtain ⟨pre, post, h1, h2⟩ := ih
      exact ⟨y :: pre, post, by simp [h1], by simp [h2]⟩

theorem sortByKey_snoc (l : List Loader) (x : Loader) : sortByKey (l ++ [x]) = insertByKey x (sortByKey l) := by
  simp [sortByKey, List.foldl_append]

/-! ### a class without equal Order() values has one sorted arrangement only -/

theorem eq_of_key_eq (l : List Loader) (hd : l.Pairwise (fun x y => x.cls.key ≠ y.cls.key)) :
    ∀ a ∈ l, ∀ b ∈ l, a.cls.key = b.cls.key → a = b := by
  induction l with
  | nil => intro a ha; cases ha
  | cons x xs ih =>
    have hx := (List.pairwise_cons.mp hd).1
    have ht := (List.pairwise_cons.mp hd).2
    intro a ha b hb hk
    rcases List.mem_cons.mp ha with rfl | ha'
    · rcases List.mem_cons.mp hb with rfl | hb'
      · rfl
      · exact absurd hk (hx b hb')
    · rcases List.mem_cons.mp hb with rfl | hb'
      · exact absurd hk.symm (hx a ha')
      · exact ih ht a ha' b hb' hk

/-- whatever algorithm sorts the class (Go's sort.Slice is an insertion sort up to 12 elements and pdqsort beyond,
    which does not keep equal elements in place): when no two members have the same Order(), every arrangement that
    is a permutation of the class and ascending by Order() IS the model's `sortByKey` -/
theorem sortByKey_unique (l l' : List Loader) (hd : l.Pairwise (fun x y => x.cls.key ≠ y.cls.key))
    (hp : l'.Perm l) (hs : l'.Pairwise KeyLe) : l' = sortByKey l := by
  refine List.Perm.eq_of_pairwise (le := KeyLe) ?_ hs (sortByKey_sorted l) (hp.trans (sortByKey_perm l).symm)
  intro a b ha hb h1 h2
  have ha' : a ∈ l := hp.subset ha
  have hb' : b ∈ l := (sortByKey_perm l).subset hb
  exact eq_of_key_eq l hd a ha' b hb' (Int.le_antisymm h1 h2)

/-! ### the loader sequence -/

theorem cls_cases (c : Cls) :
    (c.isPrio = true ∧ c.isOrd = false ∧ c.isPlain = false) ∨ (c.isPrio = false ∧ c.isOrd = true ∧ c.isPlain = false) ∨
    (c.isPrio = false ∧ c.isOrd = false ∧ c.isPlain = true) := by
  cases c <;> simp [Cls.isPrio, Cls.isOrd, Cls.isPlain]

theorem partition3_perm (ls : List Loader) :
    (ls.filter (·.cls.isPrio) ++ ls.filter (·.cls.isOrd) ++ ls.filter (·.cls.isPlain)).Perm ls := by
  induction ls with
  | nil => simp
  | cons x rest ih =>
    rcases cls_cases x.cls with ⟨h1, h2, h3⟩ | ⟨h1, h2, h3⟩ | ⟨h1, h2, h3⟩
    · simp only [List.filter_cons, h1, h2, h3, if_true, Bool.false_eq_true, if_false, List.cons_append]
      exact List.Perm.cons x ih
    · simp only [List.filter_cons, h1, h2, h3, if_true, Bool.false_eq_true, if_false]
      refine List.Perm.trans ?_ (List.Perm.cons x ih)
      simp only [List.append_assoc]
      exact List.perm_middle
    · simp only [List.filter_cons, h1, h2, h3, if_true, Bool.false_eq_true, if_false]
      refine List.Perm.trans ?_ (List.Perm.cons x ih)
      exact List.perm_middle

theorem loaderSeq_perm (ls : List Loader) : (loaderSeq ls).Perm ls := by
  refine List.Perm.trans ?_ (partition3_perm ls)
  simp only [loaderSeq]
  exact ((sortByKey_perm _).append (sortByKey_perm _)).append_right _

/-- adding one loader at the end of the configured list = putting it somewhere into the old sequence;
    everybody else keeps their relative position -/
theorem loaderSeq_snoc (ls : List Loader) (x : Loader) :
    ∃ pre post, loaderSeq ls = pre ++ post ∧ loaderSeq (ls ++ [x]) = pre ++ x :: post := by
  rcases cls_cases x.cls with ⟨h1, h2, h3⟩ | ⟨h1, h2, h3⟩ | ⟨h1, h2, h3⟩
  · obtain ⟨pre, post, e1, e2⟩ := insertByKey_split x (sortByKey (ls.filter (·.cls.isPrio)))
    refine ⟨pre, post ++ sortByKey (ls.filter (·.cls.isOrd)) ++ ls.filter (·.cls.isPlain), ?_, ?_⟩
    · simp [loaderSeq, e1]
    · simp [loaderSeq, List.filter_append, h1, h2, h3, sortByKey_snoc, e2]
  · obtain ⟨pre, post, e1, e2⟩ := insertByKey_split x (sortByKey (ls.filter (·.cls.isOrd)))
    refine ⟨sortByKey (ls.filter (·.cls.isPrio)) ++ pre, post ++ ls.filter (·.cls.isPlain), ?_, ?_⟩
    · simp [loaderSeq, e1]
    · simp [loaderSeq, List.filter_append, h1, h2, h3, sortByKey_snoc, e2]
  · refine ⟨loaderSeq ls, [], by simp, ?_⟩
    simp [loaderSeq, List.filter_append, h1, h2, h3]

/-! ### options -/

theorem applyFrom_snoc (init : List Loader) (opts : List Opt) (o : Opt) :
    applyFrom init (opts ++ [o]) = applyStep (applyFrom init opts) o := by
  simp [applyFrom, List.foldl_append]

/-! ### the loadConfigure loop is the fold of merges -/

/-- a loader that neither fails nor panics and whose document (if any) is a YAML mapping -/
def Loader.good (l : Loader) : Bool :=
  match l.out with
  | .empty => true
  | .doc d => d.isMap
  | _ => false

theorem loadLoop_good (seq : List Loader) (acc : Cfg) (h : ∀ l ∈ seq, l.good = true) :
    loadLoop seq acc = .ok ((seq.filterMap docOf).foldl merge acc) := by
  induction seq generalizing acc with
  | nil => rfl
  | cons l rest ih =>
    have hl := h l List.mem_cons_self
    have hr := fun x hx => h x (List.mem_cons_of_mem _ hx)
    unfold loadLoop
    cases ho : l.out with
    | empty => simp [docOf, ho, ih _ hr]
    | doc d =>
      have hm : d.isMap = true := by simpa [Loader.good, ho] using hl
      simp [docOf, ho, hm, ih _ hr]
    | fail => simp [Loader.good, ho] at hl
    | panic => simp [Loader.good, ho] at hl

theorem good_of_perm {l1 l2 : List Loader} (hp : l1.Perm l2) (h : ∀ l ∈ l2, l.good = true) : ∀ l ∈ l1, l.good = true :=
  fun l hl => h l (hp.mem_iff.mp hl)

/-- the documents of a loader list, in loader sequence, as viper sees them -/
def docsOf (ls : List Loader) : List Cfg := (loaderSeq ls).filterMap docOf

theorem loadAll_good (ls : List Loader) (h : ∀ l ∈ ls, l.good = true) : loadAll ls = .ok (mergeAll (docsOf ls)) := by
  simp only [loadAll, mergeAll, docsOf]
  exact loadLoop_good _ _ (good_of_perm (loaderSeq_perm ls) h)

end Ioc.Config
