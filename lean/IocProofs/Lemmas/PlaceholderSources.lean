/-
  Lemmas about sources merged after the start in the placeholder model (Ioc.Placeholder.mergeKvs / Conf): what a
  document that says `p: v` leaves at the path p of the documents layer, and what a lookup answers then.  Core Lean only.
-/
import IocProofs.Lemmas.PlaceholderLayers
namespace Ioc.Placeholder

/-- what `searchMap` makes of the entry it found -/
def entryAnswer (x : CVal) : List Bytes → GetRes
  | [] => .val (nilToNone x)
  | q :: rest =>
    match x with
    | .map _ => search x (q :: rest)
    | .list _ => search x (q :: rest)
    | _ => .val none

theorem searchMap_updKv (f : CVal → CVal) (k : Bytes) (d : CVal) (rest : List Bytes) (m : Cfg) :
    searchMap (updKv f k d m) k rest =
      match alookup k m with
      | none => entryAnswer d rest
      | some t => entryAnswer (f t) rest := by
  induction m with
  | nil =>
    cases rest with
    | nil => simp [updKv, searchMap, alookup, entryAnswer]
    | cons q r =>
      simp only [updKv, searchMap, alookup, entryAnswer, if_true]
      cases d <;> rfl
  | cons hd tl ih =>
    obtain ⟨k', v'⟩ := hd
    by_cases h : k' = k
    · subst h
      cases rest with
      | nil => simp [updKv, searchMap, alookup, entryAnswer]
      | cons q r =>
        simp only [updKv, searchMap, alookup, entryAnswer, if_true]
        generalize f v' = x
        cases x <;> rfl
    · simp only [updKv, h, if_false, searchMap, alookup]
      exact ih

theorem mergeVal_of_not_map (t v : CVal) (ht : t.isMap = false) : mergeVal t v = v := by
  cases t <;> simp_all [mergeVal, CVal.isMap]

theorem mergeVal_map_not_map (a : Cfg) (v : CVal) (hv : v.isMap = false) : mergeVal (.map a) v = .map a := by
  cases v <;> simp_all [mergeVal, CVal.isMap]

theorem mergeKvs_single (a : Cfg) (k : Bytes) (v : CVal) :
    mergeKvs a [(k, v)] = updKv (fun t => mergeVal t v) k v a := by
  simp [mergeKvs]

theorem pathDoc_cons2 (k k2 : Bytes) (rest : List Bytes) (v : CVal) :
    pathDoc (k :: k2 :: rest) v = [(k, .map (pathDoc (k2 :: rest) v))] := rfl

/-- viper's mergeMaps with the document `p: v`: unless the binder holds a MAP at p, a search of p finds v -/
theorem search_merge_pathDoc (p : List Bytes) (hp : p ≠ []) (v : CVal) :
    ∀ conf : Cfg, mapAt conf p = false → search (.map (mergeKvs conf (pathDoc p v))) p = .val (nilToNone v) := by
  induction p with
  | nil => exact absurd rfl hp
  | cons k rest ih =>
    intro conf hm
    cases rest with
    | nil =>
      simp only [pathDoc, mergeKvs_single, search, searchMap_updKv]
      cases hl : alookup k conf with
      | none => simp [entryAnswer]
      | some t =>
        have ht : t.isMap = false := by
          cases t <;> simp_all [mapAt, CVal.isMap]
        simp [entryAnswer, mergeVal_of_not_map t v ht]
    | cons k2 rest2 =>
      have ih' := ih (by simp)
      have hfresh : search (.map (pathDoc (k2 :: rest2) v)) (k2 :: rest2) = .val (nilToNone v) := by
        have := ih' [] (by simp [mapAt, alookup])
        cases rest2 <;> simpa [pathDoc, mergeKvs, updKv] using this
      simp only [pathDoc_cons2, mergeKvs_single, search, searchMap_updKv]
      cases hl : alookup k conf with
      | none => simpa [entryAnswer] using hfresh
      | some t =>
        cases t with
        | map m' =>
          have hm' : mapAt m' (k2 :: rest2) = false := by simpa [mapAt, hl] using hm
          simpa [entryAnswer, mergeVal] using ih' m' hm'
        | null => simpa [entryAnswer, mergeVal] using hfresh
        | str s => simpa [entryAnswer, mergeVal] using hfresh
        | num s => simpa [entryAnswer, mergeVal] using hfresh
        | bool s => simpa [entryAnswer, mergeVal] using hfresh
        | list s => simpa [entryAnswer, mergeVal] using hfresh

/-- a lookup that nothing of the override layer answers or shadows reads the documents layer -/
theorem get_of_conf (l : Layers) (key : Bytes) (hk : key ≠ [])
    (ho : searchOver l.over (splitDots (lower key)) = none) (hs : shadowed l.over (splitDots (lower key)) = false) :
    l.get key = search (.map l.conf) (splitDots (lower key)) := by
  unfold Layers.get Layers.getPath
  have : key.isEmpty = false := by cases key <;> simp_all
  simp [this, ho, hs]

theorem shadowed_nil (p : List Bytes) : shadowed [] p = false := by
  unfold shadowed
  exact shadowedFrom_nil p _ 1 (by omega)

theorem start_layers (base : Cfg) : (Conf.start base).layers = ⟨[], mergeDoc [] base⟩ := rfl

theorem step_setConfig_layers (c : Conf) (d : Cfg) :
    (c.step (.setConfig d)).layers = ⟨c.layers.over, mergeDoc c.layers.conf d⟩ := rfl

theorem step_addLoader_layers (c : Conf) (d : Cfg) :
    (c.step (.addLoader d)).layers = ⟨c.layers.over, mergeDoc (c.loaders.foldl mergeDoc c.layers.conf) d⟩ := by
  simp [Conf.step, Conf.initialize, List.foldl_append]

/-- the callback when the documents layer answers: a present value is formatted, not an earlier answer, not the default -/
theorem replL_of_conf (l : Layers) (content key : Bytes) (dflt : Option Bytes) (v : CVal) (hk : key ≠ [])
    (hsp : splitColon content = (key, dflt)) (ho : searchOver l.over (splitDots (lower key)) = none)
    (hs : shadowed l.over (splitDots (lower key)) = false)
    (h : search (.map l.conf) (splitDots (lower key)) = .val (some v)) (hp : isAbsent (some v) = false) :
    replL l content = .ok (format v) := by
  unfold replL
  simp only [hsp, get_of_conf l key hk ho hs, h, hp]
  cases v <;> simp_all [formatOpt, isAbsent]

end Ioc.Placeholder
