/-
  Semantic theorems for the REGENERATED Meta.scanFields and reflectx.ForEachFieldV2 (interpretation: Ioc.SemScanFields).
-/
import Ioc.SemScanFields
import IocProofs.Lemmas.GoTactics
set_option linter.unusedSimpArgs false
namespace Ioc.Sem
open Ioc Ioc.Go

section scan
variable {α : Type} (fs : List LField) (own : Nat → α) (sub : Nat → List α)

abbrev SCP := scanPrims fs own sub

def sfClosure : List String × List Stmt :=
  match Progs.meta_scanFields.body with
  | [.assign _ (.hcall _ _ ps b)] => (ps, b)
  | _ => ([], [])
theorem sf_shape : Progs.meta_scanFields.body =
    [.assign ["_"] (.hcall "reflectx.ForEachFieldV2" [.sel (.var "holder") "Type", .sel (.var "holder") "Value", .bool false]
      sfClosure.1 sfClosure.2)] := rfl
theorem sf_params : Progs.meta_scanFields.params = ["holder"] := rfl
theorem sfClosure_params : sfClosure.1 = ["field", "value"] := rfl

def envSF : Env := [("holder", .str "holder")]

def sfHandler : Handler (List α) := fun as w'' =>
  if sfClosure.1.length = as.length then
    match evalB (SCP fs own sub) ((sfClosure.1.zip as) ++ envSF) w'' sfClosure.2 with
    | some (_, w3, .ret v) => some (v, w3)
    | some (_, w3, .norm) => some (.tuple [], w3)
    | _ => none
  else none

open Lean.Parser.Tactic in
macro "sf_simp" "[" ts:simpLemma,* "]" : tactic =>
  `(tactic| go_simp [sfClosure, Progs.meta_scanFields, SCP, scanPrims, scanFn_hType, scanFn_hValue, scanFn_fType, scanFn_Anonymous,
      scanFn_Tag, scanFn_Kind, scanFn_rStruct, scanFn_Base, scanFn_Embed, scanFn_rec, scanFn_CanSet, scanFn_self, scanFn_selfFields,
      scanFn_Field, scanFn_append, scanFn_setFields, envSF, fieldScan, LField.descends, $ts,*])

/-- the function literal on field i: nil, and `m.Fields` grows by what the field contributes -/
theorem sf_closure (i : Nat) (w : List α) :
    sfHandler fs own sub [.ref i 60, .ref i 61] w =
      some (.nil, w ++ fieldScan (lfieldAt fs i) (own i) (sub i)) := by
  unfold sfHandler
  rw [sfClosure_params]
  simp only [List.length_cons, List.length_nil, if_true, List.zip_cons_cons, List.zip_nil_right]
  cases ha : (lfieldAt fs i).anon <;> cases ht : (lfieldAt fs i).tagEmpty <;> cases hs : (lfieldAt fs i).isStruct <;>
    cases hc : (lfieldAt fs i).canSet <;> sf_simp [ha, ht, hs, hc]

theorem feLoopK_sf : ∀ (is : List Nat) (k : Nat) (w : List α),
    feLoopK (sfHandler fs own sub) is w = some (.nil, w ++ levelScan fs own sub k is) := by
  intro is
  induction is with
  | nil => intro k w; simp [feLoopK, levelScan]
  | cons i rest ih =>
    intro k w
    simp only [feLoopK, sf_closure, levelScan]
    rw [ih k]
    simp [List.append_assoc]

/-- Meta.scanFields, regenerated WITH its function literal (the recursive call is the primitive `self.scanFields`): one level of
    a struct contributes, field by field in declaration order, what `fieldScan` says — the embedded struct's own scan for an
    anonymous, untagged, by-value struct (settable or not), the field itself when it is settable, nothing otherwise -/
theorem scanFields_sem (w : List α) :
    run (SCP fs own sub) Progs.meta_scanFields [.str "holder"] w =
      some (.tuple [], w ++ levelScan fs own sub 0 (List.range' 0 fs.length)) := by
  simp only [run, sf_params, sf_shape, List.length_cons, List.length_nil, if_true, List.zip_cons_cons, List.zip_nil_right]
  rw [evalB_cons]
  have hcall : evalE (SCP fs own sub) [("holder", Val.str "holder")] w
      (.hcall "reflectx.ForEachFieldV2" [.sel (.var "holder") "Type", .sel (.var "holder") "Value", .bool false] sfClosure.1 sfClosure.2) =
      some (.nil, w ++ levelScan fs own sub 0 (List.range' 0 fs.length)) := by
    have hargs : evalEs (SCP fs own sub) [("holder", Val.str "holder")] w
        [.sel (.var "holder") "Type", .sel (.var "holder") "Value", .bool false] = some ([.str "T", .str "V", .bool false], w) := by
      go_simp [SCP, scanPrims, scanFn_hType, scanFn_hValue]
    rw [evalE, hargs]
    simp only []
    have key : ∀ (h1 h2 : Handler (List α)), (∀ as w'', h1 as w'' = h2 as w'') →
        (SCP fs own sub).hfn "reflectx.ForEachFieldV2" [.str "T", .str "V", .bool false] h1 w =
        (SCP fs own sub).hfn "reflectx.ForEachFieldV2" [.str "T", .str "V", .bool false] h2 w := by
      intro h1 h2 hh
      have : h1 = h2 := funext fun as => funext fun w'' => hh as w''
      rw [this]
    refine (key _ (sfHandler fs own sub) ?_).trans ?_
    · intro as w''
      unfold sfHandler
      by_cases hlen : sfClosure.1.length = as.length
      · simp only [hlen, if_true]
        have henv : ([("holder", Val.str "holder")] : Env) = envSF := rfl
        rw [henv]
        cases evalB (SCP fs own sub) (sfClosure.1.zip as ++ envSF) w'' sfClosure.2 with
        | none => rfl
        | some r => obtain ⟨e, w3, c⟩ := r; cases c <;> rfl
      · simp only [hlen, if_false]
    · show feLoopK (sfHandler fs own sub) (List.range' 0 fs.length) w = _
      exact feLoopK_sf fs own sub _ 0 w
  simp only [evalS, hcall]
  go_simp []

end scan
/-! ### reflectx.ForEachFieldV2 -/
section fe
variable {σ : Type} (n : Nat) (pub : Nat → Bool) (cb : Nat → σ → Option String × σ)

def feBody : List Stmt := match Progs.reflectx_ForEachFieldV2.body with | [_, _, .forc _ _ _ b, _] => b | _ => []
def fePre : List Stmt := Progs.reflectx_ForEachFieldV2.body.take 2
theorem fe_shape : Progs.reflectx_ForEachFieldV2.body =
    fePre ++ [.forc [.define ["i"] (.int 0)] (.bin "<" (.var "i") (.mcall (.var "t") "NumField" []))
                [.assign ["i"] (.bin "+" (.var "i") (.int 1))] feBody,
              .ret [.nil]] := rfl
theorem fe_params : Progs.reflectx_ForEachFieldV2.params = ["t", "v", "excludePrivateField", "f"] := rfl

def envFE (ex : Bool) (i : Nat) : Env :=
  [("i", .int i), ("t", .str "T"), ("v", .str "V"), ("excludePrivateField", .bool ex), ("f", .ref 0 40)]

def encOptErr : Option String → Val
  | none => .nil
  | some e => .str e

/-- one round of the loop on the model state (the index) -/
def feStep (ex : Bool) (i : Nat) (w : σ) : Nat × σ × Option Ctl :=
  if i < n then
    if ex && !pub i then (i + 1, w, none)
    else match (cb i w).1 with
      | none => (i + 1, (cb i w).2, none)
      | some e => (i, (cb i w).2, some (.ret (.str e)))
  else (i, w, some .norm)

theorem fe_iter (fuel : Nat) (ex : Bool) (i : Nat) (w : σ) :
    forcIter (fePrims n pub cb fuel) (.bin "<" (.var "i") (.mcall (.var "t") "NumField" []))
        [.assign ["i"] (.bin "+" (.var "i") (.int 1))] feBody (envFE ex i) w =
    some (envFE ex (feStep n pub cb ex i w).1, (feStep n pub cb ex i w).2.1, (feStep n pub cb ex i w).2.2) := by
  by_cases hlt : i < n
  · have hI : decide ((i : Int) < (n : Int)) = true := by simpa using hlt
    cases ex with
    | false =>
      rcases hcb : cb i w with ⟨r, w'⟩
      cases r with
      | none => go_simp [forcIter, envFE, feStep, feBody, Progs.reflectx_ForEachFieldV2, fePrims, feFn, hlt, hI, hcb]
      | some e => go_simp [forcIter, envFE, feStep, feBody, Progs.reflectx_ForEachFieldV2, fePrims, feFn, hlt, hI, hcb]
    | true =>
      cases hp : pub i with
      | false => go_simp [forcIter, envFE, feStep, feBody, Progs.reflectx_ForEachFieldV2, fePrims, feFn, hlt, hI, hp]
      | true =>
        rcases hcb : cb i w with ⟨r, w'⟩
        cases r with
        | none => go_simp [forcIter, envFE, feStep, feBody, Progs.reflectx_ForEachFieldV2, fePrims, feFn, hlt, hI, hp, hcb]
        | some e => go_simp [forcIter, envFE, feStep, feBody, Progs.reflectx_ForEachFieldV2, fePrims, feFn, hlt, hI, hp, hcb]
  · have hI : decide ((i : Int) < (n : Int)) = false := by
      have : ¬ (i : Int) < (n : Int) := by omega
      simpa using this
    go_simp [forcIter, envFE, feStep, fePrims, feFn, hlt, hI]

def feFinish (r : Option (Nat × σ × Ctl)) : Option (Val × σ) :=
  match r with
  | some (_, w', .norm) => some (.nil, w')
  | some (_, w', .ret v) => some (v, w')
  | _ => none

/-- the rounds from index i on are the model loop over the remaining indices -/
theorem feStep_loop (ex : Bool) : ∀ (m i : Nat) (w : σ) (fuel : Nat), i + m = n → m + 1 ≤ fuel →
    feFinish (stepWhile (feStep n pub cb ex) fuel i w) =
      some (encOptErr (feLoop cb (fun j => ex && !pub j) (List.range' i m) w).1,
            (feLoop cb (fun j => ex && !pub j) (List.range' i m) w).2) := by
  intro m
  induction m with
  | zero =>
    intro i w fuel hi hf
    obtain ⟨f', rfl⟩ : ∃ f', fuel = f' + 1 := ⟨fuel - 1, by omega⟩
    have : ¬ i < n := by omega
    simp [stepWhile, feStep, this, feFinish, feLoop, encOptErr]
  | succ m ih =>
    intro i w fuel hi hf
    obtain ⟨f', rfl⟩ : ∃ f', fuel = f' + 1 := ⟨fuel - 1, by omega⟩
    have hlt : i < n := by omega
    simp only [stepWhile, feStep, hlt, if_true, List.range'_succ, feLoop]
    cases hsk : (ex && !pub i) with
    | true => simp only [if_true]; exact ih (i + 1) w f' (by omega) (by omega)
    | false =>
      simp only [Bool.false_eq_true, if_false]
      rcases hcb : cb i w with ⟨r, w'⟩
      cases r with
      | none => simp only []; exact ih (i + 1) w' f' (by omega) (by omega)
      | some e => simp [feFinish, encOptErr]

/-- reflectx.ForEachFieldV2, regenerated, on a struct type with n fields: every field index in order, private fields skipped
    when asked to, the first callback error ends the walk and is the result — for EVERY callback (which may change the world) -/
theorem forEachField_sem (fuel : Nat) (ex : Bool) (w : σ) (hf : n + 1 ≤ fuel) :
    run (fePrims n pub cb fuel) Progs.reflectx_ForEachFieldV2 [.str "T", .str "V", .bool ex, .ref 0 40] w =
      some (encOptErr (feLoop cb (fun j => ex && !pub j) (List.range' 0 n) w).1,
            (feLoop cb (fun j => ex && !pub j) (List.range' 0 n) w).2) := by
  rw [← feStep_loop n pub cb ex n 0 w fuel (by omega) hf]
  simp only [run, fe_params, fe_shape, List.length_cons, List.length_nil, if_true, List.zip_cons_cons, List.zip_nil_right]
  rw [evalB_append]
  have hpre : evalB (fePrims n pub cb fuel)
      [("t", Val.str "T"), ("v", Val.str "V"), ("excludePrivateField", Val.bool ex), ("f", Val.ref 0 40)] w fePre =
      some ([("t", Val.str "T"), ("v", Val.str "V"), ("excludePrivateField", Val.bool ex), ("f", Val.ref 0 40)], w, .norm) := by
    go_simp [fePre, Progs.reflectx_ForEachFieldV2, fePrims, feFn]
  rw [hpre]
  simp only []
  rw [evalB_cons]
  rw [evalS_forc_state (fePrims n pub cb fuel) _ w w _ _ _ _ (envFE ex) (feStep n pub cb ex) 0
    (by go_simp [envFE]) (fun t w' => fe_iter n pub cb fuel ex t w')]
  have hfuel : (fePrims n pub cb fuel).fuel = fuel := rfl
  rw [hfuel]
  rcases hr : stepWhile (feStep n pub cb ex) fuel 0 w with _ | ⟨t, w', c⟩
  · simp [feFinish]
  · cases c with
    | norm => go_simp [feFinish, envFE]
    | brk => simp [feFinish]
    | cont => simp [feFinish]
    | ret v => simp [feFinish]

/-- … through a POINTER to such a struct it is the same walk (the pointer is followed first), and on any other kind nothing
    is visited -/
theorem forEachField_ptr_sem (fuel : Nat) (ex : Bool) (w : σ) (hf : n + 1 ≤ fuel) :
    run (fePrims n pub cb fuel) Progs.reflectx_ForEachFieldV2 [.str "PT", .str "PV", .bool ex, .ref 0 40] w =
      run (fePrims n pub cb fuel) Progs.reflectx_ForEachFieldV2 [.str "T", .str "V", .bool ex, .ref 0 40] w := by
  simp only [run, fe_params, fe_shape, List.length_cons, List.length_nil, if_true, List.zip_cons_cons, List.zip_nil_right]
  rw [evalB_append, evalB_append]
  have h1 : evalB (fePrims n pub cb fuel)
      [("t", Val.str "PT"), ("v", Val.str "PV"), ("excludePrivateField", Val.bool ex), ("f", Val.ref 0 40)] w fePre =
      some ([("t", Val.str "T"), ("v", Val.str "V"), ("excludePrivateField", Val.bool ex), ("f", Val.ref 0 40)], w, .norm) := by
    go_simp [fePre, Progs.reflectx_ForEachFieldV2, fePrims, feFn]
  have h2 : evalB (fePrims n pub cb fuel)
      [("t", Val.str "T"), ("v", Val.str "V"), ("excludePrivateField", Val.bool ex), ("f", Val.ref 0 40)] w fePre =
      some ([("t", Val.str "T"), ("v", Val.str "V"), ("excludePrivateField", Val.bool ex), ("f", Val.ref 0 40)], w, .norm) := by
    go_simp [fePre, Progs.reflectx_ForEachFieldV2, fePrims, feFn]
  rw [h1, h2]

theorem forEachField_other_sem (fuel : Nat) (ex : Bool) (v : Val) (w : σ) :
    run (fePrims n pub cb fuel) Progs.reflectx_ForEachFieldV2 [.str "OT", v, .bool ex, .ref 0 40] w = some (.nil, w) := by
  go_simp [Progs.reflectx_ForEachFieldV2, fePrims, feFn]

end fe
/-! ### the walk the primitive `reflectx.ForEachFieldV2` does for scanFields IS the regenerated ForEachFieldV2 on the literal -/

theorem feLoopK_total {σ : Type} (k : Handler σ) (cb : Nat → σ → Option String × σ)
    (hk : ∀ i w, k [.ref i 60, .ref i 61] w = some (encOptErr (cb i w).1, (cb i w).2)) :
    ∀ (is : List Nat) (w : σ),
      feLoopK k is w = some (encOptErr (feLoop cb (fun _ => false) is w).1, (feLoop cb (fun _ => false) is w).2) := by
  intro is
  induction is with
  | nil => intro w; simp [feLoopK, feLoop, encOptErr]
  | cons i rest ih =>
    intro w
    simp only [feLoopK, feLoop, hk, Bool.false_eq_true, if_false]
    rcases hcb : cb i w with ⟨r, w'⟩
    cases r with
    | none => simp only [encOptErr]; exact ih w'
    | some e => simp [encOptErr]

theorem levelScan_eq_flatMap {α : Type} (fs : List LField) (own : Nat → α) (sub : Nat → List α) (k : Nat) (is : List Nat) :
    levelScan fs own sub k is = is.flatMap (fun i => fieldScan (lfieldAt fs i) (own i) (sub i)) := by
  induction is with
  | nil => rfl
  | cons i rest ih => simp [levelScan, ih]

theorem map_getD_range' {β : Type} (d : β) : ∀ (l : List β) (pre : List β),
    (List.range' pre.length l.length).map (fun i => (pre ++ l).getD i d) = l := by
  intro l
  induction l with
  | nil => intro pre; simp
  | cons x rest ih =>
    intro pre
    rw [List.length_cons, List.range'_succ, List.map_cons]
    have h1 : (pre ++ x :: rest).getD pre.length d = x := by simp [List.getD_eq_getElem?_getD]
    have h2 := ih (pre ++ [x])
    simp only [List.length_append, List.length_cons, List.length_nil, List.append_assoc, List.cons_append, List.nil_append] at h2
    rw [h1, h2]

end Ioc.Sem
