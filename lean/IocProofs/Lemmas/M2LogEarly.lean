/-
  The early-reference event: per component `early n` is logged at most once, and only between `conf n` and `before n`.
  `EarlyInv` is `LogInv` of M2Log for the projection that keeps the early events.
-/
import IocProofs.Lemmas.M2Log
namespace Ioc.M2.Lc
open Ioc.M2

/-- all events of `n` in a log (newest first) -/
def projE (n : Nat) (log : List Ev) : List Ev := log.filter (fun e => decide (evName e = n))

def cbOk (sc : Scen) (n : Nat) : List Ev :=
  if sc.wired n then [.after n, .init n, .aps n, .before n] else [.init n, .aps n]

def earlyIf (b : Bool) (n : Nat) : List Ev := if b then [.early n] else []

theorem projE_cons (n : Nat) (e : Ev) (l : List Ev) :
    projE n (e :: l) = if evName e = n then e :: projE n l else projE n l := by
  simp only [projE, List.filter_cons]
  by_cases h : evName e = n <;> simp [h]

theorem projE_append (n : Nat) (a b : List Ev) : projE n (a ++ b) = projE n a ++ projE n b := by
  simp [projE]

theorem projE_addLog (sc : Scen) (st : St) (m : Nat) (e : Ev) (n : Nat) :
    projE n (addLog sc st m e).log =
      if sc.logged m = true ∧ evName e = n then e :: projE n st.log else projE n st.log := by
  unfold addLog
  cases hl : sc.logged m with
  | false => simp
  | true => simp [projE_cons]

theorem projE_cbEvs_other (sc : Scen) (m n : Nat) (h : n ≠ m) : projE n (cbEvs sc m) = [] := by
  unfold projE
  rw [List.filter_eq_nil_iff]
  intro e he
  have := cbEvs_name sc m e he
  simp [this, Ne.symm h]

theorem projE_cbEvs_self (sc : Scen) (n : Nat) : projE n (cbEvs sc n) = cbEvs sc n := by
  unfold projE
  rw [List.filter_eq_self]
  intro e he
  simp [cbEvs_name sc n e he]

structure EarlyInv (sc : Scen) (st : St) : Prop where
  pub : ∀ n, sc.logged n = true → st.l1 n ≠ none → ∃ b, projE n st.log = cbOk sc n ++ earlyIf b n ++ partLog sc n
  onst : ¬ Failed st → ∀ n, sc.logged n = true → n ∈ snames st →
    projE n st.log = earlyIf (st.l2 n).isSome n ++ partLog sc n
  off : ¬ Failed st → ∀ n, sc.logged n = true → st.l1 n = none → n ∉ snames st → projE n st.log = []

theorem earlyInv_init (sc : Scen) : EarlyInv sc (init sc) := by
  constructor <;> simp [init, snames, projE]

theorem earlyInv_same {sc : Scen} {st st' : St} (h : EarlyInv sc st) (h1 : st'.l1 = st.l1) (h2 : st'.l2 = st.l2)
    (hs : snames st' = snames st)
    (hl : ∀ n, projE n st'.log = projE n st.log) (hf : ¬ Failed st' → ¬ Failed st) : EarlyInv sc st' := by
  constructor
  · intro n hn; rw [h1]; simp only [hl]; exact h.pub n hn
  · intro hF n hn; rw [hs, hl, h2]; exact h.onst (hf hF) n hn
  · intro hF n hn; rw [h1, hs, hl]; exact h.off (hf hF) n hn

theorem earlyInv_fail {sc : Scen} {st st' : St} (h : EarlyInv sc st) (hF : Failed st') (h1 : st'.l1 = st.l1)
    (hl : ∀ n, st.l1 n ≠ none → projE n st'.log = projE n st.log) : EarlyInv sc st' := by
  constructor
  · intro n hn hp; rw [h1] at hp; rw [hl n hp]; exact h.pub n hn hp
  · intro hnf; exact absurd hF hnf
  · intro hnf; exact absurd hF hnf

theorem earlyInv_src {sc : Scen} {st st0 : St} {c : Nat} (src : Src sc st st0 c) (h : EarlyInv sc st) :
    EarlyInv sc st0 := by
  obtain ⟨e1, e2, _, e4, _, e6, e7⟩ := src.same
  refine earlyInv_same h e1 e2 (by simp [snames, e4]) (fun n => by rw [e6]) ?_
  intro hF ⟨x, g, hx⟩; exact hF ⟨x, g, by rw [e7]; exact hx⟩

theorem earlyInv_enter (sc : Scen) (st0 s : St) (c : Nat) (hi : Inv sc st0) (h : EarlyInv sc st0)
    (hr : st0.status = .running)
    (h1 : st0.l1 c = none) (h2 : st0.l2 c = none) (h3 : st0.l3 c = false)
    (e1 : s.l1 = st0.l1) (e2 : s.l2 = st0.l2) (es : snames s = c :: snames st0)
    (el : ∀ n, projE n s.log = if n = c ∧ sc.logged c = true then partLog sc c ++ projE n st0.log else projE n st0.log) :
    EarlyInv sc s := by
  have hoff := hi.miss_off c h2 h3
  have nf := not_failed_of_running hr
  constructor
  · intro n hn hp
    rw [e1] at hp
    have hnc : n ≠ c := by intro hc; subst hc; exact hp h1
    rw [el]; simp only [hnc, false_and, if_false]
    exact h.pub n hn hp
  · intro _ n hn hm
    rw [es] at hm
    rw [el, e2]
    by_cases hnc : n = c
    · subst hnc
      simp only [true_and, hn, if_true]
      rw [h.off nf n hn h1 hoff, h2]; simp [earlyIf]
    · simp only [hnc, false_and, if_false]
      simp [hnc] at hm
      exact h.onst nf n hn hm
  · intro _ n hn hp hm
    rw [es] at hm
    simp at hm
    rw [el]; simp only [hm.1, false_and, if_false]
    rw [e1] at hp
    exact h.off nf n hn hp hm.2

theorem earlyInv_stepR (sc : Scen) (st st' : St) (hi : Inv sc st) (h : EarlyInv sc st) (hr : st.status = .running)
    (hstep : StepR sc st st') : EarlyInv sc st' := by
  have nf := not_failed_of_running hr
  cases hstep with
  | done hs hb ht => exact earlyInv_same h rfl rfl rfl (fun _ => rfl) (fun _ => nf)
  | hit st0 c src o ho =>
    obtain ⟨hi0, hr0⟩ := inv_src src hi hr
    exact earlyInv_same (earlyInv_src src h) rfl rfl (by simp) (fun _ => rfl) (fun _ => not_failed_of_running hr0)
  | promote st0 c src h1 h2 h3 hf =>
    obtain ⟨hi0, hr0⟩ := inv_src src hi hr
    have h0 := earlyInv_src src h
    have nf0 := not_failed_of_running hr0
    have hc : c ∈ snames st0 := by
      apply Classical.byContradiction; intro hc
      have := (hi0.off_clean c hc).2; rw [h3] at this; cases this
    have hlog : ∀ n, projE n (addLog sc st0 c (.early c)).log =
        if sc.logged c = true ∧ c = n then Ev.early c :: projE n st0.log else projE n st0.log := by
      intro n; rw [projE_addLog]; rfl
    constructor
    · intro n hn hp
      have hp0 : st0.l1 n ≠ none := by simpa using hp
      have hnc : c ≠ n := by intro hc'; subst hc'; exact hp0 h1
      change ∃ b, projE n (addLog sc st0 c (.early c)).log = _
      rw [hlog]; simp only [hnc, and_false, if_false]
      exact h0.pub n hn hp0
    · intro _ n hn hm
      have hm0 : n ∈ snames st0 := by simpa [snames] using hm
      change projE n (addLog sc st0 c (.early c)).log = _
      rw [hlog]
      by_cases hnc : c = n
      · subst hnc
        have := h0.onst nf0 c hn hm0
        rw [h2] at this
        simp [hn, this, earlyIf]
      · have hnc' : n ≠ c := fun h' => hnc h'.symm
        simp only [hnc, and_false, if_false]
        simpa [hnc'] using h0.onst nf0 n hn hm0
    · intro _ n hn hp hm
      have hm0 : n ∉ snames st0 := by simpa [snames] using hm
      have hnc : c ≠ n := by intro hc'; subst hc'; exact hm0 hc
      change projE n (addLog sc st0 c (.early c)).log = _
      rw [hlog]; simp only [hnc, and_false, if_false]
      exact h0.off nf0 n hn (by simpa using hp) hm0
  | earlyFail st0 c src h1 h2 h3 hf =>
    refine earlyInv_fail (earlyInv_src src h) (failed_failAt _ _) (by simp [failAt]) ?_
    intro n hp
    have hnc : c ≠ n := by intro hc; subst hc; exact hp h1
    change projE n (addLog sc st0 c (.early c)).log = _
    rw [projE_addLog]; simp [evName, hnc]
  | unknown st0 c src h1 h2 h3 hn =>
    exact earlyInv_fail (earlyInv_src src h) (failed_failAt _ _) rfl (fun n _ => rfl)
  | enterU st0 c src h1 h2 h3 hn hw =>
    obtain ⟨hi0, hr0⟩ := inv_src src hi hr
    refine earlyInv_enter sc st0 _ c hi0 (earlyInv_src src h) hr0 h1 h2 h3 rfl rfl rfl ?_
    intro n
    simp [partLog, hw, push]
  | enterFail st0 c src h1 h2 h3 hn hw hbad =>
    refine earlyInv_fail (earlyInv_src src h) (failed_failAt _ _) (by simp [failAt, push]) ?_
    intro n hp
    have hnc : c ≠ n := by intro hc; subst hc; exact hp h1
    change projE n (addLog sc (push st0 c) c (.new c)).log = _
    rw [projE_addLog]; simp [evName, hnc, push]
  | enterW st0 c src h1 h2 h3 hn hw hcfg hpts =>
    obtain ⟨hi0, hr0⟩ := inv_src src hi hr
    refine earlyInv_enter sc st0 _ c hi0 (earlyInv_src src h) hr0 h1 h2 h3 (by simp [push]) (by simp [push])
      (by simp) ?_
    intro n
    rw [projE_addLog, projE_addLog]
    by_cases hnc : n = c
    · subst hnc
      cases hl : sc.logged n <;> simp [evName, partLog, hw, push]
    · have : c ≠ n := fun h => hnc h.symm
      simp [evName, hnc, this, push]
  | advance f rest hs hp hd hwhy =>
    exact earlyInv_same h rfl rfl (by simp [snames, hs, advance]) (fun _ => rfl) (fun _ => nf)
  | injFail f rest hs hp hd hne hreq hwhy => exact earlyInv_fail h (failed_failAt _ _) rfl (fun n _ => rfl)
  | write f rest hs hp hd hne hm hc =>
    exact earlyInv_same h rfl rfl (by simp [snames, hs, advance]) (fun _ => rfl) (fun _ => nf)
  | cbFail f rest hs hp hcb =>
    refine earlyInv_fail h (failed_failAt _ _) (by simp [failAt]) ?_
    intro n hpn
    have hnf : n ≠ f.name := by
      intro hc; subst hc; exact hpn (hi.l1_off _ (by simp [snames, hs]))
    change projE n (initCallbacks sc st f.name).1.log = _
    rw [initCallbacks_log, projE_append, projE_cbEvs_other sc _ _ hnf]; rfl
  | stale f rest hs hp hcb e he hw hh =>
    refine earlyInv_fail h (failed_failAt _ _) (by simp [failAt]) ?_
    intro n hpn
    have hnf : n ≠ f.name := by
      intro hc; subst hc; exact hpn (hi.l1_off _ (by simp [snames, hs]))
    change projE n (initCallbacks sc st f.name).1.log = _
    rw [initCallbacks_log, projE_append, projE_cbEvs_other sc _ _ hnf]; rfl
  | publish f rest hs hp hcb pub hpub =>
    have hsn : snames st = f.name :: rest.map (·.name) := by simp [snames, hs]
    have hnd := hi.nodup
    rw [hsn] at hnd
    have hnd' := List.nodup_cons.mp hnd
    have hlog : ∀ n, projE n (publish (initCallbacks sc st f.name).1 f.name pub rest).log =
        projE n (cbEvs sc f.name) ++ projE n st.log := by
      intro n
      change projE n (initCallbacks sc st f.name).1.log = _
      rw [initCallbacks_log, projE_append]
    constructor
    · intro n hn hpn
      by_cases hnf : n = f.name
      · subst hnf
        refine ⟨(st.l2 f.name).isSome, ?_⟩
        rw [hlog, projE_cbEvs_self, cbEvs_ok sc st _ hcb hn, h.onst nf _ hn (by rw [hsn]; simp)]
        simp [cbOk, List.append_assoc]
      · have : st.l1 n ≠ none := by simpa [publish, hnf] using hpn
        obtain ⟨b, hb⟩ := h.pub n hn this
        exact ⟨b, by rw [hlog, projE_cbEvs_other sc _ _ hnf]; simpa using hb⟩
    · intro _ n hn hm
      simp only [snames_publish] at hm
      have hnf : n ≠ f.name := by intro hc; subst hc; exact hnd'.1 hm
      rw [hlog, projE_cbEvs_other sc _ _ hnf]
      simpa [publish, hnf] using h.onst nf n hn (by rw [hsn]; simp [hm])
    · intro _ n hn hpn hm
      simp only [snames_publish] at hm
      have hnf : n ≠ f.name := by intro hc; subst hc; simp [publish] at hpn
      rw [hlog, projE_cbEvs_other sc _ _ hnf]
      have h1 : st.l1 n = none := by simpa [publish, hnf] using hpn
      simpa using h.off nf n hn h1 (by rw [hsn]; simp [hm, hnf])

theorem earlyInv_run (sc : Scen) (k : Nat) : EarlyInv sc (run sc k (init sc)) :=
  (run_inv sc (fun s => Inv sc s ∧ EarlyInv sc s)
    (step_inv_of_rel sc _ (fun st st' hi hr h =>
      ⟨inv_stepR sc st st' hi.1 hr h, earlyInv_stepR sc st st' hi.1 hi.2 hr h⟩))
    k _ ⟨inv_init sc, earlyInv_init sc⟩).2

/-- all events of a published wired component, oldest first: the lifecycle with at most one `early`, between
    `conf` and `before` -/
theorem early_once (sc : Scen) (k : Nat) (n : Nat) (hp : (run sc k (init sc)).l1 n ≠ none)
    (hl : sc.logged n = true) (hw : sc.wired n = true) :
    (run sc k (init sc)).log.reverse.filter (fun e => decide (evName e = n)) =
        [.new n, .conf n, .before n, .aps n, .init n, .after n] ∨
    (run sc k (init sc)).log.reverse.filter (fun e => decide (evName e = n)) =
        [.new n, .conf n, .early n, .before n, .aps n, .init n, .after n] := by
  obtain ⟨b, hb⟩ := (earlyInv_run sc k).pub n hl hp
  rw [List.filter_reverse]
  change (projE n _).reverse = _ ∨ (projE n _).reverse = _
  rw [hb]
  cases b <;> simp [cbOk, partLog, earlyIf, hw]

end Ioc.M2.Lc
