/-
  Lemmas about the fork/join transition system of Ioc.Conc (used by C14 and C20):
  counting invariant of the WaitGroup, "past the Wait every worker is finished", mutual exclusion
  under the mutex, frame lemmas for constructing schedules, soundness of the executable scheduler.
-/
import Ioc.Conc

namespace Ioc.Conc
open WPc

/-- the configuration in which fork/join is complete: Add before the loop, a goroutine per item,
    Done deferred, Wait before main continues -/
def FanCfg.Joined (cfg : FanCfg) : Prop :=
  cfg.addFirst = true ∧ cfg.spawn = true ∧ cfg.doneDeferred = true ∧ cfg.wait = true

def preCall : WPc → Bool
  | .idle | .ready | .started => true
  | _ => false

def inCrit : WPc → Bool
  | .locked | .inAcc | .accDone => true
  | _ => false

/-! ### counting finished workers -/

def cntFin (w : Nat → WPc) : Nat → Nat
  | 0 => 0
  | k+1 => cntFin w k + (if w k = .finished then 1 else 0)

theorem cntFin_upd_ge (w : Nat → WPc) (i : Nat) (v : WPc) (k : Nat) (h : k ≤ i) : cntFin (upd w i v) k = cntFin w k := by
  induction k with
  | zero => rfl
  | succ k ih =>
    simp only [cntFin]
    have : k ≠ i := by omega
    rw [ih (by omega)]; simp [upd, this]

theorem cntFin_upd_nonfin (w : Nat → WPc) (i : Nat) (v : WPc) (k : Nat) (hv : v ≠ .finished) (hw : w i ≠ .finished) :
    cntFin (upd w i v) k = cntFin w k := by
  induction k with
  | zero => rfl
  | succ k ih =>
    simp only [cntFin, ih]
    by_cases hk : k = i
    · subst hk; simp [upd, hv, hw]
    · simp [upd, hk]

theorem cntFin_upd_fin (w : Nat → WPc) (i : Nat) (k : Nat) (hi : i < k) (hw : w i ≠ .finished) :
    cntFin (upd w i .finished) k = cntFin w k + 1 := by
  induction k with
  | zero => omega
  | succ k ih =>
    simp only [cntFin]
    by_cases hk : k = i
    · subst hk
      rw [cntFin_upd_ge w k .finished k (Nat.le_refl _)]
      simp [upd, hw]
    · rw [ih (by omega)]
      simp [upd, hk]; omega

theorem cntFin_le (w : Nat → WPc) (k : Nat) : cntFin w k ≤ k := by
  induction k with
  | zero => simp [cntFin]
  | succ k ih => simp only [cntFin]; split <;> omega

theorem cntFin_full (w : Nat → WPc) (k : Nat) (h : cntFin w k = k) : ∀ i < k, w i = .finished := by
  induction k with
  | zero => intro i hi; omega
  | succ k ih =>
    simp only [cntFin] at h
    have hle := cntFin_le w k
    by_cases hk : w k = .finished
    · simp [hk] at h
      intro i hi
      by_cases hik : i = k
      · subst hik; exact hk
      · exact ih h i (by omega)
    · simp [hk] at h; omega

theorem cntFin_all (w : Nat → WPc) (k : Nat) (h : ∀ i < k, w i = .finished) : cntFin w k = k := by
  induction k with
  | zero => rfl
  | succ k ih =>
    simp only [cntFin]
    rw [ih (fun i hi => h i (by omega)), h k (by omega)]; simp

theorem cntFin_idle (k : Nat) : cntFin (fun _ => WPc.idle) k = 0 := by
  induction k with
  | zero => rfl
  | succ k ih => simp [cntFin, ih]

/-! ### what a worker step can be -/

theorem WStep.facts {cfg : FanCfg} {fail : Bool} {i : Nat} {p q : WPc} {mu mu' : Option Nat}
    (h : WStep cfg fail i p mu q mu') :
    p ≠ .idle ∧ p ≠ .finished ∧ q ≠ .idle ∧ q ≠ .ready ∧ (q = .finished ↔ p = .post) ∧
    (q = .calling → preCall p = true ∧ p ≠ .idle) ∧ (q ≠ .calling → preCall q = preCall p) := by
  cases h <;> simp [preCall]

theorem wgDelta_joined {cfg : FanCfg} (hj : cfg.Joined) (q : WPc) :
    wgDelta cfg q = if q = .finished then -1 else 0 := by
  obtain ⟨h1, _, h3, _⟩ := hj
  cases q <;> simp [wgDelta, h1, h3]

/-! ### the fork/join invariant -/

structure FInv (n : Nat) (s : St) : Prop where
  pc_le : s.mainPc ≤ 3
  sp_le : s.spawned ≤ n
  sp0 : s.mainPc = 0 → s.spawned = 0
  spn : 2 ≤ s.mainPc → s.spawned = n
  wg_eq : s.wg = (if s.mainPc = 0 then 0 else (n : Int)) - (cntFin s.wpc n : Int)
  unsp : ∀ i, s.spawned ≤ i → s.wpc i = .idle
  spw : ∀ i, i < s.spawned → s.wpc i ≠ .idle
  calls_eq : ∀ i, s.calls i = if preCall (s.wpc i) then 0 else 1

theorem finv_init (n : Nat) : FInv n init := by
  constructor <;> simp [init, cntFin_idle, preCall]

theorem finv_step {cfg : FanCfg} (hj : cfg.Joined) {n : Nat} {fails : Nat → Bool} {s s' : St}
    (hi : FInv n s) (hs : Step cfg n fails s s') : FInv n s' := by
  cases hs with
  | add h =>
    constructor
    · simp
    · exact hi.sp_le
    · intro h'; simp at h'
    · intro h'; simp at h'
    · have := hi.wg_eq; simp [h, hj.1] at this ⊢; omega
    · exact hi.unsp
    · exact hi.spw
    · exact hi.calls_eq
  | spawn h hk hseq =>
    have hidle := hi.unsp s.spawned (Nat.le_refl _)
    constructor
    · exact hi.pc_le
    · simp; omega
    · intro h'; simp [h] at h'
    · intro h'; simp [h] at h'
    · have := hi.wg_eq
      simp only at this ⊢
      rw [cntFin_upd_nonfin _ _ _ _ (by decide) (by rw [hidle]; decide)]
      exact this
    · intro i hle
      simp only at hle ⊢
      have : i ≠ s.spawned := by omega
      simp only [upd, this, if_false]
      exact hi.unsp i (by omega)
    · intro i hlt
      simp only at hlt ⊢
      by_cases hc : i = s.spawned
      · subst hc; simp [upd]
      · simp only [upd, hc, if_false]; exact hi.spw i (by omega)
    · intro i
      simp only
      by_cases hc : i = s.spawned
      · subst hc; have := hi.calls_eq s.spawned; rw [hidle] at this; simp [upd, preCall, this]
      · simp only [upd, hc, if_false]; exact hi.calls_eq i
  | spawned h hk =>
    constructor
    · simp
    · exact hi.sp_le
    · intro h'; simp at h'
    · intro _; exact hk
    · have := hi.wg_eq; simp [h] at this ⊢; exact this
    · exact hi.unsp
    · exact hi.spw
    · exact hi.calls_eq
  | wait h hw =>
    constructor
    · simp
    · exact hi.sp_le
    · intro h'; simp at h'
    · intro _; exact hi.spn (by omega)
    · have := hi.wg_eq; simp [h] at this ⊢; exact this
    · exact hi.unsp
    · exact hi.spw
    · exact hi.calls_eq
  | worker i q mu' h =>
    obtain ⟨hp0, hpf, hq0, _, hqf, hqc, hqn⟩ := h.facts
    have hsp : i < s.spawned := by
      by_cases hc : i < s.spawned
      · exact hc
      · exact absurd (hi.unsp i (by omega)) hp0
    have hin : i < n := Nat.lt_of_lt_of_le hsp hi.sp_le
    constructor
    · exact hi.pc_le
    · exact hi.sp_le
    · exact hi.sp0
    · exact hi.spn
    · have := hi.wg_eq
      simp only at this ⊢
      rw [wgDelta_joined hj]
      by_cases hf : q = .finished
      · subst hf
        rw [cntFin_upd_fin _ _ _ hin hpf]
        simp; omega
      · rw [cntFin_upd_nonfin _ _ _ _ hf hpf]
        simp [hf]; exact this
    · intro j hle
      simp only at hle ⊢
      have : j ≠ i := by omega
      simp only [upd, this, if_false]
      exact hi.unsp j hle
    · intro j hlt
      simp only at hlt ⊢
      by_cases hc : j = i
      · subst hc; simp [upd, hq0]
      · simp only [upd, hc, if_false]; exact hi.spw j hlt
    · intro j
      simp only
      by_cases hc : j = i
      · subst hc
        have hce := hi.calls_eq j
        by_cases hcal : q = .calling
        · obtain ⟨hpre, _⟩ := hqc hcal
          subst hcal
          simp only [upd, if_true]
          rw [hce, hpre]; simp [preCall]
        · have := hqn hcal
          simp [upd, hcal, this, hce]
      · simp only [upd, hc, if_false]; exact hi.calls_eq j

/-- once main is past the Wait every worker is finished; no later step can change that -/
def Ret (n : Nat) (s : St) : Prop := s.mainPc = 3 → cntFin s.wpc n = n

theorem ret_step {cfg : FanCfg} (hj : cfg.Joined) {n : Nat} {fails : Nat → Bool} {s s' : St}
    (hi : FInv n s) (hr : Ret n s) (hs : Step cfg n fails s s') : Ret n s' := by
  have stuck : s.mainPc = 3 → ∀ i, s.wpc i = .idle ∨ s.wpc i = .finished := by
    intro h3 i
    by_cases hc : i < s.spawned
    · right
      have hn := hi.spn (by omega)
      exact cntFin_full s.wpc n (hr h3) i (by omega)
    · left; exact hi.unsp i (by omega)
  cases hs with
  | add h => intro h'; simp at h'
  | spawn h hk hseq => intro h'; simp only at h'; omega
  | spawned h hk => intro h'; simp at h'
  | wait h hw =>
    intro _
    have := hi.wg_eq
    simp [h, hw hj.2.2.2] at this
    simp only
    omega
  | worker i q mu' h =>
    intro h3; simp only at h3
    obtain ⟨hp0, hpf, _⟩ := h.facts
    rcases stuck h3 i with h' | h'
    · exact absurd h' hp0
    · exact absurd h' hpf

theorem finv_steps {cfg : FanCfg} (hj : cfg.Joined) {n : Nat} {fails : Nat → Bool} {s s' : St}
    (h : Steps cfg n fails s s') (hi : FInv n s ∧ Ret n s) : FInv n s' ∧ Ret n s' := by
  induction h with
  | refl => exact hi
  | tail t u _ hs ih => exact ⟨finv_step hj ih.1 hs, ret_step hj ih.1 ih.2 hs⟩

theorem finv_reach {cfg : FanCfg} (hj : cfg.Joined) {n : Nat} {fails : Nat → Bool} {s : St}
    (h : Reach cfg n fails s) : FInv n s ∧ Ret n s :=
  finv_steps hj h ⟨finv_init n, by intro h; simp [init] at h⟩

/-- fork/join, for every n, every failing subset and every schedule: once main is past the Wait, every worker's
    call was begun exactly once, every worker is finished, the counter is back to 0 -/
theorem joined_all_once {cfg : FanCfg} (hj : cfg.Joined) (n : Nat) (fails : Nat → Bool) (s : St)
    (h : Reach cfg n fails s) (hret : s.mainPc = 3) :
    (∀ i, i < n → s.calls i = 1 ∧ s.wpc i = .finished) ∧ s.wg = 0 := by
  obtain ⟨hi, hr⟩ := finv_reach hj h
  refine ⟨?_, ?_⟩
  · intro i hin
    have hfin := cntFin_full s.wpc n (hr hret) i hin
    refine ⟨?_, hfin⟩
    have := hi.calls_eq i
    rw [hfin] at this; simpa [preCall] using this
  · have := hi.wg_eq
    rw [hr hret] at this
    simp [hret] at this
    exact this

/-- nobody is ever called twice, at any point of any schedule -/
theorem joined_at_most_once {cfg : FanCfg} (hj : cfg.Joined) (n : Nat) (fails : Nat → Bool) (s : St)
    (h : Reach cfg n fails s) (i : Nat) : s.calls i ≤ 1 := by
  have := (finv_reach hj h).1.calls_eq i
  rw [this]; split <;> omega

/-! ### mutual exclusion under the mutex -/

def MInv (s : St) : Prop := ∀ i, inCrit (s.wpc i) = true → s.mu = some i

theorem minv_step {cfg : FanCfg} (hg : cfg.guarded = true) {n : Nat} {fails : Nat → Bool} {s s' : St}
    (hi : MInv s) (hs : Step cfg n fails s s') : MInv s' := by
  cases hs with
  | add h => exact hi
  | spawn h hk hseq =>
    intro i hc
    simp only at hc ⊢
    by_cases hh : i = s.spawned
    · subst hh; simp [upd, inCrit] at hc
    · simp only [upd, hh, if_false] at hc; exact hi i hc
  | spawned h hk => exact hi
  | wait h hw => exact hi
  | worker i q mu' h =>
    intro j hc
    simp only at hc ⊢
    by_cases hh : j = i
    · subst hh
      simp only [upd, if_true] at hc
      have hij := hi j
      generalize hp : s.wpc j = p at h hij
      generalize hm : s.mu = m at h hij
      cases h <;> simp_all [inCrit]
    · simp only [upd, hh, if_false] at hc
      have hj := hi j hc
      have hii := hi i
      generalize hp : s.wpc i = p at h hii
      generalize hm : s.mu = m at h hii hj
      cases h <;> simp_all [inCrit]

theorem minv_reach {cfg : FanCfg} (hg : cfg.guarded = true) {n : Nat} {fails : Nat → Bool} {s : St}
    (h : Reach cfg n fails s) : MInv s := by
  induction h with
  | refl => intro i hc; simp [init, inCrit] at hc
  | tail t u _ hs ih => exact minv_step hg ih hs

/-! ### without a shared variable no worker is ever inside an access -/

theorem nocrit_step {cfg : FanCfg} (hc : cfg.crit = false) {n : Nat} {fails : Nat → Bool} {s s' : St}
    (hi : ∀ i, inCrit (s.wpc i) = false) (hs : Step cfg n fails s s') : ∀ i, inCrit (s'.wpc i) = false := by
  cases hs with
  | add h => exact hi
  | spawn h hk hseq =>
    intro i
    simp only [upd]
    split
    · rfl
    · exact hi i
  | spawned h hk => exact hi
  | wait h hw => exact hi
  | worker i q mu' h =>
    intro j
    simp only [upd]
    split
    · have hii := hi i
      generalize hp : s.wpc i = p at h hii
      generalize hm : s.mu = m at h
      cases h <;> simp_all [inCrit]
    · exact hi j

theorem nocrit_reach {cfg : FanCfg} (hc : cfg.crit = false) {n : Nat} {fails : Nat → Bool} {s : St}
    (h : Reach cfg n fails s) : ∀ i, inCrit (s.wpc i) = false := by
  induction h with
  | refl => intro i; rfl
  | tail t u _ hs ih => exact nocrit_step hc ih hs

end Ioc.Conc
