/-
  decode does not see the difference between a value and its JSON round trip, for values whose integers fit
  53 bits (and are non-negative where an unsigned field is involved).  (C17)
-/
import IocProofs.Lemmas.ValueFaithful
namespace Ioc.Value

mutual
/-- every integer fits the float64 significand -/
def faithfulV : Val → Bool
  | .int i => decide (i.natAbs ≤ 2 ^ 53)
  | .list l => faithfulL l
  | .map m => faithfulM m
  | _ => true
def faithfulL : List Val → Bool
  | [] => true
  | v :: r => faithfulV v && faithfulL r
def faithfulM : List (Bytes × Val) → Bool
  | [] => true
  | (_, v) :: r => faithfulV v && faithfulM r
end

mutual
def nonNegV : Val → Bool
  | .int i => decide (0 ≤ i)
  | .list l => nonNegL l
  | .map m => nonNegM m
  | _ => true
def nonNegL : List Val → Bool
  | [] => true
  | v :: r => nonNegV v && nonNegL r
def nonNegM : List (Bytes × Val) → Bool
  | [] => true
  | (_, v) :: r => nonNegV v && nonNegM r
end

mutual
def usesUint : FieldTy → Bool
  | .uint => true
  | .ptr t => usesUint t
  | .slice t => usesUint t
  | .map t => usesUint t
  | .struct fs => usesUintF fs
  | _ => false
def usesUintF : List (Bytes × FieldTy) → Bool
  | [] => false
  | (_, t) :: r => usesUint t || usesUintF r
end

/-- the hypothesis of the core lemma -/
def okFor (ty : FieldTy) (v : Val) : Prop := faithfulV v = true ∧ (usesUint ty = true → nonNegV v = true)

theorem roundF64I_small (i : Int) (h : i.natAbs ≤ 2 ^ 53) : roundF64I i = i := by
  unfold roundF64I
  rw [roundF64_small _ h]
  split <;> omega

theorem fmtFlt_small (i : Int) (h : i.natAbs ≤ 2 ^ 53) : fmtFlt i = intToDec i := by
  unfold fmtFlt intToDec fmtFltNat
  simp [h]

theorem toF64_eq_null (v : Val) : toF64 v = .null ↔ v = .null := by
  cases v <;> simp [toF64]

mutual
theorem ofVal_toF64 : ∀ v : Val, faithfulV v = true → ofVal (toF64 v) = ofVal v
  | .null, _ => rfl
  | .str _, _ => rfl
  | .int i, h => by
    simp only [faithfulV, decide_eq_true_eq] at h
    simp [toF64, ofVal, roundF64I_small i h]
  | .flt _, _ => rfl
  | .dec _, _ => rfl
  | .bool _, _ => rfl
  | .list l, h => by
    simp only [faithfulV] at h
    simp [toF64, ofVal, ofValL_toF64 l h]
  | .map m, h => by
    simp only [faithfulV] at h
    simp [toF64, ofVal, ofValM_toF64 m h]
theorem ofValL_toF64 : ∀ l : List Val, faithfulL l = true → ofValL (toF64L l) = ofValL l
  | [], _ => rfl
  | v :: r, h => by
    simp only [faithfulL, Bool.and_eq_true] at h
    simp [toF64L, ofValL, ofVal_toF64 v h.1, ofValL_toF64 r h.2]
theorem ofValM_toF64 : ∀ m : List (Bytes × Val), faithfulM m = true → ofValM (toF64M m) = ofValM m
  | [], _ => rfl
  | (k, v) :: r, h => by
    simp only [faithfulM, Bool.and_eq_true] at h
    simp [toF64M, ofValM, ofVal_toF64 v h.1, ofValM_toF64 r h.2]
end

theorem decString_toF64 (v : Val) (h : faithfulV v = true) : decString (toF64 v) = decString v := by
  cases v <;> try rfl
  · rename_i i
    simp only [faithfulV, decide_eq_true_eq] at h
    simp [toF64, decString, roundF64I_small i h, fmtFlt_small i h]

theorem decInt_toF64 (v : Val) (h : faithfulV v = true) : decInt (toF64 v) = decInt v := by
  cases v <;> try rfl
  · rename_i i
    simp only [faithfulV, decide_eq_true_eq] at h
    have h1 : -(2 ^ 63 : Int) ≤ i ∧ i < 2 ^ 63 := by
      have : (2:Nat) ^ 53 < 2 ^ 63 := by decide
      constructor <;> omega
    simp only [toF64, decInt, roundF64I_small i h]
    rw [if_pos h1]

theorem decUint_toF64 (v : Val) (h : faithfulV v = true) (hn : nonNegV v = true) : decUint (toF64 v) = decUint v := by
  cases v <;> try rfl
  · rename_i i
    simp only [faithfulV, decide_eq_true_eq] at h
    simp only [nonNegV, decide_eq_true_eq] at hn
    have h1 : 0 ≤ i ∧ i < 2 ^ 64 := by
      have : (2:Nat) ^ 53 < 2 ^ 64 := by decide
      constructor <;> omega
    have h2 : ¬ i < 0 := by omega
    simp only [toF64, decUint, roundF64I_small i h]
    rw [if_pos h1, if_neg h2]

theorem decFloat_toF64 (v : Val) (h : faithfulV v = true) : decFloat (toF64 v) = decFloat v := by
  cases v with
  | int i =>
    simp only [faithfulV, decide_eq_true_eq] at h
    simp [toF64, decFloat, roundF64I_small i h]
  | _ => rfl

theorem decBool_toF64 (v : Val) (h : faithfulV v = true) : decBool (toF64 v) = decBool v := by
  cases v <;> try rfl
  · rename_i i
    simp only [faithfulV, decide_eq_true_eq] at h
    simp [toF64, decBool, roundF64I_small i h]

theorem mapMExcept_congr {α β : Type} (f g : α → Except Err β) (l : List α) (h : ∀ a ∈ l, f a = g a) :
    mapMExcept f l = mapMExcept g l := by
  induction l with
  | nil => rfl
  | cons a r ih =>
    simp only [mapMExcept, h a (by simp), ih (fun b hb => h b (by simp [hb]))]

theorem mapMExcept_toF64L {β : Type} (g : Val → Except Err β) :
    ∀ l : List Val, (∀ x ∈ l, g (toF64 x) = g x) → mapMExcept g (toF64L l) = mapMExcept g l
  | [], _ => rfl
  | v :: r, h => by
    simp only [toF64L, mapMExcept, h v (by simp), mapMExcept_toF64L g r (fun x hx => h x (by simp [hx]))]

theorem mapMExcept_toF64M {β : Type} (g : Bytes × Val → Except Err β) :
    ∀ m : List (Bytes × Val), (∀ kv ∈ m, g (kv.1, toF64 kv.2) = g kv) → mapMExcept g (toF64M m) = mapMExcept g m
  | [], _ => rfl
  | (k, v) :: r, h => by
    simp only [toF64M, mapMExcept, h (k, v) (by simp), mapMExcept_toF64M g r (fun x hx => h x (by simp [hx]))]

theorem faithfulL_mem : ∀ (l : List Val) (x : Val), faithfulL l = true → x ∈ l → faithfulV x = true
  | [], _, _, hx => by simp at hx
  | v :: r, x, h, hx => by
    simp only [faithfulL, Bool.and_eq_true] at h
    simp only [List.mem_cons] at hx
    rcases hx with hx | hx
    · subst hx; exact h.1
    · exact faithfulL_mem r x h.2 hx

theorem nonNegL_mem : ∀ (l : List Val) (x : Val), nonNegL l = true → x ∈ l → nonNegV x = true
  | [], _, _, hx => by simp at hx
  | v :: r, x, h, hx => by
    simp only [nonNegL, Bool.and_eq_true] at h
    simp only [List.mem_cons] at hx
    rcases hx with hx | hx
    · subst hx; exact h.1
    · exact nonNegL_mem r x h.2 hx

theorem faithfulM_mem : ∀ (m : List (Bytes × Val)) (kv : Bytes × Val), faithfulM m = true → kv ∈ m → faithfulV kv.2 = true
  | [], _, _, hx => by simp at hx
  | (k, v) :: r, x, h, hx => by
    simp only [faithfulM, Bool.and_eq_true] at h
    simp only [List.mem_cons] at hx
    rcases hx with hx | hx
    · subst hx; exact h.1
    · exact faithfulM_mem r x h.2 hx

theorem nonNegM_mem : ∀ (m : List (Bytes × Val)) (kv : Bytes × Val), nonNegM m = true → kv ∈ m → nonNegV kv.2 = true
  | [], _, _, hx => by simp at hx
  | (k, v) :: r, x, h, hx => by
    simp only [nonNegM, Bool.and_eq_true] at h
    simp only [List.mem_cons] at hx
    rcases hx with hx | hx
    · subst hx; exact h.1
    · exact nonNegM_mem r x h.2 hx

theorem alookup_toF64M (n : Bytes) : ∀ m : List (Bytes × Val), alookup n (toF64M m) = (alookup n m).map toF64
  | [] => rfl
  | (k, v) :: r => by
    simp only [toF64M, alookup]
    split
    · rfl
    · exact alookup_toF64M n r

theorem find?_toF64M (p : Bytes → Bool) : ∀ m : List (Bytes × Val),
    (toF64M m).find? (fun kv => p kv.1) = (m.find? (fun kv => p kv.1)).map (fun kv => (kv.1, toF64 kv.2))
  | [] => rfl
  | (k, v) :: r => by
    simp only [toF64M, List.find?_cons]
    split
    · rfl
    · exact find?_toF64M p r

theorem lookupField_toF64M (n : Bytes) (m : List (Bytes × Val)) :
    lookupField n (toF64M m) = (lookupField n m).map toF64 := by
  unfold lookupField
  rw [alookup_toF64M]
  cases h : alookup n m with
  | some v => rfl
  | none =>
    simp only [Option.map_none]
    rw [find?_toF64M (fun k => lowerEq k n)]
    cases m.find? (fun kv => lowerEq kv.1 n) <;> rfl

theorem alookup_mem (n : Bytes) : ∀ (m : List (Bytes × Val)) (v : Val), alookup n m = some v → ∃ k, (k, v) ∈ m
  | [], _, h => by simp [alookup] at h
  | (k, w) :: r, v, h => by
    simp only [alookup] at h
    split at h
    · simp at h; subst h; exact ⟨k, by simp⟩
    · obtain ⟨k', hk'⟩ := alookup_mem n r v h
      exact ⟨k', by simp [hk']⟩

theorem lookupField_mem (n : Bytes) (m : List (Bytes × Val)) (v : Val) (h : lookupField n m = some v) :
    ∃ k, (k, v) ∈ m := by
  unfold lookupField at h
  cases ha : alookup n m with
  | some w =>
    simp [ha] at h; subst h
    exact alookup_mem n m w ha
  | none =>
    simp only [ha] at h
    cases hf : m.find? (fun kv => lowerEq kv.1 n) with
    | none => simp [hf] at h
    | some kv =>
      simp [hf] at h
      subst h
      exact ⟨kv.1, List.mem_of_find?_eq_some hf⟩

mutual
/-- decoding the JSON round trip of a value gives what decoding the value gives -/
theorem decode_toF64 : ∀ (ty : FieldTy) (v : Val), faithfulV v = true → (usesUint ty = true → nonNegV v = true) →
    decode ty (toF64 v) = decode ty v
  | .string, v, h, _ => by simp only [decode]; exact decString_toF64 v h
  | .int, v, h, _ => by simp only [decode]; exact decInt_toF64 v h
  | .uint, v, h, hn => by simp only [decode]; exact decUint_toF64 v h (hn rfl)
  | .float, v, h, _ => by simp only [decode]; exact decFloat_toF64 v h
  | .bool, v, h, _ => by simp only [decode]; exact decBool_toF64 v h
  | .any, v, h, _ => by simp only [decode, ofVal_toF64 v h]
  | .ptr t, v, h, hn => by
    simp only [decode, decode_toF64 t v h (by intro hu; exact hn (by simpa [usesUint] using hu))]
  | .slice t, v, h, hn => by
    have hn' : usesUint t = true → nonNegV v = true := by intro hu; exact hn (by simpa [usesUint] using hu)
    cases v with
    | list l =>
      simp only [faithfulV] at h
      simp only [toF64, decode]
      rw [mapMExcept_toF64L]
      intro x hx
      have hfx := faithfulL_mem l x h hx
      have hnx : usesUint t = true → nonNegV x = true := by
        intro hu; have := hn' hu; simp only [nonNegV] at this; exact nonNegL_mem l x this hx
      by_cases hz : x = .null
      · subst hz; rfl
      · have hz' : toF64 x ≠ .null := by rw [Ne, toF64_eq_null]; exact hz
        simp only [hz, hz', if_false, decode_toF64 t x hfx hnx]
    | map m =>
      cases m with
      | nil => rfl
      | cons kv r =>
        obtain ⟨k, w⟩ := kv
        have := decode_toF64 t (.map ((k, w) :: r)) h hn'
        simp only [toF64, toF64M] at this ⊢
        simp only [decode, this]
    | null => rfl
    | str s => rfl
    | int i =>
      have := decode_toF64 t (.int i) h hn'
      simp only [toF64] at this ⊢
      simp only [decode, this]
    | flt i => rfl
    | dec t' => rfl
    | bool b => rfl
  | .map t, v, h, hn => by
    have hn' : usesUint t = true → nonNegV v = true := by intro hu; exact hn (by simpa [usesUint] using hu)
    cases v with
    | map m =>
      simp only [faithfulV] at h
      simp only [toF64, decode]
      rw [mapMExcept_toF64M]
      intro kv hkv
      have hfx := faithfulM_mem m kv h hkv
      have hnx : usesUint t = true → nonNegV kv.2 = true := by
        intro hu; have := hn' hu; simp only [nonNegV] at this; exact nonNegM_mem m kv this hkv
      by_cases hz : kv.2 = .null
      · simp [hz, toF64]
      · have hz' : toF64 kv.2 ≠ .null := by rw [Ne, toF64_eq_null]; exact hz
        simp only [hz, hz', if_false, decode_toF64 t kv.2 hfx hnx]
    | list l =>
      cases l with
      | nil => rfl
      | cons x r => rfl
    | null => rfl
    | str s => rfl
    | int i => rfl
    | flt i => rfl
    | dec t' => rfl
    | bool b => rfl
  | .struct fs, v, h, hn => by
    cases v with
    | map m =>
      simp only [faithfulV] at h
      simp only [toF64, decode]
      rw [decodeFields_toF64 fs m h (by intro hu; have := hn (by simpa [usesUint] using hu); simpa [nonNegV] using this)]
    | list l => rfl
    | null => rfl
    | str s => rfl
    | int i => rfl
    | flt i => rfl
    | dec t' => rfl
    | bool b => rfl
theorem decodeFields_toF64 : ∀ (fs : List (Bytes × FieldTy)) (m : List (Bytes × Val)), faithfulM m = true →
    (usesUintF fs = true → nonNegM m = true) → decodeFields fs (toF64M m) = decodeFields fs m
  | [], _, _, _ => rfl
  | (n, t) :: rest, m, h, hn => by
    have hrest := decodeFields_toF64 rest m h (by intro hu; exact hn (by simp [usesUintF, hu]))
    simp only [decodeFields, lookupField_toF64M, hrest]
    cases hl : lookupField n m with
    | none => rfl
    | some v =>
      obtain ⟨k, hk⟩ := lookupField_mem n m v hl
      have hfv := faithfulM_mem m (k, v) h hk
      have hnv : usesUint t = true → nonNegV v = true := by
        intro hu; exact nonNegM_mem m (k, v) (hn (by simp [usesUintF, hu])) hk
      simp only [Option.map_some]
      by_cases hz : v = .null
      · subst hz; rfl
      · have hz' : toF64 v ≠ .null := by rw [Ne, toF64_eq_null]; exact hz
        simp only [hz, hz', if_false, decode_toF64 t v hfv hnv]
end

end Ioc.Value
