/-
  Lemmas for C14, eighth round: which registered closers are in the registry of the App that `ioc.Run` returns (the option
  list `append(ops, registerHandlers...)`, `Ioc.Conc.applyOpts`), and which registered components get a definition in the
  tag scan (`Ioc.Conc.scanDefined`).
-/
import Ioc.Conc

namespace Ioc.Conc

/-- options that only register components add their components to whatever registry is there -/
theorem foldl_applyOpt_components (hs : List ROpt) :
    ∀ reg : List Nat, (∀ o, o ∈ hs → o.isComponents = true) → hs.foldl applyOpt reg = reg ++ hs.flatMap ROpt.ids := by
  induction hs with
  | nil => intro reg _; simp
  | cons o hs ih =>
    intro reg h
    have ho := h o List.mem_cons_self
    cases o with
    | setRegistry => cases ho
    | setComponents ids =>
      simp only [List.foldl_cons, applyOpt, List.flatMap_cons, ROpt.ids]
      rw [ih (reg ++ ids) (fun o' ho' => h o' (List.mem_cons_of_mem _ ho')), List.append_assoc]

/-- options that only install fresh registries leave an empty registry -/
theorem foldl_applyOpt_registries (pre : List ROpt) :
    ∀ reg : List Nat, (∀ o, o ∈ pre → o = .setRegistry) → pre ≠ [] → pre.foldl applyOpt reg = [] := by
  induction pre with
  | nil => intro _ _ h; exact absurd rfl h
  | cons o pre ih =>
    intro reg h _
    have ho := h o List.mem_cons_self
    subst ho
    simp only [List.foldl_cons, applyOpt]
    cases pre with
    | nil => rfl
    | cons o' pre' => exact ih [] (fun x hx => h x (List.mem_cons_of_mem _ hx)) (by simp)

theorem applyOpts_registries (pre : List ROpt) (h : ∀ o, o ∈ pre → o = .setRegistry) : applyOpts pre = [] := by
  cases pre with
  | nil => rfl
  | cons o pre => exact foldl_applyOpt_registries (o :: pre) [] h (by simp)

theorem applyOpts_append (a b : List ROpt) : applyOpts (a ++ b) = b.foldl applyOpt (applyOpts a) := by
  unfold applyOpts; rw [List.foldl_append]

/-- every handler `ioc.Register` stores is a SetComponents option -/
theorem iocRegister_components (hs : List ROpt) (ids : List Nat) (h : ∀ o, o ∈ hs → o.isComponents = true) :
    ∀ o, o ∈ iocRegister hs ids → o.isComponents = true := by
  intro o ho
  unfold iocRegister at ho
  rcases List.mem_append.mp ho with h1 | h1
  · exact h o h1
  · rw [List.mem_singleton.mp h1]; rfl

/-- whatever the options of the call are: everything handed to ioc.Register is added to the registry the call's options leave -/
theorem iocRunRegistry_eq (ops handlers : List ROpt) (hh : ∀ o, o ∈ handlers → o.isComponents = true) :
    iocRunRegistry ops handlers = applyOpts ops ++ handlers.flatMap ROpt.ids := by
  unfold iocRunRegistry iocRunOptions
  rw [applyOpts_append, foldl_applyOpt_components handlers _ hh]

/-- a SetRegistry option forgets everything applied before it -/
theorem applyOpts_forgets (before after : List ROpt) :
    applyOpts (before ++ .setRegistry :: after) = applyOpts after := by
  rw [applyOpts_append]
  rfl

theorem scanDefined_all {α : Type} (comps : List (α × CKind)) : scanDefined codeScanGuard comps = comps.map (·.1) := by
  unfold scanDefined
  have h : comps.filter (fun c => codeScanGuard c.2) = comps := List.filter_eq_self.mpr (fun _ _ => rfl)
  rw [h]

theorem scanDefined_drops {α : Type} (guard : CKind → Bool) (comps : List (α × CKind)) (c : α × CKind) (hc : c ∈ comps)
    (hk : guard c.2 = false) : (scanDefined guard comps).length < comps.length := by
  unfold scanDefined
  rw [List.length_map]
  induction comps with
  | nil => cases hc
  | cons x xs ih =>
    rcases List.mem_cons.mp hc with rfl | h
    · have := List.length_filter_le (fun c : α × CKind => guard c.2) xs
      rw [List.filter_cons, hk]
      simp only [Bool.false_eq_true, if_false, List.length_cons]
      omega
    · have := ih h
      simp only [List.filter_cons, List.length_cons]
      split
      · simp only [List.length_cons]; omega
      · omega

end Ioc.Conc
