/-
  Lemmas linking the model's scanner (Ioc.Scan.scanShape) with the per-level function of the REGENERATED Meta.scanFields
  (Ioc.Sem.levelScan / fieldScan).
-/
import Ioc.Scan
import IocProofs.Lemmas.SemScanFields
namespace Ioc.C11
open Ioc Ioc.Scan Ioc.Sem

/-- what reflection answers about a declared field of the model -/
def lfOf : FieldT → LField
  | .leaf i => ⟨false, i.untagged, false, i.exported⟩
  | .struct i anon byv _ => ⟨anon, i.untagged, byv, i.exported⟩

def infoOf : FieldT → FInfo
  | .leaf i => i
  | .struct i _ _ _ => i

/-- what the recursive call contributes for a field (nothing for a leaf) -/
def subOf (path : List Bytes) : FieldT → List ScannedField
  | .leaf _ => []
  | .struct i _ _ fs => scanShape (path ++ [i.name]) fs

def Shape.toList : Shape → List FieldT
  | .nil => []
  | .cons f rest => f :: Shape.toList rest

theorem scanField_is_fieldScan (path : List Bytes) (f : FieldT) :
    scanField path f = fieldScan (lfOf f) ⟨path, infoOf f⟩ (subOf path f) := by
  cases f with
  | leaf i =>
    simp only [scanField, fieldScan, lfOf, infoOf, subOf, LField.descends, Bool.false_and, Bool.false_eq_true, if_false]
    by_cases he : i.exported = true <;> simp [he]
  | struct i anon byv fs =>
    simp only [scanField, fieldScan, lfOf, infoOf, subOf, LField.descends, descends]
    by_cases hd : (anon && i.untagged && byv) = true
    · simp [hd]
    · by_cases he : i.exported = true <;> simp [hd, he]

theorem flatMap_congr_mem {β γ : Type} (f g : β → List γ) : ∀ (l : List β), (∀ x ∈ l, f x = g x) → l.flatMap f = l.flatMap g
  | [], _ => rfl
  | x :: rest, h => by
    simp only [List.flatMap_cons]
    rw [h x (by simp), flatMap_congr_mem f g rest (fun y hy => h y (by simp [hy]))]

theorem scanShape_is_flatMap (path : List Bytes) : ∀ sh : Shape,
    scanShape path sh = (Shape.toList sh).flatMap (fun f => fieldScan (lfOf f) ⟨path, infoOf f⟩ (subOf path f))
  | .nil => by simp [scanShape, Shape.toList]
  | .cons f rest => by
    simp only [scanShape, Shape.toList, List.flatMap_cons]
    rw [scanField_is_fieldScan, scanShape_is_flatMap path rest]


end Ioc.C11
