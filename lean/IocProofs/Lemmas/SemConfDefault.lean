/-
  Semantic theorems for the REGENERATED constructors / setters of package configure (interpretation: Ioc.SemConfDefault).
-/
import Ioc.SemConfDefault
import IocProofs.Lemmas.GoTactics
set_option linter.unusedSimpArgs false
namespace Ioc.Sem
open Ioc Ioc.Go

theorem newConfigure_sem (w : CfgObj) : run cdPrims Progs.cfg_NewConfigure [] w = some (.ref 0 180, ⟨[], .nil⟩) := by
  go_simp [Progs.cfg_NewConfigure, cdPrims, cdFn]

/-- Default: a fresh configure whose ONLY loader is the command-line loader over os.Args and whose binder is the viper binder
    for yaml ITSELF — nothing stands between the configure and that binder -/
theorem cfgDefault_sem (w : CfgObj) :
    run cdPrims Progs.cfg_Default [] w =
      some (.ref 0 180, ⟨[.tuple [.str "ArgsLoader", .str "os.Args"]], .tuple [.str "ViperBinder", .str "yaml"]⟩) := by
  go_simp [Progs.cfg_Default, cdPrims, cdFn]

/-- SetLoaders replaces the loaders, AddLoaders appends to them (in the order given), SetBinder replaces the binder; none of
    them touches the other member -/
theorem cfgSetters_sem (w : CfgObj) (ls : List Val) (b : Val) :
    run cdPrims Progs.cfg_SetLoaders [.list ls] w = some (.tuple [], { w with loaders := ls }) ∧
    run cdPrims Progs.cfg_AddLoaders [.list ls] w = some (.tuple [], { w with loaders := w.loaders ++ ls }) ∧
    run cdPrims Progs.cfg_SetBinder [b] w = some (.tuple [], { w with binder := b }) := by
  refine ⟨?_, ?_, ?_⟩
  · go_simp [Progs.cfg_SetLoaders, cdPrims, cdFn]
  · cases hl : w.loaders with
    | nil => go_simp [Progs.cfg_AddLoaders, cdPrims, cdFn, listOrNil, hl]
    | cons x r => go_simp [Progs.cfg_AddLoaders, cdPrims, cdFn, listOrNil, hl]
  · go_simp [Progs.cfg_SetBinder, cdPrims, cdFn]

end Ioc.Sem
