/-
  A placeholder that declares a default, `${k:d}` (config_quote_aware_post_processors.go:50-82): the default stands in
  for a key that is NOT configured.  When the key is configured — with any present value, the zero values `0`, `false`,
  `0.0` and the empty string included — the default plays no part: the quote stage, and with it the whole value
  pipeline, does what it does for `${k}` (C17_default_ignored).
-/
import IocProofs.Lemmas.ValueTop
namespace Ioc.Value
open Ioc Ioc.Tag

/-- the tag text `${k:d}` -/
def placeholderD (k d : Bytes) : Bytes := placeholder (k ++ 58 :: d)

/-- default texts as the theorem uses them: key characters (letters, digits, `.`, `_`, `-`), possibly none -/
def PlainDefault (d : Bytes) : Bool := d.all keyChar

theorem keyDefault_plain (k d : Bytes) (hk : PlainKey k = true) (hd : PlainDefault d = true) :
    ∀ b ∈ k ++ 58 :: d, b ≠ cComma ∧ isLB b = false ∧ isRB b = false ∧ notBrace b = true := by
  intro b hb
  simp only [List.mem_append, List.mem_cons] at hb
  rcases hb with hb | hb | hb
  · have h := plainKey_mem k hk b hb
    exact ⟨(keyChar_brackets b h).1, (keyChar_brackets b h).2.1, (keyChar_brackets b h).2.2, keyChar_notBrace b h⟩
  · subst hb; decide
  · have h : keyChar b = true := by
      unfold PlainDefault at hd
      exact List.all_eq_true.mp hd b hb
    exact ⟨(keyChar_brackets b h).1, (keyChar_brackets b h).2.1, (keyChar_brackets b h).2.2, keyChar_notBrace b h⟩

theorem WFpre_placeholderD (k d : Bytes) (hk : PlainKey k = true) (hd : PlainDefault d = true) :
    WFpre cComma isLB isRB (placeholderD k d) 0 = true := by
  have hp : ∀ b ∈ k ++ 58 :: d, b ≠ cComma ∧ isLB b = false ∧ isRB b = false :=
    fun b hb => ⟨(keyDefault_plain k d hk hd b hb).1, (keyDefault_plain k d hk hd b hb).2.1, (keyDefault_plain k d hk hd b hb).2.2.1⟩
  unfold placeholderD placeholder
  have e1 : isLB cDollar = false := by decide
  have e2 : isRB cDollar = false := by decide
  have e3 : cDollar ≠ cComma := by decide
  have e4 : isLB 123 = true := by decide
  simp only [WFpre, e1, e2, e3, e4, Bool.false_eq_true, if_false, if_true]
  rw [WFpre_plain_append cComma isLB isRB (k ++ 58 :: d) [125] 1 hp]
  decide

/-- strings.SplitN(exp, ":", 2) of `k:d` for a key without a colon -/
theorem splitColon_key_default (k d : Bytes) (hk : PlainKey k = true) : splitColon (k ++ 58 :: d) = some (k, d) := by
  unfold splitColon
  rw [idxFrom_plain 58 k d (fun b hb => keyChar_ne b 58 (plainKey_mem k hk b hb) (by decide))]
  simp

/-- the callback of the quote stage on `k:d` when `k` is configured: the configured value, as for `k` alone -/
theorem resolveQuote_key_default (J : Json) (cfg : Cfg) (k d : Bytes) (hk : PlainKey k = true) (hp : present (cfg k) = true) :
    resolveQuote J cfg (k ++ 58 :: d) = resolveQuote J cfg k := by
  rw [resolveQuote_key J cfg k hk hp]
  simp only [present, Bool.and_eq_true, bne_iff_ne, ne_eq] at hp
  unfold resolveQuote
  simp [splitColon_key_default k d hk, hp.1.1, hp.1.2, hp.2]

/-- the quote stage on `${k:d}` and on `${k}` agree when `k` is configured (whatever the formatted value contains:
    after the first replacement both texts are the same) -/
theorem quoteStage_placeholderD (J : Json) (cfg : Cfg) (k d : Bytes) (hk : PlainKey k = true) (hd : PlainDefault d = true)
    (hp : present (cfg k) = true) :
    quoteStage J cfg (placeholderD k d) = quoteStage J cfg (placeholder k) := by
  have f1 : findEl cDollar (placeholderD k d) = some ([], k ++ 58 :: d, []) := by
    have := findEl_placeholder (k ++ 58 :: d) (fun b hb => (keyDefault_plain k d hk hd b hb).2.2.2)
    unfold placeholderD placeholder
    simpa using this
  have f2 : findEl cDollar (placeholder k) = some ([], k, []) := by
    have := findEl_placeholder k (fun b hb => keyChar_notBrace b (plainKey_mem k hk b hb))
    unfold placeholder
    simpa using this
  unfold quoteStage
  rw [maxRounds_succ]
  unfold replaceAllF
  simp only [f1, f2, resolveQuote_key_default J cfg k d hk hp]

/-- Binding through `${k:d}` (with any arguments) is binding through `${k}` whenever `k` is configured — with ANY
    present value (not null, not an empty map or list): `0`, `false`, `0.0`, `""` are configured values. -/
theorem value_default_ignored (J : Json) (evalE : Bytes → Except Err Val) (validate : FVal → List Bytes → Bool)
    (cfg : Cfg) (k d : Bytes) (as : List (Bytes × List Bytes)) (ty : FieldTy)
    (hk : PlainKey k = true) (hd : PlainDefault d = true) (has : ∀ a ∈ as, WFArg a) (hp : present (cfg k) = true) :
    valuePipeline J evalE validate cfg (render (placeholderD k d) as) ty =
      valuePipeline J evalE validate cfg (render (placeholder k) as) ty := by
  unfold valuePipeline
  rw [parse?_render (placeholderD k d) as (WFpre_placeholderD k d hk hd) has,
    parse?_render (placeholder k) as (WFpre_placeholder k hk) has]
  simp only [quoteStage_placeholderD J cfg k d hk hd hp]

end Ioc.Value
