/-
  A field that has not been written yet holds its zero value: while the start has not failed, a non-empty field
  (n, i) belongs to a published component or to a frame of n that is already past point i.
-/
import IocProofs.Lemmas.M2StepFault
namespace Ioc.M2.Lc
open Ioc.M2

def Past (st : St) (n i : Nat) : Prop := st.l1 n ≠ none ∨ ∃ f ∈ st.stack, f.name = n ∧ i < f.p

def Fresh (st : St) : Prop := ¬ Failed st → ∀ n i, st.fields n i ≠ [] → Past st n i

theorem fresh_init (sc : Scen) : Fresh (init sc) := by
  intro _ n i h; simp [init] at h

theorem fresh_mono {st st' : St} (h : Fresh st) (hnf : ¬ Failed st) (hf : st'.fields = st.fields)
    (hp : ∀ n i, Past st n i → Past st' n i) : Fresh st' := by
  intro _ n i hne
  rw [hf] at hne
  exact hp n i (h hnf n i hne)

theorem past_bump {st : St} {o : Obj} {n i : Nat} (h : Past st n i) : Past { st with stack := bump st.stack o } n i := by
  rcases h with h | ⟨f, hf, hn, hi⟩
  · exact Or.inl h
  · right
    cases hs : st.stack with
    | nil => rw [hs] at hf; cases hf
    | cons g rest =>
      rw [hs] at hf
      simp at hf
      rcases hf with rfl | hf
      · exact ⟨{ f with d := f.d + 1, acc := f.acc ++ [o] }, by simp [bump], hn, hi⟩
      · exact ⟨f, by simp [bump, hf], hn, hi⟩

theorem past_src {sc : Scen} {st st0 : St} {c : Nat} (src : Src sc st st0 c) (n i : Nat) : Past st0 n i ↔ Past st n i := by
  obtain ⟨e1, _, _, e4, _, _, _⟩ := src.same
  simp [Past, e1, e4]

theorem fresh_src {sc : Scen} {st st0 : St} {c : Nat} (src : Src sc st st0 c) (h : Fresh st)
    (hr : st.status = .running) : Fresh st0 ∧ ¬ Failed st0 := by
  have nf : ¬ Failed st := fun ⟨x, g, hx⟩ => by rw [hr] at hx; cases hx
  have nf0 : ¬ Failed st0 := fun ⟨x, g, hx⟩ => by rw [src.same.2.2.2.2.2.2, hr] at hx; cases hx
  exact ⟨fresh_mono h nf src.same.2.2.2.2.1 (fun n i hp => (past_src src n i).mpr hp), nf0⟩

theorem fresh_fail (s : St) (x : Nat) : Fresh (failAt s x) := fun hnf => absurd ⟨x, s.stage, rfl⟩ hnf

theorem fresh_stepR (sc : Scen) (st st' : St) (_hi : Inv sc st) (h : Fresh st) (hr : st.status = .running)
    (hstep : StepR sc st st') : Fresh st' := by
  have nf : ¬ Failed st := fun ⟨x, g, hx⟩ => by rw [hr] at hx; cases hx
  cases hstep with
  | done hs hb ht => exact fresh_mono h nf rfl (fun n i hp => hp)
  | hit st0 c src o ho =>
    obtain ⟨h0, nf0⟩ := fresh_src src h hr
    exact fresh_mono h0 nf0 rfl (fun n i hp => past_bump hp)
  | promote st0 c src h1 h2 h3 hf =>
    obtain ⟨h0, nf0⟩ := fresh_src src h hr
    refine fresh_mono h0 nf0 (by simp) (fun n i hp => ?_)
    have := past_bump (o := sc.earlyO c) hp
    simpa [Past] using this
  | earlyFail st0 c src h1 h2 h3 hf => exact fresh_fail _ _
  | unknown st0 c src h1 h2 h3 hn => exact fresh_fail _ _
  | enterU st0 c src h1 h2 h3 hn hw =>
    obtain ⟨h0, nf0⟩ := fresh_src src h hr
    refine fresh_mono h0 nf0 rfl (fun n i hp => ?_)
    rcases hp with hp | ⟨f, hf, hp⟩
    · exact Or.inl hp
    · exact Or.inr ⟨f, by simp [push, hf], hp⟩
  | enterFail st0 c src h1 h2 h3 hn hw hbad => exact fresh_fail _ _
  | enterW st0 c src h1 h2 h3 hn hw hcfg hpts =>
    obtain ⟨h0, nf0⟩ := fresh_src src h hr
    refine fresh_mono h0 nf0 (by simp [push]) (fun n i hp => ?_)
    rcases hp with hp | ⟨f, hf, hp⟩
    · exact Or.inl (by simpa [push] using hp)
    · exact Or.inr ⟨f, by simp [push, hf], hp⟩
  | advance f rest hs hp hd hwhy =>
    refine fresh_mono h nf rfl (fun n i hpast => ?_)
    rcases hpast with hpast | ⟨g, hg, hn, hlt⟩
    · exact Or.inl hpast
    · rw [hs] at hg
      simp at hg
      rcases hg with rfl | hg
      · exact Or.inr ⟨advance g, by simp, hn, by simp [advance]; omega⟩
      · exact Or.inr ⟨g, by simp [hg], hn, hlt⟩
  | injFail f rest hs hp hd hne hreq hwhy => exact fresh_fail _ _
  | write f rest hs hp hd hne hm hc =>
    intro _ n i hne'
    by_cases hx : n = f.name ∧ i = f.p
    · obtain ⟨rfl, rfl⟩ := hx
      exact Or.inr ⟨advance f, by simp, rfl, by simp [advance]⟩
    · have hne'' : st.fields n i ≠ [] := by simpa [upd2, hx] using hne'
      rcases h nf n i hne'' with hpast | ⟨g, hg, hn, hlt⟩
      · exact Or.inl hpast
      · rw [hs] at hg
        simp at hg
        rcases hg with rfl | hg
        · exact Or.inr ⟨advance g, by simp, hn, by simp [advance]; omega⟩
        · exact Or.inr ⟨g, by simp [hg], hn, hlt⟩
  | cbFail f rest hs hp hcb => exact fresh_fail _ _
  | stale f rest hs hp hcb e he hw hh => exact fresh_fail _ _
  | publish f rest hs hp hcb pub hpub =>
    refine fresh_mono h nf (by simp [publish]) (fun n i hpast => ?_)
    by_cases hnf : n = f.name
    · exact Or.inl (by simp [publish, hnf])
    · rcases hpast with hpast | ⟨g, hg, hn, hlt⟩
      · exact Or.inl (by simpa [publish, hnf] using hpast)
      · rw [hs] at hg
        simp at hg
        rcases hg with rfl | hg
        · exact absurd hn.symm hnf
        · right
          cases rest with
          | nil => cases hg
          | cons g0 rest' =>
            simp at hg
            rcases hg with rfl | hg
            · exact ⟨{ g with d := g.d + 1, acc := g.acc ++ [pub] }, by simp [publish], hn, hlt⟩
            · exact ⟨g, by simp [publish, hg], hn, hlt⟩

theorem fresh_run (sc : Scen) (k : Nat) : Fresh (run sc k (init sc)) :=
  (run_inv sc (fun s => Inv sc s ∧ Fresh s)
    (step_inv_of_rel sc _ (fun st st' hi hr h => ⟨inv_stepR sc st st' hi.1 hr h, fresh_stepR sc st st' hi.1 hi.2 hr h⟩))
    k _ ⟨inv_init sc, fresh_init sc⟩).2

/-- the field of the point the top frame is working on has not been written yet -/
theorem current_field_zero (sc : Scen) (k : Nat) (f : Frame) (rest : List Frame)
    (hr : (run sc k (init sc)).status = .running) (hs : (run sc k (init sc)).stack = f :: rest) :
    (run sc k (init sc)).fields f.name f.p = [] := by
  apply Classical.byContradiction
  intro hne
  have hi := inv_run sc k
  have nf : ¬ Failed (run sc k (init sc)) := fun ⟨x, g, hx⟩ => by rw [hr] at hx; cases hx
  rcases fresh_run sc k nf f.name f.p hne with hp | ⟨g, hg, hn, hlt⟩
  · exact hp (hi.l1_off _ (by simp [snames, hs]))
  · rw [hs] at hg
    simp at hg
    rcases hg with rfl | hg
    · omega
    · have hnd := hi.nodup
      simp [snames, hs] at hnd
      exact hnd.1 g hg hn

end Ioc.M2.Lc
