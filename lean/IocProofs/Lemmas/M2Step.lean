/-
  One step of the factory machine (Ioc.Container) as an explicit relation `StepR`: every result of `step` from a running
  state is one of 14 named shapes.  All invariants used by C05 / C09 / C13 are proved by `cases` on this relation.
  (Namespace `Ioc.M2.Lc` so that nothing clashes with the lemma files of the cache properties C01–C03.)
-/
import IocProofs.Lemmas.M2Basic
namespace Ioc.M2.Lc
open Ioc.M2

/-- names of the creations in progress, innermost first -/
def snames (st : St) : List Nat := st.stack.map (·.name)

theorem onStack_iff (st : St) (n : Nat) : onStack st n = true ↔ n ∈ snames st := by
  simp [onStack, snames]

theorem onStack_false_iff (st : St) (n : Nat) : onStack st n = false ↔ n ∉ snames st := by
  rw [← onStack_iff]; cases onStack st n <;> simp

/-- registration of the early-reference factory and the new frame -/
def push (st : St) (c : Nat) : St :=
  { st with l3 := upd st.l3 c true, stack := ⟨c, 0, 0, []⟩ :: st.stack }

/-- the caller's frame receives an object -/
def bump (stk : List Frame) (o : Obj) : List Frame :=
  match stk with
  | [] => []
  | f :: rest => { f with d := f.d + 1, acc := f.acc ++ [o] } :: rest

/-- the frame moves on to its next point -/
def advance (f : Frame) : Frame := { f with p := f.p + 1, d := 0, acc := [] }

/-- what Inject keeps of the collected objects: everything but the holder itself -/
def metasOf (f : Frame) : List Obj := f.acc.filter (fun o => o.name != f.name)

@[simp] theorem snames_bump (st : St) (stk : List Frame) (o : Obj) :
    (bump stk o).map (·.name) = stk.map (·.name) := by
  cases stk <;> simp [bump]

/-- where a `doGetComponent` call comes from: the boot list, the refresh list, or the current candidate of the top frame -/
inductive Src (sc : Scen) (st : St) : St → Nat → Prop
  | boot (n : Nat) (t : List Nat) (hs : st.stack = []) (hb : st.todoBoot = n :: t) :
      Src sc st { st with todoBoot := t, stage := .factory } n
  | todo (n : Nat) (t : List Nat) (hs : st.stack = []) (hb : st.todoBoot = []) (ht : st.todo = n :: t) :
      Src sc st { st with todo := t, stage := .refresh } n
  | cand (f : Frame) (rest : List Frame) (hs : st.stack = f :: rest) (hp : f.p < (pts sc f.name).length)
      (hd : f.d < ((pts sc f.name)[f.p]).cands.length) :
      Src sc st st (((pts sc f.name)[f.p]).cands[f.d])

theorem Src.same {sc : Scen} {st st0 : St} {c : Nat} (h : Src sc st st0 c) :
    st0.l1 = st.l1 ∧ st0.l2 = st.l2 ∧ st0.l3 = st.l3 ∧ st0.stack = st.stack ∧ st0.fields = st.fields ∧
    st0.log = st.log ∧ st0.status = st.status := by
  cases h <;> simp

/-- the published object: what InitializeComponent returned, or the early reference when the instance was not replaced -/
def PubCond (sc : Scen) (s : St) (n : Nat) (pub : Obj) : Prop :=
  (s.l2 n = none ∧ pub = initResult sc n) ∨
  (∃ e, s.l2 n = some e ∧ initResult sc n = raw n ∧ pub = e) ∨
  (∃ e, s.l2 n = some e ∧ initResult sc n ≠ raw n ∧ finishedHolderHas sc s e = false ∧ pub = initResult sc n)

inductive StepR (sc : Scen) (st : St) : St → Prop
  | done (hs : st.stack = []) (hb : st.todoBoot = []) (ht : st.todo = []) : StepR sc st { st with status := .done }
  | hit (st0 : St) (c : Nat) (src : Src sc st st0 c) (o : Obj)
      (h : st0.l1 c = some o ∨ (st0.l1 c = none ∧ st0.l2 c = some o)) :
      StepR sc st { st0 with stack := bump st0.stack o }
  | promote (st0 : St) (c : Nat) (src : Src sc st st0 c)
      (h1 : st0.l1 c = none) (h2 : st0.l2 c = none) (h3 : st0.l3 c = true) (hf : sc.fEarly c = false) :
      StepR sc st { addLog sc st0 c (.early c) with
        l2 := upd st0.l2 c (some (sc.earlyO c)), l3 := upd st0.l3 c false, stack := bump st0.stack (sc.earlyO c) }
  | earlyFail (st0 : St) (c : Nat) (src : Src sc st st0 c)
      (h1 : st0.l1 c = none) (h2 : st0.l2 c = none) (h3 : st0.l3 c = true) (hf : sc.fEarly c = true) :
      StepR sc st (failAt (addLog sc st0 c (.early c)) c)
  | unknown (st0 : St) (c : Nat) (src : Src sc st st0 c)
      (h1 : st0.l1 c = none) (h2 : st0.l2 c = none) (h3 : st0.l3 c = false) (hn : c ∉ sc.names) :
      StepR sc st (failAt st0 c)
  | enterU (st0 : St) (c : Nat) (src : Src sc st st0 c)
      (h1 : st0.l1 c = none) (h2 : st0.l2 c = none) (h3 : st0.l3 c = false) (hn : c ∈ sc.names)
      (hw : sc.wired c = false) :
      StepR sc st (push st0 c)
  | enterFail (st0 : St) (c : Nat) (src : Src sc st st0 c)
      (h1 : st0.l1 c = none) (h2 : st0.l2 c = none) (h3 : st0.l3 c = false) (hn : c ∈ sc.names)
      (hw : sc.wired c = true) (hbad : sc.cfgOk c = false ∨ sc.points c = none) :
      StepR sc st (failAt (addLog sc (push st0 c) c (.new c)) c)
  | enterW (st0 : St) (c : Nat) (src : Src sc st st0 c)
      (h1 : st0.l1 c = none) (h2 : st0.l2 c = none) (h3 : st0.l3 c = false) (hn : c ∈ sc.names)
      (hw : sc.wired c = true) (hcfg : sc.cfgOk c = true) (hpts : sc.points c ≠ none) :
      StepR sc st (addLog sc (addLog sc (push st0 c) c (.new c)) c (.conf c))
  | advance (f : Frame) (rest : List Frame) (hs : st.stack = f :: rest) (hp : f.p < (pts sc f.name).length)
      (hd : ¬ f.d < ((pts sc f.name)[f.p]).cands.length)
      (hwhy : ((pts sc f.name)[f.p]).cands = [] ∨
        (((pts sc f.name)[f.p]).required = false ∧
          (metasOf f = [] ∨ (metasOf f).any (fun o => ((pts sc f.name)[f.p]).incompat.contains o.name) = true))) :
      StepR sc st { st with stack := advance f :: rest }
  | injFail (f : Frame) (rest : List Frame) (hs : st.stack = f :: rest) (hp : f.p < (pts sc f.name).length)
      (hd : ¬ f.d < ((pts sc f.name)[f.p]).cands.length)
      (hne : ((pts sc f.name)[f.p]).cands ≠ [])
      (hreq : ((pts sc f.name)[f.p]).required = true)
      (hwhy : metasOf f = [] ∨ (metasOf f).any (fun o => ((pts sc f.name)[f.p]).incompat.contains o.name) = true) :
      StepR sc st (failAt st f.name)
  | write (f : Frame) (rest : List Frame) (hs : st.stack = f :: rest) (hp : f.p < (pts sc f.name).length)
      (hd : ¬ f.d < ((pts sc f.name)[f.p]).cands.length)
      (hne : ((pts sc f.name)[f.p]).cands ≠ [])
      (hm : metasOf f ≠ [])
      (hc : (metasOf f).any (fun o => ((pts sc f.name)[f.p]).incompat.contains o.name) = false) :
      StepR sc st { st with
        fields := upd2 st.fields f.name f.p (if ((pts sc f.name)[f.p]).slice then metasOf f else (metasOf f).take 1),
        stack := advance f :: rest }
  | cbFail (f : Frame) (rest : List Frame) (hs : st.stack = f :: rest) (hp : ¬ f.p < (pts sc f.name).length)
      (hcb : (initCallbacks sc st f.name).2 = false) :
      StepR sc st (failAt (initCallbacks sc st f.name).1 f.name)
  | stale (f : Frame) (rest : List Frame) (hs : st.stack = f :: rest) (hp : ¬ f.p < (pts sc f.name).length)
      (hcb : (initCallbacks sc st f.name).2 = true) (e : Obj) (he : st.l2 f.name = some e)
      (hw : initResult sc f.name ≠ raw f.name)
      (hh : finishedHolderHas sc (initCallbacks sc st f.name).1 e = true) :
      StepR sc st (failAt (initCallbacks sc st f.name).1 f.name)
  | publish (f : Frame) (rest : List Frame) (hs : st.stack = f :: rest) (hp : ¬ f.p < (pts sc f.name).length)
      (hcb : (initCallbacks sc st f.name).2 = true) (pub : Obj)
      (hpub : PubCond sc (initCallbacks sc st f.name).1 f.name pub) :
      StepR sc st (publish (initCallbacks sc st f.name).1 f.name pub rest)

/-- GetSingleton, case by case -/
theorem lookup_eq (sc : Scen) (st : St) (c : Nat) :
    (∃ o, (st.l1 c = some o ∨ (st.l1 c = none ∧ st.l2 c = some o)) ∧ lookup sc st c = .hit o st) ∨
    (st.l1 c = none ∧ st.l2 c = none ∧ st.l3 c = true ∧ sc.fEarly c = true ∧
      lookup sc st c = .err (addLog sc st c (.early c))) ∨
    (st.l1 c = none ∧ st.l2 c = none ∧ st.l3 c = true ∧ sc.fEarly c = false ∧
      lookup sc st c = .hit (sc.earlyO c) { addLog sc st c (.early c) with
        l2 := upd st.l2 c (some (sc.earlyO c)), l3 := upd st.l3 c false }) ∨
    (st.l1 c = none ∧ st.l2 c = none ∧ st.l3 c = false ∧ lookup sc st c = .miss) := by
  unfold lookup
  cases h1 : st.l1 c with
  | some o => exact Or.inl ⟨o, Or.inl rfl, rfl⟩
  | none =>
    cases h2 : st.l2 c with
    | some o => exact Or.inl ⟨o, Or.inr ⟨rfl, rfl⟩, rfl⟩
    | none =>
      cases h3 : st.l3 c with
      | false => simp
      | true =>
        cases hf : sc.fEarly c with
        | true => simp
        | false => simp

/-- createComponent up to ResolveAfterInstantiation, case by case -/
theorem enter_eq (sc : Scen) (st : St) (c : Nat) :
    (c ∉ sc.names ∧ enter sc st c = failAt st c) ∨
    (c ∈ sc.names ∧ sc.wired c = false ∧ enter sc st c = push st c) ∨
    (c ∈ sc.names ∧ sc.wired c = true ∧ (sc.cfgOk c = false ∨ sc.points c = none) ∧
      enter sc st c = failAt (addLog sc (push st c) c (.new c)) c) ∨
    (c ∈ sc.names ∧ sc.wired c = true ∧ sc.cfgOk c = true ∧ sc.points c ≠ none ∧
      enter sc st c = addLog sc (addLog sc (push st c) c (.new c)) c (.conf c)) := by
  unfold enter
  by_cases hn : c ∈ sc.names
  · cases hw : sc.wired c with
    | false => simp [hn, push]
    | true =>
      cases hc : sc.cfgOk c with
      | false => simp [hn, push]
      | true =>
        cases hp : sc.points c with
        | none => simp [hn, push]
        | some ps => simp [hn, push]
  · simp [hn]

/-- the shared part of the three places that call doGetComponent -/
theorem visit_rel (sc : Scen) (st st0 : St) (c : Nat) (src : Src sc st st0 c) (K : Obj → St → St)
    (hK : ∀ o s, s.stack = st0.stack → K o s = { s with stack := bump st0.stack o }) :
    StepR sc st (match lookup sc st0 c with
      | .hit o s => K o s
      | .err s => failAt s c
      | .miss => enter sc st0 c) := by
  rcases lookup_eq sc st0 c with ⟨o, h, he⟩ | ⟨h1, h2, h3, hf, he⟩ | ⟨h1, h2, h3, hf, he⟩ | ⟨h1, h2, h3, he⟩
  · rw [he]; dsimp only; rw [hK o st0 rfl]; exact StepR.hit st0 c src o h
  · rw [he]; exact StepR.earlyFail st0 c src h1 h2 h3 hf
  · rw [he]; dsimp only; rw [hK _ _ (by simp)]
    exact StepR.promote st0 c src h1 h2 h3 hf
  · rw [he]; dsimp only
    rcases enter_eq sc st0 c with ⟨hn, ee⟩ | ⟨hn, hw, ee⟩ | ⟨hn, hw, hbad, ee⟩ | ⟨hn, hw, hcfg, hpts, ee⟩
    · rw [ee]; exact StepR.unknown st0 c src h1 h2 h3 hn
    · rw [ee]; exact StepR.enterU st0 c src h1 h2 h3 hn hw
    · rw [ee]; exact StepR.enterFail st0 c src h1 h2 h3 hn hw hbad
    · rw [ee]; exact StepR.enterW st0 c src h1 h2 h3 hn hw hcfg hpts

theorem step_not_running (sc : Scen) (st : St) (h : st.status ≠ .running) : step sc st = st := by
  unfold step
  split
  · rename_i h'; exact absurd h' h
  · rfl

/-- every step from a running state has one of the 14 shapes -/
theorem step_rel (sc : Scen) (st : St) (hrun : st.status = .running) : StepR sc st (step sc st) := by
  unfold step
  split
  · cases hstk : st.stack with
    | nil =>
      dsimp only
      cases hb : st.todoBoot with
      | cons n t =>
        dsimp only
        exact visit_rel sc st _ n (Src.boot n t hstk hb) (fun _ s => s)
          (by intro o s hs; cases s; simp_all [bump])
      | nil =>
        dsimp only
        cases ht : st.todo with
        | nil => exact StepR.done hstk hb ht
        | cons n t =>
          dsimp only
          exact visit_rel sc st _ n (Src.todo n t hstk hb ht) (fun _ s => s)
            (by intro o s hs; cases s; simp_all [bump])
    | cons f rest =>
      dsimp only
      split
      · rename_i hp
        split
        · rename_i hd
          exact visit_rel sc st st _ (Src.cand f rest hstk hp hd) _
            (by intro o s hs; rw [hstk]; rfl)
        · rename_i hd
          sorry
      · rename_i hp
        sorry
  · rename_i h; exact absurd hrun h

end Ioc.M2.Lc
