/-
  One step of the factory machine (Ioc.Container) as an explicit relation `StepR`: every result of `step` from a running
  state is one of 14 named shapes.  All invariants used by C05 / C09 / C13 are proved by `cases` on this relation.
  (Namespace `Ioc.M2.Lc` so that nothing clashes with the lemma files of the cache properties C01–C03.)
-/
import IocProofs.Lemmas.M2Basic
namespace Ioc.M2.Lc
open Ioc.M2

/-- names of the creations in progress, innermost first -/
def snames (st : St) : List Nat := st.stack.map (·.name)

theorem onStack_iff (st : St) (n : Nat) : onStack st n = true ↔ n ∈ snames st := by
  simp [onStack, snames]

theorem onStack_false_iff (st : St) (n : Nat) : onStack st n = false ↔ n ∉ snames st := by
  rw [← onStack_iff]; cases onStack st n <;> simp

/-- registration of the early-reference factory and the new frame -/
def push (st : St) (c : Nat) : St :=
  { st with l3 := upd st.l3 c true, stack := ⟨c, 0, 0, []⟩ :: st.stack }

/-- the caller's frame receives an object -/
def bump (stk : List Frame) (o : Obj) : List Frame :=
  match stk with
  | [] => []
  | f :: rest => { f with d := f.d + 1, acc := f.acc ++ [o] } :: rest

/-- the frame moves on to its next point -/
def advance (f : Frame) : Frame := { f with p := f.p + 1, d := 0, acc := [] }

/-- what Inject keeps of the collected objects: everything but the holder itself -/
def metasOf (f : Frame) : List Obj := f.acc.filter (fun o => o.name != f.name)

@[simp] theorem snames_bump (stk : List Frame) (o : Obj) :
    (bump stk o).map (·.name) = stk.map (·.name) := by
  cases stk <;> simp [bump]

/-- where a `doGetComponent` call comes from: the boot list, the refresh list, or the current candidate of the top frame -/
inductive Src (sc : Scen) (st : St) : St → Nat → Prop
  | boot (n : Nat) (t : List Nat) (hs : st.stack = []) (hb : st.todoBoot = n :: t) :
      Src sc st { st with todoBoot := t, stage := .factory } n
  | todo (n : Nat) (t : List Nat) (hs : st.stack = []) (hb : st.todoBoot = []) (ht : st.todo = n :: t) :
      Src sc st { st with todo := t, stage := .refresh } n
  | cand (f : Frame) (rest : List Frame) (hs : st.stack = f :: rest) (hp : f.p < (pts sc f.name).length)
      (hd : f.d < ((pts sc f.name)[f.p]).cands.length) :
      Src sc st st (((pts sc f.name)[f.p]).cands[f.d])

theorem Src.same {sc : Scen} {st st0 : St} {c : Nat} (h : Src sc st st0 c) :
    st0.l1 = st.l1 ∧ st0.l2 = st.l2 ∧ st0.l3 = st.l3 ∧ st0.stack = st.stack ∧ st0.fields = st.fields ∧
    st0.log = st.log ∧ st0.status = st.status := by
  cases h <;> simp

/-- the published object: what InitializeComponent returned, or the early reference when the instance was not replaced -/
def PubCond (sc : Scen) (s : St) (n : Nat) (pub : Obj) : Prop :=
  (s.l2 n = none ∧ pub = initResult sc n) ∨
  (∃ e, s.l2 n = some e ∧ initResult sc n = raw n ∧ pub = e) ∨
  (∃ e, s.l2 n = some e ∧ initResult sc n ≠ raw n ∧ finishedHolderHas sc s e = false ∧ pub = initResult sc n)

inductive StepR (sc : Scen) (st : St) : St → Prop
  | done (hs : st.stack = []) (hb : st.todoBoot = []) (ht : st.todo = []) : StepR sc st { st with status := .done }
  | hit (st0 : St) (c : Nat) (src : Src sc st st0 c) (o : Obj)
      (h : st0.l1 c = some o ∨ (st0.l1 c = none ∧ st0.l2 c = some o)) :
      StepR sc st { st0 with stack := bump st0.stack o }
  | promote (st0 : St) (c : Nat) (src : Src sc st st0 c)
      (h1 : st0.l1 c = none) (h2 : st0.l2 c = none) (h3 : st0.l3 c = true) (hf : sc.fEarly c = false) :
      StepR sc st { addLog sc st0 c (.early c) with
        l2 := upd st0.l2 c (some (sc.earlyO c)), l3 := upd st0.l3 c false, stack := bump st0.stack (sc.earlyO c) }
  | earlyFail (st0 : St) (c : Nat) (src : Src sc st st0 c)
      (h1 : st0.l1 c = none) (h2 : st0.l2 c = none) (h3 : st0.l3 c = true) (hf : sc.fEarly c = true) :
      StepR sc st (failAt (addLog sc st0 c (.early c)) c)
  | unknown (st0 : St) (c : Nat) (src : Src sc st st0 c)
      (h1 : st0.l1 c = none) (h2 : st0.l2 c = none) (h3 : st0.l3 c = false) (hn : c ∉ sc.names) :
      StepR sc st (failAt st0 c)
  | enterU (st0 : St) (c : Nat) (src : Src sc st st0 c)
      (h1 : st0.l1 c = none) (h2 : st0.l2 c = none) (h3 : st0.l3 c = false) (hn : c ∈ sc.names)
      (hw : sc.wired c = false) :
      StepR sc st (push st0 c)
  | enterFail (st0 : St) (c : Nat) (src : Src sc st st0 c)
      (h1 : st0.l1 c = none) (h2 : st0.l2 c = none) (h3 : st0.l3 c = false) (hn : c ∈ sc.names)
      (hw : sc.wired c = true) (hbad : sc.cfgOk c = false ∨ sc.points c = none) :
      StepR sc st (failAt (addLog sc (push st0 c) c (.new c)) c)
  | enterW (st0 : St) (c : Nat) (src : Src sc st st0 c)
      (h1 : st0.l1 c = none) (h2 : st0.l2 c = none) (h3 : st0.l3 c = false) (hn : c ∈ sc.names)
      (hw : sc.wired c = true) (hcfg : sc.cfgOk c = true) (hpts : sc.points c ≠ none) :
      StepR sc st (addLog sc (addLog sc (push st0 c) c (.new c)) c (.conf c))
  | advance (f : Frame) (rest : List Frame) (hs : st.stack = f :: rest) (hp : f.p < (pts sc f.name).length)
      (hd : ¬ f.d < ((pts sc f.name)[f.p]).cands.length)
      (hwhy : ((pts sc f.name)[f.p]).cands = [] ∨
        (((pts sc f.name)[f.p]).required = false ∧
          (metasOf f = [] ∨ (metasOf f).any (fun o => ((pts sc f.name)[f.p]).incompat.contains o.name) = true))) :
      StepR sc st { st with stack := advance f :: rest }
  | injFail (f : Frame) (rest : List Frame) (hs : st.stack = f :: rest) (hp : f.p < (pts sc f.name).length)
      (hd : ¬ f.d < ((pts sc f.name)[f.p]).cands.length)
      (hne : ((pts sc f.name)[f.p]).cands ≠ [])
      (hreq : ((pts sc f.name)[f.p]).required = true)
      (hwhy : metasOf f = [] ∨ (metasOf f).any (fun o => ((pts sc f.name)[f.p]).incompat.contains o.name) = true) :
      StepR sc st (failAt st f.name)
  | write (f : Frame) (rest : List Frame) (hs : st.stack = f :: rest) (hp : f.p < (pts sc f.name).length)
      (hd : ¬ f.d < ((pts sc f.name)[f.p]).cands.length)
      (hne : ((pts sc f.name)[f.p]).cands ≠ [])
      (hm : metasOf f ≠ [])
      (hc : (metasOf f).any (fun o => ((pts sc f.name)[f.p]).incompat.contains o.name) = false) :
      StepR sc st { st with
        fields := upd2 st.fields f.name f.p (if ((pts sc f.name)[f.p]).slice then metasOf f else (metasOf f).take 1),
        stack := advance f :: rest }
  | cbFail (f : Frame) (rest : List Frame) (hs : st.stack = f :: rest) (hp : ¬ f.p < (pts sc f.name).length)
      (hcb : (initCallbacks sc st f.name).2 = false) :
      StepR sc st (failAt (initCallbacks sc st f.name).1 f.name)
  | stale (f : Frame) (rest : List Frame) (hs : st.stack = f :: rest) (hp : ¬ f.p < (pts sc f.name).length)
      (hcb : (initCallbacks sc st f.name).2 = true) (e : Obj) (he : st.l2 f.name = some e)
      (hw : initResult sc f.name ≠ raw f.name)
      (hh : finishedHolderHas sc st e = true) :
      StepR sc st (failAt (initCallbacks sc st f.name).1 f.name)
  | publish (f : Frame) (rest : List Frame) (hs : st.stack = f :: rest) (hp : ¬ f.p < (pts sc f.name).length)
      (hcb : (initCallbacks sc st f.name).2 = true) (pub : Obj)
      (hpub : PubCond sc st f.name pub) :
      StepR sc st (publish (initCallbacks sc st f.name).1 f.name pub rest)

theorem finishedHolderHas_same (sc : Scen) (a b : St) (e : Obj) (h : SameButLog a b) :
    finishedHolderHas sc a e = finishedHolderHas sc b e := by
  simp [finishedHolderHas, onStack, h.stack, h.fields]

/-- GetSingleton, case by case -/
theorem lookup_eq (sc : Scen) (st : St) (c : Nat) :
    (∃ o, (st.l1 c = some o ∨ (st.l1 c = none ∧ st.l2 c = some o)) ∧ lookup sc st c = .hit o st) ∨
    (st.l1 c = none ∧ st.l2 c = none ∧ st.l3 c = true ∧ sc.fEarly c = true ∧
      lookup sc st c = .err (addLog sc st c (.early c))) ∨
    (st.l1 c = none ∧ st.l2 c = none ∧ st.l3 c = true ∧ sc.fEarly c = false ∧
      lookup sc st c = .hit (sc.earlyO c) { addLog sc st c (.early c) with
        l2 := upd st.l2 c (some (sc.earlyO c)), l3 := upd st.l3 c false }) ∨
    (st.l1 c = none ∧ st.l2 c = none ∧ st.l3 c = false ∧ lookup sc st c = .miss) := by
  unfold lookup
  cases h1 : st.l1 c with
  | some o => exact Or.inl ⟨o, Or.inl rfl, rfl⟩
  | none =>
    cases h2 : st.l2 c with
    | some o => exact Or.inl ⟨o, Or.inr ⟨rfl, rfl⟩, rfl⟩
    | none =>
      cases h3 : st.l3 c with
      | false => simp
      | true =>
        cases hf : sc.fEarly c with
        | true => simp
        | false => simp

/-- createComponent up to ResolveAfterInstantiation, case by case -/
theorem enter_eq (sc : Scen) (st : St) (c : Nat) :
    (c ∉ sc.names ∧ enter sc st c = failAt st c) ∨
    (c ∈ sc.names ∧ sc.wired c = false ∧ enter sc st c = push st c) ∨
    (c ∈ sc.names ∧ sc.wired c = true ∧ (sc.cfgOk c = false ∨ sc.points c = none) ∧
      enter sc st c = failAt (addLog sc (push st c) c (.new c)) c) ∨
    (c ∈ sc.names ∧ sc.wired c = true ∧ sc.cfgOk c = true ∧ sc.points c ≠ none ∧
      enter sc st c = addLog sc (addLog sc (push st c) c (.new c)) c (.conf c)) := by
  unfold enter
  by_cases hn : c ∈ sc.names
  · cases hw : sc.wired c with
    | false => simp [hn, push]
    | true =>
      cases hc : sc.cfgOk c with
      | false => simp [hn, push]
      | true =>
        cases hp : sc.points c with
        | none => simp [hn, push]
        | some ps => simp [hn, push]
  · simp [hn]

/-- the shared part of the three places that call doGetComponent -/
theorem visit_rel (sc : Scen) (st st0 : St) (c : Nat) (src : Src sc st st0 c) (K : Obj → St → St)
    (hK : ∀ o s, s.stack = st0.stack → K o s = { s with stack := bump st0.stack o }) :
    StepR sc st (match lookup sc st0 c with
      | .hit o s => K o s
      | .err s => failAt s c
      | .miss => enter sc st0 c) := by
  rcases lookup_eq sc st0 c with ⟨o, h, he⟩ | ⟨h1, h2, h3, hf, he⟩ | ⟨h1, h2, h3, hf, he⟩ | ⟨h1, h2, h3, he⟩
  · rw [he]; dsimp only; rw [hK o st0 rfl]; exact StepR.hit st0 c src o h
  · rw [he]; exact StepR.earlyFail st0 c src h1 h2 h3 hf
  · rw [he]; dsimp only; rw [hK _ _ (by simp)]
    exact StepR.promote st0 c src h1 h2 h3 hf
  · rw [he]; dsimp only
    rcases enter_eq sc st0 c with ⟨hn, ee⟩ | ⟨hn, hw, ee⟩ | ⟨hn, hw, hbad, ee⟩ | ⟨hn, hw, hcfg, hpts, ee⟩
    · rw [ee]; exact StepR.unknown st0 c src h1 h2 h3 hn
    · rw [ee]; exact StepR.enterU st0 c src h1 h2 h3 hn hw
    · rw [ee]; exact StepR.enterFail st0 c src h1 h2 h3 hn hw hbad
    · rw [ee]; exact StepR.enterW st0 c src h1 h2 h3 hn hw hcfg hpts

theorem step_not_running (sc : Scen) (st : St) (h : st.status ≠ .running) : step sc st = st := by
  unfold step
  split
  · rename_i h'; exact absurd h' h
  · rfl

/-- every step from a running state has one of the 14 shapes -/
theorem step_rel (sc : Scen) (st : St) (hrun : st.status = .running) : StepR sc st (step sc st) := by
  unfold step
  split
  · split
    · rename_i hstk
      split
      · rename_i n t hb
        dsimp only
        exact visit_rel sc st _ n (Src.boot n t hstk hb) (fun _ s => s)
          (by intro o s hs; cases s; simp_all [bump])
      · rename_i hb
        split
        · rename_i ht; exact StepR.done hstk hb ht
        · rename_i n t ht
          dsimp only
          exact visit_rel sc st _ n (Src.todo n t hstk hb ht) (fun _ s => s)
            (by intro o s hs; cases s; simp_all [bump])
    · rename_i f rest hstk
      dsimp only
      split
      · rename_i hp
        split
        · rename_i hd
          exact visit_rel sc st st _ (Src.cand f rest hstk hp hd) _
            (by intro o s hs; rw [hstk]; rfl)
        · rename_i hd
          change StepR sc st (if (pts sc f.name)[f.p].cands.isEmpty = true then { st with stack := advance f :: rest }
            else if (metasOf f).isEmpty = true then
              (if (pts sc f.name)[f.p].required = true then failAt st f.name else { st with stack := advance f :: rest })
            else if ((metasOf f).any fun o => (pts sc f.name)[f.p].incompat.contains o.name) = true then
              (if (pts sc f.name)[f.p].required = true then failAt st f.name else { st with stack := advance f :: rest })
            else { st with
              fields := upd2 st.fields f.name f.p
                (if ((pts sc f.name)[f.p]).slice then metasOf f else (metasOf f).take 1),
              stack := advance f :: rest })
          by_cases hc : (pts sc f.name)[f.p].cands = []
          · rw [if_pos (by simp [hc])]
            exact StepR.advance f rest hstk hp hd (Or.inl hc)
          · rw [if_neg (by simpa using hc)]
            by_cases hm : metasOf f = []
            · rw [if_pos (by simp [hm])]
              cases hr : (pts sc f.name)[f.p].required with
              | true => rw [if_pos rfl]; exact StepR.injFail f rest hstk hp hd hc hr (Or.inl hm)
              | false =>
                rw [if_neg (by simp)]
                exact StepR.advance f rest hstk hp hd (Or.inr ⟨hr, Or.inl hm⟩)
            · rw [if_neg (by simpa using hm)]
              cases hi : (metasOf f).any fun o => (pts sc f.name)[f.p].incompat.contains o.name with
              | true =>
                rw [if_pos rfl]
                cases hr : (pts sc f.name)[f.p].required with
                | true => rw [if_pos rfl]; exact StepR.injFail f rest hstk hp hd hc hr (Or.inr hi)
                | false =>
                  rw [if_neg (by simp)]
                  exact StepR.advance f rest hstk hp hd (Or.inr ⟨hr, Or.inr hi⟩)
              | false =>
                rw [if_neg (by simp)]
                exact StepR.write f rest hstk hp hd hc hm hi
      · rename_i hp
        have same := initCallbacks_same sc st f.name
        cases hcb : (initCallbacks sc st f.name).2 with
        | false => rw [if_pos (by simp)]; exact StepR.cbFail f rest hstk hp hcb
        | true =>
          rw [if_neg (by simp)]
          rw [same.l2]
          split
          · rename_i h2
            exact StepR.publish f rest hstk hp hcb _ (Or.inl ⟨h2, rfl⟩)
          · rename_i e h2
            split
            · rename_i hw
              exact StepR.publish f rest hstk hp hcb _ (Or.inr (Or.inl ⟨e, h2, hw, rfl⟩))
            · rename_i hw
              rw [finishedHolderHas_same sc _ st e same]
              cases hh : finishedHolderHas sc st e with
              | true => rw [if_pos rfl]; exact StepR.stale f rest hstk hp hcb e h2 hw hh
              | false =>
                rw [if_neg (by simp)]
                exact StepR.publish f rest hstk hp hcb _ (Or.inr (Or.inr ⟨e, h2, hw, hh, rfl⟩))
  · rename_i h; exact absurd hrun h

/-! ### lifting over `run` -/

theorem run_succ (sc : Scen) (k : Nat) (st : St) : run sc (k + 1) st = step sc (run sc k st) := by
  induction k generalizing st with
  | zero => rfl
  | succ k ih => rw [run, ih (step sc st)]; rfl

theorem run_add (sc : Scen) (n m : Nat) (st : St) : run sc (n + m) st = run sc m (run sc n st) := by
  induction n generalizing st with
  | zero => simp [run]
  | succ n ih => rw [Nat.add_right_comm]; exact ih (step sc st)

/-- a step invariant is a run invariant -/
theorem run_inv (sc : Scen) (I : St → Prop) (hstep : ∀ st, I st → I (step sc st)) (k : Nat) (st : St) (h : I st) :
    I (run sc k st) := by
  induction k generalizing st with
  | zero => exact h
  | succ k ih => exact ih _ (hstep st h)

/-- to prove a step invariant it is enough to look at the 14 shapes -/
theorem step_inv_of_rel (sc : Scen) (I : St → Prop)
    (h : ∀ st st', I st → st.status = .running → StepR sc st st' → I st') (st : St) (hi : I st) : I (step sc st) := by
  by_cases hr : st.status = .running
  · exact h st _ hi hr (step_rel sc st hr)
  · rw [step_not_running sc st hr]; exact hi

theorem run_not_running (sc : Scen) (k : Nat) (st : St) (h : st.status ≠ .running) : run sc k st = st := by
  induction k with
  | zero => rfl
  | succ k ih => rw [run_succ, ih, step_not_running sc st h]

/-! ### projections of the state after the initialization callbacks -/

@[simp] theorem initCallbacks_l1 (sc : Scen) (st : St) (n : Nat) : (initCallbacks sc st n).1.l1 = st.l1 :=
  (initCallbacks_same sc st n).l1
@[simp] theorem initCallbacks_l2 (sc : Scen) (st : St) (n : Nat) : (initCallbacks sc st n).1.l2 = st.l2 :=
  (initCallbacks_same sc st n).l2
@[simp] theorem initCallbacks_l3 (sc : Scen) (st : St) (n : Nat) : (initCallbacks sc st n).1.l3 = st.l3 :=
  (initCallbacks_same sc st n).l3
@[simp] theorem initCallbacks_stack (sc : Scen) (st : St) (n : Nat) : (initCallbacks sc st n).1.stack = st.stack :=
  (initCallbacks_same sc st n).stack
@[simp] theorem initCallbacks_fields (sc : Scen) (st : St) (n : Nat) : (initCallbacks sc st n).1.fields = st.fields :=
  (initCallbacks_same sc st n).fields
@[simp] theorem initCallbacks_todoBoot (sc : Scen) (st : St) (n : Nat) :
    (initCallbacks sc st n).1.todoBoot = st.todoBoot := (initCallbacks_same sc st n).todoBoot
@[simp] theorem initCallbacks_todo (sc : Scen) (st : St) (n : Nat) : (initCallbacks sc st n).1.todo = st.todo :=
  (initCallbacks_same sc st n).todo
@[simp] theorem initCallbacks_stage (sc : Scen) (st : St) (n : Nat) : (initCallbacks sc st n).1.stage = st.stage :=
  (initCallbacks_same sc st n).stage
@[simp] theorem initCallbacks_status (sc : Scen) (st : St) (n : Nat) : (initCallbacks sc st n).1.status = st.status :=
  (initCallbacks_same sc st n).status

@[simp] theorem snames_addLog (sc : Scen) (st : St) (n : Nat) (e : Ev) : snames (addLog sc st n e) = snames st := by
  simp [snames]
@[simp] theorem snames_initCallbacks (sc : Scen) (st : St) (n : Nat) : snames (initCallbacks sc st n).1 = snames st := by
  simp [snames]
@[simp] theorem snames_failAt (st : St) (n : Nat) : snames (failAt st n) = [] := rfl
@[simp] theorem snames_push (st : St) (c : Nat) : snames (push st c) = c :: snames st := rfl
@[simp] theorem snames_publish (st : St) (n : Nat) (pub : Obj) (rest : List Frame) :
    snames (publish st n pub rest) = rest.map (·.name) := by
  cases rest <;> simp [publish, snames]
@[simp] theorem snames_setBump (st : St) (o : Obj) : snames { st with stack := bump st.stack o } = snames st := by
  simp [snames]

end Ioc.M2.Lc
