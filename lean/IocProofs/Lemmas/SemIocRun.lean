/-
  Semantic theorems for the REGENERATED package-level entry points ioc.Run / ioc.Register (interpretation: Ioc.SemIocRun).
-/
import Ioc.SemIocRun
import IocProofs.Lemmas.GoTactics
set_option linter.unusedSimpArgs false
namespace Ioc.Sem
open Ioc Ioc.Go

/-- ioc.Register: one more `SetComponents(cs…)` option at the END of the package-level list; nothing is started -/
theorem iocRegister_sem (flag : String) (rf : Bool) (cs : Val) (w : IRW) :
    run (iocPrims flag rf) Progs.ioc_Register [cs] w =
      some (.tuple [], { w with reg := w.reg ++ [.tuple [.str "SetComponents", cs]] }) := by
  go_simp [Progs.ioc_Register, iocPrims, iocFn]

/-- ioc.Run: ONE App, started with the options of the call FIRST and then everything that was registered — so an option of
    the call (a registry, a factory, a configure) is in place before the registered components are added -/
theorem iocRun_sem (flag : String) (rf : Bool) (ops : List Val) (w : IRW) :
    run (iocPrims flag rf) Progs.ioc_Run [.list ops] w =
      some (if rf then .tuple [.nil, .str "error"] else .tuple [.ref 0 1, .nil],
            { w with started := w.started ++ [ops ++ w.reg] }) := by
  by_cases hf : flag = ""
  · cases rf <;> go_simp [Progs.ioc_Run, iocPrims, iocFn, hf]
  · have hf' : (flag == "") = false := by simpa using hf
    cases rf <;> go_simp [Progs.ioc_Run, iocPrims, iocFn, hf, hf']

end Ioc.Sem
