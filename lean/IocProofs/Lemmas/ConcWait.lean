/-
  Closers that wait for each other (scenario `closew`): the scheduler under that environment (`fireW`, `scheduleW`) only
  takes steps of the fork/join system, and — one goroutine per closer — all workers can be inside their call at the
  same moment: after main has spawned everybody, the workers walk into their call one after the other and nobody has to
  return first.
-/
import IocProofs.Lemmas.ConcPaths

namespace Ioc.Conc
open WPc

theorem fireW_sound (cfg : FanCfg) (n : Nat) (fails fast : Nat → Bool) (s s' : St) (a : Act)
    (h : fireW cfg n fails fast s a = some s') : Step cfg n fails s s' := by
  cases a with
  | main => exact fire_sound cfg n fails s s' .main h
  | w i =>
    simp only [fireW] at h
    split at h
    · cases h
    · exact fire_sound cfg n fails s s' (.w i) h

theorem scheduleW_sound (cfg : FanCfg) (n : Nat) (fails fast : Nat → Bool) :
    ∀ (fuel seed : Nat) (s : St), Steps cfg n fails s (scheduleW cfg n fails fast fuel seed s) := by
  intro fuel
  induction fuel with
  | zero => intro seed s; exact Steps.refl s
  | succ fuel ih =>
    intro seed s
    simp only [scheduleW]
    split
    · exact Steps.refl s
    · split
      · rename_i s' hs'
        obtain ⟨a, _, ha⟩ := List.exists_of_findSome?_eq_some hs'
        exact Steps.trans (Steps.tail s s s' (Steps.refl s) (fireW_sound cfg n fails fast s s' a ha)) (ih _ s')
      · exact Steps.refl s

/-- the workers 0 … k-1, all spawned and not yet scheduled, walk into their call one after the other; none of them
    returns, nothing else moves -/
theorem workers_enter (cfg : FanCfg) (n : Nat) (fails : Nat → Bool) :
    ∀ (k : Nat) (s : St), (∀ j, j < k → s.wpc j = .ready) →
      ∃ s', Steps cfg n fails s s' ∧ (∀ j, j < k → s'.wpc j = .calling) ∧ (∀ j, k ≤ j → s'.wpc j = s.wpc j) ∧
        s'.mainPc = s.mainPc ∧ s'.spawned = s.spawned := by
  intro k
  induction k with
  | zero => intro s _; exact ⟨s, Steps.refl s, fun j hj => by omega, fun _ _ => rfl, rfl, rfl⟩
  | succ k ih =>
    intro s hr
    obtain ⟨s1, hs1, hin1, hrest1, hpc1, hsp1⟩ := ih s (fun j hj => hr j (by omega))
    have hk : s1.wpc k = .ready := by rw [hrest1 k (Nat.le_refl _)]; exact hr k (by omega)
    obtain ⟨s2, h2, q2, _, o2⟩ := worker_step_frame cfg n fails s1 k .started s1.mu (hk ▸ WStep.start s1.mu)
    obtain ⟨s3, h3, q3, _, o3⟩ := worker_step_frame cfg n fails s2 k .calling s2.mu (q2 ▸ WStep.callBegin s2.mu)
    have o := o2.trans o3
    refine ⟨s3, Steps.tail _ _ _ (Steps.tail _ _ _ hs1 h2) h3, ?_, ?_, by rw [o.pc, hpc1], by rw [o.sp, hsp1]⟩
    · intro j hj
      by_cases hjk : j = k
      · subst hjk; exact q3
      · rw [o.wpc j hjk]; exact hin1 j (by omega)
    · intro j hj
      rw [o.wpc j (by omega)]; exact hrest1 j (by omega)

end Ioc.Conc
