/-
  Semantic theorems for the REGENERATED tag-argument functions (interpretation: Ioc.SemArgs).
-/
import Ioc.SemArgs
import IocProofs.Lemmas.GoTactics
set_option linter.unusedSimpArgs false
namespace Ioc.Sem
open Ioc Ioc.Go

section args
variable (o : StrOps)

/-- formatArgType: the first character in upper case, the rest as it is -/
theorem argFmt_sem (k : String) (w : AM) :
    run (argPrims o) Progs.arg_formatArgType [.str k] w = some (.str (o.upper (o.takeS k 1) ++ o.dropS k 1), w) := by
  go_simp [Progs.arg_formatArgType, argPrims, argFn]

/-- Set: nothing for the empty name; else the formatted name holds EXACTLY the given values (an earlier entry is replaced) -/
theorem argSet_sem (k : String) (vs : List String) (w : AM) :
    run (argPrims o) Progs.arg_Set [.str k, strsVal vs] w =
      some (.tuple [], if k = "" then w else amSet (o.fmtKey k) vs w) := by
  by_cases hk : k = ""
  · go_simp [Progs.arg_Set, argPrims, argFn, hk]
  · have hk' : (k == "") = false := by simpa using hk
    go_simp [Progs.arg_Set, argPrims, argFn, hk, hk', strsVal, valStrs_map]

/-- Add: nothing for the empty name; else the values are appended to what the formatted name holds -/
theorem argAdd_sem (k : String) (vs : List String) (w : AM) :
    run (argPrims o) Progs.arg_Add [.str k, strsVal vs] w =
      some (.tuple [], if k = "" then w else amSet (o.fmtKey k) ((amGet (o.fmtKey k) w).getD [] ++ vs) w) := by
  by_cases hk : k = ""
  · go_simp [Progs.arg_Add, argPrims, argFn, hk]
  · have hk' : (k == "") = false := by simpa using hk
    cases hg : amGet (o.fmtKey k) w with
    | none => go_simp [Progs.arg_Add, argPrims, argFn, hk, hk', hg, strsVal, valStrs_map]
    | some l =>
      have h1 : valStrs (l.map Val.str ++ vs.map Val.str) = l ++ vs := by
        rw [← List.map_append, valStrs_map]
      go_simp [Progs.arg_Add, argPrims, argFn, hk, hk', hg, strsVal, h1]

/-- Find: the values stored under the formatted name, exactly as stored (empty items included), and whether there are any -/
theorem argFind_sem (k : String) (w : AM) :
    run (argPrims o) Progs.arg_Find [.str k] w =
      some (match amGet (o.fmtKey k) w with
            | some l => .tuple [strsVal l, .bool true]
            | none => .tuple [.nil, .bool false], w) := by
  cases hg : amGet (o.fmtKey k) w <;> go_simp [Progs.arg_Find, argPrims, argFn, hg]

/-- Has: the name is stored and (no value is asked for, or one of the wanted values is among the stored ones) -/
theorem argHas_sem (k : String) (wants : List String) (w : AM) :
    run (argPrims o) Progs.arg_Has [.str k, strsVal wants] w =
      some (.bool (match amGet (o.fmtKey k) w with
                   | none => false
                   | some l => wants.isEmpty || l.any (fun x => wants.contains x)), w) := by
  cases hg : amGet (o.fmtKey k) w with
  | none => go_simp [Progs.arg_Has, argPrims, argFn, hg]
  | some l =>
    cases wants with
    | nil => go_simp [Progs.arg_Has, argPrims, argFn, hg, strsVal]
    | cons x rest =>
      have h1 := valStrs_map l
      have h2 := valStrs_map (x :: rest)
      simp only [List.map_cons] at h2
      go_simp [Progs.arg_Has, argPrims, argFn, hg, strsVal, h1, h2, natCast_succ_beq_zero]

end args
/-! isIntersect: nested loops -/
section inter

def iiBody : List Stmt := match Progs.arg_isIntersect.body with | [.range _ _ _ b, _] => b | _ => []
theorem ii_shape : Progs.arg_isIntersect.body = [.range "_" "a2" (.var "a") iiBody, .ret [.bool false]] := rfl
def iiInner : List Stmt := match iiBody with | [.range _ _ _ b] => b | _ => []
theorem iiBody_shape : iiBody = [.range "_" "b2" (.var "b") iiInner] := rfl

def noPrims : Prims Unit := { fn := fun _ _ _ => none }

def envII (a b : List String) : Env := [("a", strsVal a), ("b", strsVal b)]

def innerStep (x : String) (y : String) (_ : Unit) (w : Unit) : Unit × Unit × Option Val :=
  ((), w, if x == y then some (.bool true) else none)

theorem innerStep_loop (x : String) (ys : List String) :
    stepLoop (innerStep x) ys () () = ((), (), if ys.contains x then some (.bool true) else none) := by
  induction ys with
  | nil => rfl
  | cons y rest ih =>
    simp only [stepLoop, innerStep, List.contains_cons]
    by_cases h : x = y
    · simp [h]
    · have h' : (x == y) = false := by simpa using h
      simp only [h', Bool.false_eq_true, if_false, Bool.false_or]
      exact ih

def outerStep (b : List String) (x : String) (_ : Unit) (w : Unit) : Unit × Unit × Option Val :=
  ((), w, if b.contains x then some (.bool true) else none)

theorem outerStep_loop (b : List String) (xs : List String) :
    stepLoop (outerStep b) xs () () = ((), (), if xs.any (fun x => b.contains x) then some (.bool true) else none) := by
  induction xs with
  | nil => rfl
  | cons x rest ih =>
    simp only [stepLoop, outerStep, List.any_cons]
    by_cases h : x ∈ b
    · simp [h]
    · have h' : b.contains x = false := by simpa using h
      simp only [h', Bool.false_eq_true, if_false, Bool.false_or]
      exact ih

/-- one round of the outer loop: the inner loop over b -/
theorem ii_outer_iter (a b : List String) (i : Nat) (x : String) (w : Unit) :
    (evalB noPrims (Env.def (Env.def (envII a b) "_" (.int i)) "a2" (.str x)) w iiBody).map
        (fun (e', w'', ctl) => (Env.leave e' (envII a b).length, w'', ctl)) =
      some (envII a b, (outerStep b x () w).2.1, ctlOf (outerStep b x () w).2.2) := by
  rw [iiBody_shape, evalB_cons]
  simp only [evalS]
  have henv : Env.def (Env.def (envII a b) "_" (.int i)) "a2" (.str x) = ("a2", .str x) :: envII a b := rfl
  rw [henv]
  have hcoll : evalE noPrims (("a2", Val.str x) :: envII a b) w (.var "b") = some (.list (b.map Val.str), w) := by
    go_simp [envII, strsVal]
  rw [hcoll]; simp only []
  have := loopM_state Val.str
    (fun j y e w' => (evalB noPrims (Env.def (Env.def e "_" (.int j)) "b2" y) w' iiInner).map
      (fun (e', w'', ctl) => (Env.leave e' e.length, w'', ctl)))
    (fun (_ : Unit) => ("a2", Val.str x) :: envII a b) (innerStep x)
    (by intro j y t w'
        by_cases h : x = y
        · go_simp [iiInner, iiBody, Progs.arg_isIntersect, envII, innerStep, ctlOf, h]
        · have h' : (x == y) = false := by simpa using h
          go_simp [iiInner, iiBody, Progs.arg_isIntersect, envII, innerStep, ctlOf, h, h'])
    b 0 () w
  rw [this, innerStep_loop]
  by_cases hc : x ∈ b <;> go_simp [outerStep, ctlOf, envII, hc]

/-- isIntersect: some element of the first list is an element of the second -/
theorem argIsIntersect_sem (a b : List String) :
    run noPrims Progs.arg_isIntersect [strsVal a, strsVal b] () = some (.bool (a.any (fun x => b.contains x)), ()) := by
  simp only [run, ii_shape, show Progs.arg_isIntersect.params = ["a", "b"] from rfl, List.length_cons, List.length_nil, if_true,
    List.zip_cons_cons, List.zip_nil_right]
  rw [evalB_cons]
  simp only [evalS]
  rw [show ([("a", strsVal a), ("b", strsVal b)] : Env) = envII a b from rfl]
  have hcoll : evalE noPrims (envII a b) () (.var "a") = some (.list (a.map Val.str), ()) := by go_simp [envII, strsVal]
  rw [hcoll]; simp only []
  have := loopM_state Val.str
    (fun i x e w' => (evalB noPrims (Env.def (Env.def e "_" (.int i)) "a2" x) w' iiBody).map
      (fun (e', w'', ctl) => (Env.leave e' e.length, w'', ctl)))
    (fun (_ : Unit) => envII a b) (outerStep b) (fun i x _ w' => ii_outer_iter a b i x w') a 0 () ()
  rw [this, outerStep_loop]
  cases a.any (fun x => b.contains x) <;> go_simp [ctlOf]

end inter

/-! Parse -/
section parse
variable (o : StrOps)

def paBody : List Stmt := match Progs.arg_Parse.body with | [_, _, _, _, .range _ _ _ b, _] => b | _ => []
def paPre : List Stmt := Progs.arg_Parse.body.take 4
theorem pa_shape : Progs.arg_Parse.body = paPre ++ [.range "_" "exp" (.var "exps") paBody, .ret [.var "tag"]] := rfl

def envPA (o : StrOps) (tag : String) : Env :=
  [("exps", strsVal (o.splitC tag).2), ("parts", strsVal ((o.splitC tag).1 :: (o.splitC tag).2)), ("tag", .str (o.splitC tag).1)]

def paStep (exp : String) (_ : Unit) (w : SetLog) : Unit × SetLog × Option Val := ((), w ++ [parseArg o exp], none)

theorem paStep_loop (es : List String) (w : SetLog) :
    stepLoop (paStep o) es () w = ((), w ++ es.map (parseArg o), none) := by
  induction es generalizing w with
  | nil => simp [stepLoop]
  | cons e rest ih => simp [stepLoop, paStep, ih, List.append_assoc]

theorem pa_iter (tag : String) (i : Nat) (exp : String) (w : SetLog) :
    ∃ c, (evalB (parsePrims o) (Env.def (Env.def (envPA o tag) "_" (.int i)) "exp" (.str exp)) w paBody).map
        (fun (e', w'', ctl) => (Env.leave e' (envPA o tag).length, w'', ctl)) =
      some (envPA o tag, (paStep o exp () w).2.1, c) ∧ CtlMatches c (paStep o exp () w).2.2 := by
  cases hi : o.indexEq exp with
  | none =>
    refine ⟨.cont, ?_, Or.inl ⟨rfl, Or.inr rfl⟩⟩
    go_simp [paBody, Progs.arg_Parse, parsePrims, parseFn, envPA, paStep, parseArg, hi]
  | some k =>
    refine ⟨.norm, ?_, Or.inl ⟨rfl, Or.inl rfl⟩⟩
    have h1 : ((k : Int) == -1) = false := by
      have : ¬ (k : Int) = -1 := by omega
      simpa using this
    have h2 : ((k : Int) + 1).toNat = k + 1 := by omega
    go_simp [paBody, Progs.arg_Parse, parsePrims, parseFn, envPA, paStep, parseArg, hi, h1, h2, strsVal, valStrs_map]

/-- Parse: the text before the first top-level comma is the value part; every further part is ONE argument — without `=` the
    bare name with the single empty value, else the name before the first `=` and the blank-separated values behind it — handed
    to Set in the order written -/
theorem argParse_sem (tag : String) (w : SetLog) :
    run (parsePrims o) Progs.arg_Parse [.str tag] w =
      some (.str (o.splitC tag).1, w ++ (o.splitC tag).2.map (parseArg o)) := by
  simp only [run, pa_shape, show Progs.arg_Parse.params = ["tag"] from rfl, List.length_cons, List.length_nil, if_true,
    List.zip_cons_cons, List.zip_nil_right]
  rw [evalB_append]
  cases ht : (o.splitC tag).2 with
  | nil =>
    have hpre : evalB (parsePrims o) [("tag", Val.str tag)] w paPre =
        some ([("parts", strsVal [(o.splitC tag).1]), ("tag", .str (o.splitC tag).1)], w, .ret (.str (o.splitC tag).1)) := by
      go_simp [paPre, Progs.arg_Parse, parsePrims, parseFn, strsVal, ht]
    rw [hpre]
    simp
  | cons e rest =>
    have hlen : (((rest.length : Int) + 1 + 1) == 1) = false := by
      have : ¬ ((rest.length : Int) + 1 + 1) = 1 := by omega
      simpa using this
    have hpre : evalB (parsePrims o) [("tag", Val.str tag)] w paPre = some (envPA o tag, w, .norm) := by
      go_simp [paPre, Progs.arg_Parse, parsePrims, parseFn, strsVal, envPA, ht, hlen]
    rw [hpre]
    simp only []
    rw [evalB_cons]
    simp only [evalS]
    have hcoll : evalE (parsePrims o) (envPA o tag) w (.var "exps") = some (.list ((e :: rest).map Val.str), w) := by
      go_simp [envPA, strsVal, ht]
    rw [hcoll]; simp only []
    have := loopM_state_cont Val.str
      (fun i x en w' => (evalB (parsePrims o) (Env.def (Env.def en "_" (.int i)) "exp" x) w' paBody).map
        (fun (e', w'', ctl) => (Env.leave e' en.length, w'', ctl)))
      (fun (_ : Unit) => envPA o tag) (paStep o) (fun i x _ w' => pa_iter o tag i x w') (e :: rest) 0 () w
    rw [this, paStep_loop]
    go_simp [ctlOf, envPA]

end parse

end Ioc.Sem
