/-
  The basic invariants of the factory machine needed by C05 / C09 / C13, proved over the step relation of M2Step:
  * `Inv`     — names in creation are distinct, not published, hold an early entry (l2 or l3); names not in creation
                hold none; a state that is not running has an empty stack; `done` has empty work lists.
  * `TodoInv` — the work lists are a suffix of boot ++ eager and every name already taken off is published (or is the
                bottom frame, or the start has failed).
-/
import IocProofs.Lemmas.M2Step
namespace Ioc.M2.Lc
open Ioc.M2

def Failed (st : St) : Prop := ∃ x s, st.status = .failed x s

structure Inv (sc : Scen) (st : St) : Prop where
  nodup : (snames st).Nodup
  l1_off : ∀ n ∈ snames st, st.l1 n = none
  on_has : ∀ n ∈ snames st, st.l2 n ≠ none ∨ st.l3 n = true
  off_clean : ∀ n, n ∉ snames st → st.l2 n = none ∧ st.l3 n = false
  quiet : st.status ≠ .running → st.stack = []
  doneE : st.status = .done → st.todoBoot = [] ∧ st.todo = []

theorem inv_init (sc : Scen) : Inv sc (init sc) := by
  constructor <;> simp [init, snames]

theorem inv_failAt (sc : Scen) (st : St) (n : Nat) (hi : Inv sc st) (_hr : st.status = .running) :
    Inv sc (failAt st n) := by
  constructor
  · simp
  · simp
  · simp
  · intro x _
    by_cases hx : x ∈ snames st
    · simp [failAt, (onStack_iff st x).2 hx]
    · have := hi.off_clean x hx
      simp [failAt, this]
  · intro _; rfl
  · intro h; simp [failAt] at h

/-- a lookup miss means the name is not in creation -/
theorem Inv.miss_off {sc : Scen} {st : St} (hi : Inv sc st) (c : Nat) (h2 : st.l2 c = none) (h3 : st.l3 c = false) :
    c ∉ snames st := by
  intro hc
  rcases hi.on_has c hc with h | h
  · exact h h2
  · rw [h3] at h; cases h

theorem inv_src {sc : Scen} {st st0 : St} {c : Nat} (src : Src sc st st0 c) (hi : Inv sc st)
    (hr : st.status = .running) : Inv sc st0 ∧ st0.status = .running := by
  cases src with
  | boot n t hs hb =>
    refine ⟨⟨hi.nodup, hi.l1_off, hi.on_has, hi.off_clean, hi.quiet, ?_⟩, hr⟩
    intro h; rw [hr] at h; cases h
  | todo n t hs hb ht =>
    refine ⟨⟨hi.nodup, hi.l1_off, hi.on_has, hi.off_clean, hi.quiet, ?_⟩, hr⟩
    intro h; rw [hr] at h; cases h
  | cand f rest hs hp hd => exact ⟨hi, hr⟩

theorem inv_push (sc : Scen) (st : St) (c : Nat) (hi : Inv sc st) (hr : st.status = .running)
    (h1 : st.l1 c = none) (h2 : st.l2 c = none) (h3 : st.l3 c = false) : Inv sc (push st c) := by
  have hoff := hi.miss_off c h2 h3
  constructor
  · simp [hoff, hi.nodup]
  · intro n hn
    simp at hn
    rcases hn with rfl | hn
    · exact h1
    · exact hi.l1_off n hn
  · intro n hn
    simp at hn
    by_cases hnc : n = c
    · subst hnc; right; simp [push]
    · rcases hn with rfl | hn
      · exact absurd rfl hnc
      · simpa [push, hnc] using hi.on_has n hn
  · intro n hn
    simp at hn
    simpa [push, hn.1] using hi.off_clean n hn.2
  · intro h; exact absurd hr h
  · intro h; change st.status = .done at h; rw [hr] at h; cases h

theorem inv_addLog (sc : Scen) (st : St) (n : Nat) (e : Ev) (hi : Inv sc st) : Inv sc (addLog sc st n e) := by
  constructor
  · simpa using hi.nodup
  · simpa using hi.l1_off
  · simpa using hi.on_has
  · simpa using hi.off_clean
  · simpa using hi.quiet
  · simpa using hi.doneE

theorem inv_of_same {sc : Scen} {a b : St} (h : SameButLog a b) (hi : Inv sc b) : Inv sc a := by
  have hs : snames a = snames b := by simp [snames, h.stack]
  constructor
  · rw [hs]; exact hi.nodup
  · rw [hs, h.l1]; exact hi.l1_off
  · rw [hs, h.l2, h.l3]; exact hi.on_has
  · rw [hs, h.l2, h.l3]; exact hi.off_clean
  · rw [h.status, h.stack]; exact hi.quiet
  · rw [h.status, h.todoBoot, h.todo]; exact hi.doneE

/-- replacing the top frame by a frame of the same name (and writing a field) -/
theorem inv_top (sc : Scen) (st : St) (stk : List Frame) (flds : Nat → Nat → List Obj) (hi : Inv sc st)
    (hs : stk.map (·.name) = snames st) : Inv sc { st with stack := stk, fields := flds } := by
  have hs' : snames { st with stack := stk, fields := flds } = snames st := hs
  constructor
  · rw [hs']; exact hi.nodup
  · rw [hs']; exact hi.l1_off
  · rw [hs']; exact hi.on_has
  · rw [hs']; exact hi.off_clean
  · intro h
    have := hi.quiet h
    simp [snames, this] at hs
    simp [hs]
  · exact hi.doneE

theorem inv_publish (sc : Scen) (st : St) (f : Frame) (rest : List Frame) (pub : Obj) (hi : Inv sc st)
    (hr : st.status = .running) (hs : st.stack = f :: rest) : Inv sc (publish st f.name pub rest) := by
  have hsn : snames st = f.name :: rest.map (·.name) := by simp [snames, hs]
  have hnd := hi.nodup
  rw [hsn] at hnd
  have hnd' := List.nodup_cons.mp hnd
  constructor
  · simp [hnd'.2]
  · intro n hn
    simp only [snames_publish] at hn
    have hne : n ≠ f.name := by intro h; subst h; exact hnd'.1 hn
    simpa [publish, hne] using hi.l1_off n (by rw [hsn]; simp [hn])
  · intro n hn
    simp only [snames_publish] at hn
    have hne : n ≠ f.name := by intro h; subst h; exact hnd'.1 hn
    simpa [publish, hne] using hi.on_has n (by rw [hsn]; simp [hn])
  · intro n hn
    simp only [snames_publish] at hn
    by_cases hne : n = f.name
    · subst hne; simp [publish]
    · simpa [publish, hne] using hi.off_clean n (by rw [hsn]; simp [hn, hne])
  · intro h; exact absurd hr h
  · intro h; change st.status = .done at h; rw [hr] at h; cases h

theorem inv_stepR (sc : Scen) (st st' : St) (hi : Inv sc st) (hr : st.status = .running) (h : StepR sc st st') :
    Inv sc st' := by
  cases h with
  | done hs hb ht =>
    refine ⟨hi.nodup, hi.l1_off, hi.on_has, hi.off_clean, fun _ => hs, fun _ => ⟨hb, ht⟩⟩
  | hit st0 c src o h =>
    obtain ⟨hi0, hr0⟩ := inv_src src hi hr
    have := inv_top sc st0 (bump st0.stack o) st0.fields hi0 (by simp [snames])
    exact this
  | promote st0 c src h1 h2 h3 hf =>
    obtain ⟨hi0, hr0⟩ := inv_src src hi hr
    have hc : c ∈ snames st0 := by
      apply Classical.byContradiction; intro hc
      have := (hi0.off_clean c hc).2; rw [h3] at this; cases this
    constructor
    · simpa [snames] using hi0.nodup
    · simpa [snames] using hi0.l1_off
    · intro n hn
      have hn' : n ∈ snames st0 := by simpa [snames] using hn
      by_cases hnc : n = c
      · subst hnc; left; simp
      · simpa [hnc] using hi0.on_has n hn'
    · intro n hn
      have hn' : n ∉ snames st0 := by simpa [snames] using hn
      have hnc : n ≠ c := by intro h; subst h; exact hn' hc
      simpa [hnc] using hi0.off_clean n hn'
    · intro h; simp at h; exact absurd hr0 h
    · intro h; simp at h; rw [hr0] at h; cases h
  | earlyFail st0 c src h1 h2 h3 hf =>
    obtain ⟨hi0, hr0⟩ := inv_src src hi hr
    exact inv_failAt sc _ c (inv_addLog sc st0 c _ hi0) (by simpa using hr0)
  | unknown st0 c src h1 h2 h3 hn =>
    obtain ⟨hi0, hr0⟩ := inv_src src hi hr
    exact inv_failAt sc _ c hi0 hr0
  | enterU st0 c src h1 h2 h3 hn hw =>
    obtain ⟨hi0, hr0⟩ := inv_src src hi hr
    exact inv_push sc st0 c hi0 hr0 h1 h2 h3
  | enterFail st0 c src h1 h2 h3 hn hw hbad =>
    obtain ⟨hi0, hr0⟩ := inv_src src hi hr
    exact inv_failAt sc _ c (inv_addLog sc _ c _ (inv_push sc st0 c hi0 hr0 h1 h2 h3)) (by simpa [push] using hr0)
  | enterW st0 c src h1 h2 h3 hn hw hcfg hpts =>
    obtain ⟨hi0, hr0⟩ := inv_src src hi hr
    exact inv_addLog sc _ c _ (inv_addLog sc _ c _ (inv_push sc st0 c hi0 hr0 h1 h2 h3))
  | advance f rest hs hp hd hwhy =>
    exact inv_top sc st (advance f :: rest) st.fields hi (by simp [snames, hs, advance])
  | injFail f rest hs hp hd hne hreq hwhy => exact inv_failAt sc st _ hi hr
  | write f rest hs hp hd hne hm hc =>
    exact inv_top sc st (advance f :: rest) _ hi (by simp [snames, hs, advance])
  | cbFail f rest hs hp hcb =>
    exact inv_failAt sc _ _ (inv_of_same (initCallbacks_same sc st f.name) hi) (by simpa using hr)
  | stale f rest hs hp hcb e he hw hh =>
    exact inv_failAt sc _ _ (inv_of_same (initCallbacks_same sc st f.name) hi) (by simpa using hr)
  | publish f rest hs hp hcb pub hpub =>
    exact inv_publish sc _ f rest pub (inv_of_same (initCallbacks_same sc st f.name) hi) (by simpa using hr)
      (by simpa using hs)

theorem inv_step (sc : Scen) (st : St) (hi : Inv sc st) : Inv sc (step sc st) :=
  step_inv_of_rel sc (Inv sc) (fun st st' hi hr h => inv_stepR sc st st' hi hr h) st hi

theorem inv_run (sc : Scen) (k : Nat) : Inv sc (run sc k (init sc)) :=
  run_inv sc (Inv sc) (inv_step sc) k _ (inv_init sc)

/-! ### the work lists -/

/-- `pre` = the names already taken off the work lists; `c` = the one being visited right now (only when the stack is empty) -/
def Pending (sc : Scen) (st : St) (c : Nat) : Prop :=
  ∃ pre, sc.boot ++ sc.eager = pre ++ (st.todoBoot ++ st.todo) ∧
    ∀ n ∈ pre, st.l1 n ≠ none ∨ (snames st).getLast? = some n ∨ Failed st ∨ (st.stack = [] ∧ n = c)

def TodoInv (sc : Scen) (st : St) : Prop :=
  ∃ pre, sc.boot ++ sc.eager = pre ++ (st.todoBoot ++ st.todo) ∧
    ∀ n ∈ pre, st.l1 n ≠ none ∨ (snames st).getLast? = some n ∨ Failed st

theorem todo_init (sc : Scen) : TodoInv sc (init sc) := ⟨[], by simp [init], by simp⟩

theorem TodoInv.pending {sc : Scen} {st : St} (h : TodoInv sc st) (c : Nat) : Pending sc st c := by
  obtain ⟨pre, he, hp⟩ := h
  refine ⟨pre, he, fun n hn => ?_⟩
  rcases hp n hn with h | h | h
  · exact Or.inl h
  · exact Or.inr (Or.inl h)
  · exact Or.inr (Or.inr (Or.inl h))

theorem pending_src {sc : Scen} {st st0 : St} {c : Nat} (src : Src sc st st0 c) (h : TodoInv sc st) :
    Pending sc st0 c := by
  cases src with
  | boot n t hs hb =>
    obtain ⟨pre, he, hp⟩ := h
    refine ⟨pre ++ [c], by simp [he, hb], fun m hm => ?_⟩
    simp at hm
    rcases hm with hm | rfl
    · rcases hp m hm with h | h | h
      · exact Or.inl h
      · exact Or.inr (Or.inl h)
      · exact Or.inr (Or.inr (Or.inl h))
    · exact Or.inr (Or.inr (Or.inr ⟨hs, rfl⟩))
  | todo n t hs hb ht =>
    obtain ⟨pre, he, hp⟩ := h
    refine ⟨pre ++ [c], by simp [he, hb, ht], fun m hm => ?_⟩
    simp at hm
    rcases hm with hm | rfl
    · rcases hp m hm with h | h | h
      · exact Or.inl h
      · exact Or.inr (Or.inl h)
      · exact Or.inr (Or.inr (Or.inl h))
    · exact Or.inr (Or.inr (Or.inr ⟨hs, rfl⟩))
  | cand f rest hs hp hd => exact h.pending _

theorem todo_mono (sc : Scen) (st0 st' : St) (c : Nat) (hp : Pending sc st0 c)
    (hb : st'.todoBoot = st0.todoBoot) (ht : st'.todo = st0.todo)
    (h1 : ∀ n, st0.l1 n ≠ none → st'.l1 n ≠ none)
    (hl : ∀ n, (snames st0).getLast? = some n → st'.l1 n ≠ none ∨ (snames st').getLast? = some n ∨ Failed st')
    (hf : Failed st0 → Failed st')
    (hc : st0.stack = [] → st'.l1 c ≠ none ∨ (snames st').getLast? = some c ∨ Failed st') : TodoInv sc st' := by
  obtain ⟨pre, he, hpre⟩ := hp
  refine ⟨pre, by rw [hb, ht]; exact he, fun n hn => ?_⟩
  rcases hpre n hn with h | h | h | ⟨h, rfl⟩
  · exact Or.inl (h1 n h)
  · exact hl n h
  · exact Or.inr (Or.inr (hf h))
  · exact hc h

theorem failed_failAt (st : St) (n : Nat) : Failed (failAt st n) := ⟨n, st.stage, rfl⟩

theorem todo_fail (sc : Scen) (st0 s : St) (c x : Nat) (hp : Pending sc st0 c)
    (hb : s.todoBoot = st0.todoBoot) (ht : s.todo = st0.todo) (h1 : s.l1 = st0.l1) : TodoInv sc (failAt s x) :=
  todo_mono sc st0 _ c hp hb ht (fun n h => by simpa [failAt, h1] using h)
    (fun _ _ => Or.inr (Or.inr (failed_failAt s x))) (fun _ => failed_failAt s x)
    (fun _ => Or.inr (Or.inr (failed_failAt s x)))

theorem getLast?_cons_of_ne {α} (a : α) (l : List α) (h : l ≠ []) : (a :: l).getLast? = l.getLast? := by
  cases l with
  | nil => exact absurd rfl h
  | cons b t => simp [List.getLast?_cons_cons]

theorem todo_push (sc : Scen) (st0 s : St) (c : Nat) (hp : Pending sc st0 c)
    (hb : s.todoBoot = st0.todoBoot) (ht : s.todo = st0.todo) (h1 : s.l1 = st0.l1)
    (hs : snames s = c :: snames st0) (hst : s.status = st0.status) : TodoInv sc s := by
  refine todo_mono sc st0 s c hp hb ht (fun n h => by simpa [h1] using h) ?_ ?_ ?_
  · intro n hn
    right; left
    rw [hs, getLast?_cons_of_ne]
    · exact hn
    · intro h; rw [h] at hn; cases hn
  · intro ⟨x, g, h⟩; exact ⟨x, g, by rw [hst]; exact h⟩
  · intro h0
    right; left
    rw [hs]; simp [snames, h0]

theorem todo_stepR (sc : Scen) (st st' : St) (hi : Inv sc st) (ht : TodoInv sc st) (hr : st.status = .running)
    (h : StepR sc st st') : TodoInv sc st' := by
  have nf : ∀ s : St, s.status = .running → ¬ Failed s := by
    intro s h ⟨x, g, h'⟩; rw [h] at h'; cases h'
  cases h with
  | done hs hb ht' =>
    obtain ⟨pre, he, hp⟩ := ht
    refine ⟨pre, he, fun n hn => ?_⟩
    rcases hp n hn with h | h | h
    · exact Or.inl h
    · exact Or.inr (Or.inl h)
    · exact absurd h (nf st hr)
  | hit st0 c src o h =>
    obtain ⟨hi0, hr0⟩ := inv_src src hi hr
    refine todo_mono sc st0 _ c (pending_src src ht) rfl rfl (fun n h => h) ?_ ?_ ?_
    · intro n hn; right; left; simpa using hn
    · intro h; exact absurd h (nf st0 hr0)
    · intro h0
      left
      rcases h with h | ⟨_, h⟩
      · simp [h]
      · have := (hi0.off_clean c (by simp [snames, h0])).1
        rw [this] at h; cases h
  | promote st0 c src h1 h2 h3 hf =>
    obtain ⟨hi0, hr0⟩ := inv_src src hi hr
    refine todo_mono sc st0 _ c (pending_src src ht) (by simp) (by simp) (fun n h => by simpa using h) ?_ ?_ ?_
    · intro n hn; right; left; simpa [snames] using hn
    · intro h; exact absurd h (nf st0 hr0)
    · intro h0
      have := (hi0.off_clean c (by simp [snames, h0])).2
      rw [this] at h3; cases h3
  | earlyFail st0 c src h1 h2 h3 hf => exact todo_fail sc st0 _ c c (pending_src src ht) (by simp) (by simp) (by simp)
  | unknown st0 c src h1 h2 h3 hn => exact todo_fail sc st0 _ c c (pending_src src ht) rfl rfl rfl
  | enterU st0 c src h1 h2 h3 hn hw =>
    exact todo_push sc st0 _ c (pending_src src ht) rfl rfl rfl rfl rfl
  | enterFail st0 c src h1 h2 h3 hn hw hbad =>
    exact todo_fail sc st0 _ c c (pending_src src ht) (by simp [push]) (by simp [push]) (by simp [push])
  | enterW st0 c src h1 h2 h3 hn hw hcfg hpts =>
    exact todo_push sc st0 _ c (pending_src src ht) (by simp [push]) (by simp [push]) (by simp [push])
      (by simp) (by simp [push])
  | advance f rest hs hp hd hwhy =>
    refine todo_mono sc st _ 0 (ht.pending 0) rfl rfl (fun n h => h) ?_ (fun h => absurd h (nf st hr)) ?_
    · intro n hn; right; left; simpa [snames, hs, advance] using hn
    · intro h0; rw [hs] at h0; cases h0
  | injFail f rest hs hp hd hne hreq hwhy => exact todo_fail sc st st 0 _ (ht.pending 0) rfl rfl rfl
  | write f rest hs hp hd hne hm hc =>
    refine todo_mono sc st _ 0 (ht.pending 0) rfl rfl (fun n h => h) ?_ (fun h => absurd h (nf st hr)) ?_
    · intro n hn; right; left; simpa [snames, hs, advance] using hn
    · intro h0; rw [hs] at h0; cases h0
  | cbFail f rest hs hp hcb => exact todo_fail sc st _ 0 _ (ht.pending 0) (by simp) (by simp) (by simp)
  | stale f rest hs hp hcb e he hw hh => exact todo_fail sc st _ 0 _ (ht.pending 0) (by simp) (by simp) (by simp)
  | publish f rest hs hp hcb pub hpub =>
    refine todo_mono sc st _ 0 (ht.pending 0) (by simp [publish]) (by simp [publish]) ?_ ?_
      (fun h => absurd h (nf st hr)) ?_
    · intro n hn
      by_cases hnf : n = f.name
      · subst hnf; simp [publish]
      · simpa [publish, hnf] using hn
    · intro n hn
      simp only [snames, hs, List.map_cons] at hn
      cases rest with
      | nil =>
        simp at hn; subst hn
        left; simp [publish]
      | cons g rest' =>
        right; left
        rw [getLast?_cons_of_ne _ _ (by simp)] at hn
        simpa [publish, snames] using hn
    · intro h0; rw [hs] at h0; cases h0

theorem todo_step (sc : Scen) (st : St) (hi : Inv sc st ∧ TodoInv sc st) :
    Inv sc (step sc st) ∧ TodoInv sc (step sc st) :=
  step_inv_of_rel sc (fun s => Inv sc s ∧ TodoInv sc s)
    (fun st st' hi hr h => ⟨inv_stepR sc st st' hi.1 hr h, todo_stepR sc st st' hi.1 hi.2 hr h⟩) st hi

theorem todo_run (sc : Scen) (k : Nat) : TodoInv sc (run sc k (init sc)) :=
  (run_inv sc (fun s => Inv sc s ∧ TodoInv sc s) (todo_step sc) k _ ⟨inv_init sc, todo_init sc⟩).2

/-- the container is ready: in a `done` state every boot and every eager name is published -/
theorem done_all_published (sc : Scen) (k : Nat) (hd : (run sc k (init sc)).status = .done) :
    ∀ n ∈ sc.boot ++ sc.eager, (run sc k (init sc)).l1 n ≠ none := by
  have hi := inv_run sc k
  obtain ⟨pre, he, hp⟩ := todo_run sc k
  have hq := hi.quiet (by rw [hd]; intro h; cases h)
  obtain ⟨hb, ht⟩ := hi.doneE hd
  rw [hb, ht] at he
  simp at he
  intro n hn
  rw [he] at hn
  rcases hp n hn with h | h | ⟨x, g, h⟩
  · exact h
  · simp [snames, hq] at h
  · rw [hd] at h; cases h

end Ioc.M2.Lc
