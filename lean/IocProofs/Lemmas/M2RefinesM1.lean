/-
  Refinement M2 → M1: the cache moves that the factory machine (Ioc.Container) inlines are operations of the stand-alone
  registry model (Ioc.Registry), issued in the pattern of doGetComponent / GetSingletonOrCreateByFactory:
    lookup   = Reg.get c true (early)          (GetSingleton, early references allowed)
    enter    = Reg.startCreate c               (beginCreate + addFactory) after a lookup that found nothing
    publish  = Reg.endCreate n (ok pub)        (AddSingleton)
    failAt   = Reg.endCreate m (error) for every creation m in progress (RemoveSingleton, innermost first)
  `Abs st r` relates a machine state to a registry; `Proto r` = reachable from the empty registry by these operations.
  Every reachable machine state has an abstraction that satisfies `Proto`, hence `Reg.Inv` and everything C04 proves
  about protocol-conforming registries.
-/
import IocProofs.Lemmas.Registry
import IocProofs.Lemmas.M2StepInv
namespace Ioc.M2.Rf
open Ioc Ioc.M2 Ioc.M2.Lc

/-- the same identity in the vocabulary of M1 -/
def toM1 (o : M2.Obj) : Ioc.Obj := ⟨o.name, o.ver⟩

/-- what the early-reference factory of `c` returns if the lookup runs it -/
def earlyOf (sc : Scen) (c : Nat) : Except Err Ioc.Obj :=
  if sc.fEarly c then .error .fail else .ok (toM1 (sc.earlyO c))

structure Abs (st : St) (r : Reg) : Prop where
  l1 : ∀ n, r.l1? n = (st.l1 n).map toM1
  l2 : ∀ n, r.l2? n = (st.l2 n).map toM1
  l3 : ∀ n, n ∈ r.l3 ↔ st.l3 n = true
  inCr : ∀ n, n ∈ r.inCr ↔ n ∈ snames st

theorem Abs.congr {st st' : St} {r : Reg} (h : Abs st r) (e1 : st'.l1 = st.l1) (e2 : st'.l2 = st.l2)
    (e3 : st'.l3 = st.l3) (e4 : snames st' = snames st) : Abs st' r :=
  ⟨by rw [e1]; exact h.l1, by rw [e2]; exact h.l2, by rw [e3]; exact h.l3, by rw [e4]; exact h.inCr⟩

theorem abs_init (sc : Scen) : Abs (init sc) Reg.empty :=
  ⟨fun _ => rfl, fun _ => rfl, fun n => by simp [init], fun n => by simp [init, snames]⟩

/-! ### lookup = GetSingleton(name, true) -/

theorem lookup_refines (sc : Scen) (st : St) (r : Reg) (c : Nat) (h : Abs st r) :
    (∀ o st', lookup sc st c = .hit o st' →
      (r.get c true (earlyOf sc c)).1 = .ok (some (toM1 o)) ∧ Abs st' (r.get c true (earlyOf sc c)).2) ∧
    (lookup sc st c = .miss → r.get c true (earlyOf sc c) = (.ok none, r)) ∧
    (∀ st', lookup sc st c = .err st' → r.get c true (earlyOf sc c) = (.error .fail, r) ∧ Abs st' r) := by
  rcases lookup_eq sc st c with ⟨o, ho, he⟩ | ⟨h1, h2, h3, hf, he⟩ | ⟨h1, h2, h3, hf, he⟩ | ⟨h1, h2, h3, he⟩
  · have hg : r.get c true (earlyOf sc c) = (.ok (some (toM1 o)), r) := by
      rcases ho with ho | ⟨ho1, ho2⟩
      · exact Reg.get_l1 r c _ _ _ (by rw [h.l1, ho]; rfl)
      · exact Reg.get_l2 r c _ _ _ (by rw [h.l1, ho1]; rfl) (by rw [h.l2, ho2]; rfl)
    rw [he, hg]
    refine ⟨fun o' st' e => ?_, fun e => (by cases e), fun st' e => by cases e⟩
    injection e with e1 e2
    subst e1; subst e2
    exact ⟨rfl, h⟩
  · have hg : r.get c true (earlyOf sc c) = (.error .fail, r) := by
      unfold earlyOf; rw [hf]
      exact Reg.get_early_err r c _ (by rw [h.l1, h1]; rfl) (by rw [h.l2, h2]; rfl) ((h.l3 c).mpr h3)
    rw [he, hg]
    refine ⟨fun o' st' e => (by cases e), fun e => (by cases e), fun st' e => ?_⟩
    injection e with e
    subst e
    exact ⟨rfl, h.congr (by simp) (by simp) (by simp) (by simp)⟩
  · have hg : r.get c true (earlyOf sc c) =
        (.ok (some (toM1 (sc.earlyO c))), { r with l2 := aset c (toM1 (sc.earlyO c)) r.l2, l3 := sdel c r.l3 }) := by
      unfold earlyOf; rw [hf]
      exact Reg.get_early_ok r c _ (by rw [h.l1, h1]; rfl) (by rw [h.l2, h2]; rfl) ((h.l3 c).mpr h3)
    rw [he, hg]
    refine ⟨fun o' st' e => ?_, fun e => (by cases e), fun st' e => by cases e⟩
    injection e with e1 e2
    subst e1; subst e2
    refine ⟨rfl, ⟨fun n => by simpa [Reg.l1?] using h.l1 n, fun n => ?_, fun n => ?_, fun n => by simpa [snames] using h.inCr n⟩⟩
    · by_cases hn : n = c
      · subst hn; simp [Reg.l2?]
      · have := h.l2 n
        simp only [Reg.l2?] at this
        simp [Reg.l2?, hn, upd, this]
    · by_cases hn : n = c
      · subst hn; simp
      · simp [hn, upd, h.l3 n]
  · have hg : r.get c true (earlyOf sc c) = (.ok none, r) :=
      Reg.get_no_factory r c _ _ (by rw [h.l1, h1]; rfl) (by rw [h.l2, h2]; rfl)
        (fun hm => by rw [(h.l3 c).mp hm] at h3; cases h3)
    rw [he, hg]
    exact ⟨fun o' st' e => (by cases e), fun _ => rfl, fun st' e => by cases e⟩

/-! ### enter = beginCreate + addFactory -/

theorem push_refines (st : St) (r : Reg) (c : Nat) (h : Abs st r) (h1 : st.l1 c = none) :
    Abs (push st c) (r.startCreate c) := by
  have hr : r.l1? c = none := by rw [h.l1, h1]; rfl
  rw [Reg.startCreate_eq r c hr]
  refine ⟨fun n => by simpa [Reg.l1?, push] using h.l1 n, fun n => by simpa [Reg.l2?, push] using h.l2 n,
    fun n => ?_, fun n => ?_⟩
  · by_cases hn : n = c
    · subst hn; simp [push]
    · simp [push, hn, upd, h.l3 n]
  · simp [h.inCr n]

/-! ### publish = endCreate (ok pub) -/

theorem publish_refines (st : St) (r : Reg) (f : Frame) (rest : List Frame) (pub : M2.Obj) (h : Abs st r)
    (hs : st.stack = f :: rest) (hnd : (snames st).Nodup) :
    Abs (M2.publish st f.name pub rest) (r.endCreate f.name (.ok (toM1 pub))) := by
  have hsn : snames st = f.name :: rest.map (·.name) := by simp [snames, hs]
  rw [hsn] at hnd
  refine ⟨fun n => ?_, fun n => ?_, fun n => ?_, fun n => ?_⟩
  · by_cases hn : n = f.name
    · subst hn; simp [M2.publish]
    · simp [M2.publish, hn, upd, h.l1 n]
  · by_cases hn : n = f.name
    · subst hn; simp [M2.publish]
    · simp [M2.publish, hn, upd, h.l2 n]
  · by_cases hn : n = f.name
    · subst hn; simp [M2.publish]
    · simp [M2.publish, hn, upd, h.l3 n]
  · rw [Reg.mem_inCr_endCreate_ok, h.inCr n, hsn, snames_publish]
    constructor
    · rintro ⟨hm, hne⟩
      rcases List.mem_cons.mp hm with hm | hm
      · exact absurd hm hne
      · exact hm
    · intro hm
      refine ⟨List.mem_cons_of_mem _ hm, fun hn => ?_⟩
      subst hn
      exact (List.nodup_cons.mp hnd).1 hm

/-! ### failAt = endCreate (error) for every creation in progress -/

/-- every creation in `L` returns the error, innermost first -/
def unwind (r : Reg) (L : List Nat) : Reg := L.foldl (fun r m => r.endCreate m (.error .fail)) r

theorem unwind_spec (r : Reg) (L : List Nat) (n : Nat) :
    ((unwind r L).l1? n = if n ∈ L then none else r.l1? n) ∧
    ((unwind r L).l2? n = if n ∈ L then none else r.l2? n) ∧
    (n ∈ (unwind r L).l3 ↔ n ∈ r.l3 ∧ n ∉ L) ∧
    (n ∈ (unwind r L).inCr ↔ n ∈ r.inCr ∧ n ∉ L) := by
  induction L generalizing r with
  | nil => simp [unwind]
  | cons m L ih =>
    have e : unwind r (m :: L) = unwind (r.remove m) L := rfl
    rw [e]
    obtain ⟨i1, i2, i3, i4⟩ := ih (r.remove m)
    rw [i1, i2, i3, i4]
    by_cases hm : n = m <;> by_cases hl : n ∈ L <;> simp [hm, hl]

theorem failAt_refines (st : St) (r : Reg) (x : Nat) (h : Abs st r) (hoff : ∀ n ∈ snames st, st.l1 n = none) :
    Abs (failAt st x) (unwind r (snames st)) := by
  refine ⟨fun n => ?_, fun n => ?_, fun n => ?_, fun n => ?_⟩
  · rw [(unwind_spec r _ n).1]
    by_cases hn : n ∈ snames st
    · simp [hn, failAt, hoff n hn]
    · simp [hn, failAt, h.l1 n]
  · rw [(unwind_spec r _ n).2.1]
    by_cases hn : n ∈ snames st
    · simp [hn, failAt, (onStack_iff st n).mpr hn]
    · simp [hn, failAt, (onStack_false_iff st n).mpr hn, h.l2 n]
  · rw [(unwind_spec r _ n).2.2.1]
    by_cases hn : n ∈ snames st
    · simp [hn, failAt, (onStack_iff st n).mpr hn]
    · simp [hn, failAt, (onStack_false_iff st n).mpr hn, h.l3 n]
  · rw [(unwind_spec r _ n).2.2.2, h.inCr n]
    simp

/-! ### the protocol -/

/-- registries reachable from the empty one by the operations of doGetComponent: GetSingleton(n, true);
    GetSingletonOrCreateByFactory entered after a lookup that found nothing; its return (published or error) for a
    name in creation -/
inductive Proto : Reg → Prop
  | empty : Proto Reg.empty
  | get {r : Reg} (n : Nat) (early : Except Err Ioc.Obj) : Proto r → Proto (r.get n true early).2
  | start {r : Reg} (n : Nat) (early : Except Err Ioc.Obj) : Proto r → (r.get n true early).1 = .ok none →
      Proto (r.startCreate n)
  | finish {r : Reg} (n : Nat) (res : Except Err Ioc.Obj) : Proto r → n ∈ r.inCr → Proto (r.endCreate n res)

theorem Proto.inv {r : Reg} (h : Proto r) : r.Inv := by
  induction h with
  | empty => exact Reg.inv_empty
  | get n early _ ih => exact ih.get n true early
  | start n early _ hm ih => exact ih.startCreate n (Reg.get_miss _ n true early hm).2.2.1
  | finish n res _ _ ih => exact ih.endCreate n res

theorem proto_unwind {r : Reg} (L : List Nat) (h : Proto r) (hnd : L.Nodup) (hin : ∀ n ∈ L, n ∈ r.inCr) :
    Proto (unwind r L) := by
  induction L generalizing r with
  | nil => exact h
  | cons m L ih =>
    have e : unwind r (m :: L) = unwind (r.endCreate m (.error .fail)) L := rfl
    rw [e]
    obtain ⟨hm, hnd'⟩ := List.nodup_cons.mp hnd
    refine ih (Proto.finish m _ h (hin m (by simp))) hnd' (fun n hn => ?_)
    rw [Reg.endCreate_err, Reg.mem_inCr_remove]
    exact ⟨hin n (by simp [hn]), fun hnm => hm (hnm ▸ hn)⟩

/-- one step of the machine is a sequence of protocol operations on the abstraction -/
theorem step_refines (sc : Scen) (st st' : St) (r : Reg) (hi : Lc.Inv sc st) (hr : st.status = .running)
    (ha : Abs st r) (hp : Proto r) (hstep : StepR sc st st') : ∃ r', Abs st' r' ∧ Proto r' := by
  have habs0 : ∀ {st0 : St} {c : Nat}, Src sc st st0 c → Abs st0 r := fun src =>
    ha.congr src.same.1 src.same.2.1 src.same.2.2.1 (by simp [snames, src.same.2.2.2.1])
  have hfail : ∀ (s : St) (x : Nat), s.l1 = st.l1 → s.l2 = st.l2 → s.l3 = st.l3 → s.stack = st.stack →
      ∃ r', Abs (failAt s x) r' ∧ Proto r' := by
    intro s x e1 e2 e3 e4
    have hsn : snames s = snames st := by simp [snames, e4]
    have hs : Abs s r := ha.congr e1 e2 e3 hsn
    refine ⟨unwind r (snames s), failAt_refines s r x hs (fun n hn => ?_), proto_unwind _ hp ?_ (fun n hn => ?_)⟩
    · rw [e1]; exact hi.l1_off n (hsn ▸ hn)
    · rw [hsn]; exact hi.nodup
    · exact (hs.inCr n).mpr hn
  have hmiss : ∀ {st0 : St} {c : Nat}, Src sc st st0 c → st0.l1 c = none → st0.l2 c = none → st0.l3 c = false →
      r.get c true (earlyOf sc c) = (.ok none, r) := by
    intro st0 c src h1 h2 h3
    have h0 := habs0 src
    exact Reg.get_no_factory r c _ _ (by rw [h0.l1, h1]; rfl) (by rw [h0.l2, h2]; rfl)
      (fun hm => by rw [(h0.l3 c).mp hm] at h3; cases h3)
  cases hstep with
  | done hs hb ht => exact ⟨r, ha.congr rfl rfl rfl rfl, hp⟩
  | hit st0 c src o ho => exact ⟨r, (habs0 src).congr rfl rfl rfl (by simp [snames]), hp⟩
  | promote st0 c src h1 h2 h3 hf =>
    have h0 := habs0 src
    have hl : lookup sc st0 c = .hit (sc.earlyO c) { addLog sc st0 c (.early c) with
        l2 := upd st0.l2 c (some (sc.earlyO c)), l3 := upd st0.l3 c false } := by
      simp [lookup, h1, h2, h3, hf]
    obtain ⟨_, hab⟩ := (lookup_refines sc st0 r c h0).1 _ _ hl
    exact ⟨_, hab.congr (by simp) (by simp) (by simp) (by simp [snames]), Proto.get c _ hp⟩
  | earlyFail st0 c src h1 h2 h3 hf =>
    exact hfail _ c (by simp [src.same.1]) (by simp [src.same.2.1]) (by simp [src.same.2.2.1])
      (by simp [src.same.2.2.2.1])
  | unknown st0 c src h1 h2 h3 hn =>
    exact hfail _ c src.same.1 src.same.2.1 src.same.2.2.1 src.same.2.2.2.1
  | enterU st0 c src h1 h2 h3 hn hw =>
    exact ⟨_, push_refines st0 r c (habs0 src) h1,
      Proto.start c (earlyOf sc c) hp (by rw [hmiss src h1 h2 h3])⟩
  | enterFail st0 c src h1 h2 h3 hn hw hbad =>
    -- the creation of c has started (startCreate), then everything in progress returns the error
    have h0 := habs0 src
    have hpush := push_refines st0 r c h0 h1
    have hp' : Proto (r.startCreate c) := Proto.start c (earlyOf sc c) hp (by rw [hmiss src h1 h2 h3])
    have hoff : c ∉ snames st0 := (inv_src src hi hr).1.miss_off c h2 h3
    have hi0 := (inv_src src hi hr).1
    have hsn : snames (addLog sc (push st0 c) c (.new c)) = c :: snames st0 := by simp
    refine ⟨unwind (r.startCreate c) (snames (addLog sc (push st0 c) c (.new c))), ?_, ?_⟩
    · refine failAt_refines _ _ c (hpush.congr (by simp) (by simp) (by simp) (by simp)) (fun n hn' => ?_)
      rw [hsn] at hn'
      simp only [addLog_l1, push]
      rcases List.mem_cons.mp hn' with rfl | hn'
      · exact h1
      · exact hi0.l1_off n hn'
    · refine proto_unwind _ hp' ?_ (fun n hn' => ?_)
      · rw [hsn]; exact List.nodup_cons.mpr ⟨hoff, hi0.nodup⟩
      · rw [hsn] at hn'
        exact (hpush.inCr n).mpr (by simpa using hn')
  | enterW st0 c src h1 h2 h3 hn hw hcfg hpts =>
    exact ⟨_, (push_refines st0 r c (habs0 src) h1).congr (by simp) (by simp) (by simp) (by simp),
      Proto.start c (earlyOf sc c) hp (by rw [hmiss src h1 h2 h3])⟩
  | advance f rest hs hp' hd hwhy =>
    exact ⟨r, ha.congr rfl rfl rfl (by simp [snames, hs, advance]), hp⟩
  | injFail f rest hs hp' hd hne hreq hwhy => exact hfail st f.name rfl rfl rfl rfl
  | write f rest hs hp' hd hne hm hc =>
    exact ⟨r, ha.congr rfl rfl rfl (by simp [snames, hs, advance]), hp⟩
  | cbFail f rest hs hp' hcb => exact hfail _ f.name (by simp) (by simp) (by simp) (by simp)
  | stale f rest hs hp' hcb e he hw hh => exact hfail _ f.name (by simp) (by simp) (by simp) (by simp)
  | publish f rest hs hp' hcb pub hpub =>
    have hs' : (initCallbacks sc st f.name).1.stack = f :: rest := by simp [hs]
    have ha' : Abs (initCallbacks sc st f.name).1 r := ha.congr (by simp) (by simp) (by simp) (by simp)
    refine ⟨_, publish_refines _ r f rest pub ha' hs' (by simpa using hi.nodup),
      Proto.finish f.name _ hp ((ha.inCr f.name).mpr (by simp [snames, hs]))⟩

/-- every reachable state of the factory machine has a registry abstraction that was produced by protocol operations -/
theorem run_refines (sc : Scen) (k : Nat) : ∃ r, Abs (run sc k (init sc)) r ∧ Proto r := by
  induction k with
  | zero => exact ⟨Reg.empty, abs_init sc, Proto.empty⟩
  | succ k ih =>
    rw [run_succ]
    obtain ⟨r, ha, hp⟩ := ih
    by_cases hr : (run sc k (init sc)).status = .running
    · exact step_refines sc _ _ r (Lc.inv_run sc k) hr ha hp (step_rel sc _ hr)
    · rw [Lc.step_not_running sc _ hr]; exact ⟨r, ha, hp⟩

end Ioc.M2.Rf
