/-
  Two scenarios that differ only in the ORDER of the candidates of their points (`SameUpToOrder`) have the same reachable
  names and the same static faults; with the success characterisation this gives run-level order independence
  (C10_run_perm_partial).
-/
import IocProofs.Lemmas.M2SucceedsConv
namespace Ioc.M2.Sx
open Ioc.M2

/-- the same injection point with its candidates enumerated in another order -/
structure PointPerm (p q : Point) : Prop where
  cands : p.cands.Perm q.cands
  slice : p.slice = q.slice
  required : p.required = q.required
  incompat : ∀ c, c ∈ p.incompat ↔ c ∈ q.incompat

theorem PointPerm.symm {p q : Point} (h : PointPerm p q) : PointPerm q p :=
  ⟨h.cands.symm, h.slice.symm, h.required.symm, fun c => (h.incompat c).symm⟩

/-- point-wise relation of two lists of the same length -/
inductive All2 {α β : Type} (R : α → β → Prop) : List α → List β → Prop
  | nil : All2 R [] []
  | cons {a : α} {b : β} {l₁ : List α} {l₂ : List β} : R a b → All2 R l₁ l₂ → All2 R (a :: l₁) (b :: l₂)

/-- both fail to resolve, or both resolve to the same points (in scan order) up to the order of the candidates -/
def PointsRel : Option (List Point) → Option (List Point) → Prop
  | none, none => True
  | some a, some b => All2 PointPerm a b
  | _, _ => False

theorem forall2_flip {α β : Type} {R : α → β → Prop} {a : List α} {b : List β} (h : All2 R a b) :
    All2 (fun y x => R x y) b a := by
  induction h with
  | nil => exact .nil
  | cons h _ ih => exact .cons h ih

theorem forall2_mem {α β : Type} {R : α → β → Prop} {a : List α} {b : List β} (h : All2 R a b) :
    ∀ x ∈ a, ∃ y ∈ b, R x y := by
  induction h with
  | nil => intro x hx; cases hx
  | cons h _ ih =>
    intro x hx
    rcases List.mem_cons.mp hx with rfl | hx
    · exact ⟨_, List.mem_cons_self, h⟩
    · obtain ⟨y, hy, hr⟩ := ih x hx
      exact ⟨y, List.mem_cons_of_mem _ hy, hr⟩

theorem forall2_imp {α β : Type} {R S : α → β → Prop} (hi : ∀ x y, R x y → S x y) {a : List α} {b : List β}
    (h : All2 R a b) : All2 S a b := by
  induction h with
  | nil => exact .nil
  | cons h _ ih => exact .cons (hi _ _ h) ih

theorem PointsRel.symm {a b : Option (List Point)} (h : PointsRel a b) : PointsRel b a := by
  cases a <;> cases b
  · trivial
  · exact h
  · exact h
  · rename_i x y
    have h' : All2 PointPerm x y := h
    exact forall2_imp (fun _ _ h => PointPerm.symm h) (forall2_flip h')

/-- same definitions, same work lists, same processors and faults; the points of every component are the same up to the
    order in which their candidates were enumerated -/
structure SameUpToOrder (sc sc' : Scen) : Prop where
  names : sc.names = sc'.names
  boot : sc.boot = sc'.boot
  eager : sc.eager = sc'.eager
  wired : ∀ n, sc.wired n = sc'.wired n
  logged : ∀ n, sc.logged n = sc'.logged n
  cfgOk : ∀ n, sc.cfgOk n = sc'.cfgOk n
  fBefore : ∀ n, sc.fBefore n = sc'.fBefore n
  fAps : ∀ n, sc.fAps n = sc'.fAps n
  fInit : ∀ n, sc.fInit n = sc'.fInit n
  fAfter : ∀ n, sc.fAfter n = sc'.fAfter n
  fEarly : ∀ n, sc.fEarly n = sc'.fEarly n
  earlyO : ∀ n, sc.earlyO n = sc'.earlyO n
  afterO : ∀ n, sc.afterO n = sc'.afterO n
  points : ∀ n, PointsRel (sc.points n) (sc'.points n)

theorem SameUpToOrder.symm {sc sc' : Scen} (h : SameUpToOrder sc sc') : SameUpToOrder sc' sc :=
  ⟨h.names.symm, h.boot.symm, h.eager.symm, fun n => (h.wired n).symm, fun n => (h.logged n).symm,
   fun n => (h.cfgOk n).symm, fun n => (h.fBefore n).symm, fun n => (h.fAps n).symm, fun n => (h.fInit n).symm,
   fun n => (h.fAfter n).symm, fun n => (h.fEarly n).symm, fun n => (h.earlyO n).symm, fun n => (h.afterO n).symm,
   fun n => (h.points n).symm⟩

theorem SameUpToOrder.pts {sc sc' : Scen} (h : SameUpToOrder sc sc') (n : Nat) :
    All2 PointPerm (pts sc n) (pts sc' n) := by
  unfold M2.pts
  rw [← h.wired n]
  split
  · have hp := h.points n
    cases h1 : sc.points n <;> cases h2 : sc'.points n <;> rw [h1, h2] at hp
    · exact .nil
    · exact hp.elim
    · exact hp.elim
    · exact hp
  · exact .nil

theorem SameUpToOrder.none_iff {sc sc' : Scen} (h : SameUpToOrder sc sc') (n : Nat) :
    sc.points n = none ↔ sc'.points n = none := by
  have hp := h.points n
  cases h1 : sc.points n <;> cases h2 : sc'.points n <;> rw [h1, h2] at hp <;> simp_all [PointsRel]

theorem BadPoint.perm {n : Nat} {p q : Point} (h : PointPerm p q) (hb : BadPoint n p) : BadPoint n q := by
  rcases hb with ⟨hr, hne, hall⟩ | ⟨hr, c, hc, hcn, hi⟩
  · left
    refine ⟨h.required ▸ hr, fun hq => hne ?_, fun c hc => hall c (h.cands.mem_iff.mpr hc)⟩
    have hc := h.cands
    rw [hq] at hc
    exact hc.eq_nil
  · right
    exact ⟨h.required ▸ hr, c, h.cands.mem_iff.mp hc, hcn, (h.incompat c).mp hi⟩

theorem StaticFault.perm {sc sc' : Scen} (h : SameUpToOrder sc sc') {n : Nat} (hf : StaticFault sc n) :
    StaticFault sc' n := by
  rcases hf with hf | ⟨hw, hf⟩ | hf | ⟨pt, hpt, hb⟩
  · exact Or.inl (h.names ▸ hf)
  · refine Or.inr (Or.inl ⟨(h.wired n) ▸ hw, ?_⟩)
    rcases hf with hf | hf
    · exact Or.inl ((h.cfgOk n) ▸ hf)
    · exact Or.inr ((h.none_iff n).mp hf)
  · refine Or.inr (Or.inr (Or.inl ?_))
    unfold Lc.CbFault at *
    rw [← h.wired n, ← h.fBefore n, ← h.fAps n, ← h.fInit n, ← h.fAfter n]
    exact hf
  · obtain ⟨q, hq, hpq⟩ := forall2_mem (h.pts n) pt hpt
    exact Or.inr (Or.inr (Or.inr ⟨q, hq, hb.perm hpq⟩))

theorem Reach.perm {sc sc' : Scen} (h : SameUpToOrder sc sc') {n : Nat} (hr : Reach sc n) : Reach sc' n := by
  induction hr with
  | root hn => exact Reach.root (by rw [← h.boot, ← h.eager]; exact hn)
  | cand _ hp hc ih =>
    obtain ⟨q, hq, hpq⟩ := forall2_mem (h.pts _) _ hp
    exact Reach.cand ih hq (hpq.cands.mem_iff.mp hc)

/-- the success characterisation as an equivalence: without substitution and without a failing early-reference factory on
    a reachable name, the start succeeds exactly when no reachable name has a static fault -/
theorem done_iff (sc : Scen) (ns : NoSubstitution sc) (he : ∀ n, Reach sc n → sc.fEarly n = false) :
    (final sc).status = .done ↔ ∀ n, Reach sc n → ¬ StaticFault sc n :=
  ⟨fun hd n hn => done_no_fault sc ns.wf _ hd n hn, fun h => succeeds sc ns ⟨h, he⟩⟩

theorem run_perm (sc sc' : Scen) (h : SameUpToOrder sc sc') (ns : NoSubstitution sc) (ns' : NoSubstitution sc')
    (he : ∀ n, Reach sc n → sc.fEarly n = false) :
    (final sc).status = .done ↔ (final sc').status = .done := by
  have he' : ∀ n, Reach sc' n → sc'.fEarly n = false := fun n hn => by rw [← h.fEarly n]; exact he n (hn.perm h.symm)
  rw [done_iff sc ns he, done_iff sc' ns' he']
  constructor
  · intro hs n hn hf; exact hs n (hn.perm h.symm) (hf.perm h.symm)
  · intro hs n hn hf; exact hs n (hn.perm h) (hf.perm h)

end Ioc.M2.Sx
