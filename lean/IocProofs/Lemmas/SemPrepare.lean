/-
  Semantic theorems for the REGENERATED PrepareComponents, GetComponents, RegisterComponentPostProcessors, NewMeta,
  CreateProxy and genProxyComponent (interpretation: Ioc.SemPrepare).
-/
import Ioc.SemPrepare
import IocProofs.Lemmas.GoTactics
set_option linter.unusedSimpArgs false
namespace Ioc.Sem
open Ioc Ioc.Go

/-! ### RegisterComponentPostProcessors -/

/-- the processor is appended to the raw list whatever it is; the type switch sets `hasInstantiationAware…` for an
    instantiation-aware processor and — only for one that is NOT instantiation-aware — `hasDestructionAware…` for a
    destruction-aware one (first matching clause) -/
theorem registerCPP_sem (isInst isDestr : Nat → Bool) (i : Nat) (n : String) (w : RCW) :
    run (rcPrims isInst isDestr) Progs.delegate_RegisterComponentPostProcessors [.ref i 0, .str n] w =
      some (.tuple [], { hasInst := w.hasInst || isInst i, hasDestr := w.hasDestr || (!isInst i && isDestr i), raw := w.raw ++ [i] }) := by
  have hd : decRefs (w.raw.map (fun i => Val.ref i 0) ++ [Val.ref i 0]) = w.raw ++ [i] := by
    have := decRefs_map (w.raw ++ [i])
    simpa [List.map_append] using this
  cases h1 : isInst i <;> cases h2 : isDestr i <;>
    go_simp [Progs.delegate_RegisterComponentPostProcessors, rcPrims, rcFn, assertVal, refsVal, h1, h2, hd]

/-! ### NewMeta / CreateProxy / genProxyComponent -/

section metaobjs
variable (naming : Nat → String × String) (icept : Nat → Option String)

/-- NewMeta: ONE new definition for the component, named by the naming helper (name and alias), Raw = the component, no
    proxy link; its fields are scanned once, with a holder of this very definition -/
theorem newMeta_sem (c : Nat) (w : NMW) :
    run (nmPrims naming icept) Progs.meta_NewMeta [.ref c 0] w =
      some (.ref w.metas.length 1, { w with metas := w.metas ++ [⟨c, (naming c).1, (naming c).2, none, true⟩] }) := by
  go_simp [Progs.meta_NewMeta, nmPrims, nmFn]

/-- genProxyComponent is CreateProxy without interceptors -/
theorem genProxy_sem (o c : Nat) (n : String) (w : NMW) :
    run (cpPrims naming icept) Progs.factory_genProxyComponent [.ref o 1, .str n, .ref c 0] w =
      some (.tuple [.ref w.metas.length 1, .nil], { w with metas := w.metas ++ [⟨c, n, (naming c).2, some o, true⟩] }) := by
  go_simp [Progs.factory_genProxyComponent, cpPrims, cpFn]

/-! CreateProxy -/

def cpBody : List Stmt := match Progs.meta_CreateProxy.body with | [_, _, _, .range _ _ _ b, _] => b | _ => []
theorem cp_shape : Progs.meta_CreateProxy.body =
    [.define ["nm"] (.call "NewMeta" [(.var "newComponent")]),
     .expr (.mcall (.var "nm") "SetName" [(.var "name")]),
     .store (.var "nm") "ProxyMeta" (.var "origin"),
     .range "_" "interceptor" (.var "interceptors") cpBody,
     .ret [(.var "nm"), .nil]] := rfl

def icStep (k : Nat) (_ : Unit) (w : NMW) : Unit × NMW × Option Val :=
  ((), { w with intercepted := w.intercepted ++ [k] },
   match icept k with | none => none | some e => some (.tuple [.nil, .str e]))

/-- the interceptors that run, and the error that ends the loop -/
def icRun : List Nat → List Nat × Option String
  | [] => ([], none)
  | k :: rest =>
    match icept k with
    | some e => ([k], some e)
    | none => (k :: (icRun rest).1, (icRun rest).2)

theorem icStep_loop (ks : List Nat) (w : NMW) :
    stepLoop (icStep icept) ks () w =
      ((), { w with intercepted := w.intercepted ++ (icRun icept ks).1 },
       match (icRun icept ks).2 with | none => none | some e => some (.tuple [.nil, .str e])) := by
  induction ks generalizing w with
  | nil => simp [stepLoop, icRun]
  | cons k rest ih =>
    simp only [stepLoop, icStep, icRun]
    cases hk : icept k with
    | some e => simp
    | none => simp [ih, List.append_assoc]

def envCP (m o c : Nat) (n : String) (ks : List Nat) : Env :=
  [("nm", .ref m 1), ("origin", .ref o 1), ("name", .str n), ("newComponent", .ref c 0),
   ("interceptors", .list (ks.map (fun k => Val.ref k 140)))]

/-- CreateProxy: ONE new definition for the new component, carrying the name it is GIVEN (the origin's), its own alias, and
    `ProxyMeta` = the origin; the interceptors run in order on it, the first error ends the call with no definition -/
theorem createProxy_sem (o c : Nat) (n : String) (ks : List Nat) (w : NMW) :
    run (cpPrims naming icept) Progs.meta_CreateProxy [.ref o 1, .str n, .ref c 0, .list (ks.map (fun k => Val.ref k 140))] w =
      some (match (icRun icept ks).2 with
            | none => .tuple [.ref w.metas.length 1, .nil]
            | some e => .tuple [.nil, .str e],
            { metas := w.metas ++ [⟨c, n, (naming c).2, some o, true⟩],
              intercepted := w.intercepted ++ (icRun icept ks).1 }) := by
  simp only [run, cp_shape, show Progs.meta_CreateProxy.params = ["origin", "name", "newComponent", "interceptors"] from rfl,
    List.length_cons, List.length_nil, if_true, List.zip_cons_cons, List.zip_nil_right]
  rw [evalB_cons]
  have h1 : evalS (cpPrims naming icept) [("origin", .ref o 1), ("name", .str n), ("newComponent", .ref c 0),
      ("interceptors", .list (ks.map (fun k => Val.ref k 140)))] w (.define ["nm"] (.call "NewMeta" [(.var "newComponent")])) =
      some (envCP w.metas.length o c n ks,
        { w with metas := w.metas ++ [⟨c, (naming c).1, (naming c).2, none, true⟩] }, .norm) := by
    go_simp [cpPrims, cpFn, envCP]
  rw [h1]; simp only []
  rw [evalB_cons]
  have h2 : evalS (cpPrims naming icept) (envCP w.metas.length o c n ks)
      { w with metas := w.metas ++ [⟨c, (naming c).1, (naming c).2, none, true⟩] }
      (.expr (.mcall (.var "nm") "SetName" [(.var "name")])) =
      some (envCP w.metas.length o c n ks, { w with metas := w.metas ++ [⟨c, n, (naming c).2, none, true⟩] }, .norm) := by
    go_simp [cpPrims, cpFn, envCP]
  rw [h2]; simp only []
  rw [evalB_cons]
  have h3 : evalS (cpPrims naming icept) (envCP w.metas.length o c n ks)
      { w with metas := w.metas ++ [⟨c, n, (naming c).2, none, true⟩] }
      (.store (.var "nm") "ProxyMeta" (.var "origin")) =
      some (envCP w.metas.length o c n ks, { w with metas := w.metas ++ [⟨c, n, (naming c).2, some o, true⟩] }, .norm) := by
    go_simp [cpPrims, cpFn, envCP]
  rw [h3]; simp only []
  rw [evalB_cons]
  simp only [evalS]
  have hc : evalE (cpPrims naming icept) (envCP w.metas.length o c n ks)
      { w with metas := w.metas ++ [⟨c, n, (naming c).2, some o, true⟩] } (.var "interceptors") =
      some (.list (ks.map (fun k => Val.ref k 140)), { w with metas := w.metas ++ [⟨c, n, (naming c).2, some o, true⟩] }) := by
    go_simp [envCP]
  rw [hc]; simp only []
  have hl := loopM_state (fun k => Val.ref k 140)
    (fun j x e w' => (evalB (cpPrims naming icept) (Env.def (Env.def e "_" (.int j)) "interceptor" x) w' cpBody).map
      (fun (e', w'', ctl) => (Env.leave e' e.length, w'', ctl)))
    (fun (_ : Unit) => envCP w.metas.length o c n ks) (icStep icept)
    (fun j k _ w' => by
      cases hk : icept k <;>
        go_simp [cpBody, Progs.meta_CreateProxy, cpPrims, cpFn, envCP, icStep, ctlOf, hk]) ks 0 ()
    { w with metas := w.metas ++ [⟨c, n, (naming c).2, some o, true⟩] }
  rw [hl, icStep_loop]
  cases hr : (icRun icept ks).2 <;> go_simp [ctlOf, envCP, hr]

end metaobjs
/-! ### GetComponents -/

section getcomponents
variable (p : GCP)

def gcBody : List Stmt := match Progs.factory_GetComponents.body with | [_, .range _ _ _ b, _] => b | _ => []
theorem gc_shape : Progs.factory_GetComponents.body =
    [.define ["components"] .nil,
     .range "_" "meta" (.call "self.definitionRegistry.GetMetas" [(.var "opts")]) gcBody,
     .ret [(.var "components"), .nil]] := rfl

def envGC (opts : Val) (acc : List Nat) : Env := [("components", refsNil acc), ("opts", opts)]

theorem gcFn_append (acc : List Nat) (c : Nat) (w : List String) :
    gcFn p "append" [refsNil acc, .ref c 0] w = some (refsNil (acc ++ [c]), w) := by
  cases acc with
  | nil => rfl
  | cons x r => simp [refsNil, refsVal, gcFn]

theorem gc_iter (opts : Val) (j m : Nat) (acc : List Nat) (w : List String) :
    (evalB (gcPrims p) (Env.def (Env.def (envGC opts acc) "_" (.int j)) "meta" (.ref m 1)) w gcBody).map
        (fun (e', w'', ctl) => (Env.leave e' (envGC opts acc).length, w'', ctl)) =
      some (envGC opts (gcStep p m acc w).1, (gcStep p m acc w).2.1, ctlOf (gcStep p m acc w).2.2) := by
  cases hg : p.get (p.nameOf m) with
  | error e =>
    have h1 : ∀ w', gcFn p "self.GetComponentByName" [.str (p.nameOf m)] w' = some (.tuple [.nil, .str e], w' ++ [p.nameOf m]) := by
      intro w'; simp [gcFn, hg]
    have hN : ∀ w', gcFn p ".Name" [.ref m 1] w' = some (.str (p.nameOf m), w') := fun _ => rfl
    go_simp [gcBody, Progs.factory_GetComponents, gcPrims, hN, h1, envGC, gcStep, ctlOf, hg]
  | ok c =>
    have h1 : ∀ w', gcFn p "self.GetComponentByName" [.str (p.nameOf m)] w' = some (.tuple [.ref c 0, .nil], w' ++ [p.nameOf m]) := by
      intro w'; simp [gcFn, hg]
    have hN : ∀ w', gcFn p ".Name" [.ref m 1] w' = some (.str (p.nameOf m), w') := fun _ => rfl
    go_simp [gcBody, Progs.factory_GetComponents, gcPrims, hN, h1, gcFn_append, envGC, gcStep, ctlOf, hg]

/-- the components fetched so far, the names asked for, and the error that ends the loop -/
def gcRun : List Nat → List Nat × List String × Option String
  | [] => ([], [], none)
  | m :: rest =>
    match p.get (p.nameOf m) with
    | .error e => ([], [p.nameOf m], some e)
    | .ok c => (c :: (gcRun rest).1, p.nameOf m :: (gcRun rest).2.1, (gcRun rest).2.2)

theorem gcStep_loop (ms : List Nat) (acc : List Nat) (w : List String) :
    stepLoop (gcStep p) ms acc w =
      (acc ++ (gcRun p ms).1, w ++ (gcRun p ms).2.1,
       match (gcRun p ms).2.2 with | none => none | some e => some (.tuple [.nil, .str e])) := by
  induction ms generalizing acc w with
  | nil => simp [stepLoop, gcRun]
  | cons m rest ih =>
    simp only [stepLoop, gcStep, gcRun]
    cases hg : p.get (p.nameOf m) with
    | error e => simp
    | ok c => simp [ih, List.append_assoc]

/-- GetComponents: the definitions the options select are fetched BY NAME through the factory, in the order GetMetas returns
    them; the result lists the components in that order; the first failing fetch ends the call with its error and no list -/
theorem getComponents_sem (opts : Val) (w : List String) :
    run (gcPrims p) Progs.factory_GetComponents [opts] w =
      some (match (gcRun p p.metas).2.2 with
            | none => .tuple [refsNil (gcRun p p.metas).1, .nil]
            | some e => .tuple [.nil, .str e], w ++ (gcRun p p.metas).2.1) := by
  simp only [run, gc_shape, show Progs.factory_GetComponents.params = ["opts"] from rfl, List.length_cons, List.length_nil,
    if_true, List.zip_cons_cons, List.zip_nil_right]
  rw [evalB_cons]
  have h1 : evalS (gcPrims p) [("opts", opts)] w (.define ["components"] .nil) = some (envGC opts [], w, .norm) := by
    go_simp [envGC, refsNil]
  rw [h1]; simp only []
  rw [evalB_cons]
  simp only [evalS]
  have hc : evalE (gcPrims p) (envGC opts []) w (.call "self.definitionRegistry.GetMetas" [(.var "opts")]) =
      some (.list (p.metas.map (fun i => Val.ref i 1)), w) := by
    go_simp [envGC, gcPrims, gcFn]
  rw [hc]; simp only []
  have hl := loopM_state (fun i => Val.ref i 1)
    (fun j x e w' => (evalB (gcPrims p) (Env.def (Env.def e "_" (.int j)) "meta" x) w' gcBody).map
      (fun (e', w'', ctl) => (Env.leave e' e.length, w'', ctl)))
    (envGC opts) (gcStep p) (fun j m acc w' => gc_iter p opts j m acc w') p.metas 0 [] w
  rw [hl, gcStep_loop]
  cases hr : (gcRun p p.metas).2.2 <;> go_simp [ctlOf, envGC, hr]

end getcomponents

/-! ### PrepareComponents -/

section prepare
variable (p : PCP)

def pcBody : List Stmt := match Progs.factory_PrepareComponents.body with | [_, _, _, .range _ _ _ b, _, _, _] => b | _ => []
def pcTail : List Stmt := match Progs.factory_PrepareComponents.body with | [_, _, _, _, a, b, c] => [a, b, c] | _ => []
theorem pc_shape : Progs.factory_PrepareComponents.body =
    [.define ["singletonNames"] (.call "self.singletonRegistry.GetSingletonNames" []),
     .store (.glob "self") "registeredComponents" (.call "make:map[string]any" [(.call "len" [(.var "singletonNames")])]),
     .define ["factoryPostProcessors"] .nil,
     .range "_" "name" (.var "singletonNames") pcBody] ++ pcTail := rfl

def envPC (fpp : List Nat) : Env :=
  [("factoryPostProcessors", refsNil fpp), ("singletonNames", .list (p.names.map Val.str))]

theorem pcFn_append (fpp : List Nat) (i : Nat) (w : PCW) :
    pcFn p "append" [refsNil fpp, .ref i 0] w = some (refsNil (fpp ++ [i]), w) := by
  cases fpp with
  | nil => rfl
  | cons x r => simp [refsNil, refsVal, pcFn]

theorem pcFn_appendDef (i : Nat) (w w' : PCW) :
    pcFn p "append" [refsVal w.defPPs, .ref i 0] w' = some (.list (w.defPPs.map (fun i => Val.ref i 0) ++ [.ref i 0]), w') := rfl

theorem decRefs_snoc (l : List Nat) (i : Nat) : decRefs (l.map (fun i => Val.ref i 0) ++ [Val.ref i 0]) = l ++ [i] := by
  have := decRefs_map (l ++ [i])
  simpa [List.map_append] using this

theorem pc_iter (j : Nat) (n : String) (fpp : List Nat) (w : PCW) :
    (evalB (pcPrims p) (Env.def (Env.def (envPC p fpp) "_" (.int j)) "name" (.str n)) w pcBody).map
        (fun (e', w'', ctl) => (Env.leave e' (envPC p fpp).length, w'', ctl)) =
      some (envPC p (pcStep p n fpp w).1, (pcStep p n fpp w).2.1, ctlOf (pcStep p n fpp w).2.2) := by
  have hS : ∀ w', pcFn p "self.singletonRegistry.GetSingleton" [.str n] w' = some (singleVal p n, w') := fun _ => rfl
  cases hs : p.single n with
  | error e =>
    have hv : singleVal p n = .tuple [.nil, .str e] := by simp [singleVal, hs]
    go_simp [pcBody, Progs.factory_PrepareComponents, pcPrims, hS, hv, envPC, pcStep, ctlOf, hs]
  | ok i =>
    have hv : singleVal p n = .tuple [.ref i 0, .nil] := by simp [singleVal, hs]
    have hA1 : ∀ w', pcFn p "assert2:container.ComponentPostProcessor" [.ref i 0] w' = some (assertVal (p.isCPP i) i, w') := fun _ => rfl
    have hA2 : ∀ w', pcFn p "assert2:container.DefinitionRegistryPostProcessor" [.ref i 0] w' = some (assertVal (p.isDRPP i) i, w') := fun _ => rfl
    have hA3 : ∀ w', pcFn p "assert2:container.ComponentFactoryPostProcessor" [.ref i 0] w' = some (assertVal (p.isCFPP i) i, w') := fun _ => rfl
    have hR : ∀ w' : PCW, pcFn p "self.registerBeanPostProcessors" [.ref i 0, .str n] w' =
        some (.tuple [], { w' with beanPPs := w'.beanPPs ++ [(i, n)] }) := fun _ => rfl
    have hD : ∀ w' : PCW, pcFn p "$self.definitionRegistryPostProcessors" [] w' = some (refsVal w'.defPPs, w') := fun _ => rfl
    have hSelf : ∀ w' : PCW, pcFn p "$self" [] w' = some (.ref 0 120, w') := fun _ => rfl
    have hSD : ∀ (l : List Val) (w' : PCW), pcFn p ".set:definitionRegistryPostProcessors" [.ref 0 120, .list l] w' =
        some (.tuple [], { w' with defPPs := decRefs l }) := fun _ _ => rfl
    have hRC : ∀ w' : PCW, pcFn p "$self.registeredComponents" [] w' = some (.ref 0 121, w') := fun _ => rfl
    have hSI : ∀ w' : PCW, pcFn p ".setidx" [.ref 0 121, .str n, .ref i 0] w' =
        some (.tuple [], { w' with regComps := rcSet n i w'.regComps }) := fun _ => rfl
    cases h1 : p.isCPP i <;> cases h2 : p.isDRPP i <;> cases h3 : p.isCFPP i <;>
      go_simp [pcBody, Progs.factory_PrepareComponents, pcPrims, hS, hv, hA1, hA2, hA3, hR, hD, hSelf, hSD, hRC, hSI, pcFn_append,
        pcFn_appendDef, decRefs_snoc, assertVal, envPC, pcStep, ctlOf, hs, h1, h2, h3]

/-- PrepareComponents up to the hand-over: the singletons in the order the registry enumerates them; each is recorded under
    its name in a FRESH `registeredComponents` map and classified — a singleton may be a component post-processor, a
    definition-registry post-processor and a factory post-processor at once, and enters each of those lists in the
    enumeration order; a failing `GetSingleton` ends the call with its error before the delegate is invoked; otherwise the
    delegate gets exactly the factory post-processors found, and its error is returned as it is -/
theorem prepareComponents_sem (w : PCW) :
    run (pcPrims p) Progs.factory_PrepareComponents [] w =
      (let r := stepLoop (pcStep p) p.names [] { w with regComps := [] }
       match r.2.2 with
       | some v => some (v, r.2.1)
       | none => some (match p.invokeErr r.1 with | none => .nil | some e => .str e, { r.2.1 with invoked := some r.1 })) := by
  simp only [run, pc_shape, show Progs.factory_PrepareComponents.params = [] from rfl, List.length_nil, if_true, List.zip_nil_right,
    List.cons_append, List.nil_append]
  rw [evalB_cons]
  have h1 : evalS (pcPrims p) [] w (.define ["singletonNames"] (.call "self.singletonRegistry.GetSingletonNames" [])) =
      some ([("singletonNames", .list (p.names.map Val.str))], w, .norm) := by
    go_simp [pcPrims, pcFn]
  rw [h1]; simp only []
  rw [evalB_cons]
  have h2 : evalS (pcPrims p) [("singletonNames", .list (p.names.map Val.str))] w
      (.store (.glob "self") "registeredComponents" (.call "make:map[string]any" [(.call "len" [(.var "singletonNames")])])) =
      some ([("singletonNames", .list (p.names.map Val.str))], { w with regComps := [] }, .norm) := by
    go_simp [pcPrims, pcFn]
  rw [h2]; simp only []
  rw [evalB_cons]
  have h3 : evalS (pcPrims p) [("singletonNames", .list (p.names.map Val.str))] { w with regComps := [] }
      (.define ["factoryPostProcessors"] .nil) = some (envPC p [], { w with regComps := [] }, .norm) := by
    go_simp [envPC, refsNil]
  rw [h3]; simp only []
  rw [evalB_cons]
  simp only [evalS]
  have hc : evalE (pcPrims p) (envPC p []) { w with regComps := [] } (.var "singletonNames") =
      some (.list (p.names.map Val.str), { w with regComps := [] }) := by
    go_simp [envPC]
  rw [hc]; simp only []
  have hl := loopM_state Val.str
    (fun j x e w' => (evalB (pcPrims p) (Env.def (Env.def e "_" (.int j)) "name" x) w' pcBody).map
      (fun (e', w'', ctl) => (Env.leave e' e.length, w'', ctl)))
    (envPC p) (pcStep p) (fun j n fpp w' => pc_iter p j n fpp w') p.names 0 [] { w with regComps := [] }
  rw [hl]
  rcases hr : stepLoop (pcStep p) p.names [] { w with regComps := [] } with ⟨fpp, w1, r⟩
  cases r with
  | some v => simp [ctlOf]
  | none =>
    simp only [ctlOf]
    cases fpp with
    | nil => cases hi : p.invokeErr [] <;> go_simp [pcTail, Progs.factory_PrepareComponents, pcPrims, pcFn, envPC, refsNil, hi]
    | cons x rest =>
      have hd := decRefs_map (x :: rest)
      simp only [List.map_cons] at hd
      cases hi : p.invokeErr (x :: rest) <;>
        go_simp [pcTail, Progs.factory_PrepareComponents, pcPrims, pcFn, envPC, refsNil, refsVal, hd, hi]

/-- when every singleton can be fetched: the three lists are the singletons of each kind IN THE ENUMERATION ORDER -/
theorem pcStep_loop_ok (idOf : String → Nat) : ∀ (names : List String) (fpp : List Nat) (w : PCW),
    (∀ n ∈ names, p.single n = .ok (idOf n)) →
    (stepLoop (pcStep p) names fpp w).1 = fpp ++ (names.map idOf).filter p.isCFPP ∧
    (stepLoop (pcStep p) names fpp w).2.2 = none ∧
    (stepLoop (pcStep p) names fpp w).2.1.defPPs = w.defPPs ++ (names.map idOf).filter p.isDRPP ∧
    (stepLoop (pcStep p) names fpp w).2.1.beanPPs =
      w.beanPPs ++ (names.filter (fun n => p.isCPP (idOf n))).map (fun n => (idOf n, n)) ∧
    (stepLoop (pcStep p) names fpp w).2.1.invoked = w.invoked := by
  intro names
  induction names with
  | nil => intro fpp w _; simp [stepLoop]
  | cons n rest ih =>
    intro fpp w h
    have hn := h n (by simp)
    have hrest : ∀ m ∈ rest, p.single m = .ok (idOf m) := fun m hm => h m (by simp [hm])
    simp only [stepLoop, pcStep, hn]
    obtain ⟨a, b, c, d, e⟩ := ih (if p.isCFPP (idOf n) then fpp ++ [idOf n] else fpp)
      { w with beanPPs := if p.isCPP (idOf n) then w.beanPPs ++ [(idOf n, n)] else w.beanPPs,
               defPPs := if p.isDRPP (idOf n) then w.defPPs ++ [idOf n] else w.defPPs,
               regComps := rcSet n (idOf n) w.regComps } hrest
    refine ⟨?_, b, ?_, ?_, e⟩
    · rw [a]; cases hc : p.isCFPP (idOf n) <;> simp [List.filter_cons, hc]
    · rw [c]; cases hc : p.isDRPP (idOf n) <;> simp [List.filter_cons, hc]
    · rw [d]; cases hc : p.isCPP (idOf n) <;> simp [List.filter_cons, hc]

end prepare

end Ioc.Sem
