/-
  The regenerated program of factory.go `doCreateComponent` computes `Sem.createDecision` — result and order of the
  effectful calls — for every behaviour of its collaborators (statement by statement; the dependents loop by induction).
-/
import Ioc.SemCreate
import IocProofs.Lemmas.GoTactics
namespace Ioc.Sem
open Ioc Ioc.Go


def encN (x : Nat) : Val := .int (x : Int)
def encAcc (acc : List Nat) : Val := if acc.isEmpty then .nil else .list (acc.map encN)

theorem loopM_collect {σ : Type} (keep : Nat → Bool) (f : Nat → Val → Env → σ → Option (Env × σ × Ctl)) (rest : Env) (w : σ)
    (hf : ∀ i x (acc : List Nat), f i (encN x) (("actualDependents", encAcc acc) :: rest) w =
        some (("actualDependents", encAcc (if keep x then acc ++ [x] else acc)) :: rest, w, .norm)) :
    ∀ (l : List Nat) (i : Nat) (acc : List Nat),
      loopM f i (l.map encN) (("actualDependents", encAcc acc) :: rest) w =
        some (("actualDependents", encAcc (acc ++ l.filter keep)) :: rest, w, .norm) := by
  intro l
  induction l with
  | nil => intro i acc; simp [loopM]
  | cons x xs ih =>
    intro i acc
    simp only [List.map_cons, loopM, hf, List.filter_cons]
    cases hk : keep x with
    | true => simp [ih, List.append_assoc]
    | false => simp [ih]


theorem loopM_collect_nil {σ : Type} (keep : Nat → Bool) (f : Nat → Val → Env → σ → Option (Env × σ × Ctl)) (rest : Env) (w : σ)
    (hf : ∀ i x (acc : List Nat), f i (encN x) (("actualDependents", encAcc acc) :: rest) w =
        some (("actualDependents", encAcc (if keep x then acc ++ [x] else acc)) :: rest, w, .norm))
    (l : List Nat) (i : Nat) :
    loopM f i (l.map encN) (("actualDependents", .nil) :: rest) w =
      some (("actualDependents", encAcc (l.filter keep)) :: rest, w, .norm) := by
  have := loopM_collect keep f rest w hf l i []
  simpa [encAcc] using this

def dcStmt (i : Nat) : Stmt := Progs.fac_doCreateComponent.body.getD i .brk
theorem dc_body : Progs.fac_doCreateComponent.body =
    [dcStmt 0, dcStmt 1, dcStmt 2, dcStmt 3, dcStmt 4, dcStmt 5, dcStmt 6, dcStmt 7, dcStmt 8, dcStmt 9, dcStmt 10] := rfl
theorem dc_params : Progs.fac_doCreateComponent.params = ["name", "meta"] := rfl

def dcE0 (n : Nat) : Env := [("name", .int (n : Int)), ("meta", .ref n 0)]
def dcE1 (n : Nat) (x : Bool) : Env := ("earlySingletonExposure", .bool x) :: dcE0 n
/-- after `exposedComponent := meta` and `err := populate` -/
def dcE3 (n : Nat) (x : Bool) (ex e : Val) : Env := ("err", e) :: ("exposedComponent", ex) :: dcE1 n x
/-- after `instance := meta.Raw` and `wrappedInstance, err := InitializeComponent` -/
def dcE6 (n : Nat) (x : Bool) (ex : Val) (wi e2 : Val) : Env :=
  ("err", e2) :: ("wrappedInstance", wi) :: ("instance", .ref n 1000) :: dcE3 n x ex .nil

def exposureOf (d : DCC) : Bool := d.singleton && d.allow && d.inCrOf d.n

theorem dc_s0 (d : DCC) (t : List String) :
    evalS (dccPrims d) (dcE0 d.n) t (dcStmt 0) = some (dcE1 d.n (exposureOf d), t, .norm) := by
  cases h1 : d.singleton <;> cases h2 : d.allow <;> cases h3 : d.inCrOf d.n <;>
    go_simp [dcStmt, Progs.fac_doCreateComponent, dccPrims, dccFn, dcE0, dcE1, exposureOf, h1, h2, h3]

theorem dc_s1 (d : DCC) (x : Bool) (t : List String) :
    evalS (dccPrims d) (dcE1 d.n x) t (dcStmt 1) = some (dcE1 d.n x, if x then t ++ ["addFactory"] else t, .norm) := by
  cases x <;> go_simp [dcStmt, Progs.fac_doCreateComponent, dccPrims, dccHfn, dcE0, dcE1]

theorem dc_s2 (d : DCC) (x : Bool) (t : List String) :
    evalS (dccPrims d) (dcE1 d.n x) t (dcStmt 2) = some (("exposedComponent", .ref d.n 0) :: dcE1 d.n x, t, .norm) := by
  go_simp [dcStmt, Progs.fac_doCreateComponent, dcE0, dcE1]

theorem dc_s3 (d : DCC) (x : Bool) (t : List String) :
    evalS (dccPrims d) (("exposedComponent", .ref d.n 0) :: dcE1 d.n x) t (dcStmt 3) =
      some (dcE3 d.n x (.ref d.n 0) (if d.populateOk then .nil else errC), t ++ ["populate"], .norm) := by
  go_simp [dcStmt, Progs.fac_doCreateComponent, dccPrims, dccFn, dcE0, dcE1, dcE3]

def okOrErr (ok : Bool) : Val := if ok then .nil else errC

theorem dc_s4 (d : DCC) (x : Bool) (ok : Bool) (t : List String) :
    evalS (dccPrims d) (dcE3 d.n x (.ref d.n 0) (okOrErr ok)) t (dcStmt 4) =
      some (dcE3 d.n x (.ref d.n 0) (okOrErr ok), t, if ok then .norm else .ret (.tuple [.nil, errC])) := by
  cases ok <;> go_simp [dcStmt, Progs.fac_doCreateComponent, dcE0, dcE1, dcE3, errC, okOrErr]

theorem dc_s5 (d : DCC) (x : Bool) (t : List String) :
    evalS (dccPrims d) (dcE3 d.n x (.ref d.n 0) .nil) t (dcStmt 5) =
      some (("instance", .ref d.n 1000) :: dcE3 d.n x (.ref d.n 0) .nil, t, .norm) := by
  go_simp [dcStmt, Progs.fac_doCreateComponent, dccPrims, dccFn, dcE0, dcE1, dcE3]

theorem dc_s6 (d : DCC) (x : Bool) (t : List String) :
    evalS (dccPrims d) (("instance", .ref d.n 1000) :: dcE3 d.n x (.ref d.n 0) .nil) t (dcStmt 6) =
      some ((match d.initRes with
             | some v => dcE6 d.n x (.ref d.n 0) (.ref d.n (1000 + v)) .nil
             | none => dcE6 d.n x (.ref d.n 0) .nil errC), t ++ ["initialize"], .norm) := by
  cases h : d.initRes <;>
    go_simp [dcStmt, Progs.fac_doCreateComponent, dccPrims, dccFn, dcE0, dcE1, dcE3, dcE6, h]

theorem dc_s7 (d : DCC) (x : Bool) (wi : Val) (ok : Bool) (t : List String) :
    evalS (dccPrims d) (dcE6 d.n x (.ref d.n 0) wi (okOrErr ok)) t (dcStmt 7) =
      some (dcE6 d.n x (.ref d.n 0) wi (okOrErr ok), t, if ok then .norm else .ret (.tuple [.nil, errC])) := by
  cases ok <;> go_simp [dcStmt, Progs.fac_doCreateComponent, dcE0, dcE1, dcE3, dcE6, errC, okOrErr]

/-- the wrapping branch: `wrappedInstance != instance` ⇒ genProxyComponent -/
theorem dc_s8 (d : DCC) (x : Bool) (w : Nat) (t : List String) :
    evalS (dccPrims d) (dcE6 d.n x (.ref d.n 0) (.ref d.n (1000 + w)) .nil) t (dcStmt 8) =
      if w = 0 then some (dcE6 d.n x (.ref d.n 0) (.ref d.n (1000 + w)) .nil, t, .norm)
      else if d.proxyOk then some (dcE6 d.n x (.ref d.n w) (.ref d.n (1000 + w)) .nil, t ++ ["proxy"], .norm)
      else some (dcE6 d.n x .nil (.ref d.n (1000 + w)) errC, t ++ ["proxy"], .ret (.tuple [.nil, errC])) := by
  cases w with
  | zero => go_simp [dcStmt, Progs.fac_doCreateComponent, dcE0, dcE1, dcE3, dcE6]
  | succ k =>
    have h1 : (1000 + (k + 1) == 1000) = false := by simp
    have h2 : 1000 + (k + 1) - 1000 = k + 1 := by omega
    cases hp : d.proxyOk <;>
      go_simp [dcStmt, Progs.fac_doCreateComponent, dccPrims, dccFn, dcE0, dcE1, dcE3, dcE6, hp, h1, h2, errC]


def dcInner : Stmt :=
  match dcStmt 9 with
  | .ifs _ _ [_, _, .ifs _ _ [.ifs _ _ _ [inner]] _] _ => inner
  | _ => .brk

theorem dc_s9_shape : ∃ c1 c2 c3 a b asg, dcStmt 9 = .ifs [] c1 [a, b, .ifs [] c2 [.ifs [] c3 [asg] [dcInner]] []] [] :=
  ⟨_, _, _, _, _, _, rfl⟩

def actualOf (d : DCC) : List Nat := (d.depsEarly ++ d.depsRaw).filter (fun x => !(d.inCrOf x))

/-- the "has been wrapped" check: error iff a dependent of the early reference or of the raw meta is no longer in creation -/
@[simp] theorem dccFn_inCr (d : DCC) (m : Int) (t : List String) :
    dccFn d "self.singletonComponentRegistry.IsSingletonCurrentlyInCreation" [.int m] t = some (.bool (d.inCrOf m.toNat), t) := rfl
@[simp] theorem dccFn_depsRaw (d : DCC) (m : Nat) (t : List String) :
    dccFn d ".GetDependents" [.ref m 0] t = some (.list (d.depsRaw.map encN), t) := rfl
theorem dccFn_depsEarly (d : DCC) (m e : Nat) (he : e ≠ 0) (t : List String) :
    dccFn d ".GetDependents" [.ref m e] t = some (.list (d.depsEarly.map encN), t) := by
  cases e with
  | zero => exact absurd rfl he
  | succ k => simp [dccFn, encN]
@[simp] theorem dccFn_appendAll (d : DCC) (a b : List Val) (t : List String) :
    dccFn d "append..." [.list a, .list b] t = some (.list (a ++ b), t) := rfl
@[simp] theorem dccFn_append_nil (d : DCC) (v : Val) (t : List String) :
    dccFn d "append" [.nil, v] t = some (.list [v], t) := rfl
@[simp] theorem dccFn_append_list (d : DCC) (a : List Val) (v : Val) (t : List String) :
    dccFn d "append" [.list a, v] t = some (.list (a ++ [v]), t) := rfl
@[simp] theorem dccFn_errorf (d : DCC) (vs : List Val) (t : List String) : dccFn d "errors.Errorf" vs t = some (errC, t) := by
  unfold dccFn; split <;> simp_all

/-- the environment inside the `else` branch of the reconciliation -/
def dcE9 (n w e : Nat) : Env :=
  ("err", .nil) :: ("earlySingletonReference", .ref n e) :: dcE6 n true (.ref n w) (.ref n (1000 + w)) .nil

theorem encAcc_nil : encAcc [] = .nil := rfl
theorem encAcc_cons (a : Nat) (l : List Nat) : encAcc (a :: l) = .list ((a :: l).map encN) := rfl

def dcInnerParts : List Stmt × Expr × List Stmt :=
  match dcInner with
  | .ifs init c thn _ => (init, c, thn)
  | _ => ([], .nil, [])
def dcI (i : Nat) : Stmt := dcInnerParts.2.2.getD i .brk
theorem dcInner_shape : dcInner = .ifs dcInnerParts.1 dcInnerParts.2.1 [dcI 0, dcI 1, dcI 2] [] := rfl

def dcE10 (n w e : Nat) (deps : List Nat) : Env := ("dependents", .list (deps.map encN)) :: dcE9 n w e

theorem dc_inner_init (d : DCC) (w e : Nat) (t : List String)
    (hge : dccFn d ".GetDependents" [.ref d.n e] t = some (.list (d.depsEarly.map encN), t)) :
    evalB (dccPrims d) (dcE9 d.n w e) t dcInnerParts.1 = some (dcE10 d.n w e (d.depsEarly ++ d.depsRaw), t, .norm) := by
  go_simp [dcInnerParts, dcInner, dcStmt, Progs.fac_doCreateComponent, dccPrims, dcE10, dcE9, dcE6, dcE3, dcE1, dcE0, hge]

theorem dc_inner_cond (d : DCC) (w e : Nat) (deps : List Nat) (t : List String) :
    evalE (dccPrims d) (dcE10 d.n w e deps) t dcInnerParts.2.1 = some (.bool (!deps.isEmpty), t) := by
  cases deps <;> go_simp [dcInnerParts, dcInner, dcStmt, Progs.fac_doCreateComponent, dcE10]

theorem dc_i0 (d : DCC) (w e : Nat) (deps : List Nat) (t : List String) :
    evalS (dccPrims d) (dcE10 d.n w e deps) t (dcI 0) = some (("actualDependents", .nil) :: dcE10 d.n w e deps, t, .norm) := by
  go_simp [dcI, dcInnerParts, dcInner, dcStmt, Progs.fac_doCreateComponent, dcE10]

theorem dc_i1 (d : DCC) (w e : Nat) (deps : List Nat) (t : List String) :
    evalS (dccPrims d) (("actualDependents", .nil) :: dcE10 d.n w e deps) t (dcI 1) =
      some (("actualDependents", encAcc (deps.filter (fun x => !(d.inCrOf x)))) :: dcE10 d.n w e deps, t, .norm) := by
  simp only [dcI, dcInnerParts, dcInner, dcStmt, Progs.fac_doCreateComponent, List.getD_cons_succ, List.getD_cons_zero, evalS]
  have hcoll : evalE (dccPrims d) (("actualDependents", .nil) :: dcE10 d.n w e deps) t (.var "dependents") =
      some (.list (deps.map encN), t) := by go_simp [dcE10]
  rw [hcoll]
  simp only []
  rw [loopM_collect_nil (fun x => !(d.inCrOf x)) _ (dcE10 d.n w e deps) t (by
    intro i x acc
    cases hk : d.inCrOf x <;> cases acc <;>
      go_simp [dccPrims, dcE10, dcE9, dcE6, dcE3, dcE1, dcE0, encN, encAcc, hk])]

theorem dc_i2 (d : DCC) (w e : Nat) (deps acc : List Nat) (t : List String) :
    evalS (dccPrims d) (("actualDependents", encAcc acc) :: dcE10 d.n w e deps) t (dcI 2) =
      some (("actualDependents", encAcc acc) :: dcE10 d.n w e deps, t,
            if acc.isEmpty then .norm else .ret (.tuple [.nil, errC])) := by
  cases acc <;>
    go_simp [dcI, dcInnerParts, dcInner, dcStmt, Progs.fac_doCreateComponent, dccPrims, dcE10, dcE9, dcE6, dcE3, dcE1, dcE0, encAcc]


theorem dc_inner (d : DCC) (w e : Nat) (t : List String)
    (hge : dccFn d ".GetDependents" [.ref d.n e] t = some (.list (d.depsEarly.map encN), t)) :
    evalS (dccPrims d) (dcE9 d.n w e) t dcInner =
      some (dcE9 d.n w e, t, if (actualOf d).isEmpty then .norm else .ret (.tuple [.nil, errC])) := by
  rw [dcInner_shape]
  cases hd : (d.depsEarly ++ d.depsRaw).isEmpty with
  | true =>
    rw [evalS_ifs_false _ _ _ _ _ _ _ _ _ _ (dc_inner_init d w e t hge) (by rw [dc_inner_cond, hd]; rfl)]
    have hnil : d.depsEarly ++ d.depsRaw = [] := by simpa using hd
    simp [evalB_nil, Env.leave, dcE10, actualOf, hnil]
  | false =>
    rw [evalS_ifs_true _ _ _ _ _ _ _ _ _ _ (dc_inner_init d w e t hge) (by rw [dc_inner_cond, hd]; rfl)]
    rw [evalB_cons, dc_i0]
    simp only []
    rw [evalB_cons, dc_i1]
    simp only []
    rw [evalB_cons, dc_i2]
    cases ha : (actualOf d).isEmpty with
    | true =>
      have : (List.filter (fun x => !d.inCrOf x) (d.depsEarly ++ d.depsRaw)).isEmpty = true := ha
      simp only [this, if_true, evalB_nil, Bool.false_eq_true, if_false]
      simp [Env.leave, dcE10]
      have hl : List.length (dcE9 d.n w e) + 1 + 1 - List.length (dcE9 d.n w e) = 2 := by omega
      rw [hl]; rfl
    | false =>
      have : (List.filter (fun x => !d.inCrOf x) (d.depsEarly ++ d.depsRaw)).isEmpty = false := ha
      simp only [this, if_true, evalB_nil, Bool.false_eq_true, if_false]
      simp [Env.leave, dcE10]
      have hl : List.length (dcE9 d.n w e) + 1 + 1 - List.length (dcE9 d.n w e) = 2 := by omega
      rw [hl]; rfl


/-- consistency of the data: when the early reference IS the raw meta (version 0), its dependents are the raw meta's -/
def dccConsistent (d : DCC) : Prop := d.earlyRes = some (some 0) → d.depsEarly = d.depsRaw

theorem dccFn_depsEarly' (d : DCC) (hc : dccConsistent d) (e : Nat) (he : d.earlyRes = some (some e)) (t : List String) :
    dccFn d ".GetDependents" [.ref d.n e] t = some (.list (d.depsEarly.map encN), t) := by
  cases e with
  | zero => rw [hc he]; rfl
  | succ k => exact dccFn_depsEarly d d.n (k + 1) (by omega) t

def dc9Parts : Expr × Stmt × Stmt × Expr × Expr × Stmt :=
  match dcStmt 9 with
  | .ifs _ c1 [a, b, .ifs _ c2 [.ifs _ c3 [asg] _] _] _ => (c1, a, b, c2, c3, asg)
  | _ => (.nil, .brk, .brk, .nil, .nil, .brk)

theorem dc_s9_shape' : dcStmt 9 =
    .ifs [] dc9Parts.1 [dc9Parts.2.1, dc9Parts.2.2.1,
      .ifs [] dc9Parts.2.2.2.1 [.ifs [] dc9Parts.2.2.2.2.1 [dc9Parts.2.2.2.2.2] [dcInner]] []] [] := rfl


def dcEnv6 (d : DCC) (x : Bool) (ex : Nat) (w : Nat) : Env := dcE6 d.n x (.ref d.n ex) (.ref d.n (1000 + w)) .nil

theorem dc9_c1 (d : DCC) (x : Bool) (ex w : Nat) (t : List String) :
    evalE (dccPrims d) (dcEnv6 d x ex w) t dc9Parts.1 = some (.bool x, t) := by
  go_simp [dc9Parts, dcStmt, Progs.fac_doCreateComponent, dcEnv6, dcE6, dcE3, dcE1, dcE0]

def encEarly (n : Nat) : Option (Option Nat) → Val × Val
  | none => (.nil, errC)
  | some none => (.nil, .nil)
  | some (some e) => (.ref n e, .nil)

def dcE9' (d : DCC) (ex w : Nat) (r : Val × Val) : Env :=
  ("err", r.2) :: ("earlySingletonReference", r.1) :: dcEnv6 d true ex w

theorem dc9_a (d : DCC) (ex w : Nat) (t : List String) :
    evalS (dccPrims d) (dcEnv6 d true ex w) t dc9Parts.2.1 =
      some (dcE9' d ex w (encEarly d.n d.earlyRes), t ++ ["getEarly"], .norm) := by
  rcases h : d.earlyRes with _ | _ | e <;>
    go_simp [dc9Parts, dcStmt, Progs.fac_doCreateComponent, dccPrims, dccFn, dcEnv6, dcE9', dcE6, dcE3, dcE1, dcE0, h, encEarly]

theorem dc9_b (d : DCC) (ex w : Nat) (r : Option (Option Nat)) (t : List String) :
    evalS (dccPrims d) (dcE9' d ex w (encEarly d.n r)) t dc9Parts.2.2.1 =
      some (dcE9' d ex w (encEarly d.n r), t, if r.isSome then .norm else .ret (.tuple [.nil, errC])) := by
  rcases r with _ | _ | e <;>
    go_simp [dc9Parts, dcStmt, Progs.fac_doCreateComponent, dcEnv6, dcE9', dcE6, dcE3, dcE1, dcE0, encEarly, errC]

theorem dc9_c2 (d : DCC) (ex w : Nat) (r : Option Nat) (t : List String) :
    evalE (dccPrims d) (dcE9' d ex w (encEarly d.n (some r))) t dc9Parts.2.2.2.1 = some (.bool r.isSome, t) := by
  rcases r with _ | e <;>
    go_simp [dc9Parts, dcStmt, Progs.fac_doCreateComponent, dcEnv6, dcE9', dcE6, dcE3, dcE1, dcE0, encEarly]

theorem dc9_c3 (d : DCC) (ex w e : Nat) (t : List String) :
    evalE (dccPrims d) (dcE9' d ex w (encEarly d.n (some (some e)))) t dc9Parts.2.2.2.2.1 = some (.bool (ex == 0), t) := by
  go_simp [dc9Parts, dcStmt, Progs.fac_doCreateComponent, dcEnv6, dcE9', dcE6, dcE3, dcE1, dcE0, encEarly]

theorem dc9_asg (d : DCC) (ex w e : Nat) (t : List String) :
    evalS (dccPrims d) (dcE9' d ex w (encEarly d.n (some (some e)))) t dc9Parts.2.2.2.2.2 =
      some (dcE9' d e w (encEarly d.n (some (some e))), t, .norm) := by
  go_simp [dc9Parts, dcStmt, Progs.fac_doCreateComponent, dcEnv6, dcE9', dcE6, dcE3, dcE1, dcE0, encEarly]


theorem dcE9_eq (d : DCC) (w e : Nat) : dcE9' d w w (encEarly d.n (some (some e))) = dcE9 d.n w e := rfl

theorem leave9 (d : DCC) (ex w : Nat) (r : Val × Val) (x : Bool) :
    Env.leave (dcE9' d ex w r) (dcEnv6 d x ex w).length = dcEnv6 d true ex w := by
  simp [Env.leave, dcE9', dcEnv6, dcE6, dcE3, dcE1, dcE0]

@[simp] theorem len6 (d : DCC) (x : Bool) (ex w : Nat) : (dcEnv6 d x ex w).length = 8 := by
  simp [dcEnv6, dcE6, dcE3, dcE1, dcE0]
@[simp] theorem len9 (d : DCC) (ex w : Nat) (r : Val × Val) : (dcE9' d ex w r).length = 10 := by
  simp [dcE9', dcEnv6, dcE6, dcE3, dcE1, dcE0]
@[simp] theorem drop9 (d : DCC) (ex w : Nat) (r : Val × Val) : List.drop 2 (dcE9' d ex w r) = dcEnv6 d true ex w := by
  simp [dcE9']

def s9Result (d : DCC) (x : Bool) (w : Nat) (t : List String) : Option (Env × List String × Ctl) :=
  if !x then some (dcEnv6 d x w w, t, .norm) else
  match d.earlyRes with
  | none => some (dcEnv6 d true w w, t ++ ["getEarly"], .ret (.tuple [.nil, errC]))
  | some none => some (dcEnv6 d true w w, t ++ ["getEarly"], .norm)
  | some (some e) =>
    if w = 0 then some (dcEnv6 d true e w, t ++ ["getEarly"], .norm)
    else some (dcEnv6 d true w w, t ++ ["getEarly"], if (actualOf d).isEmpty then .norm else .ret (.tuple [.nil, errC]))

theorem dc_s9 (d : DCC) (hc : dccConsistent d) (x : Bool) (w : Nat) (t : List String) :
    evalS (dccPrims d) (dcEnv6 d x w w) t (dcStmt 9) = s9Result d x w t := by
  rw [dc_s9_shape']
  unfold s9Result
  cases x with
  | false =>
    rw [evalS_ifs_false _ _ _ _ _ _ _ _ _ _ (evalB_nil _ _ _) (dc9_c1 d false w w t)]
    simp [evalB_nil, Env.leave]
  | true =>
    rw [evalS_ifs_true _ _ _ _ _ _ _ _ _ _ (evalB_nil _ _ _) (dc9_c1 d true w w t)]
    rw [evalB_cons, dc9_a]
    simp only []
    rw [evalB_cons, dc9_b]
    rcases he : d.earlyRes with _ | _ | e
    · simp [Env.leave]
    · simp only [Option.isSome, if_true]
      rw [evalB_cons, evalS_ifs_false _ _ _ _ _ _ _ _ _ _ (evalB_nil _ _ _) (dc9_c2 d w w none _)]
      simp [evalB_nil, Env.leave]
    · simp only [Option.isSome, if_true]
      rw [evalB_cons, evalS_ifs_true _ _ _ _ _ _ _ _ _ _ (evalB_nil _ _ _) (dc9_c2 d w w (some e) _)]
      by_cases hw : w = 0
      · subst hw
        rw [evalB_cons, evalS_ifs_true _ _ _ _ _ _ _ _ _ _ (evalB_nil _ _ _) (dc9_c3 d 0 0 e _)]
        rw [evalB_cons, dc9_asg]
        simp [evalB_nil, Env.leave]
      · have hb : (w == 0) = false := by simpa using hw
        rw [evalB_cons, evalS_ifs_false _ _ _ _ _ _ _ _ _ _ (evalB_nil _ _ _) (by rw [dc9_c3, hb])]
        rw [evalB_cons, dcE9_eq, dc_inner d w e _ (dccFn_depsEarly' d hc e he _)]
        cases (actualOf d).isEmpty <;> simp [hw, evalB_nil, Env.leave, ← dcE9_eq]


theorem dc_s10 (d : DCC) (x : Bool) (ex w : Nat) (t : List String) :
    evalS (dccPrims d) (dcEnv6 d x ex w) t (dcStmt 10) = some (dcEnv6 d x ex w, t, .ret (.tuple [.ref d.n ex, .nil])) := by
  go_simp [dcStmt, Progs.fac_doCreateComponent, dcEnv6, dcE6, dcE3, dcE1, dcE0]

/-- doCreateComponent, regenerated: its result and the order of its effectful calls, for every behaviour of its
    collaborators -/
theorem doCreateComponent_sem (d : DCC) (hc : dccConsistent d) :
    run (dccPrims d) Progs.fac_doCreateComponent [.int d.n, .ref d.n 0] [] =
      some (encDecision d.n (createDecision d).1, (createDecision d).2) := by
  simp only [run, dc_params, dc_body, List.length_cons, List.length_nil, if_true, List.zip_cons_cons, List.zip_nil_right]
  rw [show ([("name", Val.int (d.n : Int)), ("meta", Val.ref d.n 0)] : Env) = dcE0 d.n from rfl]
  rw [evalB_cons, dc_s0]; simp only []
  rw [evalB_cons, dc_s1]; simp only []
  rw [evalB_cons, dc_s2]; simp only []
  rw [evalB_cons, dc_s3]; simp only []
  rw [show (if d.populateOk = true then Val.nil else errC) = okOrErr d.populateOk from rfl]
  rw [evalB_cons, dc_s4]
  unfold createDecision
  have hx : (d.singleton && d.allow && d.inCrOf d.n) = exposureOf d := rfl
  simp only [hx]
  cases hp : d.populateOk with
  | false => cases exposureOf d <;> simp [encDecision]
  | true =>
    simp only [if_true, okOrErr, Bool.not_true, Bool.false_eq_true, if_false]
    rw [evalB_cons, dc_s5]; simp only []
    rw [evalB_cons, dc_s6]
    cases hi : d.initRes with
    | none =>
      simp only []
      rw [show errC = okOrErr false from rfl, evalB_cons, dc_s7]
      cases exposureOf d <;> simp [encDecision, okOrErr]
    | some w =>
      simp only []
      rw [show (Val.nil : Val) = okOrErr true from rfl, evalB_cons, dc_s7]
      simp only [if_true, okOrErr]
      rw [evalB_cons, dc_s8]
      by_cases hw : w = 0
      · subst hw
        simp only [if_true]
        rw [show dcE6 d.n (exposureOf d) (Val.ref d.n 0) (Val.ref d.n (1000 + 0)) Val.nil = dcEnv6 d (exposureOf d) 0 0 from rfl]
        rw [evalB_cons, dc_s9 d hc]
        unfold s9Result
        cases hx2 : exposureOf d with
        | false =>
          simp only [Bool.not_false, if_true]
          rw [evalB_cons, dc_s10]
          simp [encDecision]
        | true =>
          simp only [Bool.not_true, Bool.false_eq_true, if_false]
          rcases he : d.earlyRes with _ | _ | e
          · simp [encDecision]
          · simp only []
            rw [evalB_cons, dc_s10]
            simp [encDecision]
          · simp only [if_true]
            rw [evalB_cons, dc_s10]
            simp [encDecision]
      · simp only [hw, if_false]
        cases hpr : d.proxyOk with
        | false => cases exposureOf d <;> simp [encDecision, hw]
        | true =>
          simp only [if_true]
          rw [show dcE6 d.n (exposureOf d) (Val.ref d.n w) (Val.ref d.n (1000 + w)) Val.nil = dcEnv6 d (exposureOf d) w w from rfl]
          rw [evalB_cons, dc_s9 d hc]
          unfold s9Result
          cases hx2 : exposureOf d with
          | false =>
            simp only [Bool.not_false, if_true]
            rw [evalB_cons, dc_s10]
            simp [encDecision, hw]
          | true =>
            simp only [Bool.not_true, Bool.false_eq_true, if_false]
            rcases he : d.earlyRes with _ | _ | e
            · simp [encDecision, hw]
            · simp only []
              rw [evalB_cons, dc_s10]
              simp [encDecision, hw]
            · simp only [hw, if_false]
              cases ha : (actualOf d).isEmpty with
              | true =>
                have h' : (∀ a ∈ d.depsEarly, d.inCrOf a = true) ∧ (∀ a ∈ d.depsRaw, d.inCrOf a = true) := by
                  have : ((d.depsEarly ++ d.depsRaw).filter (fun x => !(d.inCrOf x))).isEmpty = true := ha
                  simpa using this
                simp only [if_true]
                rw [evalB_cons, dc_s10]
                simp [encDecision, hw]
                rw [if_pos h']
                exact ⟨rfl, rfl⟩
              | false =>
                have h' : ¬ ((∀ a ∈ d.depsEarly, d.inCrOf a = true) ∧ (∀ a ∈ d.depsRaw, d.inCrOf a = true)) := by
                  have : ((d.depsEarly ++ d.depsRaw).filter (fun x => !(d.inCrOf x))).isEmpty = false := ha
                  intro hcontra
                  have : ((d.depsEarly ++ d.depsRaw).filter (fun x => !(d.inCrOf x))).isEmpty = true := by simpa using hcontra
                  simp_all
                simp [encDecision, hw]
                rw [if_neg h']
                exact ⟨rfl, rfl⟩



/-- the result of doCreateComponent without the call trace -/
def createResult (d : DCC) : Option Nat :=
  if !d.populateOk then none else
  match d.initRes with
  | none => none
  | some w =>
    if w ≠ 0 ∧ !d.proxyOk then none else
    if !(d.singleton && d.allow && d.inCrOf d.n) then some w else
    match d.earlyRes with
    | none => none
    | some none => some w
    | some (some e) =>
      if w = 0 then some e
      else if ((d.depsEarly ++ d.depsRaw).filter (fun x => !(d.inCrOf x))).isEmpty then some w
      else none

theorem createDecision_fst (d : DCC) : (createDecision d).1 = createResult d := by
  unfold createDecision createResult
  simp only []
  repeat' split
  all_goals simp_all

end Ioc.Sem
