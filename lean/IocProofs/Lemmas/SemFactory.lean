/-
  The regenerated program of factory.go `doGetComponent`, run over the model registry, is one `Act.getOrCreate` of M1.
-/
import Ioc.SemFactory
import IocProofs.Lemmas.GoTactics
namespace Ioc.Sem
open Ioc Ioc.Go Ioc.Reg


theorem doGetComponent_sem (early : Except Err Obj) (create : Body) (r : Reg) (n : Nat) :
    run (facPrims early create) Progs.fac_doGetComponent [.int n] r = some (doGet r n early create) := by
  unfold doGet
  cases hg : (r.get n true early).1 with
  | error e => go_simp [Progs.fac_doGetComponent, facPrims, facFn, hg, encGet, errVal]
  | ok oo =>
    cases oo with
    | some o =>
      by_cases hin : n ∈ r.inCr
      · go_simp [Progs.fac_doGetComponent, facPrims, facFn, hg, encGet, encOpt, encObj, errVal, hin]
      · go_simp [Progs.fac_doGetComponent, facPrims, facFn, hg, encGet, encOpt, encObj, errVal, hin]
    | none =>
      cases hb : ((r.get n true early).2.beginCreate n).1 with
      | some o => go_simp [Progs.fac_doGetComponent, facPrims, facFn, facHfn, hg, hb, encGet, encOpt, encObj, errVal]
      | none =>
        cases hc : create ((r.get n true early).2.beginCreate n).2 with
        | mk res r2 =>
          cases res with
          | ok o => go_simp [Progs.fac_doGetComponent, facPrims, facFn, facHfn, hg, hb, hc, encGet, encOpt, encObj, encRes, errVal]
          | error e => go_simp [Progs.fac_doGetComponent, facPrims, facFn, facHfn, hg, hb, hc, encGet, encOpt, encObj, encRes, errVal]

/-- what createComponent does to the registry in M1: doCreateComponent registers the early-reference factory iff the name
    is in creation (factory.go:192-198), then the body's operations run; `res` is what the creation returns -/
def createOf (n : Nat) (body : List Act) (res : Except Err Obj) : Body :=
  fun r1 => (res, (execs (if r1.isInCreation n then r1.addFactory n else r1) body).1)

/-- one `Act.getOrCreate` of M1 is the regenerated doGetComponent (composed with the registry methods) -/
theorem doGet_is_exec (r : Reg) (n : Nat) (early : Except Err Obj) (body : List Act) (res : Except Err Obj) :
    (doGet r n early (createOf n body res)).2 = (exec r (.getOrCreate n early body res)).1 := by
  unfold doGet
  cases hg : (r.get n true early).1 with
  | error e => simp [exec, hg]
  | ok oo =>
    cases oo with
    | some o => simp [exec, hg]
    | none =>
      cases hb : ((r.get n true early).2.beginCreate n).1 with
      | some o => simp [exec, hg, hb]
      | none => simp [exec, hg, hb, createOf, Reg.startCreate]

end Ioc.Sem
