/-
  Lemmas about the binder model (Ioc.Value.Binder): what a lookup answers after Set, at the path that was set, below it
  and above it.  Core Lean only.
-/
import Ioc.Value
namespace Ioc.Value

theorem alookup_ainsert_self {ν : Type} (k : Bytes) (v : ν) (m : List (Bytes × ν)) :
    alookup k (ainsert k v m) = some v := by
  induction m with
  | nil => simp [ainsert, alookup]
  | cons hd tl ih =>
    obtain ⟨k', v'⟩ := hd
    by_cases h : k' = k
    · simp [ainsert, alookup, h]
    ·       simp [ainsert, alookup, h, ih]

/-- the path that was set answers with the value that was set -/
theorem searchMap_deepSet_same (p : List Bytes) (hp : p ≠ []) (m : List (Bytes × Val)) (v : Val) :
    searchMap (deepSet m p v) p = v := by
  induction p generalizing m with
  | nil => exact absurd rfl hp
  | cons k rest ih =>
    cases rest with
    | nil => simp [deepSet, searchMap, alookup_ainsert_self]
    | cons k2 rest2 =>
      simp only [deepSet, searchMap, alookup_ainsert_self]
      exact ih (by simp) _

/-- a path BELOW the one that was set is answered from the value that was set -/
theorem searchMap_deepSet_below (p : List Bytes) (hp : p ≠ []) (q : List Bytes) (hq : q ≠ [])
    (m vm : List (Bytes × Val)) :
    searchMap (deepSet m p (.map vm)) (p ++ q) = searchMap vm q := by
  induction p generalizing m with
  | nil => exact absurd rfl hp
  | cons k rest ih =>
    cases rest with
    | nil =>
      cases q with
      | nil => exact absurd rfl hq
      | cons q1 qs => simp [deepSet, searchMap, alookup_ainsert_self]
    | cons k2 rest2 =>
      simp only [deepSet, List.cons_append, searchMap, alookup_ainsert_self]
      exact ih (by simp) _

/-- a path ABOVE the one that was set answers with a map, and looking the rest of the path up in that map gives the
    value that was set: the change is seen through every ancestor -/
theorem searchMap_deepSet_above (a : List Bytes) (ha : a ≠ []) (q : List Bytes) (hq : q ≠ [])
    (m : List (Bytes × Val)) (v : Val) :
    ∃ sub, searchMap (deepSet m (a ++ q) v) a = .map sub ∧ searchMap sub q = v := by
  induction a generalizing m with
  | nil => exact absurd rfl ha
  | cons k rest ih =>
    cases rest with
    | nil =>
      cases q with
      | nil => exact absurd rfl hq
      | cons q1 qs =>
        simp only [List.cons_append, List.nil_append, deepSet, searchMap, alookup_ainsert_self]
        exact ⟨_, rfl, searchMap_deepSet_same (q1 :: qs) (by simp) _ v⟩
    | cons k2 rest2 =>
      obtain ⟨sub, h1, h2⟩ := ih (by simp)
        (match alookup k m with
          | some (.map m') => m'
          | _ => [])
      refine ⟨sub, ?_, h2⟩
      simp only [List.cons_append, deepSet, searchMap, alookup_ainsert_self]
      exact h1

theorem splitDots_ne_nil (s : Bytes) : splitDots s ≠ [] := by
  induction s with
  | nil => simp [splitDots]
  | cons c rest ih =>
    simp only [splitDots]
    split
    · simp
    · split <;> simp

theorem lowerAscii_idem (s : Bytes) : lowerAscii (lowerAscii s) = lowerAscii s := by
  induction s with
  | nil => rfl
  | cons c rest ih =>
    simp only [lowerAscii, List.map_cons, List.cons.injEq] at ih ⊢
    refine ⟨?_, ih⟩
    unfold lowerByte
    by_cases h : 65 ≤ c ∧ c ≤ 90
    · have h2 : ¬ (65 ≤ c + 32 ∧ c + 32 ≤ 90) := by
        obtain ⟨h1, h3⟩ := h
        intro ⟨_, h5⟩
        have : c.toNat ≤ 90 := h3
        have : 65 ≤ c.toNat := h1
        have h6 : (c + 32).toNat = c.toNat + 32 := by
          rw [UInt8.toNat_add]; simp; omega
        have : (c + 32).toNat ≤ 90 := h5
        omega
      simp [h, h2]
    · simp [h]

end Ioc.Value

namespace Ioc.Value

theorem splitDots_append (x y : Bytes) : splitDots (x ++ 46 :: y) = splitDots x ++ splitDots y := by
  induction x with
  | nil =>
    have hy := splitDots_ne_nil y
    simp only [List.nil_append, splitDots]
    cases h : splitDots y with
    | nil => exact absurd h hy
    | cons hd tl => simp
  | cons c x ih =>
    have hx := splitDots_ne_nil x
    simp only [List.cons_append, splitDots, ih]
    cases h : splitDots x with
    | nil => exact absurd h hx
    | cons hd tl =>
      simp only [List.cons_append]
      split <;> simp

theorem lowerAscii_append_dot (x y : Bytes) : lowerAscii (x ++ 46 :: y) = lowerAscii x ++ 46 :: lowerAscii y := by
  simp [lowerAscii, lowerByte]

/-- Binder.get answers from the override layer whenever that layer holds a value for the path -/
theorem Binder.get_of_over (b : Binder) (path : Bytes) (v : Val) (hv : v ≠ .null)
    (h : searchMap b.over (splitDots (lowerAscii path)) = v) : b.get path = v := by
  unfold Binder.get
  cases v <;> first | exact absurd rfl hv | simp only [h]

theorem set_get (b : Binder) (path path' : Bytes) (v : Val) (hc : lowerAscii path' = lowerAscii path)
    (hv : lowerKeys v ≠ .null) : (b.set path v).get path' = lowerKeys v := by
  apply Binder.get_of_over _ _ _ hv
  simp only [Binder.set, hc]
  exact searchMap_deepSet_same _ (splitDots_ne_nil _) _ _

theorem set_seen_through_ancestor (b : Binder) (a q : Bytes) (v : Val) :
    ∃ sub, (b.set (a ++ 46 :: q) v).get a = .map sub ∧ searchMap sub (splitDots (lowerAscii q)) = lowerKeys v := by
  obtain ⟨sub, h1, h2⟩ := searchMap_deepSet_above (splitDots (lowerAscii a)) (splitDots_ne_nil _)
    (splitDots (lowerAscii q)) (splitDots_ne_nil _) b.over (lowerKeys v)
  refine ⟨sub, ?_, h2⟩
  apply Binder.get_of_over _ _ _ (by simp)
  simp only [Binder.set, lowerAscii_append_dot, splitDots_append]
  exact h1

theorem set_seen_below (b : Binder) (a q : Bytes) (vm : List (Bytes × Val)) (w : Val) (hw : w ≠ .null)
    (h : searchMap (lowerKeysM vm) (splitDots (lowerAscii q)) = w) :
    (b.set a (.map vm)).get (a ++ 46 :: q) = w := by
  apply Binder.get_of_over _ _ _ hw
  simp only [Binder.set, lowerAscii_append_dot, splitDots_append, lowerKeys]
  rw [searchMap_deepSet_below _ (splitDots_ne_nil _) _ (splitDots_ne_nil _)]
  exact h

end Ioc.Value
