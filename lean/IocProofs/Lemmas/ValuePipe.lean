/-
  Evaluation of the value / prefix pipelines on a whole-tag placeholder `${k}` and on a plain key (C17, C18).
-/
import IocProofs.Lemmas.ValueConvert
namespace Ioc.Value
open Ioc.Tag

/-- characters of a configuration key as the theorems use them: letters, digits, `.`, `_`, `-` -/
def keyChar (b : UInt8) : Bool :=
  isDigit b || (97 ≤ b && b ≤ 122) || (65 ≤ b && b ≤ 90) || b == 46 || b == 95 || b == 45

def PlainKey (k : Bytes) : Bool := !k.isEmpty && k.all keyChar

/-- the tag text `${k}` -/
def placeholder (k : Bytes) : Bytes := cDollar :: 123 :: (k ++ [125])

theorem keyChar_toNat (b : UInt8) (h : keyChar b = true) :
    (48 ≤ b.toNat ∧ b.toNat ≤ 57) ∨ (97 ≤ b.toNat ∧ b.toNat ≤ 122) ∨ (65 ≤ b.toNat ∧ b.toNat ≤ 90) ∨
      b.toNat = 46 ∨ b.toNat = 95 ∨ b.toNat = 45 := by
  unfold keyChar at h
  simp only [Bool.or_eq_true, Bool.and_eq_true, decide_eq_true_eq, beq_iff_eq, isDigit_iff] at h
  rcases h with ((((h | h) | h) | h) | h) | h
  · exact Or.inl h
  · right; left; rw [UInt8.le_iff_toNat_le, UInt8.le_iff_toNat_le] at h; simpa using h
  · right; right; left; rw [UInt8.le_iff_toNat_le, UInt8.le_iff_toNat_le] at h; simpa using h
  · subst h; simp
  · subst h; simp
  · subst h; simp

theorem keyChar_ne (b c : UInt8) (h : keyChar b = true)
    (hc : c.toNat = 44 ∨ c.toNat = 123 ∨ c.toNat = 125 ∨ c.toNat = 91 ∨ c.toNat = 93 ∨ c.toNat = 40 ∨ c.toNat = 41 ∨
      c.toNat = 58 ∨ c.toNat = 36 ∨ c.toNat = 35 ∨ c.toNat = 61 ∨ c.toNat = 32) : b ≠ c := by
  intro e
  subst e
  have := keyChar_toNat b h
  omega

theorem plainKey_mem (k : Bytes) (hk : PlainKey k = true) : ∀ b ∈ k, keyChar b = true := by
  simp only [PlainKey, Bool.and_eq_true, List.all_eq_true] at hk
  exact hk.2

theorem keyChar_brackets (b : UInt8) (h : keyChar b = true) : b ≠ cComma ∧ isLB b = false ∧ isRB b = false := by
  refine ⟨keyChar_ne b _ h (by decide), ?_, ?_⟩
  · have h1 := keyChar_ne b 123 h (by decide)
    have h2 := keyChar_ne b 91 h (by decide)
    have h3 := keyChar_ne b 40 h (by decide)
    simp [isLB, h1, h2, h3]
  · have h1 := keyChar_ne b 125 h (by decide)
    have h2 := keyChar_ne b 93 h (by decide)
    have h3 := keyChar_ne b 41 h (by decide)
    simp [isRB, h1, h2, h3]

theorem keyChar_notBrace (b : UInt8) (h : keyChar b = true) : notBrace b = true := by
  have h1 := keyChar_ne b 123 h (by decide)
  have h2 := keyChar_ne b 125 h (by decide)
  simp [notBrace, h1, h2]

theorem WFpre_plain_append (sep : UInt8) (isL isR : UInt8 → Bool) (k t : Bytes) (d : Nat)
    (h : ∀ b ∈ k, b ≠ sep ∧ isL b = false ∧ isR b = false) :
    WFpre sep isL isR (k ++ t) d = WFpre sep isL isR t d := by
  induction k with
  | nil => rfl
  | cons a k ih =>
    have ha := h a (by simp)
    simp only [List.cons_append, WFpre, ha.1, ha.2.1, ha.2.2, Bool.false_eq_true, if_false]
    exact ih (fun b hb => h b (by simp [hb]))

theorem WFpre_placeholder (k : Bytes) (hk : PlainKey k = true) : WFpre cComma isLB isRB (placeholder k) 0 = true := by
  have hp := fun b hb => keyChar_brackets b (plainKey_mem k hk b hb)
  unfold placeholder
  have e1 : isLB cDollar = false := by decide
  have e2 : isRB cDollar = false := by decide
  have e3 : cDollar ≠ cComma := by decide
  have e4 : isLB 123 = true := by decide
  simp only [WFpre, e1, e2, e3, e4, Bool.false_eq_true, if_false, if_true]
  rw [WFpre_plain_append cComma isLB isRB k [125] 1 hp]
  decide

theorem WFpre_key (k : Bytes) (hk : PlainKey k = true) : WFpre cComma isLB isRB k 0 = true :=
  WFpre_plain _ _ _ _ (fun b hb => keyChar_brackets b (plainKey_mem k hk b hb))

theorem idxFrom_none_of_not_mem (c : UInt8) (s : Bytes) (h : ∀ b ∈ s, b ≠ c) : idxFrom c s = none := by
  induction s with
  | nil => rfl
  | cons b r ih => simp [idxFrom, h b (by simp), ih (fun x hx => h x (by simp [hx]))]

theorem splitColon_key (k : Bytes) (hk : PlainKey k = true) : splitColon k = none := by
  unfold splitColon
  rw [idxFrom_none_of_not_mem 58 k (fun b hb => keyChar_ne b 58 (plainKey_mem k hk b hb) (by decide))]

theorem findEl_key (x : UInt8) (hx : x = cDollar ∨ x = cHash) (k : Bytes) (hk : PlainKey k = true) : findEl x k = none := by
  apply findEl_none_of_no_x
  intro b hb
  rcases hx with hx | hx <;> subst hx
  · exact keyChar_ne b _ (plainKey_mem k hk b hb) (by decide)
  · exact keyChar_ne b _ (plainKey_mem k hk b hb) (by decide)

/-- the value is really there: not null, not an empty map or list (those count as absent) -/
def present (v : Val) : Bool := v != .null && v != .map [] && v != .list []

theorem resolveQuote_key (J : Json) (cfg : Cfg) (k : Bytes) (hk : PlainKey k = true) (hp : present (cfg k) = true) :
    resolveQuote J cfg k = .ok (formatAny J (cfg k)) := by
  simp only [present, Bool.and_eq_true, bne_iff_ne, ne_eq] at hp
  unfold resolveQuote
  simp [splitColon_key k hk, hp.1.1, hp.1.2, hp.2]

theorem quoteStage_placeholder (J : Json) (cfg : Cfg) (k : Bytes) (hk : PlainKey k = true) (hp : present (cfg k) = true)
    (hn : findEl cDollar (formatAny J (cfg k)) = none) :
    quoteStage J cfg (placeholder k) = .ok (formatAny J (cfg k)) := by
  unfold quoteStage placeholder
  have := replaceAllF_one cDollar (resolveQuote J cfg) .quote (cDollar :: 123 :: (k ++ [125])) [] k [] (formatAny J (cfg k))
    (by have := findEl_placeholder k (fun b hb => keyChar_notBrace b (plainKey_mem k hk b hb)); simpa using this)
    (resolveQuote_key J cfg k hk hp) (by simpa using hn)
  simpa using this

theorem quoteStage_plain (J : Json) (cfg : Cfg) (s : Bytes) (h : findEl cDollar s = none) : quoteStage J cfg s = .ok s :=
  replaceAllF_none _ _ _ _ _ h

theorem exprStage_plain (J : Json) (evalE : Bytes → Except Err Val) (s : Bytes) (h : findEl cHash s = none) :
    exprStage J evalE s = .ok s :=
  replaceAllF_none _ _ _ _ _ h

theorem validateStage_noValidate (args : Args) (ty : FieldTy) (b : Option FVal) :
    validateStage noValidate args ty b = .ok b := by
  unfold validateStage noValidate
  cases Tag.find args kValidate <;> simp

end Ioc.Value
