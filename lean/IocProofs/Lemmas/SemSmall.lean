/-
  Semantic theorems for the REGENERATED registry readers, holder constructors and GetAllProperties (interpretation: Ioc.SemSmall).
-/
import Ioc.SemSmall
import IocProofs.Lemmas.GoTactics
set_option linter.unusedSimpArgs false
namespace Ioc.Sem
open Ioc Ioc.Go

/-- GetSingleton: the registered object, or an error naming the missing singleton; the registry is not changed -/
theorem sregGetSingleton_sem (n : String) (w : CMap) :
    run srPrims Progs.sreg_GetSingleton [.str n] w =
      some (match cmLoad w n with
            | some j => .tuple [.ref j 0, .nil]
            | none => .tuple [.nil, .str ("singleton not exist: " ++ n)], w) := by
  cases hl : cmLoad w n <;> go_simp [Progs.sreg_GetSingleton, srPrims, srFn, hl]

theorem sregContains_sem (n : String) (w : CMap) :
    run srPrims Progs.sreg_ContainsSingleton [.str n] w = some (.bool (cmLoad w n).isSome, w) := by
  cases hl : cmLoad w n <;> go_simp [Progs.sreg_ContainsSingleton, srPrims, srFn, hl]

/-! GetSingletonNames: the literal handed to Range appends to the captured `names` -/

def gnClosure : List String × List Stmt :=
  match Progs.sreg_GetSingletonNames.body with
  | [_, .hcallS _ _ _ ps b, _] => (ps, b)
  | _ => ([], [])

theorem gn_shape : Progs.sreg_GetSingletonNames.body =
    [.define ["names"] .nil, .hcallS [] "self.componentsMap.Range" [] gnClosure.1 gnClosure.2, .ret [(.var "names")]] := rfl

def envGN (acc : List String) : Env := [("names", strsNil acc)]

def gnHandler : HandlerE CMap := fun as env' w'' =>
  if gnClosure.1.length = as.length then
    match evalB srPrims ((gnClosure.1.zip as) ++ env') w'' gnClosure.2 with
    | some (e2, w3, .ret v) => some (v, Env.leave e2 env'.length, w3)
    | some (e2, w3, .norm) => some (.tuple [], Env.leave e2 env'.length, w3)
    | _ => none
  else none

theorem srFn_append (acc : List String) (k : String) (w : CMap) :
    srFn "append" [strsNil acc, .str k] w = some (strsNil (acc ++ [k]), w) := by
  cases acc with
  | nil => rfl
  | cons x r => simp [strsNil, srFn]

theorem gn_closure (acc : List String) (n : String) (i : Nat) (w : CMap) :
    gnHandler [.str n, .ref i 0] (envGN acc) w = some (.bool true, envGN (acc ++ [n]), w) := by
  unfold gnHandler
  rw [show gnClosure.1 = ["key", "_"] from rfl]
  simp only [List.length_cons, List.length_nil, if_true, List.zip_cons_cons, List.zip_nil_right]
  go_simp [gnClosure, Progs.sreg_GetSingletonNames, srPrims, srFn_append, envGN]

theorem rangeLoopG_gn : ∀ (es : CMap) (acc : List String) (w : CMap),
    rangeLoopG gnHandler es (envGN acc) w = some (.tuple [], envGN (acc ++ es.map (·.1)), w) := by
  intro es
  induction es with
  | nil => intro acc w; simp [rangeLoopG]
  | cons e rest ih =>
    intro acc w
    obtain ⟨n, i⟩ := e
    simp only [rangeLoopG, gn_closure]
    rw [ih]
    simp [List.append_assoc]

/-- GetSingletonNames: the names in the order in which the map enumerates its entries — nothing else orders them; an empty
    registry gives a nil slice -/
theorem sregNames_sem (w : CMap) :
    run srPrims Progs.sreg_GetSingletonNames [] w = some (strsNil (w.map (·.1)), w) := by
  simp only [run, gn_shape, show Progs.sreg_GetSingletonNames.params = [] from rfl, List.length_nil, if_true, List.zip_nil_right]
  rw [evalB_cons]
  have h0 : evalS srPrims [] w (.define ["names"] .nil) = some (envGN [], w, .norm) := by
    go_simp [envGN, strsNil]
  rw [h0]; simp only []
  rw [evalB_cons]
  have h1 : evalS srPrims (envGN []) w (.hcallS [] "self.componentsMap.Range" [] gnClosure.1 gnClosure.2) =
      some (envGN (w.map (·.1)), w, .norm) := by
    rw [evalS]
    simp only [evalEs]
    have key : ∀ (h1 h2 : HandlerE CMap), (∀ as e w'', h1 as e w'' = h2 as e w'') →
        srPrims.hfnE "self.componentsMap.Range" [] h1 (envGN []) w = srPrims.hfnE "self.componentsMap.Range" [] h2 (envGN []) w := by
      intro h1 h2 hh
      have : h1 = h2 := funext fun as => funext fun e => funext fun w'' => hh as e w''
      rw [this]
    rw [key _ gnHandler (by
      intro as e w''
      unfold gnHandler
      by_cases hlen : gnClosure.1.length = as.length
      · simp only [hlen, if_true]
        cases evalB srPrims (gnClosure.1.zip as ++ e) w'' gnClosure.2 with
        | none => rfl
        | some r => obtain ⟨e2, w3, c⟩ := r; cases c <;> rfl
      · simp only [hlen, if_false])]
    have hr : srPrims.hfnE "self.componentsMap.Range" [] gnHandler (envGN []) w = rangeLoopG gnHandler w (envGN []) w := rfl
    rw [hr, rangeLoopG_gn]
    simp
  rw [h1]; simp only []
  go_simp [envGN]

/-- GetSingletonCount: the number of names -/
theorem sregCount_sem (w : CMap) :
    run srPrims Progs.sreg_GetSingletonCount [] w = some (.int w.length, w) := by
  cases w with
  | nil => go_simp [Progs.sreg_GetSingletonCount, srPrims, srFn, strsNil]
  | cons e rest => go_simp [Progs.sreg_GetSingletonCount, srPrims, srFn, strsNil]

/-! ### holders -/

/-- NewHolder: the definition's own Base, the definition, not embedded, no outer holder; NewEmbedHolder: the embedded
    struct's Base, the OUTER holder's definition, embedded, the outer holder as parent -/
theorem newHolder_sem (m : Nat) :
    run hoPrims Progs.holder_NewHolder [.ref m 1] () =
      some (.tuple [.str "Holder", .ref m 130, .ref m 1, .bool false, .nil], ()) := by
  go_simp [Progs.holder_NewHolder, hoPrims, hoFn]

theorem newEmbedHolder_sem (b hb hm he hh : Val) :
    run hoPrims Progs.holder_NewEmbedHolder [b, .tuple [.str "Holder", hb, hm, he, hh]] () =
      some (.tuple [.str "Holder", b, hm, .bool true, .tuple [.str "Holder", hb, hm, he, hh]], ()) := by
  go_simp [Progs.holder_NewEmbedHolder, hoPrims, hoFn]

/-! ### GetAllProperties -/

def gaBody : List Stmt := match Progs.meta_GetAllProperties.body with | [_, .range _ _ _ b, _] => b | _ => []
theorem ga_shape : Progs.meta_GetAllProperties.body =
    [.define ["props"] .nil, .range "_" "groupNodes" (.glob "self.propertyGroup") gaBody, .ret [(.var "props")]] := rfl

/-- nil until a group is appended (a group may be empty: `append(nil, empty...)` of a non-nil empty slice is that slice) -/
def propsAcc : Option (List Nat) → Val
  | none => .nil
  | some l => .list (l.map (fun i => Val.ref i 20))

def gaAcc (acc : Option (List Nat)) (g : List Nat) : Option (List Nat) := some (acc.getD [] ++ g)

theorem ga_loop (gs : List (String × List Nat))
    (f : Nat → Val → Env → Unit → Option (Env × Unit × Ctl))
    (hf : ∀ n kk (g : List Nat) acc, f n (.tuple [kk, .list (g.map (fun i => Val.ref i 20))]) [("props", propsAcc acc)] () =
      some ([("props", propsAcc (gaAcc acc g))], (), .norm)) :
    ∀ (l : List (String × List Nat)) (i : Nat) (acc : Option (List Nat)),
      loopM f i (l.map (fun g => Val.tuple [.str g.1, .list (g.2.map (fun i => Val.ref i 20))])) [("props", propsAcc acc)] () =
        some ([("props", propsAcc (l.foldl (fun a g => gaAcc a g.2) acc))], (), .norm) := by
  intro l
  induction l with
  | nil => intro i acc; simp [loopM]
  | cons g rest ih =>
    intro i acc
    simp only [List.map_cons, loopM, hf, List.foldl_cons]
    exact ih (i + 1) _

/-- GetAllProperties: the groups CONCATENATED IN THE ORDER IN WHICH THE MAP RANGE ENUMERATES THEM — the order of the
    properties of different types in the result is that of the map iteration, within a type the order of the group -/
theorem getAllProperties_sem (gs : List (String × List Nat)) :
    run (gaPrims gs) Progs.meta_GetAllProperties [] () =
      some (propsAcc (gs.foldl (fun a g => gaAcc a g.2) none), ()) := by
  simp only [run, ga_shape, show Progs.meta_GetAllProperties.params = [] from rfl, List.length_nil, if_true, List.zip_nil_right]
  rw [evalB_cons]
  have h0 : evalS (gaPrims gs) [] () (.define ["props"] .nil) = some ([("props", propsAcc none)], (), .norm) := by
    go_simp [propsAcc]
  rw [h0]; simp only []
  rw [evalB_cons]
  simp only [evalS]
  have hc : evalE (gaPrims gs) [("props", propsAcc none)] () (.glob "self.propertyGroup") =
      some (.tuple (.str "$map" :: gs.map (fun g => Val.tuple [.str g.1, .list (g.2.map (fun i => Val.ref i 20))])), ()) := by
    go_simp [gaPrims, gaFn, groupsVal]
  rw [hc]; simp only []
  rw [ga_loop gs _ (by
    intro n kk g acc
    cases acc with
    | none => go_simp [gaBody, Progs.meta_GetAllProperties, gaPrims, gaFn, propsAcc, gaAcc]
    | some a => go_simp [gaBody, Progs.meta_GetAllProperties, gaPrims, gaFn, propsAcc, gaAcc, List.map_append]) gs 0 none]
  simp only []
  go_simp []

end Ioc.Sem
