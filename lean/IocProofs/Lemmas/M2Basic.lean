/-
  Frame lemmas for the factory machine (Ioc.Container): logging touches nothing but the log.
  Shared by all M2 proof files.
-/
import Ioc.Container
namespace Ioc.M2

@[simp] theorem addLog_l1 (sc : Scen) (st : St) (n : Nat) (e : Ev) : (addLog sc st n e).l1 = st.l1 := by
  unfold addLog; split <;> rfl
@[simp] theorem addLog_l2 (sc : Scen) (st : St) (n : Nat) (e : Ev) : (addLog sc st n e).l2 = st.l2 := by
  unfold addLog; split <;> rfl
@[simp] theorem addLog_l3 (sc : Scen) (st : St) (n : Nat) (e : Ev) : (addLog sc st n e).l3 = st.l3 := by
  unfold addLog; split <;> rfl
@[simp] theorem addLog_stack (sc : Scen) (st : St) (n : Nat) (e : Ev) : (addLog sc st n e).stack = st.stack := by
  unfold addLog; split <;> rfl
@[simp] theorem addLog_fields (sc : Scen) (st : St) (n : Nat) (e : Ev) : (addLog sc st n e).fields = st.fields := by
  unfold addLog; split <;> rfl
@[simp] theorem addLog_todoBoot (sc : Scen) (st : St) (n : Nat) (e : Ev) : (addLog sc st n e).todoBoot = st.todoBoot := by
  unfold addLog; split <;> rfl
@[simp] theorem addLog_todo (sc : Scen) (st : St) (n : Nat) (e : Ev) : (addLog sc st n e).todo = st.todo := by
  unfold addLog; split <;> rfl
@[simp] theorem addLog_stage (sc : Scen) (st : St) (n : Nat) (e : Ev) : (addLog sc st n e).stage = st.stage := by
  unfold addLog; split <;> rfl
@[simp] theorem addLog_status (sc : Scen) (st : St) (n : Nat) (e : Ev) : (addLog sc st n e).status = st.status := by
  unfold addLog; split <;> rfl

@[simp] theorem onStack_addLog (sc : Scen) (st : St) (n : Nat) (e : Ev) (x : Nat) :
    onStack (addLog sc st n e) x = onStack st x := by
  simp [onStack]

/-- the state after the initialization callbacks differs from the state before only in its log -/
structure SameButLog (a b : St) : Prop where
  l1 : a.l1 = b.l1
  l2 : a.l2 = b.l2
  l3 : a.l3 = b.l3
  stack : a.stack = b.stack
  fields : a.fields = b.fields
  todoBoot : a.todoBoot = b.todoBoot
  todo : a.todo = b.todo
  stage : a.stage = b.stage
  status : a.status = b.status

theorem SameButLog.refl (a : St) : SameButLog a a := ⟨rfl, rfl, rfl, rfl, rfl, rfl, rfl, rfl, rfl⟩

theorem SameButLog.trans {a b c : St} (h1 : SameButLog a b) (h2 : SameButLog b c) : SameButLog a c :=
  ⟨h1.l1.trans h2.l1, h1.l2.trans h2.l2, h1.l3.trans h2.l3, h1.stack.trans h2.stack, h1.fields.trans h2.fields,
   h1.todoBoot.trans h2.todoBoot, h1.todo.trans h2.todo, h1.stage.trans h2.stage, h1.status.trans h2.status⟩

theorem addLog_same (sc : Scen) (st : St) (n : Nat) (e : Ev) : SameButLog (addLog sc st n e) st :=
  ⟨by simp, by simp, by simp, by simp, by simp, by simp, by simp, by simp, by simp⟩

theorem initCallbacks_same (sc : Scen) (st : St) (n : Nat) : SameButLog (initCallbacks sc st n).1 st := by
  unfold initCallbacks
  have a := addLog_same sc
  split
  · dsimp only
    split
    · exact a _ _ _
    · split
      · exact (a _ _ _).trans (a _ _ _)
      · split
        · exact ((a _ _ _).trans (a _ _ _)).trans (a _ _ _)
        · split <;> exact (((a _ _ _).trans (a _ _ _)).trans (a _ _ _)).trans (a _ _ _)
  · dsimp only
    split
    · exact a _ _ _
    · split <;> exact (a _ _ _).trans (a _ _ _)

end Ioc.M2
