/-
  Semantic theorems for the REGENERATED tag-scan processor and NewProperty (interpretation: Ioc.SemTagScan).
-/
import Ioc.SemTagScan
import IocProofs.Lemmas.GoTactics
set_option linter.unusedSimpArgs false
namespace Ioc.Sem
open Ioc Ioc.Go

/-- NewProperty: TagStr and TagVal are BOTH what Parse returns for the tag text, the args are the map that very Parse call
    filled, Configurations is a fresh empty map, and field, type and tag are the arguments unchanged -/
theorem newProperty_sem (pv : String → String) (f pt : Val) (t tv : String) (w : List NObj) :
    run (npPrims pv) Progs.prop_NewProperty [f, pt, .str t, .str tv] w =
      some (.ref (w.length + 2) 42,
        w ++ [.args (some tv), .conf, .prop f pt t (pv tv) (pv tv) (w.length + 1) w.length]) := by
  go_simp [Progs.prop_NewProperty, npPrims, npFn]

/-! ### PostProcessDefinitionRegistry -/

def tsBody1 : List Stmt := match Progs.scan_PostProcessDefinitionRegistry.body with | [_, _, .range _ _ _ b, _, _, _] => b | _ => []
def tsBody2 : List Stmt := match Progs.scan_PostProcessDefinitionRegistry.body with | [_, _, _, .range _ _ _ b, _, _] => b | _ => []
theorem ts_shape : Progs.scan_PostProcessDefinitionRegistry.body =
    [.define ["meta"] (.mcall (.var "registry") "GetMetaOrRegister" [(.var "componentName"), (.var "component")]),
     .define ["properties"] .nil,
     .range "_" "field" (.sel (.var "meta") "Fields") tsBody1,
     .range "_" "property" (.var "properties") tsBody2,
     .expr (.mcall (.var "meta") "SetProperties" [(.var "properties")]),
     .ret [.nil]] := rfl

section tagscan
variable (d : TSD) (fs : List Nat)

def envT (nm : String) (t : List Nat) : Env :=
  [("properties", propVals t), ("meta", .ref 0 1), ("registry", .ref 0 2), ("component", .ref 0 3), ("componentName", .str nm)]

def step1 (i : Nat) (t : List Nat) (w : TW) : List Nat × TW × Option Val :=
  match recogS d i with
  | some r => (t ++ [i], setProp w i ⟨i, d.nodeType, r.1, r.2, false⟩, none)
  | none => (t, w, none)

theorem propVals_snoc (t : List Nat) (i : Nat) :
    (match propVals t with
     | .nil => some (Val.list [.ref i 30])
     | .list l => some (Val.list (l ++ [.ref i 30]))
     | _ => none) = some (propVals (t ++ [i])) := by
  cases t with
  | nil => rfl
  | cons x r => simp [propVals]

theorem tsFn_append (t : List Nat) (i : Nat) (w : TW) :
    tsFn d fs "append" [propVals t, .ref i 30] w = some (propVals (t ++ [i]), w) := by
  cases t with
  | nil => rfl
  | cons x r => simp [propVals, tsFn]

theorem tsFn_GetMeta (nm : String) (w : TW) : tsFn d fs ".GetMetaOrRegister" [.ref 0 2, .str nm, .ref 0 3] w = some (.ref 0 1, w) := rfl
theorem tsFn_Fields (w : TW) : tsFn d fs ".Fields" [.ref 0 1] w = some (.list (fs.map (fun i => Val.ref i 60)), w) := rfl
theorem tsFn_Tag (w : TW) : tsFn d fs "$self.Tag" [] w = some (.str d.tag, w) := rfl
theorem tsFn_NodeType (w : TW) : tsFn d fs "$self.NodeType" [] w = some (.str d.nodeType, w) := rfl
theorem tsFn_Required (w : TW) : tsFn d fs "$self.Required" [] w = some (.bool d.required, w) := rfl
theorem tsFn_EH (w : TW) : tsFn d fs "$self.ExtractHandler" [] w = some (if d.hasExt then .ref 0 5 else .nil, w) := rfl
theorem tsFn_ArgReq (w : TW) : tsFn d fs "$component_definition.ArgRequired" [] w = some (.ref 0 7, w) := rfl
theorem tsFn_SF (i : Nat) (w : TW) : tsFn d fs ".StructField" [.ref i 60] w = some (.ref i 61, w) := rfl
theorem tsFn_FTag (i : Nat) (w : TW) : tsFn d fs ".Tag" [.ref i 61] w = some (.ref i 62, w) := rfl
theorem tsFn_Lookup (i : Nat) (w : TW) : tsFn d fs ".Lookup" [.ref i 62, .str d.tag] w =
    some (lookupVal d i, w) := by
  simp [tsFn]
theorem tsFn_callEH (i : Nat) (w : TW) (h : d.hasExt = true) : tsFn d fs "self.ExtractHandler" [.ref 0 1, .ref i 60] w =
    some (extVal d i, w) := by
  simp [tsFn, h]
theorem tsFn_NewProperty (i : Nat) (nt t tv : String) (w : TW) :
    tsFn d fs "component_definition.NewProperty" [.ref i 60, .str nt, .str t, .str tv] w =
      some (.ref i 30, setProp w i ⟨i, nt, t, tv, false⟩) := rfl
theorem tsFn_Args (i : Nat) (w : TW) : tsFn d fs ".Args" [.ref i 30] w = some (.ref i 31, w) := rfl
theorem tsFn_Has (i : Nat) (w : TW) : tsFn d fs ".Has" [.ref i 31, .ref 0 7] w = (w.prop i).map (fun p => (.bool (p.has d), w)) := rfl
theorem tsFn_SetArg (i : Nat) (w : TW) : tsFn d fs ".SetArg" [.ref i 30, .ref 0 7] w =
    (w.prop i).map (fun p => (.tuple [], setProp w i { p with reqSet := true })) := rfl

theorem ts_iter1 (nm : String) (j i : Nat) (t : List Nat) (w : TW) :
    ∃ c, (evalB (tsPrims d fs) (Env.def (Env.def (envT nm t) "_" (.int j)) "field" (.ref i 60)) w tsBody1).map
        (fun (e', w'', ctl) => (Env.leave e' (envT nm t).length, w'', ctl)) =
      some (envT nm (step1 d i t w).1, (step1 d i t w).2.1, c) ∧ CtlMatches c (step1 d i t w).2.2 := by
  by_cases htag : d.tag = ""
  · have hb : (d.tag == "") = true := by simpa using htag
    cases hh : d.hasExt with
    | false =>
      refine ⟨.norm, ?_, Or.inl ⟨?_, Or.inl rfl⟩⟩
      · go_simp [tsBody1, Progs.scan_PostProcessDefinitionRegistry, tsPrims, tsFn_append, tsFn_Tag, tsFn_NodeType, tsFn_EH, tsFn_SF, tsFn_FTag, tsFn_Lookup, tsFn_callEH, tsFn_NewProperty, envT, step1, recogS, htag, hb, hh]
      · simp [step1, recogS, htag, hh]
    | true =>
      cases he : d.ext i with
      | none =>
        have hev : ∀ w', tsFn d fs "self.ExtractHandler" [.ref 0 1, .ref i 60] w' = some (.tuple [.str "", .str "", .bool false], w') := by
          intro w'; rw [tsFn_callEH d fs i w' hh]; simp [extVal, he]
        refine ⟨.norm, ?_, Or.inl ⟨?_, Or.inl rfl⟩⟩
        · go_simp [tsBody1, Progs.scan_PostProcessDefinitionRegistry, tsPrims, tsFn_append, tsFn_Tag, tsFn_NodeType, tsFn_EH, tsFn_SF, tsFn_FTag, tsFn_Lookup, tsFn_NewProperty, envT, step1, recogS, htag, hb, hh, hev, he]
        · simp [step1, recogS, htag, hh, he]
      | some r =>
        obtain ⟨tg, tv⟩ := r
        have hev : ∀ w', tsFn d fs "self.ExtractHandler" [.ref 0 1, .ref i 60] w' = some (.tuple [.str tg, .str tv, .bool true], w') := by
          intro w'; rw [tsFn_callEH d fs i w' hh]; simp [extVal, he]
        refine ⟨.norm, ?_, Or.inl ⟨?_, Or.inl rfl⟩⟩
        · by_cases htg : tg = ""
          · go_simp [tsBody1, Progs.scan_PostProcessDefinitionRegistry, tsPrims, tsFn_append, tsFn_Tag, tsFn_NodeType, tsFn_EH, tsFn_SF, tsFn_FTag, tsFn_Lookup, tsFn_NewProperty, envT, step1, recogS, htag, hb, hh, hev, he, htg]
          · have hb2 : (tg == "") = false := by simpa using htg
            go_simp [tsBody1, Progs.scan_PostProcessDefinitionRegistry, tsPrims, tsFn_append, tsFn_Tag, tsFn_NodeType, tsFn_EH, tsFn_SF, tsFn_FTag, tsFn_Lookup, tsFn_NewProperty, envT, step1, recogS, htag, hb, hh, hev, he, htg, hb2]
        · simp [step1, recogS, htag, hh, he]
  · have hb : (d.tag == "") = false := by simpa using htag
    cases hl : d.lookup i with
    | some v =>
      have hlv : ∀ w', tsFn d fs ".Lookup" [.ref i 62, .str d.tag] w' = some (.tuple [.str v, .bool true], w') := by
        intro w'; rw [tsFn_Lookup]; simp [lookupVal, hl]
      refine ⟨.cont, ?_, Or.inl ⟨?_, Or.inr rfl⟩⟩
      · go_simp [tsBody1, Progs.scan_PostProcessDefinitionRegistry, tsPrims, tsFn_append, tsFn_Tag, tsFn_NodeType, tsFn_EH, tsFn_SF, tsFn_FTag, tsFn_NewProperty, envT, step1, recogS, htag, hb, hlv, hl]
      · simp [step1, recogS, htag, hl]
    | none =>
      have hlv : ∀ w', tsFn d fs ".Lookup" [.ref i 62, .str d.tag] w' = some (.tuple [.str "", .bool false], w') := by
        intro w'; rw [tsFn_Lookup]; simp [lookupVal, hl]
      cases hh : d.hasExt with
      | false =>
        refine ⟨.norm, ?_, Or.inl ⟨?_, Or.inl rfl⟩⟩
        · go_simp [tsBody1, Progs.scan_PostProcessDefinitionRegistry, tsPrims, tsFn_append, tsFn_Tag, tsFn_NodeType, tsFn_EH, tsFn_SF, tsFn_FTag, tsFn_NewProperty, envT, step1, recogS, htag, hb, hlv, hl, hh]
        · simp [step1, recogS, htag, hl, hh]
      | true =>
        cases he : d.ext i with
        | none =>
          have hev : ∀ w', tsFn d fs "self.ExtractHandler" [.ref 0 1, .ref i 60] w' = some (.tuple [.str "", .str "", .bool false], w') := by
            intro w'; rw [tsFn_callEH d fs i w' hh]; simp [extVal, he]
          refine ⟨.norm, ?_, Or.inl ⟨?_, Or.inl rfl⟩⟩
          · go_simp [tsBody1, Progs.scan_PostProcessDefinitionRegistry, tsPrims, tsFn_append, tsFn_Tag, tsFn_NodeType, tsFn_EH, tsFn_SF, tsFn_FTag, tsFn_NewProperty, envT, step1, recogS, htag, hb, hlv, hl, hh, hev, he]
          · simp [step1, recogS, htag, hl, hh, he]
        | some r =>
          obtain ⟨tg, tv⟩ := r
          have hev : ∀ w', tsFn d fs "self.ExtractHandler" [.ref 0 1, .ref i 60] w' = some (.tuple [.str tg, .str tv, .bool true], w') := by
            intro w'; rw [tsFn_callEH d fs i w' hh]; simp [extVal, he]
          refine ⟨.norm, ?_, Or.inl ⟨?_, Or.inl rfl⟩⟩
          · by_cases htg : tg = ""
            · go_simp [tsBody1, Progs.scan_PostProcessDefinitionRegistry, tsPrims, tsFn_append, tsFn_Tag, tsFn_NodeType, tsFn_EH, tsFn_SF, tsFn_FTag, tsFn_NewProperty, envT, step1, recogS, htag, hb, hlv, hl, hh, hev, he, htg]
            · have hb2 : (tg == "") = false := by simpa using htg
              go_simp [tsBody1, Progs.scan_PostProcessDefinitionRegistry, tsPrims, tsFn_append, tsFn_Tag, tsFn_NodeType, tsFn_EH, tsFn_SF, tsFn_FTag, tsFn_NewProperty, envT, step1, recogS, htag, hb, hlv, hl, hh, hev, he, htg, hb2]
          · simp [step1, recogS, htag, hl, hh, he]

/-! the second loop: lines 38-42 -/

def reqStep (w : TW) (j : Nat) : TW :=
  if d.required then
    match w.prop j with
    | some p => if p.has d then w else setProp w j { p with reqSet := true }
    | none => w
  else w

theorem ts_iter2 (nm : String) (k j : Nat) (t : List Nat) (w : TW) (p : TSProp) (hp : w.prop j = some p) :
    (evalB (tsPrims d fs) (Env.def (Env.def (envT nm t) "_" (.int k)) "property" (.ref j 30)) w tsBody2).map
        (fun (e', w'', ctl) => (Env.leave e' (envT nm t).length, w'', ctl)) =
      some (envT nm t, reqStep d w j, .norm) := by
  cases hr : d.required with
  | false => go_simp [tsBody2, Progs.scan_PostProcessDefinitionRegistry, tsPrims, tsFn_Required, envT, reqStep, hr]
  | true =>
    cases hh : p.has d with
    | true =>
      go_simp [tsBody2, Progs.scan_PostProcessDefinitionRegistry, tsPrims, tsFn_Required, tsFn_Args, tsFn_Has, tsFn_SetArg, tsFn_ArgReq, envT, reqStep, hr, hp, hh]
    | false =>
      go_simp [tsBody2, Progs.scan_PostProcessDefinitionRegistry, tsPrims, tsFn_Required, tsFn_Args, tsFn_Has, tsFn_SetArg, tsFn_ArgReq, envT, reqStep, hr, hp, hh]

theorem reqStep_isSome (w : TW) (j k : Nat) (h : (w.prop k).isSome) : ((reqStep d w j).prop k).isSome := by
  unfold reqStep
  split
  · split
    · split
      · exact h
      · simp only [setProp]; split <;> simp [h]
    · exact h
  · exact h

theorem ts_loop2 (nm : String) (t : List Nat) :
    ∀ (l : List Nat) (k : Nat) (w : TW), (∀ j ∈ l, (w.prop j).isSome) →
      loopM (fun i x e w' => (evalB (tsPrims d fs) (Env.def (Env.def e "_" (.int i)) "property" x) w' tsBody2).map
          (fun (e', w'', ctl) => (Env.leave e' e.length, w'', ctl)))
        k (l.map (fun i => Val.ref i 30)) (envT nm t) w = some (envT nm t, l.foldl (reqStep d) w, .norm) := by
  intro l
  induction l with
  | nil => intro k w _; simp [loopM]
  | cons j rest ih =>
    intro k w h
    have hj := h j (by simp)
    obtain ⟨p, hp⟩ := Option.isSome_iff_exists.mp hj
    simp only [List.map_cons, loopM, ts_iter2 d fs nm k j t w p hp, List.foldl_cons]
    exact ih (k + 1) _ (fun j' hj' => reqStep_isSome d w j j' (h j' (by simp [hj'])))

/-! the two loops as functions of the world -/

def mk1 (i : Nat) (r : String × String) : TSProp := ⟨i, d.nodeType, r.1, r.2, false⟩

def new1 (w : TW) (i : Nat) : TW :=
  match recogS d i with
  | some r => setProp w i (mk1 d i r)
  | none => w

theorem step1_loop : ∀ (l t : List Nat) (w : TW),
    stepLoop (step1 d) l t w = (t ++ l.filter (fun i => (recogS d i).isSome), l.foldl (new1 d) w, none) := by
  intro l
  induction l with
  | nil => intro t w; simp [stepLoop]
  | cons i rest ih =>
    intro t w
    simp only [stepLoop, step1, List.foldl_cons, new1, List.filter_cons]
    cases hr : recogS d i with
    | none => simp [ih]
    | some r => simp [ih, mk1, List.append_assoc]

theorem new1_meta (l : List Nat) (w : TW) : (l.foldl (new1 d) w).metaProps = w.metaProps := by
  induction l generalizing w with
  | nil => rfl
  | cons i rest ih =>
    rw [List.foldl_cons, ih]
    unfold new1; split <;> rfl

theorem new1_prop (l : List Nat) (w : TW) (k : Nat) (r : String × String) (hk : k ∈ l) (hr : recogS d k = some r) :
    (l.foldl (new1 d) w).prop k = some (mk1 d k r) := by
  induction l generalizing w with
  | nil => cases hk
  | cons i rest ih =>
    rw [List.foldl_cons]
    by_cases hin : k ∈ rest
    · exact ih _ hin
    · have hki : k = i := by
        rcases List.mem_cons.mp hk with h | h
        · exact h
        · exact absurd h hin
      subst hki
      have hkeep : ∀ (l' : List Nat) (w' : TW), k ∉ l' → (l'.foldl (new1 d) w').prop k = w'.prop k := by
        intro l'
        induction l' with
        | nil => intro w' _; rfl
        | cons x xs ihx =>
          intro w' hx
          rw [List.foldl_cons, ihx _ (fun h => hx (List.mem_cons_of_mem _ h))]
          have hxk : k ≠ x := fun h => hx (by simp [h])
          unfold new1; split
          · simp [setProp, hxk]
          · rfl
      rw [hkeep rest _ hin]
      simp [new1, hr, setProp]

theorem applyReq_idem (p : TSProp) : TSProp.applyReq d (TSProp.applyReq d p) = TSProp.applyReq d p := by
  obtain ⟨f, n, t, tv, rs⟩ := p
  cases hr : d.required <;> cases hh : d.hasReq tv <;> cases rs <;> simp [TSProp.applyReq, TSProp.has, hr, hh]

theorem reqStep_meta (w : TW) (j : Nat) : (reqStep d w j).metaProps = w.metaProps := by
  unfold reqStep
  split
  · split
    · split <;> rfl
    · rfl
  · rfl

theorem reqStep_prop (w : TW) (j k : Nat) :
    (reqStep d w j).prop k = if k = j then (w.prop k).map (TSProp.applyReq d) else w.prop k := by
  unfold reqStep
  by_cases hkj : k = j
  · subst hkj
    simp only [if_true]
    cases hr : d.required with
    | false => cases hp : w.prop k <;> simp [TSProp.applyReq, hr, hp]
    | true =>
      cases hp : w.prop k with
      | none => simp [hp]
      | some p =>
        cases hh : p.has d <;> simp [TSProp.applyReq, hr, hh, setProp, hp]
  · simp only [hkj, if_false]
    split
    · split
      · split
        · rfl
        · simp [setProp, hkj]
      · rfl
    · rfl

theorem req_loop_meta (l : List Nat) (w : TW) : (l.foldl (reqStep d) w).metaProps = w.metaProps := by
  induction l generalizing w with
  | nil => rfl
  | cons i rest ih => rw [List.foldl_cons, ih, reqStep_meta]

theorem req_loop_prop (l : List Nat) (w : TW) (k : Nat) :
    (l.foldl (reqStep d) w).prop k = if k ∈ l then (w.prop k).map (TSProp.applyReq d) else w.prop k := by
  induction l generalizing w with
  | nil => simp
  | cons j rest ih =>
    rw [List.foldl_cons, ih, reqStep_prop]
    by_cases hkj : k = j
    · subst hkj
      by_cases hin : k ∈ rest
      · cases hp : w.prop k <;> simp [hin, applyReq_idem]
      · simp [hin]
    · by_cases hin : k ∈ rest <;> simp [hkj, hin]

theorem filterMap_filter_isSome {α β : Type} (g : α → Option β) (q : α → Bool) (hq : ∀ x, q x = (g x).isSome) (l : List α) :
    (l.filter q).filterMap g = l.filterMap g := by
  induction l with
  | nil => rfl
  | cons x rest ih =>
    cases hx : g x with
    | none => simp [List.filter_cons, hq, hx, ih]
    | some y => simp [List.filter_cons, hq, hx, ih]

theorem filterMap_congr_mem {α β : Type} (g h : α → Option β) (l : List α) (hgh : ∀ x ∈ l, g x = h x) :
    l.filterMap g = l.filterMap h := by
  induction l with
  | nil => rfl
  | cons x rest ih =>
    simp only [List.filterMap_cons, hgh x (by simp)]
    rw [ih (fun y hy => hgh y (by simp [hy]))]

/-- what the meta is handed in the end -/
theorem handed_is_spec (w : TW) :
    let t := fs.filter (fun i => (recogS d i).isSome)
    t.filterMap (t.foldl (reqStep d) (fs.foldl (new1 d) w)).prop = tagScanSpec d fs := by
  intro t
  have hcongr : t.filterMap (t.foldl (reqStep d) (fs.foldl (new1 d) w)).prop =
      t.filterMap (fun i => (recogS d i).map fun r => TSProp.applyReq d (mk1 d i r)) := by
    apply filterMap_congr_mem
    intro k hk
    have hk' := List.mem_filter.mp hk
    obtain ⟨r, hr⟩ := Option.isSome_iff_exists.mp (by simpa using hk'.2)
    rw [req_loop_prop, if_pos hk, new1_prop d fs w k r hk'.1 hr, hr]
    rfl
  rw [hcongr]
  exact filterMap_filter_isSome (fun i => (recogS d i).map fun r => TSProp.applyReq d (mk1 d i r)) _
    (fun x => by cases recogS d x <;> rfl) fs

/-- the world after the call -/
def afterScan (w : TW) : TW :=
  let t := fs.filter (fun i => (recogS d i).isSome)
  let w2 := t.foldl (reqStep d) (fs.foldl (new1 d) w)
  { w2 with metaProps := w2.metaProps ++ t.filterMap w2.prop }

theorem tsFn_SetProperties (t : List Nat) (w : TW) :
    tsFn d fs ".SetProperties" [.ref 0 1, propVals t] w =
      some (.tuple [], { w with metaProps := w.metaProps ++ t.filterMap w.prop }) := by
  cases t with
  | nil => simp [propVals, tsFn]
  | cons x r =>
    have := decIdx_map (x :: r)
    simp only [List.map_cons] at this
    simp [propVals, tsFn, this]

theorem tagScan_run (nm : String) (w : TW) :
    run (tsPrims d fs) Progs.scan_PostProcessDefinitionRegistry [.ref 0 2, .ref 0 3, .str nm] w =
      some (.nil, afterScan d fs w) := by
  simp only [run, ts_shape, show Progs.scan_PostProcessDefinitionRegistry.params = ["registry", "component", "componentName"] from rfl,
    List.length_cons, List.length_nil, if_true, List.zip_cons_cons, List.zip_nil_right]
  rw [evalB_cons]
  have h1 : evalS (tsPrims d fs) [("registry", Val.ref 0 2), ("component", Val.ref 0 3), ("componentName", Val.str nm)] w
      (.define ["meta"] (.mcall (.var "registry") "GetMetaOrRegister" [(.var "componentName"), (.var "component")])) =
      some ([("meta", Val.ref 0 1), ("registry", Val.ref 0 2), ("component", Val.ref 0 3), ("componentName", Val.str nm)], w, .norm) := by
    go_simp [tsPrims, tsFn_GetMeta]
  rw [h1]; simp only []
  rw [evalB_cons]
  have h2 : evalS (tsPrims d fs) [("meta", Val.ref 0 1), ("registry", Val.ref 0 2), ("component", Val.ref 0 3), ("componentName", Val.str nm)] w
      (.define ["properties"] .nil) = some (envT nm [], w, .norm) := by
    go_simp [envT, propVals]
  rw [h2]; simp only []
  rw [evalB_cons]
  simp only [evalS]
  have hcoll : evalE (tsPrims d fs) (envT nm []) w (.sel (.var "meta") "Fields") = some (.list (fs.map (fun i => Val.ref i 60)), w) := by
    go_simp [envT, tsPrims, tsFn_Fields]
  rw [hcoll]; simp only []
  have hl1 := loopM_state_cont (fun i => Val.ref i 60)
    (fun j x e w' => (evalB (tsPrims d fs) (Env.def (Env.def e "_" (.int j)) "field" x) w' tsBody1).map
      (fun (e', w'', ctl) => (Env.leave e' e.length, w'', ctl)))
    (envT nm) (step1 d) (fun j i t w' => ts_iter1 d fs nm j i t w') fs 0 [] w
  rw [hl1, step1_loop]
  simp only [ctlOf, List.nil_append]
  rw [evalB_cons]
  simp only [evalS]
  generalize ht : fs.filter (fun i => (recogS d i).isSome) = t
  have hsome : ∀ j ∈ t, ((fs.foldl (new1 d) w).prop j).isSome := by
    intro j hj
    rw [← ht] at hj
    have hj' := List.mem_filter.mp hj
    obtain ⟨r, hr⟩ := Option.isSome_iff_exists.mp (by simpa using hj'.2)
    rw [new1_prop d fs w j r hj'.1 hr]; rfl
  cases t with
  | nil =>
    have hcoll2 : evalE (tsPrims d fs) (envT nm []) (fs.foldl (new1 d) w) (.var "properties") = some (.nil, fs.foldl (new1 d) w) := by
      go_simp [envT, propVals]
    rw [hcoll2]; simp only []
    rw [evalB_cons]
    have h5 : evalS (tsPrims d fs) (envT nm []) (fs.foldl (new1 d) w) (.expr (.mcall (.var "meta") "SetProperties" [(.var "properties")])) =
        some (envT nm [], afterScan d fs w, .norm) := by
      go_simp [envT, tsPrims, propVals, tsFn, afterScan, ht]
    rw [h5]; simp only []
    go_simp []
  | cons x r =>
    have hcoll2 : evalE (tsPrims d fs) (envT nm (x :: r)) (fs.foldl (new1 d) w) (.var "properties") =
        some (.list ((x :: r).map (fun i => Val.ref i 30)), fs.foldl (new1 d) w) := by
      go_simp [envT, propVals]
    rw [hcoll2]; simp only []
    rw [ts_loop2 d fs nm (x :: r) (x :: r) 0 _ hsome]
    simp only []
    rw [evalB_cons]
    have h5 : evalS (tsPrims d fs) (envT nm (x :: r)) ((x :: r).foldl (reqStep d) (fs.foldl (new1 d) w))
        (.expr (.mcall (.var "meta") "SetProperties" [(.var "properties")])) =
        some (envT nm (x :: r), afterScan d fs w, .norm) := by
      simp only [afterScan, ht]
      generalize List.foldl (reqStep d) (List.foldl (new1 d) w fs) (x :: r) = w2
      have := tsFn_SetProperties d fs (x :: r) w2
      go_simp [envT, tsPrims, this]
    rw [h5]; simp only []
    go_simp []

/-- PostProcessDefinitionRegistry, regenerated: the meta is handed ONE property for every field the processor recognises
    (the `d.Tag` lookup first, else the ExtractHandler, whose empty tag means `d.Tag`), in field order, each marked required
    when the processor is a requiring one and the tag text does not say otherwise; what it held before is kept -/
theorem tagScan_sem (nm : String) (w : TW) :
    ∃ w', run (tsPrims d fs) Progs.scan_PostProcessDefinitionRegistry [.ref 0 2, .ref 0 3, .str nm] w = some (.nil, w') ∧
      w'.metaProps = w.metaProps ++ tagScanSpec d fs := by
  refine ⟨afterScan d fs w, tagScan_run d fs nm w, ?_⟩
  simp only [afterScan, req_loop_meta, new1_meta]
  rw [handed_is_spec d fs w]

end tagscan
/-! ### the built-in ExtractHandlers -/

theorem optStr_some (s : String) : optStr (some s) = some (.str s, ()) := rfl

/-- the value scanner's handler, regenerated: no `prop` tag — not recognised; else `${key}` with the argument part (from the
    first top-level comma on) appended unchanged; an out-of-range slice is the panic (`none`) -/
theorem valueExtract_sem (o : VXOps) :
    run (vxPrims o) Progs.scan_valueExtract [.ref 0 1, .ref 0 60] () = (valueExtractS o).map (fun r => (encExtract r, ())) := by
  cases hl : o.lookup with
  | none => go_simp [Progs.scan_valueExtract, vxPrims, vxFn, valueExtractS, encExtract, hl]
  | some tv =>
    by_cases hi : o.idx tv = -1
    · have hb : (o.idx tv == -1) = true := by simpa using hi
      go_simp [Progs.scan_valueExtract, vxPrims, vxFn, valueExtractS, encExtract, hl, hi, hb]
    · have hb : (o.idx tv == -1) = false := by simpa using hi
      cases h1 : o.sliceTo tv (o.idx tv) with
      | none => go_simp [Progs.scan_valueExtract, vxPrims, vxFn, valueExtractS, encExtract, hl, hi, hb, h1, optStr]
      | some k =>
        cases h2 : o.sliceFrom tv (o.idx tv) with
        | none => go_simp [Progs.scan_valueExtract, vxPrims, vxFn, valueExtractS, encExtract, hl, hi, hb, h1, h2, optStr]
        | some rest => go_simp [Progs.scan_valueExtract, vxPrims, vxFn, valueExtractS, encExtract, hl, hi, hb, h1, h2, optStr]

/-- the properties scanner's handler, regenerated: recognised exactly when the field's value implements
    ConfigurationProperties; the tag text is what its `Prefix()` returns, the tag is left empty (so: `d.Tag`) -/
theorem markerExtract_sem (marker : Option String) :
    run (mxPrims marker) Progs.scan_markerExtract [.ref 0 1, .ref 0 60] () =
      some (encExtract (match marker with | some p => ("", p, true) | none => ("", "", false)), ()) := by
  cases marker with
  | none => go_simp [Progs.scan_markerExtract, mxPrims, mxFn, encExtract]
  | some p => go_simp [Progs.scan_markerExtract, mxPrims, mxFn, encExtract]

end Ioc.Sem
