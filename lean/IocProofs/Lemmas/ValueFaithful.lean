/-
  The class of values on which the value path (`${k}` → FormatAny → splice → ParseAny → decode) is faithful,
  and the lemmas that ParseAny reads the formatted text of such a value back (C17).
-/
import IocProofs.Lemmas.ValueStage
namespace Ioc.Value
open Ioc.Tag

/-- no `${…}` and no `#{…}` pattern -/
def noEl (s : Bytes) : Bool := (findEl cDollar s).isNone && (findEl cHash s).isNone

/-- `[`…`]`, `map[`…`]` or `{`…`}` -/
def bracketed (s : Bytes) : Bool :=
  isSlice s || (s.length > 4 && s.take 4 = sMapOpen && lastIs s 93) || (s.head? = some 123 && lastIs s 125)

/-- a string that ParseAny leaves alone: not empty, not bool-like, not number-like, not bracketed, not quoted -/
def plainString (s : Bytes) : Bool :=
  !s.isEmpty && lowerAscii s != sTrue && lowerAscii s != sFalse && !isNumber s && !bracketed s && !isQuoted s

theorem parseAny_plain (J : Json) (s : Bytes) (h : plainString s = true) : parseAny J s = .ok (.str s) := by
  simp only [plainString, Bool.and_eq_true, Bool.not_eq_true', bne_iff_ne, ne_eq] at h
  obtain ⟨⟨⟨⟨⟨h1, h2⟩, h3⟩, h4⟩, h5⟩, h6⟩ := h
  have h4' : splitNumber s = none := by
    unfold isNumber at h4
    cases hs : splitNumber s with
    | none => rfl
    | some x => simp [hs] at h4
  simp only [bracketed, Bool.or_eq_false_iff] at h5
  obtain ⟨⟨h5a, h5b⟩, h5c⟩ := h5
  have hm : isMap J s = false := by
    unfold isMap
    rw [h5b]
    simp only [Bool.false_or, Bool.and_eq_false_iff]
    simp only [Bool.and_eq_false_iff] at h5c
    rcases h5c with h | h
    · exact Or.inl (Or.inl (Or.inr h))
    · exact Or.inl (Or.inr h)
  unfold parseAny parseAnyF
  simp [h1, h2, h3, h4', hm, h5a, h6]

theorem lastIs_append_singleton (l : Bytes) (c : UInt8) : lastIs (l ++ [c]) c = true := by
  simp [lastIs]

theorem parseAny_bool (J : Json) (b : Bool) : parseAny J (formatAny J (.bool b)) = .ok (.bool b) := by
  cases b <;> rfl

/-- the text of a safe list reads back as the list with float64 numbers -/
theorem parseAny_enc_list (J : Json) (hJ : J.Lawful) (l : List Val) (hs : jsonSafeL l = true) :
    parseAny J (J.enc (.list l)) = .ok (toF64 (.list l)) := by
  obtain ⟨mid, hm⟩ := hJ.list_shape l hs
  have hrt := hJ.list_rt l hs
  rw [hm] at hrt ⊢
  have hlast : lastIs (91 :: (mid ++ [93])) 93 = true := by
    have := lastIs_append_singleton (91 :: mid) 93
    simpa using this
  have hslice : isSlice (91 :: (mid ++ [93])) = true := by
    simp [isSlice, hlast]
  have hmap : isMap J (91 :: (mid ++ [93])) = false := by
    unfold isMap
    have e1 : List.take 4 (91 :: (mid ++ [93])) ≠ sMapOpen := by
      intro e
      have := congrArg List.head? e
      simp [sMapOpen, ofString] at this
    simp only [e1, decide_false, Bool.and_false, Bool.false_and, Bool.false_or]
    simp
  have hnum : splitNumber (91 :: (mid ++ [93])) = none := by
    unfold splitNumber
    simp [isDigit]
  have e2 : lowerAscii (91 :: (mid ++ [93])) ≠ sTrue := by
    simp [lowerAscii, lowerByte, sTrue, ofString]
  have e3 : lowerAscii (91 :: (mid ++ [93])) ≠ sFalse := by
    simp [lowerAscii, lowerByte, sFalse, ofString]
  unfold parseAny parseAnyF
  simp [e2, e3, hnum, hmap, hslice, hrt]

/-- the text of a safe map reads back as the map with float64 numbers -/
theorem parseAny_enc_map (J : Json) (hJ : J.Lawful) (m : List (Bytes × Val)) (hs : jsonSafe (.map m) = true) :
    parseAny J (J.enc (.map m)) = .ok (toF64 (.map m)) := by
  obtain ⟨mid, hm⟩ := hJ.map_shape m hs
  have hrt := hJ.map_rt m hs
  rw [hm] at hrt ⊢
  have hlast : lastIs (123 :: (mid ++ [125])) 125 = true := by
    have := lastIs_append_singleton (123 :: mid) 125
    simpa using this
  have hrt' : J.dec (123 :: (mid ++ [125])) = some (.ok (toF64 (.map m))) := by simpa using hrt
  have hmap' : isMap J (123 :: (mid ++ [125])) = true := by
    unfold isMap
    simp [hlast, hrt']
  have hnum : splitNumber (123 :: (mid ++ [125])) = none := by
    unfold splitNumber
    simp [isDigit]
  have e2 : lowerAscii (123 :: (mid ++ [125])) ≠ sTrue := by
    simp [lowerAscii, lowerByte, sTrue, ofString]
  have e3 : lowerAscii (123 :: (mid ++ [125])) ≠ sFalse := by
    simp [lowerAscii, lowerByte, sFalse, ofString]
  unfold parseAny parseAnyF
  simp only [List.cons_append, List.isEmpty_cons, Bool.false_eq_true, if_false, e2, e3, hnum]
  simp [hmap', hrt']

end Ioc.Value
