/-
  Semantic theorems for the REGENERATED option constructors of package container (interpretation: Ioc.SemOptions).
-/
import Ioc.SemOptions
import IocProofs.Lemmas.GoTactics
set_option linter.unusedSimpArgs false
namespace Ioc.Sem
open Ioc Ioc.Go

section opts
variable (m : OMeta) (fnName : String) (ans : Nat → Bool) (parseOk : String → Bool)

abbrev OP := optPrims m fnName ans parseOk

theorem type_sem (t : Nat) :
    run (OP m fnName ans parseOk) Progs.opt_Type [.ref t 93, .ref 0 0] () = some (.bool (m.ty == t), ()) := by
  go_simp [Progs.opt_Type, OP, optPrims, optFn]

theorem interfaceType_sem (i : Nat) :
    run (OP m fnName ans parseOk) Progs.opt_InterfaceType [.ref i 94, .ref 0 0] () = some (.bool (m.implements i), ()) := by
  go_simp [Progs.opt_InterfaceType, OP, optPrims, optFn]

theorem funcName_sem :
    run (OP m fnName ans parseOk) Progs.opt_FuncName [.str fnName, .ref 0 0] () = some (.bool (optFuncName m fnName), ()) := by
  cases hf : m.find fnName with
  | none => go_simp [Progs.opt_FuncName, OP, optPrims, optFn, optFuncName, hf, encMethOpt]
  | some x =>
    by_cases h0 : x.numOut = 0
    · have hI : ((x.numOut : Int) == 0) = true := by simp [h0]
      go_simp [Progs.opt_FuncName, OP, optPrims, optFn, optFuncName, hf, encMethOpt, h0, hI]
    · have hI : ((x.numOut : Int) == 0) = false := by
        have : ¬ (x.numOut : Int) = 0 := by omega
        simpa using this
      have h0' : (x.numOut == 0) = false := by simpa using h0
      go_simp [Progs.opt_FuncName, OP, optPrims, optFn, optFuncName, hf, encMethOpt, h0, h0', hI]

theorem funcNameAndResult_sem (res : String) :
    run (OP m fnName ans parseOk) Progs.opt_FuncNameAndResult [.str fnName, .str res, .ref 0 0] () =
      some (.bool (optFuncNameAndResult m fnName res), ()) := by
  cases hf : m.find fnName with
  | none => go_simp [Progs.opt_FuncNameAndResult, OP, optPrims, optFn, optFuncNameAndResult, hf]
  | some x =>
    by_cases hin : x.numIn = 0
    · have hinI : ((x.numIn : Int) == 0) = true := by simp [hin]
      by_cases hstar : res = "*"
      · go_simp [Progs.opt_FuncNameAndResult, OP, optPrims, optFn, optFuncNameAndResult, hf, hin, hinI, hstar]
      · have hstar' : (res == "*") = false := by simpa using hstar
        cases hno : x.numOut with
        | zero =>
          go_simp [Progs.opt_FuncNameAndResult, OP, optPrims, optFn, optFuncNameAndResult, hf, hin, hinI, hstar, hstar', hno]
        | succ k =>
          have hlen : decide (((k : Int) + 1) < 1) = false := by
            have : ¬ ((k : Int) + 1) < 1 := by omega
            simpa using this
          cases hp : parseOk res <;>
            go_simp [Progs.opt_FuncNameAndResult, OP, optPrims, optFn, optFuncNameAndResult, hf, hin, hinI, hstar, hstar', hno, hlen, hp,
              List.replicate_succ]
    · have hinI : ((x.numIn : Int) == 0) = false := by
        have : ¬ (x.numIn : Int) = 0 := by omega
        simpa using this
      have hin' : (x.numIn == 0) = false := by simpa using hin
      go_simp [Progs.opt_FuncNameAndResult, OP, optPrims, optFn, optFuncNameAndResult, hf, hin, hin', hinI]

/-! Or / And over a list of options -/

def envOpts (opts : List Nat) : Env := [("opts", .list (opts.map (fun i => Val.ref i 95))), ("m", .ref 0 0)]

def orBody : List Stmt := match Progs.opt_Or.body with | [.range _ _ _ b, _] => b | _ => []
theorem or_shape : Progs.opt_Or.body = [.range "_" "opt" (.var "opts") orBody, .ret [.bool false]] := rfl
def andBody : List Stmt := match Progs.opt_And.body with | [.range _ _ _ b, _] => b | _ => []
theorem and_shape : Progs.opt_And.body = [.range "_" "opt" (.var "opts") andBody, .ret [.bool true]] := rfl

def orStep (i : Nat) (_ : Unit) (w : Unit) : Unit × Unit × Option Val := ((), w, if ans i then some (.bool true) else none)
def andStep (i : Nat) (_ : Unit) (w : Unit) : Unit × Unit × Option Val := ((), w, if ans i then none else some (.bool false))

theorem orStep_loop (opts : List Nat) : stepLoop (orStep ans) opts () () = ((), (), if opts.any ans then some (.bool true) else none) := by
  induction opts with
  | nil => rfl
  | cons i rest ih =>
    simp only [stepLoop, orStep, List.any_cons]
    by_cases ha : ans i = true
    · simp [ha]
    · have ha' : ans i = false := by simpa using ha
      simp only [ha', Bool.false_eq_true, if_false, Bool.false_or]
      exact ih

theorem andStep_loop (opts : List Nat) : stepLoop (andStep ans) opts () () = ((), (), if opts.all ans then none else some (.bool false)) := by
  induction opts with
  | nil => rfl
  | cons i rest ih =>
    simp only [stepLoop, andStep, List.all_cons]
    by_cases ha : ans i = true
    · simp only [ha, if_true, Bool.true_and]
      exact ih
    · have ha' : ans i = false := by simpa using ha
      simp [ha']

theorem or_sem (opts : List Nat) :
    run (OP m fnName ans parseOk) Progs.opt_Or [.list (opts.map (fun i => Val.ref i 95)), .ref 0 0] () = some (.bool (opts.any ans), ()) := by
  simp only [run, or_shape, show Progs.opt_Or.params = ["opts", "m"] from rfl, List.length_cons, List.length_nil, if_true,
    List.zip_cons_cons, List.zip_nil_right]
  rw [evalB_cons]
  simp only [evalS]
  rw [show ([("opts", Val.list (opts.map (fun i => Val.ref i 95))), ("m", Val.ref 0 0)] : Env) = envOpts opts from rfl]
  have hcoll : evalE (OP m fnName ans parseOk) (envOpts opts) () (.var "opts") = some (.list (opts.map (fun i => Val.ref i 95)), ()) := by
    go_simp [envOpts]
  rw [hcoll]; simp only []
  have := loopM_state (fun i => Val.ref i 95)
    (fun i x e w' => (evalB (OP m fnName ans parseOk) (Env.def (Env.def e "_" (.int i)) "opt" x) w' orBody).map
      (fun (e', w'', ctl) => (Env.leave e' e.length, w'', ctl)))
    (fun (_ : Unit) => envOpts opts) (orStep ans)
    (by intro i x t w; cases ha : ans x <;> go_simp [orBody, Progs.opt_Or, OP, optPrims, optFn, envOpts, orStep, ha, ctlOf])
    opts 0 () ()
  rw [this, orStep_loop]
  cases opts.any ans <;> go_simp [ctlOf]

theorem and_sem (opts : List Nat) :
    run (OP m fnName ans parseOk) Progs.opt_And [.list (opts.map (fun i => Val.ref i 95)), .ref 0 0] () = some (.bool (opts.all ans), ()) := by
  simp only [run, and_shape, show Progs.opt_And.params = ["opts", "m"] from rfl, List.length_cons, List.length_nil, if_true,
    List.zip_cons_cons, List.zip_nil_right]
  rw [evalB_cons]
  simp only [evalS]
  rw [show ([("opts", Val.list (opts.map (fun i => Val.ref i 95))), ("m", Val.ref 0 0)] : Env) = envOpts opts from rfl]
  have hcoll : evalE (OP m fnName ans parseOk) (envOpts opts) () (.var "opts") = some (.list (opts.map (fun i => Val.ref i 95)), ()) := by
    go_simp [envOpts]
  rw [hcoll]; simp only []
  have := loopM_state (fun i => Val.ref i 95)
    (fun i x e w' => (evalB (OP m fnName ans parseOk) (Env.def (Env.def e "_" (.int i)) "opt" x) w' andBody).map
      (fun (e', w'', ctl) => (Env.leave e' e.length, w'', ctl)))
    (fun (_ : Unit) => envOpts opts) (andStep ans)
    (by intro i x t w; cases ha : ans x <;> go_simp [andBody, Progs.opt_And, OP, optPrims, optFn, envOpts, andStep, ha, ctlOf])
    opts 0 () ()
  rw [this, andStep_loop]
  cases opts.all ans <;> go_simp [ctlOf]

end opts
end Ioc.Sem
