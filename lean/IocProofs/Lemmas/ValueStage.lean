/-
  Lemmas about the two regular expressions, ReplaceAllContent and the stages (C17, C18).
-/
import IocProofs.Lemmas.ValueNum
import IocProofs.Lemmas.TagRound
namespace Ioc.Value
open Ioc.Tag

/-! ### findEl -/

theorem mem_takeWhile_true {α : Type} (p : α → Bool) (l : List α) (b : α) (h : b ∈ l.takeWhile p) : p b = true := by
  induction l with
  | nil => simp at h
  | cons a r ih =>
    simp only [List.takeWhile_cons] at h
    by_cases ha : p a = true
    · simp only [ha, if_true, List.mem_cons] at h
      rcases h with h | h
      · subst h; exact ha
      · exact ih h
    · simp [ha] at h

/-- a successful search splits the text around `x{content}` with a brace-free content -/
theorem findEl_some (x : UInt8) : ∀ (s pre c post : Bytes), findEl x s = some (pre, c, post) →
    s = pre ++ x :: 123 :: c ++ 125 :: post ∧ (∀ b ∈ c, notBrace b = true)
  | [], _, _, _, h => by simp [findEl] at h
  | b :: rest, pre, c, post, h => by
    unfold findEl at h
    have later : (Option.map (fun r => (b :: r.1, r.2.1, r.2.2)) (findEl x rest) = some (pre, c, post)) →
        b :: rest = pre ++ x :: 123 :: c ++ 125 :: post ∧ (∀ b ∈ c, notBrace b = true) := by
      intro hl
      cases hr : findEl x rest with
      | none => simp [hr] at hl
      | some r =>
        obtain ⟨p', c', q'⟩ := r
        simp [hr] at hl
        obtain ⟨h1, h2, h3⟩ := hl
        have := findEl_some x rest p' c' q' hr
        subst h1; subst h2; subst h3
        exact ⟨by simp [this.1], this.2⟩
    dsimp only at h
    by_cases hb : b = x
    · simp only [hb, if_true] at h
      subst hb
      split at h
      · rename_i r2
        split at h
        · rename_i post' hd
          simp at h
          obtain ⟨h1, h2, h3⟩ := h
          subst h1; subst h2; subst h3
          constructor
          · have := List.takeWhile_append_dropWhile (p := notBrace) (l := r2)
            rw [hd] at this
            rw [List.nil_append, List.cons_append, List.cons_append]
            exact congrArg (fun t => b :: 123 :: t) this.symm
          · intro b hb
            exact mem_takeWhile_true notBrace r2 b hb
        · exact later h
      · exact later h
    · simp only [hb, if_false] at h
      exact later h

theorem findEl_none_of_no_x (x : UInt8) (s : Bytes) (h : ∀ b ∈ s, b ≠ x) : findEl x s = none := by
  induction s with
  | nil => rfl
  | cons b r ih =>
    unfold findEl
    simp [h b (by simp), ih (fun c hc => h c (by simp [hc]))]

theorem takeWhile_append_stop {α : Type} (p : α → Bool) (l : List α) (a : α) (r : List α)
    (hl : ∀ b ∈ l, p b = true) (ha : p a = false) : (l ++ a :: r).takeWhile p = l ∧ (l ++ a :: r).dropWhile p = a :: r := by
  induction l with
  | nil => simp [ha]
  | cons b l ih =>
    have hb := hl b (by simp)
    have := ih (fun c hc => hl c (by simp [hc]))
    simp [hb, this.1, this.2]

/-- the whole-tag placeholder `${k}` is found, with content `k` -/
theorem findEl_placeholder (k : Bytes) (hk : ∀ b ∈ k, notBrace b = true) :
    findEl cDollar (cDollar :: 123 :: k ++ [125]) = some ([], k, []) := by
  have := takeWhile_append_stop notBrace k 125 [] hk (by decide)
  unfold findEl
  simp [this.1, this.2]

/-! ### ReplaceAllContent -/

theorem replaceAllF_none (x : UInt8) (f : Bytes → Except Err Bytes) (e : Err) (n : Nat) (s : Bytes)
    (h : findEl x s = none) : replaceAllF x f e n s = .ok s := by
  cases n <;> simp [replaceAllF, h]

/-- whatever the stage returns contains no further match (C18_expr_sees_no_placeholder) -/
theorem replaceAllF_ok_no_match (x : UInt8) (f : Bytes → Except Err Bytes) (e : Err) :
    ∀ (n : Nat) (s out : Bytes), replaceAllF x f e n s = .ok out → findEl x out = none
  | 0, s, out, h => by
    unfold replaceAllF at h
    cases hf : findEl x s with
    | none => simp [hf] at h; subst h; exact hf
    | some _ => simp [hf] at h
  | n + 1, s, out, h => by
    unfold replaceAllF at h
    cases hf : findEl x s with
    | none => simp [hf] at h; subst h; exact hf
    | some r =>
      obtain ⟨pre, c, post⟩ := r
      simp only [hf] at h
      cases hc : f c with
      | error e' => simp [hc] at h
      | ok r' =>
        simp only [hc] at h
        exact replaceAllF_ok_no_match x f e n _ out h

theorem maxRounds_succ : maxRounds = 999 + 1 := by decide

/-- one replacement that leaves a match-free text -/
theorem replaceAllF_one (x : UInt8) (f : Bytes → Except Err Bytes) (e : Err) (s pre c post r : Bytes)
    (hf : findEl x s = some (pre, c, post)) (hc : f c = .ok r) (hn : findEl x (pre ++ r ++ post) = none) :
    replaceAllF x f e maxRounds s = .ok (pre ++ r ++ post) := by
  rw [maxRounds_succ]
  unfold replaceAllF
  simp only [hf, hc]
  exact replaceAllF_none x f e 999 _ hn

end Ioc.Value
