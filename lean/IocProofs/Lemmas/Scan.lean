/-
  Lemmas for C11 (Ioc.Scan): the scanner over the mutual FieldT/Shape types, flattening, the
  reachability characterisation, and the tag-scan loop.
-/
import Ioc.Scan
import IocProofs.Lemmas.TagTotal
namespace Ioc
namespace Scan

/-! ### scan and append / path prefix -/

theorem scanShape_append (p : List Bytes) : (a b : Shape) →
    scanShape p (a.append b) = scanShape p a ++ scanShape p b
  | .nil, b => by simp [Shape.append, scanShape]
  | .cons f r, b => by simp [Shape.append, scanShape, scanShape_append p r b]

/-- put `p` in front of the holder chain -/
def pre (p : List Bytes) (f : ScannedField) : ScannedField := ⟨p ++ f.path, f.info⟩

mutual
theorem scanField_pre (p q : List Bytes) (f : FieldT) :
    scanField (p ++ q) f = (scanField q f).map (pre p) := by
  cases f with
  | leaf i =>
    simp only [scanField]
    split <;> simp [pre]
  | struct i anon byv fs =>
    simp only [scanField]
    split
    · rw [List.append_assoc]; exact scanShape_pre p (q ++ [i.name]) fs
    · split <;> simp [pre]
theorem scanShape_pre (p q : List Bytes) (s : Shape) :
    scanShape (p ++ q) s = (scanShape q s).map (pre p) := by
  cases s with
  | nil => simp [scanShape]
  | cons f rest =>
    simp only [scanShape, List.map_append]
    rw [scanField_pre p q f, scanShape_pre p q rest]
end

theorem scanShape_eq_pre (p : List Bytes) (s : Shape) : scanShape p s = (scan s).map (pre p) := by
  have := scanShape_pre p [] s
  simpa [scan] using this

theorem scanShape_info (p q : List Bytes) (s : Shape) :
    (scanShape p s).map (·.info) = (scanShape q s).map (·.info) := by
  rw [scanShape_eq_pre p, scanShape_eq_pre q]
  simp [List.map_map, Function.comp_def, pre]

/-! ### flattening -/

mutual
theorem scan_flattenField (p : List Bytes) (f : FieldT) :
    (scanShape p (flattenField f)).map (·.info) = (scanField p f).map (·.info) := by
  cases f with
  | leaf i => simp [flattenField, scanShape]
  | struct i anon byv fs =>
    simp only [flattenField, scanField]
    split
    · rw [scan_flattenShape p fs]; exact scanShape_info _ _ fs
    · simp [scanShape, scanField, *]
theorem scan_flattenShape (p : List Bytes) (s : Shape) :
    (scanShape p (flattenShape s)).map (·.info) = (scanShape p s).map (·.info) := by
  cases s with
  | nil => simp [flattenShape]
  | cons f rest =>
    simp only [flattenShape, scanShape, scanShape_append, List.map_append]
    rw [scan_flattenField p f, scan_flattenShape p rest]
end

-- after flattening nothing is embedded any more: every scanned field sits directly on the component
mutual
theorem flattenField_top (p : List Bytes) (f : FieldT) :
    ∀ x ∈ scanShape p (flattenField f), x.path = p := by
  cases f with
  | leaf i =>
    intro x hx
    by_cases he : i.exported = true
    · simp [flattenField, scanShape, scanField, he] at hx; rw [hx]
    · simp [flattenField, scanShape, scanField, he] at hx
  | struct i anon byv fs =>
    simp only [flattenField]
    split
    · exact flattenShape_top p fs
    · rename_i hd
      intro x hx
      by_cases he : i.exported = true
      · simp [scanShape, scanField, hd, he] at hx; rw [hx]
      · simp [scanShape, scanField, hd, he] at hx
theorem flattenShape_top (p : List Bytes) (s : Shape) :
    ∀ x ∈ scanShape p (flattenShape s), x.path = p := by
  cases s with
  | nil => intro x hx; simp [flattenShape, scanShape] at hx
  | cons f rest =>
    intro x hx
    simp only [flattenShape, scanShape_append, List.mem_append] at hx
    rcases hx with h | h
    · exact flattenField_top p f x h
    · exact flattenShape_top p rest x h
end

-- flattening is idempotent: a flattened shape has no struct left to descend into
mutual
theorem flattenField_flat (f : FieldT) : flattenShape (flattenField f) = flattenField f := by
  cases f with
  | leaf i => simp [flattenField, flattenShape, Shape.append]
  | struct i anon byv fs =>
    simp only [flattenField]
    split
    · exact flattenShape_flat fs
    · rename_i hd; simp [flattenShape, flattenField, hd, Shape.append]
theorem flattenShape_flat (s : Shape) : flattenShape (flattenShape s) = flattenShape s := by
  cases s with
  | nil => simp [flattenShape]
  | cons f rest =>
    simp only [flattenShape]
    rw [flattenShape_append, flattenField_flat f, flattenShape_flat rest]
theorem flattenShape_append : (a b : Shape) →
    flattenShape (a.append b) = (flattenShape a).append (flattenShape b)
  | .nil, b => by simp [Shape.append, flattenShape]
  | .cons f r, b => by
    simp only [Shape.append, flattenShape]
    rw [flattenShape_append r b, Shape.append_assoc]
theorem Shape.append_assoc : (a b c : Shape) → (a.append b).append c = a.append (b.append c)
  | .nil, b, c => by simp [Shape.append]
  | .cons f r, b, c => by simp [Shape.append, Shape.append_assoc r b c]
end

/-! ### reachability: what the scanner keeps, exactly -/

theorem Reach.mono {a b : Shape} (hab : ∀ x ∈ a.toList, x ∈ b.toList) {q : List Bytes} {i : FInfo}
    (h : Reach a q i) : Reach b q i := by
  cases h with
  | leaf hm => exact .leaf (hab _ hm)
  | struct hm hd => exact .struct (hab _ hm) hd
  | down hm hd hr => exact .down (hab _ hm) hd hr

mutual
theorem scanField_sound (p : List Bytes) (fld : FieldT) (sh : Shape) (hm : fld ∈ sh.toList) :
    ∀ x ∈ scanField p fld, ∃ q, x.path = p ++ q ∧ Reach sh q x.info ∧ x.info.exported = true := by
  cases fld with
  | leaf i =>
    intro x hx
    simp only [scanField] at hx
    split at hx
    · rename_i he
      simp at hx; subst hx
      exact ⟨[], by simp, .leaf hm, he⟩
    · simp at hx
  | struct i anon byv fs =>
    intro x hx
    simp only [scanField] at hx
    split at hx
    · rename_i hd
      obtain ⟨q, hq, hr, he⟩ := scanShape_sound (p ++ [i.name]) fs x hx
      exact ⟨i.name :: q, by simp [hq], .down hm hd hr, he⟩
    · rename_i hd
      split at hx
      · rename_i he
        simp at hx; subst hx
        exact ⟨[], by simp, .struct hm (by simpa using hd), he⟩
      · simp at hx
theorem scanShape_sound (p : List Bytes) (sh : Shape) :
    ∀ x ∈ scanShape p sh, ∃ q, x.path = p ++ q ∧ Reach sh q x.info ∧ x.info.exported = true := by
  cases sh with
  | nil => intro x hx; simp [scanShape] at hx
  | cons f rest =>
    intro x hx
    simp only [scanShape, List.mem_append] at hx
    rcases hx with h | h
    · exact scanField_sound p f (.cons f rest) (by simp [Shape.toList]) x h
    · obtain ⟨q, hq, hr, he⟩ := scanShape_sound p rest x h
      exact ⟨q, hq, hr.mono (by intro y hy; simp [Shape.toList, hy]), he⟩
end

theorem scanField_sub (p : List Bytes) (fld : FieldT) : (sh : Shape) → fld ∈ sh.toList →
    ∀ x ∈ scanField p fld, x ∈ scanShape p sh
  | .nil, hm => by simp [Shape.toList] at hm
  | .cons f rest, hm => by
    intro x hx
    simp only [Shape.toList, List.mem_cons] at hm
    simp only [scanShape, List.mem_append]
    rcases hm with h | h
    · subst h; exact .inl hx
    · exact .inr (scanField_sub p fld rest h x hx)

theorem scan_complete {sh : Shape} {q : List Bytes} {i : FInfo} (h : Reach sh q i) (he : i.exported = true) :
    ∀ p, (⟨p ++ q, i⟩ : ScannedField) ∈ scanShape p sh := by
  induction h with
  | leaf hm =>
    intro p
    exact scanField_sub p _ _ hm _ (by simp [scanField, he])
  | struct hm hd =>
    intro p
    exact scanField_sub p _ _ hm _ (by simp [scanField, hd, he])
  | @down sh j anon byv fs q i hm hd _ ih =>
    intro p
    refine scanField_sub p _ _ hm _ ?_
    simp only [scanField, hd, if_true]
    have := ih he (p ++ [j.name])
    simpa using this

theorem mem_scan_iff (sh : Shape) (x : ScannedField) :
    x ∈ scan sh ↔ Reach sh x.path x.info ∧ x.info.exported = true := by
  constructor
  · intro hx
    obtain ⟨q, hq, hr, he⟩ := scanShape_sound [] sh x hx
    simp at hq; subst hq
    exact ⟨hr, he⟩
  · rintro ⟨hr, he⟩
    have := scan_complete hr he []
    simpa [scan] using this

/-! ### the tag-scan loop -/

theorem parse?_eq_parseD (s : Bytes) : Tag.parse? s = some (parseD s) := by
  obtain ⟨v, a, h⟩ := Tag.parse?_total s
  simp [parseD, h]

theorem newProperty?_eq (f : ScannedField) (nt t tv : Bytes) :
    newProperty? f nt t tv = some ⟨f, nt, t, (parseD tv).1, (parseD tv).2⟩ := by
  simp [newProperty?, parse?_eq_parseD]

theorem propsOf?_eq (d : TagProc) (fields : List ScannedField)
    (h : ∀ f ∈ fields, recognise d f ≠ .panic) : propsOf? d fields = some (propsOf d fields) := by
  induction fields with
  | nil => simp [propsOf?, propsLoop?, propsOf]
  | cons f rest ih =>
    have ih' := ih (fun g hg => h g (List.mem_cons_of_mem _ hg))
    have hf := h f (List.mem_cons_self ..)
    simp only [propsOf?, Option.map_eq_some_iff] at ih'
    obtain ⟨l, hl, hl'⟩ := ih'
    simp only [propsOf?, propsLoop?, propsOf, List.filterMap_cons]
    cases hr : recognise d f with
    | no => simp only [hl]; simpa [propsOf] using hl'
    | panic => exact absurd hr hf
    | yes t tv =>
      simp only [newProperty?_eq, hl, Option.map_some, List.map_cons]
      simp only [propsOf] at hl'
      simp [hl', applyRequired, mkProperty]

theorem properties?_eq (procs : List TagProc) (fields : List ScannedField) (h : NoPanic procs fields) :
    properties? procs fields = some (properties procs fields) := by
  induction procs with
  | nil => simp [properties?, properties]
  | cons d ds ih =>
    have h1 := propsOf?_eq d fields (h d (List.mem_cons_self ..))
    have h2 := ih (fun e he => h e (List.mem_cons_of_mem _ he))
    simp [properties?, h1, h2, properties]

theorem recognise_extract_none (d : TagProc) (hx : d.extract = none) (f : ScannedField) :
    recognise d f = (match (if d.tag ≠ [] then lookupTag d.tag f.info.tags else none) with
      | some tv => .yes d.tag tv | none => .no) := by
  simp only [recognise, hx]
  split <;> simp_all

theorem noPanic_of_extract_none (d : TagProc) (hx : d.extract = none) (f : ScannedField) :
    recognise d f ≠ .panic := by
  rw [recognise_extract_none d hx f]
  split <;> simp

theorem valueExtract_ne_panic (f : ScannedField) : valueExtract f ≠ .panic := by
  simp only [valueExtract]
  split
  · rename_i tv _
    obtain ⟨r, hr⟩ := Tag.propShorthand?_total tv
    simp [hr]
  · simp

theorem markerExtract_ne_panic (f : ScannedField) : markerExtract f ≠ .panic := by
  simp only [markerExtract]; split <;> simp

theorem recognise_ne_panic_of (d : TagProc) (f : ScannedField)
    (h : ∀ g, d.extract = some g → g f ≠ .panic) : recognise d f ≠ .panic := by
  simp only [recognise]
  split
  · simp
  · cases hx : d.extract with
    | none => simp
    | some g =>
      have := h g hx
      simp only
      cases hg : g f <;> simp_all

theorem noPanic_builtin (nt tg : Bytes) (fields : List ScannedField) :
    NoPanic (builtinProcs ++ [customProc nt tg]) fields := by
  intro d hd f _
  simp only [builtinProcs, List.cons_append, List.nil_append, List.mem_cons, List.not_mem_nil, or_false] at hd
  rcases hd with rfl | rfl | rfl | rfl | rfl | rfl
  · exact noPanic_of_extract_none _ rfl f
  · exact recognise_ne_panic_of _ f (by intro g hg; cases hg; exact markerExtract_ne_panic f)
  · exact recognise_ne_panic_of _ f (by intro g hg; cases hg; exact valueExtract_ne_panic f)
  · exact noPanic_of_extract_none _ rfl f
  · exact noPanic_of_extract_none _ rfl f
  · exact noPanic_of_extract_none _ rfl f

/-! ### properties depend on the declarations only -/

theorem recognise_info (d : TagProc) (hd : PathIndep d) (f g : ScannedField) (h : f.info = g.info) :
    recognise d f = recognise d g := by
  simp only [recognise, h]
  split
  · rfl
  · cases hx : d.extract with
    | none => rfl
    | some e => simp only; rw [hd e hx f g h]

/-- a property of one processor without its holder chain -/
def eraseOf (d : TagProc) (info : FInfo) (t tv : Bytes) : FInfo × Bytes × Bytes × Bytes × Tag.Args :=
  (info, d.nodeType, t, (parseD tv).1, requiredDefault d.required (parseD tv).2)

theorem propsOf_erase (d : TagProc) (hd : PathIndep d) :
    (fs gs : List ScannedField) → fs.map (·.info) = gs.map (·.info) →
    (propsOf d fs).map Property.erase = (propsOf d gs).map Property.erase
  | [], [], _ => rfl
  | [], _ :: _, h => by simp at h
  | _ :: _, [], h => by simp at h
  | f :: fs, g :: gs, h => by
    simp only [List.map_cons, List.cons.injEq] at h
    have ih := propsOf_erase d hd fs gs h.2
    simp only [propsOf] at ih
    simp only [propsOf, List.filterMap_cons, recognise_info d hd f g h.1]
    cases recognise d g with
    | no => simpa using ih
    | panic => simpa using ih
    | yes t tv =>
      simp only [List.map_cons, ih]
      simp [Property.erase, mkProperty, h.1]

theorem properties_erase (procs : List TagProc) (hp : ∀ d ∈ procs, PathIndep d)
    (fs gs : List ScannedField) (h : fs.map (·.info) = gs.map (·.info)) :
    (properties procs fs).map Property.erase = (properties procs gs).map Property.erase := by
  induction procs with
  | nil => simp [properties]
  | cons d ds ih =>
    have h1 := propsOf_erase d (hp d (List.mem_cons_self ..)) fs gs h
    have h2 := ih (fun e he => hp e (List.mem_cons_of_mem _ he))
    simp only [properties, List.flatMap_cons, List.map_append] at h2 ⊢
    rw [h1, h2]

theorem pathIndep_of_extract_none (d : TagProc) (hx : d.extract = none) : PathIndep d := by
  intro h hh; rw [hx] at hh; cases hh

theorem pathIndep_builtin (nt tg : Bytes) : ∀ d ∈ builtinProcs ++ [customProc nt tg], PathIndep d := by
  intro d hd
  simp only [builtinProcs, List.cons_append, List.nil_append, List.mem_cons, List.not_mem_nil, or_false] at hd
  rcases hd with rfl | rfl | rfl | rfl | rfl | rfl
  · exact pathIndep_of_extract_none _ rfl
  · intro h hh f g hfg; cases hh; simp [markerExtract, hfg]
  · intro h hh f g hfg; cases hh; simp [valueExtract, hfg]
  · exact pathIndep_of_extract_none _ rfl
  · exact pathIndep_of_extract_none _ rfl
  · exact pathIndep_of_extract_none _ rfl

/-! ### who owns a property -/

theorem mem_propsOf (d : TagProc) (fields : List ScannedField) (q : Property) :
    q ∈ propsOf d fields ↔ ∃ f ∈ fields, ∃ t tv, recognise d f = .yes t tv ∧ q = mkProperty d f t tv := by
  simp only [propsOf, List.mem_filterMap]
  constructor
  · rintro ⟨f, hf, h⟩
    cases hr : recognise d f with
    | no => simp [hr] at h
    | panic => simp [hr] at h
    | yes t tv => simp [hr] at h; exact ⟨f, hf, t, tv, hr, h.symm⟩
  · rintro ⟨f, hf, t, tv, hr, rfl⟩
    exact ⟨f, hf, by simp [hr]⟩

theorem mem_properties (procs : List TagProc) (fields : List ScannedField) (q : Property) :
    q ∈ properties procs fields ↔
      ∃ d ∈ procs, ∃ f ∈ fields, ∃ t tv, recognise d f = .yes t tv ∧ q = mkProperty d f t tv := by
  simp only [properties, List.mem_flatMap, mem_propsOf]

/-- what a `yes` of `recognise` means -/
theorem recognise_yes (d : TagProc) (f : ScannedField) (t tv : Bytes) (h : recognise d f = .yes t tv) :
    (d.tag ≠ [] ∧ lookupTag d.tag f.info.tags = some tv ∧ t = d.tag) ∨
    (∃ e t', d.extract = some e ∧ e f = .yes t' tv) := by
  simp only [recognise] at h
  split at h
  · rename_i tv' hl
    simp only [Extract.yes.injEq] at h
    left
    by_cases ht : d.tag ≠ []
    · rw [if_pos ht] at hl
      exact ⟨ht, by rw [hl, h.2], h.1.symm⟩
    · rw [if_neg ht] at hl; cases hl
  · right
    cases hx : d.extract with
    | none => simp [hx] at h
    | some e =>
      simp only [hx] at h
      cases he : e f with
      | no => simp [he] at h
      | panic => simp [he] at h
      | yes t' tv' =>
        simp only [he, Extract.yes.injEq] at h
        exact ⟨e, t', rfl, by rw [he, h.2]⟩

theorem lookupTag_some_mem (k : Bytes) (tags : List (Bytes × Bytes)) (v : Bytes) (h : lookupTag k tags = some v) :
    (k, v) ∈ tags := by
  induction tags with
  | nil => simp [lookupTag] at h
  | cons kv rest ih =>
    obtain ⟨k', v'⟩ := kv
    simp only [lookupTag] at h
    split at h
    · rename_i hk; simp at h; subst hk; subst h; simp
    · exact List.mem_cons_of_mem _ (ih h)

/-! ### a processor without ExtractHandler: exactly the fields carrying its tag -/

theorem propsOf_custom (d : TagProc) (hx : d.extract = none) (ht : d.tag ≠ []) (fields : List ScannedField) :
    (propsOf d fields).map (fun q => (q.field, q.tag, some (q.tagVal, q.args))) =
    fields.filterMap (fun f => (lookupTag d.tag f.info.tags).map fun v =>
      (f, d.tag, (Tag.parse? v).map fun r => (r.1, requiredDefault d.required r.2))) := by
  induction fields with
  | nil => simp [propsOf]
  | cons f rest ih =>
    simp only [propsOf] at ih
    simp only [propsOf, List.filterMap_cons, recognise_extract_none d hx f, if_pos ht]
    cases lookupTag d.tag f.info.tags with
    | none => simpa using ih
    | some v =>
      simp only [Option.map_some, List.map_cons, ih]
      simp [mkProperty, parse?_eq_parseD]

/-! ### frame -/

theorem frame_general (procs : List TagProc) (sh : Shape) (w : List Bytes) (hw : w ∈ writes procs sh) :
    ∃ f, f ∈ scan sh ∧ f.fullPath = w ∧ f.info.exported = true ∧ Reach sh f.path f.info ∧
      ∃ d ∈ procs, (d.tag ≠ [] ∧ (lookupTag d.tag f.info.tags).isSome) ∨
                   (∃ e t tv, d.extract = some e ∧ e f = .yes t tv) := by
  simp only [writes, List.mem_map] at hw
  obtain ⟨q, hq, rfl⟩ := hw
  obtain ⟨d, hd, f, hf, t, tv, hr, rfl⟩ := (mem_properties _ _ _).1 hq
  have hs := (mem_scan_iff sh f).1 hf
  refine ⟨f, hf, rfl, hs.2, hs.1, d, hd, ?_⟩
  rcases recognise_yes d f t tv hr with ⟨h1, h2, _⟩ | ⟨e, t', he, hy⟩
  · exact .inl ⟨h1, by simp [h2]⟩
  · exact .inr ⟨e, t', tv, he, hy⟩

theorem frame_builtin (nt tg : Bytes) (sh : Shape) (w : List Bytes)
    (hw : w ∈ writes (builtinProcs ++ [customProc nt tg]) sh) :
    ∃ f, f ∈ scan sh ∧ f.fullPath = w ∧ f.info.exported = true ∧ Reach sh f.path f.info ∧
      ((∃ k ∈ [tWire, tFunc, tValue, tProp, tPrefix, tLogger, tg], (lookupTag k f.info.tags).isSome) ∨
       f.info.marker.isSome) := by
  obtain ⟨f, hf, hp, he, hr, d, hd, h⟩ := frame_general _ sh w hw
  refine ⟨f, hf, hp, he, hr, ?_⟩
  simp only [builtinProcs, List.cons_append, List.nil_append, List.mem_cons, List.not_mem_nil, or_false] at hd
  rcases hd with rfl | rfl | rfl | rfl | rfl | rfl
  · rcases h with ⟨_, h⟩ | ⟨e, _, _, he', _⟩
    · exact .inl ⟨tLogger, by simp, h⟩
    · cases he'
  · rcases h with ⟨_, h⟩ | ⟨e, t, tv, he', hy⟩
    · exact .inl ⟨tPrefix, by simp, h⟩
    · cases he'
      right
      simp only [markerExtract] at hy
      cases hm : f.info.marker with
      | none => simp [hm] at hy
      | some _ => rfl
  · rcases h with ⟨_, h⟩ | ⟨e, t, tv, he', hy⟩
    · exact .inl ⟨tValue, by simp, h⟩
    · cases he'
      left
      refine ⟨tProp, by simp, ?_⟩
      simp only [valueExtract] at hy
      cases hm : lookupTag tProp f.info.tags with
      | none => simp [hm] at hy
      | some _ => rfl
  · rcases h with ⟨_, h⟩ | ⟨e, _, _, he', _⟩
    · exact .inl ⟨tWire, by simp, h⟩
    · cases he'
  · rcases h with ⟨_, h⟩ | ⟨e, _, _, he', _⟩
    · exact .inl ⟨tFunc, by simp, h⟩
    · cases he'
  · rcases h with ⟨_, h⟩ | ⟨e, _, _, he', _⟩
    · exact .inl ⟨tg, by simp, h⟩
    · cases he'

/-- completeness of `writes`: every scanned field some processor recognises owns a property -/
theorem writes_complete (procs : List TagProc) (sh : Shape) (f : ScannedField) (hf : f ∈ scan sh)
    (d : TagProc) (hd : d ∈ procs) (t tv : Bytes) (hr : recognise d f = .yes t tv) :
    f.fullPath ∈ writes procs sh := by
  simp only [writes, List.mem_map]
  exact ⟨mkProperty d f t tv, (mem_properties _ _ _).2 ⟨d, hd, f, hf, t, tv, hr, rfl⟩, rfl⟩

/-! ### the order in which the factory enumerates the scanners does not matter -/

theorem properties_perm (procs procs' : List TagProc) (h : procs.Perm procs') (fields : List ScannedField) :
    (properties procs fields).Perm (properties procs' fields) := by
  simp only [properties]
  exact h.flatMap_right _

end Scan
end Ioc
