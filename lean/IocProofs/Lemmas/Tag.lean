/-
  Lemmas about strings2.Index (Ioc.Tag.index): range of the result, and exactness on
  bracket-balanced text. Ported from the round-0 prototype.
-/
import Ioc.Tag
namespace Ioc.Tag
variable {α : Type} [DecidableEq α]

theorem idxFrom_lt (sep : α) (l : List α) (k : Nat) (h : idxFrom sep l = some k) : k < l.length := by
  induction l generalizing k with
  | nil => simp [idxFrom] at h
  | cons a l ih =>
    simp only [idxFrom] at h
    split at h
    · simp at h; subst h; simp
    · cases hh : idxFrom sep l with
      | none => simp [hh] at h
      | some j => simp [hh] at h; subst h; have := ih j hh; simp; omega

/-- bounds: result is -1 or a valid position -/
theorem loop_bounds (sep : α) (isL isR : α → Bool) (rest : List α) (i : Nat) (inn idx : Int)
    (hidx : idx < i + rest.length) (h0 : 0 ≤ idx) :
    let r := loop sep isL isR rest i inn idx
    r = -1 ∨ (0 ≤ r ∧ r < i + rest.length) := by
  induction rest generalizing i inn idx with
  | nil => simp [loop] at hidx ⊢; omega
  | cons a rest ih =>
    simp only [loop]
    split
    · have := ih (i+1) (inn+1) idx (by simp at hidx ⊢; omega) h0
      simp at this ⊢; omega
    · split
      · split
        · cases hk : idxFrom sep rest with
          | none => simp
          | some k =>
            have hlt := idxFrom_lt sep rest k hk
            have := ih (i+1) 0 (k + i + 1) (by simp; omega) (by omega)
            simp at this ⊢; omega
        · have := ih (i+1) (inn-1) idx (by simp at hidx ⊢; omega) h0
          simp at this ⊢; omega
      · split
        · split
          · rename_i hcond hne
            cases hk : idxFrom sep (a :: rest) with
            | none =>
              simp [optI]
              have hi1 : 1 ≤ i := by omega
              have := ih (i+1) inn (-1 + i) (by simp; omega) (by omega)
              simp at this ⊢; omega
            | some k =>
              have hlt := idxFrom_lt sep (a :: rest) k hk
              simp [optI]
              have := ih (i+1) inn (k + i) (by simp at hlt ⊢; omega) (by omega)
              simp at this ⊢; omega
          · simp at hidx ⊢; omega
        · have := ih (i+1) inn idx (by simp at hidx ⊢; omega) h0
          simp at this ⊢; omega


/-- `pre` is bracket-balanced from depth `d`, never closes below 0, and has the separator only inside brackets -/
def WFpre (sep : α) (isL isR : α → Bool) : List α → Nat → Bool
  | [], d => d == 0
  | a :: rest, d =>
    if isL a then WFpre sep isL isR rest (d+1)
    else if isR a then decide (0 < d) && WFpre sep isL isR rest (d-1)
    else if a = sep then decide (0 < d) && WFpre sep isL isR rest d
    else WFpre sep isL isR rest d

theorem idxFrom_append_sep (sep : α) (pre post : List α) : ∃ k, idxFrom sep (pre ++ sep :: post) = some k := by
  induction pre with
  | nil => exact ⟨0, by simp [idxFrom]⟩
  | cons a pre ih =>
    obtain ⟨k, hk⟩ := ih
    simp only [List.cons_append, idxFrom]
    split
    · exact ⟨0, rfl⟩
    · exact ⟨k+1, by simp [hk]⟩

theorem loop_toplevel (sep : α) (isL isR : α → Bool) (hsL : isL sep = false) (hsR : isR sep = false)
    (post : List α) (pre : List α) (d : Nat) (i : Nat) (idx : Int)
    (hwf : WFpre sep isL isR pre d = true)
    (hidx : d = 0 → ∃ k, idxFrom sep (pre ++ sep :: post) = some k ∧ idx = (i : Int) + k) :
    loop sep isL isR (pre ++ sep :: post) i (d : Int) idx = (i : Int) + pre.length := by
  induction pre generalizing d i idx with
  | nil =>
    simp only [WFpre, beq_iff_eq] at hwf
    subst hwf
    obtain ⟨k, hk, hidx⟩ := hidx rfl
    simp [idxFrom] at hk; subst hk
    simp [loop, hsL, hsR, hidx]
  | cons a rest ih =>
    simp only [List.cons_append, loop]
    simp only [WFpre] at hwf
    by_cases hL : isL a = true
    · simp only [hL, if_true] at hwf ⊢
      have := ih (d+1) (i+1) idx hwf (by intro h; omega)
      simp only [List.length_cons]
      push_cast at this ⊢
      rw [this]; omega
    · simp only [hL, Bool.false_eq_true, if_false] at hwf ⊢
      by_cases hR : isR a = true
      · simp only [hR, if_true, Bool.and_eq_true, decide_eq_true_eq] at hwf ⊢
        obtain ⟨hd, hwf⟩ := hwf
        by_cases hd1 : (d : Int) - 1 = 0
        · simp only [hd1, if_true]
          have hd' : d - 1 = 0 := by omega
          obtain ⟨k, hk⟩ := idxFrom_append_sep sep rest post
          rw [hk]
          simp only
          have := ih 0 (i+1) ((k : Int) + i + 1) (by rw [hd'] at hwf; exact hwf) (by intro _; exact ⟨k, hk, by push_cast; omega⟩)
          simp only [List.length_cons]
          push_cast at this ⊢
          rw [this]; omega
        · simp only [hd1, if_false]
          have hcast : ((d : Int) - 1) = ((d - 1 : Nat) : Int) := by omega
          rw [hcast]
          have := ih (d-1) (i+1) idx hwf (by intro h; omega)
          simp only [List.length_cons]
          push_cast at this ⊢
          rw [this]; omega
      · simp only [hR, Bool.false_eq_true, if_false] at hwf ⊢
        by_cases hs : a = sep
        · simp only [hs, if_true, Bool.and_eq_true, decide_eq_true_eq] at hwf
          obtain ⟨hd, hwf⟩ := hwf
          have hne : ¬ ((d : Int) = 0 ∧ idx ≤ (i : Int)) := by omega
          simp only [hne, if_false]
          have := ih d (i+1) idx hwf (by intro h; omega)
          simp only [List.length_cons]
          push_cast at this ⊢
          rw [this]; omega
        · simp only [hs, if_false] at hwf
          by_cases hd0 : d = 0
          · obtain ⟨k, hk, hidx'⟩ := hidx hd0
            simp only [List.cons_append, idxFrom, hs, if_false] at hk
            cases hk' : idxFrom sep (rest ++ sep :: post) with
            | none => simp [hk'] at hk
            | some k' =>
              simp [hk'] at hk
              have hne : ¬ ((d : Int) = 0 ∧ idx ≤ (i : Int)) := by omega
              simp only [hne, if_false]
              have := ih d (i+1) idx hwf (by intro _; exact ⟨k', hk', by push_cast; omega⟩)
              simp only [List.length_cons]
              push_cast at this ⊢
              rw [this]; omega
          · have hne : ¬ ((d : Int) = 0 ∧ idx ≤ (i : Int)) := by omega
            simp only [hne, if_false]
            have := ih d (i+1) idx hwf (by intro h; exact absurd h hd0)
            simp only [List.length_cons]
            push_cast at this ⊢
            rw [this]; omega

/-- C19: on bracket-balanced text the first top-level separator is found exactly -/
theorem index_toplevel (sep : α) (isL isR : α → Bool) (hsL : isL sep = false) (hsR : isR sep = false)
    (pre post : List α) (hwf : WFpre sep isL isR pre 0 = true) :
    index sep isL isR (pre ++ sep :: post) = pre.length := by
  obtain ⟨k, hk⟩ := idxFrom_append_sep sep pre post
  unfold index
  rw [hk]
  have := loop_toplevel sep isL isR hsL hsR post pre 0 0 k hwf (by intro _; exact ⟨k, hk, by simp⟩)
  simpa using this


end Ioc.Tag
