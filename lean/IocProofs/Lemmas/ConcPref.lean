/-
  Lemmas for the seventh-round scenarios of the concurrency unit (Ioc.Conc section 7):
  * in a sequential history of LoadOrStoreFn calls on one key that starts with the key PRESENT, the key keeps its value
    (`seq_cached_stays`) — with `seq_all_kept`: every caller is handed the cached value, whatever it would have stored.
-/
import Ioc.Conc
import IocProofs.Lemmas.ConcReg

namespace Ioc.Conc

theorem seq_cached_stays (k w : Nat) (m0 : MapSt) (h0 : m0 k = some w) :
    ∀ (h : List (Nat × Op × Res)) (m : MapSt), Explains m0 h m →
      (∀ e, e ∈ h → ∃ v, e.2.1 = .loadOrStoreFn k v) → m k = some w := by
  intro h
  induction h with
  | nil => intro m hex _; rw [show m = m0 from hex]; exact h0
  | cons e0 older ih =>
    intro m hex hall
    obtain ⟨t, op, r⟩ := e0
    obtain ⟨m1, hold, hspec⟩ := hex
    obtain ⟨v, hv⟩ := hall (t, op, r) (by simp)
    simp only at hv
    subst hv
    have hm : m1 k = some w := ih m1 hold (fun e he => hall e (by simp [he]))
    simp only [Op.spec, hm, Prod.mk.injEq] at hspec
    rw [← hspec.1]; exact hm

end Ioc.Conc
