/-
  Semantic theorems for the REGENERATED loaders (interpretation: Ioc.SemLoaders).
-/
import Ioc.SemLoaders
import IocProofs.Lemmas.GoTactics
set_option linter.unusedSimpArgs false
namespace Ioc.Sem
open Ioc Ioc.Go

/-- RawLoader: the bytes it was built from, never an error -/
theorem rawLoader_sem (raw : Val) : run (rlPrims raw) Progs.loader_Raw [] () = some (.tuple [raw, .nil], ()) := by
  go_simp [Progs.loader_Raw, rlPrims, rlFn]

/-- FileLoader: the file's bytes; a read error comes back wrapped, with no bytes -/
theorem fileLoader_sem (path : String) (read : String → Except String Nat) :
    run (flPrims path read) Progs.loader_File [] () =
      some (match read path with
            | .ok b => .tuple [.ref b 151, .nil]
            | .error e => .tuple [.nil, .str ("read file: " ++ e)], ()) := by
  cases hr : read path <;> go_simp [Progs.loader_File, flPrims, flFn, hr]

section argsloader
variable (p : ALP)

def alBody : List Stmt := match Progs.loader_Args.body with | [_, .range _ _ _ b, _, _, _, _] => b | _ => []
def alTail : List Stmt := match Progs.loader_Args.body with | [_, _, a, b, c, d] => [a, b, c, d] | _ => []
theorem al_shape : Progs.loader_Args.body =
    [.define ["p"] (.call "properties.New" []), .range "_" "arg" (.glob "self") alBody] ++ alTail := rfl

def envAL : Env := [("p", .ref 0 152)]

theorem al_iter (j : Nat) (a : String) (w : List (String × Nat)) :
    ∃ c, (evalB (alPrims p) (Env.def (Env.def envAL "_" (.int j)) "arg" (.str a)) w alBody).map
        (fun (e', w'', ctl) => (Env.leave e' envAL.length, w'', ctl)) =
      some (envAL, (alStep p a () w).2.1, c) ∧ CtlMatches c (alStep p a () w).2.2 := by
  cases hp : p.hasPrefix a with
  | false =>
    refine ⟨.cont, ?_, Or.inl ⟨?_, Or.inr rfl⟩⟩
    · go_simp [alBody, Progs.loader_Args, alPrims, alFn, envAL, alStep, hp]
    · simp [alStep, hp]
  | true =>
    rcases hs : p.split (p.trim a) with ⟨k, ov⟩
    cases ov with
    | none =>
      cases hq : p.parse "" with
      | ok t =>
        refine ⟨.norm, ?_, Or.inl ⟨?_, Or.inl rfl⟩⟩
        · go_simp [alBody, Progs.loader_Args, alPrims, alFn, envAL, alStep, hp, hs, hq, splitVal, parseVal]
        · simp [alStep, hp, hs, hq]
      | error e =>
        refine ⟨.ret (.tuple [.nil, .str ("parse as any: " ++ e)]), ?_, Or.inr ⟨_, ?_, rfl⟩⟩
        · go_simp [alBody, Progs.loader_Args, alPrims, alFn, envAL, alStep, hp, hs, hq, splitVal, parseVal]
        · simp [alStep, hp, hs, hq]
    | some v =>
      cases hq : p.parse v with
      | ok t =>
        refine ⟨.norm, ?_, Or.inl ⟨?_, Or.inl rfl⟩⟩
        · go_simp [alBody, Progs.loader_Args, alPrims, alFn, envAL, alStep, hp, hs, hq, splitVal, parseVal]
        · simp [alStep, hp, hs, hq]
      | error e =>
        refine ⟨.ret (.tuple [.nil, .str ("parse as any: " ++ e)]), ?_, Or.inr ⟨_, ?_, rfl⟩⟩
        · go_simp [alBody, Progs.loader_Args, alPrims, alFn, envAL, alStep, hp, hs, hq, splitVal, parseVal]
        · simp [alStep, hp, hs, hq]

/-- ArgsLoader.LoadConfig: the arguments in order; only those with the prefix `--app.config` count; each is `key[=value]`
    split at the first "=", the value parsed into a typed value and set under the key (later arguments after earlier ones);
    a parse error ends the call; no setting at all gives (nil, nil) — no document, not an empty one; otherwise the YAML of
    the settings, a marshalling error wrapped -/
theorem argsLoader_sem (w : List (String × Nat)) :
    run (alPrims p) Progs.loader_Args [] w =
      (let r := stepLoop (alStep p) p.args () w
       match r.2.2 with
       | some v => some (v, r.2.1)
       | none =>
         if p.plen r.2.1 = 0 then some (.tuple [.nil, .nil], r.2.1)
         else some (match p.marshal r.2.1 with
                    | .ok b => .tuple [.ref b 151, .nil]
                    | .error e => .tuple [.nil, .str ("marshal to YAML: " ++ e)], r.2.1)) := by
  simp only [run, al_shape, show Progs.loader_Args.params = [] from rfl, List.length_nil, if_true, List.zip_nil_right,
    List.cons_append, List.nil_append]
  rw [evalB_cons]
  have h1 : evalS (alPrims p) [] w (.define ["p"] (.call "properties.New" [])) = some (envAL, w, .norm) := by
    go_simp [alPrims, alFn, envAL]
  rw [h1]; simp only []
  rw [evalB_cons]
  simp only [evalS]
  have hc : evalE (alPrims p) envAL w (.glob "self") = some (.list (p.args.map Val.str), w) := by
    go_simp [alPrims, alFn]
  rw [hc]; simp only []
  have hl := loopM_state_cont Val.str
    (fun j x e w' => (evalB (alPrims p) (Env.def (Env.def e "_" (.int j)) "arg" x) w' alBody).map
      (fun (e', w'', ctl) => (Env.leave e' e.length, w'', ctl)))
    (fun (_ : Unit) => envAL) (alStep p) (fun j a _ w' => al_iter p j a w') p.args 0 () w
  rw [hl]
  rcases hr : stepLoop (alStep p) p.args () w with ⟨u, w1, r⟩
  cases r with
  | some v => simp [ctlOf]
  | none =>
    simp only [ctlOf]
    by_cases hz : p.plen w1 = 0
    · go_simp [alTail, Progs.loader_Args, alPrims, alFn, envAL, hz]
    · have hb : ((p.plen w1 : Int) == 0) = false := by
        have : (p.plen w1 : Int) ≠ 0 := by omega
        simpa using this
      cases hm : p.marshal w1 <;>
        go_simp [alTail, Progs.loader_Args, alPrims, alFn, envAL, hz, hb, hm, marshalVal]

end argsloader
end Ioc.Sem
