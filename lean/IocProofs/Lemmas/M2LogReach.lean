/-
  Who gets created: every component that is ever entered (has a frame, is published, or has an event in the log) is
  reachable from a boot / eager name along candidate edges.
-/
import IocProofs.Lemmas.M2LogFields
namespace Ioc.M2.Lc
open Ioc.M2

/-- `c` is a candidate of some injection point of `b` that the factory iterates -/
def Needs (sc : Scen) (b c : Nat) : Prop := ∃ pt ∈ pts sc b, c ∈ pt.cands

/-- reflexive-transitive closure of `Needs` -/
inductive Reaches (sc : Scen) : Nat → Nat → Prop
  | refl (a : Nat) : Reaches sc a a
  | tail {a b c : Nat} : Reaches sc a b → Needs sc b c → Reaches sc a c

theorem Reaches.trans {sc : Scen} {a b c : Nat} (h1 : Reaches sc a b) (h2 : Reaches sc b c) : Reaches sc a c := by
  induction h2 with
  | refl => exact h1
  | tail _ hn ih => exact Reaches.tail ih hn

/-- needed by an eagerly created component (or being one) -/
def Root (sc : Scen) (n : Nat) : Prop := ∃ r ∈ sc.boot ++ sc.eager, Reaches sc r n

/-- entered: in creation or published -/
def Ent (st : St) (n : Nat) : Prop := n ∈ snames st ∨ st.l1 n ≠ none

structure ReachInv (sc : Scen) (st : St) : Prop where
  ent : ∀ n, Ent st n → Root sc n
  log : ∀ e ∈ st.log, Root sc (evName e)

theorem reachInv_init (sc : Scen) : ReachInv sc (init sc) := by
  constructor <;> simp [init, Ent, snames]

theorem reach_mono {sc : Scen} {st st' : St} (c : Nat) (h : ReachInv sc st) (hc : Root sc c)
    (hE : ∀ n, Ent st' n → Ent st n ∨ n = c)
    (hL : ∀ e ∈ st'.log, e ∈ st.log ∨ evName e = c ∨ Ent st (evName e)) : ReachInv sc st' := by
  constructor
  · intro n hn
    rcases hE n hn with h' | rfl
    · exact h.ent n h'
    · exact hc
  · intro e he
    rcases hL e he with h' | h' | h'
    · exact h.log e h'
    · rw [h']; exact hc
    · exact h.ent _ h'

theorem src_root {sc : Scen} {st st0 : St} {c : Nat} (src : Src sc st st0 c) (ht : TodoInv sc st)
    (h : ReachInv sc st) : Root sc c := by
  cases src with
  | boot n t hs hb =>
    obtain ⟨pre, he, _⟩ := ht
    exact ⟨c, by rw [he, hb]; simp, Reaches.refl c⟩
  | todo n t hs hb htd =>
    obtain ⟨pre, he, _⟩ := ht
    exact ⟨c, by rw [he, hb, htd]; simp, Reaches.refl c⟩
  | cand f rest hs hp hd =>
    obtain ⟨r, hr, hreach⟩ := h.ent f.name (Or.inl (by simp [snames, hs]))
    exact ⟨r, hr, Reaches.tail hreach ⟨_, List.getElem_mem hp, List.getElem_mem hd⟩⟩

theorem ent_src {sc : Scen} {st st0 : St} {c : Nat} (src : Src sc st st0 c) (n : Nat) : Ent st0 n ↔ Ent st n := by
  obtain ⟨e1, _, _, e4, _, _, _⟩ := src.same
  simp [Ent, snames, e1, e4]

theorem mem_addLog {sc : Scen} {st : St} {m : Nat} {e x : Ev} (h : x ∈ (addLog sc st m e).log) :
    x = e ∨ x ∈ st.log := by
  rw [addLog_log] at h
  simp at h
  rcases h with h | h
  · exact Or.inl h.2
  · exact Or.inr h

theorem ent_failAt {s : St} {x n : Nat} (h : Ent (failAt s x) n) : s.l1 n ≠ none := by
  rcases h with h | h
  · simp at h
  · exact h

theorem ent_push {s : St} {c n : Nat} (h : Ent (push s c) n) : n = c ∨ Ent s n := by
  rcases h with h | h
  · simp at h
    rcases h with h | h
    · exact Or.inl h
    · exact Or.inr (Or.inl h)
  · exact Or.inr (Or.inr h)

theorem ent_addLog {sc : Scen} {s : St} {m : Nat} {e : Ev} {n : Nat} (h : Ent (addLog sc s m e) n) : Ent s n := by
  simpa [Ent] using h

theorem reachInv_stepR (sc : Scen) (st st' : St) (ht : TodoInv sc st) (h : ReachInv sc st)
    (hstep : StepR sc st st') : ReachInv sc st' := by
  cases hstep with
  | done hs hb ht' => exact ⟨h.ent, h.log⟩
  | hit st0 c src o ho =>
    refine reach_mono c h (src_root src ht h) (fun n hn => Or.inl ((ent_src src n).mp ?_)) ?_
    · simpa [Ent, snames] using hn
    · intro e he; left; simpa [src.same.2.2.2.2.2.1] using he
  | promote st0 c src h1 h2 h3 hf =>
    refine reach_mono c h (src_root src ht h) (fun n hn => Or.inl ((ent_src src n).mp ?_)) ?_
    · simpa [Ent, snames] using hn
    · intro e he
      rcases mem_addLog (show e ∈ (addLog sc st0 c (.early c)).log from he) with rfl | he
      · right; left; rfl
      · left; rw [← src.same.2.2.2.2.2.1]; exact he
  | earlyFail st0 c src h1 h2 h3 hf =>
    refine reach_mono c h (src_root src ht h) (fun n hn => Or.inl ((ent_src src n).mp ?_)) ?_
    · exact Or.inr (by simpa using ent_failAt hn)
    · intro e he
      rcases mem_addLog (show e ∈ (addLog sc st0 c (.early c)).log from he) with rfl | he
      · right; left; rfl
      · left; rw [← src.same.2.2.2.2.2.1]; exact he
  | unknown st0 c src h1 h2 h3 hn =>
    refine reach_mono c h (src_root src ht h) (fun n hn => Or.inl ((ent_src src n).mp ?_)) ?_
    · exact Or.inr (ent_failAt hn)
    · intro e he; left; rw [← src.same.2.2.2.2.2.1]; exact he
  | enterU st0 c src h1 h2 h3 hn hw =>
    refine reach_mono c h (src_root src ht h) ?_ ?_
    · intro n hn
      rcases ent_push hn with rfl | hn
      · exact Or.inr rfl
      · exact Or.inl ((ent_src src n).mp hn)
    · intro e he; left; rw [← src.same.2.2.2.2.2.1]; exact he
  | enterFail st0 c src h1 h2 h3 hn hw hbad =>
    refine reach_mono c h (src_root src ht h) (fun n hn => Or.inl ((ent_src src n).mp ?_)) ?_
    · exact Or.inr (by simpa [push] using ent_failAt hn)
    · intro e he
      rcases mem_addLog (show e ∈ (addLog sc (push st0 c) c (.new c)).log from he) with rfl | he
      · right; left; rfl
      · left; rw [← src.same.2.2.2.2.2.1]; exact he
  | enterW st0 c src h1 h2 h3 hn hw hcfg hpts =>
    refine reach_mono c h (src_root src ht h) ?_ ?_
    · intro n hn
      rcases ent_push (ent_addLog (ent_addLog hn)) with rfl | hn
      · exact Or.inr rfl
      · exact Or.inl ((ent_src src n).mp hn)
    · intro e he
      rcases mem_addLog he with rfl | he
      · right; left; rfl
      · rcases mem_addLog he with rfl | he
        · right; left; rfl
        · left; rw [← src.same.2.2.2.2.2.1]; exact he
  | advance f rest hs hp hd hwhy =>
    refine ⟨fun n hn => h.ent n ?_, h.log⟩
    simpa [Ent, snames, hs, advance] using hn
  | injFail f rest hs hp hd hne hreq hwhy =>
    exact ⟨fun n hn => h.ent n (Or.inr (ent_failAt hn)), h.log⟩
  | write f rest hs hp hd hne hm hc =>
    refine ⟨fun n hn => h.ent n ?_, h.log⟩
    simpa [Ent, snames, hs, advance] using hn
  | cbFail f rest hs hp hcb =>
    have hf : Ent st f.name := Or.inl (by simp [snames, hs])
    refine reach_mono f.name h (h.ent _ hf) (fun n hn => Or.inl ?_) ?_
    · exact Or.inr (by simpa using ent_failAt hn)
    · intro e he
      change e ∈ (initCallbacks sc st f.name).1.log at he
      rw [initCallbacks_log] at he
      simp at he
      rcases he with he | he
      · right; left; exact cbEvs_name sc _ e he
      · left; exact he
  | stale f rest hs hp hcb e0 he0 hw hh =>
    have hf : Ent st f.name := Or.inl (by simp [snames, hs])
    refine reach_mono f.name h (h.ent _ hf) (fun n hn => Or.inl ?_) ?_
    · exact Or.inr (by simpa using ent_failAt hn)
    · intro e he
      change e ∈ (initCallbacks sc st f.name).1.log at he
      rw [initCallbacks_log] at he
      simp at he
      rcases he with he | he
      · right; left; exact cbEvs_name sc _ e he
      · left; exact he
  | publish f rest hs hp hcb pub hpub =>
    have hf : Ent st f.name := Or.inl (by simp [snames, hs])
    refine reach_mono f.name h (h.ent _ hf) ?_ ?_
    · intro n hn
      by_cases hnf : n = f.name
      · exact Or.inr hnf
      · left
        simp only [Ent, snames_publish] at hn
        rcases hn with hn | hn
        · exact Or.inl (by simp [snames, hs, hn])
        · exact Or.inr (by simpa [publish, hnf] using hn)
    · intro e he
      change e ∈ (initCallbacks sc st f.name).1.log at he
      rw [initCallbacks_log] at he
      simp at he
      rcases he with he | he
      · right; left; exact cbEvs_name sc _ e he
      · left; exact he

theorem reachInv_run (sc : Scen) (k : Nat) : ReachInv sc (run sc k (init sc)) :=
  (run_inv sc (fun s => (Inv sc s ∧ TodoInv sc s) ∧ ReachInv sc s)
    (step_inv_of_rel sc _ (fun st st' hi hr h =>
      ⟨⟨inv_stepR sc st st' hi.1.1 hr h, todo_stepR sc st st' hi.1.1 hi.1.2 hr h⟩,
       reachInv_stepR sc st st' hi.1.2 hi.2 h⟩))
    k _ ⟨⟨inv_init sc, todo_init sc⟩, reachInv_init sc⟩).2

end Ioc.M2.Lc
