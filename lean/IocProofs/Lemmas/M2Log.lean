/-
  The event log of the factory machine: per component name the lifecycle events appear exactly once and in order.
  `LogInv`: the projection of the log to the name `n` is [] (never entered), [new, conf] (in creation) or the full
  lifecycle (published).  Also: frames never run past their points, a field is only written by the frame of its
  holder, and nothing of a published component changes any more.
-/
import IocProofs.Lemmas.M2StepInv
namespace Ioc.M2.Lc
open Ioc.M2

def evName : Ev → Nat
  | .new n | .conf n | .before n | .aps n | .init n | .after n | .early n => n

/-- the lifecycle of a component in the order the events have to occur -/
def lifecycle (n : Nat) : List Ev := [.new n, .conf n, .before n, .aps n, .init n, .after n]

/-- the events of `n` in a log, early-reference events left out (the log is newest first) -/
def proj (n : Nat) (log : List Ev) : List Ev := log.filter (fun e => decide (evName e = n ∧ e ≠ Ev.early n))

def fullLog (sc : Scen) (n : Nat) : List Ev :=
  if sc.wired n then [.after n, .init n, .aps n, .before n, .conf n, .new n] else [.init n, .aps n]

def partLog (sc : Scen) (n : Nat) : List Ev := if sc.wired n then [.conf n, .new n] else []

theorem proj_cons (n : Nat) (e : Ev) (l : List Ev) :
    proj n (e :: l) = if evName e = n ∧ e ≠ Ev.early n then e :: proj n l else proj n l := by
  simp only [proj, List.filter_cons]
  by_cases h : evName e = n ∧ e ≠ Ev.early n <;> simp [h]

theorem proj_append (n : Nat) (a b : List Ev) : proj n (a ++ b) = proj n a ++ proj n b := by
  simp [proj]

theorem proj_addLog (sc : Scen) (st : St) (m : Nat) (e : Ev) (n : Nat) :
    proj n (addLog sc st m e).log =
      if sc.logged m = true ∧ evName e = n ∧ e ≠ Ev.early n then e :: proj n st.log else proj n st.log := by
  unfold addLog
  cases hl : sc.logged m with
  | false => simp
  | true => simp [proj_cons]

theorem proj_addLog_early (sc : Scen) (st : St) (m c : Nat) (n : Nat) :
    proj n (addLog sc st m (.early c)).log = proj n st.log := by
  rw [proj_addLog]
  by_cases h : c = n
  · subst h; simp
  · simp [evName, h]

theorem proj_addLog_other (sc : Scen) (st : St) (m : Nat) (e : Ev) (n : Nat) (h : evName e ≠ n) :
    proj n (addLog sc st m e).log = proj n st.log := by
  rw [proj_addLog]; simp [h]

/-- what InitializeComponent writes to the log (newest first), failures included -/
def cbEvs (sc : Scen) (n : Nat) : List Ev :=
  if sc.logged n then
    if sc.wired n then
      if sc.fBefore n then [.before n]
      else if sc.fAps n then [.aps n, .before n]
      else if sc.fInit n then [.init n, .aps n, .before n]
      else [.after n, .init n, .aps n, .before n]
    else
      if sc.fAps n then [.aps n] else [.init n, .aps n]
  else []

theorem initCallbacks_log (sc : Scen) (st : St) (n : Nat) : (initCallbacks sc st n).1.log = cbEvs sc n ++ st.log := by
  unfold initCallbacks cbEvs addLog
  cases sc.logged n <;> cases sc.wired n <;> cases sc.fBefore n <;> cases sc.fAps n <;> cases sc.fInit n <;>
    cases sc.fAfter n <;> simp

theorem cbEvs_ok (sc : Scen) (st : St) (n : Nat) (h : (initCallbacks sc st n).2 = true) (hl : sc.logged n = true) :
    cbEvs sc n = if sc.wired n then [.after n, .init n, .aps n, .before n] else [.init n, .aps n] := by
  revert h
  unfold initCallbacks cbEvs
  rw [hl]
  cases sc.wired n <;> cases sc.fBefore n <;> cases sc.fAps n <;> cases sc.fInit n <;>
    cases sc.fAfter n <;> simp

theorem cbEvs_mem (sc : Scen) (n : Nat) (e : Ev) (h : e ∈ cbEvs sc n) :
    e = .before n ∨ e = .aps n ∨ e = .init n ∨ e = .after n := by
  revert h
  unfold cbEvs
  cases sc.logged n <;> cases sc.wired n <;> cases sc.fBefore n <;> cases sc.fAps n <;> cases sc.fInit n <;>
    simp <;> grind

theorem cbEvs_name (sc : Scen) (n : Nat) (e : Ev) (h : e ∈ cbEvs sc n) : evName e = n := by
  rcases cbEvs_mem sc n e h with h | h | h | h <;> rw [h] <;> rfl

theorem cbEvs_before (sc : Scen) (n : Nat) (hl : sc.logged n = true) (hw : sc.wired n = true) :
    ∃ l, cbEvs sc n = l ++ [.before n] := by
  unfold cbEvs
  rw [hl, hw]
  cases sc.fBefore n <;> cases sc.fAps n <;> cases sc.fInit n
  all_goals simp only [if_true, Bool.false_eq_true, if_false]
  · exact ⟨[.after n, .init n, .aps n], rfl⟩
  · exact ⟨[.init n, .aps n], rfl⟩
  · exact ⟨[.aps n], rfl⟩
  · exact ⟨[.aps n], rfl⟩
  · exact ⟨[], rfl⟩
  · exact ⟨[], rfl⟩
  · exact ⟨[], rfl⟩
  · exact ⟨[], rfl⟩

theorem proj_cbEvs_other (sc : Scen) (m n : Nat) (h : n ≠ m) : proj n (cbEvs sc m) = [] := by
  unfold proj
  rw [List.filter_eq_nil_iff]
  intro e he
  have := cbEvs_name sc m e he
  simp [this, Ne.symm h]

theorem proj_cbEvs_self (sc : Scen) (n : Nat) : proj n (cbEvs sc n) = cbEvs sc n := by
  unfold proj
  rw [List.filter_eq_self]
  intro e he
  rcases cbEvs_mem sc n e he with h | h | h | h <;> simp [h, evName]

/-! ### the log invariant -/

structure LogInv (sc : Scen) (st : St) : Prop where
  pub : ∀ n, sc.logged n = true → st.l1 n ≠ none → proj n st.log = fullLog sc n
  onst : ¬ Failed st → ∀ n, sc.logged n = true → n ∈ snames st → proj n st.log = partLog sc n
  off : ¬ Failed st → ∀ n, sc.logged n = true → st.l1 n = none → n ∉ snames st → proj n st.log = []

theorem logInv_init (sc : Scen) : LogInv sc (init sc) := by
  constructor <;> simp [init, snames, proj]

theorem logInv_same {sc : Scen} {st st' : St} (h : LogInv sc st) (h1 : st'.l1 = st.l1) (hs : snames st' = snames st)
    (hl : ∀ n, proj n st'.log = proj n st.log) (hf : ¬ Failed st' → ¬ Failed st) : LogInv sc st' := by
  constructor
  · intro n hn; rw [h1, hl]; exact h.pub n hn
  · intro hF n hn; rw [hs, hl]; exact h.onst (hf hF) n hn
  · intro hF n hn; rw [h1, hs, hl]; exact h.off (hf hF) n hn

theorem logInv_fail {sc : Scen} {st st' : St} (h : LogInv sc st) (hF : Failed st') (h1 : st'.l1 = st.l1)
    (hl : ∀ n, st.l1 n ≠ none → proj n st'.log = proj n st.log) : LogInv sc st' := by
  constructor
  · intro n hn hp; rw [h1] at hp; rw [hl n hp]; exact h.pub n hn hp
  · intro hnf; exact absurd hF hnf
  · intro hnf; exact absurd hF hnf

theorem not_failed_of_running {st : St} (h : st.status = .running) : ¬ Failed st := by
  intro ⟨x, g, h'⟩; rw [h] at h'; cases h'

theorem logInv_src {sc : Scen} {st st0 : St} {c : Nat} (src : Src sc st st0 c) (h : LogInv sc st) : LogInv sc st0 := by
  obtain ⟨e1, _, _, e4, _, e6, e7⟩ := src.same
  refine logInv_same h e1 (by simp [snames, e4]) (fun n => by rw [e6]) ?_
  intro hF ⟨x, g, hx⟩; exact hF ⟨x, g, by rw [e7]; exact hx⟩

/-- entering a component: its log is empty before, [new, conf] after (nothing when its events are not wired) -/
theorem logInv_enter (sc : Scen) (st0 s : St) (c : Nat) (hi : Inv sc st0) (h : LogInv sc st0)
    (hr : st0.status = .running)
    (h1 : st0.l1 c = none) (h2 : st0.l2 c = none) (h3 : st0.l3 c = false)
    (e1 : s.l1 = st0.l1) (es : snames s = c :: snames st0)
    (el : ∀ n, proj n s.log = if n = c ∧ sc.logged c = true then partLog sc c ++ proj n st0.log else proj n st0.log) :
    LogInv sc s := by
  have hoff := hi.miss_off c h2 h3
  have nf := not_failed_of_running hr
  constructor
  · intro n hn hp
    rw [e1] at hp
    have hnc : n ≠ c := by intro hc; subst hc; exact hp h1
    rw [el]; simp only [hnc, false_and, if_false]
    exact h.pub n hn hp
  · intro _ n hn hm
    rw [es] at hm
    rw [el]
    by_cases hnc : n = c
    · subst hnc
      simp only [true_and, hn, if_true]
      rw [h.off nf n hn h1 hoff]; simp
    · simp only [hnc, false_and, if_false]
      simp [hnc] at hm
      exact h.onst nf n hn hm
  · intro _ n hn hp hm
    rw [es] at hm
    simp at hm
    rw [el]; simp only [hm.1, false_and, if_false]
    rw [e1] at hp
    exact h.off nf n hn hp hm.2

theorem logInv_stepR (sc : Scen) (st st' : St) (hi : Inv sc st) (h : LogInv sc st) (hr : st.status = .running)
    (hstep : StepR sc st st') : LogInv sc st' := by
  have nf := not_failed_of_running hr
  cases hstep with
  | done hs hb ht => exact logInv_same h rfl rfl (fun _ => rfl) (fun _ => nf)
  | hit st0 c src o ho =>
    obtain ⟨hi0, hr0⟩ := inv_src src hi hr
    exact logInv_same (logInv_src src h) rfl (by simp) (fun _ => rfl) (fun _ => not_failed_of_running hr0)
  | promote st0 c src h1 h2 h3 hf =>
    obtain ⟨hi0, hr0⟩ := inv_src src hi hr
    exact logInv_same (logInv_src src h) (by simp) (by simp [snames])
      (fun n => proj_addLog_early sc st0 c c n) (fun _ => not_failed_of_running hr0)
  | earlyFail st0 c src h1 h2 h3 hf =>
    exact logInv_fail (logInv_src src h) (failed_failAt _ _) (by simp [failAt])
      (fun n _ => proj_addLog_early sc st0 c c n)
  | unknown st0 c src h1 h2 h3 hn =>
    exact logInv_fail (logInv_src src h) (failed_failAt _ _) rfl (fun n _ => rfl)
  | enterU st0 c src h1 h2 h3 hn hw =>
    obtain ⟨hi0, hr0⟩ := inv_src src hi hr
    refine logInv_enter sc st0 _ c hi0 (logInv_src src h) hr0 h1 h2 h3 rfl rfl ?_
    intro n
    simp [partLog, hw, push]
  | enterFail st0 c src h1 h2 h3 hn hw hbad =>
    refine logInv_fail (logInv_src src h) (failed_failAt _ _) (by simp [failAt, push]) ?_
    intro n hp
    have hnc : c ≠ n := by intro hc; subst hc; exact hp h1
    change proj n (addLog sc (push st0 c) c (.new c)).log = _
    rw [proj_addLog_other _ _ _ _ _ (by simpa [evName] using hnc)]; rfl
  | enterW st0 c src h1 h2 h3 hn hw hcfg hpts =>
    obtain ⟨hi0, hr0⟩ := inv_src src hi hr
    refine logInv_enter sc st0 _ c hi0 (logInv_src src h) hr0 h1 h2 h3 (by simp [push]) (by simp) ?_
    intro n
    rw [proj_addLog, proj_addLog]
    by_cases hnc : n = c
    · subst hnc
      cases hl : sc.logged n <;> simp [evName, partLog, hw, push]
    · have : c ≠ n := fun h => hnc h.symm
      simp [evName, hnc, this, push]
  | advance f rest hs hp hd hwhy =>
    exact logInv_same h rfl (by simp [snames, hs, advance]) (fun _ => rfl) (fun _ => nf)
  | injFail f rest hs hp hd hne hreq hwhy => exact logInv_fail h (failed_failAt _ _) rfl (fun n _ => rfl)
  | write f rest hs hp hd hne hm hc =>
    exact logInv_same h rfl (by simp [snames, hs, advance]) (fun _ => rfl) (fun _ => nf)
  | cbFail f rest hs hp hcb =>
    refine logInv_fail h (failed_failAt _ _) (by simp [failAt]) ?_
    intro n hpn
    have hnf : n ≠ f.name := by
      intro hc; subst hc; exact hpn (hi.l1_off _ (by simp [snames, hs]))
    change proj n (initCallbacks sc st f.name).1.log = _
    rw [initCallbacks_log, proj_append, proj_cbEvs_other sc _ _ hnf]; rfl
  | stale f rest hs hp hcb e he hw hh =>
    refine logInv_fail h (failed_failAt _ _) (by simp [failAt]) ?_
    intro n hpn
    have hnf : n ≠ f.name := by
      intro hc; subst hc; exact hpn (hi.l1_off _ (by simp [snames, hs]))
    change proj n (initCallbacks sc st f.name).1.log = _
    rw [initCallbacks_log, proj_append, proj_cbEvs_other sc _ _ hnf]; rfl
  | publish f rest hs hp hcb pub hpub =>
    have hsn : snames st = f.name :: rest.map (·.name) := by simp [snames, hs]
    have hnd := hi.nodup
    rw [hsn] at hnd
    have hnd' := List.nodup_cons.mp hnd
    have hlog : ∀ n, proj n (publish (initCallbacks sc st f.name).1 f.name pub rest).log =
        proj n (cbEvs sc f.name) ++ proj n st.log := by
      intro n
      change proj n (initCallbacks sc st f.name).1.log = _
      rw [initCallbacks_log, proj_append]
    constructor
    · intro n hn hpn
      rw [hlog]
      by_cases hnf : n = f.name
      · subst hnf
        rw [proj_cbEvs_self, cbEvs_ok sc st _ hcb hn, h.onst nf _ hn (by rw [hsn]; simp)]
        unfold fullLog partLog
        cases sc.wired f.name <;> simp
      · rw [proj_cbEvs_other sc _ _ hnf]
        have : st.l1 n ≠ none := by simpa [publish, hnf] using hpn
        simpa using h.pub n hn this
    · intro _ n hn hm
      simp only [snames_publish] at hm
      have hnf : n ≠ f.name := by intro hc; subst hc; exact hnd'.1 hm
      rw [hlog, proj_cbEvs_other sc _ _ hnf]
      simpa using h.onst nf n hn (by rw [hsn]; simp [hm])
    · intro _ n hn hpn hm
      simp only [snames_publish] at hm
      have hnf : n ≠ f.name := by intro hc; subst hc; simp [publish] at hpn
      rw [hlog, proj_cbEvs_other sc _ _ hnf]
      have h1 : st.l1 n = none := by simpa [publish, hnf] using hpn
      simpa using h.off nf n hn h1 (by rw [hsn]; simp [hm, hnf])

theorem logInv_run (sc : Scen) (k : Nat) : LogInv sc (run sc k (init sc)) :=
  (run_inv sc (fun s => Inv sc s ∧ LogInv sc s)
    (step_inv_of_rel sc _ (fun st st' hi hr h => ⟨inv_stepR sc st st' hi.1 hr h, logInv_stepR sc st st' hi.1 hi.2 hr h⟩))
    k _ ⟨inv_init sc, logInv_init sc⟩).2

/-- every lifecycle event exactly once and in order, for every published component, at every step count -/
theorem once_in_order (sc : Scen) (k : Nat) (n : Nat) (hp : (run sc k (init sc)).l1 n ≠ none)
    (hl : sc.logged n = true) :
    (run sc k (init sc)).log.reverse.filter (fun e => decide (evName e = n ∧ e ≠ Ev.early n)) =
      if sc.wired n then lifecycle n else [.aps n, .init n] := by
  have := (logInv_run sc k).pub n hl hp
  rw [List.filter_reverse]
  change (proj n _).reverse = _
  rw [this]
  unfold fullLog lifecycle
  cases sc.wired n <;> simp

end Ioc.M2.Lc
