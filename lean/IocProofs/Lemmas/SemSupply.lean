/-
  The short-circuit creation path of the delegate, regenerated (applyPostProcessBeforeInstantiation,
  ResolveBeforeInstantiation: `Sem.abiLoop`, `Sem.rbiModel` of Lemmas/SemMisc), IS the model of Ioc.Order
  (`applyBeforeInstantiation`, `resolveBeforeInstantiation`).
-/
import IocProofs.Lemmas.SemMisc
import IocProofs.Lemmas.OrderSupply
namespace Ioc.Sem
open Ioc Ioc.Order

theorem abiLoop_eq (isInst : Nat → Bool) (bi : Nat → Res Nat) (ps log : List Nat) :
    applyBeforeInstantiation isInst bi ps log = (log ++ (abiLoop isInst bi ps).1, (abiLoop isInst bi ps).2) := by
  induction ps generalizing log with
  | nil => simp [applyBeforeInstantiation, abiLoop]
  | cons p rest ih =>
    simp only [applyBeforeInstantiation, abiLoop]
    by_cases hi : isInst p = true
    · simp only [hi, if_true]
      cases hb : bi p with
      | err => simp
      | val c => simp
      | nil => simp [ih, List.append_assoc]
    · have hi' : isInst p = false := by simpa using hi
      simp [hi', ih]

/-- `rbiModel` fed with the answers of the two chains is `Order.resolveBeforeInstantiation` -/
theorem rbiModel_eq (hasInst : Bool) (isInst : Nat → Bool) (bi : Nat → Res Nat) (after : Nat → Nat → Res Nat)
    (procs : List Nat) :
    (rbiModel hasInst (applyBeforeInstantiation isInst bi procs []).2 (fun c => (applyAfter after procs c []).2)).1 =
      (resolveBeforeInstantiation hasInst isInst bi after procs).2.2 := by
  unfold rbiModel resolveBeforeInstantiation
  cases hasInst with
  | false => simp
  | true =>
    simp only [if_true]
    cases hb : applyBeforeInstantiation isInst bi procs [] with
    | mk lb rb =>
      cases rb with
      | err => simp
      | nil => simp
      | val c =>
        simp only
        cases ha : (applyAfter after procs c []).2 <;> simp

end Ioc.Sem
