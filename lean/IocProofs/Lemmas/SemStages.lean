/-
  Semantic theorems for the REGENERATED configuration stages (interpretation: Ioc.SemStages).
-/
import Ioc.SemStages
import IocProofs.Lemmas.GoTactics
set_option linter.unusedSimpArgs false
namespace Ioc.Sem
open Ioc Ioc.Go

section loops
variable (props : List SProp) (cfg : String → Option Nat) (unm : Nat → Nat → Option String) (parse : String → Except String Nat)

abbrev SP := stagePrims props cfg unm parse

def envS (n : Nat) : Env :=
  [("properties", .list ((List.range' 0 n).map (fun i => Val.ref i 20))), ("component", .str "c"), ("componentName", .str "n")]

def stageRet : Option String → Option Val
  | none => none
  | some e => some (.tuple [.nil, .str e])

def stageResult : Option String → Val
  | none => .tuple [.nil, .nil]
  | some e => .tuple [.nil, .str e]

/-- `stageLoop` as a `stepLoop` -/
def nodeStep (node : Nat → SW → SW × Option String) (i : Nat) (_ : Unit) (w : SW) : Unit × SW × Option Val :=
  ((), (node i w).1, stageRet (node i w).2)

theorem nodeStep_loop (node : Nat → SW → SW × Option String) (is : List Nat) (w : SW) :
    stepLoop (nodeStep node) is () w = ((), (stageLoop node is w).1, stageRet (stageLoop node is w).2) := by
  induction is generalizing w with
  | nil => rfl
  | cons i rest ih =>
    simp only [stepLoop, stageLoop, nodeStep]
    rcases h : node i w with ⟨w', r⟩
    cases r with
    | none => simp only [stageRet]; exact ih w'
    | some e => simp [stageRet]

/-! ### propertiesAwarePostProcessors.PostProcessProperties -/

def ppBody : List Stmt := match Progs.props_PostProcessProperties.body with | [.range _ _ _ b, _] => b | _ => []
theorem pp_shape : Progs.props_PostProcessProperties.body =
    [.range "_" "prop" (.var "properties") ppBody, .ret [.nil, .nil]] := rfl
theorem pp_params : Progs.props_PostProcessProperties.params = ["properties", "component", "componentName"] := rfl

theorem pp_iter (n i k : Nat) (w : SW) :
    ∃ c, (evalB (SP props cfg unm parse) (Env.def (Env.def (envS n) "_" (.int i)) "prop" (.ref k 20)) w ppBody).map
        (fun (e', w'', ctl) => (Env.leave e' (envS n).length, w'', ctl)) =
      some (envS n, (nodeStep (prefixNode props cfg unm) k () w).2.1, c) ∧
      CtlMatches c (nodeStep (prefixNode props cfg unm) k () w).2.2 := by
  by_cases ht : (spropAt props k).tag = "prefix"
  · cases hc : cfg (tagValNow props w k) with
    | none =>
      cases hr : (spropAt props k).required with
      | true =>
        refine ⟨.ret (.tuple [.nil, .str "required"]), ?_, Or.inr ⟨_, ?_, rfl⟩⟩
        · go_simp [ppBody, Progs.props_PostProcessProperties, SP, stagePrims, stageFn_prefixTag, stageFn_Tag, stageFn_TagVal,
            stageFn_IsRequired, stageFn_Get, stageFn_SetCfgNil, stageFn_SetCfg, stageFn_Unmarshall, stageFn_Errorf,
            stageFn_WithMessagef, envS, nodeStep, prefixNode, ht, hc, hr, encCV, stageRet]
        · simp [nodeStep, prefixNode, ht, hc, hr, stageRet]
      | false =>
        refine ⟨.cont, ?_, Or.inl ⟨?_, Or.inr rfl⟩⟩
        · go_simp [ppBody, Progs.props_PostProcessProperties, SP, stagePrims, stageFn_prefixTag, stageFn_Tag, stageFn_TagVal,
            stageFn_IsRequired, stageFn_Get, stageFn_SetCfgNil, stageFn_SetCfg, stageFn_Unmarshall, stageFn_Errorf,
            stageFn_WithMessagef, envS, nodeStep, prefixNode, ht, hc, hr, encCV, stageRet]
        · simp [nodeStep, prefixNode, ht, hc, hr, stageRet]
    | some a =>
      cases hu : unm k a with
      | none =>
        refine ⟨.norm, ?_, Or.inl ⟨?_, Or.inl rfl⟩⟩
        · go_simp [ppBody, Progs.props_PostProcessProperties, SP, stagePrims, stageFn_prefixTag, stageFn_Tag, stageFn_TagVal,
            stageFn_IsRequired, stageFn_Get, stageFn_SetCfgNil, stageFn_SetCfg, stageFn_Unmarshall, stageFn_Errorf,
            stageFn_WithMessagef, envS, nodeStep, prefixNode, ht, hc, hu, encCV, encErr, stageRet]
        · simp [nodeStep, prefixNode, ht, hc, hu, stageRet]
      | some e =>
        refine ⟨.ret (.tuple [.nil, .str e]), ?_, Or.inr ⟨_, ?_, rfl⟩⟩
        · go_simp [ppBody, Progs.props_PostProcessProperties, SP, stagePrims, stageFn_prefixTag, stageFn_Tag, stageFn_TagVal,
            stageFn_IsRequired, stageFn_Get, stageFn_SetCfgNil, stageFn_SetCfg, stageFn_Unmarshall, stageFn_Errorf,
            stageFn_WithMessagef, envS, nodeStep, prefixNode, ht, hc, hu, encCV, encErr, stageRet]
        · simp [nodeStep, prefixNode, ht, hc, hu, stageRet]
  · refine ⟨.cont, ?_, Or.inl ⟨?_, Or.inr rfl⟩⟩
    · have ht' : ((spropAt props k).tag == "prefix") = false := by simpa using ht
      go_simp [ppBody, Progs.props_PostProcessProperties, SP, stagePrims, stageFn_prefixTag, stageFn_Tag, envS, nodeStep,
        prefixNode, ht, ht']
    · simp [nodeStep, prefixNode, ht, stageRet]

/-- the shared last step: a `for range` over the nodes whose iterations are `nodeStep node`, then `return nil, nil` -/
theorem stage_run (P : Prims SW) (f : Func) (body : List Stmt) (node : Nat → SW → SW × Option String)
    (hshape : f.body = [.range "_" "prop" (.var "properties") body, .ret [.nil, .nil]])
    (hparams : f.params = ["properties", "component", "componentName"])
    (hiter : ∀ (n i k : Nat) (w : SW), ∃ c, (evalB P (Env.def (Env.def (envS n) "_" (.int i)) "prop" (.ref k 20)) w body).map
        (fun (e', w'', ctl) => (Env.leave e' (envS n).length, w'', ctl)) =
      some (envS n, (nodeStep node k () w).2.1, c) ∧ CtlMatches c (nodeStep node k () w).2.2)
    (n : Nat) (w : SW) :
    run P f [.list ((List.range' 0 n).map (fun i => Val.ref i 20)), .str "c", .str "n"] w =
      some (stageResult (stageLoop node (List.range' 0 n) w).2, (stageLoop node (List.range' 0 n) w).1) := by
  simp only [run, hparams, hshape, List.length_cons, List.length_nil, if_true, List.zip_cons_cons, List.zip_nil_right]
  rw [evalB_cons]
  simp only [evalS]
  rw [show ([("properties", Val.list ((List.range' 0 n).map (fun i => Val.ref i 20))), ("component", Val.str "c"), ("componentName", Val.str "n")] : Env) = envS n from rfl]
  have hcoll : evalE P (envS n) w (.var "properties") =
      some (.list ((List.range' 0 n).map (fun i => Val.ref i 20)), w) := by go_simp [envS]
  rw [hcoll]; simp only []
  have := loopM_state_cont (fun i => Val.ref i 20)
    (fun i x e w' => (evalB P (Env.def (Env.def e "_" (.int i)) "prop" x) w' body).map
      (fun (e', w'', ctl) => (Env.leave e' e.length, w'', ctl)))
    (fun (_ : Unit) => envS n) (nodeStep node) (fun i k _ w' => hiter n i k w') (List.range' 0 n) 0 () w
  rw [this, nodeStep_loop]
  cases h : (stageLoop node (List.range' 0 n) w).2 with
  | none => go_simp [ctlOf, stageRet, stageResult]
  | some e => go_simp [ctlOf, stageRet, stageResult]

/-- propertiesAwarePostProcessors.PostProcessProperties, regenerated: the nodes in order, each through `prefixNode`
    (SetConfiguration, then — only for a configured key — Unmarshall), the first failure ends the stage -/
theorem props_sem (n : Nat) (w : SW) :
    run (SP props cfg unm parse) Progs.props_PostProcessProperties
        [.list ((List.range' 0 n).map (fun i => Val.ref i 20)), .str "c", .str "n"] w =
      some (stageResult (stageLoop (prefixNode props cfg unm) (List.range' 0 n) w).2,
            (stageLoop (prefixNode props cfg unm) (List.range' 0 n) w).1) :=
  stage_run _ _ ppBody _ pp_shape pp_params (fun n i k w => pp_iter props cfg unm parse n i k w) n w

/-- what `prefixNode` returns is the decision `prefixDecision` of the three answers -/
theorem prefixNode_decision (i : Nat) (w : SW) (ht : (spropAt props i).tag = "prefix") :
    (prefixNode props cfg unm i w).2 =
      match prefixNodeDecision props cfg unm i w with
      | .fail e => some e
      | _ => none := by
  unfold prefixNode prefixNodeDecision prefixDecision
  simp only [ht, bne_self_eq_false, Bool.false_eq_true, if_false]
  cases hc : cfg (tagValNow props w i) with
  | none => cases (spropAt props i).required <;> simp
  | some a => cases hu : unm i a <;> simp [hu]

/-- … and the decoder runs exactly when the key is configured -/
theorem prefixNode_events (i : Nat) (w : SW) (ht : (spropAt props i).tag = "prefix") :
    (prefixNode props cfg unm i w).1 =
      w ++ [.setCfg i (tagValNow props w i) (cfg (tagValNow props w i))] ++
        (match cfg (tagValNow props w i) with
         | none => []
         | some a => [.unmarshal i a]) := by
  unfold prefixNode
  simp only [ht, bne_self_eq_false, Bool.false_eq_true, if_false]
  cases cfg (tagValNow props w i) <;> simp

/-! ### valueAwarePostProcessors.PostProcessProperties -/

def vpBody : List Stmt := match Progs.value_PostProcessProperties.body with | [.range _ _ _ b, _] => b | _ => []
theorem vp_shape : Progs.value_PostProcessProperties.body =
    [.range "_" "prop" (.var "properties") vpBody, .ret [.nil, .nil]] := rfl
theorem vp_params : Progs.value_PostProcessProperties.params = ["properties", "component", "componentName"] := rfl

theorem vp_iter (n i k : Nat) (w : SW) :
    ∃ c, (evalB (SP props cfg unm parse) (Env.def (Env.def (envS n) "_" (.int i)) "prop" (.ref k 20)) w vpBody).map
        (fun (e', w'', ctl) => (Env.leave e' (envS n).length, w'', ctl)) =
      some (envS n, (nodeStep (valueNode props unm parse) k () w).2.1, c) ∧
      CtlMatches c (nodeStep (valueNode props unm parse) k () w).2.2 := by
  by_cases ht : (spropAt props k).tag = "value"
  · by_cases he : tagValNow props w k = ""
    · cases hr : (spropAt props k).required with
      | true =>
        refine ⟨.ret (.tuple [.nil, .str "required"]), ?_, Or.inr ⟨_, ?_, rfl⟩⟩
        · go_simp [vpBody, Progs.value_PostProcessProperties, SP, stagePrims, stageFn_valueTag, stageFn_Tag, stageFn_TagVal,
            stageFn_IsRequired, stageFn_ParseAny, stageFn_Unmarshall, stageFn_Errorf, stageFn_WithMessagef, envS, nodeStep,
            valueNode, ht, he, hr, stageRet]
        · simp [nodeStep, valueNode, ht, he, hr, stageRet]
      | false =>
        refine ⟨.cont, ?_, Or.inl ⟨?_, Or.inr rfl⟩⟩
        · go_simp [vpBody, Progs.value_PostProcessProperties, SP, stagePrims, stageFn_valueTag, stageFn_Tag, stageFn_TagVal,
            stageFn_IsRequired, stageFn_ParseAny, stageFn_Unmarshall, stageFn_Errorf, stageFn_WithMessagef, envS, nodeStep,
            valueNode, ht, he, hr, stageRet]
        · simp [nodeStep, valueNode, ht, he, hr, stageRet]
    · have he' : (tagValNow props w k == "") = false := by simpa using he
      cases hp : parse (tagValNow props w k) with
      | error e =>
        refine ⟨.ret (.tuple [.nil, .str e]), ?_, Or.inr ⟨_, ?_, rfl⟩⟩
        · go_simp [vpBody, Progs.value_PostProcessProperties, SP, stagePrims, stageFn_valueTag, stageFn_Tag, stageFn_TagVal,
            stageFn_IsRequired, stageFn_ParseAny, stageFn_Unmarshall, stageFn_Errorf, stageFn_WithMessagef, envS, nodeStep,
            valueNode, ht, he, he', hp, encParse, stageRet]
        · simp [nodeStep, valueNode, ht, he, hp, stageRet]
      | ok a =>
        cases hu : unm k a with
        | none =>
          refine ⟨.norm, ?_, Or.inl ⟨?_, Or.inl rfl⟩⟩
          · go_simp [vpBody, Progs.value_PostProcessProperties, SP, stagePrims, stageFn_valueTag, stageFn_Tag, stageFn_TagVal,
              stageFn_IsRequired, stageFn_ParseAny, stageFn_Unmarshall, stageFn_Errorf, stageFn_WithMessagef, envS, nodeStep,
              valueNode, ht, he, he', hp, hu, encParse, encErr, stageRet]
          · simp [nodeStep, valueNode, ht, he, hp, hu, stageRet]
        | some e =>
          refine ⟨.ret (.tuple [.nil, .str e]), ?_, Or.inr ⟨_, ?_, rfl⟩⟩
          · go_simp [vpBody, Progs.value_PostProcessProperties, SP, stagePrims, stageFn_valueTag, stageFn_Tag, stageFn_TagVal,
              stageFn_IsRequired, stageFn_ParseAny, stageFn_Unmarshall, stageFn_Errorf, stageFn_WithMessagef, envS, nodeStep,
              valueNode, ht, he, he', hp, hu, encParse, encErr, stageRet]
          · simp [nodeStep, valueNode, ht, he, hp, hu, stageRet]
  · refine ⟨.cont, ?_, Or.inl ⟨?_, Or.inr rfl⟩⟩
    · have ht' : ((spropAt props k).tag == "value") = false := by simpa using ht
      go_simp [vpBody, Progs.value_PostProcessProperties, SP, stagePrims, stageFn_valueTag, stageFn_Tag, envS, nodeStep,
        valueNode, ht, ht']
    · simp [nodeStep, valueNode, ht, stageRet]

/-- valueAwarePostProcessors.PostProcessProperties, regenerated -/
theorem value_sem (n : Nat) (w : SW) :
    run (SP props cfg unm parse) Progs.value_PostProcessProperties
        [.list ((List.range' 0 n).map (fun i => Val.ref i 20)), .str "c", .str "n"] w =
      some (stageResult (stageLoop (valueNode props unm parse) (List.range' 0 n) w).2,
            (stageLoop (valueNode props unm parse) (List.range' 0 n) w).1) :=
  stage_run _ _ vpBody _ vp_shape vp_params (fun n i k w => vp_iter props cfg unm parse n i k w) n w

theorem valueNode_decision (i : Nat) (w : SW) (ht : (spropAt props i).tag = "value") :
    (valueNode props unm parse i w).2 =
      match valueNodeDecision props unm parse i w with
      | .fail e => some e
      | _ => none := by
  unfold valueNode valueNodeDecision valueDecision
  simp only [ht, bne_self_eq_false, Bool.false_eq_true, if_false]
  by_cases he : tagValNow props w i = ""
  · simp only [he, beq_self_eq_true, if_true]
    cases (spropAt props i).required <;> simp
  · have he' : (tagValNow props w i == "") = false := by simpa using he
    simp only [he', Bool.false_eq_true, if_false]
    cases hp : parse (tagValNow props w i) with
    | error e => simp
    | ok a => cases hu : unm i a <;> simp [hu]

end loops

/-! ### validateAwarePostProcessors.PostProcessProperties -/
section validate
variable (props : List SProp) (vS : Nat → Option String) (vV : Nat → String → Option String)

abbrev VP := validPrims props vS vV

def vlBody : List Stmt := match Progs.validate_PostProcessProperties.body with | [.range _ _ _ b, _] => b | _ => []
theorem vl_shape : Progs.validate_PostProcessProperties.body =
    [.range "_" "prop" (.var "properties") vlBody, .ret [.nil, .nil]] := rfl
theorem vl_params : Progs.validate_PostProcessProperties.params = ["properties", "component", "componentName"] := rfl

open Lean.Parser.Tactic in
macro "vl_simp" "[" ts:simpLemma,* "]" : tactic =>
  `(tactic| go_simp [vlBody, Progs.validate_PostProcessProperties, VP, validPrims, validFn_cfgType, validFn_argValidate,
      validFn_rPointer, validFn_rStruct, validFn_timeType, validFn_Conv, validFn_ConvElem, validFn_PropertyType, validFn_Args, validFn_Find, validFn_Type, validFn_Kind,
      validFn_Elem, validFn_KindElem, validFn_Value, validFn_IsNil, validFn_CanInterface, validFn_Interface, validFn_Struct,
      validFn_Var, validFn_Join, validFn_Wrapf, strsOf_map, envS, nodeStep, validateNode, encErr, stageRet, $ts,*])

theorem vl_iter (n i k : Nat) (w : SW) :
    ∃ c, (evalB (VP props vS vV) (Env.def (Env.def (envS n) "_" (.int i)) "prop" (.ref k 20)) w vlBody).map
        (fun (e', w'', ctl) => (Env.leave e' (envS n).length, w'', ctl)) =
      some (envS n, (nodeStep (validateNode props vS vV) k () w).2.1, c) ∧
      CtlMatches c (nodeStep (validateNode props vS vV) k () w).2.2 := by
  cases hcf : (spropAt props k).cfgType with
  | false =>
    refine ⟨.cont, ?_, Or.inl ⟨?_, Or.inr rfl⟩⟩
    · vl_simp [hcf]
    · simp [nodeStep, validateNode, hcf, stageRet]
  | true =>
    cases hv : (spropAt props k).validate with
    | none =>
      refine ⟨.norm, ?_, Or.inl ⟨?_, Or.inl rfl⟩⟩
      · vl_simp [hcf, hv]
      · simp [nodeStep, validateNode, hcf, hv, stageRet]
    | some ts =>
      cases hp : (spropAt props k).isPtr with
      | false =>
        cases hn : (spropAt props k).isNil with
        | false =>
          cases hs : (spropAt props k).isStruct with
          | false =>
            cases ht : (spropAt props k).isTime with
            | false =>
              cases hi : (spropAt props k).canIface with
              | false =>
                refine ⟨.norm, ?_, Or.inl ⟨?_, Or.inl rfl⟩⟩
                · vl_simp [hcf, hv, hp, hn, hs, ht, hi]
                · simp [nodeStep, validateNode, hcf, hv, hp, hn, hs, ht, hi, stageRet]
              | true =>
                cases hV : vV k (",".intercalate ts) with
                | none =>
                  refine ⟨.norm, ?_, Or.inl ⟨?_, Or.inl rfl⟩⟩
                  · vl_simp [hcf, hv, hp, hn, hs, ht, hi, hV]
                  · simp [nodeStep, validateNode, hcf, hv, hp, hn, hs, ht, hi, hV, stageRet]
                | some e =>
                  refine ⟨.ret (.tuple [.nil, .str e]), ?_, Or.inr ⟨_, ?_, rfl⟩⟩
                  · vl_simp [hcf, hv, hp, hn, hs, ht, hi, hV]
                  · simp [nodeStep, validateNode, hcf, hv, hp, hn, hs, ht, hi, hV, stageRet]
            | true =>
              cases hi : (spropAt props k).canIface with
              | false =>
                refine ⟨.norm, ?_, Or.inl ⟨?_, Or.inl rfl⟩⟩
                · vl_simp [hcf, hv, hp, hn, hs, ht, hi]
                · simp [nodeStep, validateNode, hcf, hv, hp, hn, hs, ht, hi, stageRet]
              | true =>
                cases hV : vV k (",".intercalate ts) with
                | none =>
                  refine ⟨.norm, ?_, Or.inl ⟨?_, Or.inl rfl⟩⟩
                  · vl_simp [hcf, hv, hp, hn, hs, ht, hi, hV]
                  · simp [nodeStep, validateNode, hcf, hv, hp, hn, hs, ht, hi, hV, stageRet]
                | some e =>
                  refine ⟨.ret (.tuple [.nil, .str e]), ?_, Or.inr ⟨_, ?_, rfl⟩⟩
                  · vl_simp [hcf, hv, hp, hn, hs, ht, hi, hV]
                  · simp [nodeStep, validateNode, hcf, hv, hp, hn, hs, ht, hi, hV, stageRet]
          | true =>
            cases ht : (spropAt props k).isTime with
            | false =>
              cases hi : (spropAt props k).canIface with
              | false =>
                cases hS : vS k with
                | none =>
                  refine ⟨.norm, ?_, Or.inl ⟨?_, Or.inl rfl⟩⟩
                  · vl_simp [hcf, hv, hp, hn, hs, ht, hi, hS]
                  · simp [nodeStep, validateNode, hcf, hv, hp, hn, hs, ht, hi, hS, stageRet]
                | some e =>
                  refine ⟨.ret (.tuple [.nil, .str e]), ?_, Or.inr ⟨_, ?_, rfl⟩⟩
                  · vl_simp [hcf, hv, hp, hn, hs, ht, hi, hS]
                  · simp [nodeStep, validateNode, hcf, hv, hp, hn, hs, ht, hi, hS, stageRet]
              | true =>
                cases hS : vS k with
                | none =>
                  refine ⟨.norm, ?_, Or.inl ⟨?_, Or.inl rfl⟩⟩
                  · vl_simp [hcf, hv, hp, hn, hs, ht, hi, hS]
                  · simp [nodeStep, validateNode, hcf, hv, hp, hn, hs, ht, hi, hS, stageRet]
                | some e =>
                  refine ⟨.ret (.tuple [.nil, .str e]), ?_, Or.inr ⟨_, ?_, rfl⟩⟩
                  · vl_simp [hcf, hv, hp, hn, hs, ht, hi, hS]
                  · simp [nodeStep, validateNode, hcf, hv, hp, hn, hs, ht, hi, hS, stageRet]
            | true =>
              cases hi : (spropAt props k).canIface with
              | false =>
                refine ⟨.norm, ?_, Or.inl ⟨?_, Or.inl rfl⟩⟩
                · vl_simp [hcf, hv, hp, hn, hs, ht, hi]
                · simp [nodeStep, validateNode, hcf, hv, hp, hn, hs, ht, hi, stageRet]
              | true =>
                cases hV : vV k (",".intercalate ts) with
                | none =>
                  refine ⟨.norm, ?_, Or.inl ⟨?_, Or.inl rfl⟩⟩
                  · vl_simp [hcf, hv, hp, hn, hs, ht, hi, hV]
                  · simp [nodeStep, validateNode, hcf, hv, hp, hn, hs, ht, hi, hV, stageRet]
                | some e =>
                  refine ⟨.ret (.tuple [.nil, .str e]), ?_, Or.inr ⟨_, ?_, rfl⟩⟩
                  · vl_simp [hcf, hv, hp, hn, hs, ht, hi, hV]
                  · simp [nodeStep, validateNode, hcf, hv, hp, hn, hs, ht, hi, hV, stageRet]
        | true =>
          cases hs : (spropAt props k).isStruct with
          | false =>
            cases ht : (spropAt props k).isTime with
            | false =>
              cases hi : (spropAt props k).canIface with
              | false =>
                refine ⟨.norm, ?_, Or.inl ⟨?_, Or.inl rfl⟩⟩
                · vl_simp [hcf, hv, hp, hn, hs, ht, hi]
                · simp [nodeStep, validateNode, hcf, hv, hp, hn, hs, ht, hi, stageRet]
              | true =>
                cases hV : vV k (",".intercalate ts) with
                | none =>
                  refine ⟨.norm, ?_, Or.inl ⟨?_, Or.inl rfl⟩⟩
                  · vl_simp [hcf, hv, hp, hn, hs, ht, hi, hV]
                  · simp [nodeStep, validateNode, hcf, hv, hp, hn, hs, ht, hi, hV, stageRet]
                | some e =>
                  refine ⟨.ret (.tuple [.nil, .str e]), ?_, Or.inr ⟨_, ?_, rfl⟩⟩
                  · vl_simp [hcf, hv, hp, hn, hs, ht, hi, hV]
                  · simp [nodeStep, validateNode, hcf, hv, hp, hn, hs, ht, hi, hV, stageRet]
            | true =>
              cases hi : (spropAt props k).canIface with
              | false =>
                refine ⟨.norm, ?_, Or.inl ⟨?_, Or.inl rfl⟩⟩
                · vl_simp [hcf, hv, hp, hn, hs, ht, hi]
                · simp [nodeStep, validateNode, hcf, hv, hp, hn, hs, ht, hi, stageRet]
              | true =>
                cases hV : vV k (",".intercalate ts) with
                | none =>
                  refine ⟨.norm, ?_, Or.inl ⟨?_, Or.inl rfl⟩⟩
                  · vl_simp [hcf, hv, hp, hn, hs, ht, hi, hV]
                  · simp [nodeStep, validateNode, hcf, hv, hp, hn, hs, ht, hi, hV, stageRet]
                | some e =>
                  refine ⟨.ret (.tuple [.nil, .str e]), ?_, Or.inr ⟨_, ?_, rfl⟩⟩
                  · vl_simp [hcf, hv, hp, hn, hs, ht, hi, hV]
                  · simp [nodeStep, validateNode, hcf, hv, hp, hn, hs, ht, hi, hV, stageRet]
          | true =>
            cases ht : (spropAt props k).isTime with
            | false =>
              cases hi : (spropAt props k).canIface with
              | false =>
                cases hS : vS k with
                | none =>
                  refine ⟨.norm, ?_, Or.inl ⟨?_, Or.inl rfl⟩⟩
                  · vl_simp [hcf, hv, hp, hn, hs, ht, hi, hS]
                  · simp [nodeStep, validateNode, hcf, hv, hp, hn, hs, ht, hi, hS, stageRet]
                | some e =>
                  refine ⟨.ret (.tuple [.nil, .str e]), ?_, Or.inr ⟨_, ?_, rfl⟩⟩
                  · vl_simp [hcf, hv, hp, hn, hs, ht, hi, hS]
                  · simp [nodeStep, validateNode, hcf, hv, hp, hn, hs, ht, hi, hS, stageRet]
              | true =>
                cases hS : vS k with
                | none =>
                  refine ⟨.norm, ?_, Or.inl ⟨?_, Or.inl rfl⟩⟩
                  · vl_simp [hcf, hv, hp, hn, hs, ht, hi, hS]
                  · simp [nodeStep, validateNode, hcf, hv, hp, hn, hs, ht, hi, hS, stageRet]
                | some e =>
                  refine ⟨.ret (.tuple [.nil, .str e]), ?_, Or.inr ⟨_, ?_, rfl⟩⟩
                  · vl_simp [hcf, hv, hp, hn, hs, ht, hi, hS]
                  · simp [nodeStep, validateNode, hcf, hv, hp, hn, hs, ht, hi, hS, stageRet]
            | true =>
              cases hi : (spropAt props k).canIface with
              | false =>
                refine ⟨.norm, ?_, Or.inl ⟨?_, Or.inl rfl⟩⟩
                · vl_simp [hcf, hv, hp, hn, hs, ht, hi]
                · simp [nodeStep, validateNode, hcf, hv, hp, hn, hs, ht, hi, stageRet]
              | true =>
                cases hV : vV k (",".intercalate ts) with
                | none =>
                  refine ⟨.norm, ?_, Or.inl ⟨?_, Or.inl rfl⟩⟩
                  · vl_simp [hcf, hv, hp, hn, hs, ht, hi, hV]
                  · simp [nodeStep, validateNode, hcf, hv, hp, hn, hs, ht, hi, hV, stageRet]
                | some e =>
                  refine ⟨.ret (.tuple [.nil, .str e]), ?_, Or.inr ⟨_, ?_, rfl⟩⟩
                  · vl_simp [hcf, hv, hp, hn, hs, ht, hi, hV]
                  · simp [nodeStep, validateNode, hcf, hv, hp, hn, hs, ht, hi, hV, stageRet]
      | true =>
        cases hn : (spropAt props k).isNil with
        | false =>
          cases hs : (spropAt props k).isStruct with
          | false =>
            cases ht : (spropAt props k).isTime with
            | false =>
              cases hi : (spropAt props k).canIface with
              | false =>
                refine ⟨.norm, ?_, Or.inl ⟨?_, Or.inl rfl⟩⟩
                · vl_simp [hcf, hv, hp, hn, hs, ht, hi]
                · simp [nodeStep, validateNode, hcf, hv, hp, hn, hs, ht, hi, stageRet]
              | true =>
                cases hV : vV k (",".intercalate ts) with
                | none =>
                  refine ⟨.norm, ?_, Or.inl ⟨?_, Or.inl rfl⟩⟩
                  · vl_simp [hcf, hv, hp, hn, hs, ht, hi, hV]
                  · simp [nodeStep, validateNode, hcf, hv, hp, hn, hs, ht, hi, hV, stageRet]
                | some e =>
                  refine ⟨.ret (.tuple [.nil, .str e]), ?_, Or.inr ⟨_, ?_, rfl⟩⟩
                  · vl_simp [hcf, hv, hp, hn, hs, ht, hi, hV]
                  · simp [nodeStep, validateNode, hcf, hv, hp, hn, hs, ht, hi, hV, stageRet]
            | true =>
              cases hi : (spropAt props k).canIface with
              | false =>
                refine ⟨.norm, ?_, Or.inl ⟨?_, Or.inl rfl⟩⟩
                · vl_simp [hcf, hv, hp, hn, hs, ht, hi]
                · simp [nodeStep, validateNode, hcf, hv, hp, hn, hs, ht, hi, stageRet]
              | true =>
                cases hV : vV k (",".intercalate ts) with
                | none =>
                  refine ⟨.norm, ?_, Or.inl ⟨?_, Or.inl rfl⟩⟩
                  · vl_simp [hcf, hv, hp, hn, hs, ht, hi, hV]
                  · simp [nodeStep, validateNode, hcf, hv, hp, hn, hs, ht, hi, hV, stageRet]
                | some e =>
                  refine ⟨.ret (.tuple [.nil, .str e]), ?_, Or.inr ⟨_, ?_, rfl⟩⟩
                  · vl_simp [hcf, hv, hp, hn, hs, ht, hi, hV]
                  · simp [nodeStep, validateNode, hcf, hv, hp, hn, hs, ht, hi, hV, stageRet]
          | true =>
            cases ht : (spropAt props k).isTime with
            | false =>
              cases hi : (spropAt props k).canIface with
              | false =>
                cases hS : vS k with
                | none =>
                  refine ⟨.norm, ?_, Or.inl ⟨?_, Or.inl rfl⟩⟩
                  · vl_simp [hcf, hv, hp, hn, hs, ht, hi, hS]
                  · simp [nodeStep, validateNode, hcf, hv, hp, hn, hs, ht, hi, hS, stageRet]
                | some e =>
                  refine ⟨.ret (.tuple [.nil, .str e]), ?_, Or.inr ⟨_, ?_, rfl⟩⟩
                  · vl_simp [hcf, hv, hp, hn, hs, ht, hi, hS]
                  · simp [nodeStep, validateNode, hcf, hv, hp, hn, hs, ht, hi, hS, stageRet]
              | true =>
                cases hS : vS k with
                | none =>
                  refine ⟨.norm, ?_, Or.inl ⟨?_, Or.inl rfl⟩⟩
                  · vl_simp [hcf, hv, hp, hn, hs, ht, hi, hS]
                  · simp [nodeStep, validateNode, hcf, hv, hp, hn, hs, ht, hi, hS, stageRet]
                | some e =>
                  refine ⟨.ret (.tuple [.nil, .str e]), ?_, Or.inr ⟨_, ?_, rfl⟩⟩
                  · vl_simp [hcf, hv, hp, hn, hs, ht, hi, hS]
                  · simp [nodeStep, validateNode, hcf, hv, hp, hn, hs, ht, hi, hS, stageRet]
            | true =>
              cases hi : (spropAt props k).canIface with
              | false =>
                refine ⟨.norm, ?_, Or.inl ⟨?_, Or.inl rfl⟩⟩
                · vl_simp [hcf, hv, hp, hn, hs, ht, hi]
                · simp [nodeStep, validateNode, hcf, hv, hp, hn, hs, ht, hi, stageRet]
              | true =>
                cases hV : vV k (",".intercalate ts) with
                | none =>
                  refine ⟨.norm, ?_, Or.inl ⟨?_, Or.inl rfl⟩⟩
                  · vl_simp [hcf, hv, hp, hn, hs, ht, hi, hV]
                  · simp [nodeStep, validateNode, hcf, hv, hp, hn, hs, ht, hi, hV, stageRet]
                | some e =>
                  refine ⟨.ret (.tuple [.nil, .str e]), ?_, Or.inr ⟨_, ?_, rfl⟩⟩
                  · vl_simp [hcf, hv, hp, hn, hs, ht, hi, hV]
                  · simp [nodeStep, validateNode, hcf, hv, hp, hn, hs, ht, hi, hV, stageRet]
        | true =>
          cases hs : (spropAt props k).isStruct with
          | false =>
            cases ht : (spropAt props k).isTime with
            | false =>
              cases hi : (spropAt props k).canIface with
              | false =>
                refine ⟨.cont, ?_, Or.inl ⟨?_, Or.inr rfl⟩⟩
                · vl_simp [hcf, hv, hp, hn, hs, ht, hi]
                · simp [nodeStep, validateNode, hcf, hv, hp, hn, hs, ht, hi, stageRet]
              | true =>
                refine ⟨.cont, ?_, Or.inl ⟨?_, Or.inr rfl⟩⟩
                · vl_simp [hcf, hv, hp, hn, hs, ht, hi]
                · simp [nodeStep, validateNode, hcf, hv, hp, hn, hs, ht, hi, stageRet]
            | true =>
              cases hi : (spropAt props k).canIface with
              | false =>
                refine ⟨.cont, ?_, Or.inl ⟨?_, Or.inr rfl⟩⟩
                · vl_simp [hcf, hv, hp, hn, hs, ht, hi]
                · simp [nodeStep, validateNode, hcf, hv, hp, hn, hs, ht, hi, stageRet]
              | true =>
                refine ⟨.cont, ?_, Or.inl ⟨?_, Or.inr rfl⟩⟩
                · vl_simp [hcf, hv, hp, hn, hs, ht, hi]
                · simp [nodeStep, validateNode, hcf, hv, hp, hn, hs, ht, hi, stageRet]
          | true =>
            cases ht : (spropAt props k).isTime with
            | false =>
              cases hi : (spropAt props k).canIface with
              | false =>
                refine ⟨.cont, ?_, Or.inl ⟨?_, Or.inr rfl⟩⟩
                · vl_simp [hcf, hv, hp, hn, hs, ht, hi]
                · simp [nodeStep, validateNode, hcf, hv, hp, hn, hs, ht, hi, stageRet]
              | true =>
                refine ⟨.cont, ?_, Or.inl ⟨?_, Or.inr rfl⟩⟩
                · vl_simp [hcf, hv, hp, hn, hs, ht, hi]
                · simp [nodeStep, validateNode, hcf, hv, hp, hn, hs, ht, hi, stageRet]
            | true =>
              cases hi : (spropAt props k).canIface with
              | false =>
                refine ⟨.cont, ?_, Or.inl ⟨?_, Or.inr rfl⟩⟩
                · vl_simp [hcf, hv, hp, hn, hs, ht, hi]
                · simp [nodeStep, validateNode, hcf, hv, hp, hn, hs, ht, hi, stageRet]
              | true =>
                refine ⟨.cont, ?_, Or.inl ⟨?_, Or.inr rfl⟩⟩
                · vl_simp [hcf, hv, hp, hn, hs, ht, hi]
                · simp [nodeStep, validateNode, hcf, hv, hp, hn, hs, ht, hi, stageRet]

/-- validateAwarePostProcessors.PostProcessProperties, regenerated -/
theorem validate_sem (n : Nat) (w : SW) :
    run (VP props vS vV) Progs.validate_PostProcessProperties
        [.list ((List.range' 0 n).map (fun i => Val.ref i 20)), .str "c", .str "n"] w =
      some (stageResult (stageLoop (validateNode props vS vV) (List.range' 0 n) w).2,
            (stageLoop (validateNode props vS vV) (List.range' 0 n) w).1) :=
  stage_run _ _ vlBody _ vl_shape vl_params (fun n i k w => vl_iter props vS vV n i k w) n w

theorem validateNode_decision (i : Nat) (w : SW) :
    (validateNode props vS vV i w).2 =
      match validateNodeDecision props vS vV i with
      | .fail e => some e
      | _ => none := by
  unfold validateNode validateNodeDecision validateDecision
  simp only []
  cases hc : (spropAt props i).cfgType
  · simp
  cases hv : (spropAt props i).validate with
  | none => simp
  | some ts =>
    cases hp : (spropAt props i).isPtr <;> cases hn : (spropAt props i).isNil <;> cases hs : (spropAt props i).isStruct <;>
      cases ht : (spropAt props i).isTime <;> cases hi : (spropAt props i).canIface <;> simp <;>
      first
        | (cases vS i <;> simp)
        | (cases vV i (",".intercalate ts) <;> simp)

end validate
/-! ### elHelper.ReplaceAllContent -/
section el
variable {σ : Type} (ops : ElOps String) (cb : String → σ → Except String String × σ) (bound : Nat)

def elBody : List Stmt := match Progs.el_ReplaceAllContent.body with | [_, .forc _ _ _ b, _] => b | _ => []
theorem el_shape : Progs.el_ReplaceAllContent.body =
    [.define ["result"] (.var "s"),
     .forc [.define ["round"] (.int 0)] (.bool true) [.assign ["round"] (.bin "+" (.var "round") (.int 1))] elBody,
     .ret [.var "result", .nil]] := rfl
theorem el_params : Progs.el_ReplaceAllContent.params = ["s", "f"] := rfl

def envEl (s0 : String) (t : Nat × String) : Env :=
  [("round", .int t.1), ("result", .str t.2), ("s", .str s0), ("f", .ref 0 40)]

/-- one round on the model state (round, result) -/
def elStep (t : Nat × String) (w : σ) : (Nat × String) × σ × Option Ctl :=
  if ops.find t.2 == "" then (t, w, some .norm)
  else if t.1 ≥ bound then (t, w, some (.ret (.tuple [.str "", .str "unresolved"])))
  else match (cb (ops.content (ops.find t.2)) w).1 with
    | .error e => (t, (cb (ops.content (ops.find t.2)) w).2, some (.ret (.tuple [.str "", .str e])))
    | .ok r => ((t.1 + 1, ops.replace1 t.2 (ops.find t.2) r), (cb (ops.content (ops.find t.2)) w).2, none)

theorem el_iter (fuel : Nat) (s0 : String) (t : Nat × String) (w : σ) :
    forcIter (elPrims ops cb bound fuel) (.bool true) [.assign ["round"] (.bin "+" (.var "round") (.int 1))] elBody (envEl s0 t) w =
    some (envEl s0 (elStep ops cb bound t w).1, (elStep ops cb bound t w).2.1, (elStep ops cb bound t w).2.2) := by
  obtain ⟨round, result⟩ := t
  by_cases he : ops.find result = ""
  · go_simp [forcIter, envEl, elStep, elBody, Progs.el_ReplaceAllContent, elPrims, elFn, he]
  · have he' : (ops.find result == "") = false := by simpa using he
    by_cases hb : round ≥ bound
    · have hbI : decide ((round : Int) ≥ (bound : Int)) = true := by simpa using hb
      go_simp [forcIter, envEl, elStep, elBody, Progs.el_ReplaceAllContent, elPrims, elFn, he, he', hb, hbI]
    · have hbI : decide ((round : Int) ≥ (bound : Int)) = false := by
        have : ¬ (round : Int) ≥ (bound : Int) := by omega
        simpa using this
      rcases hcb : cb (ops.content (ops.find result)) w with ⟨r, w'⟩
      cases r with
      | error e =>
        go_simp [forcIter, envEl, elStep, elBody, Progs.el_ReplaceAllContent, elPrims, elFn, he, he', hb, hbI, hcb, encStrRes]
      | ok r =>
        go_simp [forcIter, envEl, elStep, elBody, Progs.el_ReplaceAllContent, elPrims, elFn, he, he', hb, hbI, hcb, encStrRes]

def encElRes : Except String String → Val
  | .ok r => .tuple [.str r, .nil]
  | .error e => .tuple [.str "", .str e]

/-- what `run` makes of the loop's outcome followed by `return result, nil` -/
def elFinish (r : Option ((Nat × String) × σ × Ctl)) : Option (Val × σ) :=
  match r with
  | some (t, w', .norm) => some (.tuple [.str t.2, .nil], w')
  | some (_, w', .ret v) => some (v, w')
  | _ => none

/-- the rounds of the regenerated loop are the model loop -/
theorem elStep_loop (hE : ∀ s, ops.isEmpty s = (s == "")) : ∀ (fuel round : Nat) (s : String) (w : σ),
    elFinish (stepWhile (elStep ops cb bound) fuel (round, s) w) =
      (elLoop ops cb "unresolved" bound fuel round s w).map (fun r => (encElRes r.1, r.2)) := by
  intro fuel
  induction fuel with
  | zero => intro round s w; rfl
  | succ n ih =>
    intro round s w
    simp only [stepWhile, elLoop, elStep, hE]
    by_cases he : ops.find s = ""
    · simp [he, elFinish, encElRes]
    · have he' : (ops.find s == "") = false := by simpa using he
      simp only [he', Bool.false_eq_true, if_false]
      by_cases hb : round ≥ bound
      · simp [hb, elFinish, encElRes]
      · simp only [hb, if_false]
        rcases hcb : cb (ops.content (ops.find s)) w with ⟨r, w'⟩
        cases r with
        | error e => simp [elFinish, encElRes]
        | ok r => simp only []; exact ih (round + 1) _ w'

/-- elHelper.ReplaceAllContent, regenerated (el.go:42-61): for EVERY string operations table, callback (which may change
    the world), bound and input it is the model loop `elLoop` — same rounds, same order of callback invocations, the bound
    checked after the search and before the callback, the first callback error ends it -/
theorem el_sem (hE : ∀ s, ops.isEmpty s = (s == "")) (fuel : Nat) (s : String) (w : σ) :
    run (elPrims ops cb bound fuel) Progs.el_ReplaceAllContent [.str s, .ref 0 40] w =
      (elLoop ops cb "unresolved" bound fuel 0 s w).map (fun r => (encElRes r.1, r.2)) := by
  rw [← elStep_loop ops cb bound hE]
  simp only [run, el_params, el_shape, List.length_cons, List.length_nil, if_true, List.zip_cons_cons, List.zip_nil_right]
  rw [evalB_cons]
  have h0 : evalS (elPrims ops cb bound fuel) [("s", Val.str s), ("f", Val.ref 0 40)] w (.define ["result"] (.var "s")) =
      some ([("result", .str s), ("s", .str s), ("f", .ref 0 40)], w, .norm) := by go_simp []
  rw [h0]
  simp only []
  rw [evalB_cons]
  rw [evalS_forc_state (elPrims ops cb bound fuel) [("result", .str s), ("s", .str s), ("f", .ref 0 40)] w w _ _ _ _
    (envEl s) (elStep ops cb bound) (0, s) (by go_simp [envEl]) (fun t w' => el_iter ops cb bound fuel s t w')]
  have hfuel : (elPrims ops cb bound fuel).fuel = fuel := rfl
  rw [hfuel]
  rcases hr : stepWhile (elStep ops cb bound) fuel (0, s) w with _ | ⟨t, w', c⟩
  · simp [elFinish]
  · cases c with
    | norm => go_simp [elFinish, envEl]
    | brk => simp [elFinish]
    | cont => simp [elFinish]
    | ret v => simp [elFinish]

/-- with fuel above the bound the interpretation never runs out: the loop ends for every callback -/
theorem elLoop_terminates {S ε : Type} (o : ElOps S) (c : S → σ → Except ε S × σ) (be : ε) :
    ∀ (fuel round : Nat) (s : S) (w : σ), 1 ≤ fuel → bound + 1 ≤ fuel + round →
      (elLoop o c be bound fuel round s w).isSome = true := by
  intro fuel
  induction fuel with
  | zero => intro round s w h; omega
  | succ n ih =>
    intro round s w _ h2
    simp only [elLoop]
    by_cases he : o.isEmpty (o.find s) = true
    · simp [he]
    · simp only [he, Bool.false_eq_true, if_false]
      by_cases hb : round ≥ bound
      · simp [hb]
      · simp only [hb, if_false]
        rcases hcb : c (o.content (o.find s)) w with ⟨r, w'⟩
        cases r with
        | error e => simp
        | ok r => simp only []; exact ih (round + 1) _ w' (by omega) (by omega)

end el
/-! ### configQuoteAwarePostProcessors.PostProcessProperties -/
section quote
variable (props : List SProp) (ops : ElOps String) (splitN : String → String × Option String) (cfg : String → Option QV)
  (lenOf : Nat → Nat) (parse : String → Except String Nat) (fmtAny : Nat → Except String String) (bound fuel : Nat)

abbrev QP := quotePrims props ops splitN cfg lenOf parse fmtAny bound fuel

/-- a function literal that always answers like the total callback `cb` makes the literal loop the model loop -/
theorem elLoopK_total {σ : Type} (o : ElOps String) (k : Handler σ) (cb : String → σ → Except String String × σ) (b : Nat)
    (hE : ∀ s, o.isEmpty s = (s == ""))
    (hk : ∀ c w, k [.str c] w = some (encStrRes (cb c w).1, (cb c w).2)) :
    ∀ (fuel round : Nat) (s : String) (w : σ),
      elLoopK o k b fuel round s w = (elLoop o cb "unresolved" b fuel round s w).map (fun r => (encElRes r.1, r.2)) := by
  intro fuel
  induction fuel with
  | zero => intro round s w; rfl
  | succ n ih =>
    intro round s w
    simp only [elLoopK, elLoop, hE, hk]
    by_cases he : o.find s = ""
    · simp [he, encElRes]
    · have he' : (o.find s == "") = false := by simpa using he
      simp only [he', Bool.false_eq_true, if_false]
      by_cases hb : round ≥ b
      · simp [hb, encElRes]
      · simp only [hb, if_false]
        rcases hcb : cb (o.content (o.find s)) w with ⟨r, w'⟩
        cases r with
        | error e => simp [encStrRes, encElRes]
        | ok r => simp only [encStrRes]; exact ih (round + 1) _ w'

def qpBody : List Stmt := match Progs.quote_PostProcessProperties.body with | [.range _ _ _ b, _] => b | _ => []
theorem qp_shape : Progs.quote_PostProcessProperties.body =
    [.range "_" "prop" (.var "properties") qpBody, .ret [.nil, .nil]] := rfl
theorem qp_params : Progs.quote_PostProcessProperties.params = ["properties", "component", "componentName"] := rfl

/-- the function literal handed to ReplaceAllContent -/
def qpClosure : List String × List Stmt :=
  match qpBody with
  | [_, .define _ (.hcall _ _ ps b), _, _] => (ps, b)
  | _ => ([], [])
theorem qpBody_shape : qpBody =
    [.ifs [] (.not (.call "self.el.MatchString" [.sel (.var "prop") "TagStr"])) [.cont] [],
     .define ["content", "err"] (.hcall "self.el.ReplaceAllContent" [.sel (.var "prop") "TagStr"] qpClosure.1 qpClosure.2),
     .ifs [] (.bin "!=" (.var "err") .nil)
       [.ret [.nil, .call "errors.WithMessagef" [.var "err", .str "config quote value on '%s' failed", .var "prop"]]] [],
     .store (.var "prop") "TagVal" (.var "content")] := rfl
theorem qpClosure_params : qpClosure.1 = ["exp"] := rfl

def envQ (n k : Nat) : Env := Env.def (Env.def (envS n) "_" (.int 0)) "prop" (.ref k 20)

open Lean.Parser.Tactic in
macro "qp_simp" "[" ts:simpLemma,* "]" : tactic =>
  `(tactic| go_simp [qpClosure, qpBody, Progs.quote_PostProcessProperties, QP, quotePrims, quoteFn_Match, quoteFn_TagStr,
      quoteFn_SplitN, quoteFn_Get, quoteFn_assertMap30, quoteFn_assertMap31, quoteFn_assertMap32, quoteFn_assertList30,
      quoteFn_assertList31, quoteFn_assertList32, quoteFn_ParseAny, quoteFn_FormatAny, quoteFn_SetCfgNil, quoteFn_SetCfg,
      quoteFn_setTagVal, quoteFn_Wrapf, quoteFn_WithMessagef, envQ, envS, quoteCb, quoteDecision, quoteAbsent, encQV, QKind.code,
      encParse, encStrRes, natCast_succ_beq_zero, Except.map, $ts,*])

/-- what the primitive gets when it calls the function literal of node k (in the environment of the loop body) -/
def qpHandler (n k : Nat) : Handler SW := fun as w'' =>
  if qpClosure.1.length = as.length then
    match evalB (QP props ops splitN cfg lenOf parse fmtAny bound fuel) ((qpClosure.1.zip as) ++ envQ n k) w'' qpClosure.2 with
    | some (_, w3, .ret v) => some (v, w3)
    | some (_, w3, .norm) => some (.tuple [], w3)
    | _ => none
  else none

/-- the function literal IS the callback `quoteCb` of the node -/
theorem qp_closure (n k : Nat) (c : String) (w : SW) :
    qpHandler props ops splitN cfg lenOf parse fmtAny bound fuel n k [.str c] w =
      some (encStrRes (quoteCb splitN cfg lenOf parse fmtAny k c w).1, (quoteCb splitN cfg lenOf parse fmtAny k c w).2) := by
  unfold qpHandler
  rw [qpClosure_params]
  simp only [List.length_cons, List.length_nil, if_true, List.zip_cons_cons, List.zip_nil_right]
  rcases hs : splitN c with ⟨key, dflt⟩
  have hs1 : (splitN c).1 = key := by rw [hs]
  have hs2 : (splitN c).2 = dflt := by rw [hs]
  -- the configured value is used
  have used : ∀ (a : Nat) (kd : QKind), cfg key = some (a, kd) → quoteAbsent lenOf (some (a, kd)) = false →
      (match evalB (QP props ops splitN cfg lenOf parse fmtAny bound fuel) ([("exp", Val.str c)] ++ envQ n k) w qpClosure.2 with
        | some (_, w3, .ret v) => some (v, w3)
        | some (_, w3, .norm) => some (.tuple [], w3)
        | _ => none) =
      some (encStrRes (quoteCb splitN cfg lenOf parse fmtAny k c w).1, (quoteCb splitN cfg lenOf parse fmtAny k c w).2) := by
    intro a kd hc hab
    cases kd with
    | scalar =>
      cases hf : fmtAny a <;> cases dflt <;> qp_simp [hs1, hs2, hc, hf]
    | map =>
      obtain ⟨m, hm⟩ : ∃ m, lenOf a = m + 1 := ⟨lenOf a - 1, by simp [quoteAbsent] at hab; omega⟩
      cases hf : fmtAny a <;> cases dflt <;> qp_simp [hs1, hs2, hc, hf, hm]
    | list =>
      obtain ⟨m, hm⟩ : ∃ m, lenOf a = m + 1 := ⟨lenOf a - 1, by simp [quoteAbsent] at hab; omega⟩
      cases hf : fmtAny a <;> cases dflt <;> qp_simp [hs1, hs2, hc, hf, hm]
  -- nothing usable is configured: the default decides
  have dfl : quoteAbsent lenOf (cfg key) = true →
      (match evalB (QP props ops splitN cfg lenOf parse fmtAny bound fuel) ([("exp", Val.str c)] ++ envQ n k) w qpClosure.2 with
        | some (_, w3, .ret v) => some (v, w3)
        | some (_, w3, .norm) => some (.tuple [], w3)
        | _ => none) =
      some (encStrRes (quoteCb splitN cfg lenOf parse fmtAny k c w).1, (quoteCb splitN cfg lenOf parse fmtAny k c w).2) := by
    intro hab
    cases hc : cfg key with
    | none =>
      cases dflt with
      | none => qp_simp [hs1, hs2, hc]
      | some d =>
        by_cases hd : d = ""
        · qp_simp [hs1, hs2, hc, hd]
        · have hd' : (d == "") = false := by simpa using hd
          cases hp : parse d with
          | error e => qp_simp [hs1, hs2, hc, hd, hd', hp]
          | ok b => cases hf : fmtAny b <;> qp_simp [hs1, hs2, hc, hd, hd', hp, hf]
    | some q =>
      obtain ⟨a, kd⟩ := q
      rw [hc] at hab
      cases kd with
      | scalar => simp [quoteAbsent] at hab
      | map =>
        have hl : lenOf a = 0 := by simpa [quoteAbsent] using hab
        cases dflt with
        | none => qp_simp [hs1, hs2, hc, hl]
        | some d =>
          by_cases hd : d = ""
          · qp_simp [hs1, hs2, hc, hl, hd]
          · have hd' : (d == "") = false := by simpa using hd
            cases hp : parse d with
            | error e => qp_simp [hs1, hs2, hc, hl, hd, hd', hp]
            | ok b => cases hf : fmtAny b <;> qp_simp [hs1, hs2, hc, hl, hd, hd', hp, hf]
      | list =>
        have hl : lenOf a = 0 := by simpa [quoteAbsent] using hab
        cases dflt with
        | none => qp_simp [hs1, hs2, hc, hl]
        | some d =>
          by_cases hd : d = ""
          · qp_simp [hs1, hs2, hc, hl, hd]
          · have hd' : (d == "") = false := by simpa using hd
            cases hp : parse d with
            | error e => qp_simp [hs1, hs2, hc, hl, hd, hd', hp]
            | ok b => cases hf : fmtAny b <;> qp_simp [hs1, hs2, hc, hl, hd, hd', hp, hf]
  cases hab : quoteAbsent lenOf (cfg key) with
  | true => exact dfl hab
  | false =>
    cases hc : cfg key with
    | none => rw [hc] at hab; simp [quoteAbsent] at hab
    | some q => obtain ⟨a, kd⟩ := q; rw [hc] at hab; exact used a kd hc hab

/-- the call `c.el.ReplaceAllContent(prop.TagStr, func(exp string) …)` of node k is the model loop over `quoteCb` -/
theorem qp_hcall (hE : ∀ s, ops.isEmpty s = (s == "")) (n k : Nat) (w : SW) :
    evalE (QP props ops splitN cfg lenOf parse fmtAny bound fuel) (envQ n k) w
        (.hcall "self.el.ReplaceAllContent" [.sel (.var "prop") "TagStr"] qpClosure.1 qpClosure.2) =
      (elLoop ops (quoteCb splitN cfg lenOf parse fmtAny k) "unresolved" bound fuel 0 (spropAt props k).tagStr w).map
        (fun r => (encElRes r.1, r.2)) := by
  have h : evalE (QP props ops splitN cfg lenOf parse fmtAny bound fuel) (envQ n k) w
        (.hcall "self.el.ReplaceAllContent" [.sel (.var "prop") "TagStr"] qpClosure.1 qpClosure.2) =
      elLoopK ops (qpHandler props ops splitN cfg lenOf parse fmtAny bound fuel n k) bound fuel 0 (spropAt props k).tagStr w := by
    have hv : evalE (QP props ops splitN cfg lenOf parse fmtAny bound fuel) (envQ n k) w (.sel (.var "prop") "TagStr") =
        some (.str (spropAt props k).tagStr, w) := by
      go_simp [envQ, envS, QP, quotePrims, quoteFn_TagStr]
    rw [evalE, evalEs, hv]
    simp only [evalEs]
    have key : ∀ (h1 h2 : Handler SW), (∀ as w'', h1 as w'' = h2 as w'') →
        (QP props ops splitN cfg lenOf parse fmtAny bound fuel).hfn "self.el.ReplaceAllContent" [Val.str (spropAt props k).tagStr] h1 w =
        (QP props ops splitN cfg lenOf parse fmtAny bound fuel).hfn "self.el.ReplaceAllContent" [Val.str (spropAt props k).tagStr] h2 w := by
      intro h1 h2 hh
      have : h1 = h2 := funext fun as => funext fun w'' => hh as w''
      rw [this]
    refine (key _ (qpHandler props ops splitN cfg lenOf parse fmtAny bound fuel n k) ?_).trans rfl
    intro as w''
    unfold qpHandler
    by_cases hlen : qpClosure.1.length = as.length
    · simp only [hlen, if_true]
      cases evalB (QP props ops splitN cfg lenOf parse fmtAny bound fuel) (qpClosure.1.zip as ++ envQ n k) w'' qpClosure.2 with
      | none => rfl
      | some r => obtain ⟨e, w3, c⟩ := r; cases c <;> rfl
    · simp only [hlen, if_false]
  rw [h]
  exact elLoopK_total ops _ _ bound hE (fun c w' => qp_closure props ops splitN cfg lenOf parse fmtAny bound fuel n k c w') fuel 0 _ w

theorem qp_iter (hE : ∀ s, ops.isEmpty s = (s == "")) (hfuel : bound + 1 ≤ fuel) (n i k : Nat) (w : SW) :
    ∃ c, (evalB (QP props ops splitN cfg lenOf parse fmtAny bound fuel) (Env.def (Env.def (envS n) "_" (.int i)) "prop" (.ref k 20)) w qpBody).map
        (fun (e', w'', ctl) => (Env.leave e' (envS n).length, w'', ctl)) =
      some (envS n, (nodeStep (quoteNode props ops splitN cfg lenOf parse fmtAny bound fuel) k () w).2.1, c) ∧
      CtlMatches c (nodeStep (quoteNode props ops splitN cfg lenOf parse fmtAny bound fuel) k () w).2.2 := by
  have henv : Env.def (Env.def (envS n) "_" (.int i)) "prop" (.ref k 20) = envQ n k := rfl
  rw [henv, qpBody_shape]
  by_cases hm : ops.find (spropAt props k).tagStr = ""
  · refine ⟨.cont, ?_, Or.inl ⟨?_, Or.inr rfl⟩⟩
    · qp_simp [hm, nodeStep, quoteNode]
    · simp [nodeStep, quoteNode, hm, stageRet]
  · have hm' : (ops.find (spropAt props k).tagStr == "") = false := by simpa using hm
    have hterm := elLoop_terminates (σ := SW) bound ops (quoteCb splitN cfg lenOf parse fmtAny k) "unresolved" fuel 0
      (spropAt props k).tagStr w (by omega) (by omega)
    rw [evalB_cons]
    have h0 : evalS (QP props ops splitN cfg lenOf parse fmtAny bound fuel) (envQ n k) w
        (.ifs [] (.not (.call "self.el.MatchString" [.sel (.var "prop") "TagStr"])) [.cont] []) = some (envQ n k, w, .norm) := by
      qp_simp [hm, hm']
    rw [h0]
    simp only []
    rw [evalB_cons]
    simp only [evalS]
    rw [qp_hcall props ops splitN cfg lenOf parse fmtAny bound fuel hE n k w]
    rcases hl : elLoop ops (quoteCb splitN cfg lenOf parse fmtAny k) "unresolved" bound fuel 0 (spropAt props k).tagStr w with _ | ⟨r, w'⟩
    · rw [hl] at hterm; simp at hterm
    · cases r with
      | error e =>
        refine ⟨.ret (.tuple [.nil, .str e]), ?_, Or.inr ⟨_, ?_, rfl⟩⟩
        · qp_simp [encElRes, nodeStep, quoteNode, hm, hm', hl]
        · simp [nodeStep, quoteNode, hm, hl, stageRet]
      | ok r =>
        refine ⟨.norm, ?_, Or.inl ⟨?_, Or.inl rfl⟩⟩
        · qp_simp [encElRes, nodeStep, quoteNode, hm, hm', hl]
        · simp [nodeStep, quoteNode, hm, hl, stageRet]

/-- configQuoteAwarePostProcessors.PostProcessProperties, regenerated WITH its function literal: the nodes in order, each
    through `quoteNode` — the bounded replacement loop over `quoteCb` on the tag text as written; TagVal is stored only
    after a loop without error; the first failing node ends the stage -/
theorem quote_sem (hE : ∀ s, ops.isEmpty s = (s == "")) (hfuel : bound + 1 ≤ fuel) (n : Nat) (w : SW) :
    run (QP props ops splitN cfg lenOf parse fmtAny bound fuel) Progs.quote_PostProcessProperties
        [.list ((List.range' 0 n).map (fun i => Val.ref i 20)), .str "c", .str "n"] w =
      some (stageResult (stageLoop (quoteNode props ops splitN cfg lenOf parse fmtAny bound fuel) (List.range' 0 n) w).2,
            (stageLoop (quoteNode props ops splitN cfg lenOf parse fmtAny bound fuel) (List.range' 0 n) w).1) :=
  stage_run _ _ qpBody _ qp_shape qp_params (fun n i k w => qp_iter props ops splitN cfg lenOf parse fmtAny bound fuel hE hfuel n i k w) n w

end quote
/-! ### expressionTagAwarePostProcessors.PostProcessProperties -/
section exprs
variable (props : List SProp) (ops : ElOps String) (compile : String → Except String Nat) (runP : Nat → Except String Nat)
  (fmtAny : Nat → Except String String) (bound fuel : Nat)

abbrev XP := exprPrims props ops compile runP fmtAny bound fuel

def xpBody : List Stmt := match Progs.expr_PostProcessProperties.body with | [.range _ _ _ b, _] => b | _ => []
theorem xp_shape : Progs.expr_PostProcessProperties.body =
    [.range "_" "prop" (.var "properties") xpBody, .ret [.nil, .nil]] := rfl
theorem xp_params : Progs.expr_PostProcessProperties.params = ["properties", "component", "componentName"] := rfl

def xpClosure : List String × List Stmt :=
  match xpBody with
  | [_, _, .define _ (.hcall _ _ ps b), _, _] => (ps, b)
  | _ => ([], [])
theorem xpBody_shape : xpBody =
    [.ifs [] (.not (.call "self.el.MatchString" [.sel (.var "prop") "TagVal"])) [.cont] [],
     .define ["rawTagVal"] (.sel (.var "prop") "TagVal"),
     .define ["content", "err"] (.hcall "self.el.ReplaceAllContent" [.sel (.var "prop") "TagVal"] xpClosure.1 xpClosure.2),
     .ifs [] (.bin "!=" (.var "err") .nil)
       [.ret [.nil, .call "errors.WithMessagef" [.var "err", .str "execute expression language on '%s' failed", .var "prop"]]] [],
     .store (.var "prop") "TagVal" (.var "content")] := rfl
theorem xpClosure_params : xpClosure.1 = ["exp"] := rfl

/-- the environment in which the function literal is built: `rawTagVal` is already defined -/
def envX (n k : Nat) (raw : String) : Env := ("rawTagVal", .str raw) :: envQ n k

open Lean.Parser.Tactic in
macro "xp_simp" "[" ts:simpLemma,* "]" : tactic =>
  `(tactic| go_simp [xpClosure, xpBody, Progs.expr_PostProcessProperties, XP, exprPrims, exprFn_Match, exprFn_TagVal,
      exprFn_Compile, exprFn_Run, exprFn_FormatAny, exprFn_setTagVal, exprFn_Wrapf, exprFn_WithMessagef, envX, envQ, envS,
      exprCb, encNatRes, encStrRes, $ts,*])

def xpHandler (n k : Nat) (raw : String) : Handler SW := fun as w'' =>
  if xpClosure.1.length = as.length then
    match evalB (XP props ops compile runP fmtAny bound fuel) ((xpClosure.1.zip as) ++ envX n k raw) w'' xpClosure.2 with
    | some (_, w3, .ret v) => some (v, w3)
    | some (_, w3, .norm) => some (.tuple [], w3)
    | _ => none
  else none

/-- the function literal IS `exprCb` -/
theorem xp_closure (n k : Nat) (raw c : String) (w : SW) :
    xpHandler props ops compile runP fmtAny bound fuel n k raw [.str c] w =
      some (encStrRes (exprCb compile runP fmtAny c w).1, (exprCb compile runP fmtAny c w).2) := by
  unfold xpHandler
  rw [xpClosure_params]
  simp only [List.length_cons, List.length_nil, if_true, List.zip_cons_cons, List.zip_nil_right]
  cases hc : compile c with
  | error e => xp_simp [hc]
  | ok p =>
    cases hr : runP p with
    | error e => xp_simp [hc, hr]
    | ok r => cases hf : fmtAny r <;> xp_simp [hc, hr, hf]

theorem xp_hcall (hE : ∀ s, ops.isEmpty s = (s == "")) (n k : Nat) (w : SW) :
    evalE (XP props ops compile runP fmtAny bound fuel) (envX n k (tagValNow props w k)) w
        (.hcall "self.el.ReplaceAllContent" [.sel (.var "prop") "TagVal"] xpClosure.1 xpClosure.2) =
      (elLoop ops (exprCb compile runP fmtAny) "unresolved" bound fuel 0 (tagValNow props w k) w).map
        (fun r => (encElRes r.1, r.2)) := by
  have h : evalE (XP props ops compile runP fmtAny bound fuel) (envX n k (tagValNow props w k)) w
        (.hcall "self.el.ReplaceAllContent" [.sel (.var "prop") "TagVal"] xpClosure.1 xpClosure.2) =
      elLoopK ops (xpHandler props ops compile runP fmtAny bound fuel n k (tagValNow props w k)) bound fuel 0 (tagValNow props w k) w := by
    have hv : evalE (XP props ops compile runP fmtAny bound fuel) (envX n k (tagValNow props w k)) w (.sel (.var "prop") "TagVal") =
        some (.str (tagValNow props w k), w) := by
      go_simp [envX, envQ, envS, XP, exprPrims, exprFn_TagVal]
    rw [evalE, evalEs, hv]
    simp only [evalEs]
    have key : ∀ (h1 h2 : Handler SW), (∀ as w'', h1 as w'' = h2 as w'') →
        (XP props ops compile runP fmtAny bound fuel).hfn "self.el.ReplaceAllContent" [Val.str (tagValNow props w k)] h1 w =
        (XP props ops compile runP fmtAny bound fuel).hfn "self.el.ReplaceAllContent" [Val.str (tagValNow props w k)] h2 w := by
      intro h1 h2 hh
      have : h1 = h2 := funext fun as => funext fun w'' => hh as w''
      rw [this]
    refine (key _ (xpHandler props ops compile runP fmtAny bound fuel n k (tagValNow props w k)) ?_).trans rfl
    intro as w''
    unfold xpHandler
    by_cases hlen : xpClosure.1.length = as.length
    · simp only [hlen, if_true]
      cases evalB (XP props ops compile runP fmtAny bound fuel) (xpClosure.1.zip as ++ envX n k (tagValNow props w k)) w'' xpClosure.2 with
      | none => rfl
      | some r => obtain ⟨e, w3, c⟩ := r; cases c <;> rfl
    · simp only [hlen, if_false]
  rw [h]
  exact elLoopK_total ops _ _ bound hE (fun c w' => xp_closure props ops compile runP fmtAny bound fuel n k _ c w') fuel 0 _ w

theorem xp_iter (hE : ∀ s, ops.isEmpty s = (s == "")) (hfuel : bound + 1 ≤ fuel) (n i k : Nat) (w : SW) :
    ∃ c, (evalB (XP props ops compile runP fmtAny bound fuel) (Env.def (Env.def (envS n) "_" (.int i)) "prop" (.ref k 20)) w xpBody).map
        (fun (e', w'', ctl) => (Env.leave e' (envS n).length, w'', ctl)) =
      some (envS n, (nodeStep (exprNode props ops compile runP fmtAny bound fuel) k () w).2.1, c) ∧
      CtlMatches c (nodeStep (exprNode props ops compile runP fmtAny bound fuel) k () w).2.2 := by
  have henv : Env.def (Env.def (envS n) "_" (.int i)) "prop" (.ref k 20) = envQ n k := rfl
  rw [henv, xpBody_shape]
  by_cases hm : ops.find (tagValNow props w k) = ""
  · refine ⟨.cont, ?_, Or.inl ⟨?_, Or.inr rfl⟩⟩
    · xp_simp [hm, nodeStep, exprNode]
    · simp [nodeStep, exprNode, hm, stageRet]
  · have hm' : (ops.find (tagValNow props w k) == "") = false := by simpa using hm
    have hterm := elLoop_terminates (σ := SW) bound ops (exprCb compile runP fmtAny) "unresolved" fuel 0
      (tagValNow props w k) w (by omega) (by omega)
    rw [evalB_cons]
    have h0 : evalS (XP props ops compile runP fmtAny bound fuel) (envQ n k) w
        (.ifs [] (.not (.call "self.el.MatchString" [.sel (.var "prop") "TagVal"])) [.cont] []) = some (envQ n k, w, .norm) := by
      xp_simp [hm, hm']
    rw [h0]
    simp only []
    rw [evalB_cons]
    have h1 : evalS (XP props ops compile runP fmtAny bound fuel) (envQ n k) w (.define ["rawTagVal"] (.sel (.var "prop") "TagVal")) =
        some (envX n k (tagValNow props w k), w, .norm) := by
      xp_simp []
    rw [h1]
    simp only []
    rw [evalB_cons]
    simp only [evalS]
    rw [xp_hcall props ops compile runP fmtAny bound fuel hE n k w]
    rcases hl : elLoop ops (exprCb compile runP fmtAny) "unresolved" bound fuel 0 (tagValNow props w k) w with _ | ⟨r, w'⟩
    · rw [hl] at hterm; simp at hterm
    · cases r with
      | error e =>
        refine ⟨.ret (.tuple [.nil, .str e]), ?_, Or.inr ⟨_, ?_, rfl⟩⟩
        · xp_simp [encElRes, nodeStep, exprNode, hm, hm', hl]
        · simp [nodeStep, exprNode, hm, hl, stageRet]
      | ok r =>
        refine ⟨.norm, ?_, Or.inl ⟨?_, Or.inl rfl⟩⟩
        · xp_simp [encElRes, nodeStep, exprNode, hm, hm', hl]
        · simp [nodeStep, exprNode, hm, hl, stageRet]

/-- expressionTagAwarePostProcessors.PostProcessProperties, regenerated with its function literal -/
theorem expr_sem (hE : ∀ s, ops.isEmpty s = (s == "")) (hfuel : bound + 1 ≤ fuel) (n : Nat) (w : SW) :
    run (XP props ops compile runP fmtAny bound fuel) Progs.expr_PostProcessProperties
        [.list ((List.range' 0 n).map (fun i => Val.ref i 20)), .str "c", .str "n"] w =
      some (stageResult (stageLoop (exprNode props ops compile runP fmtAny bound fuel) (List.range' 0 n) w).2,
            (stageLoop (exprNode props ops compile runP fmtAny bound fuel) (List.range' 0 n) w).1) :=
  stage_run _ _ xpBody _ xp_shape xp_params (fun n i k w => xp_iter props ops compile runP fmtAny bound fuel hE hfuel n i k w) n w

end exprs
end Ioc.Sem
