/-
  Semantic theorems for the REGENERATED configuration stages (interpretation: Ioc.SemStages).
-/
import Ioc.SemStages
import IocProofs.Lemmas.GoTactics
set_option linter.unusedSimpArgs false
namespace Ioc.Sem
open Ioc Ioc.Go

section loops
variable (props : List SProp) (cfg : String → Option Nat) (unm : Nat → Nat → Option String) (parse : String → Except String Nat)

abbrev SP := stagePrims props cfg unm parse

def envS (n : Nat) : Env :=
  [("properties", .list ((List.range' 0 n).map (fun i => Val.ref i 20))), ("component", .str "c"), ("componentName", .str "n")]

def stageRet : Option String → Option Val
  | none => none
  | some e => some (.tuple [.nil, .str e])

def stageResult : Option String → Val
  | none => .tuple [.nil, .nil]
  | some e => .tuple [.nil, .str e]

/-- `stageLoop` as a `stepLoop` -/
def nodeStep (node : Nat → SW → SW × Option String) (i : Nat) (_ : Unit) (w : SW) : Unit × SW × Option Val :=
  ((), (node i w).1, stageRet (node i w).2)

theorem nodeStep_loop (node : Nat → SW → SW × Option String) (is : List Nat) (w : SW) :
    stepLoop (nodeStep node) is () w = ((), (stageLoop node is w).1, stageRet (stageLoop node is w).2) := by
  induction is generalizing w with
  | nil => rfl
  | cons i rest ih =>
    simp only [stepLoop, stageLoop, nodeStep]
    rcases h : node i w with ⟨w', r⟩
    cases r with
    | none => simp only [stageRet]; exact ih w'
    | some e => simp [stageRet]

/-! ### propertiesAwarePostProcessors.PostProcessProperties -/

def ppBody : List Stmt := match Progs.props_PostProcessProperties.body with | [.range _ _ _ b, _] => b | _ => []
theorem pp_shape : Progs.props_PostProcessProperties.body =
    [.range "_" "prop" (.var "properties") ppBody, .ret [.nil, .nil]] := rfl
theorem pp_params : Progs.props_PostProcessProperties.params = ["properties", "component", "componentName"] := rfl

theorem pp_iter (n i k : Nat) (w : SW) :
    ∃ c, (evalB (SP props cfg unm parse) (Env.def (Env.def (envS n) "_" (.int i)) "prop" (.ref k 20)) w ppBody).map
        (fun (e', w'', ctl) => (Env.leave e' (envS n).length, w'', ctl)) =
      some (envS n, (nodeStep (prefixNode props cfg unm) k () w).2.1, c) ∧
      CtlMatches c (nodeStep (prefixNode props cfg unm) k () w).2.2 := by
  by_cases ht : (spropAt props k).tag = "prefix"
  · cases hc : cfg (tagValNow props w k) with
    | none =>
      cases hr : (spropAt props k).required with
      | true =>
        refine ⟨.ret (.tuple [.nil, .str "required"]), ?_, Or.inr ⟨_, ?_, rfl⟩⟩
        · go_simp [ppBody, Progs.props_PostProcessProperties, SP, stagePrims, stageFn_prefixTag, stageFn_Tag, stageFn_TagVal,
            stageFn_IsRequired, stageFn_Get, stageFn_SetCfgNil, stageFn_SetCfg, stageFn_Unmarshall, stageFn_Errorf,
            stageFn_WithMessagef, envS, nodeStep, prefixNode, ht, hc, hr, encCV, stageRet]
        · simp [nodeStep, prefixNode, ht, hc, hr, stageRet]
      | false =>
        refine ⟨.cont, ?_, Or.inl ⟨?_, Or.inr rfl⟩⟩
        · go_simp [ppBody, Progs.props_PostProcessProperties, SP, stagePrims, stageFn_prefixTag, stageFn_Tag, stageFn_TagVal,
            stageFn_IsRequired, stageFn_Get, stageFn_SetCfgNil, stageFn_SetCfg, stageFn_Unmarshall, stageFn_Errorf,
            stageFn_WithMessagef, envS, nodeStep, prefixNode, ht, hc, hr, encCV, stageRet]
        · simp [nodeStep, prefixNode, ht, hc, hr, stageRet]
    | some a =>
      cases hu : unm k a with
      | none =>
        refine ⟨.norm, ?_, Or.inl ⟨?_, Or.inl rfl⟩⟩
        · go_simp [ppBody, Progs.props_PostProcessProperties, SP, stagePrims, stageFn_prefixTag, stageFn_Tag, stageFn_TagVal,
            stageFn_IsRequired, stageFn_Get, stageFn_SetCfgNil, stageFn_SetCfg, stageFn_Unmarshall, stageFn_Errorf,
            stageFn_WithMessagef, envS, nodeStep, prefixNode, ht, hc, hu, encCV, encErr, stageRet]
        · simp [nodeStep, prefixNode, ht, hc, hu, stageRet]
      | some e =>
        refine ⟨.ret (.tuple [.nil, .str e]), ?_, Or.inr ⟨_, ?_, rfl⟩⟩
        · go_simp [ppBody, Progs.props_PostProcessProperties, SP, stagePrims, stageFn_prefixTag, stageFn_Tag, stageFn_TagVal,
            stageFn_IsRequired, stageFn_Get, stageFn_SetCfgNil, stageFn_SetCfg, stageFn_Unmarshall, stageFn_Errorf,
            stageFn_WithMessagef, envS, nodeStep, prefixNode, ht, hc, hu, encCV, encErr, stageRet]
        · simp [nodeStep, prefixNode, ht, hc, hu, stageRet]
  · refine ⟨.cont, ?_, Or.inl ⟨?_, Or.inr rfl⟩⟩
    · have ht' : ((spropAt props k).tag == "prefix") = false := by simpa using ht
      go_simp [ppBody, Progs.props_PostProcessProperties, SP, stagePrims, stageFn_prefixTag, stageFn_Tag, envS, nodeStep,
        prefixNode, ht, ht']
    · simp [nodeStep, prefixNode, ht, stageRet]

/-- the shared last step: a `for range` over the nodes whose iterations are `nodeStep node`, then `return nil, nil` -/
theorem stage_run (P : Prims SW) (f : Func) (body : List Stmt) (node : Nat → SW → SW × Option String)
    (hshape : f.body = [.range "_" "prop" (.var "properties") body, .ret [.nil, .nil]])
    (hparams : f.params = ["properties", "component", "componentName"])
    (hiter : ∀ (n i k : Nat) (w : SW), ∃ c, (evalB P (Env.def (Env.def (envS n) "_" (.int i)) "prop" (.ref k 20)) w body).map
        (fun (e', w'', ctl) => (Env.leave e' (envS n).length, w'', ctl)) =
      some (envS n, (nodeStep node k () w).2.1, c) ∧ CtlMatches c (nodeStep node k () w).2.2)
    (n : Nat) (w : SW) :
    run P f [.list ((List.range' 0 n).map (fun i => Val.ref i 20)), .str "c", .str "n"] w =
      some (stageResult (stageLoop node (List.range' 0 n) w).2, (stageLoop node (List.range' 0 n) w).1) := by
  simp only [run, hparams, hshape, List.length_cons, List.length_nil, if_true, List.zip_cons_cons, List.zip_nil_right]
  rw [evalB_cons]
  simp only [evalS]
  rw [show ([("properties", Val.list ((List.range' 0 n).map (fun i => Val.ref i 20))), ("component", Val.str "c"), ("componentName", Val.str "n")] : Env) = envS n from rfl]
  have hcoll : evalE P (envS n) w (.var "properties") =
      some (.list ((List.range' 0 n).map (fun i => Val.ref i 20)), w) := by go_simp [envS]
  rw [hcoll]; simp only []
  have := loopM_state_cont (fun i => Val.ref i 20)
    (fun i x e w' => (evalB P (Env.def (Env.def e "_" (.int i)) "prop" x) w' body).map
      (fun (e', w'', ctl) => (Env.leave e' e.length, w'', ctl)))
    (fun (_ : Unit) => envS n) (nodeStep node) (fun i k _ w' => hiter n i k w') (List.range' 0 n) 0 () w
  rw [this, nodeStep_loop]
  cases h : (stageLoop node (List.range' 0 n) w).2 with
  | none => go_simp [ctlOf, stageRet, stageResult]
  | some e => go_simp [ctlOf, stageRet, stageResult]

/-- propertiesAwarePostProcessors.PostProcessProperties, regenerated: the nodes in order, each through `prefixNode`
    (SetConfiguration, then — only for a configured key — Unmarshall), the first failure ends the stage -/
theorem props_sem (n : Nat) (w : SW) :
    run (SP props cfg unm parse) Progs.props_PostProcessProperties
        [.list ((List.range' 0 n).map (fun i => Val.ref i 20)), .str "c", .str "n"] w =
      some (stageResult (stageLoop (prefixNode props cfg unm) (List.range' 0 n) w).2,
            (stageLoop (prefixNode props cfg unm) (List.range' 0 n) w).1) :=
  stage_run _ _ ppBody _ pp_shape pp_params (fun n i k w => pp_iter props cfg unm parse n i k w) n w

/-- what `prefixNode` returns is the decision `prefixDecision` of the three answers -/
theorem prefixNode_decision (i : Nat) (w : SW) (ht : (spropAt props i).tag = "prefix") :
    (prefixNode props cfg unm i w).2 =
      match prefixNodeDecision props cfg unm i w with
      | .fail e => some e
      | _ => none := by
  unfold prefixNode prefixNodeDecision prefixDecision
  simp only [ht, bne_self_eq_false, Bool.false_eq_true, if_false]
  cases hc : cfg (tagValNow props w i) with
  | none => cases (spropAt props i).required <;> simp
  | some a => cases hu : unm i a <;> simp [hu]

/-- … and the decoder runs exactly when the key is configured -/
theorem prefixNode_events (i : Nat) (w : SW) (ht : (spropAt props i).tag = "prefix") :
    (prefixNode props cfg unm i w).1 =
      w ++ [.setCfg i (tagValNow props w i) (cfg (tagValNow props w i))] ++
        (match cfg (tagValNow props w i) with
         | none => []
         | some a => [.unmarshal i a]) := by
  unfold prefixNode
  simp only [ht, bne_self_eq_false, Bool.false_eq_true, if_false]
  cases cfg (tagValNow props w i) <;> simp

/-! ### valueAwarePostProcessors.PostProcessProperties -/

def vpBody : List Stmt := match Progs.value_PostProcessProperties.body with | [.range _ _ _ b, _] => b | _ => []
theorem vp_shape : Progs.value_PostProcessProperties.body =
    [.range "_" "prop" (.var "properties") vpBody, .ret [.nil, .nil]] := rfl
theorem vp_params : Progs.value_PostProcessProperties.params = ["properties", "component", "componentName"] := rfl

theorem vp_iter (n i k : Nat) (w : SW) :
    ∃ c, (evalB (SP props cfg unm parse) (Env.def (Env.def (envS n) "_" (.int i)) "prop" (.ref k 20)) w vpBody).map
        (fun (e', w'', ctl) => (Env.leave e' (envS n).length, w'', ctl)) =
      some (envS n, (nodeStep (valueNode props unm parse) k () w).2.1, c) ∧
      CtlMatches c (nodeStep (valueNode props unm parse) k () w).2.2 := by
  by_cases ht : (spropAt props k).tag = "value"
  · by_cases he : tagValNow props w k = ""
    · cases hr : (spropAt props k).required with
      | true =>
        refine ⟨.ret (.tuple [.nil, .str "required"]), ?_, Or.inr ⟨_, ?_, rfl⟩⟩
        · go_simp [vpBody, Progs.value_PostProcessProperties, SP, stagePrims, stageFn_valueTag, stageFn_Tag, stageFn_TagVal,
            stageFn_IsRequired, stageFn_ParseAny, stageFn_Unmarshall, stageFn_Errorf, stageFn_WithMessagef, envS, nodeStep,
            valueNode, ht, he, hr, stageRet]
        · simp [nodeStep, valueNode, ht, he, hr, stageRet]
      | false =>
        refine ⟨.cont, ?_, Or.inl ⟨?_, Or.inr rfl⟩⟩
        · go_simp [vpBody, Progs.value_PostProcessProperties, SP, stagePrims, stageFn_valueTag, stageFn_Tag, stageFn_TagVal,
            stageFn_IsRequired, stageFn_ParseAny, stageFn_Unmarshall, stageFn_Errorf, stageFn_WithMessagef, envS, nodeStep,
            valueNode, ht, he, hr, stageRet]
        · simp [nodeStep, valueNode, ht, he, hr, stageRet]
    · have he' : (tagValNow props w k == "") = false := by simpa using he
      cases hp : parse (tagValNow props w k) with
      | error e =>
        refine ⟨.ret (.tuple [.nil, .str e]), ?_, Or.inr ⟨_, ?_, rfl⟩⟩
        · go_simp [vpBody, Progs.value_PostProcessProperties, SP, stagePrims, stageFn_valueTag, stageFn_Tag, stageFn_TagVal,
            stageFn_IsRequired, stageFn_ParseAny, stageFn_Unmarshall, stageFn_Errorf, stageFn_WithMessagef, envS, nodeStep,
            valueNode, ht, he, he', hp, encParse, stageRet]
        · simp [nodeStep, valueNode, ht, he, hp, stageRet]
      | ok a =>
        cases hu : unm k a with
        | none =>
          refine ⟨.norm, ?_, Or.inl ⟨?_, Or.inl rfl⟩⟩
          · go_simp [vpBody, Progs.value_PostProcessProperties, SP, stagePrims, stageFn_valueTag, stageFn_Tag, stageFn_TagVal,
              stageFn_IsRequired, stageFn_ParseAny, stageFn_Unmarshall, stageFn_Errorf, stageFn_WithMessagef, envS, nodeStep,
              valueNode, ht, he, he', hp, hu, encParse, encErr, stageRet]
          · simp [nodeStep, valueNode, ht, he, hp, hu, stageRet]
        | some e =>
          refine ⟨.ret (.tuple [.nil, .str e]), ?_, Or.inr ⟨_, ?_, rfl⟩⟩
          · go_simp [vpBody, Progs.value_PostProcessProperties, SP, stagePrims, stageFn_valueTag, stageFn_Tag, stageFn_TagVal,
              stageFn_IsRequired, stageFn_ParseAny, stageFn_Unmarshall, stageFn_Errorf, stageFn_WithMessagef, envS, nodeStep,
              valueNode, ht, he, he', hp, hu, encParse, encErr, stageRet]
          · simp [nodeStep, valueNode, ht, he, hp, hu, stageRet]
  · refine ⟨.cont, ?_, Or.inl ⟨?_, Or.inr rfl⟩⟩
    · have ht' : ((spropAt props k).tag == "value") = false := by simpa using ht
      go_simp [vpBody, Progs.value_PostProcessProperties, SP, stagePrims, stageFn_valueTag, stageFn_Tag, envS, nodeStep,
        valueNode, ht, ht']
    · simp [nodeStep, valueNode, ht, stageRet]

/-- valueAwarePostProcessors.PostProcessProperties, regenerated -/
theorem value_sem (n : Nat) (w : SW) :
    run (SP props cfg unm parse) Progs.value_PostProcessProperties
        [.list ((List.range' 0 n).map (fun i => Val.ref i 20)), .str "c", .str "n"] w =
      some (stageResult (stageLoop (valueNode props unm parse) (List.range' 0 n) w).2,
            (stageLoop (valueNode props unm parse) (List.range' 0 n) w).1) :=
  stage_run _ _ vpBody _ vp_shape vp_params (fun n i k w => vp_iter props cfg unm parse n i k w) n w

theorem valueNode_decision (i : Nat) (w : SW) (ht : (spropAt props i).tag = "value") :
    (valueNode props unm parse i w).2 =
      match valueNodeDecision props unm parse i w with
      | .fail e => some e
      | _ => none := by
  unfold valueNode valueNodeDecision valueDecision
  simp only [ht, bne_self_eq_false, Bool.false_eq_true, if_false]
  by_cases he : tagValNow props w i = ""
  · simp only [he, beq_self_eq_true, if_true]
    cases (spropAt props i).required <;> simp
  · have he' : (tagValNow props w i == "") = false := by simpa using he
    simp only [he', Bool.false_eq_true, if_false]
    cases hp : parse (tagValNow props w i) with
    | error e => simp
    | ok a => cases hu : unm i a <;> simp [hu]

end loops

/-! ### validateAwarePostProcessors.PostProcessProperties -/
section validate
variable (props : List SProp) (vS : Nat → Option String) (vV : Nat → String → Option String)

abbrev VP := validPrims props vS vV

def vlBody : List Stmt := match Progs.validate_PostProcessProperties.body with | [.range _ _ _ b, _] => b | _ => []
theorem vl_shape : Progs.validate_PostProcessProperties.body =
    [.range "_" "prop" (.var "properties") vlBody, .ret [.nil, .nil]] := rfl
theorem vl_params : Progs.validate_PostProcessProperties.params = ["properties", "component", "componentName"] := rfl

open Lean.Parser.Tactic in
macro "vl_simp" "[" ts:simpLemma,* "]" : tactic =>
  `(tactic| go_simp [vlBody, Progs.validate_PostProcessProperties, VP, validPrims, validFn_cfgType, validFn_argValidate,
      validFn_rPointer, validFn_rStruct, validFn_PropertyType, validFn_Args, validFn_Find, validFn_Type, validFn_Kind,
      validFn_Elem, validFn_KindElem, validFn_Value, validFn_IsNil, validFn_CanInterface, validFn_Interface, validFn_Struct,
      validFn_Var, validFn_Join, validFn_Wrapf, strsOf_map, envS, nodeStep, validateNode, encErr, stageRet, $ts,*])

theorem vl_iter (n i k : Nat) (w : SW) :
    ∃ c, (evalB (VP props vS vV) (Env.def (Env.def (envS n) "_" (.int i)) "prop" (.ref k 20)) w vlBody).map
        (fun (e', w'', ctl) => (Env.leave e' (envS n).length, w'', ctl)) =
      some (envS n, (nodeStep (validateNode props vS vV) k () w).2.1, c) ∧
      CtlMatches c (nodeStep (validateNode props vS vV) k () w).2.2 := by
  cases hcf : (spropAt props k).cfgType with
  | false =>
    refine ⟨.cont, ?_, Or.inl ⟨?_, Or.inr rfl⟩⟩
    · vl_simp [hcf]
    · simp [nodeStep, validateNode, hcf, stageRet]
  | true =>
    cases hv : (spropAt props k).validate with
    | none =>
      refine ⟨.norm, ?_, Or.inl ⟨?_, Or.inl rfl⟩⟩
      · vl_simp [hcf, hv]
      · simp [nodeStep, validateNode, hcf, hv, stageRet]
    | some ts =>
      cases hp : (spropAt props k).isPtr <;> cases hn : (spropAt props k).isNil <;>
      cases hs : (spropAt props k).isStruct <;> cases hi : (spropAt props k).canIface
      all_goals first
        | (cases hS : vS k with
           | none =>
             refine ⟨.norm, ?_, Or.inl ⟨?_, Or.inl rfl⟩⟩
             · vl_simp [hcf, hv, hp, hn, hs, hi, hS]
             · simp [nodeStep, validateNode, hcf, hv, hp, hn, hs, hi, hS, stageRet]
           | some e =>
             refine ⟨.ret (.tuple [.nil, .str e]), ?_, Or.inr ⟨_, ?_, rfl⟩⟩
             · vl_simp [hcf, hv, hp, hn, hs, hi, hS]
             · simp [nodeStep, validateNode, hcf, hv, hp, hn, hs, hi, hS, stageRet])
        | (cases hV : vV k (",".intercalate ts) with
           | none =>
             refine ⟨.norm, ?_, Or.inl ⟨?_, Or.inl rfl⟩⟩
             · vl_simp [hcf, hv, hp, hn, hs, hi, hV]
             · simp [nodeStep, validateNode, hcf, hv, hp, hn, hs, hi, hV, stageRet]
           | some e =>
             refine ⟨.ret (.tuple [.nil, .str e]), ?_, Or.inr ⟨_, ?_, rfl⟩⟩
             · vl_simp [hcf, hv, hp, hn, hs, hi, hV]
             · simp [nodeStep, validateNode, hcf, hv, hp, hn, hs, hi, hV, stageRet])
        | (refine ⟨.cont, ?_, Or.inl ⟨?_, Or.inr rfl⟩⟩
           · vl_simp [hcf, hv, hp, hn, hs, hi]
           · simp [nodeStep, validateNode, hcf, hv, hp, hn, hs, hi, stageRet])
        | (refine ⟨.norm, ?_, Or.inl ⟨?_, Or.inl rfl⟩⟩
           · vl_simp [hcf, hv, hp, hn, hs, hi]
           · simp [nodeStep, validateNode, hcf, hv, hp, hn, hs, hi, stageRet])

/-- validateAwarePostProcessors.PostProcessProperties, regenerated -/
theorem validate_sem (n : Nat) (w : SW) :
    run (VP props vS vV) Progs.validate_PostProcessProperties
        [.list ((List.range' 0 n).map (fun i => Val.ref i 20)), .str "c", .str "n"] w =
      some (stageResult (stageLoop (validateNode props vS vV) (List.range' 0 n) w).2,
            (stageLoop (validateNode props vS vV) (List.range' 0 n) w).1) :=
  stage_run _ _ vlBody _ vl_shape vl_params (fun n i k w => vl_iter props vS vV n i k w) n w

theorem validateNode_decision (i : Nat) (w : SW) :
    (validateNode props vS vV i w).2 =
      match validateNodeDecision props vS vV i with
      | .fail e => some e
      | _ => none := by
  unfold validateNode validateNodeDecision validateDecision
  simp only []
  cases hc : (spropAt props i).cfgType
  · simp
  cases hv : (spropAt props i).validate with
  | none => simp
  | some ts =>
    cases hp : (spropAt props i).isPtr <;> cases hn : (spropAt props i).isNil <;> cases hs : (spropAt props i).isStruct <;>
      cases hi : (spropAt props i).canIface <;> simp <;>
      first
        | (cases vS i <;> simp)
        | (cases vV i (",".intercalate ts) <;> simp)

end validate
end Ioc.Sem
