/-
  Proofs of the C17 statements (the statement file IocProofs/C17.lean only restates them).
-/
import IocProofs.Lemmas.ValuePipe
namespace Ioc.Value
open Ioc Ioc.Tag

/-- `Faithful J ty v`: the value path is expected to deliver `v` unchanged into a field of type `ty`.
    strings: not empty / bool-like / number-like / bracketed / quoted;  integers: |i| ≤ 2^53 (non-negative where
    an unsigned field is involved);  booleans;  decimals that read back as themselves;  non-empty lists and
    maps of such integers with JSON-safe strings (inside a list or map strings are never re-interpreted);
    and in every case the formatted text contains no `${…}` / `#{…}` pattern. -/
def Faithful (J : Json) (ty : FieldTy) (v : Val) : Bool :=
  noEl (formatAny J v) && faithfulV v && (!usesUint ty || nonNegV v) &&
  (match v with
   | .str s => plainString s
   | .int _ => true
   | .bool _ => true
   | .dec t => decide (parseAny J (formatAny J (.dec t)) = .ok (.dec t))
   | .list l => !l.isEmpty && jsonSafeL l
   | .map m => !m.isEmpty && jsonSafe (.map m)
   | .null => false
   | .flt _ => false)

/-- Binding by prefix gives exactly the configured value converted to the field's type
    (scalars, pointers, slices, maps, nested structs; `convert` is the specification, see Lemmas/ValueConvert). -/
theorem prefix_exact (J : Json) (cfg : Cfg) (k : Bytes) (as : List (Bytes × List Bytes)) (ty : FieldTy)
    (hk : PlainKey k = true) (has : ∀ a ∈ as, WFArg a)
    (hn : cfg k ≠ .null) (hc : convertible ty (cfg k) = true) :
    bindPrefix J cfg ty (render k as) = .ok (convert ty (cfg k)) := by
  unfold bindPrefix prefixPipeline
  rw [parse?_render k as (WFpre_key k hk) has]
  simp only [quoteStage_plain J cfg k (findEl_key _ (Or.inl rfl) k hk),
    exprStage_plain J noExpr k (findEl_key _ (Or.inr rfl) k hk), bind, Except.bind]
  unfold prefixStage unmarshall
  simp only [hn, if_false, decode_convert ty (cfg k) hc, Except.map, validateStage_noValidate]
  rfl

/-- what ParseAny makes of the formatted text of a faithful value: the value itself with float64 numbers -/
theorem parse_format_faithful (J : Json) (hJ : J.Lawful) (ty : FieldTy) (v : Val) (hf : Faithful J ty v = true) :
    parseAny J (formatAny J v) = .ok (toF64 v) ∧ formatAny J v ≠ [] ∧ present v = true := by
  unfold Faithful at hf
  simp only [Bool.and_eq_true] at hf
  obtain ⟨⟨⟨_, hfv⟩, _⟩, hm⟩ := hf
  cases v with
  | null => simp at hm
  | flt i => simp at hm
  | str s =>
    simp only at hm
    refine ⟨by simpa [formatAny, toF64] using parseAny_plain J s hm, ?_, by simp [present]⟩
    simp only [plainString, Bool.and_eq_true, Bool.not_eq_true'] at hm
    intro e; simp [formatAny] at e; subst e; simp at hm
  | int i =>
    simp only [faithfulV, decide_eq_true_eq] at hfv
    refine ⟨by simpa [formatAny, toF64, roundF64I_small i hfv] using parseAny_intToDec J i hfv, ?_, by simp [present]⟩
    have hlt : i.natAbs < 10 ^ 40 := by
      have : (2:Nat) ^ 53 < 10 ^ 40 := by decide
      omega
    have := (natToDec_spec i.natAbs hlt).1
    simp only [formatAny, intToDec]
    split
    · simp
    · exact this
  | bool b =>
    refine ⟨parseAny_bool J b, by cases b <;> simp [formatAny, sTrue, sFalse, ofString], by simp [present]⟩
  | dec t =>
    simp only [decide_eq_true_eq] at hm
    refine ⟨by simpa [toF64] using hm, ?_, by simp [present]⟩
    intro e
    rw [e] at hm
    simp [parseAny, parseAnyF] at hm
  | list l =>
    simp only [Bool.and_eq_true, Bool.not_eq_true'] at hm
    obtain ⟨mid, hmid⟩ := hJ.list_shape l hm.2
    refine ⟨by simpa [formatAny] using parseAny_enc_list J hJ l hm.2, by simp [formatAny, hmid], ?_⟩
    cases l with
    | nil => simp at hm
    | cons a r => simp [present]
  | map m =>
    simp only [Bool.and_eq_true, Bool.not_eq_true'] at hm
    obtain ⟨mid, hmid⟩ := hJ.map_shape m hm.2
    refine ⟨by simpa [formatAny] using parseAny_enc_map J hJ m hm.2, by simp [formatAny, hmid], ?_⟩
    cases m with
    | nil => simp at hm
    | cons a r => simp [present]

/- FULL STATEMENT (false of the code, see C17_counterexamples):
     ∀ J cfg k as ty, bindValue J cfg ty (render (placeholder k) as) = bindPrefix J cfg ty (render k as) -/
/-- Binding a key through the value placeholder `${k}` (with any arguments) gives the same result as binding
    it by prefix — for `Faithful` values, for every field type, including the error cases of the decoder. -/
theorem value_eq_prefix_faithful (J : Json) (hJ : J.Lawful) (cfg : Cfg) (k : Bytes)
    (as : List (Bytes × List Bytes)) (ty : FieldTy)
    (hk : PlainKey k = true) (has : ∀ a ∈ as, WFArg a) (hf : Faithful J ty (cfg k) = true) :
    bindValue J cfg ty (render (placeholder k) as) = bindPrefix J cfg ty (render k as) := by
  obtain ⟨hparse, hne, hpres⟩ := parse_format_faithful J hJ ty (cfg k) hf
  have hf' := hf
  unfold Faithful at hf'
  simp only [Bool.and_eq_true, noEl, Option.isNone_iff_eq_none, Bool.or_eq_true, Bool.not_eq_true'] at hf'
  obtain ⟨⟨⟨⟨hd, hh⟩, hfv⟩, hu⟩, _⟩ := hf'
  have hnn : cfg k ≠ .null := by
    simp only [present, Bool.and_eq_true, bne_iff_ne, ne_eq] at hpres
    exact hpres.1.1
  have hnn' : toF64 (cfg k) ≠ .null := by rw [Ne, toF64_eq_null]; exact hnn
  have hempty : (formatAny J (cfg k)).isEmpty = false := by
    cases hx : formatAny J (cfg k) with
    | nil => exact absurd hx hne
    | cons _ _ => rfl
  have hdec : decode ty (toF64 (cfg k)) = decode ty (cfg k) :=
    decode_toF64 ty (cfg k) hfv (by
      intro huu
      rcases hu with hu | hu
      · rw [hu] at huu; exact absurd huu (by simp)
      · exact hu)
  unfold bindValue bindPrefix valuePipeline prefixPipeline
  rw [parse?_render (placeholder k) as (WFpre_placeholder k hk) has, parse?_render k as (WFpre_key k hk) has]
  simp only [quoteStage_placeholder J cfg k hk hpres hd, exprStage_plain J noExpr _ hh,
    quoteStage_plain J cfg k (findEl_key _ (Or.inl rfl) k hk),
    exprStage_plain J noExpr k (findEl_key _ (Or.inr rfl) k hk), bind, Except.bind]
  unfold valueStage prefixStage unmarshall
  simp only [hempty, Bool.false_eq_true, if_false, hparse, hnn, hnn', hdec]

/-- The prop shorthand IS the value tag `${key}` with the same arguments (definitional + the C19 index lemma):
    `prop:"k,args"` binds exactly like `value:"${k},args"`, and `prop:"k"` like `value:"${k}"`. -/
theorem prop_is_value (J : Json) (cfg : Cfg) (ty : FieldTy) (k rest : Bytes)
    (hk : WFpre cComma isLB isRB k 0 = true) :
    bindProp J cfg ty (k ++ cComma :: rest) = bindValue J cfg ty (placeholder k ++ cComma :: rest) ∧
    ((∀ b ∈ k, b ≠ cComma) → bindProp J cfg ty k = bindValue J cfg ty (placeholder k)) := by
  constructor
  · unfold bindProp propShorthand?
    rw [index_toplevel cComma isLB isRB (by decide) (by decide) k rest hk]
    have hne : ¬ ((k.length : Int) = -1) := by omega
    simp only [hne, if_false]
    rw [slice?_some _ 0 _ (by simp; omega), slice?_some _ _ _ (by simp; omega)]
    have e0 : (0 : Int).toNat = 0 := rfl
    simp only [Int.toNat_natCast, List.length_append, List.length_cons, e0, Nat.sub_zero, List.drop_zero]
    have e1 : List.take k.length (k ++ cComma :: rest) = k := by simp
    have e2 : List.take (k.length + (rest.length + 1) - k.length) (List.drop k.length (k ++ cComma :: rest)) = cComma :: rest := by
      simp
    rw [e1, e2]
    simp [placeholder, ofString, cDollar]
  · intro hno
    unfold bindProp propShorthand? index
    rw [idxFrom_none_of_not_mem cComma k hno]
    simp [placeholder, ofString, cDollar]

/-- a literal that ParseAny leaves alone and that contains no pattern and no top-level separator -/
def PlainLiteral (s : Bytes) : Bool :=
  plainString s && noEl s && WFpre cComma isLB isRB s 0

/- FULL STATEMENT (false of the code: `value:"007"` binds "7"):  ∀ s, bindValue J cfg .string s = ok (str s) -/
/-- A literal written in a value tag is bound as written: the field receives the literal converted to its type;
    in particular a string field receives exactly the literal. -/
theorem literal_plain (J : Json) (cfg : Cfg) (ty : FieldTy) (s : Bytes) (as : List (Bytes × List Bytes))
    (hl : PlainLiteral s = true) (has : ∀ a ∈ as, WFArg a) :
    bindValue J cfg ty (render s as) = decode ty (.str s) ∧
    bindValue J cfg .string (render s as) = .ok (.str s) := by
  simp only [PlainLiteral, Bool.and_eq_true, noEl, Option.isNone_iff_eq_none] at hl
  obtain ⟨⟨hp, hd, hh⟩, hw⟩ := hl
  have hempty : s.isEmpty = false := by
    simp only [plainString, Bool.and_eq_true, Bool.not_eq_true'] at hp
    exact hp.1.1.1.1.1
  have main : ∀ ty, bindValue J cfg ty (render s as) = decode ty (.str s) := by
    intro ty
    unfold bindValue valuePipeline
    rw [parse?_render s as hw has]
    simp only [quoteStage_plain J cfg s hd, exprStage_plain J noExpr s hh, bind, Except.bind]
    unfold valueStage unmarshall
    simp only [hempty, Bool.false_eq_true, if_false, parseAny_plain J s hp, validateStage_noValidate]
    cases decode ty (.str s) <;> rfl
  exact ⟨main ty, by rw [main]; rfl⟩


/-- configuration with the key `k` (and a second key `kz: "zz"`) -/
def cfgK (v : Val) : Cfg := fun key => if key = ofString "k" then v else if key = ofString "kz" then .str (ofString "zz") else .null

def tagV : Bytes := ofString "${k}"
def tagX : Bytes := ofString "k"

end Ioc.Value
