/-
  Lemmas about the preference loop of filterDependencies (`chooseGo` / `choose`): what it picks,
  when the pick is forced (no tie), and that a forced pick does not depend on the order of the list.
  Ported from the round-0 prototype (proto/Choice.lean) to candidate ids looked up through `byId`.
-/
import IocProofs.Lemmas.Match
namespace Ioc.Match
open Ioc Ioc.Tag

/-- the candidate implements WirePrimary -/
def isPrim (byId : Nat → Option Prov) (m : Nat) : Bool :=
  match byId m with
  | some p => p.primary
  | none => false

/-- the candidate has no custom name (`!IsAlias()`) -/
def isUnn (byId : Nat → Option Prov) (m : Nat) : Bool :=
  match byId m with
  | some p => !p.custom
  | none => false

theorem chooseGo_cons (byId : Nat → Option Prov) (m : Nat) (rest : List Nat) (cand : Nat) :
    chooseGo byId (m :: rest) cand =
      if isPrim byId m then m else if isUnn byId m then chooseGo byId rest m else chooseGo byId rest cand := by
  cases h : byId m <;> simp [chooseGo, isPrim, isUnn, h]

theorem chooseGo_spec (byId : Nat → Option Prov) (l : List Nat) (cand : Nat) :
    (chooseGo byId l cand = cand ∨ chooseGo byId l cand ∈ l) ∧
    ((∃ m ∈ l, isPrim byId m = true) → chooseGo byId l cand ∈ l ∧ isPrim byId (chooseGo byId l cand) = true) ∧
    ((∀ m ∈ l, isPrim byId m = false) → (∃ m ∈ l, isUnn byId m = true) →
        chooseGo byId l cand ∈ l ∧ isUnn byId (chooseGo byId l cand) = true) ∧
    ((∀ m ∈ l, isPrim byId m = false) → (∀ m ∈ l, isUnn byId m = false) → chooseGo byId l cand = cand) := by
  induction l generalizing cand with
  | nil => simp [chooseGo]
  | cons m ms ih =>
    rw [chooseGo_cons]
    by_cases hp : isPrim byId m = true
    · simp [hp]
    · have hp' : isPrim byId m = false := by simpa using hp
      simp only [hp', Bool.false_eq_true, if_false]
      by_cases hc : isUnn byId m = true
      · simp only [hc, if_true]
        have := ih m
        refine ⟨?_, ?_, ?_, ?_⟩
        · rcases this.1 with h | h
          · right; rw [h]; exact List.mem_cons_self
          · exact Or.inr (List.mem_cons_of_mem _ h)
        · rintro ⟨q, hqm, hqp⟩
          rcases List.mem_cons.mp hqm with rfl | hqm
          · rw [hp'] at hqp; cases hqp
          · have := this.2.1 ⟨q, hqm, hqp⟩
            exact ⟨List.mem_cons_of_mem _ this.1, this.2⟩
        · intro hnp _
          have hnp' : ∀ q ∈ ms, isPrim byId q = false := fun q hq => hnp q (List.mem_cons_of_mem _ hq)
          by_cases hex : ∃ q ∈ ms, isUnn byId q = true
          · have := this.2.2.1 hnp' hex
            exact ⟨List.mem_cons_of_mem _ this.1, this.2⟩
          · have hall : ∀ q ∈ ms, isUnn byId q = false := by
              intro q hq
              cases h : isUnn byId q with
              | false => rfl
              | true => exact absurd ⟨q, hq, h⟩ hex
            rw [this.2.2.2 hnp' hall]
            exact ⟨List.mem_cons_self, hc⟩
        · intro _ hall
          rw [hall m List.mem_cons_self] at hc; cases hc
      · have hc' : isUnn byId m = false := by simpa using hc
        simp only [hc', Bool.false_eq_true, if_false]
        have := ih cand
        refine ⟨?_, ?_, ?_, ?_⟩
        · rcases this.1 with h | h
          · exact Or.inl h
          · exact Or.inr (List.mem_cons_of_mem _ h)
        · rintro ⟨q, hqm, hqp⟩
          rcases List.mem_cons.mp hqm with rfl | hqm
          · rw [hp'] at hqp; cases hqp
          · have := this.2.1 ⟨q, hqm, hqp⟩
            exact ⟨List.mem_cons_of_mem _ this.1, this.2⟩
        · intro hnp ⟨q, hqm, hqc⟩
          rcases List.mem_cons.mp hqm with rfl | hqm
          · rw [hc'] at hqc; cases hqc
          · have := this.2.2.1 (fun r hr => hnp r (List.mem_cons_of_mem _ hr)) ⟨q, hqm, hqc⟩
            exact ⟨List.mem_cons_of_mem _ this.1, this.2⟩
        · intro hnp hall
          exact this.2.2.2 (fun r hr => hnp r (List.mem_cons_of_mem _ hr)) (fun r hr => hall r (List.mem_cons_of_mem _ hr))

/-- what the property needs: membership, Primary wins, else unnamed wins -/
theorem choose_spec (byId : Nat → Option Prov) (l : List Nat) (r : Nat) (h : choose byId l = some r) :
    r ∈ l ∧
    ((∃ m ∈ l, isPrim byId m = true) → isPrim byId r = true) ∧
    ((∀ m ∈ l, isPrim byId m = false) → (∃ m ∈ l, isUnn byId m = true) → isUnn byId r = true) := by
  cases l with
  | nil => simp [choose] at h
  | cons c cs =>
    simp only [choose, Option.some.injEq] at h
    subst h
    have := chooseGo_spec byId (c :: cs) c
    refine ⟨?_, fun h => (this.2.1 h).2, fun h1 h2 => (this.2.2.1 h1 h2).2⟩
    rcases this.1 with h | h
    · rw [h]; exact List.mem_cons_self
    · exact h

theorem choose_unique_primary (byId : Nat → Option Prov) (l : List Nat) (c : Nat) (hc : c ∈ l)
    (hcp : isPrim byId c = true) (huniq : ∀ m ∈ l, isPrim byId m = true → m = c) :
    choose byId l = some c := by
  obtain ⟨r, hr⟩ := choose_isSome byId l (List.ne_nil_of_mem hc)
  have := choose_spec byId l r hr
  rw [hr, huniq r this.1 (this.2.1 ⟨c, hc, hcp⟩)]

theorem choose_unique_unnamed (byId : Nat → Option Prov) (l : List Nat) (u : Nat) (hu : u ∈ l)
    (huc : isUnn byId u = true) (hnp : ∀ m ∈ l, isPrim byId m = false)
    (huniq : ∀ m ∈ l, isUnn byId m = true → m = u) :
    choose byId l = some u := by
  obtain ⟨r, hr⟩ := choose_isSome byId l (List.ne_nil_of_mem hu)
  have := choose_spec byId l r hr
  rw [hr, huniq r this.1 (this.2.2 hnp ⟨u, hu, huc⟩)]

/-! ### ties -/

/-- the equally ranked candidates the loop chooses among: the Primaries if any, else the unnamed if any, else all -/
def tiedSetL (byId : Nat → Option Prov) (l : List Nat) : List Nat :=
  if (l.filter (isPrim byId)).isEmpty then
    (if (l.filter (isUnn byId)).isEmpty then l else l.filter (isUnn byId))
  else l.filter (isPrim byId)

/-- more than one Primary, or no Primary and more than one unnamed, or neither and more than one candidate -/
def TiedL (byId : Nat → Option Prov) (l : List Nat) : Bool :=
  decide ((l.filter (isPrim byId)).length > 1) ||
  ((l.filter (isPrim byId)).isEmpty &&
    (decide ((l.filter (isUnn byId)).length > 1) ||
     ((l.filter (isUnn byId)).isEmpty && decide (l.length > 1))))

theorem filter_isEmpty_iff {α : Type} (q : α → Bool) (l : List α) :
    (l.filter q).isEmpty = true ↔ ∀ m ∈ l, q m = false := by
  rw [List.isEmpty_iff, List.filter_eq_nil_iff]
  constructor
  · intro h m hm; simpa using h m hm
  · intro h m hm; simp [h m hm]

theorem choose_mem_tiedSetL (byId : Nat → Option Prov) (l : List Nat) (c : Nat) (h : choose byId l = some c) :
    c ∈ tiedSetL byId l := by
  have sp := choose_spec byId l c h
  unfold tiedSetL
  by_cases hP : (l.filter (isPrim byId)).isEmpty = true
  · rw [if_pos hP]
    have hnp := (filter_isEmpty_iff _ _).mp hP
    by_cases hU : (l.filter (isUnn byId)).isEmpty = true
    · rw [if_pos hU]; exact sp.1
    · rw [if_neg hU]
      have hex : ∃ m ∈ l, isUnn byId m = true := by
        apply Classical.byContradiction
        intro hn
        apply hU
        rw [filter_isEmpty_iff]
        intro m hm
        cases hq : isUnn byId m with
        | false => rfl
        | true => exact absurd ⟨m, hm, hq⟩ hn
      exact List.mem_filter.mpr ⟨sp.1, sp.2.2 hnp hex⟩
  · rw [if_neg hP]
    have hex : ∃ m ∈ l, isPrim byId m = true := by
      apply Classical.byContradiction
      intro hn
      apply hP
      rw [filter_isEmpty_iff]
      intro m hm
      cases hq : isPrim byId m with
      | false => rfl
      | true => exact absurd ⟨m, hm, hq⟩ hn
    exact List.mem_filter.mpr ⟨sp.1, sp.2.1 hex⟩

theorem length_one_of {α : Type} (l : List α) (h1 : l.isEmpty = false) (h2 : ¬ l.length > 1) : ∃ c, l = [c] := by
  match l, h1, h2 with
  | [c], _, _ => exact ⟨c, rfl⟩
  | _ :: _ :: _, _, h2 => simp at h2

/-- without a tie the tied set is a single candidate -/
theorem tiedSetL_single (byId : Nat → Option Prov) (l : List Nat) (hne : l ≠ []) (ht : TiedL byId l = false) :
    ∃ c, tiedSetL byId l = [c] := by
  unfold TiedL at ht
  unfold tiedSetL
  simp only [Bool.or_eq_false_iff, decide_eq_false_iff_not, Bool.and_eq_false_iff] at ht
  obtain ⟨h1, h2⟩ := ht
  by_cases hP : (l.filter (isPrim byId)).isEmpty = true
  · rw [if_pos hP]
    rcases h2 with h2 | ⟨h2, h3⟩
    · rw [hP] at h2; cases h2
    · by_cases hU : (l.filter (isUnn byId)).isEmpty = true
      · rw [if_pos hU]
        rcases h3 with h3 | h3
        · rw [hU] at h3; cases h3
        · apply length_one_of l _ h3
          cases l with
          | nil => exact absurd rfl hne
          | cons a t => rfl
      · rw [if_neg hU]
        exact length_one_of _ (by simpa using hU) h2
  · rw [if_neg hP]
    exact length_one_of _ (by simpa using hP) h1

/-- the choice is FORCED when there is no tie -/
theorem choose_untied (byId : Nat → Option Prov) (l : List Nat) (c : Nat) (h : choose byId l = some c)
    (ht : TiedL byId l = false) : tiedSetL byId l = [c] := by
  have hne : l ≠ [] := List.ne_nil_of_mem (choose_spec byId l c h).1
  obtain ⟨d, hd⟩ := tiedSetL_single byId l hne ht
  have := choose_mem_tiedSetL byId l c h
  rw [hd] at this ⊢
  simp at this
  rw [this]

theorem isEmpty_perm {α : Type} {l l' : List α} (h : l.Perm l') : l.isEmpty = l'.isEmpty := by
  cases l with
  | nil => rw [h.nil_eq]
  | cons a t =>
    cases l' with
    | nil => exact absurd h.symm.nil_eq (by simp)
    | cons b t' => rfl

theorem tiedSetL_perm (byId : Nat → Option Prov) {l l' : List Nat} (h : l.Perm l') :
    (tiedSetL byId l).Perm (tiedSetL byId l') := by
  unfold tiedSetL
  rw [isEmpty_perm (h.filter (isPrim byId)), isEmpty_perm (h.filter (isUnn byId))]
  split
  · split
    · exact h
    · exact h.filter _
  · exact h.filter _

theorem TiedL_perm (byId : Nat → Option Prov) {l l' : List Nat} (h : l.Perm l') : TiedL byId l = TiedL byId l' := by
  unfold TiedL
  rw [isEmpty_perm (h.filter (isPrim byId)), isEmpty_perm (h.filter (isUnn byId)),
    (h.filter (isPrim byId)).length_eq, (h.filter (isUnn byId)).length_eq, h.length_eq]

/-- ORDER INDEPENDENCE of the choice for an untied point -/
theorem choose_perm_untied (byId : Nat → Option Prov) {l l' : List Nat} (hperm : l.Perm l')
    (ht : TiedL byId l = false) (c c' : Nat) (h : choose byId l = some c) (h' : choose byId l' = some c') : c = c' := by
  have e1 := choose_untied byId l c h ht
  have e2 := choose_untied byId l' c' h' (by rw [← TiedL_perm byId hperm]; exact ht)
  have := tiedSetL_perm byId hperm
  rw [e1, e2] at this
  simpa using this

/-! ### the stages under a permutation of the enumeration order -/

theorem selfRemoved_perm (holder : Nat) {l l' : List Nat} (h : l.Perm l') :
    (selfRemoved holder l).Perm (selfRemoved holder l') := by
  unfold selfRemoved
  rw [isEmpty_perm (h.filter (· != holder))]
  split
  · exact h
  · exact h.filter _

theorem qualFilter_perm (byId : Nat → Option Prov) (args : Args) {l l' : List Nat} (h : l.Perm l') :
    (qualFilter byId args l).Perm (qualFilter byId args l') := by
  unfold qualFilter
  split
  · exact h.filter _
  · exact h

theorem discovered_perm {pop pop' : List Prov} (hperm : pop.Perm pop') (hnm : (pop.map (·.name)).Nodup)
    (s : Slot) (v : Bytes) (args : Args) : (discovered pop s v args).Perm (discovered pop' s v args) := by
  unfold discovered
  cases s.isFunc
  · simp only [Bool.false_eq_true, if_false]
    unfold candidatesWire
    split
    · cases typeOption s.kind with
      | none => exact List.Perm.refl _
      | some f => exact ((hperm.filter f).map _).filterMap _
    · have e := find?_key_perm (fun q : Prov => q.name) hperm hnm v
      rw [e]
  · simp only [if_true]
    unfold candidatesFunc
    cases typeOption s.kind with
    | none => exact List.Perm.refl _
    | some f => exact ((hperm.filter _).map _).filterMap _

theorem qualified_perm {pop pop' : List Prov} (hperm : pop.Perm pop') (hid : (pop.map (·.id)).Nodup)
    (hnm : (pop.map (·.name)).Nodup) (s : Slot) (v : Bytes) (a0 : Args) :
    (qualified pop s v a0).Perm (qualified pop' s v a0) := by
  unfold qualified
  rw [← byId_perm hperm hid]
  exact qualFilter_perm _ _ (discovered_perm hperm hnm s v _)

theorem survivorsOf_perm {pop pop' : List Prov} (hperm : pop.Perm pop') (hid : (pop.map (·.id)).Nodup)
    (hnm : (pop.map (·.name)).Nodup) (s : Slot) (v : Bytes) (a0 : Args) :
    (survivorsOf pop s v a0).Perm (survivorsOf pop' s v a0) :=
  selfRemoved_perm _ (qualified_perm hperm hid hnm s v a0)

theorem picked_single (pop : List Prov) (s : Slot) (v : Bytes) (a0 : Args) (hs : s.kind.isSlice = false) :
    (qualified pop s v a0 = [] ∧ picked pop s v a0 = []) ∨
    (∃ c, choose (byId pop) (survivorsOf pop s v a0) = some c ∧ picked pop s v a0 = [c]) := by
  unfold picked
  rw [hs]
  simp only [Bool.false_eq_true, if_false]
  cases h : choose (byId pop) (survivorsOf pop s v a0) with
  | some c => exact Or.inr ⟨c, rfl, rfl⟩
  | none =>
    left
    have : survivorsOf pop s v a0 = [] := by
      cases h2 : survivorsOf pop s v a0 with
      | nil => rfl
      | cons a t => rw [h2] at h; cases h
    exact ⟨(selfRemoved_eq_nil _ _).mp this, rfl⟩

theorem selfRemoved_subset (holder : Nat) (l : List Nat) : ∀ c ∈ selfRemoved holder l, c ∈ l := by
  intro c hc
  unfold selfRemoved at hc
  split at hc
  · exact hc
  · exact (List.mem_filter.mp hc).1

/-- whatever is injected was qualified by the qualifier filter -/
theorem picked_subset_qualified (pop : List Prov) (s : Slot) (v : Bytes) (a0 : Args) :
    ∀ c ∈ picked pop s v a0, c ∈ qualified pop s v a0 := by
  intro c hc
  cases hs : s.kind.isSlice
  · rcases picked_single pop s v a0 hs with ⟨_, h⟩ | ⟨d, hd, h⟩
    · rw [h] at hc; cases hc
    · rw [h] at hc
      simp at hc; subst hc
      exact selfRemoved_subset _ _ _ (choose_spec _ _ _ hd).1
  · unfold picked at hc; rw [hs] at hc; exact hc

theorem picked_length_single (pop : List Prov) (s : Slot) (v : Bytes) (a0 : Args) (hs : s.kind.isSlice = false) :
    (picked pop s v a0).length ≤ 1 := by
  rcases picked_single pop s v a0 hs with ⟨_, h⟩ | ⟨d, _, h⟩ <;> rw [h] <;> simp

end Ioc.Match
