/-
  The consumers of tag arguments (seventh round): what the parser stores is never an empty item list, so the
  `args[0]` of Property.Unmarshall is in range for every tag text; the item that reaches the decoder is the item as written.
-/
import IocProofs.Lemmas.TagTotal
import IocProofs.Lemmas.TagRound
namespace Ioc.Tag

/-- every stored argument has at least one item -/
def ItemsNonempty (a : Args) : Prop := ∀ p ∈ a, p.2 ≠ []

theorem mem_ainsert {κ ν : Type} [DecidableEq κ] (k : κ) (v : ν) (m : List (κ × ν)) (p : κ × ν)
    (h : p ∈ ainsert k v m) : p = (k, v) ∨ p ∈ m := by
  induction m with
  | nil => simp [ainsert] at h; exact Or.inl h
  | cons q rest ih =>
    obtain ⟨k', v'⟩ := q
    simp only [ainsert] at h
    split at h
    · simp only [List.mem_cons] at h
      rcases h with h | h
      · exact Or.inl h
      · exact Or.inr (by simp [h])
    · simp only [List.mem_cons] at h
      rcases h with h | h
      · exact Or.inr (by simp [h])
      · rcases ih h with h' | h'
        · exact Or.inl h'
        · exact Or.inr (by simp [h'])

theorem alookup_mem {κ ν : Type} [DecidableEq κ] (k : κ) (m : List (κ × ν)) (v : ν)
    (h : alookup k m = some v) : (k, v) ∈ m := by
  induction m with
  | nil => simp [alookup] at h
  | cons q rest ih =>
    obtain ⟨k', v'⟩ := q
    simp only [alookup] at h
    split at h
    · rename_i hk; subst hk; simp only [Option.some.injEq] at h; subst h; simp
    · simp [ih h]

theorem itemsNonempty_nil : ItemsNonempty [] := by intro p hp; simp at hp

theorem itemsNonempty_setArg (m : Args) (k : Bytes) (v : List Bytes) (hm : ItemsNonempty m) (hv : v ≠ []) :
    ItemsNonempty (setArg m k v) := by
  cases k with
  | nil => exact hm
  | cons b rest =>
    intro p hp
    simp only [setArg] at hp
    rcases mem_ainsert _ _ _ _ hp with h | h
    · rw [h]; exact hv
    · exact hm p h

theorem parseExp?_nonempty (m : Args) (e : Bytes) (m' : Args) (hm : ItemsNonempty m)
    (h : parseExp? m e = some m') : ItemsNonempty m' := by
  unfold parseExp? at h
  cases hk : idxFrom cEq e with
  | none =>
    simp only [hk, Option.some.injEq] at h
    rw [← h]; exact itemsNonempty_setArg m e [[]] hm (by simp)
  | some i =>
    have hlt := idxFrom_lt cEq e i hk
    simp only [hk] at h
    rw [slice?_some e 0 i (by omega), slice?_some e (i + 1) e.length (by omega)] at h
    simp only [split?_eq, Option.some.injEq] at h
    rw [← h]; exact itemsNonempty_setArg m _ _ hm (split_ne_nil _ _ _ _)

theorem parseExps?_nonempty (m : Args) (es : List Bytes) (m' : Args) (hm : ItemsNonempty m)
    (h : parseExps? m es = some m') : ItemsNonempty m' := by
  induction es generalizing m with
  | nil => simp only [parseExps?, Option.some.injEq] at h; rw [← h]; exact hm
  | cons e es ih =>
    obtain ⟨m1, h1⟩ := parseExp?_total m e
    simp only [parseExps?, h1] at h
    exact ih m1 (parseExp?_nonempty m e m1 hm h1) h

/-- TagArg.Parse never stores an empty item list: a bare name gets the one item "" -/
theorem parse?_nonempty (s v : Bytes) (a : Args) (h : parse? s = some (v, a)) : ItemsNonempty a := by
  unfold parse? at h
  rw [split?_eq] at h
  cases hs : split cComma isLB isRB s with
  | nil => exact absurd hs (split_ne_nil _ _ _ _)
  | cons v' exps =>
    obtain ⟨a', ha'⟩ := parseExps?_total [] exps
    simp only [hs, ha', Option.map_some, Option.some.injEq, Prod.mk.injEq] at h
    rw [← h.2]; exact parseExps?_nonempty [] exps a' itemsNonempty_nil ha'

theorem find_items_ne (a : Args) (k : Bytes) (items : List Bytes) (hn : ItemsNonempty a)
    (h : find a k = some items) : items ≠ [] := by
  unfold find at h
  cases hk : formatArgType? k with
  | none => simp [hk] at h
  | some k' =>
    simp only [hk] at h
    exact hn (k', items) (alookup_mem k' a items h)

/-- the scanner's `Required` marker is stored under `Required`: lookups of other names do not see it -/
theorem find_scanDefault (req : Bool) (a : Args) (k k' : Bytes) (hk : formatArgType? k = some k')
    (hne : k' ≠ kRequired) : find (scanDefault req a) k = find a k := by
  have hs : ∀ m v, setArg m kRequired v = ainsert kRequired v m := by
    intro m v
    have e : kRequired = 82 :: ofString "equired" := by decide
    have u : upperFirst 82 = [82] := by decide
    rw [e]; simp [setArg, u]
  unfold scanDefault
  split
  · simp only [find, hk, hs]
    exact alookup_ainsert_other kRequired k' [] a hne
  · rfl

theorem first?_some (items : List Bytes) (h : items ≠ []) : ∃ x, first? items = some x := by
  cases items with
  | nil => exact absurd rfl h
  | cons x _ => exact ⟨x, rfl⟩

/-- Unmarshall's two `args[0]` are in range whenever the two arguments (if present) have an item -/
theorem decodeOpts?_total (a : Args)
    (h1 : ∀ items, find a kTimeLayout = some items → items ≠ [])
    (h2 : ∀ items, find a kMapper = some items → items ≠ []) : ∃ o, decodeOpts? a = some o := by
  unfold decodeOpts?
  cases hl : find a kTimeLayout with
  | none =>
    cases hm : find a kMapper with
    | none => exact ⟨_, rfl⟩
    | some ms =>
      obtain ⟨x, hx⟩ := first?_some ms (h2 ms hm)
      exact ⟨(none, x), by simp [hx]⟩
  | some items =>
    obtain ⟨l, hl'⟩ := first?_some items (h1 items hl)
    simp only [hl']
    cases hm : find a kMapper with
    | none => exact ⟨_, rfl⟩
    | some ms =>
      obtain ⟨x, hx⟩ := first?_some ms (h2 ms hm)
      exact ⟨(some l, x), by simp [hx]⟩

theorem fmt_timeLayout : formatArgType? kTimeLayout = some (ofString "TimeLayout") := by decide
theorem fmt_mapper : formatArgType? kMapper = some (ofString "Mapper") := by decide

theorem find_scan_timeLayout (req : Bool) (a : Args) : find (scanDefault req a) kTimeLayout = find a kTimeLayout :=
  find_scanDefault req a kTimeLayout _ fmt_timeLayout (by decide)

theorem find_scan_mapper (req : Bool) (a : Args) : find (scanDefault req a) kMapper = find a kMapper :=
  find_scanDefault req a kMapper _ fmt_mapper (by decide)

/-- with a `timeLayout` argument whose first item is `item` (and a `mapper` argument, if any, that has an item) the text is
    read by time.Parse with exactly that item as its layout -/
theorem bindTime?_item (a : Args) (item : Bytes) (more : List Bytes) (value : Bytes)
    (hl : find a kTimeLayout = some (item :: more))
    (h2 : ∀ items, find a kMapper = some items → items ≠ []) :
    bindTime? a value = some (.time (timeParse item value)) := by
  unfold bindTime? decodeOpts?
  simp only [hl, first?]
  cases hm : find a kMapper with
  | none => rfl
  | some ms =>
    cases ms with
    | nil => exact absurd rfl (h2 [] hm)
    | cons x rest => rfl

end Ioc.Tag
