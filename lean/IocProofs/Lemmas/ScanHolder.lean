/-
  Lemmas for C11: a component that is ITSELF a post-processor (`Scan.populateLoop`, the registration loop of
  InvokeBeanFactoryPostProcessors with the chain every created processor is populated by).
  (i)   the loop: final chain, and the chain of a processor = the processors sorted ahead of it;
  (ii)  the ordering contract (Order.sortOrdered under any sort meeting SortSpec) puts a holder that nothing may follow LAST, so
        it is populated by every other processor — the chain a plain component is populated by, minus the holder itself.
-/
import Ioc.Scan
import IocProofs.Lemmas.Order
namespace Ioc.Scan

variable {α : Type}

theorem populateLoop_final (l : List (RawPP α)) (cpp : List α) :
    (populateLoop l cpp).2 = cpp ++ l.map (·.id) := by
  induction l generalizing cpp with
  | nil => simp [populateLoop]
  | cons p rest ih => simp [populateLoop, ih, List.append_assoc]

/-- every entry of the result: a non-lazy processor, with the processors ahead of it (behind what was registered before) -/
theorem populateLoop_mem (l : List (RawPP α)) (cpp : List α) (h : α) (c : List α) :
    (h, c) ∈ (populateLoop l cpp).1 ↔
      ∃ pre p post, l = pre ++ p :: post ∧ p.id = h ∧ p.lazy = false ∧ c = cpp ++ pre.map (·.id) := by
  induction l generalizing cpp with
  | nil => simp [populateLoop]
  | cons q rest ih =>
    simp only [populateLoop]
    constructor
    · intro hm
      have hrest : (h, c) ∈ (populateLoop rest (cpp ++ [q.id])).1 →
          ∃ pre p post, q :: rest = pre ++ p :: post ∧ p.id = h ∧ p.lazy = false ∧ c = cpp ++ pre.map (·.id) := by
        intro hr
        obtain ⟨pre, p, post, hl, hid, hlz, hc⟩ := (ih (cpp ++ [q.id])).1 hr
        exact ⟨q :: pre, p, post, by simp [hl], hid, hlz, by simp [hc, List.append_assoc]⟩
      cases hq : q.lazy with
      | true => simp only [hq, if_true] at hm; exact hrest hm
      | false =>
        simp only [hq, Bool.false_eq_true, if_false, List.mem_cons] at hm
        rcases hm with hm | hm
        · simp only [Prod.mk.injEq] at hm
          exact ⟨[], q, rest, rfl, hm.1.symm, hq, by simp [hm.2]⟩
        · exact hrest hm
    · rintro ⟨pre, p, post, hl, hid, hlz, hc⟩
      cases pre with
      | nil =>
        simp only [List.nil_append, List.cons.injEq] at hl
        obtain ⟨rfl, rfl⟩ := hl
        simp [hlz, hid, hc]
      | cons q' pre' =>
        simp only [List.cons_append, List.cons.injEq] at hl
        obtain ⟨rfl, rfl⟩ := hl
        have : (h, c) ∈ (populateLoop (pre' ++ p :: post) (cpp ++ [q.id])).1 :=
          (ih (cpp ++ [q.id])).2 ⟨pre', p, post, rfl, hid, hlz, by simp [hc, List.append_assoc]⟩
        cases hq : q.lazy <;> simp [this]

/-- the first entry for `h`: nothing ahead of it carries the same identity -/
theorem populatedBy_split [DecidableEq α] (pre post : List (RawPP α)) (p : RawPP α) (cpp : List α)
    (hlz : p.lazy = false) (hpre : ∀ q ∈ pre, q.id ≠ p.id) :
    populatedBy (pre ++ p :: post) cpp p.id = some (cpp ++ pre.map (·.id)) := by
  induction pre generalizing cpp with
  | nil => simp [populatedBy, populateLoop, hlz]
  | cons q pre' ih =>
    have hq : q.id ≠ p.id := hpre q (by simp)
    have ih' := ih (cpp ++ [q.id]) (fun r hr => hpre r (by simp [hr]))
    simp only [populatedBy] at ih' ⊢
    simp only [List.cons_append, populateLoop]
    cases hl : q.lazy with
    | true => simpa [List.append_assoc] using ih'
    | false =>
      simp only [Bool.false_eq_true, if_false, List.find?_cons]
      have : (decide (q.id = p.id)) = false := by simpa using hq
      simp only [this]
      simpa [List.append_assoc] using ih'

/-- a lazy processor (or a stranger) is never populated by the loop -/
theorem populatedBy_none [DecidableEq α] (l : List (RawPP α)) (cpp : List α) (h : α)
    (hl : ∀ p ∈ l, p.id = h → p.lazy = true) : populatedBy l cpp h = none := by
  simp only [populatedBy, Option.map_eq_none_iff, List.find?_eq_none]
  intro e he
  obtain ⟨pre, p, post, hsplit, hid, hlz, _⟩ := (populateLoop_mem l cpp e.1 e.2).1 (by simpa using he)
  have := hl p (by simp [hsplit])
  intro heq
  have : p.lazy = true := this (by simpa [hid] using heq)
  simp [this] at hlz

/-! ### the ordering contract puts a holder that nothing may follow last -/

open Ioc.Order in
/-- `h` is an element of `l` that the contract allows ahead of no other element ⇒ the sorted list ends with it -/
theorem sortOrdered_last {part : α → Order.Part} {sort : (α → α → Bool) → List α → List α}
    (hs : Order.SortSpec part sort) (l : List α) (hn : l.Nodup) (h : α) (hh : h ∈ l)
    (hlast : ∀ y ∈ l, y ≠ h → ¬ Order.Precedes part h y) :
    ∃ pre, Order.sortOrdered sort part l = pre ++ [h] ∧ ∀ y ∈ l, y ≠ h → y ∈ pre := by
  have hperm := Order.sortOrdered_perm hs l
  have hpw := Order.sortOrdered_pairwise hs l
  have hmem : h ∈ Order.sortOrdered sort part l := hperm.mem_iff.2 hh
  obtain ⟨a, b, hab⟩ := List.append_of_mem hmem
  have hnd : (Order.sortOrdered sort part l).Nodup := hperm.nodup_iff.2 hn
  rw [hab] at hpw hnd hperm
  have hb : b = [] := by
    cases b with
    | nil => rfl
    | cons y b' =>
      exfalso
      have hy : y ∈ l := hperm.mem_iff.1 (by simp)
      have hne : y ≠ h := by
        intro e
        have := (List.nodup_append.1 hnd).2.1
        simp [e] at this
      have hp : Order.Precedes part h y := by
        have := (List.pairwise_append.1 hpw).2.1
        exact (List.pairwise_cons.1 this).1 y (by simp)
      exact hlast y hy hne hp
  subst hb
  refine ⟨a, hab, ?_⟩
  intro y hy hne
  have : y ∈ a ++ [h] := hperm.mem_iff.2 hy
  simpa [hne] using this

end Ioc.Scan
