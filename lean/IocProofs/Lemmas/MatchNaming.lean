/-
  Lemmas about Ioc.Naming: the registry never holds a name twice and keeps the first object registered under a name;
  and the local step facts of the factory machine (Ioc.Container) for a point with an unassignable candidate.
-/
import Ioc.Naming
import Ioc.Container
namespace Ioc.Naming
open Ioc

theorem alookup_append {κ ν : Type} [DecidableEq κ] (k : κ) (l m : List (κ × ν)) :
    alookup k (l ++ m) = match alookup k l with
      | some v => some v
      | none => alookup k m := by
  induction l with
  | nil => rfl
  | cons p rest ih =>
    obtain ⟨k', v'⟩ := p
    simp only [List.cons_append, alookup]
    split
    · rfl
    · exact ih

theorem alookup_none_not_mem {κ ν : Type} [DecidableEq κ] (k : κ) (l : List (κ × ν)) (h : alookup k l = none) :
    k ∉ l.map (·.1) := by
  induction l with
  | nil => simp
  | cons p rest ih =>
    obtain ⟨k', v'⟩ := p
    simp only [alookup] at h
    split at h
    · cases h
    · rename_i hne
      simp only [List.map_cons, List.mem_cons, not_or]
      exact ⟨fun e => hne e.symm, ih h⟩

/-- one attempt: the registry is unchanged, or the name was free and is appended -/
theorem attempt_cases (reg : List (Bytes × Nat)) (op : Bytes × Nat) :
    (attempt reg op = reg ∧ (alookup op.1 reg).isSome) ∨
    (attempt reg op = reg ++ [(op.1, op.2)] ∧ alookup op.1 reg = none) := by
  unfold attempt register
  cases h : alookup op.1 reg with
  | none => right; exact ⟨rfl, rfl⟩
  | some e =>
    left
    simp only
    by_cases he : e = op.2
    · rw [if_pos he]; exact ⟨rfl, rfl⟩
    · rw [if_neg he]; exact ⟨rfl, rfl⟩

theorem registerAll_cons (reg : List (Bytes × Nat)) (op : Bytes × Nat) (rest : List (Bytes × Nat)) :
    registerAll reg (op :: rest) = registerAll (attempt reg op) rest := rfl

theorem registerAll_nodup (reg : List (Bytes × Nat)) (ops : List (Bytes × Nat)) (h : (reg.map (·.1)).Nodup) :
    ((registerAll reg ops).map (·.1)).Nodup := by
  induction ops generalizing reg with
  | nil => exact h
  | cons op rest ih =>
    rw [registerAll_cons]
    apply ih
    rcases attempt_cases reg op with ⟨e, _⟩ | ⟨e, hn⟩
    · rw [e]; exact h
    · rw [e, List.map_append, List.nodup_append]
      refine ⟨h, by simp, ?_⟩
      intro a ha b hb
      simp only [List.map_cons, List.map_nil, List.mem_singleton] at hb
      subst hb
      intro e2; subst e2
      exact alookup_none_not_mem _ reg hn ha

theorem registerAll_lookup (reg : List (Bytes × Nat)) (ops : List (Bytes × Nat)) (k : Bytes) :
    lookup (registerAll reg ops) k = match lookup reg k with
      | some o => some o
      | none => (ops.find? (fun op => op.1 == k)).map (·.2) := by
  induction ops generalizing reg with
  | nil =>
    simp only [registerAll, List.foldl_nil, List.find?_nil, Option.map_none]
    cases lookup reg k <;> rfl
  | cons op rest ih =>
    rw [registerAll_cons, ih]
    rcases attempt_cases reg op with ⟨e, hs⟩ | ⟨e, hn⟩
    · rw [e]
      cases hl : lookup reg k with
      | some o => rfl
      | none =>
        simp only
        have hne : (op.1 == k) = false := by
          apply Bool.eq_false_iff.mpr
          intro heq
          have : op.1 = k := by simpa using heq
          rw [this] at hs
          unfold lookup at hl
          rw [hl] at hs; cases hs
        rw [List.find?_cons, hne]
    · rw [e]
      unfold lookup
      rw [alookup_append]
      cases hl : alookup k reg with
      | some o => rfl
      | none =>
        simp only [alookup]
        by_cases hk : op.1 = k
        · simp [hk]
        · simp [hk]

end Ioc.Naming

namespace Ioc.M2

/-- Inject on a point whose collected objects include one that is not assignable to the field: a required point
    fails the creation (an error, the stack is unwound), an optional point leaves the field as it was and goes on. -/
theorem step_incompat (sc : Scen) (st : St) (f : Frame) (rest : List Frame)
    (hrun : st.status = .running) (hst : st.stack = f :: rest)
    (hp : f.p < (pts sc f.name).length)
    (hd : ¬ f.d < ((pts sc f.name)[f.p]).cands.length)
    (hc : ((pts sc f.name)[f.p]).cands ≠ [])
    (hm : f.acc.filter (fun o => o.name != f.name) ≠ [])
    (hi : (f.acc.filter (fun o => o.name != f.name)).any
            (fun o => ((pts sc f.name)[f.p]).incompat.contains o.name) = true) :
    (((pts sc f.name)[f.p]).required = true → (step sc st).status = .failed f.name st.stage) ∧
    (((pts sc f.name)[f.p]).required = false →
        (step sc st).fields = st.fields ∧ (step sc st).status = .running ∧
        (step sc st).stack = { f with p := f.p + 1, d := 0, acc := [] } :: rest) := by
  have hc' : ((pts sc f.name)[f.p]).cands.isEmpty = false := by
    cases h : ((pts sc f.name)[f.p]).cands with
    | nil => exact absurd h hc
    | cons a t => rfl
  have hm' : (f.acc.filter (fun o => o.name != f.name)).isEmpty = false := by
    cases h : f.acc.filter (fun o => o.name != f.name) with
    | nil => exact absurd h hm
    | cons a t => rfl
  unfold step
  rw [hrun]
  simp only [hst]
  rw [dif_pos hp, dif_neg hd]
  simp only [hc', hm', hi, Bool.false_eq_true, if_false, if_true]
  constructor
  · intro hr
    rw [hr]
    simp [failAt]
  · intro hr
    rw [hr]
    simp

end Ioc.M2
