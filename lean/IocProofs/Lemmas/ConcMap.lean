/-
  Lemmas about the sync2.Map / ConcurrentSets model of Ioc.Conc: the linearization-point criterion `Good`
  (every step of a call is silent, except one that takes the whole effect of the specification and fixes
  the result), its consequence for every concurrent history (`run_explained`), the one-winner property of
  sequential LoadOrStoreFn histories, regularity of Range, and a replay function for counterexamples.
-/
import Ioc.Conc

namespace Ioc.Conc

/-- Linearization-point criterion for a method under the programs `progs`: from every position of its program a step
    either leaves the map untouched and stays inside the program, or returns — and then map and result are exactly
    what the sequential specification gives on the map at that very step. -/
def Good (progs : Op → List Instr) (op : Op) : Prop :=
  0 < (progs op).length ∧
  ∀ (m : MapSt) (c : CallSt), c.op = op → c.res = none → c.pc < (progs op).length →
    (stepCall progs m c).2.op = op ∧
    match (stepCall progs m c).2.res with
    | some r => op.spec m = ((stepCall progs m c).1, r)
    | none => (stepCall progs m c).1 = m ∧ (stepCall progs m c).2.pc < (progs op).length

/-- methods that are a single sync.Map primitive -/
def Op.single : Op → Bool
  | .load _ | .store _ _ | .loadOrStore _ _ | .delete _ | .put _ | .exists_ _ | .remove _ => true
  | _ => false

theorem good_single (op : Op) (h : op.single = true) : Good expectedProgs op := by
  refine ⟨by cases op <;> simp [expectedProgs, Op.single] at h ⊢, ?_⟩
  intro m c hop hres hpc
  obtain ⟨cop, pc, seen, todo, res⟩ := c
  simp only at hop hres hpc
  subst hop hres
  cases cop with
  | load k =>
    have : pc = 0 := by simp [expectedProgs] at hpc; omega
    subst this
    simp [stepCall, expectedProgs, exec1, CallSt.ret, Op.spec, Op.key]
  | store k v =>
    have : pc = 0 := by simp [expectedProgs] at hpc; omega
    subst this
    simp [stepCall, expectedProgs, exec1, CallSt.ret, CallSt.next, Op.spec, Op.key, Op.val]
  | loadOrStore k v =>
    have : pc = 0 := by simp [expectedProgs] at hpc; omega
    subst this
    cases hm : m k <;> simp [stepCall, expectedProgs, exec1, CallSt.ret, Op.spec, Op.key, Op.val, hm]
  | delete k =>
    have : pc = 0 := by simp [expectedProgs] at hpc; omega
    subst this
    simp [stepCall, expectedProgs, exec1, CallSt.ret, CallSt.next, Op.spec, Op.key]
  | put k =>
    have : pc = 0 := by simp [expectedProgs] at hpc; omega
    subst this
    simp [stepCall, expectedProgs, exec1, CallSt.ret, CallSt.next, Op.spec, Op.key, Op.val]
  | exists_ k =>
    have : pc = 0 := by simp [expectedProgs] at hpc; omega
    subst this
    simp [stepCall, expectedProgs, exec1, CallSt.ret, Op.spec]
  | remove k =>
    have : pc = 0 := by simp [expectedProgs] at hpc; omega
    subst this
    simp [stepCall, expectedProgs, exec1, CallSt.ret, CallSt.next, Op.spec, Op.key]
  | loadOrStoreFn k v => simp [Op.single] at h
  | range ks => simp [Op.single] at h

/-- the repaired LoadOrStoreFn [Load, f, LoadOrStore]: linearization point = the Load when it hits, else the LoadOrStore -/
theorem good_lofn (k v : Nat) : Good expectedProgs (.loadOrStoreFn k v) := by
  refine ⟨by simp [expectedProgs], ?_⟩
  intro m c hop hres hpc
  obtain ⟨cop, pc, seen, todo, res⟩ := c
  simp only at hop hres hpc
  subst hop hres
  simp [expectedProgs] at hpc
  have : pc = 0 ∨ pc = 1 ∨ pc = 2 := by omega
  rcases this with rfl | rfl | rfl
  · cases hm : m k <;> simp [stepCall, expectedProgs, exec1, CallSt.ret, CallSt.next, Op.spec, hm]
  · simp [stepCall, expectedProgs, exec1, CallSt.next]
  · cases hm : m k <;> simp [stepCall, expectedProgs, exec1, CallSt.ret, Op.spec, Op.key, Op.val, hm]

/-! ### every concurrent history of Good methods is explained by the order of the linearization points -/

structure LInv (progs : Op → List Instr) (m0 : MapSt) (s : Sys) : Prop where
  expl : Explains m0 s.hist s.map
  pend : ∀ t c, s.cur t = some c → Good progs c.op ∧ c.res = none ∧ c.pc < (progs c.op).length
  que : ∀ t op, op ∈ s.queue t → Good progs op

theorem linv_tstep {progs : Op → List Instr} {m0 : MapSt} {s : Sys} (h : LInv progs m0 s) (t : Nat) :
    LInv progs m0 (tstep progs s t) := by
  unfold tstep
  split
  · rename_i hcur
    split
    · exact h
    · rename_i op r hq
      have hgood : Good progs op := h.que t op (by rw [hq]; simp)
      refine ⟨h.expl, ?_, ?_⟩
      · intro t' c hc
        simp only [upd] at hc
        split at hc
        · cases hc; exact ⟨hgood, rfl, hgood.1⟩
        · exact h.pend t' c hc
      · intro t' op' hmem
        simp only [upd] at hmem
        split at hmem
        · rename_i heq; subst heq; exact h.que t' op' (by rw [hq]; simp [hmem])
        · exact h.que t' op' hmem
  · rename_i c hcur
    obtain ⟨hgood, hres, hpc⟩ := h.pend t c hcur
    obtain ⟨hop, hmatch⟩ := hgood.2 s.map c rfl hres hpc
    dsimp only
    split
    · rename_i res hr
      rw [hr] at hmatch
      simp only at hmatch
      refine ⟨⟨s.map, h.expl, hmatch⟩, ?_, h.que⟩
      intro t' c' hc
      simp only [upd] at hc
      split at hc
      · cases hc
      · exact h.pend t' c' hc
    · rename_i hr
      rw [hr] at hmatch
      simp only at hmatch
      refine ⟨by simp only; rw [hmatch.1]; exact h.expl, ?_, h.que⟩
      intro t' c' hc
      simp only [upd] at hc
      split at hc
      · cases hc
        rw [hop]; exact ⟨hgood, hr, hmatch.2⟩
      · exact h.pend t' c' hc

theorem linv_run {progs : Op → List Instr} {m0 : MapSt} (sched : List Nat) :
    ∀ {s : Sys}, LInv progs m0 s → LInv progs m0 (run progs s sched) := by
  induction sched with
  | nil => intro s h; exact h
  | cons t r ih => intro s h; exact ih (linv_tstep h t)

/-- For every number of threads, every queue of Good calls per thread, every schedule: the completed calls, in the
    order of their linearization points, are a legal sequential history that ends in the current map. -/
theorem run_explained (progs : Op → List Instr) (m0 : MapSt) (queue : Nat → List Op)
    (hq : ∀ t op, op ∈ queue t → Good progs op) (sched : List Nat) :
    Explains m0 (run progs (Sys.start m0 queue) sched).hist (run progs (Sys.start m0 queue) sched).map :=
  (linv_run sched (s := Sys.start m0 queue) ⟨rfl, by intro t c hc; simp [Sys.start] at hc, hq⟩).expl

/-! ### sequential histories of LoadOrStoreFn on one key have at most one winner -/

theorem seq_one_winner (k : Nat) (m0 : MapSt) :
    ∀ (h : List (Nat × Op × Res)) (m : MapSt), Explains m0 h m →
      (∀ e, e ∈ h → ∃ v, e.2.1 = .loadOrStoreFn k v) →
      (h.filter isWin).length ≤ 1 ∧ ((h.filter isWin).length = 1 → m k ≠ none) ∧ (m0 k ≠ none → m k ≠ none) := by
  intro h
  induction h with
  | nil =>
    intro m he _
    simp only [Explains] at he
    subst he
    simp
  | cons e older ih =>
    intro m he hall
    obtain ⟨t, op, r⟩ := e
    obtain ⟨m1, hold, hspec⟩ := he
    obtain ⟨v, hv⟩ := hall (t, op, r) (by simp)
    simp only at hv
    subst hv
    obtain ⟨ih1, ih2, ih3⟩ := ih m1 hold (fun e he => hall e (by simp [he]))
    simp only [Op.spec] at hspec
    cases hm : m1 k with
    | some w =>
      rw [hm] at hspec
      simp only [Prod.mk.injEq] at hspec
      obtain ⟨rfl, rfl⟩ := hspec
      simp only [List.filter, isWin]
      exact ⟨ih1, fun _ => by rw [hm]; simp, fun _ => by rw [hm]; simp⟩
    | none =>
      rw [hm] at hspec
      simp only [Prod.mk.injEq] at hspec
      obtain ⟨rfl, rfl⟩ := hspec
      have h0 : (older.filter isWin).length = 0 := by
        by_cases hc : (older.filter isWin).length = 1
        · exact absurd hm (ih2 hc)
        · omega
      simp only [List.filter, isWin, List.length_cons, h0]
      exact ⟨by omega, fun _ => by simp [upd], fun _ => by simp [upd]⟩

/-! ### Range is regular: it reports only bindings that were in the map at some point while it ran -/

structure RInv (H : List MapSt) (s : Sys) : Prop where
  cur : s.map ∈ H
  pend : ∀ t c, s.cur t = some c → c.res = none ∧ ∀ kv, kv ∈ c.seen → ∃ m, m ∈ H ∧ m kv.1 = some kv.2
  done : ∀ e, e ∈ s.hist → ∀ l, e.2.2 = .seen l → ∀ kv, kv ∈ l → ∃ m, m ∈ H ∧ m kv.1 = some kv.2

theorem RInv.mono {H H' : List MapSt} {s : Sys} (h : RInv H s) (hsub : ∀ m, m ∈ H → m ∈ H') : RInv H' s :=
  ⟨hsub _ h.cur,
   fun t c hc => ⟨(h.pend t c hc).1, fun kv hkv => let ⟨m, hm, hv⟩ := (h.pend t c hc).2 kv hkv; ⟨m, hsub m hm, hv⟩⟩,
   fun e he l hl kv hkv => let ⟨m, hm, hv⟩ := h.done e he l hl kv hkv; ⟨m, hsub m hm, hv⟩⟩

theorem exec1_seen (ins : Instr) (m : MapSt) (c : CallSt) (hres : c.res = none) :
    (∀ kv, kv ∈ (exec1 ins m c).2.seen → kv ∈ c.seen ∨ m kv.1 = some kv.2) ∧
    (∀ l, (exec1 ins m c).2.res = some (.seen l) → l = (exec1 ins m c).2.seen) := by
  obtain ⟨cop, pc, seen, todo, res⟩ := c
  simp only at hres
  subst hres
  cases ins with
  | pRange =>
    cases todo with
    | nil =>
      have e : exec1 .pRange m ⟨cop, pc, seen, [], none⟩ = (m, ⟨cop, pc, seen, [], some (.seen seen)⟩) := rfl
      rw [e]
      exact ⟨fun kv h => Or.inl h, fun l hl => by cases hl; rfl⟩
    | cons k r =>
      have hextra : ∀ kv, kv ∈ (match m k with | some w => [(k, w)] | none => []) → m kv.1 = some kv.2 := by
        intro kv hkv
        cases hm : m k with
        | none => rw [hm] at hkv; simp at hkv
        | some w => rw [hm] at hkv; simp at hkv; subst hkv; exact hm
      cases r with
      | nil =>
        have e : exec1 .pRange m ⟨cop, pc, seen, [k], none⟩ =
            (m, ⟨cop, pc, seen ++ (match m k with | some w => [(k, w)] | none => []), [],
                 some (.seen (seen ++ (match m k with | some w => [(k, w)] | none => [])))⟩) := rfl
        rw [e]
        refine ⟨fun kv h => ?_, fun l hl => by cases hl; rfl⟩
        rcases List.mem_append.mp h with h | h
        · exact Or.inl h
        · exact Or.inr (hextra kv h)
      | cons k2 r2 =>
        have e : exec1 .pRange m ⟨cop, pc, seen, k :: k2 :: r2, none⟩ =
            (m, ⟨cop, pc, seen ++ (match m k with | some w => [(k, w)] | none => []), k2 :: r2, none⟩) := rfl
        rw [e]
        refine ⟨fun kv h => ?_, fun l hl => by cases hl⟩
        rcases List.mem_append.mp h with h | h
        · exact Or.inl h
        · exact Or.inr (hextra kv h)
  | pLoad =>
    simp only [exec1]
    repeat' split
    all_goals exact ⟨fun kv h => Or.inl h, fun l hl => by simp [CallSt.ret, CallSt.next] at hl⟩
  | pStore =>
    simp only [exec1]
    repeat' split
    all_goals exact ⟨fun kv h => Or.inl h, fun l hl => by simp [CallSt.ret, CallSt.next] at hl⟩
  | pLoadOrStore =>
    simp only [exec1]
    repeat' split
    all_goals exact ⟨fun kv h => Or.inl h, fun l hl => by simp [CallSt.ret] at hl⟩
  | pDelete => exact ⟨fun kv h => Or.inl h, fun l hl => by simp [exec1, CallSt.next] at hl⟩
  | callF => exact ⟨fun kv h => Or.inl h, fun l hl => by simp [exec1, CallSt.next] at hl⟩
  | other n => exact ⟨fun kv h => Or.inl h, fun l hl => by simp [exec1, CallSt.next] at hl⟩

theorem stepCall_seen (progs : Op → List Instr) (m : MapSt) (c : CallSt) (hres : c.res = none) :
    (∀ kv, kv ∈ (stepCall progs m c).2.seen → kv ∈ c.seen ∨ m kv.1 = some kv.2) ∧
    (∀ l, (stepCall progs m c).2.res = some (.seen l) → l = (stepCall progs m c).2.seen) := by
  unfold stepCall
  split
  · exact ⟨fun kv h => Or.inl h, fun l hl => by simp [CallSt.ret] at hl⟩
  · rename_i ins _
    obtain ⟨h1, h2⟩ := exec1_seen ins m c hres
    dsimp only
    split
    · exact ⟨h1, fun l hl => by simp [CallSt.ret] at hl⟩
    · exact ⟨h1, h2⟩

theorem rinv_tstep {progs : Op → List Instr} {H : List MapSt} {s : Sys} (h : RInv H s) (t : Nat) :
    RInv (H ++ [(tstep progs s t).map]) (tstep progs s t) := by
  have hsub : ∀ m, m ∈ H → m ∈ H ++ [(tstep progs s t).map] := fun m hm => by simp [hm]
  have hlast : (tstep progs s t).map ∈ H ++ [(tstep progs s t).map] := by simp
  refine ⟨hlast, ?_, ?_⟩
  · intro t' c' hc
    unfold tstep at hc
    split at hc
    · split at hc
      · exact ((h.mono hsub).pend t' c' hc)
      · simp only [upd] at hc
        split at hc
        · cases hc; exact ⟨rfl, by intro kv hkv; simp [invoke] at hkv⟩
        · exact ((h.mono hsub).pend t' c' hc)
    · rename_i c hcur
      obtain ⟨hres, hseen⟩ := h.pend t c hcur
      obtain ⟨h1, _⟩ := stepCall_seen progs s.map c hres
      dsimp only at hc
      split at hc
      · simp only [upd] at hc
        split at hc
        · cases hc
        · exact ((h.mono hsub).pend t' c' hc)
      · rename_i hr
        simp only [upd] at hc
        split at hc
        · cases hc
          refine ⟨hr, ?_⟩
          intro kv hkv
          rcases h1 kv hkv with hold | hnew
          · obtain ⟨m, hm, hv⟩ := hseen kv hold; exact ⟨m, hsub m hm, hv⟩
          · exact ⟨s.map, hsub _ h.cur, hnew⟩
        · exact ((h.mono hsub).pend t' c' hc)
  · intro e he l hl kv hkv
    unfold tstep at he
    split at he
    · split at he
      · exact (h.mono hsub).done e he l hl kv hkv
      · exact (h.mono hsub).done e he l hl kv hkv
    · rename_i c hcur
      obtain ⟨hres, hseen⟩ := h.pend t c hcur
      obtain ⟨h1, h2⟩ := stepCall_seen progs s.map c hres
      dsimp only at he
      split at he
      · rename_i res hr
        simp only [List.mem_cons] at he
        rcases he with rfl | he
        · simp only at hl
          subst hl
          have := h2 l hr
          subst this
          rcases h1 kv hkv with hold | hnew
          · obtain ⟨m, hm, hv⟩ := hseen kv hold; exact ⟨m, hsub m hm, hv⟩
          · exact ⟨s.map, hsub _ h.cur, hnew⟩
        · exact (h.mono hsub).done e he l hl kv hkv
      · exact (h.mono hsub).done e he l hl kv hkv

theorem head_mem_mapsAlong (progs : Op → List Instr) (s : Sys) (sched : List Nat) : s.map ∈ mapsAlong progs s sched := by
  cases sched <;> simp [mapsAlong]

theorem rinv_run (progs : Op → List Instr) (sched : List Nat) :
    ∀ (s : Sys) (H : List MapSt), RInv H s → RInv (H ++ mapsAlong progs s sched) (run progs s sched) := by
  induction sched with
  | nil => intro s H h; exact h.mono (fun m hm => by simp [hm])
  | cons t r ih =>
    intro s H h
    have h1 := ih (tstep progs s t) _ (rinv_tstep (progs := progs) h t)
    refine h1.mono ?_
    intro m hm
    simp only [List.mem_append, mapsAlong, List.mem_cons, List.not_mem_nil, or_false] at hm ⊢
    rcases hm with (hm | hm) | hm
    · exact Or.inl hm
    · subst hm; exact Or.inr (Or.inr (head_mem_mapsAlong progs _ r))
    · exact Or.inr (Or.inr hm)

/-! ### replaying a candidate sequential history (for counterexamples) -/

/-- the map after the history (newest first), or none when a recorded result is not the specification's -/
def replay (m0 : MapSt) : List (Nat × Op × Res) → Option MapSt
  | [] => some m0
  | (_, op, r) :: older =>
    match replay m0 older with
    | some m1 => if (op.spec m1).2 = r then some (op.spec m1).1 else none
    | none => none

theorem replay_of_explains (m0 : MapSt) : ∀ (h : List (Nat × Op × Res)) (m : MapSt), Explains m0 h m → replay m0 h = some m := by
  intro h
  induction h with
  | nil => intro m he; simp only [Explains] at he; subst he; rfl
  | cons e older ih =>
    intro m he
    obtain ⟨t, op, r⟩ := e
    obtain ⟨m1, hold, hspec⟩ := he
    simp only [replay, ih m1 hold, hspec, if_true]

end Ioc.Conc
