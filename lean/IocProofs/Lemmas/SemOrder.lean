/-
  The regenerated programs of util/framework_helper/order_component.go compute the ordering model M4:
  SortOrderedComponents = Order.sortOrdered (for every sort function), orderedComponentComparator = Order.less?.
-/
import Ioc.SemOrder
import IocProofs.Lemmas.GoTactics
namespace Ioc.Sem
open Ioc Ioc.Go Ioc.Order


/-- orderedComponentComparator: `Order() < Order()`; a participant without Order() makes it panic (`less?`) -/
theorem comparator_sem (part : Nat → Part) (i j : Nat) :
    run (cmpPrims part) Progs.orderedComponentComparator [.ref i 0, .ref j 0] () =
      (less? part i j).map (fun b => (.bool b, ())) := by
  unfold less?
  cases hi : (part i).order? <;> cases hj : (part j).order? <;>
    go_simp [Progs.orderedComponentComparator, cmpPrims, cmpFn, hi, hj]

theorem decList_map (l : List Nat) : decList (l.map encR) = some l := by
  induction l with
  | nil => rfl
  | cons a t ih => simp [decList, List.mapM_cons, decR, encR] at ih ⊢; rw [ih]; rfl


def soStmt (i : Nat) : Stmt := Progs.sortOrderedComponents.body.getD i .brk
theorem so_body : Progs.sortOrderedComponents.body =
    [soStmt 0, soStmt 1, soStmt 2, soStmt 3, soStmt 4, soStmt 5, soStmt 6, soStmt 7, soStmt 8, soStmt 9, soStmt 10] := rfl
theorem so_params : Progs.sortOrderedComponents.params = ["components"] := rfl

def envS (l : List Nat) (ord p o n : Val) : Env :=
  [("noneOrderedComponents", n), ("orderedComponents", o), ("priorityOrderedComponents", p), ("ordered", ord),
   ("components", .list (l.map encR))]

theorem so_init (sort) (part : Nat → Part) (l : List Nat) :
    evalB (sortPrims sort part) [("components", .list (l.map encR))] () [soStmt 0, soStmt 1, soStmt 2, soStmt 3] =
      some (envS l (.list []) (encSlice []) (encSlice []) (encSlice []), (), .norm) := by
  go_simp [soStmt, Progs.sortOrderedComponents, envS, encSlice]

theorem encSlice_snoc (a : List Nat) (x : Nat) : encSlice (a ++ [x]) = .list (a.map encR ++ [encR x]) := by
  unfold encSlice
  cases a <;> simp

/-- the partition loop: three accumulators, extended at their ends -/
theorem loopM_partition (part : Nat → Part) (f : Nat → Val → Env → Unit → Option (Env × Unit × Ctl)) (l0 : List Nat) (ord : Val)
    (hf : ∀ i x p o n, f i (encR x) (envS l0 ord (encSlice p) (encSlice o) (encSlice n)) () =
      some ((match (part x).cls with
        | .prio => envS l0 ord (encSlice (p ++ [x])) (encSlice o) (encSlice n)
        | .ord => envS l0 ord (encSlice p) (encSlice (o ++ [x])) (encSlice n)
        | .plain => envS l0 ord (encSlice p) (encSlice o) (encSlice (n ++ [x]))), (), .norm)) :
    ∀ (l : List Nat) (i : Nat) (p o n : List Nat),
      loopM f i (l.map encR) (envS l0 ord (encSlice p) (encSlice o) (encSlice n)) () =
        some (envS l0 ord (encSlice (partitionLoop part l (p, o, n)).1) (encSlice (partitionLoop part l (p, o, n)).2.1)
                (encSlice (partitionLoop part l (p, o, n)).2.2), (), .norm) := by
  intro l
  induction l with
  | nil => intro i p o n; simp [loopM, partitionLoop]
  | cons x xs ih =>
    intro i p o n
    simp only [List.map_cons, loopM, hf, partitionLoop]
    cases (part x).cls <;> simp only [] <;> rw [ih]

theorem so_s4 (sort) (part : Nat → Part) (l : List Nat) :
    evalS (sortPrims sort part) (envS l (.list []) (encSlice []) (encSlice []) (encSlice [])) () (soStmt 4) =
      some (envS l (.list []) (encSlice (partitionLoop part l ([], [], [])).1) (encSlice (partitionLoop part l ([], [], [])).2.1)
                (encSlice (partitionLoop part l ([], [], [])).2.2), (), .norm) := by
  simp only [soStmt, Progs.sortOrderedComponents, List.getD_cons_succ, List.getD_cons_zero, evalS]
  have hcoll : evalE (sortPrims sort part) (envS l (.list []) (encSlice []) (encSlice []) (encSlice [])) () (.var "components") =
      some (.list (l.map encR), ()) := by go_simp [envS]
  rw [hcoll]
  simp only []
  rw [loopM_partition part _ l (.list []) (by
    intro i x p o n
    have hb1 : (Cls.ord == Cls.prio) = false := by decide
    have hb2 : (Cls.prio == Cls.prio) = true := by decide
    cases ho : (part x).order? with
    | none =>
      have hc : (part x).cls = .plain := by cases hp : part x <;> simp_all [Part.order?, Part.cls]
      cases n <;> go_simp [sortPrims, sortFn, envS, encR, ho, hc, encSlice]
    | some k =>
      cases hc : (part x).cls with
      | plain => cases hp : part x <;> simp_all [Part.order?, Part.cls]
      | prio => cases p <;> go_simp [sortPrims, sortFn, envS, encR, ho, hc, encSlice, hb1, hb2]
      | ord => cases o <;> go_simp [sortPrims, sortFn, envS, encR, ho, hc, encSlice, hb1, hb2]) l 0 [] [] []]

/-- result of sorting a bucket variable, as a value: nil stays nil -/
def sortedVal (sort : (Nat → Nat → Bool) → List Nat → List Nat) (part : Nat → Part) (b : List Nat) : Val :=
  if b.isEmpty then .nil else .list ((sort (less part) b).map encR)

theorem so_s5 (sort) (part : Nat → Part) (l p o n : List Nat) (ord : Val) :
    evalS (sortPrims sort part) (envS l ord (encSlice p) (encSlice o) (encSlice n)) () (soStmt 5) =
      some (envS l ord (sortedVal sort part p) (encSlice o) (encSlice n), (), .norm) := by
  cases p with
  | nil => go_simp [soStmt, Progs.sortOrderedComponents, sortPrims, sortFn, envS, encSlice, sortedVal]
  | cons a t =>
    have hd := decList_map (a :: t)
    simp only [List.map_cons] at hd
    go_simp [soStmt, Progs.sortOrderedComponents, sortPrims, sortFn, envS, encSlice, sortedVal, hd]

theorem so_s6 (sort) (part : Nat → Part) (l o n : List Nat) (ord pv : Val) :
    evalS (sortPrims sort part) (envS l ord pv (encSlice o) (encSlice n)) () (soStmt 6) =
      some (envS l ord pv (sortedVal sort part o) (encSlice n), (), .norm) := by
  cases o with
  | nil => go_simp [soStmt, Progs.sortOrderedComponents, sortPrims, sortFn, envS, encSlice, sortedVal]
  | cons a t =>
    have hd := decList_map (a :: t)
    simp only [List.map_cons] at hd
    go_simp [soStmt, Progs.sortOrderedComponents, sortPrims, sortFn, envS, encSlice, sortedVal, hd]

/-- `ordered = append(ordered, bucket...)` for a bucket value that is nil or a list -/
def appendVal (acc : List Val) : Val → List Val
  | .list b => acc ++ b
  | _ => acc

theorem sortedVal_cases (sort) (part : Nat → Part) (b : List Nat) :
    sortedVal sort part b = .nil ∨ ∃ vs, sortedVal sort part b = .list vs := by
  unfold sortedVal; split
  · exact Or.inl rfl
  · exact Or.inr ⟨_, rfl⟩

theorem encSlice_cases (b : List Nat) : encSlice b = .nil ∨ ∃ vs, encSlice b = .list vs := by
  unfold encSlice; split
  · exact Or.inl rfl
  · exact Or.inr ⟨_, rfl⟩

theorem so_s7 (sort) (part : Nat → Part) (l : List Nat) (acc : List Val) (pv ov nv : Val)
    (hp : pv = .nil ∨ ∃ vs, pv = .list vs) :
    evalS (sortPrims sort part) (envS l (.list acc) pv ov nv) () (soStmt 7) =
      some (envS l (.list (appendVal acc pv)) pv ov nv, (), .norm) := by
  rcases hp with rfl | ⟨vs, rfl⟩ <;>
    go_simp [soStmt, Progs.sortOrderedComponents, sortPrims, sortFn, envS, appendVal]

theorem so_s8 (sort) (part : Nat → Part) (l : List Nat) (acc : List Val) (pv ov nv : Val)
    (hp : ov = .nil ∨ ∃ vs, ov = .list vs) :
    evalS (sortPrims sort part) (envS l (.list acc) pv ov nv) () (soStmt 8) =
      some (envS l (.list (appendVal acc ov)) pv ov nv, (), .norm) := by
  rcases hp with rfl | ⟨vs, rfl⟩ <;>
    go_simp [soStmt, Progs.sortOrderedComponents, sortPrims, sortFn, envS, appendVal]

theorem so_s9 (sort) (part : Nat → Part) (l : List Nat) (acc : List Val) (pv ov nv : Val)
    (hp : nv = .nil ∨ ∃ vs, nv = .list vs) :
    evalS (sortPrims sort part) (envS l (.list acc) pv ov nv) () (soStmt 9) =
      some (envS l (.list (appendVal acc nv)) pv ov nv, (), .norm) := by
  rcases hp with rfl | ⟨vs, rfl⟩ <;>
    go_simp [soStmt, Progs.sortOrderedComponents, sortPrims, sortFn, envS, appendVal]

theorem so_s10 (sort) (part : Nat → Part) (l : List Nat) (ord pv ov nv : Val) :
    evalS (sortPrims sort part) (envS l ord pv ov nv) () (soStmt 10) = some (envS l ord pv ov nv, (), .ret ord) := by
  go_simp [soStmt, Progs.sortOrderedComponents, envS]

theorem appendVal_sorted (sort) (part : Nat → Part) (hnil : sort (less part) [] = []) (acc : List Val) (b : List Nat) :
    appendVal acc (sortedVal sort part b) = acc ++ (sort (less part) b).map encR := by
  unfold sortedVal
  cases b with
  | nil => simp [appendVal, hnil]
  | cons a t => simp [appendVal]

theorem appendVal_enc (acc : List Val) (b : List Nat) : appendVal acc (encSlice b) = acc ++ b.map encR := by
  unfold encSlice
  cases b <;> simp [appendVal]

/-- SortOrderedComponents, regenerated: partition by the two interfaces, sort the first two buckets with the comparator,
    concatenate — `Order.sortOrdered`, for every list, every `part`, every sort function (that returns nothing for nothing) -/
theorem sortOrderedComponents_sem (sort : (Nat → Nat → Bool) → List Nat → List Nat) (part : Nat → Part)
    (hnil : sort (less part) [] = []) (l : List Nat) :
    run (sortPrims sort part) Progs.sortOrderedComponents [.list (l.map encR)] () =
      some (.list ((sortOrdered sort part l).map encR), ()) := by
  simp only [run, so_params, so_body, List.length_cons, List.length_nil, if_true, List.zip_cons_cons, List.zip_nil_right]
  rw [show [soStmt 0, soStmt 1, soStmt 2, soStmt 3, soStmt 4, soStmt 5, soStmt 6, soStmt 7, soStmt 8, soStmt 9, soStmt 10] =
        [soStmt 0, soStmt 1, soStmt 2, soStmt 3] ++ [soStmt 4, soStmt 5, soStmt 6, soStmt 7, soStmt 8, soStmt 9, soStmt 10] from rfl]
  rw [evalB_append, so_init]
  simp only []
  rw [evalB_cons, so_s4]; simp only []
  rw [evalB_cons, so_s5]; simp only []
  rw [evalB_cons, so_s6]; simp only []
  rw [evalB_cons, so_s7 _ _ _ _ _ _ _ (sortedVal_cases sort part _)]; simp only []
  rw [evalB_cons, so_s8 _ _ _ _ _ _ _ (sortedVal_cases sort part _)]; simp only []
  rw [evalB_cons, so_s9 _ _ _ _ _ _ _ (encSlice_cases _)]; simp only []
  rw [evalB_cons, so_s10]
  simp only [appendVal_sorted sort part hnil, appendVal_enc, sortOrdered, List.map_append, List.nil_append]

theorem sort_nil_of_spec (sort : (Nat → Nat → Bool) → List Nat → List Nat) (part : Nat → Part) (h : SortSpec part sort) :
    sort (less part) [] = [] := by
  have := (h []).1
  exact List.perm_nil.mp this

end Ioc.Sem
