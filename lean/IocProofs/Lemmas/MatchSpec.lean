/-
  Lemmas about Ioc.Match: what the discovery stage finds (by type / func tag / by name) and what the
  qualifier filter accepts, in terms of the providers of the population.
-/
import IocProofs.Lemmas.MatchChoice
namespace Ioc.Match
open Ioc Ioc.Tag

/-- a by-type point: the func tag (its value part is the method name), or a wire tag with empty value part -/
def ByType (s : Slot) (v : Bytes) : Prop := s.isFunc = true ∨ v = []

/-- the qualifier rule on a provider: no qualifier argument accepts everybody; otherwise the provider must declare
    a qualifier that is one of the requested items -/
def qualOK (args : Args) (p : Prov) : Bool :=
  match find args kQualifier with
  | none => true
  | some _ => (match p.qual with
      | some q => has args kQualifier [q]
      | none => false)

theorem found_effArgs (s : Slot) (fn : Bytes) (a0 : Args) (p : Prov) : found s fn (effArgs a0) p = found s fn a0 p := by
  simp only [found, methOK_effArgs]

theorem qualOK_effArgs (a0 : Args) (p : Prov) : qualOK (effArgs a0) p = qualOK a0 p := by
  simp only [qualOK, find_effArgs_qual, has_effArgs_qual]

theorem filterMap_id_map_some {α : Type} (g : α → Nat) (l : List α) :
    (l.map (fun p => some (g p))).filterMap id = l.map g := by
  induction l with
  | nil => rfl
  | cons a t ih => simp [ih]

/-- discovery by type: exactly the providers passing the type test (and the method test), in enumeration order -/
theorem discovered_byType (pop : List Prov) (s : Slot) (v : Bytes) (args : Args) (hb : ByType s v) :
    discovered pop s v args = (pop.filter (found s v args)).map (·.id) := by
  unfold discovered found assignable
  cases hf : s.isFunc
  · have hv : v = [] := by
      rcases hb with h | h
      · rw [hf] at h; cases h
      · exact h
    subst hv
    simp only [Bool.false_eq_true, if_false, candidatesWire, List.isEmpty_nil, if_true, Bool.and_true]
    cases typeOption s.kind with
    | none => simp
    | some f => exact filterMap_id_map_some _ _
  · simp only [if_true, candidatesFunc]
    cases typeOption s.kind with
    | none => simp
    | some f =>
      simp only
      rw [filterMap_id_map_some]
      congr 1
      apply List.filter_congr
      intro p _
      unfold methOK
      cases find args kReturns <;> rfl

/-- discovery by name: the first provider carrying the name — for single pointer / interface fields only -/
theorem discovered_byName (pop : List Prov) (s : Slot) (v : Bytes) (args : Args) (hf : s.isFunc = false) (hv : v ≠ []) :
    discovered pop s v args =
      match s.kind with
      | .ptr _ => ((pop.find? (fun p => p.name == v)).map (·.id)).toList
      | .iface _ => ((pop.find? (fun p => p.name == v)).map (·.id)).toList
      | _ => [] := by
  unfold discovered
  have hv' : v.isEmpty = false := by cases v with
    | nil => exact absurd rfl hv
    | cons a t => rfl
  simp only [hf, Bool.false_eq_true, if_false, candidatesWire, hv']
  cases s.kind <;> simp only [List.filterMap_nil] <;>
    cases pop.find? (fun p => p.name == v) <;> rfl

theorem qualPred_of_mem {pop : List Prov} (hid : (pop.map (·.id)).Nodup) (args : Args) {p : Prov} (hp : p ∈ pop)
    (qs : List Bytes) (hq : find args kQualifier = some qs) :
    qualPred (byId pop) args p.id = qualOK args p := by
  unfold qualPred qualOK
  rw [byId_of_mem hid hp, hq]
  rfl

/-- after the qualifier filter: exactly the discovered providers the qualifier rule accepts, in enumeration order -/
theorem qualified_byType (pop : List Prov) (hid : (pop.map (·.id)).Nodup) (s : Slot) (v : Bytes) (a0 : Args)
    (hb : ByType s v) :
    qualified pop s v a0 = (pop.filter (fun p => found s v a0 p && qualOK a0 p)).map (·.id) := by
  unfold qualified
  rw [discovered_byType pop s v _ hb]
  have e1 : found s v (effArgs a0) = found s v a0 := funext (found_effArgs s v a0)
  rw [e1]
  unfold qualFilter
  rw [find_effArgs_qual]
  cases hq : find a0 kQualifier with
  | none =>
    simp only
    congr 1
    apply List.filter_congr
    intro p _
    simp [qualOK, hq]
  | some qs =>
    simp only
    rw [List.filter_map, List.filter_filter]
    congr 1
    apply List.filter_congr
    intro p hp
    have hq' : find (effArgs a0) kQualifier = some qs := by rw [find_effArgs_qual, hq]
    simp only [Function.comp]
    rw [qualPred_of_mem hid (effArgs a0) hp qs hq', qualOK_effArgs, Bool.and_comm]

/-- without the id hypothesis: every qualified candidate comes from a discovered provider -/
theorem mem_qualified_found (pop : List Prov) (s : Slot) (v : Bytes) (a0 : Args) (hb : ByType s v) :
    ∀ c ∈ qualified pop s v a0, ∃ p ∈ pop, p.id = c ∧ found s v a0 p = true := by
  intro c hc
  have hc' : c ∈ discovered pop s v (effArgs a0) := by
    unfold qualified qualFilter at hc
    split at hc
    · exact (List.mem_filter.mp hc).1
    · exact hc
  rw [discovered_byType pop s v _ hb, List.mem_map] at hc'
  obtain ⟨p, hp, rfl⟩ := hc'
  rw [List.mem_filter, found_effArgs] at hp
  exact ⟨p, hp.1, rfl, hp.2⟩

theorem has_single_mem (a : Args) (k q : Bytes) (qs : List Bytes) (hf : find a k = some qs)
    (h : has a k [q] = true) : q ∈ qs := by
  unfold has at h
  rw [hf] at h
  simp only [List.isEmpty_cons, Bool.false_eq_true, if_false, List.any_eq_true] at h
  obtain ⟨x, hx, hc⟩ := h
  simp at hc
  rw [← hc]; exact hx

/-- with a qualifier argument, every qualified candidate declares one of the requested qualifiers -/
theorem mem_qualified_qual (pop : List Prov) (s : Slot) (v : Bytes) (a0 : Args) (qs : List Bytes)
    (hq : find a0 kQualifier = some qs) :
    ∀ c ∈ qualified pop s v a0, ∃ p ∈ pop, p.id = c ∧ ∃ q, p.qual = some q ∧ q ∈ qs := by
  intro c hc
  have hq' : find (effArgs a0) kQualifier = some qs := by rw [find_effArgs_qual, hq]
  unfold qualified qualFilter at hc
  rw [hq'] at hc
  simp only at hc
  have hp := (List.mem_filter.mp hc).2
  unfold qualPred at hp
  cases hb : byId pop c with
  | none => rw [hb] at hp; cases hp
  | some p =>
    rw [hb] at hp
    simp only at hp
    obtain ⟨hm, hi⟩ := byId_some hb
    cases hqq : p.qual with
    | none => rw [hqq] at hp; cases hp
    | some q =>
      rw [hqq] at hp
      simp only at hp
      exact ⟨p, hm, hi, q, hqq, has_single_mem _ _ _ _ hq' hp⟩

theorem map_id_nodup_of_filter {pop : List Prov} (hid : (pop.map (·.id)).Nodup) (f : Prov → Bool) :
    ((pop.filter f).map (·.id)).Nodup :=
  (List.filter_sublist.map _).nodup hid

/-- the by-name point of a single pointer / interface field, names unique: exactly the named provider -/
theorem discovered_named {pop : List Prov} (hnm : (pop.map (·.name)).Nodup) (s : Slot) (v : Bytes) (args : Args)
    (hf : s.isFunc = false) (hv : v ≠ []) (hk : (∃ t, s.kind = .ptr t) ∨ (∃ i, s.kind = .iface i))
    {p : Prov} (hp : p ∈ pop) (hn : p.name = v) : discovered pop s v args = [p.id] := by
  rw [discovered_byName pop s v args hf hv]
  have e := find?_key_of_mem (fun q : Prov => q.name) pop hnm p hp
  rw [hn] at e
  rcases hk with ⟨t, ht⟩ | ⟨i, hi⟩
  · rw [ht]; simp only [e]; rfl
  · rw [hi]; simp only [e]; rfl

theorem discovered_absent (pop : List Prov) (s : Slot) (v : Bytes) (args : Args)
    (hf : s.isFunc = false) (hv : v ≠ []) (hno : ∀ p ∈ pop, p.name ≠ v) : discovered pop s v args = [] := by
  rw [discovered_byName pop s v args hf hv]
  have e : pop.find? (fun p => p.name == v) = none := by
    rw [List.find?_eq_none]
    intro p hp; simpa using hno p hp
  rw [e]
  cases s.kind <;> rfl

end Ioc.Match
