/-
  Lemmas for C14, sixth round: which registered names get a definition of their own when the definition registry's map is
  keyed by `key name` (`Ioc.Conc.definedFrom` / `definedNames`).
-/
import Ioc.Conc

namespace Ioc.Conc

theorem definedFrom_length_le {α κ : Type} [DecidableEq κ] (key : α → κ) :
    ∀ (xs : List α) (seen : List κ), (definedFrom key seen xs).length ≤ xs.length := by
  intro xs
  induction xs with
  | nil => intro seen; simp [definedFrom]
  | cons x xs ih =>
    intro seen
    unfold definedFrom
    split
    · have := ih seen; simp only [List.length_cons]; omega
    · have := ih (key x :: seen); simp only [List.length_cons]; omega

/-- a key that is injective on the registered names keeps every one of them -/
theorem definedFrom_all {α κ : Type} [DecidableEq κ] (key : α → κ) :
    ∀ (xs : List α) (seen : List κ), xs.Nodup → (∀ a, a ∈ xs → ∀ b, b ∈ xs → key a = key b → a = b) →
      (∀ a, a ∈ xs → key a ∉ seen) → definedFrom key seen xs = xs := by
  intro xs
  induction xs with
  | nil => intro seen _ _ _; rfl
  | cons x xs ih =>
    intro seen hnd hinj hseen
    have hx : key x ∉ seen := hseen x (List.mem_cons_self)
    unfold definedFrom
    rw [if_neg hx]
    have hnd' := List.nodup_cons.mp hnd
    congr 1
    refine ih (key x :: seen) hnd'.2 (fun a ha b hb => hinj a (List.mem_cons_of_mem _ ha) b (List.mem_cons_of_mem _ hb)) ?_
    intro a ha hmem
    rcases List.mem_cons.mp hmem with h | h
    · have : a = x := hinj a (List.mem_cons_of_mem _ ha) x List.mem_cons_self h
      exact hnd'.1 (this ▸ ha)
    · exact hseen a (List.mem_cons_of_mem _ ha) h

/-- a name whose key is taken, or two different names with one key: somebody is left without a definition -/
theorem definedFrom_drops {α κ : Type} [DecidableEq κ] (key : α → κ) :
    ∀ (xs : List α) (seen : List κ),
      ((∃ a, a ∈ xs ∧ key a ∈ seen) ∨ (∃ a, a ∈ xs ∧ ∃ b, b ∈ xs ∧ a ≠ b ∧ key a = key b)) →
      (definedFrom key seen xs).length < xs.length := by
  intro xs
  induction xs with
  | nil =>
    intro seen h
    rcases h with ⟨a, ha, _⟩ | ⟨a, ha, _⟩ <;> cases ha
  | cons x xs ih =>
    intro seen h
    unfold definedFrom
    split
    · have := definedFrom_length_le key xs seen
      simp only [List.length_cons]; omega
    · rename_i hx
      have hlt : (definedFrom key (key x :: seen) xs).length < xs.length := by
        apply ih
        rcases h with ⟨a, ha, hk⟩ | ⟨a, ha, b, hb, hne, hk⟩
        · rcases List.mem_cons.mp ha with rfl | ha'
          · exact absurd hk hx
          · exact Or.inl ⟨a, ha', List.mem_cons_of_mem _ hk⟩
        · rcases List.mem_cons.mp ha with rfl | ha'
          · rcases List.mem_cons.mp hb with rfl | hb'
            · exact absurd rfl hne
            · exact Or.inl ⟨b, hb', by rw [← hk]; exact List.mem_cons_self⟩
          · rcases List.mem_cons.mp hb with rfl | hb'
            · exact Or.inl ⟨a, ha', by rw [hk]; exact List.mem_cons_self⟩
            · exact Or.inr ⟨a, ha', b, hb', hne, hk⟩
      simp only [List.length_cons]; omega

end Ioc.Conc
