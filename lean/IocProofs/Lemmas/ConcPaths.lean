/-
  Constructing schedules of the fork/join system: frame lemmas ("only worker i moved"), a worker that owes
  nothing to its siblings runs to completion on its own, main spawns up to any index, and soundness of the
  executable scheduler of Ioc.Conc (`fire`, `schedule`) with respect to `Step`.
-/
import IocProofs.Lemmas.ConcFan

namespace Ioc.Conc
open WPc

/-- between s and s' nothing but worker i's own state (and the counters it owns) changed -/
structure OnlyW (i : Nat) (s s' : St) : Prop where
  pc : s'.mainPc = s.mainPc
  sp : s'.spawned = s.spawned
  wpc : ∀ j, j ≠ i → s'.wpc j = s.wpc j
  calls : ∀ j, j ≠ i → s'.calls j = s.calls j

theorem OnlyW.refl (i : Nat) (s : St) : OnlyW i s s := ⟨rfl, rfl, fun _ _ => rfl, fun _ _ => rfl⟩

theorem OnlyW.trans {i : Nat} {a b c : St} (h1 : OnlyW i a b) (h2 : OnlyW i b c) : OnlyW i a c :=
  ⟨h2.pc.trans h1.pc, h2.sp.trans h1.sp, fun j hj => (h2.wpc j hj).trans (h1.wpc j hj),
   fun j hj => (h2.calls j hj).trans (h1.calls j hj)⟩

theorem worker_step_frame (cfg : FanCfg) (n : Nat) (fails : Nat → Bool) (s : St) (i : Nat) (q : WPc) (mu' : Option Nat)
    (h : WStep cfg (fails i) i (s.wpc i) s.mu q mu') :
    ∃ s', Step cfg n fails s s' ∧ s'.wpc i = q ∧ s'.mu = mu' ∧ OnlyW i s s' :=
  ⟨_, Step.worker s i q mu' h, by simp [upd], rfl,
   ⟨rfl, rfl, fun j hj => by simp [upd, hj], fun j hj => by simp [upd, hj]⟩⟩

/-- number of own steps a worker still has to take -/
def rank : WPc → Nat
  | .idle => 0 | .finished => 0 | .post => 1 | .accDone => 2 | .inAcc => 3 | .locked => 4
  | .called => 5 | .calling => 6 | .started => 7 | .ready => 8

/-- without a critical section (Close) every unfinished worker has an enabled step, whatever the others do -/
theorem worker_progress_nocrit (cfg : FanCfg) (hc : cfg.crit = false) (fail : Bool) (i : Nat) (p : WPc)
    (hp : p ≠ .idle) (hpf : p ≠ .finished) (mu : Option Nat) :
    ∃ q mu', WStep cfg fail i p mu q mu' ∧ rank q < rank p := by
  cases p with
  | idle => exact absurd rfl hp
  | finished => exact absurd rfl hpf
  | ready => exact ⟨_, _, WStep.start mu, by decide⟩
  | started => exact ⟨_, _, WStep.callBegin mu, by decide⟩
  | calling => exact ⟨_, _, WStep.callEnd mu, by decide⟩
  | called => exact ⟨_, _, WStep.skip mu (Or.inr hc), by decide⟩
  | locked => exact ⟨_, _, WStep.accBeginG mu, by decide⟩
  | inAcc => exact ⟨_, _, WStep.accEnd mu, by decide⟩
  | accDone =>
    cases hg : cfg.guarded with
    | true => exact ⟨_, _, WStep.unlock mu hg, by decide⟩
    | false => exact ⟨_, _, WStep.leave mu hg, by decide⟩
  | post => exact ⟨_, _, WStep.done mu, by decide⟩

theorem worker_runs (cfg : FanCfg) (hc : cfg.crit = false) (n : Nat) (fails : Nat → Bool) (i : Nat) :
    ∀ (r : Nat) (s : St), rank (s.wpc i) ≤ r → s.wpc i ≠ .idle →
      ∃ s', Steps cfg n fails s s' ∧ s'.wpc i = .finished ∧ OnlyW i s s' := by
  intro r
  induction r with
  | zero =>
    intro s hr hne
    have : s.wpc i = .finished := by
      generalize s.wpc i = p at hr hne
      cases p <;> simp_all [rank]
    exact ⟨s, Steps.refl s, this, OnlyW.refl i s⟩
  | succ r ih =>
    intro s hr hne
    by_cases hf : s.wpc i = .finished
    · exact ⟨s, Steps.refl s, hf, OnlyW.refl i s⟩
    · obtain ⟨q, mu', hw, hlt⟩ := worker_progress_nocrit cfg hc (fails i) i (s.wpc i) hne hf s.mu
      have hq0 := hw.facts.2.2.1
      obtain ⟨s1, hs1, hq, _, ho⟩ := worker_step_frame cfg n fails s i q mu' hw
      obtain ⟨s2, hs2, hfin, ho2⟩ := ih s1 (by rw [hq]; omega) (by rw [hq]; exact hq0)
      exact ⟨s2, Steps.trans (Steps.tail s s s1 (Steps.refl s) hs1) hs2, hfin, ho.trans ho2⟩

/-- main executes d more iterations of the loop -/
theorem main_spawns (cfg : FanCfg) (hsp : cfg.spawn = true) (n : Nat) (fails : Nat → Bool) :
    ∀ (d : Nat) (s : St), s.mainPc = 1 → s.spawned + d ≤ n →
      ∃ s', Steps cfg n fails s s' ∧ s'.mainPc = 1 ∧ s'.spawned = s.spawned + d ∧
        (∀ j, s'.wpc j = if s.spawned ≤ j ∧ j < s.spawned + d then .ready else s.wpc j) ∧
        s'.calls = s.calls ∧ s'.wg = s.wg ∧ s'.mu = s.mu := by
  intro d
  induction d with
  | zero =>
    intro s h1 _
    refine ⟨s, Steps.refl s, h1, rfl, ?_, rfl, rfl, rfl⟩
    intro j
    have : ¬ (s.spawned ≤ j ∧ j < s.spawned + 0) := by omega
    rw [if_neg this]
  | succ d ih =>
    intro s h1 hle
    obtain ⟨s1, hs1, hpc, hspw, hw, hc, hwg, hmu⟩ := ih s h1 (by omega)
    have hstep : Step cfg n fails s1 { s1 with spawned := s1.spawned + 1, wpc := upd s1.wpc s1.spawned .ready } :=
      Step.spawn s1 hpc (by omega) (by intro h; rw [hsp] at h; cases h)
    refine ⟨_, Steps.tail s s1 _ hs1 hstep, hpc, by simp only; omega, ?_, hc, hwg, hmu⟩
    intro j
    simp only [upd]
    by_cases hj : j = s1.spawned
    · have h1' : s.spawned ≤ j ∧ j < s.spawned + (d + 1) := by omega
      rw [if_pos hj, if_pos h1']
    · rw [if_neg hj, hw j]
      by_cases hr : s.spawned ≤ j ∧ j < s.spawned + d
      · have : s.spawned ≤ j ∧ j < s.spawned + (d + 1) := by omega
        simp [hr, this]
      · have : ¬ (s.spawned ≤ j ∧ j < s.spawned + (d + 1)) := by omega
        simp [hr, this]

/-- without the mutex a failing worker walks from `ready` into the access, whatever the others are doing -/
theorem worker_to_inAcc_unguarded (cfg : FanCfg) (hc : cfg.crit = true) (hg : cfg.guarded = false) (n : Nat)
    (fails : Nat → Bool) (s : St) (i : Nat) (hf : fails i = true) (hr : s.wpc i = .ready) :
    ∃ s', Steps cfg n fails s s' ∧ s'.wpc i = .inAcc ∧ OnlyW i s s' := by
  obtain ⟨s1, h1, q1, _, o1⟩ := worker_step_frame cfg n fails s i .started s.mu (hr ▸ WStep.start s.mu)
  obtain ⟨s2, h2, q2, _, o2⟩ := worker_step_frame cfg n fails s1 i .calling s1.mu (q1 ▸ WStep.callBegin s1.mu)
  obtain ⟨s3, h3, q3, _, o3⟩ := worker_step_frame cfg n fails s2 i .called s2.mu (q2 ▸ WStep.callEnd s2.mu)
  obtain ⟨s4, h4, q4, _, o4⟩ := worker_step_frame cfg n fails s3 i .inAcc s3.mu (q3 ▸ WStep.accBeginU s3.mu hf hc hg)
  exact ⟨s4, Steps.tail _ _ _ (Steps.tail _ _ _ (Steps.tail _ _ _ (Steps.tail _ _ _ (Steps.refl s) h1) h2) h3) h4, q4,
    ((o1.trans o2).trans o3).trans o4⟩

/-! ### the executable scheduler is sound -/

theorem wnext_sound (cfg : FanCfg) (fail : Bool) (i : Nat) (p : WPc) (mu : Option Nat) (q : WPc) (mu' : Option Nat)
    (h : wnext cfg fail i p mu = some (q, mu')) : WStep cfg fail i p mu q mu' := by
  cases p with
  | idle => simp [wnext] at h
  | finished => simp [wnext] at h
  | ready => simp [wnext] at h; obtain ⟨rfl, rfl⟩ := h; exact WStep.start mu
  | started => simp [wnext] at h; obtain ⟨rfl, rfl⟩ := h; exact WStep.callBegin mu
  | calling => simp [wnext] at h; obtain ⟨rfl, rfl⟩ := h; exact WStep.callEnd mu
  | locked => simp [wnext] at h; obtain ⟨rfl, rfl⟩ := h; exact WStep.accBeginG mu
  | inAcc => simp [wnext] at h; obtain ⟨rfl, rfl⟩ := h; exact WStep.accEnd mu
  | post => simp [wnext] at h; obtain ⟨rfl, rfl⟩ := h; exact WStep.done mu
  | accDone =>
    cases hg : cfg.guarded with
    | true => simp [wnext, hg] at h; obtain ⟨rfl, rfl⟩ := h; exact WStep.unlock mu hg
    | false => simp [wnext, hg] at h; obtain ⟨rfl, rfl⟩ := h; exact WStep.leave mu hg
  | called =>
    cases hf : fail with
    | false =>
      simp [wnext, hf] at h; obtain ⟨rfl, rfl⟩ := h; exact WStep.skip mu (Or.inl rfl)
    | true =>
      cases hc : cfg.crit with
      | false => simp [wnext, hf, hc] at h; obtain ⟨rfl, rfl⟩ := h; exact WStep.skip mu (Or.inr hc)
      | true =>
        cases hg : cfg.guarded with
        | false => simp [wnext, hf, hc, hg] at h; obtain ⟨rfl, rfl⟩ := h; exact WStep.accBeginU mu rfl hc hg
        | true =>
          cases mu with
          | some o => simp [wnext, hf, hc, hg] at h
          | none => simp [wnext, hf, hc, hg] at h; obtain ⟨rfl, rfl⟩ := h; exact WStep.lock rfl hc hg

theorem fire_sound (cfg : FanCfg) (n : Nat) (fails : Nat → Bool) (s s' : St) (a : Act)
    (h : fire cfg n fails s a = some s') : Step cfg n fails s s' := by
  cases a with
  | main =>
    simp only [fire] at h
    split at h
    · rename_i h0; cases h; exact Step.add s h0
    · split at h
      · rename_i h1
        split at h
        · rename_i hk
          split at h
          · rename_i hseq; cases h; exact Step.spawn s h1 hk hseq
          · cases h
        · split at h
          · rename_i hk; cases h; exact Step.spawned s h1 hk
          · cases h
      · split at h
        · rename_i h2
          split at h
          · rename_i hw; cases h; exact Step.wait s h2 hw
          · cases h
        · cases h
  | w i =>
    simp only [fire] at h
    split at h
    · cases h
    · rename_i q mu' hq
      cases h
      exact Step.worker s i q mu' (wnext_sound cfg (fails i) i (s.wpc i) s.mu q mu' hq)

theorem schedule_sound (cfg : FanCfg) (n : Nat) (fails : Nat → Bool) :
    ∀ (fuel seed : Nat) (s : St), Steps cfg n fails s (schedule cfg n fails fuel seed s) := by
  intro fuel
  induction fuel with
  | zero => intro seed s; exact Steps.refl s
  | succ fuel ih =>
    intro seed s
    simp only [schedule]
    split
    · exact Steps.refl s
    · split
      · rename_i s' hs'
        obtain ⟨a, _, ha⟩ := List.exists_of_findSome?_eq_some hs'
        exact Steps.trans (Steps.tail s s s' (Steps.refl s) (fire_sound cfg n fails s s' a ha)) (ih _ s')
      · exact Steps.refl s

/-- a list of actions, each of which must be enabled -/
def runActs (cfg : FanCfg) (n : Nat) (fails : Nat → Bool) : List Act → St → Option St
  | [], s => some s
  | a :: r, s => match fire cfg n fails s a with | some s' => runActs cfg n fails r s' | none => none

theorem runActs_sound (cfg : FanCfg) (n : Nat) (fails : Nat → Bool) :
    ∀ (acts : List Act) (s s' : St), runActs cfg n fails acts s = some s' → Steps cfg n fails s s' := by
  intro acts
  induction acts with
  | nil => intro s s' h; simp [runActs] at h; subst h; exact Steps.refl s
  | cons a r ih =>
    intro s s' h
    simp only [runActs] at h
    split at h
    · rename_i s1 h1
      exact Steps.trans (Steps.tail s s s1 (Steps.refl s) (fire_sound cfg n fails s s1 a h1)) (ih s1 s' h)
    · cases h

end Ioc.Conc
