/-
  Proofs of the C18 statements: the order of the stages, the fold over the regenerated processor table equals the
  composition quote → expression → value/prefix → validate, what the expression engine is handed, validation.
-/
import IocProofs.Lemmas.ValueTop
namespace Ioc.Value
open Ioc Ioc.Tag

/-- the order computed from the regenerated table -/
theorem stageOrder_eq : stageOrder =
    ["loggerAwarePostProcessors", "configQuoteAwarePostProcessors", "expressionTagAwarePostProcessors",
     "propertiesAwarePostProcessors", "valueAwarePostProcessors",
     "dependencyAwarePostProcessors", "dependencyFunctionAwarePostProcessors", "dependencyTypeAwarePostProcessors",
     "dependencyFurtherMatchingPostProcessors", "validateAwarePostProcessors"] := by decide

theorem runProperty_value (J : Json) (evalE : Bytes → Except Err Val) (validate : FVal → List Bytes → Bool)
    (cfg : Cfg) (tag : Bytes) (ty : FieldTy) :
    runProperty J evalE validate cfg true tag ty = valuePipeline J evalE validate cfg tag ty := by
  unfold runProperty valuePipeline
  cases Tag.parse? tag with
  | none => rfl
  | some p =>
    obtain ⟨tv, args⟩ := p
    cases hf : findEl cDollar tv with
    | none =>
      -- no placeholder in the tag: the quote processor skips the property, TagVal is still TagStr
      have hq : quoteStage J cfg tv = .ok tv := replaceAllF_none _ _ _ _ _ hf
      simp only [stageOrder_eq, runStagesOn, stageFn, hf, hq, nQuote, nExpr, nValue, nProps, nValidate, String.reduceEq,
        ↓reduceIte, bind, Except.bind, pure, Except.pure, Except.map]
      cases he : exprStage J evalE tv with
      | error e => simp
      | ok s2 =>
        cases hv : valueStage J args ty s2 with
        | error e => simp [hv]
        | ok b =>
          cases hvd : validateStage validate args ty b <;> cases b <;> simp [hv, hvd] <;> simp_all
    | some r =>
      simp only [stageOrder_eq, runStagesOn, stageFn, hf, nQuote, nExpr, nValue, nProps, nValidate, String.reduceEq,
        ↓reduceIte, bind, Except.bind, pure, Except.pure, Except.map]
      cases hq : quoteStage J cfg tv with
      | error e => simp
      | ok s1 =>
        cases he : exprStage J evalE s1 with
        | error e => simp [he]
        | ok s2 =>
          cases hv : valueStage J args ty s2 with
          | error e => simp [he, hv]
          | ok b =>
            cases hvd : validateStage validate args ty b <;> cases b <;> simp [he, hv, hvd] <;> simp_all

theorem runProperty_prefix (J : Json) (evalE : Bytes → Except Err Val) (validate : FVal → List Bytes → Bool)
    (cfg : Cfg) (tag : Bytes) (ty : FieldTy) :
    runProperty J evalE validate cfg false tag ty = prefixPipeline J evalE validate cfg tag ty := by
  unfold runProperty prefixPipeline
  cases Tag.parse? tag with
  | none => rfl
  | some p =>
    obtain ⟨tv, args⟩ := p
    cases hf : findEl cDollar tv with
    | none =>
      -- no placeholder in the tag: the quote processor skips the property, TagVal is still TagStr
      have hq : quoteStage J cfg tv = .ok tv := replaceAllF_none _ _ _ _ _ hf
      simp only [stageOrder_eq, runStagesOn, stageFn, hf, hq, nQuote, nExpr, nValue, nProps, nValidate, String.reduceEq,
        ↓reduceIte, bind, Except.bind, pure, Except.pure, Except.map]
      cases he : exprStage J evalE tv with
      | error e => simp
      | ok s2 =>
        cases hv : prefixStage cfg args ty s2 with
        | error e => simp [hv]
        | ok b =>
          cases hvd : validateStage validate args ty b <;> cases b <;> simp [hv, hvd] <;> simp_all
    | some r =>
      simp only [stageOrder_eq, runStagesOn, stageFn, hf, nQuote, nExpr, nValue, nProps, nValidate, String.reduceEq,
        ↓reduceIte, bind, Except.bind, pure, Except.pure, Except.map]
      cases hq : quoteStage J cfg tv with
      | error e => simp
      | ok s1 =>
        cases he : exprStage J evalE s1 with
        | error e => simp [he]
        | ok s2 =>
          cases hv : prefixStage cfg args ty s2 with
          | error e => simp [he, hv]
          | ok b =>
            cases hvd : validateStage validate args ty b <;> cases b <;> simp [he, hv, hvd] <;> simp_all

/-! ### what the expression engine is handed -/

theorem findEl_none_of_notBrace (x : UInt8) (c : Bytes) (h : ∀ b ∈ c, notBrace b = true) : findEl x c = none := by
  induction c with
  | nil => rfl
  | cons b r ih =>
    have ihr := ih (fun y hy => h y (by simp [hy]))
    unfold findEl
    simp only [ihr, Option.map_none]
    by_cases hb : b = x
    · simp only [hb, if_true]
      cases r with
      | nil => rfl
      | cons d r2 =>
        have hd : notBrace d = true := h d (by simp)
        have : d ≠ 123 := by
          intro e; subst e; revert hd; decide
        split
        · rename_i heq; simp at heq; exact absurd heq.1 this
        · rfl
    · simp [hb]

/-- an engine that refuses every text containing a `${…}` pattern -/
def guardE (evalE : Bytes → Except Err Val) : Bytes → Except Err Val :=
  fun c => if (findEl cDollar c).isSome then .error .panic else evalE c

theorem replaceAllF_congr (x : UInt8) (f g : Bytes → Except Err Bytes) (e : Err)
    (h : ∀ c, (∀ b ∈ c, notBrace b = true) → f c = g c) :
    ∀ (n : Nat) (s : Bytes), replaceAllF x f e n s = replaceAllF x g e n s
  | 0, s => by simp [replaceAllF]
  | n + 1, s => by
    unfold replaceAllF
    cases hf : findEl x s with
    | none => rfl
    | some r =>
      obtain ⟨pre, c, post⟩ := r
      have hc := (findEl_some x s pre c post hf).2
      simp only [h c hc]
      cases g c with
      | error _ => rfl
      | ok r' => exact replaceAllF_congr x f g e h n _

theorem exprStage_guard (J : Json) (evalE : Bytes → Except Err Val) (s : Bytes) :
    exprStage J (guardE evalE) s = exprStage J evalE s := by
  unfold exprStage
  apply replaceAllF_congr
  intro c hc
  unfold evalFormat guardE
  simp [findEl_none_of_notBrace cDollar c hc]

/-- the tag text `#{e}` -/
def exprTag (e : Bytes) : Bytes := cHash :: 123 :: (e ++ [125])

theorem findEl_exprTag (e : Bytes) (he : ∀ b ∈ e, notBrace b = true) :
    findEl cHash (exprTag e) = some ([], e, []) := by
  have := takeWhile_append_stop notBrace e 125 [] he (by decide)
  unfold findEl exprTag
  simp [this.1, this.2]

theorem exprStage_exprTag (J : Json) (evalE : Bytes → Except Err Val) (e : Bytes) (v : Val)
    (he : ∀ b ∈ e, notBrace b = true) (hv : evalE e = .ok v) (hn : findEl cHash (formatAny J v) = none) :
    exprStage J evalE (exprTag e) = .ok (formatAny J v) := by
  unfold exprStage
  have := replaceAllF_one cHash (evalFormat J evalE) .expr (exprTag e) [] e [] (formatAny J v)
    (findEl_exprTag e he) (by simp [evalFormat, hv]) (by simpa using hn)
  simpa using this

/-! ### validation -/

theorem validateStage_spec (validate : FVal → List Bytes → Bool) (args : Args) (ty : FieldTy) (b : Option FVal) :
    validateStage validate args ty b =
      match Tag.find args kValidate with
      | none => .ok b
      | some cs =>
        if isPtrTy ty = true ∧ b.getD (zero ty) = .nil then .ok b
        else if validate (b.getD (zero ty)) cs = true then .ok b else .error .validate := by
  unfold validateStage
  cases Tag.find args kValidate <;> rfl

end Ioc.Value
