/-
  Lemmas for the fifth-round scenarios of the concurrency unit (Ioc.Conc section 5):
  * a call keeps its operation through every step, so every completed call of a run was taken from a queue
    (`stepCall_op`, `hist_ops_from_queue`);
  * in a sequential history of LoadOrStoreFn calls on one key every call returns the value the map holds for that key at
    the end (`seq_all_kept`): all callers of one load-or-store hold the SAME value, the stored one;
  * `reported` counts every failing closer once all workers have finished (`reported_all_finished`).
-/
import Ioc.Conc
import IocProofs.Lemmas.ConcMap
import IocProofs.Lemmas.ConcPaths

namespace Ioc.Conc

theorem exec1_op (ins : Instr) (m : MapSt) (c : CallSt) : (exec1 ins m c).2.op = c.op := by
  unfold exec1
  repeat' split
  all_goals rfl

theorem stepCall_op (progs : Op → List Instr) (m : MapSt) (c : CallSt) : (stepCall progs m c).2.op = c.op := by
  unfold stepCall
  split
  · rfl
  · rename_i ins _
    dsimp only
    split <;> simp [CallSt.ret, exec1_op]

/-- every completed call of a run was taken from a queue (or was pending / complete at the start): a property `P` of
    operations that holds for all queued, pending and completed calls of `s` holds for every completed call of the run -/
theorem hist_ops_from_queue (progs : Op → List Instr) (P : Op → Prop) :
    ∀ (sched : List Nat) (s : Sys),
      (∀ t op, op ∈ s.queue t → P op) → (∀ t c, s.cur t = some c → P c.op) → (∀ e, e ∈ s.hist → P e.2.1) →
      ∀ e, e ∈ (run progs s sched).hist → P e.2.1 := by
  intro sched
  induction sched with
  | nil => intro s _ _ h3; exact h3
  | cons t r ih =>
    intro s h1 h2 h3
    refine ih (tstep progs s t) ?_ ?_ ?_
    · intro t' op hop
      unfold tstep at hop
      split at hop
      · split at hop
        · exact h1 t' op hop
        · rename_i op0 r0 hq0
          simp only [upd] at hop
          split at hop
          · rename_i heq; subst heq; exact h1 t' op (by rw [hq0]; simp [hop])
          · exact h1 t' op hop
      · dsimp only at hop
        split at hop <;> exact h1 t' op hop
    · intro t' c hc
      unfold tstep at hc
      split at hc
      · split at hc
        · exact h2 t' c hc
        · rename_i op0 r0 hq0
          simp only [upd] at hc
          split at hc
          · cases hc; exact h1 t op0 (by rw [hq0]; simp)
          · exact h2 t' c hc
      · rename_i c0 hc0
        have hp0 := h2 t c0 hc0
        dsimp only at hc
        split at hc
        · simp only [upd] at hc
          split at hc
          · cases hc
          · exact h2 t' c hc
        · simp only [upd] at hc
          split at hc
          · cases hc; rw [stepCall_op]; exact hp0
          · exact h2 t' c hc
    · intro e he
      unfold tstep at he
      split at he
      · split at he <;> exact h3 e he
      · rename_i c0 hc0
        dsimp only at he
        split at he
        · simp only [List.mem_cons] at he
          rcases he with rfl | he
          · exact h2 t c0 hc0
          · exact h3 e he
        · exact h3 e he

/-- sequential histories of LoadOrStoreFn on one key: every call returns the value the map holds for the key at the end -/
theorem seq_all_kept (k : Nat) (m0 : MapSt) :
    ∀ (h : List (Nat × Op × Res)) (m : MapSt), Explains m0 h m →
      (∀ e, e ∈ h → ∃ v, e.2.1 = .loadOrStoreFn k v) →
      ∀ e, e ∈ h → ∃ w l, e.2.2 = .got (some w) l ∧ m k = some w := by
  intro h
  induction h with
  | nil => intro m _ _ e he; simp at he
  | cons e0 older ih =>
    intro m hex hall e he
    obtain ⟨t, op, r⟩ := e0
    obtain ⟨m1, hold, hspec⟩ := hex
    obtain ⟨v, hv⟩ := hall (t, op, r) (by simp)
    simp only at hv
    subst hv
    have ih' := ih m1 hold (fun e he => hall e (by simp [he]))
    simp only [Op.spec] at hspec
    cases hm : m1 k with
    | some w =>
      rw [hm] at hspec
      simp only [Prod.mk.injEq] at hspec
      obtain ⟨rfl, rfl⟩ := hspec
      simp only [List.mem_cons] at he
      rcases he with rfl | he
      · exact ⟨w, true, rfl, hm⟩
      · exact ih' e he
    | none =>
      rw [hm] at hspec
      simp only [Prod.mk.injEq] at hspec
      obtain ⟨rfl, rfl⟩ := hspec
      simp only [List.mem_cons] at he
      rcases he with rfl | he
      · exact ⟨v, false, rfl, by simp [upd]⟩
      · obtain ⟨w, l, _, hw⟩ := ih' e he
        rw [hm] at hw
        cases hw

/-- when every one of the first n workers has finished, every failing one's report is complete -/
theorem reported_all_finished (n : Nat) (fails : Nat → Bool) (s : St) (h : ∀ i, i < n → s.wpc i = .finished) :
    reported n fails s = failing n fails := by
  unfold reported failing
  congr 1
  apply List.filter_congr
  intro i hi
  have hlt : i < n := List.mem_range.mp hi
  simp [h i hlt]

/-- fire a list of actions, one after the other (for counterexample runs) -/
def fireAll (cfg : FanCfg) (n : Nat) (fails : Nat → Bool) : List Act → St → Option St
  | [], s => some s
  | a :: r, s => match fire cfg n fails s a with
    | some s' => fireAll cfg n fails r s'
    | none => none

theorem fireAll_sound (cfg : FanCfg) (n : Nat) (fails : Nat → Bool) :
    ∀ (acts : List Act) (s s' : St), fireAll cfg n fails acts s = some s' → Steps cfg n fails s s' := by
  intro acts
  induction acts with
  | nil => intro s s' h; simp only [fireAll, Option.some.injEq] at h; subst h; exact Steps.refl s
  | cons a r ih =>
    intro s s' h
    simp only [fireAll] at h
    split at h
    · rename_i s1 h1
      exact Steps.trans (Steps.tail _ _ _ (Steps.refl s) (fire_sound cfg n fails s s1 a h1)) (ih s1 s' h)
    · cases h

end Ioc.Conc
