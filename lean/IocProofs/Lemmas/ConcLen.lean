/-
  Lemmas about `Length()` of the set utilities (Ioc.Conc: HOp, linSearchH, seqFinal):
    * the history checker with `Length` calls is a conservative extension of `linSearch`;
    * `Length` counts the keys present;
    * a list of Put / Remove calls in which no key is both put and removed leaves a set that depends only on WHICH keys
      are removed and put — not on the order of the calls (so every schedule of the goroutines of a `setlen` scenario,
      read through its linearization, ends in the same set, and the quiescent Length is determined).
-/
import Ioc.Conc

namespace Ioc.Conc

theorem snapshot_length (m : MapSt) (ks : List Nat) : (snapshot m ks).length = (presentKeys m ks).length := by
  induction ks with
  | nil => rfl
  | cons k r ih =>
    simp only [snapshot, presentKeys] at ih ⊢
    cases hm : m k with
    | none => simp [hm, ih]
    | some v => simp [hm, ih]

theorem eraseIdx'_map {α β : Type} (f : α → β) : ∀ (l : List α) (i : Nat), eraseIdx' (l.map f) i = (eraseIdx' l i).map f
  | [], _ => rfl
  | _ :: _, 0 => rfl
  | a :: r, i + 1 => by simp [eraseIdx', eraseIdx'_map f r i]

theorem linSearchH_lift : ∀ (fuel : Nat) (m : MapSt) (pending : List Rec),
    linSearchH fuel m (pending.map Rec.lift) = linSearch fuel m pending
  | 0, _, pending => by cases pending <;> rfl
  | fuel + 1, m, pending => by
    simp only [linSearchH, linSearch, List.length_map]
    congr 1
    · cases pending <;> rfl
    · congr 1
      funext i
      rw [List.getElem?_map]
      cases hi : pending[i]? with
      | none => rfl
      | some c =>
        simp only [Option.map_some, List.all_map]
        rw [eraseIdx'_map, linSearchH_lift fuel]
        rfl

theorem linearizableHB_lift (m0 : MapSt) (h : List Rec) : linearizableHB m0 (h.map Rec.lift) = linearizableB m0 h := by
  simp only [linearizableHB, linearizableB, List.length_map, linSearchH_lift]

/-! ### Put / Remove only, no key both put and removed: the final set does not depend on the order -/

def Op.setOnly : Op → Bool
  | .put _ | .remove _ => true
  | _ => false

theorem mem_removedKeys_cons (op : Op) (l : List Op) (k : Nat) :
    k ∈ removedKeys (op :: l) ↔ (op = .remove k ∨ k ∈ removedKeys l) := by
  cases op <;> simp [removedKeys]
  rename_i j
  constructor <;> (rintro (h | h); exact Or.inl h.symm; exact Or.inr h)

theorem mem_putKeys_cons (op : Op) (l : List Op) (k : Nat) :
    k ∈ putKeys (op :: l) ↔ (op = .put k ∨ k ∈ putKeys l) := by
  cases op <;> simp [putKeys]
  rename_i j
  constructor <;> (rintro (h | h); exact Or.inl h.symm; exact Or.inr h)

theorem setFold_final : ∀ (l : List Op) (m0 : MapSt),
    (∀ op, op ∈ l → op.setOnly = true) → (∀ k, k ∈ removedKeys l → k ∉ putKeys l) →
    ∀ k, (l.foldl (fun m op => (op.spec m).1) m0) k =
      if k ∈ removedKeys l then none else if k ∈ putKeys l then some 0 else m0 k
  | [], m0, _, _, k => by simp [removedKeys, putKeys]
  | op :: l, m0, hset, hdisj, k => by
    have hset' : ∀ o, o ∈ l → o.setOnly = true := fun o ho => hset o (List.mem_cons_of_mem _ ho)
    have hdisj' : ∀ j, j ∈ removedKeys l → j ∉ putKeys l := fun j hj hp =>
      hdisj j ((mem_removedKeys_cons op l j).2 (Or.inr hj)) ((mem_putKeys_cons op l j).2 (Or.inr hp))
    rw [List.foldl_cons, setFold_final l _ hset' hdisj' k]
    have hop := hset op List.mem_cons_self
    cases op with
    | remove j =>
      have hr : k ∈ removedKeys (Op.remove j :: l) ↔ (j = k ∨ k ∈ removedKeys l) := by
        rw [mem_removedKeys_cons]; simp
      have hp : k ∈ putKeys (Op.remove j :: l) ↔ k ∈ putKeys l := by
        rw [mem_putKeys_cons]; simp
      by_cases h1 : k ∈ removedKeys l
      · simp [h1, hr]
      · by_cases h2 : k ∈ putKeys l
        · have hne : j ≠ k := by
            intro e
            exact hdisj k (hr.2 (Or.inl e)) (hp.2 h2)
          simp [h1, h2, hr, hp, hne]
        · by_cases h3 : j = k
          · subst h3; simp [h1, h2, hr, Op.spec, upd]
          · have h3' : ¬ k = j := fun e => h3 e.symm
            simp [h1, h2, h3, h3', hr, hp, Op.spec, upd]
    | put j =>
      have hr : k ∈ removedKeys (Op.put j :: l) ↔ k ∈ removedKeys l := by
        rw [mem_removedKeys_cons]; simp
      have hp : k ∈ putKeys (Op.put j :: l) ↔ (j = k ∨ k ∈ putKeys l) := by
        rw [mem_putKeys_cons]; simp
      by_cases h1 : k ∈ removedKeys l
      · simp [h1, hr]
      · by_cases h2 : k ∈ putKeys l
        · simp [h1, h2, hr, hp]
        · by_cases h3 : j = k
          · subst h3; simp [h1, h2, hr, hp, Op.spec, upd]
          · have h3' : ¬ k = j := fun e => h3 e.symm
            simp [h1, h2, h3, h3', hr, hp, Op.spec, upd]
    | load _ => simp [Op.setOnly] at hop
    | store _ _ => simp [Op.setOnly] at hop
    | loadOrStore _ _ => simp [Op.setOnly] at hop
    | loadOrStoreFn _ _ => simp [Op.setOnly] at hop
    | delete _ => simp [Op.setOnly] at hop
    | range _ => simp [Op.setOnly] at hop
    | exists_ _ => simp [Op.setOnly] at hop

/-- any two orders of the same calls (in particular the linearization of any schedule and the thread-by-thread order
    of `seqFinal`) leave the same set -/
theorem setFold_perm (l1 l2 : List Op) (m0 : MapSt) (hp : l1.Perm l2)
    (hset : ∀ op, op ∈ l1 → op.setOnly = true) (hdisj : ∀ k, k ∈ removedKeys l1 → k ∉ putKeys l1) :
    l1.foldl (fun m op => (op.spec m).1) m0 = l2.foldl (fun m op => (op.spec m).1) m0 := by
  have hr : ∀ k, k ∈ removedKeys l1 ↔ k ∈ removedKeys l2 := fun k => (hp.filterMap _).mem_iff
  have hpk : ∀ k, k ∈ putKeys l1 ↔ k ∈ putKeys l2 := fun k => (hp.filterMap _).mem_iff
  funext k
  rw [setFold_final l1 m0 hset hdisj k,
      setFold_final l2 m0 (fun op h => hset op (hp.mem_iff.2 h))
        (fun j hj hq => hdisj j ((hr j).2 hj) ((hpk j).2 hq)) k]
  simp only [hr k, hpk k]

end Ioc.Conc
