/-
  Lemmas about the two layers of the binder in the placeholder model (Ioc.Placeholder.Layers): with nothing set the
  layered lookup IS the lookup of the documents; after Set, the path that was set, the paths below it and the paths
  above it answer with what was set.  Core Lean only.
-/
import Ioc.Placeholder
namespace Ioc.Placeholder

theorem alookup_ainsert_self {ν : Type} (k : Bytes) (v : ν) (m : List (Bytes × ν)) :
    alookup k (ainsert k v m) = some v := by
  induction m with
  | nil => simp [ainsert, alookup]
  | cons hd tl ih =>
    obtain ⟨k', v'⟩ := hd
    by_cases h : k' = k
    · simp [ainsert, alookup, h]
    · simp [ainsert, alookup, h, ih]

theorem splitDots_ne_nil (s : Bytes) : splitDots s ≠ [] := by
  induction s with
  | nil => simp [splitDots]
  | cons c rest ih =>
    simp only [splitDots]
    split
    · simp
    · split <;> simp

theorem splitDots_append (x y : Bytes) : splitDots (x ++ 46 :: y) = splitDots x ++ splitDots y := by
  induction x with
  | nil =>
    have hy := splitDots_ne_nil y
    simp only [List.nil_append, splitDots]
    cases h : splitDots y with
    | nil => exact absurd h hy
    | cons hd tl => simp
  | cons c x ih =>
    have hx := splitDots_ne_nil x
    simp only [List.cons_append, splitDots, ih]
    cases h : splitDots x with
    | nil => exact absurd h hx
    | cons hd tl =>
      simp only [List.cons_append]
      split <;> simp

theorem lower_append_dot (x y : Bytes) : lower (x ++ 46 :: y) = lower x ++ 46 :: lower y := by
  simp [lower, lowerByte]

/-! ### nothing set: the layered lookup is the lookup of the documents -/

theorem searchOver_nil (p : List Bytes) (hp : p ≠ []) : searchOver [] p = none := by
  cases p with
  | nil => exact absurd rfl hp
  | cons k rest => simp [searchOver, alookup]

theorem shadowedFrom_nil (p : List Bytes) (fuel i : Nat) (hi : 0 < i) : shadowedFrom [] p fuel i = false := by
  induction fuel generalizing i with
  | zero => rfl
  | succ n ih =>
    simp only [shadowedFrom]
    by_cases h : i ≥ p.length
    · simp [h]
    · have hne : p.take i ≠ [] := by
        intro e
        have hl := congrArg List.length e
        rw [List.length_take, List.length_nil] at hl
        omega
      simp [h, searchOver_nil _ hne]

theorem getPath_no_set (cfg : Cfg) (p : List Bytes) (hp : p ≠ []) :
    (Layers.mk [] cfg).getPath p = search (.map cfg) p := by
  simp [Layers.getPath, searchOver_nil p hp, shadowed, shadowedFrom_nil]

theorem get_no_set (cfg : Cfg) (key : Bytes) : (Layers.mk [] cfg).get key = get cfg key := by
  unfold Layers.get get
  split
  · simp
  · exact getPath_no_set cfg _ (splitDots_ne_nil _)

theorem replL_no_set (cfg : Cfg) : replL ⟨[], cfg⟩ = repl cfg := by
  funext content
  simp only [replL, repl, get_no_set]

theorem processL_no_set (cfg : Cfg) (s : Bytes) : processL ⟨[], cfg⟩ s = process cfg s := by
  simp only [processL, process, replaceAll, loop, replL_no_set]

/-! ### after Set -/

theorem searchOver_deepSet_same (p : List Bytes) (hp : p ≠ []) (m : Cfg) (v : CVal) :
    searchOver (deepSet m p v) p = nilToNone v := by
  induction p generalizing m with
  | nil => exact absurd rfl hp
  | cons k rest ih =>
    cases rest with
    | nil => simp [deepSet, searchOver, alookup_ainsert_self]
    | cons k2 rest2 =>
      simp only [deepSet, searchOver, alookup_ainsert_self]
      exact ih (by simp) _

theorem searchOver_deepSet_below (p : List Bytes) (hp : p ≠ []) (q : List Bytes) (hq : q ≠ []) (m vm : Cfg) :
    searchOver (deepSet m p (.map vm)) (p ++ q) = searchOver vm q := by
  induction p generalizing m with
  | nil => exact absurd rfl hp
  | cons k rest ih =>
    cases rest with
    | nil =>
      cases q with
      | nil => exact absurd rfl hq
      | cons q1 qs => simp [deepSet, searchOver, alookup_ainsert_self]
    | cons k2 rest2 =>
      simp only [deepSet, List.cons_append, searchOver, alookup_ainsert_self]
      exact ih (by simp) _

theorem searchOver_deepSet_above (a : List Bytes) (ha : a ≠ []) (q : List Bytes) (hq : q ≠ []) (m : Cfg) (v : CVal) :
    ∃ sub, searchOver (deepSet m (a ++ q) v) a = some (.map sub) ∧ searchOver sub q = nilToNone v := by
  induction a generalizing m with
  | nil => exact absurd rfl ha
  | cons k rest ih =>
    cases rest with
    | nil =>
      cases q with
      | nil => exact absurd rfl hq
      | cons q1 qs =>
        simp only [List.cons_append, List.nil_append, deepSet, searchOver, alookup_ainsert_self, nilToNone]
        exact ⟨_, rfl, searchOver_deepSet_same (q1 :: qs) (by simp) _ v⟩
    | cons k2 rest2 =>
      obtain ⟨sub, h1, h2⟩ := ih (by simp)
        (match alookup k m with
          | some (.map m') => m'
          | _ => [])
      refine ⟨sub, ?_, h2⟩
      simp only [List.cons_append, deepSet, searchOver, alookup_ainsert_self]
      exact h1

theorem get_of_over (l : Layers) (key : Bytes) (hk : key ≠ []) (v : CVal)
    (h : searchOver l.over (splitDots (lower key)) = some v) : l.get key = .val (some v) := by
  unfold Layers.get Layers.getPath
  have : key.isEmpty = false := by cases key <;> simp_all
  simp [this, h]

theorem set_get (l : Layers) (path path' : Bytes) (v : CVal) (hp : path' ≠ []) (hc : lower path' = lower path)
    (hv : lowerKeys v ≠ .null) : (l.set path v).get path' = .val (some (lowerKeys v)) := by
  apply get_of_over _ _ hp
  simp only [Layers.set, hc]
  rw [searchOver_deepSet_same _ (splitDots_ne_nil _)]
  cases h : lowerKeys v <;> simp_all [nilToNone]

theorem set_seen_below (l : Layers) (a q : Bytes) (vm : Cfg) (w : CVal)
    (h : searchOver (lowerKeysM vm) (splitDots (lower q)) = some w) :
    (l.set a (.map vm)).get (a ++ 46 :: q) = .val (some w) := by
  apply get_of_over _ _ (by simp)
  simp only [Layers.set, lower_append_dot, splitDots_append, lowerKeys]
  rw [searchOver_deepSet_below _ (splitDots_ne_nil _) _ (splitDots_ne_nil _)]
  exact h

theorem set_seen_through_ancestor (l : Layers) (a q : Bytes) (ha : a ≠ []) (v : CVal) :
    ∃ sub, (l.set (a ++ 46 :: q) v).get a = .val (some (.map sub)) ∧
      searchOver sub (splitDots (lower q)) = nilToNone (lowerKeys v) := by
  obtain ⟨sub, h1, h2⟩ := searchOver_deepSet_above (splitDots (lower a)) (splitDots_ne_nil _)
    (splitDots (lower q)) (splitDots_ne_nil _) l.over (lowerKeys v)
  refine ⟨sub, ?_, h2⟩
  apply get_of_over _ _ ha
  simp only [Layers.set, lower_append_dot, splitDots_append]
  exact h1

/-- the callback after Set: a placeholder that names a path with a value in the override layer resolves to that value -/
theorem replL_of_over (l : Layers) (content key : Bytes) (dflt : Option Bytes) (v : CVal) (hk : key ≠ [])
    (hs : splitColon content = (key, dflt)) (h : searchOver l.over (splitDots (lower key)) = some v)
    (hp : isAbsent (some v) = false) : replL l content = .ok (format v) := by
  unfold replL
  simp only [hs, get_of_over l key hk v h, hp]
  cases v <;> simp_all [formatOpt, isAbsent]

end Ioc.Placeholder
