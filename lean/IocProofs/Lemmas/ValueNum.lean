/-
  Lemmas about the decimal text of integers (natToDec / intToDec), used by C17.
-/
import Ioc.Value
namespace Ioc.Value

theorem digitByte_toNat (d : Nat) (h : d < 10) : (digitByte d).toNat = 48 + d := by
  unfold digitByte
  rw [UInt8.toNat_ofNat']
  omega

theorem isDigit_iff (b : UInt8) : isDigit b = true ↔ 48 ≤ b.toNat ∧ b.toNat ≤ 57 := by
  unfold isDigit
  simp [UInt8.le_iff_toNat_le]

theorem isDigit_digitByte (d : Nat) (h : d < 10) : isDigit (digitByte d) = true := by
  rw [isDigit_iff, digitByte_toNat d h]; omega

/-- value of a digit list read after an accumulator -/
def dval (a : Nat) (l : Bytes) : Nat := l.foldl (fun a b => 10 * a + (b.toNat - 48)) a

theorem dval_append (a : Nat) (l m : Bytes) : dval a (l ++ m) = dval (dval a l) m := by
  simp [dval, List.foldl_append]

theorem natDigits_spec : ∀ (f n : Nat) (acc : Bytes), n < 10 ^ (f + 1) →
    ∃ ds : Bytes, natDigits (f + 1) n acc = ds ++ acc ∧ ds ≠ [] ∧ (∀ b ∈ ds, isDigit b = true) ∧
      (∀ a, dval a ds = a * 10 ^ ds.length + n) ∧ (n ≠ 0 → ds.head? ≠ some 48)
  | f, n, acc, h => by
    unfold natDigits
    by_cases hn : n < 10
    · simp only [hn, if_true]
      refine ⟨[digitByte n], rfl, by simp, ?_, ?_, ?_⟩
      · intro b hb; simp at hb; subst hb; exact isDigit_digitByte n hn
      · intro a; simp [dval, digitByte_toNat n hn, Nat.mul_comm]
      · intro h0 h1
        simp at h1
        have := congrArg UInt8.toNat h1
        rw [digitByte_toNat n hn] at this
        simp at this; omega
    · simp only [hn, if_false]
      cases f with
      | zero => simp at h; omega
      | succ f =>
      have hlt : n / 10 < 10 ^ (f + 1) := by
        have : n < 10 * 10 ^ (f + 1) := by rw [Nat.pow_succ] at h; omega
        omega
      obtain ⟨ds, h1, h2, h3, h4, h5⟩ := natDigits_spec f (n / 10) (digitByte (n % 10) :: acc) hlt
      have hm : n % 10 < 10 := Nat.mod_lt _ (by omega)
      refine ⟨ds ++ [digitByte (n % 10)], by simp [h1], by simp, ?_, ?_, ?_⟩
      · intro b hb
        simp at hb
        rcases hb with hb | hb
        · exact h3 b hb
        · subst hb; exact isDigit_digitByte _ hm
      · intro a
        rw [dval_append, h4 a]
        simp [dval, digitByte_toNat _ hm, Nat.pow_succ]
        have := Nat.div_add_mod n 10
        generalize 10 ^ ds.length = p at *
        rw [Nat.mul_add, ← Nat.mul_assoc, Nat.mul_comm 10 a, Nat.mul_assoc, Nat.mul_comm 10 p]
        omega
      · intro _
        have hne : n / 10 ≠ 0 := by omega
        have := h5 hne
        cases ds with
        | nil => exact absurd rfl h2
        | cons d r => simpa using this

theorem natToDec_spec (n : Nat) (h : n < 10 ^ 40) :
    natToDec n ≠ [] ∧ (∀ b ∈ natToDec n, isDigit b = true) ∧ decToNat (natToDec n) = n ∧
      (n ≠ 0 → (natToDec n).head? ≠ some 48) := by
  obtain ⟨ds, h1, h2, h3, h4, h5⟩ := natDigits_spec 39 n [] h
  have e : natToDec n = ds := by simp [natToDec, h1]
  rw [e]
  refine ⟨h2, h3, ?_, h5⟩
  have := h4 0
  simpa [dval, decToNat] using this

theorem dval_dropZeros (l : Bytes) : decToNat (dropZeros l) = decToNat l := by
  induction l with
  | nil => rfl
  | cons b r ih =>
    unfold dropZeros
    by_cases hb : b = 48
    · simp only [hb, if_true]
      rw [ih]
      simp [decToNat]
    · simp [hb]

theorem takeWhile_all {α : Type} (p : α → Bool) (l : List α) (h : ∀ b ∈ l, p b = true) : l.takeWhile p = l := by
  induction l with
  | nil => rfl
  | cons a r ih =>
    simp only [List.takeWhile_cons, h a (by simp), if_true]
    rw [ih (fun b hb => h b (by simp [hb]))]

theorem dropWhile_all {α : Type} (p : α → Bool) (l : List α) (h : ∀ b ∈ l, p b = true) : l.dropWhile p = [] := by
  induction l with
  | nil => rfl
  | cons a r ih =>
    simp only [List.dropWhile_cons, h a (by simp), if_true]
    exact ih (fun b hb => h b (by simp [hb]))

theorem splitNumber_digits (ds : Bytes) (hne : ds ≠ []) (hall : ∀ b ∈ ds, isDigit b = true) :
    splitNumber ds = some (false, ds, []) := by
  cases ds with
  | nil => exact absurd rfl hne
  | cons d r =>
    have hd : isDigit d = true := hall d (by simp)
    have h45 : d ≠ 45 := by intro e; subst e; revert hd; decide
    have h43 : d ≠ 43 := by intro e; subst e; revert hd; decide
    unfold splitNumber
    split
    rename_i x neg body heq
    have hm : (neg, body) = (false, d :: r) := by
      rw [← heq]; split
      · rename_i h; simp at h; exact absurd h.1 h45
      · rename_i h; simp at h; exact absurd h.1 h43
      · rfl
    cases hm
    simp only [takeWhile_all isDigit (d :: r) hall, dropWhile_all isDigit (d :: r) hall]
    simp

theorem splitNumber_neg (ds : Bytes) (hne : ds ≠ []) (hall : ∀ b ∈ ds, isDigit b = true) :
    splitNumber (45 :: ds) = some (true, ds, []) := by
  unfold splitNumber
  simp only [takeWhile_all isDigit ds hall, dropWhile_all isDigit ds hall]
  cases ds with
  | nil => exact absurd rfl hne
  | cons d r => simp

theorem roundF64_small (n : Nat) (h : n ≤ 2 ^ 53) : roundF64 n = n := by
  unfold roundF64; simp [h]

theorem lowerAscii_digits_ne (ds : Bytes) (hne : ds ≠ []) (hd : ∀ b ∈ ds, isDigit b = true ∨ b = 45) (t : Bytes)
    (ht : t.head? = some 116 ∨ t.head? = some 102) : lowerAscii ds ≠ t := by
  cases ds with
  | nil => exact absurd rfl hne
  | cons d r =>
    intro e
    have hd' := hd d (by simp)
    have hl : lowerByte d = d := by
      unfold lowerByte
      rcases hd' with h | h
      · rw [isDigit_iff] at h
        have : ¬ (65 ≤ d ∧ d ≤ 90) := by
          intro hc; have := hc.1; rw [UInt8.le_iff_toNat_le] at this; simp at this; omega
        simp [this]
      · subst h; decide
    simp [lowerAscii, hl] at e
    subst e
    simp at ht
    rcases hd' with h | h
    · rw [isDigit_iff] at h
      rcases ht with ht | ht <;> (subst ht; simp at h)
    · subst h; simp at ht

theorem parseAny_intToDec (J : Json) (i : Int) (h : i.natAbs ≤ 2 ^ 53) :
    parseAny J (intToDec i) = .ok (.flt i) := by
  have hlt : i.natAbs < 10 ^ 40 := by
    have : (2:Nat) ^ 53 < 10 ^ 40 := by decide
    omega
  obtain ⟨hne, hall, hval, hhead⟩ := natToDec_spec i.natAbs hlt
  have h19 : ¬ (i.natAbs ≥ 10 ^ 19) := by
    have : (2:Nat) ^ 53 < 10 ^ 19 := by decide
    omega
  unfold parseAny intToDec
  by_cases hneg : i < 0
  · simp only [hneg, if_true]
    unfold parseAnyF
    have e1 : (45 :: natToDec i.natAbs).isEmpty = false := rfl
    have e2 : lowerAscii (45 :: natToDec i.natAbs) ≠ sTrue :=
      lowerAscii_digits_ne _ (by simp) (by intro b hb; simp at hb; rcases hb with hb | hb; exact Or.inr hb; exact Or.inl (hall b hb)) _ (Or.inl rfl)
    have e3 : lowerAscii (45 :: natToDec i.natAbs) ≠ sFalse :=
      lowerAscii_digits_ne _ (by simp) (by intro b hb; simp at hb; rcases hb with hb | hb; exact Or.inr hb; exact Or.inl (hall b hb)) _ (Or.inr rfl)
    simp only [e1, e2, e3, splitNumber_neg _ hne hall, if_false, Bool.false_eq_true]
    unfold parseNumber
    have hz : i.natAbs ≠ 0 := by omega
    simp [dropTrailingZeros, dropZeros, dval_dropZeros, hval, hz, h19, roundF64_small _ h]
    omega
  · simp only [hneg, if_false]
    unfold parseAnyF
    have e1 : (natToDec i.natAbs).isEmpty = false := by
      cases hh : natToDec i.natAbs with
      | nil => exact absurd hh hne
      | cons _ _ => rfl
    have e2 : lowerAscii (natToDec i.natAbs) ≠ sTrue :=
      lowerAscii_digits_ne _ hne (by intro b hb; exact Or.inl (hall b hb)) _ (Or.inl rfl)
    have e3 : lowerAscii (natToDec i.natAbs) ≠ sFalse :=
      lowerAscii_digits_ne _ hne (by intro b hb; exact Or.inl (hall b hb)) _ (Or.inr rfl)
    simp only [e1, e2, e3, splitNumber_digits _ hne hall, if_false, Bool.false_eq_true]
    unfold parseNumber
    simp [dropTrailingZeros, dropZeros, dval_dropZeros, hval, h19, roundF64_small _ h]
    omega

end Ioc.Value
