/-
  Lemmas/ValueKeys — which key of a map a struct member is bound from (decodeStructFromMap's key search,
  `Ioc.Value.lookupField`: the key spelled exactly like the member's name, else the first key equal to it up to
  letter case).

  * `lookupField_eq_find`   when no two keys of the map are equal up to letter case (`foldDistinct`), the search is the
                            case-insensitive one: exact-first and first-match play no part
  * `decodeFields_respelled` respelling the keys of a map (letter case only, values untouched) does not change what a
                            struct binds from it: a map literal `map[Host:a Port:1]` binds like the section the document
                            gives (`host: a, port: 1` after viper lower-cased its keys)
  * `decodeFields_decoy`    a key that equals no member's name up to letter case (`_a`, `a-`, `max_conn` next to
                            `maxconn`) can be added to / removed from the map anywhere without changing what is bound
-/
import Ioc.Value
namespace Ioc.Value

/-- no two keys of the map are equal up to (ASCII) letter case -/
def foldDistinct : List (Bytes × Val) → Bool
  | [] => true
  | kv :: r => r.all (fun x => !lowerEq x.1 kv.1) && foldDistinct r

theorem lowerEq_refl (a : Bytes) : lowerEq a a = true := by simp [lowerEq]

theorem lowerEq_symm (a b : Bytes) : lowerEq a b = lowerEq b a := by
  simp only [lowerEq]
  by_cases h : lowerAscii a = lowerAscii b
  · simp [h]
  · have h' : ¬ lowerAscii b = lowerAscii a := fun e => h e.symm
    simp [h, h']

theorem lowerEq_trans (a b c : Bytes) (h1 : lowerEq a b = true) (h2 : lowerEq b c = true) : lowerEq a c = true := by
  simp only [lowerEq, decide_eq_true_eq] at *
  exact h1.trans h2

theorem alookup_mem_key (n : Bytes) : ∀ (m : List (Bytes × Val)) (v : Val), alookup n m = some v → (n, v) ∈ m
  | [], _, h => by simp [alookup] at h
  | (k, w) :: r, v, h => by
    simp only [alookup] at h
    split at h
    · rename_i hk
      simp at h; subst h; subst hk; simp
    · exact List.mem_cons_of_mem _ (alookup_mem_key n r v h)

/-- with keys that are pairwise different up to letter case, the member's key search is the case-insensitive search -/
theorem lookupField_eq_find (n : Bytes) : ∀ (m : List (Bytes × Val)), foldDistinct m = true →
    lookupField n m = (m.find? (fun kv => lowerEq kv.1 n)).map (·.2)
  | [], _ => rfl
  | (k, w) :: r, h => by
    simp only [foldDistinct, Bool.and_eq_true, List.all_eq_true, Bool.not_eq_true'] at h
    have ih := lookupField_eq_find n r h.2
    unfold lookupField at ih ⊢
    simp only [alookup, List.find?_cons]
    by_cases hk : k = n
    · subst hk
      simp [lowerEq_refl]
    · simp only [hk, if_false]
      cases hl : lowerEq k n with
      | true =>
        -- the head matches up to case: no later key is spelled exactly like the name
        cases ha : alookup n r with
        | none => simp
        | some v =>
          have hm := alookup_mem_key n r v ha
          have hne := h.1 (n, v) hm
          simp only at hne
          rw [lowerEq_symm] at hne
          rw [hl] at hne
          exact absurd hne (by simp)
      | false =>
        simpa using ih

/-- `m'` spells the keys of `m` in another letter case; order and values are the same -/
inductive Respelled : List (Bytes × Val) → List (Bytes × Val) → Prop
  | nil : Respelled [] []
  | cons {k k' : Bytes} {v : Val} {r r' : List (Bytes × Val)} :
      lowerEq k k' = true → Respelled r r' → Respelled ((k, v) :: r) ((k', v) :: r')

theorem Respelled.all_not (x : Bytes) : ∀ {m m' : List (Bytes × Val)}, Respelled m m' →
    (m.all (fun y => !lowerEq y.1 x) = true) → ∀ x', lowerEq x x' = true → m'.all (fun y => !lowerEq y.1 x') = true
  | _, _, .nil, _, _, _ => rfl
  | _, _, .cons (k := k) (k' := k') hk hr, h, x', hx => by
    simp only [List.all_cons, Bool.and_eq_true, Bool.not_eq_true'] at h ⊢
    refine ⟨?_, Respelled.all_not x hr h.2 x' hx⟩
    cases hc : lowerEq k' x' with
    | false => rfl
    | true =>
      have h1 : lowerEq k x' = true := lowerEq_trans k k' x' hk hc
      have h2 : lowerEq k x = true := lowerEq_trans k x' x h1 (by rw [lowerEq_symm]; exact hx)
      rw [h2] at h
      exact absurd h.1 (by simp)

theorem Respelled.foldDistinct : ∀ {m m' : List (Bytes × Val)}, Respelled m m' → foldDistinct m = true → foldDistinct m' = true
  | _, _, .nil, _ => rfl
  | _, _, .cons (k := k) (k' := k') hk hr, h => by
    simp only [Ioc.Value.foldDistinct, Bool.and_eq_true] at h ⊢
    exact ⟨Respelled.all_not k hr h.1 k' hk, Respelled.foldDistinct hr h.2⟩

theorem Respelled.find (n : Bytes) : ∀ {m m' : List (Bytes × Val)}, Respelled m m' →
    (m.find? (fun kv => lowerEq kv.1 n)).map (·.2) = (m'.find? (fun kv => lowerEq kv.1 n)).map (·.2)
  | _, _, .nil => rfl
  | _, _, .cons (k := k) (k' := k') hk hr => by
    simp only [List.find?_cons]
    have e : lowerEq k n = lowerEq k' n := by
      cases h1 : lowerEq k n with
      | true =>
        have : lowerEq k' n = true := lowerEq_trans k' k n (by rw [lowerEq_symm]; exact hk) h1
        exact this.symm
      | false =>
        cases h2 : lowerEq k' n with
        | false => rfl
        | true =>
          have : lowerEq k n = true := lowerEq_trans k k' n hk h2
          rw [h1] at this
          exact absurd this (by simp)
    rw [e]
    cases lowerEq k' n with
    | true => rfl
    | false => exact Respelled.find n hr

theorem lookupField_respelled (n : Bytes) {m m' : List (Bytes × Val)} (hr : Respelled m m') (hd : foldDistinct m = true) :
    lookupField n m = lookupField n m' := by
  rw [lookupField_eq_find n m hd, lookupField_eq_find n m' (hr.foldDistinct hd)]
  exact hr.find n

/-- respelling the keys of a map in another letter case does not change what a struct binds from it -/
theorem decodeFields_respelled : ∀ (fs : List (Bytes × FieldTy)) {m m' : List (Bytes × Val)}, Respelled m m' →
    foldDistinct m = true → decodeFields fs m = decodeFields fs m'
  | [], _, _, _, _ => by simp [decodeFields]
  | (n, t) :: rest, m, m', hr, hd => by
    simp only [decodeFields]
    rw [lookupField_respelled n hr hd, decodeFields_respelled rest hr hd]

/-- a key that equals the name neither exactly nor up to letter case plays no part in the member's key search -/
theorem lookupField_decoy (n d : Bytes) (w : Val) (hd : lowerEq d n = false) : ∀ (m1 m2 : List (Bytes × Val)),
    lookupField n (m1 ++ (d, w) :: m2) = lookupField n (m1 ++ m2) := by
  have hne : ¬ d = n := by
    intro e; subst e; rw [lowerEq_refl] at hd; exact absurd hd (by simp)
  have ha : ∀ m1 m2 : List (Bytes × Val), alookup n (m1 ++ (d, w) :: m2) = alookup n (m1 ++ m2) := by
    intro m1 m2
    induction m1 with
    | nil => simp [alookup, hne]
    | cons kv r ih =>
      obtain ⟨k, v⟩ := kv
      simp only [List.cons_append, alookup]
      rw [ih]
  have hf : ∀ m1 m2 : List (Bytes × Val), (m1 ++ (d, w) :: m2).find? (fun kv => lowerEq kv.1 n) =
      (m1 ++ m2).find? (fun kv => lowerEq kv.1 n) := by
    intro m1 m2
    induction m1 with
    | nil => simp [hd]
    | cons kv r ih =>
      simp only [List.cons_append, List.find?_cons]
      rw [ih]
  intro m1 m2
  unfold lookupField
  rw [ha, hf]

/-- a key that equals no member's name up to letter case can be added to the map anywhere: the struct binds the same -/
theorem decodeFields_decoy (d : Bytes) (w : Val) (m1 m2 : List (Bytes × Val)) : ∀ (fs : List (Bytes × FieldTy)),
    (∀ f ∈ fs, lowerEq d f.1 = false) → decodeFields fs (m1 ++ (d, w) :: m2) = decodeFields fs (m1 ++ m2)
  | [], _ => by simp [decodeFields]
  | (n, t) :: rest, h => by
    simp only [decodeFields]
    rw [lookupField_decoy n d w (h (n, t) (by simp)) m1 m2,
      decodeFields_decoy d w m1 m2 rest (fun f hf => h f (List.mem_cons_of_mem _ hf))]

end Ioc.Value
