/-
  The cache invariant of the factory machine (Ioc.Container) and its preservation by every step.
  Consequences used by C01 / C03: an object stored in a field of a holder is the published one (l1) or the single early
  version (l2) of its name; published entries never change; a publication leaves no other version behind.
-/
import IocProofs.Lemmas.M2InvStep
namespace Ioc.M2

def snames (st : St) : List Nat := st.stack.map (·.name)

/-- the part of the stack below the frame of `h` -/
def belowN : List Nat → Nat → List Nat
  | [], _ => []
  | x :: rest, h => if x = h then rest else belowN rest h

theorem belowN_sub (s : List Nat) (h x : Nat) (hx : x ∈ belowN s h) : x ∈ s := by
  induction s with
  | nil => simp [belowN] at hx
  | cons f rest ih =>
    simp only [belowN] at hx
    split at hx
    · simp [hx]
    · simp [ih hx]

theorem belowN_cons_ne (x : Nat) (s : List Nat) (h : Nat) (hne : x ≠ h) : belowN (x :: s) h = belowN s h := by
  simp [belowN, hne]

theorem onStack_iff (st : St) (n : Nat) : onStack st n = true ↔ n ∈ snames st := by
  simp [onStack, snames]

theorem onStack_false_iff (st : St) (n : Nat) : onStack st n = false ↔ n ∉ snames st := by
  rw [← onStack_iff]; cases onStack st n <;> simp

structure WF (sc : Scen) : Prop where
  early_name : ∀ n, (sc.earlyO n).name = n
  after_name : ∀ n, (sc.afterO n).name = n

theorem WF.init_name {sc : Scen} (wf : WF sc) (n : Nat) : (initResult sc n).name = n := by
  unfold initResult; split
  · exact wf.after_name n
  · rfl

/-- the start has not failed -/
def NF (st : St) : Prop := ∀ w s, st.status ≠ .failed w s

theorem NF_of_running {st : St} (h : st.status = .running) : NF st := by
  intro w s h'; rw [h] at h'; cases h'

theorem NF_of_done {st : St} (h : st.status = .done) : NF st := by
  intro w s h'; rw [h] at h'; cases h'

/-- stored-object condition: `o` is the published object of its name, or the one early version of a component still in
    creation — and if the holder is itself still in creation, that component lies below the holder on the stack
    (or is the holder: only possible for the not yet filtered `acc`) -/
def Ok (st : St) (o : Obj) (onSt : Prop) (bel : List Nat) (self : Option Nat) : Prop :=
  st.l1 o.name = some o ∨ (st.l2 o.name = some o ∧ (onSt → (o.name ∈ bel ∨ self = some o.name)))

structure Inv (sc : Scen) (st : St) : Prop where
  nodup : (snames st).Nodup
  l1_off : ∀ n ∈ snames st, st.l1 n = none
  on_has : ∀ n ∈ snames st, (st.l2 n).isSome ∨ st.l3 n = true
  off_clean : ∀ n, n ∉ snames st → st.l2 n = none ∧ st.l3 n = false
  l1_name : ∀ n o, st.l1 n = some o → o.name = n
  l2_name : ∀ n o, st.l2 n = some o → o.name = n
  l1_src : ∀ n o, st.l1 n = some o → o = sc.earlyO n ∨ o = initResult sc n
  l2_src : ∀ n o, st.l2 n = some o → o = sc.earlyO n
  stk_names : ∀ n ∈ snames st, n ∈ sc.names
  quiet : st.status ≠ .running → st.stack = []
  fld_dom : ∀ h i o, o ∈ st.fields h i → h ∈ sc.names ∧ i < (pts sc h).length ∧ o.name ≠ h
  one_ver : ∀ h i o h' i' o', o ∈ st.fields h i → o' ∈ st.fields h' i' → o.name = o'.name → o = o'
  fld_live : NF st → ∀ h i o, o ∈ st.fields h i → h ∈ snames st ∨ st.l1 h ≠ none
  fld : NF st → ∀ h i o, o ∈ st.fields h i → Ok st o (h ∈ snames st) (belowN (snames st) h) none
  acc : ∀ f ∈ st.stack, ∀ o ∈ f.acc, Ok st o True (belowN (snames st) f.name) (some f.name)

theorem inv_init (sc : Scen) : Inv sc (init sc) := by
  constructor <;> simp [init, snames]

theorem Inv.of_sim {sc : Scen} {a b : St} (h : Sim a b) (hi : Inv sc a) : Inv sc b := by
  obtain ⟨al1, al2, al3, ast, afl, atb, atd, asg, alg, asts⟩ := a
  obtain ⟨bl1, bl2, bl3, bst, bfl, btb, btd, bsg, blg, bsts⟩ := b
  obtain ⟨h1, h2, h3, h4, h5, h6⟩ := h
  simp only at h1 h2 h3 h4 h5 h6
  subst h1; subst h2; subst h3; subst h4; subst h5; subst h6
  exact ⟨hi.nodup, hi.l1_off, hi.on_has, hi.off_clean, hi.l1_name, hi.l2_name, hi.l1_src, hi.l2_src, hi.stk_names,
    hi.quiet, hi.fld_dom, hi.one_ver, hi.fld_live, hi.fld, hi.acc⟩

/-- being the current (published or early) version of one's name -/
def Cur (st : St) (o : Obj) : Prop := st.l1 o.name = some o ∨ st.l2 o.name = some o

theorem Ok.cur {st : St} {o : Obj} {P : Prop} {bel : List Nat} {self : Option Nat} (h : Ok st o P bel self) : Cur st o := by
  rcases h with h | ⟨h, _⟩
  · exact Or.inl h
  · exact Or.inr h

theorem Inv.l1_l2 {sc : Scen} {st : St} (hi : Inv sc st) (n : Nat) (o : Obj) (h : st.l1 n = some o) : st.l2 n = none := by
  apply (hi.off_clean n ?_).1
  intro hn
  rw [hi.l1_off n hn] at h; cases h

theorem Inv.cur_unique {sc : Scen} {st : St} (hi : Inv sc st) (o o' : Obj) (h : Cur st o) (h' : Cur st o')
    (hn : o.name = o'.name) : o = o' := by
  rcases h with h | h <;> rcases h' with h' | h'
  · rw [hn, h'] at h; cases h; rfl
  · rw [hn] at h; rw [hi.l1_l2 _ _ h] at h'; cases h'
  · rw [← hn] at h'; rw [hi.l1_l2 _ _ h'] at h; cases h
  · rw [hn, h'] at h; cases h; rfl

/-- with an empty stack (between two top-level creations, and at the end) every stored object is the published one -/
theorem Inv.quiescent {sc : Scen} {st : St} (hi : Inv sc st) (hnf : NF st) (he : st.stack = []) :
    ∀ h i o, o ∈ st.fields h i → st.l1 o.name = some o := by
  intro h i o ho
  rcases hi.fld hnf h i o ho with h1 | ⟨h2, _⟩
  · exact h1
  · have := (hi.off_clean o.name (by simp [snames, he])).1
    rw [this] at h2; cases h2

theorem Inv.set_done {sc : Scen} {st : St} (hi : Inv sc st) (hnf : NF st) (hs : st.stack = []) :
    Inv sc { st with status := .done } :=
  ⟨hi.nodup, hi.l1_off, hi.on_has, hi.off_clean, hi.l1_name, hi.l2_name, hi.l1_src, hi.l2_src, hi.stk_names,
    fun _ => hs, hi.fld_dom, hi.one_ver, fun _ => hi.fld_live hnf, fun _ => hi.fld hnf, hi.acc⟩

/-- a failure: every creation in progress is abandoned and its cache entries are removed -/
theorem inv_failAt (sc : Scen) (st : St) (n : Nat) (hi : Inv sc st) : Inv sc (failAt st n) := by
  have hnnf : ¬ NF (failAt st n) := fun h => h n st.stage rfl
  constructor
  · simp [snames, failAt]
  · simp [snames, failAt]
  · simp [snames, failAt]
  · intro x _
    simp only [failAt]
    cases hx : onStack st x with
    | true => simp
    | false => simpa using hi.off_clean x ((onStack_false_iff st x).mp hx)
  · exact hi.l1_name
  · intro x o h
    simp only [failAt] at h
    split at h
    · cases h
    · exact hi.l2_name x o h
  · exact hi.l1_src
  · intro x o h
    simp only [failAt] at h
    split at h
    · cases h
    · exact hi.l2_src x o h
  · simp [snames, failAt]
  · intro _; rfl
  · exact hi.fld_dom
  · exact hi.one_ver
  · intro h; exact absurd h hnnf
  · intro h; exact absurd h hnnf
  · simp [failAt]

/-- GetSingleton runs the early-reference factory of a component in creation -/
theorem inv_early (sc : Scen) (wf : WF sc) (st : St) (c : Nat) (hi : Inv sc st) (hr : st.status = .running)
    (h1 : st.l1 c = none) (h2 : st.l2 c = none) (h3 : st.l3 c = true) :
    Inv sc { st with l2 := upd st.l2 c (some (sc.earlyO c)), l3 := upd st.l3 c false } ∧ c ∈ snames st := by
  have hc : c ∈ snames st := by
    by_cases hc : c ∈ snames st
    · exact hc
    · have := (hi.off_clean c hc).2; rw [this] at h3; cases h3
  -- no stored object is named c
  have key : ∀ (o' : Obj) (P : Prop) (bel : List Nat) (self : Option Nat), o'.name = c → ¬ Ok st o' P bel self := by
    intro o' P bel self hn hok
    rcases hok with h | ⟨h, _⟩
    · rw [hn, h1] at h; cases h
    · rw [hn, h2] at h; cases h
  have okmono : ∀ (o' : Obj) (P : Prop) (bel : List Nat) (self : Option Nat), Ok st o' P bel self →
      Ok { st with l2 := upd st.l2 c (some (sc.earlyO c)), l3 := upd st.l3 c false } o' P bel self := by
    intro o' P bel self hok
    have hne : o'.name ≠ c := fun hn => key o' P bel self hn hok
    rcases hok with h | ⟨h, hb⟩
    · exact Or.inl h
    · exact Or.inr ⟨by simp [upd, hne, h], hb⟩
  refine ⟨?_, hc⟩
  constructor
  · exact hi.nodup
  · exact hi.l1_off
  · intro n hn
    by_cases hnc : n = c
    · subst hnc; left; simp
    · have := hi.on_has n hn
      simpa [upd, hnc] using this
  · intro n hn
    have hnc : n ≠ c := fun h => hn (h ▸ hc)
    have := hi.off_clean n hn
    simpa [upd, hnc] using this
  · exact hi.l1_name
  · intro n o' h
    by_cases hnc : n = c
    · subst hnc; simp at h; subst h; exact wf.early_name n
    · simp [upd, hnc] at h; exact hi.l2_name n o' h
  · exact hi.l1_src
  · intro n o' h
    by_cases hnc : n = c
    · subst hnc; simp at h; exact h.symm
    · simp [upd, hnc] at h; exact hi.l2_src n o' h
  · exact hi.stk_names
  · intro h; exact absurd hr h
  · exact hi.fld_dom
  · exact hi.one_ver
  · exact hi.fld_live
  · intro hnf h i o' ho'
    exact okmono _ _ _ _ (hi.fld hnf h i o' ho')
  · intro f hf o' ho'
    exact okmono _ _ _ _ (hi.acc f hf o' ho')

/-- a lookup that succeeds keeps the invariant and returns an object that is current -/
theorem inv_lookup_hit (sc : Scen) (wf : WF sc) (st st' : St) (c : Nat) (o : Obj) (hi : Inv sc st)
    (hr : st.status = .running) (hl : lookup sc st c = .hit o st') :
    Inv sc st' ∧ o.name = c ∧ (st'.l1 c = some o ∨ (st'.l2 c = some o ∧ c ∈ snames st)) := by
  rcases lookup_hit sc st st' c o hl with ⟨rfl, h | ⟨h1, h2⟩⟩ | ⟨h1, h2, h3, rfl, rfl⟩
  · exact ⟨hi, hi.l1_name c o h, Or.inl h⟩
  · refine ⟨hi, hi.l2_name c o h2, Or.inr ⟨h2, ?_⟩⟩
    by_cases hc : c ∈ snames st'
    · exact hc
    · have := (hi.off_clean c hc).1; rw [this] at h2; cases h2
  · have ⟨hi', hc⟩ := inv_early sc wf st c hi hr h1 h2 h3
    refine ⟨hi'.of_sim ⟨by simp, by simp, by simp, by simp, by simp, by simp⟩, wf.early_name c, Or.inr ⟨by simp, hc⟩⟩

/-- entering a fresh name -/
theorem inv_push (sc : Scen) (st : St) (c : Nat) (hi : Inv sc st) (hr : st.status = .running) (hc : c ∈ sc.names)
    (h1 : st.l1 c = none) (h2 : st.l2 c = none) (h3 : st.l3 c = false) :
    Inv sc { st with l3 := upd st.l3 c true, stack := ⟨c, 0, 0, []⟩ :: st.stack } := by
  have hnf : NF st := NF_of_running hr
  have hoff : c ∉ snames st := by
    intro hon
    rcases hi.on_has c hon with h | h
    · simp [h2] at h
    · simp [h3] at h
  have hsn : snames { st with l3 := upd st.l3 c true, stack := ⟨c, 0, 0, []⟩ :: st.stack } = c :: snames st := by
    simp [snames]
  have nofld : ∀ i o, o ∉ st.fields c i := by
    intro i o ho
    rcases hi.fld_live hnf c i o ho with h | h
    · exact hoff h
    · exact h h1
  constructor
  · rw [hsn]; exact List.nodup_cons.mpr ⟨hoff, hi.nodup⟩
  · intro n hn; rw [hsn] at hn
    rcases List.mem_cons.mp hn with rfl | hn
    · exact h1
    · exact hi.l1_off n hn
  · intro n hn; rw [hsn] at hn
    rcases List.mem_cons.mp hn with rfl | hn
    · right; simp
    · have hne : n ≠ c := fun h => hoff (h ▸ hn)
      simpa [upd, hne] using hi.on_has n hn
  · intro n hn; rw [hsn] at hn
    have hne : n ≠ c := fun h => hn (by simp [h])
    have hn' : n ∉ snames st := fun h => hn (by simp [h])
    simpa [upd, hne] using hi.off_clean n hn'
  · exact hi.l1_name
  · exact hi.l2_name
  · exact hi.l1_src
  · exact hi.l2_src
  · intro n hn; rw [hsn] at hn
    rcases List.mem_cons.mp hn with rfl | hn
    · exact hc
    · exact hi.stk_names n hn
  · intro h; exact absurd hr h
  · exact hi.fld_dom
  · exact hi.one_ver
  · intro _ h i o ho
    rcases hi.fld_live hnf h i o ho with h' | h'
    · left; rw [hsn]; simp [h']
    · right; exact h'
  · intro _ h i o ho
    have := hi.fld hnf h i o ho
    have hhc : h ≠ c := fun heq => nofld i o (heq ▸ ho)
    rw [hsn, belowN_cons_ne c _ h (Ne.symm hhc)]
    rcases this with h' | ⟨h', hb⟩
    · exact Or.inl h'
    · refine Or.inr ⟨h', fun hon => hb ?_⟩
      rcases List.mem_cons.mp hon with heq | hon
      · exact absurd heq hhc
      · exact hon
  · intro f hf o ho
    rcases List.mem_cons.mp hf with rfl | hf
    · simp at ho
    · have hfn : f.name ∈ snames st := List.mem_map.mpr ⟨f, hf, rfl⟩
      have hne : c ≠ f.name := fun h => hoff (h ▸ hfn)
      rw [hsn, belowN_cons_ne c _ _ hne]
      exact hi.acc f hf o ho

/-- createComponent up to and including the configuration callbacks -/
theorem inv_enter (sc : Scen) (st : St) (c : Nat) (hi : Inv sc st) (hr : st.status = .running)
    (h1 : st.l1 c = none) (h2 : st.l2 c = none) (h3 : st.l3 c = false) : Inv sc (enter sc st c) := by
  unfold enter
  split
  · rename_i hc
    have hp := inv_push sc st c hi hr hc h1 h2 h3
    dsimp only
    split
    · split
      · exact inv_failAt sc _ c (hp.of_sim (addLog_sim sc _ c _).symm)
      · exact hp.of_sim ((addLog_sim sc _ c _).trans (addLog_sim sc _ c _)).symm
    · exact hp
  · exact inv_failAt sc st c hi

/-- the top frame advances (append to acc / next point / set a field) -/
theorem inv_top (sc : Scen) (st : St) (f f' : Frame) (rest : List Frame) (flds' : Nat → Nat → List Obj)
    (hi : Inv sc st) (hr : st.status = .running) (hs : st.stack = f :: rest) (hn : f'.name = f.name)
    (hacc : ∀ o ∈ f'.acc, Ok st o True (belowN (snames st) f.name) (some f.name))
    (hfld : ∀ h i o, o ∈ flds' h i → o ∈ st.fields h i ∨
        (h = f.name ∧ i < (pts sc f.name).length ∧ o.name ≠ f.name ∧ Ok st o True (belowN (snames st) f.name) none)) :
    Inv sc { st with stack := f' :: rest, fields := flds' } := by
  have hnf : NF st := NF_of_running hr
  have hsn : snames { st with stack := f' :: rest, fields := flds' } = snames st := by
    simp [snames, hs, hn]
  have hfn : f.name ∈ snames st := by simp [snames, hs]
  have hcur : ∀ h i o, o ∈ flds' h i → Cur st o := by
    intro h i o ho
    rcases hfld h i o ho with h' | ⟨_, _, _, hok⟩
    · exact (hi.fld hnf h i o h').cur
    · exact hok.cur
  constructor
  · rw [hsn]; exact hi.nodup
  · rw [hsn]; exact hi.l1_off
  · rw [hsn]; exact hi.on_has
  · rw [hsn]; exact hi.off_clean
  · exact hi.l1_name
  · exact hi.l2_name
  · exact hi.l1_src
  · exact hi.l2_src
  · rw [hsn]; exact hi.stk_names
  · intro h; exact absurd hr h
  · intro h i o ho
    rcases hfld h i o ho with h' | ⟨rfl, hlt, hne, _⟩
    · exact hi.fld_dom h i o h'
    · exact ⟨hi.stk_names _ hfn, hlt, hne⟩
  · intro h i o h' i' o' ho ho' hnn
    exact hi.cur_unique o o' (hcur h i o ho) (hcur h' i' o' ho') hnn
  · intro _ h i o ho
    rw [hsn]
    rcases hfld h i o ho with h' | ⟨rfl, _, _, _⟩
    · exact hi.fld_live hnf h i o h'
    · exact Or.inl hfn
  · intro _ h i o ho
    rw [hsn]
    rcases hfld h i o ho with h' | ⟨rfl, _, hne, hok⟩
    · exact hi.fld hnf h i o h'
    · rcases hok with h1 | ⟨h2, hb⟩
      · exact Or.inl h1
      · exact Or.inr ⟨h2, fun _ => hb trivial⟩
  · intro g hg o ho
    rw [hsn]
    rcases List.mem_cons.mp hg with rfl | hg
    · rw [hn]; exact hacc o ho
    · exact hi.acc g (by rw [hs]; exact List.mem_cons_of_mem _ hg) o ho

theorem snames_publish (st : St) (n : Nat) (pub : Obj) (rest : List Frame) :
    snames (publish st n pub rest) = rest.map (·.name) := by
  unfold publish snames
  cases rest <;> simp

theorem finishedHolderHas_true (sc : Scen) (st : St) (e : Obj) (h i : Nat) (hn : h ∈ sc.names) (hoff : h ∉ snames st)
    (hi : i < (pts sc h).length) (he : e ∈ st.fields h i) : finishedHolderHas sc st e = true := by
  unfold finishedHolderHas
  simp only [List.any_eq_true, Bool.and_eq_true, Bool.not_eq_true']
  exact ⟨h, hn, (onStack_false_iff st h).mpr hoff, i, List.mem_range.mpr hi, by simpa using he⟩

theorem PubCond.name {sc : Scen} {s : St} {n : Nat} {pub : Obj} (wf : WF sc) (hi : Inv sc s) (h : PubCond sc s n pub) :
    pub.name = n := by
  rcases h with ⟨_, rfl⟩ | ⟨e, he, ⟨_, rfl⟩ | ⟨_, _, rfl⟩⟩
  · exact wf.init_name n
  · exact hi.l2_name n _ he
  · exact wf.init_name n

theorem PubCond.src {sc : Scen} {s : St} {n : Nat} {pub : Obj} (hi : Inv sc s) (h : PubCond sc s n pub) :
    pub = sc.earlyO n ∨ pub = initResult sc n := by
  rcases h with ⟨_, rfl⟩ | ⟨e, he, ⟨_, rfl⟩ | ⟨_, _, rfl⟩⟩
  · exact Or.inr rfl
  · exact Or.inl (hi.l2_src n _ he)
  · exact Or.inr rfl

/-- the version check of doCreateComponent: when the top of the stack is published as `pub`, no holder keeps any other
    object of that name -/
theorem PubCond.stored {sc : Scen} {s : St} {f : Frame} {rest : List Frame} {pub : Obj} (hi : Inv sc s) (hnf : NF s)
    (hs : s.stack = f :: rest) (h : PubCond sc s f.name pub) :
    ∀ h i o, o ∈ s.fields h i → o.name = f.name → o = pub := by
  have hsn0 : snames s = f.name :: rest.map (·.name) := by simp [snames, hs]
  have hfn : f.name ∈ snames s := by simp [hsn0]
  have hl1 : s.l1 f.name = none := hi.l1_off _ hfn
  rcases h with ⟨hl2, rfl⟩ | ⟨e, hl2, hc⟩
  · intro h i o ho hon
    rcases hi.fld hnf h i o ho with h1 | ⟨h2, _⟩
    · rw [hon, hl1] at h1; cases h1
    · rw [hon, hl2] at h2; cases h2
  · have hstoredE : ∀ h i o, o ∈ s.fields h i → o.name = f.name → o = e := by
      intro h i o ho hon
      rcases hi.fld hnf h i o ho with h1 | ⟨h2, _⟩
      · rw [hon, hl1] at h1; cases h1
      · rw [hon, hl2] at h2; cases h2; rfl
    rcases hc with ⟨_, rfl⟩ | ⟨_, hnf', rfl⟩
    · exact hstoredE
    · intro h i o ho hon
      exfalso
      have hoe := hstoredE h i o ho hon
      subst hoe
      have hdom := hi.fld_dom h i o ho
      by_cases hh : h ∈ snames s
      · -- holder still in creation: f would have to be strictly below it
        have hhne : h ≠ f.name := fun heq => hdom.2.2 (hon.trans heq.symm)
        rcases hi.fld hnf h i o ho with h1 | ⟨_, hb⟩
        · rw [hon, hl1] at h1; cases h1
        · rcases hb hh with hb | hb
          · rw [hsn0, belowN_cons_ne _ _ _ (Ne.symm hhne)] at hb
            have := belowN_sub _ _ _ hb
            have hnd := hi.nodup; rw [hsn0] at hnd
            exact (List.nodup_cons.mp hnd).1 (hon ▸ this)
          · cases hb
      · -- finished holder: the check would have fired
        rw [finishedHolderHas_true sc s o h i hdom.1 hh hdom.2.1 ho] at hnf'
        cases hnf'

/-- publishing the top of the stack -/
theorem inv_publish (sc : Scen) (st : St) (f : Frame) (rest : List Frame) (pub : Obj)
    (hi : Inv sc st) (hr : st.status = .running) (hs : st.stack = f :: rest) (hpn : pub.name = f.name)
    (hsrc : pub = sc.earlyO f.name ∨ pub = initResult sc f.name)
    (hstored : ∀ h i o, o ∈ st.fields h i → o.name = f.name → o = pub) :
    Inv sc (publish st f.name pub rest) := by
  have hnf : NF st := NF_of_running hr
  have hsn0 : snames st = f.name :: rest.map (·.name) := by simp [snames, hs]
  have hnd := hi.nodup; rw [hsn0] at hnd
  have hnotin : f.name ∉ rest.map (·.name) := (List.nodup_cons.mp hnd).1
  have hsn := snames_publish st f.name pub rest
  -- Ok transfer for objects not named n
  have okT : ∀ (o : Obj) (P P' : Prop) (h : Nat) (self : Option Nat), o.name ≠ f.name → h ≠ f.name → (P' → P) →
      Ok st o P (belowN (snames st) h) self →
      Ok (publish st f.name pub rest) o P' (belowN (rest.map (·.name)) h) self := by
    intro o P P' h self hne hh hPP hok
    rw [hsn0, belowN_cons_ne _ _ _ (Ne.symm hh)] at hok
    rcases hok with h1 | ⟨h2, hb⟩
    · left; simp [publish, upd, hne, h1]
    · right; exact ⟨by simp [publish, upd, hne, h2], fun hp => hb (hPP hp)⟩
  -- accs of lower frames hold nothing named n
  have noacc : ∀ g ∈ rest, ∀ o ∈ g.acc, o.name ≠ f.name := by
    intro g hg o ho hon
    have hgs : g ∈ st.stack := by rw [hs]; exact List.mem_cons_of_mem _ hg
    have hgn : g.name ∈ rest.map (·.name) := List.mem_map.mpr ⟨g, hg, rfl⟩
    have hgne : g.name ≠ f.name := fun h => hnotin (h ▸ hgn)
    rcases hi.acc g hgs o ho with h1 | ⟨_, hb⟩
    · rw [hon, hi.l1_off f.name (by simp [hsn0])] at h1; cases h1
    · rcases hb trivial with hb | hb
      · rw [hsn0, belowN_cons_ne _ _ _ (Ne.symm hgne)] at hb
        exact hnotin (hon ▸ belowN_sub _ _ _ hb)
      · simp at hb; exact hgne (hb.trans hon)
  constructor
  · rw [hsn]; exact (List.nodup_cons.mp hnd).2
  · intro n hn; rw [hsn] at hn
    have hne : n ≠ f.name := fun h => hnotin (h ▸ hn)
    have := hi.l1_off n (by rw [hsn0]; exact List.mem_cons_of_mem _ hn)
    simp [publish, upd, hne, this]
  · intro n hn; rw [hsn] at hn
    have hne : n ≠ f.name := fun h => hnotin (h ▸ hn)
    have := hi.on_has n (by rw [hsn0]; exact List.mem_cons_of_mem _ hn)
    simpa [publish, upd, hne] using this
  · intro n hn; rw [hsn] at hn
    by_cases hne : n = f.name
    · subst hne; simp [publish, upd]
    · have : n ∉ snames st := by rw [hsn0]; simp [hne]; simpa using hn
      simpa [publish, upd, hne] using hi.off_clean n this
  · intro n o h
    by_cases hne : n = f.name
    · subst hne; simp [publish, upd] at h; subst h; exact hpn
    · simp [publish, upd, hne] at h; exact hi.l1_name n o h
  · intro n o h
    by_cases hne : n = f.name
    · subst hne; simp [publish, upd] at h
    · simp [publish, upd, hne] at h; exact hi.l2_name n o h
  · intro n o h
    by_cases hne : n = f.name
    · subst hne; simp [publish, upd] at h; subst h; exact hsrc
    · simp [publish, upd, hne] at h; exact hi.l1_src n o h
  · intro n o h
    by_cases hne : n = f.name
    · subst hne; simp [publish, upd] at h
    · simp [publish, upd, hne] at h; exact hi.l2_src n o h
  · intro n hn; rw [hsn] at hn
    exact hi.stk_names n (by rw [hsn0]; exact List.mem_cons_of_mem _ hn)
  · intro h; exact absurd hr h
  · exact hi.fld_dom
  · exact hi.one_ver
  · intro _ h i o ho
    have ho' : o ∈ st.fields h i := ho
    rw [hsn]
    by_cases hh : h = f.name
    · right; subst hh; simp [publish, upd]
    · rcases hi.fld_live hnf h i o ho' with h' | h'
      · left; rw [hsn0] at h'; simpa [hh] using h'
      · right; simpa [publish, upd, hh] using h'
  · intro _ h i o ho
    have ho' : o ∈ st.fields h i := ho
    have hf := hi.fld hnf h i o ho'
    rw [hsn]
    by_cases hon : o.name = f.name
    · have := hstored h i o ho' hon
      subst this
      left; simp [publish, upd, hon]
    · by_cases hh : h = f.name
      · -- holder is the component just published: now finished
        have hnot : h ∉ rest.map (·.name) := hh ▸ hnotin
        rcases hf with h1 | ⟨h2, _⟩
        · left; simp [publish, upd, hon, h1]
        · right; exact ⟨by simp [publish, upd, hon, h2], fun hp => absurd hp hnot⟩
      · exact okT o _ _ h none hon hh (fun hp => by rw [hsn0]; exact List.mem_cons_of_mem _ hp) hf
  · intro g hg o ho
    rw [hsn]
    -- frames of the new stack
    unfold publish at hg
    cases hr' : rest with
    | nil => simp [hr'] at hg
    | cons g0 rest' =>
      simp only [hr'] at hg
      have hg0 : g0 ∈ rest := by simp [hr']
      rcases List.mem_cons.mp hg with rfl | hg
      · -- parent frame, acc extended with pub
        have hgn : g0.name ≠ f.name := fun h => hnotin (h ▸ List.mem_map.mpr ⟨g0, hg0, rfl⟩)
        simp only [List.mem_append, List.mem_singleton] at ho
        rcases ho with ho | rfl
        · have hon := noacc g0 hg0 o ho
          have := hi.acc g0 (by rw [hs]; exact List.mem_cons_of_mem _ hg0) o ho
          rw [← hr']
          exact okT o True True g0.name (some g0.name) hon hgn id this
        · left; simp [publish, upd, hpn]
      · have hgr : g ∈ rest := by simp [hr', hg]
        have hgn : g.name ≠ f.name := fun h => hnotin (h ▸ List.mem_map.mpr ⟨g, hgr, rfl⟩)
        have hon := noacc g hgr o ho
        have := hi.acc g (by rw [hs]; exact List.mem_cons_of_mem _ hgr) o ho
        rw [← hr']
        exact okT o True True g.name (some g.name) hon hgn id this

/-- the invariant is preserved by each kind of transition -/
theorem inv_of_step (sc : Scen) (wf : WF sc) (st st' : St) (hi : Inv sc st) (hr : st.status = .running)
    (h : Step sc st st') : Inv sc st' := by
  have hnf : NF st := NF_of_running hr
  cases h with
  | done hs => exact hi.set_done hnf hs
  | topHit s n o s' hs hsim hl =>
    exact (inv_lookup_hit sc wf s st' n o (hi.of_sim hsim.symm) (hsim.status.trans hr) hl).1
  | candHit f rest c o s' hs hl =>
    obtain ⟨hi', hon, hcur⟩ := inv_lookup_hit sc wf st s' c o hi hr hl
    obtain ⟨_, hst, _, hsts⟩ := lookup_hit_frame sc st s' c o hl
    have hsn' : snames s' = snames st := by simp [snames, hst]
    have hs' : s'.stack = f :: rest := by rw [hst, hs]
    apply inv_top sc s' f { f with d := f.d + 1, acc := f.acc ++ [o] } rest s'.fields hi' (hsts.trans hr) hs' rfl
    · intro o' ho'
      simp only [List.mem_append, List.mem_singleton] at ho'
      rcases ho' with ho' | rfl
      · exact hi'.acc f (by rw [hs']; simp) o' ho'
      · rcases hcur with h1 | ⟨h2, hc⟩
        · left; rw [hon]; exact h1
        · right; refine ⟨by rw [hon]; exact h2, fun _ => ?_⟩
          rw [hsn', hon]
          have : snames st = f.name :: rest.map (·.name) := by simp [snames, hs]
          rw [this] at hc ⊢
          rcases List.mem_cons.mp hc with heq | hc
          · right; rw [heq]
          · left; simp only [belowN, if_true]; exact hc
    · intro h i o' ho'; exact Or.inl ho'
  | miss s c hsim hl =>
    obtain ⟨h1, h2, h3⟩ := lookup_miss sc s c hl
    exact inv_enter sc s c (hi.of_sim hsim.symm) (hsim.status.trans hr) h1 h2 h3
  | fail s n hsim => exact inv_failAt sc s n (hi.of_sim hsim.symm)
  | skip f rest hs =>
    exact inv_top sc st f { f with p := f.p + 1, d := 0, acc := [] } rest st.fields hi hr hs rfl
      (by intro o ho; simp at ho) (fun h i o ho => Or.inl ho)
  | inject f rest v hs hp hv =>
    apply inv_top sc st f { f with p := f.p + 1, d := 0, acc := [] } rest _ hi hr hs rfl (by intro o ho; simp at ho)
    intro h i o ho
    simp only [upd2] at ho
    split at ho
    · rename_i hc
      right
      obtain ⟨hacc, hne⟩ := hv o ho
      refine ⟨hc.1, hc.2 ▸ hp, hne, ?_⟩
      rcases hi.acc f (by rw [hs]; simp) o hacc with h1 | ⟨h2, hb⟩
      · exact Or.inl h1
      · refine Or.inr ⟨h2, fun _ => ?_⟩
        rcases hb trivial with hb | hb
        · exact Or.inl hb
        · simp at hb; exact absurd hb.symm hne
    · exact Or.inl ho
  | publish f rest s pub hs hsim hpub =>
    have his : Inv sc s := hi.of_sim hsim.symm
    have hrs : s.status = .running := hsim.status.trans hr
    have hss : s.stack = f :: rest := hsim.stack.trans hs
    exact inv_publish sc s f rest pub his hrs hss (hpub.name wf his) (hpub.src his)
      (hpub.stored his (NF_of_running hrs) hss)

theorem inv_step (sc : Scen) (wf : WF sc) (st : St) (hi : Inv sc st) : Inv sc (step sc st) := by
  by_cases hr : st.status = .running
  · exact inv_of_step sc wf st _ hi hr (step_spec sc st hr)
  · rw [step_not_running sc st hr]; exact hi

theorem inv_run' (sc : Scen) (wf : WF sc) (k : Nat) (st : St) (hi : Inv sc st) : Inv sc (run sc k st) := by
  induction k generalizing st with
  | zero => exact hi
  | succ k ih => exact ih _ (inv_step sc wf st hi)

theorem inv_run (sc : Scen) (wf : WF sc) (k : Nat) : Inv sc (run sc k (init sc)) :=
  inv_run' sc wf k (init sc) (inv_init sc)

theorem run_add (sc : Scen) (n m : Nat) (st : St) : run sc (n + m) st = run sc m (run sc n st) := by
  induction n generalizing st with
  | zero => simp [run]
  | succ n ih => rw [Nat.succ_add]; exact ih (step sc st)

/-- if a step publishes `x` as `pub`, it is the finishing step of the top frame, under the version check -/
theorem step_publishes (sc : Scen) (st : St) (x : Nat) (pub : Obj) (h0 : st.l1 x = none)
    (h1 : (step sc st).l1 x = some pub) :
    ∃ f rest s, st.stack = f :: rest ∧ f.name = x ∧ Sim s st ∧ st.status = .running ∧ PubCond sc s x pub ∧
      step sc st = publish s x pub rest := by
  by_cases hr : st.status = .running
  · rcases step_l1 sc st _ (step_spec sc st hr) with h | ⟨f, rest, s, pub', hs, hsim, hpub, heq⟩
    · rw [h, h0] at h1; cases h1
    · rw [heq] at h1
      by_cases hx : x = f.name
      · subst hx
        simp [publish] at h1
        subst h1
        exact ⟨f, rest, s, hs, rfl, hsim, hr, hpub, heq⟩
      · simp [publish, upd, hx, hsim.l1, h0] at h1
  · rw [step_not_running sc st hr, h0] at h1; cases h1

/-- published entries never change -/
theorem l1_stable (sc : Scen) (wf : WF sc) (st : St) (hi : Inv sc st) (n : Nat) (o : Obj) (h : st.l1 n = some o) :
    (step sc st).l1 n = some o := by
  have _ := wf
  by_cases hr : st.status = .running
  · rcases step_l1 sc st _ (step_spec sc st hr) with h' | ⟨f, rest, s, pub', hs, hsim, hpub, heq⟩
    · rw [h']; exact h
    · have hne : n ≠ f.name := by
        intro hn
        have := hi.l1_off f.name (by simp [snames, hs])
        rw [← hn, h] at this; cases this
      rw [heq]; simp [publish, upd, hne, hsim.l1, h]
  · rw [step_not_running sc st hr]; exact h

theorem l1_stable_run (sc : Scen) (wf : WF sc) (m : Nat) (st : St) (hi : Inv sc st) (n : Nat) (o : Obj)
    (h : st.l1 n = some o) : (run sc m st).l1 n = some o := by
  induction m generalizing st with
  | zero => exact h
  | succ m ih => exact ih _ (inv_step sc wf st hi) (l1_stable sc wf st hi n o h)

/-- a publication leaves no other version of the published name in any holder -/
theorem publish_no_stale (sc : Scen) (wf : WF sc) (st : St) (hi : Inv sc st) (x : Nat) (pub : Obj) (h0 : st.l1 x = none)
    (h1 : (step sc st).l1 x = some pub) :
    ∀ k i o, o ∈ (step sc st).fields k i → o.name = x → o = pub := by
  have _ := wf
  obtain ⟨f, rest, s, hs, rfl, hsim, hr, hpub, heq⟩ := step_publishes sc st x pub h0 h1
  have his : Inv sc s := hi.of_sim hsim.symm
  have hrs : s.status = .running := hsim.status.trans hr
  intro k i o ho
  rw [heq] at ho
  exact hpub.stored his (NF_of_running hrs) (hsim.stack.trans hs) k i o ho

end Ioc.M2
