/-
  Dependencies first.  Objects held by frames and fields belong to components that are published or still in creation;
  consecutive frames of the creation stack are joined by candidate edges, so everything below a frame depends on it.
-/
import IocProofs.Lemmas.M2LogReach
namespace Ioc.M2.Lc
open Ioc.M2

/-- post-processors may substitute a component but not rename it -/
structure WF (sc : Scen) : Prop where
  early_name : ∀ n, (sc.earlyO n).name = n
  after_name : ∀ n, (sc.afterO n).name = n

theorem WF.init_name {sc : Scen} (wf : WF sc) (n : Nat) : (initResult sc n).name = n := by
  unfold initResult; split
  · exact wf.after_name n
  · rfl

/-! ### the chain of frames -/

/-- frame `g` is waiting for its current candidate `c` -/
def Edge (sc : Scen) (g : Frame) (c : Nat) : Prop :=
  ∃ pt, (pts sc g.name)[g.p]? = some pt ∧ pt.cands[g.d]? = some c

theorem Edge.needs {sc : Scen} {g : Frame} {c : Nat} (h : Edge sc g c) : Needs sc g.name c := by
  obtain ⟨pt, h1, h2⟩ := h
  exact ⟨pt, List.mem_of_getElem? h1, List.mem_of_getElem? h2⟩

def Chain (sc : Scen) : List Frame → Prop
  | [] => True
  | [_] => True
  | f :: g :: rest => Edge sc g f.name ∧ Chain sc (g :: rest)

theorem chain_top {sc : Scen} {f f' : Frame} {rest : List Frame} (h : Chain sc (f :: rest)) (hn : f'.name = f.name) :
    Chain sc (f' :: rest) := by
  cases rest with
  | nil => trivial
  | cons g rest' => exact ⟨hn ▸ h.1, h.2⟩

theorem chain_tail {sc : Scen} {f : Frame} {rest : List Frame} (h : Chain sc (f :: rest)) : Chain sc rest := by
  cases rest with
  | nil => trivial
  | cons g rest' => exact h.2

theorem chain_bump {sc : Scen} {stk : List Frame} (o : Obj) (h : Chain sc stk) : Chain sc (bump stk o) := by
  cases stk with
  | nil => trivial
  | cons f rest => exact chain_top h rfl

theorem chain_reaches {sc : Scen} {f : Frame} {rest : List Frame} (h : Chain sc (f :: rest)) :
    ∀ g ∈ rest, Reaches sc g.name f.name := by
  induction rest generalizing f with
  | nil => simp
  | cons g rest' ih =>
    intro x hx
    have hg : Reaches sc g.name f.name := Reaches.tail (Reaches.refl _) h.1.needs
    simp at hx
    rcases hx with rfl | hx
    · exact hg
    · exact (ih h.2 x hx).trans hg

theorem chain_src_push {sc : Scen} {st st0 : St} {c : Nat} (src : Src sc st st0 c) (h : Chain sc st.stack) :
    Chain sc (push st0 c).stack := by
  cases src with
  | boot n t hs hb => simp [push, hs]; trivial
  | todo n t hs hb ht => simp [push, hs]; trivial
  | cand f rest hs hp hd =>
    simp only [push, hs]
    rw [hs] at h
    exact ⟨⟨_, List.getElem?_eq_getElem hp, List.getElem?_eq_getElem hd⟩, h⟩

theorem chain_stepR (sc : Scen) (st st' : St) (h : Chain sc st.stack) (hstep : StepR sc st st') :
    Chain sc st'.stack := by
  cases hstep with
  | done hs hb ht => exact h
  | hit st0 c src o ho => exact chain_bump o (by rw [src.same.2.2.2.1]; exact h)
  | promote st0 c src h1 h2 h3 hf => exact chain_bump _ (by rw [src.same.2.2.2.1]; exact h)
  | earlyFail st0 c src h1 h2 h3 hf => trivial
  | unknown st0 c src h1 h2 h3 hn => trivial
  | enterU st0 c src h1 h2 h3 hn hw => exact chain_src_push src h
  | enterFail st0 c src h1 h2 h3 hn hw hbad => trivial
  | enterW st0 c src h1 h2 h3 hn hw hcfg hpts =>
    simp only [addLog_stack]; exact chain_src_push src h
  | advance f rest hs hp hd hwhy => rw [hs] at h; exact chain_top h rfl
  | injFail f rest hs hp hd hne hreq hwhy => trivial
  | write f rest hs hp hd hne hm hc => rw [hs] at h; exact chain_top h rfl
  | cbFail f rest hs hp hcb => trivial
  | stale f rest hs hp hcb e he hw hh => trivial
  | publish f rest hs hp hcb pub hpub =>
    rw [hs] at h
    have ht := chain_tail h
    cases rest with
    | nil => trivial
    | cons g rest' => exact chain_top ht rfl

/-! ### objects held by frames and fields are alive -/

structure NameInv (st : St) : Prop where
  l1_name : ∀ n o, st.l1 n = some o → o.name = n
  l2_name : ∀ n o, st.l2 n = some o → o.name = n

structure Live (st : St) : Prop where
  acc : ∀ f ∈ st.stack, ∀ o ∈ f.acc, Ent st o.name
  fld : ∀ h i, ∀ o ∈ st.fields h i, Ent st o.name ∧ o.name ≠ h

def ObjInv (st : St) : Prop := NameInv st ∧ (¬ Failed st → Live st)

theorem objInv_init (sc : Scen) : ObjInv (init sc) := by
  refine ⟨⟨?_, ?_⟩, fun _ => ⟨?_, ?_⟩⟩ <;> simp [init]

theorem nameInv_failAt {s : St} (x : Nat) (h : NameInv s) : NameInv (failAt s x) := by
  constructor
  · exact h.l1_name
  · intro n o ho
    simp only [failAt] at ho
    split at ho
    · cases ho
    · exact h.l2_name n o ho

theorem objInv_failAt {s : St} (x : Nat) (h : NameInv s) : ObjInv (failAt s x) :=
  ⟨nameInv_failAt x h, fun hnf => absurd (failed_failAt s x) hnf⟩

theorem mem_bump_acc {stk : List Frame} {o o' : Obj} {f : Frame} (hf : f ∈ bump stk o) (ho : o' ∈ f.acc) :
    (∃ f0 ∈ stk, o' ∈ f0.acc) ∨ o' = o := by
  cases stk with
  | nil => simp [bump] at hf
  | cons g rest =>
    simp [bump] at hf
    rcases hf with rfl | hf
    · simp at ho
      rcases ho with ho | ho
      · exact Or.inl ⟨g, by simp, ho⟩
      · exact Or.inr ho
    · exact Or.inl ⟨f, by simp [hf], ho⟩

theorem live_mono {st st' : St} (h : Live st) (hE : ∀ n, Ent st n → Ent st' n)
    (hA : ∀ f ∈ st'.stack, ∀ o ∈ f.acc, (∃ f0 ∈ st.stack, o ∈ f0.acc) ∨ Ent st' o.name)
    (hF : ∀ h i, ∀ o ∈ st'.fields h i, o ∈ st.fields h i ∨ (Ent st' o.name ∧ o.name ≠ h)) : Live st' := by
  constructor
  · intro f hf o ho
    rcases hA f hf o ho with ⟨f0, hf0, ho0⟩ | h'
    · exact hE _ (h.acc f0 hf0 o ho0)
    · exact h'
  · intro x i o ho
    rcases hF x i o ho with h' | h'
    · exact ⟨hE _ (h.fld x i o h').1, (h.fld x i o h').2⟩
    · exact h'

theorem live_src {sc : Scen} {st st0 : St} {c : Nat} (src : Src sc st st0 c) (h : Live st) : Live st0 := by
  obtain ⟨e1, _, _, e4, e5, _, _⟩ := src.same
  constructor
  · intro f hf o ho
    rw [e4] at hf
    exact (ent_src src _).mpr (h.acc f hf o ho)
  · intro x i o ho
    rw [e5] at ho
    exact ⟨(ent_src src _).mpr (h.fld x i o ho).1, (h.fld x i o ho).2⟩

theorem nameInv_src {sc : Scen} {st st0 : St} {c : Nat} (src : Src sc st st0 c) (h : NameInv st) : NameInv st0 := by
  obtain ⟨e1, e2, _⟩ := src.same
  exact ⟨by rw [e1]; exact h.l1_name, by rw [e2]; exact h.l2_name⟩

theorem metas_sub {f : Frame} {b : Bool} {o : Obj} (h : o ∈ (if b = true then metasOf f else (metasOf f).take 1)) :
    o ∈ f.acc ∧ o.name ≠ f.name := by
  have : o ∈ metasOf f := by
    cases b
    · exact List.mem_of_mem_take (by simpa using h)
    · simpa using h
  have := List.mem_filter.mp this
  exact ⟨this.1, by simpa using this.2⟩

theorem objInv_stepR (sc : Scen) (wf : WF sc) (st st' : St) (hi : Inv sc st) (h : ObjInv st)
    (hr : st.status = .running) (hstep : StepR sc st st') : ObjInv st' := by
  have nf := not_failed_of_running hr
  obtain ⟨hn, hl⟩ := h
  have hl := hl nf
  cases hstep with
  | done hs hb ht => exact ⟨⟨hn.l1_name, hn.l2_name⟩, fun _ => ⟨hl.acc, hl.fld⟩⟩
  | hit st0 c src o ho =>
    obtain ⟨hi0, hr0⟩ := inv_src src hi hr
    have hn0 := nameInv_src src hn
    have hl0 := live_src src hl
    refine ⟨⟨hn0.l1_name, hn0.l2_name⟩, fun _ => live_mono hl0 (fun n hn' => by simpa [Ent, snames] using hn') ?_
      (fun x i o' ho' => Or.inl ho')⟩
    intro f hf o' ho'
    rcases mem_bump_acc hf ho' with h' | rfl
    · exact Or.inl h'
    · right
      rcases ho with ho | ⟨_, ho⟩
      · rw [hn0.l1_name c _ ho]; exact Or.inr (by simp [ho])
      · rw [hn0.l2_name c _ ho]
        left
        apply Classical.byContradiction
        intro hc
        have := (hi0.off_clean c (by simpa [snames] using hc)).1
        rw [this] at ho; cases ho
  | promote st0 c src h1 h2 h3 hf =>
    obtain ⟨hi0, hr0⟩ := inv_src src hi hr
    have hn0 := nameInv_src src hn
    have hl0 := live_src src hl
    refine ⟨⟨by simpa using hn0.l1_name, ?_⟩, fun _ => live_mono hl0 (fun n hn' => by simpa [Ent, snames] using hn') ?_
      (fun x i o' ho' => Or.inl (by simpa using ho'))⟩
    · intro n o ho
      by_cases hnc : n = c
      · subst hnc; simp at ho; rw [← ho]; exact wf.early_name n
      · simp [hnc] at ho; exact hn0.l2_name n o ho
    · intro f hf o' ho'
      rcases mem_bump_acc hf ho' with h' | rfl
      · exact Or.inl h'
      · right; left
        rw [wf.early_name]
        apply Classical.byContradiction
        intro hc
        have := (hi0.off_clean c (by simpa [snames] using hc)).2
        rw [this] at h3; cases h3
  | earlyFail st0 c src h1 h2 h3 hf =>
    have hn0 := nameInv_src src hn
    exact objInv_failAt c ⟨by simpa using hn0.l1_name, by simpa using hn0.l2_name⟩
  | unknown st0 c src h1 h2 h3 hn' => exact objInv_failAt c (nameInv_src src hn)
  | enterU st0 c src h1 h2 h3 hn' hw =>
    have hn0 := nameInv_src src hn
    have hl0 := live_src src hl
    refine ⟨⟨hn0.l1_name, hn0.l2_name⟩, fun _ => live_mono hl0 ?_ ?_ (fun x i o' ho' => Or.inl ho')⟩
    · intro n hn''
      rcases hn'' with h' | h'
      · exact Or.inl (by simp [h'])
      · exact Or.inr h'
    · intro f hf o ho
      simp [push] at hf
      rcases hf with rfl | hf
      · simp at ho
      · exact Or.inl ⟨f, hf, ho⟩
  | enterFail st0 c src h1 h2 h3 hn' hw hbad =>
    have hn0 := nameInv_src src hn
    exact objInv_failAt c ⟨by simpa [push] using hn0.l1_name, by simpa [push] using hn0.l2_name⟩
  | enterW st0 c src h1 h2 h3 hn' hw hcfg hpts =>
    have hn0 := nameInv_src src hn
    have hl0 := live_src src hl
    refine ⟨⟨by simpa [push] using hn0.l1_name, by simpa [push] using hn0.l2_name⟩,
      fun _ => live_mono hl0 ?_ ?_ (fun x i o' ho' => Or.inl (by simpa [push] using ho'))⟩
    · intro n hn''
      rcases hn'' with h' | h'
      · exact Or.inl (by simp [h'])
      · exact Or.inr (by simpa [push] using h')
    · intro f hf o ho
      simp [push] at hf
      rcases hf with rfl | hf
      · simp at ho
      · exact Or.inl ⟨f, hf, ho⟩
  | advance f rest hs hp hd hwhy =>
    refine ⟨⟨hn.l1_name, hn.l2_name⟩, fun _ => live_mono hl
      (fun n hn' => by simpa [Ent, snames, hs, advance] using hn') ?_ (fun x i o' ho' => Or.inl ho')⟩
    intro g hg o ho
    simp at hg
    rcases hg with rfl | hg
    · simp [advance] at ho
    · exact Or.inl ⟨g, by rw [hs]; simp [hg], ho⟩
  | injFail f rest hs hp hd hne hreq hwhy => exact objInv_failAt _ hn
  | write f rest hs hp hd hne hm hc =>
    have hE : ∀ n, Ent st n → Ent { st with
        fields := upd2 st.fields f.name f.p (if ((pts sc f.name)[f.p]).slice then metasOf f else (metasOf f).take 1),
        stack := advance f :: rest } n := by
      intro n hn'; simpa [Ent, snames, hs, advance] using hn'
    refine ⟨⟨hn.l1_name, hn.l2_name⟩, fun _ => live_mono hl hE ?_ ?_⟩
    · intro g hg o ho
      simp at hg
      rcases hg with rfl | hg
      · simp [advance] at ho
      · exact Or.inl ⟨g, by rw [hs]; simp [hg], ho⟩
    · intro x i o ho
      by_cases hx : x = f.name ∧ i = f.p
      · obtain ⟨rfl, rfl⟩ := hx
        simp only [upd2, and_self, if_true] at ho
        obtain ⟨ha, hne'⟩ := metas_sub ho
        exact Or.inr ⟨hE _ (hl.acc f (by rw [hs]; simp) o ha), hne'⟩
      · simp only [upd2, hx, if_false] at ho
        exact Or.inl ho
  | cbFail f rest hs hp hcb => exact objInv_failAt _ ⟨by simpa using hn.l1_name, by simpa using hn.l2_name⟩
  | stale f rest hs hp hcb e he hw hh =>
    exact objInv_failAt _ ⟨by simpa using hn.l1_name, by simpa using hn.l2_name⟩
  | publish f rest hs hp hcb pub hpub =>
    have hpn : pub.name = f.name := by
      rcases hpub with ⟨_, rfl⟩ | ⟨e, he, _, rfl⟩ | ⟨e, _, _, _, rfl⟩
      · exact wf.init_name _
      · exact hn.l2_name _ _ he
      · exact wf.init_name _
    have hE : ∀ n, Ent st n → Ent (publish (initCallbacks sc st f.name).1 f.name pub rest) n := by
      intro n hn'
      by_cases hnf : n = f.name
      · subst hnf; exact Or.inr (by simp [publish])
      · rcases hn' with h' | h'
        · left
          simp [snames, hs] at h'
          rcases h' with h' | h'
          · exact absurd h' hnf
          · simpa using h'
        · exact Or.inr (by simpa [publish, hnf] using h')
    refine ⟨⟨?_, ?_⟩, fun _ => live_mono hl hE ?_ (fun x i o' ho' => Or.inl (by simpa [publish] using ho'))⟩
    · intro n o ho
      by_cases hnf : n = f.name
      · subst hnf; simp [publish] at ho; rw [← ho]; exact hpn
      · simp [publish, hnf] at ho; exact hn.l1_name n o ho
    · intro n o ho
      by_cases hnf : n = f.name
      · subst hnf; simp [publish] at ho
      · simp [publish, hnf] at ho; exact hn.l2_name n o ho
    · intro g hg o ho
      cases rest with
      | nil => simp [publish] at hg
      | cons g0 rest' =>
        simp [publish] at hg
        rcases hg with rfl | hg
        · simp at ho
          rcases ho with ho | rfl
          · exact Or.inl ⟨g0, by rw [hs]; simp, ho⟩
          · right; rw [hpn]; exact Or.inr (by simp [publish])
        · exact Or.inl ⟨g, by rw [hs]; simp [hg], ho⟩

theorem deps_run (sc : Scen) (wf : WF sc) (k : Nat) :
    ObjInv (run sc k (init sc)) ∧ Chain sc (run sc k (init sc)).stack := by
  have := run_inv sc (fun s => Inv sc s ∧ ObjInv s ∧ Chain sc s.stack)
    (step_inv_of_rel sc _ (fun st st' hi hr h =>
      ⟨inv_stepR sc st st' hi.1 hr h, objInv_stepR sc wf st st' hi.1 hi.2.1 hr h, chain_stepR sc st st' hi.2.2 h⟩))
    k _ ⟨inv_init sc, objInv_init sc, by simp [init]; trivial⟩
  exact this.2

/-- the finishing step of a frame appends exactly that component's callback events -/
theorem step_finish_log (sc : Scen) (st : St) (f : Frame) (rest : List Frame) (hr : st.status = .running)
    (hs : st.stack = f :: rest) (hp : ¬ f.p < (pts sc f.name).length) :
    (step sc st).log = cbEvs sc f.name ++ st.log := by
  rw [← initCallbacks_log]
  unfold step
  simp only [hr, hs, hp, dite_false]
  repeat' split
  all_goals simp [failAt, publish]

end Ioc.M2.Lc
