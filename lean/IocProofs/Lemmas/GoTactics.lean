/-
  Tactic support for semantic theorems about regenerated MiniGo programs (Ioc.GoSem): `go_simp [extra…]`
  unfolds the interpreter on a concrete program.
-/
import Ioc.GoSem
namespace Ioc.Go

theorem natCast_succ_beq_zero (n : Nat) : ((n : Int) + 1 == 0) = false := by
  have : (n : Int) + 1 ≠ 0 := by omega
  simpa using this

theorem natCast_succ_gt_one (n : Nat) : decide ((n : Int) + 1 + 1 > 1) = true := by
  have : (n : Int) + 1 + 1 > 1 := by omega
  simpa using this

theorem evalB_cons {σ : Type} (P : Prims σ) (env : Env) (w : σ) (s : Stmt) (rest : List Stmt) :
    evalB P env w (s :: rest) =
      match evalS P env w s with
      | some (env', w', .norm) => evalB P env' w' rest
      | other => other := by
  rw [evalB]
  cases evalS P env w s with
  | none => rfl
  | some x =>
    obtain ⟨e, w', c⟩ := x
    cases c <;> rfl

theorem evalS_ifs_true {σ : Type} (P : Prims σ) (env env1 : Env) (w w1 w2 : σ) (init : List Stmt) (cond : Expr)
    (thn els : List Stmt) (hinit : evalB P env w init = some (env1, w1, .norm))
    (hc : evalE P env1 w1 cond = some (.bool true, w2)) :
    evalS P env w (.ifs init cond thn els) =
      (evalB P env1 w2 thn).map (fun (e, w3, c) => (Env.leave e env.length, w3, c)) := by
  simp only [evalS, hinit, hc]

theorem evalS_ifs_false {σ : Type} (P : Prims σ) (env env1 : Env) (w w1 w2 : σ) (init : List Stmt) (cond : Expr)
    (thn els : List Stmt) (hinit : evalB P env w init = some (env1, w1, .norm))
    (hc : evalE P env1 w1 cond = some (.bool false, w2)) :
    evalS P env w (.ifs init cond thn els) =
      (evalB P env1 w2 els).map (fun (e, w3, c) => (Env.leave e env.length, w3, c)) := by
  simp only [evalS, hinit, hc]

theorem evalB_nil {σ : Type} (P : Prims σ) (env : Env) (w : σ) : evalB P env w [] = some (env, w, .norm) := by
  rw [evalB]

theorem evalB_append {σ : Type} (P : Prims σ) (xs ys : List Stmt) : ∀ (env : Env) (w : σ),
    evalB P env w (xs ++ ys) =
      match evalB P env w xs with
      | some (env', w', .norm) => evalB P env' w' ys
      | other => other := by
  induction xs with
  | nil => intro env w; simp [evalB_nil]
  | cons x rest ih =>
    intro env w
    rw [List.cons_append, evalB_cons, evalB_cons]
    cases h : evalS P env w x with
    | none => rfl
    | some r =>
      obtain ⟨e, w', c⟩ := r
      cases c with
      | norm => simp only []; exact ih e w'
      | brk => rfl
      | cont => rfl
      | ret v => rfl

/-- a filter whose predicate does not touch the world and is described by `g` -/
theorem filterM_pure {σ α : Type} (enc : α → Val) (f : Val → σ → Option (Bool × σ)) (g : α → Bool) (w : σ)
    (xs : List α) (hf : ∀ x ∈ xs, f (enc x) w = some (g x, w)) :
    filterM f (xs.map enc) w = some ((xs.filter g).map enc, w) := by
  induction xs with
  | nil => simp [filterM]
  | cons x rest ih =>
    have h1 := hf x (by simp)
    have h2 := ih (fun y hy => hf y (by simp [hy]))
    simp only [List.map_cons, filterM, h1, h2, List.filter_cons]
    cases g x <;> simp


/-- fas.Filter with a predicate body that does not touch the world -/
theorem evalE_filter_pure {σ α : Type} (P : Prims σ) (env : Env) (w : σ) (xs : Expr) (param : String) (body : List Stmt)
    (enc : α → Val) (l : List α) (g : α → Bool)
    (hxs : evalE P env w xs = some (.list (l.map enc), w))
    (hbody : ∀ x ∈ l, ∃ e', evalB P (Env.def env param (enc x)) w body = some (e', w, .ret (.bool (g x)))) :
    evalE P env w (.filter xs param body) = some (.list ((l.filter g).map enc), w) := by
  simp only [evalE, hxs]
  rw [filterM_pure enc _ g w l (by
    intro x hx
    obtain ⟨e', he⟩ := hbody x hx
    simp only [he])]
  rfl


/-! ### a generic loop lemma: iterations that leave the environment in a shape determined by a model state -/

/-- thread a state and the world through the elements, stop at the first element that returns -/
def stepLoop {σ α τ : Type} (step : α → τ → σ → τ × σ × Option Val) : List α → τ → σ → τ × σ × Option Val
  | [], t, w => (t, w, none)
  | x :: xs, t, w =>
    match step x t w with
    | (t', w', none) => stepLoop step xs t' w'
    | (t', w', some v) => (t', w', some v)

def ctlOf : Option Val → Ctl
  | none => .norm
  | some v => .ret v

theorem loopM_state {σ α τ : Type} (enc : α → Val) (f : Nat → Val → Env → σ → Option (Env × σ × Ctl)) (envOf : τ → Env)
    (step : α → τ → σ → τ × σ × Option Val)
    (hf : ∀ i x t w, f i (enc x) (envOf t) w = some (envOf (step x t w).1, (step x t w).2.1, ctlOf (step x t w).2.2)) :
    ∀ (xs : List α) (i : Nat) (t : τ) (w : σ),
      loopM f i (xs.map enc) (envOf t) w =
        some (envOf (stepLoop step xs t w).1, (stepLoop step xs t w).2.1, ctlOf (stepLoop step xs t w).2.2) := by
  intro xs
  induction xs with
  | nil => intro i t w; simp [loopM, stepLoop, ctlOf]
  | cons x xs ih =>
    intro i t w
    simp only [List.map_cons, loopM, hf, stepLoop]
    rcases hstep : step x t w with ⟨t', w', r⟩
    cases r with
    | none => simp only [ctlOf]; exact ih (i + 1) t' w'
    | some v => simp [ctlOf]


/-- the same with an invariant of the model state that non-returning iterations preserve -/
theorem loopM_state_inv {σ α τ : Type} (enc : α → Val) (f : Nat → Val → Env → σ → Option (Env × σ × Ctl)) (envOf : τ → Env)
    (step : α → τ → σ → τ × σ × Option Val) (I : τ → Prop)
    (hf : ∀ i x t w, I t → f i (enc x) (envOf t) w = some (envOf (step x t w).1, (step x t w).2.1, ctlOf (step x t w).2.2))
    (hI : ∀ x t w, I t → (step x t w).2.2 = none → I (step x t w).1) :
    ∀ (xs : List α) (i : Nat) (t : τ) (w : σ), I t →
      loopM f i (xs.map enc) (envOf t) w =
        some (envOf (stepLoop step xs t w).1, (stepLoop step xs t w).2.1, ctlOf (stepLoop step xs t w).2.2) := by
  intro xs
  induction xs with
  | nil => intro i t w _; simp [loopM, stepLoop, ctlOf]
  | cons x xs ih =>
    intro i t w ht
    have hI' := hI x t w ht
    simp only [List.map_cons, loopM, hf i x t w ht, stepLoop]
    rcases hstep : step x t w with ⟨t', w', r⟩
    rw [hstep] at hI'
    cases r with
    | none => simp only [ctlOf]; exact ih (i + 1) t' w' (hI' rfl)
    | some v => simp [ctlOf]


/-- an iteration's control outcome against the model's: go on (normally or by `continue`) / return v -/
def CtlMatches (c : Ctl) (r : Option Val) : Prop :=
  (r = none ∧ (c = .norm ∨ c = .cont)) ∨ (∃ v, r = some v ∧ c = .ret v)

/-- `loopM_state` for bodies that may `continue` -/
theorem loopM_state_cont {σ α τ : Type} (enc : α → Val) (f : Nat → Val → Env → σ → Option (Env × σ × Ctl)) (envOf : τ → Env)
    (step : α → τ → σ → τ × σ × Option Val)
    (hf : ∀ i x t w, ∃ c, f i (enc x) (envOf t) w = some (envOf (step x t w).1, (step x t w).2.1, c) ∧
      CtlMatches c (step x t w).2.2) :
    ∀ (xs : List α) (i : Nat) (t : τ) (w : σ),
      loopM f i (xs.map enc) (envOf t) w =
        some (envOf (stepLoop step xs t w).1, (stepLoop step xs t w).2.1, ctlOf (stepLoop step xs t w).2.2) := by
  intro xs
  induction xs with
  | nil => intro i t w; simp [loopM, stepLoop, ctlOf]
  | cons x xs ih =>
    intro i t w
    obtain ⟨c, hc, hm⟩ := hf i x t w
    simp only [List.map_cons, loopM, hc, stepLoop]
    rcases hstep : step x t w with ⟨t', w', r⟩
    rw [hstep] at hm
    rcases hm with ⟨hr, hc' | hc'⟩ | ⟨v, hr, hc'⟩
    · simp only [] at hr; subst hr; subst hc'; simp only []; exact ih (i + 1) t' w'
    · simp only [] at hr; subst hr; subst hc'; simp only []; exact ih (i + 1) t' w'
    · simp only [] at hr; subst hr; subst hc'; simp [ctlOf]


/-! ### three-clause loops -/

/-- the model side of `whileM`: the same fuel discipline over a model state -/
def stepWhile {σ τ : Type} (step : τ → σ → τ × σ × Option Ctl) : Nat → τ → σ → Option (τ × σ × Ctl)
  | 0, _, _ => none
  | n + 1, t, w =>
    match step t w with
    | (t', w', none) => stepWhile step n t' w'
    | (t', w', some c) => some (t', w', c)

theorem whileM_state {σ τ : Type} (iter : Env → σ → Option (Env × σ × Option Ctl)) (envOf : τ → Env)
    (step : τ → σ → τ × σ × Option Ctl)
    (hf : ∀ t w, iter (envOf t) w = some (envOf (step t w).1, (step t w).2.1, (step t w).2.2)) :
    ∀ (n : Nat) (t : τ) (w : σ),
      whileM iter n (envOf t) w = (stepWhile step n t w).map (fun r => (envOf r.1, r.2.1, r.2.2)) := by
  intro n
  induction n with
  | zero => intro t w; simp [whileM, stepWhile]
  | succ n ih =>
    intro t w
    simp only [whileM, hf, stepWhile]
    rcases hstep : step t w with ⟨t', w', r⟩
    cases r with
    | none => simp only []; exact ih t' w'
    | some c => simp


/-- one round of a three-clause loop from environment `e`: condition, body, post statement (what `evalS` hands to `whileM`) -/
def forcIter {σ : Type} (P : Prims σ) (cond : Expr) (post body : List Stmt) (e : Env) (w' : σ) : Option (Env × σ × Option Ctl) :=
  match evalE P e w' cond with
  | some (.bool true, w2) =>
    afterBody (fun e' w3 => evalB P e' w3 post)
      ((evalB P e w2 body).map (fun (e', w'', c) => (Env.leave e' e.length, w'', c)))
  | some (.bool false, w2) => some (e, w2, some Ctl.norm)
  | _ => none

theorem evalS_forc {σ : Type} (P : Prims σ) (env : Env) (w : σ) (init : List Stmt) (cond : Expr) (post body : List Stmt) :
    evalS P env w (.forc init cond post body) =
      match evalB P env w init with
      | some (env1, w1, .norm) =>
        (whileM (forcIter P cond post body) P.fuel env1 w1).map (fun (e, w', c) => (Env.leave e env.length, w', c))
      | _ => none := by
  rw [evalS]
  rfl

/-- a three-clause loop whose rounds are described by a model step on a model state -/
theorem evalS_forc_state {σ τ : Type} (P : Prims σ) (env : Env) (w w1 : σ) (init : List Stmt) (cond : Expr)
    (post body : List Stmt) (envOf : τ → Env) (step : τ → σ → τ × σ × Option Ctl) (t0 : τ)
    (hinit : evalB P env w init = some (envOf t0, w1, .norm))
    (hiter : ∀ t w', forcIter P cond post body (envOf t) w' = some (envOf (step t w').1, (step t w').2.1, (step t w').2.2)) :
    evalS P env w (.forc init cond post body) =
      (stepWhile step P.fuel t0 w1).map (fun r => (Env.leave (envOf r.1) env.length, r.2.1, r.2.2)) := by
  rw [evalS_forc, hinit]
  simp only []
  rw [whileM_state (forcIter P cond post body) envOf step hiter]
  cases stepWhile step P.fuel t0 w1 <;> rfl


open Lean.Parser.Tactic in
/-- unfold the MiniGo interpreter (on a concrete program) together with the given definitions -/
macro "go_simp" "[" ts:simpLemma,* "]" : tactic =>
  `(tactic| simp [run, evalB, evalS, evalE, evalEs, bindVals, afterBody, Env.def, Env.get, Env.set, Env.leave, binOp, valEq,
                  truthy, natCast_succ_beq_zero, $ts,*])

end Ioc.Go
