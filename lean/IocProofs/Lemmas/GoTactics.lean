/-
  Tactic support for semantic theorems about regenerated MiniGo programs (Ioc.GoSem): `go_simp [extra…]`
  unfolds the interpreter on a concrete program.
-/
import Ioc.GoSem
namespace Ioc.Go

theorem natCast_succ_beq_zero (n : Nat) : ((n : Int) + 1 == 0) = false := by
  have : (n : Int) + 1 ≠ 0 := by omega
  simpa using this

theorem natCast_succ_gt_one (n : Nat) : decide ((n : Int) + 1 + 1 > 1) = true := by
  have : (n : Int) + 1 + 1 > 1 := by omega
  simpa using this

open Lean.Parser.Tactic in
/-- unfold the MiniGo interpreter (on a concrete program) together with the given definitions -/
macro "go_simp" "[" ts:simpLemma,* "]" : tactic =>
  `(tactic| simp [run, evalB, evalS, evalE, evalEs, bindVals, Env.def, Env.get, Env.set, Env.leave, binOp, valEq,
                  truthy, natCast_succ_beq_zero, $ts,*])

end Ioc.Go
