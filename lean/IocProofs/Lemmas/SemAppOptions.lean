/-
  Semantic theorems for the REGENERATED start options of package app (interpretation: Ioc.SemAppOptions).
-/
import Ioc.SemAppOptions
import IocProofs.Lemmas.GoTactics
set_option linter.unusedSimpArgs false
namespace Ioc.Sem
open Ioc Ioc.Go

theorem setRegistry_sem (r : Nat) (w : AW) :
    run aoptPrims Progs.aopt_SetRegistry [.ref r 2, .ref 0 1] w = some (.tuple [], { w with registry := r }) := by
  go_simp [Progs.aopt_SetRegistry, aoptPrims, aoptFn]

theorem setFactory_sem (f : Nat) (w : AW) :
    run aoptPrims Progs.aopt_SetFactory [.ref f 3, .ref 0 1] w = some (.tuple [], { w with factory := f }) := by
  go_simp [Progs.aopt_SetFactory, aoptPrims, aoptFn]

theorem setConfigure_sem (c : Nat) (w : AW) :
    run aoptPrims Progs.aopt_SetConfigure [.ref c 4, .ref 0 1] w = some (.tuple [], { w with configure := c }) := by
  go_simp [Progs.aopt_SetConfigure, aoptPrims, aoptFn]

theorem setConfig_sem (p : String) (w : AW) :
    run aoptPrims Progs.aopt_SetConfig [.str p, .ref 0 1] w =
      some (.tuple [], { w with cfgOps := w.cfgOps ++ [(w.configure, .addLoaders (.tuple [.str "file", .str p]))] }) := by
  go_simp [Progs.aopt_SetConfig, aoptPrims, aoptFn]

theorem setConfigLoader_sem (ls : Val) (w : AW) :
    run aoptPrims Progs.aopt_SetConfigLoader [ls, .ref 0 1] w =
      some (.tuple [], { w with cfgOps := w.cfgOps ++ [(w.configure, .setLoaders ls)] }) := by
  go_simp [Progs.aopt_SetConfigLoader, aoptPrims, aoptFn]

theorem addConfigLoader_sem (ls : Val) (w : AW) :
    run aoptPrims Progs.aopt_AddConfigLoader [ls, .ref 0 1] w =
      some (.tuple [], { w with cfgOps := w.cfgOps ++ [(w.configure, .addLoaders ls)] }) := by
  go_simp [Progs.aopt_AddConfigLoader, aoptPrims, aoptFn]

theorem setConfigBinder_sem (b : Val) (w : AW) :
    run aoptPrims Progs.aopt_SetConfigBinder [b, .ref 0 1] w =
      some (.tuple [], { w with cfgOps := w.cfgOps ++ [(w.configure, .setBinder b)] }) := by
  go_simp [Progs.aopt_SetConfigBinder, aoptPrims, aoptFn]

/-! SetComponents and Options: loops -/

def scBody : List Stmt := match Progs.aopt_SetComponents.body with | [.range _ _ _ b] => b | _ => []
theorem sc_shape : Progs.aopt_SetComponents.body = [.range "_" "c" (.var "cs") scBody] := rfl
def opBody : List Stmt := match Progs.aopt_Options.body with | [.range _ _ _ b] => b | _ => []
theorem op_shape : Progs.aopt_Options.body = [.range "_" "op" (.var "ops") opBody] := rfl

def envSC (cs : List Val) : Env := [("cs", .list cs), ("s", .ref 0 1)]

def scStep (c : Val) (_ : Unit) (w : AW) : Unit × AW × Option Val :=
  ((), { w with registered := w.registered ++ [(w.registry, c)] }, none)

theorem scStep_loop (cs : List Val) (w : AW) :
    stepLoop scStep cs () w = ((), { w with registered := w.registered ++ cs.map (fun c => (w.registry, c)) }, none) := by
  induction cs generalizing w with
  | nil => simp [stepLoop]
  | cons c rest ih => simp [stepLoop, scStep, ih, List.append_assoc]

/-- SetComponents: every component, in the order given, into the registry the App holds WHEN THE OPTION RUNS -/
theorem setComponents_sem (cs : List Val) (w : AW) :
    run aoptPrims Progs.aopt_SetComponents [.list cs, .ref 0 1] w =
      some (.tuple [], { w with registered := w.registered ++ cs.map (fun c => (w.registry, c)) }) := by
  simp only [run, sc_shape, show Progs.aopt_SetComponents.params = ["cs", "s"] from rfl, List.length_cons, List.length_nil, if_true,
    List.zip_cons_cons, List.zip_nil_right]
  rw [evalB_cons]
  simp only [evalS]
  rw [show ([("cs", Val.list cs), ("s", Val.ref 0 1)] : Env) = envSC cs from rfl]
  have hcoll : evalE aoptPrims (envSC cs) w (.var "cs") = some (.list (cs.map id), w) := by go_simp [envSC]
  rw [hcoll]; simp only []
  have := loopM_state (id : Val → Val)
    (fun i x e w' => (evalB aoptPrims (Env.def (Env.def e "_" (.int i)) "c" x) w' scBody).map
      (fun (e', w'', ctl) => (Env.leave e' e.length, w'', ctl)))
    (fun (_ : Unit) => envSC cs) scStep
    (by intro i x t w'; go_simp [scBody, Progs.aopt_SetComponents, aoptPrims, aoptFn, envSC, scStep, ctlOf])
    cs 0 () w
  rw [this, scStep_loop]
  go_simp [ctlOf]

def envOP (ops : List Nat) : Env := [("ops", .list (ops.map (fun i => Val.ref i 5))), ("s", .ref 0 1)]

def opStep (i : Nat) (_ : Unit) (w : AW) : Unit × AW × Option Val := ((), { w with applied := w.applied ++ [i] }, none)

theorem opStep_loop (ops : List Nat) (w : AW) :
    stepLoop opStep ops () w = ((), { w with applied := w.applied ++ ops }, none) := by
  induction ops generalizing w with
  | nil => simp [stepLoop]
  | cons i rest ih => simp [stepLoop, opStep, ih, List.append_assoc]

/-- Options: the given options, each once, in the order given -/
theorem options_sem (ops : List Nat) (w : AW) :
    run aoptPrims Progs.aopt_Options [.list (ops.map (fun i => Val.ref i 5)), .ref 0 1] w =
      some (.tuple [], { w with applied := w.applied ++ ops }) := by
  simp only [run, op_shape, show Progs.aopt_Options.params = ["ops", "s"] from rfl, List.length_cons, List.length_nil, if_true,
    List.zip_cons_cons, List.zip_nil_right]
  rw [evalB_cons]
  simp only [evalS]
  rw [show ([("ops", Val.list (ops.map (fun i => Val.ref i 5))), ("s", Val.ref 0 1)] : Env) = envOP ops from rfl]
  have hcoll : evalE aoptPrims (envOP ops) w (.var "ops") = some (.list (ops.map (fun i => Val.ref i 5)), w) := by go_simp [envOP]
  rw [hcoll]; simp only []
  have := loopM_state (fun i => Val.ref i 5)
    (fun i x e w' => (evalB aoptPrims (Env.def (Env.def e "_" (.int i)) "op" x) w' opBody).map
      (fun (e', w'', ctl) => (Env.leave e' e.length, w'', ctl)))
    (fun (_ : Unit) => envOP ops) opStep
    (by intro i x t w'; go_simp [opBody, Progs.aopt_Options, aoptPrims, aoptFn, envOP, opStep, ctlOf])
    ops 0 () w
  rw [this, opStep_loop]
  go_simp [ctlOf]

end Ioc.Sem
