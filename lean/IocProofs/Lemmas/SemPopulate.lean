/-
  The regenerated program of factory.go `populateComponent` computes `Sem.populateModel` (nested loops by induction).
-/
import Ioc.SemPopulate
import IocProofs.Lemmas.GoTactics
namespace Ioc.Sem
open Ioc Ioc.Go


def encDep (x : Nat) : Val := .ref x 21
def encComp (x : Nat) : Val := .ref x 0
def encComps (l : List Nat) : Val := if l.isEmpty then .nil else .list (l.map encComp)

theorem decComps_map (l : List Nat) : decComps (l.map encComp) = some l := by
  induction l with
  | nil => rfl
  | cons a t ih => simp [decComps, List.mapM_cons, encComp] at ih ⊢; rw [ih]; rfl

/-- the successful prefix of the candidates -/
def okPrefix (d : PC) : List Nat → List Nat
  | [] => []
  | x :: rest => if d.getOk x then x :: okPrefix d rest else []

/-- the inner loop: one doGetComponent per candidate, appended to `injects`; the first error returns -/
theorem loopM_get (d : PC) (f : Nat → Val → Env → List PEv → Option (Env × List PEv × Ctl)) (rest : Env)
    (hf : ∀ i x (acc : List Nat) (t : List PEv), f i (encDep x) (("injects", encComps acc) :: rest) t =
      some (("injects", encComps (if d.getOk x then acc ++ [x] else acc)) :: rest, t ++ [.get x],
            if d.getOk x then Ctl.norm else Ctl.ret errP)) :
    ∀ (deps : List Nat) (i : Nat) (acc : List Nat) (t : List PEv),
      loopM f i (deps.map encDep) (("injects", encComps acc) :: rest) t =
        some (("injects", encComps (acc ++ okPrefix d deps)) :: rest, t ++ (getLoop d deps).1,
              if (getLoop d deps).2 then Ctl.norm else Ctl.ret errP) := by
  intro deps
  induction deps with
  | nil => intro i acc t; simp [loopM, getLoop, okPrefix]
  | cons x xs ih =>
    intro i acc t
    simp only [List.map_cons, loopM, hf, getLoop, okPrefix]
    by_cases hx : d.getOk x = true
    · simp [hx, ih, List.append_assoc]
    · have hx' : d.getOk x = false := by simpa using hx
      simp [hx']

theorem getLoop_ok_prefix (d : PC) (deps : List Nat) (h : (getLoop d deps).2 = true) : okPrefix d deps = deps := by
  induction deps with
  | nil => rfl
  | cons x xs ih =>
    simp only [getLoop, okPrefix] at h ⊢
    by_cases hx : d.getOk x = true
    · simp only [hx, if_true] at h ⊢; rw [ih h]
    · have hx' : d.getOk x = false := by simpa using hx
      simp [hx'] at h


/-- every property node has been reset in this attempt -/
def AllReset (d : PC) (t : List PEv) : Prop := ∀ i, i < d.props.length → PEv.reset i ∈ t

theorem AllReset.append {d : PC} {t : List PEv} (h : AllReset d t) (u : List PEv) : AllReset d (t ++ u) :=
  fun i hi => List.mem_append_left _ (h i hi)

theorem injectsNow_reset (d : PC) (k : Nat) (t : List PEv) (hk : k < d.props.length) (hr : AllReset d t) :
    injectsNow d k t = depsOf d k := by
  unfold injectsNow
  have : t.contains (PEv.reset k) = true := by simpa using hr k hk
  rw [if_pos this]

/-- the outer loop: property nodes in order; a failing node returns -/
theorem loopM_nodes (d : PC) (f : Nat → Val → Env → List PEv → Option (Env × List PEv × Ctl)) (E2 : Val → Env)
    (hf : ∀ i k t, k < d.props.length → AllReset d t → ∃ e, f i (.ref k 20) (E2 .nil) t =
        some (E2 e, t ++ (nodeStep d k (depsOf d k)).1, if (nodeStep d k (depsOf d k)).2 then Ctl.norm else Ctl.ret errP) ∧
        ((nodeStep d k (depsOf d k)).2 = true → e = .nil)) :
    ∀ (suffix : List (List Nat)) (k i : Nat) (t : List PEv), d.props.drop k = suffix → AllReset d t →
      ∃ e, loopM f i ((List.range' k suffix.length).map (fun j => Val.ref j 20)) (E2 .nil) t =
        some (E2 e, t ++ (nodesLoop d k suffix).1, if (nodesLoop d k suffix).2 then Ctl.norm else Ctl.ret errP) := by
  intro suffix
  induction suffix with
  | nil => intro k i t _ _; exact ⟨.nil, by simp [loopM, nodesLoop]⟩
  | cons deps rest ih =>
    intro k i t hd hr
    have hk : k < d.props.length := by
      rcases Nat.lt_or_ge k d.props.length with h | h
      · exact h
      · have : d.props.drop k = [] := List.drop_eq_nil_of_le h
        rw [this] at hd; cases hd
    have hdeps : depsOf d k = deps := by
      unfold depsOf
      have := congrArg List.head? hd
      simp only [List.head?_drop, List.head?_cons] at this
      simp [List.getD_eq_getElem?_getD, this]
    have hrest : d.props.drop (k + 1) = rest := by
      have := congrArg List.tail hd
      simpa [List.tail_drop] using this
    obtain ⟨e, he, hnil⟩ := hf i k t hk hr
    rw [hdeps] at he hnil
    simp only [List.length_cons, List.range'_succ, List.map_cons, loopM, he, nodesLoop]
    cases hok : (nodeStep d k deps).2 with
    | false => exact ⟨e, by simp⟩
    | true =>
      have := hnil hok
      subst this
      obtain ⟨e2, he2⟩ := ih (k + 1) (i + 1) (t ++ (nodeStep d k deps).1) hrest (hr.append _)
      exact ⟨e2, by simp [he2, List.append_assoc]⟩


/-- statement 0 of the body is the reset loop; `pcStmt i` are the statements after it -/
def pcReset : Stmt := Progs.fac_populateComponent.body.getD 0 .brk
def pcStmt (i : Nat) : Stmt := Progs.fac_populateComponent.body.getD (i + 1) .brk
theorem pc_body : Progs.fac_populateComponent.body = [pcReset, pcStmt 0, pcStmt 1, pcStmt 2, pcStmt 3] := rfl
theorem pc_params : Progs.fac_populateComponent.params = ["name", "meta"] := rfl

/-- the parts of statement 2: `if properties := …; len(properties) > 0 { for _, node := range … { NODE } }` -/
def pcParts : List Stmt × Expr × Expr × Stmt :=
  match pcStmt 2 with
  | .ifs init c [.range _ _ coll [node]] _ => (init, c, coll, node)
  | _ => ([], .nil, .nil, .brk)
theorem pc2_shape : pcStmt 2 = .ifs pcParts.1 pcParts.2.1 [.range "_" "node" pcParts.2.2.1 [pcParts.2.2.2]] [] := rfl

/-- the parts of NODE: `if dependencies := node.Injects; len(dependencies) != 0 { N0; N1; N2; N3 }` -/
def nodeParts : List Stmt × Expr × List Stmt :=
  match pcParts.2.2.2 with
  | .ifs init c thn _ => (init, c, thn)
  | _ => ([], .nil, [])
def pcN (i : Nat) : Stmt := nodeParts.2.2.getD i .brk
theorem node_shape : pcParts.2.2.2 = .ifs nodeParts.1 nodeParts.2.1 [pcN 0, pcN 1, pcN 2, pcN 3] [] := rfl

def propsVal (d : PC) : Val := .list ((List.range' 0 d.props.length).map (fun i => Val.ref i 20))
/-- environment inside statement 2 (after `properties := …`), `e` = the current value of the outer `err` -/
def pcE2 (d : PC) (e : Val) : Env :=
  [("properties", propsVal d), ("err", e), ("name", .int (d.n : Int)), ("meta", .ref d.n 0)]
def pcEN (d : PC) (k : Nat) (e : Val) : Env := ("node", .ref k 20) :: pcE2 d e
def pcED (d : PC) (k : Nat) (e : Val) : Env := ("dependencies", .list ((depsOf d k).map encDep)) :: pcEN d k e

theorem node_init (d : PC) (k : Nat) (t : List PEv) (hk : k < d.props.length) (hr : AllReset d t) :
    evalB (pcPrims d) (pcEN d k .nil) t nodeParts.1 = some (pcED d k .nil, t, .norm) := by
  have hi := injectsNow_reset d k t hk hr
  go_simp [nodeParts, pcParts, pcStmt, Progs.fac_populateComponent, pcPrims, pcFn, pcEN, pcED, pcE2, encDep, hi]

theorem node_cond (d : PC) (k : Nat) (t : List PEv) :
    evalE (pcPrims d) (pcED d k .nil) t nodeParts.2.1 = some (.bool (!(depsOf d k).isEmpty), t) := by
  cases h : depsOf d k <;>
    go_simp [nodeParts, pcParts, pcStmt, Progs.fac_populateComponent, pcED, h]

theorem node_n0 (d : PC) (k : Nat) (t : List PEv) :
    evalS (pcPrims d) (pcED d k .nil) t (pcN 0) = some (("injects", encComps []) :: pcED d k .nil, t, .norm) := by
  go_simp [pcN, nodeParts, pcParts, pcStmt, Progs.fac_populateComponent, encComps]

theorem node_n1 (d : PC) (k : Nat) (t : List PEv) (hk : k < d.props.length) (hr : AllReset d t) :
    evalS (pcPrims d) (("injects", encComps []) :: pcED d k .nil) t (pcN 1) =
      some (("injects", encComps (okPrefix d (depsOf d k))) :: pcED d k .nil, t ++ (getLoop d (depsOf d k)).1,
            if (getLoop d (depsOf d k)).2 then .norm else .ret errP) := by
  simp only [pcN, nodeParts, pcParts, pcStmt, Progs.fac_populateComponent, List.getD_cons_succ, List.getD_cons_zero, evalS]
  have hcoll : evalE (pcPrims d) (("injects", encComps []) :: pcED d k .nil) t (.sel (.var "node") "Injects") =
      some (.list ((depsOf d k).map encDep), t) := by
    have hi := injectsNow_reset d k t hk hr
    go_simp [pcPrims, pcFn, pcED, pcEN, encDep, hi]
  rw [hcoll]
  simp only []
  rw [loopM_get d _ (pcED d k .nil) (by
    intro i x acc t
    cases hx : d.getOk x <;> cases acc <;>
      go_simp [pcPrims, pcFn, pcED, pcEN, pcE2, encDep, encComp, encComps, hx, errP]) (depsOf d k) 0 [] t]
  simp

theorem node_n2 (d : PC) (k : Nat) (l : List Nat) (t : List PEv) :
    evalS (pcPrims d) (("injects", encComps l) :: pcED d k .nil) t (pcN 2) =
      some (("injects", encComps l) :: pcED d k (if d.injectOk k then .nil else errP), t ++ [.inject k l], .norm) := by
  cases l with
  | nil => go_simp [pcN, nodeParts, pcParts, pcStmt, Progs.fac_populateComponent, pcPrims, pcFn, pcED, pcEN, pcE2, encComps]
  | cons a r =>
    have hd := decComps_map (a :: r)
    simp only [List.map_cons] at hd
    go_simp [pcN, nodeParts, pcParts, pcStmt, Progs.fac_populateComponent, pcPrims, pcFn, pcED, pcEN, pcE2, encComps, hd]

theorem node_n3 (d : PC) (k : Nat) (l : List Nat) (ok : Bool) (t : List PEv) :
    evalS (pcPrims d) (("injects", encComps l) :: pcED d k (if ok then .nil else errP)) t (pcN 3) =
      some (("injects", encComps l) :: pcED d k (if ok then .nil else errP), t, if ok then .norm else .ret errP) := by
  cases ok <;> go_simp [pcN, nodeParts, pcParts, pcStmt, Progs.fac_populateComponent, pcED, pcEN, pcE2, errP]


@[simp] theorem lenEN (d : PC) (k : Nat) (e : Val) : (pcEN d k e).length = 5 := by simp [pcEN, pcE2]
@[simp] theorem lenED (d : PC) (k : Nat) (e : Val) : (pcED d k e).length = 6 := by simp [pcED]

/-- the error value left in the outer `err` by one node -/
def nodeErr (d : PC) (k : Nat) : Val :=
  if !(depsOf d k).isEmpty && (getLoop d (depsOf d k)).2 && !d.injectOk k then errP else .nil

theorem node_sem (d : PC) (k : Nat) (t : List PEv) (hk : k < d.props.length) (hr : AllReset d t) :
    evalS (pcPrims d) (pcEN d k .nil) t pcParts.2.2.2 =
      some (pcEN d k (nodeErr d k), t ++ (nodeStep d k (depsOf d k)).1,
            if (nodeStep d k (depsOf d k)).2 then .norm else .ret errP) := by
  rw [node_shape]
  unfold nodeStep nodeErr
  cases hde : (depsOf d k).isEmpty with
  | true =>
    rw [evalS_ifs_false _ _ _ _ _ _ _ _ _ _ (node_init d k t hk hr) (by rw [node_cond, hde]; rfl)]
    simp [evalB_nil, Env.leave, pcED]
  | false =>
    rw [evalS_ifs_true _ _ _ _ _ _ _ _ _ _ (node_init d k t hk hr) (by rw [node_cond, hde]; rfl)]
    rw [evalB_cons, node_n0]; simp only []
    rw [evalB_cons, node_n1 d k t hk hr]
    cases hg : (getLoop d (depsOf d k)).2 with
    | false => simp [Env.leave, pcED]
    | true =>
      simp only [if_true, getLoop_ok_prefix d _ hg]
      rw [evalB_cons, node_n2]; simp only []
      rw [evalB_cons, node_n3]
      cases hi : d.injectOk k <;> simp [evalB_nil, Env.leave, pcED, List.append_assoc]


def pcE1 (d : PC) (e : Val) : Env := [("err", e), ("name", .int (d.n : Int)), ("meta", .ref d.n 0)]

theorem pc_s0 (d : PC) (t : List PEv) :
    evalS (pcPrims d) [("name", .int (d.n : Int)), ("meta", .ref d.n 0)] t (pcStmt 0) =
      some (pcE1 d (if d.resolveOk then .nil else errP), t ++ [.resolve], .norm) := by
  go_simp [pcStmt, Progs.fac_populateComponent, pcPrims, pcFn, pcE1]

theorem pc_s1 (d : PC) (ok : Bool) (t : List PEv) :
    evalS (pcPrims d) (pcE1 d (if ok then .nil else errP)) t (pcStmt 1) =
      some (pcE1 d (if ok then .nil else errP), t, if ok then .norm else .ret errP) := by
  cases ok <;> go_simp [pcStmt, Progs.fac_populateComponent, pcE1, errP]

theorem pc2_init (d : PC) (t : List PEv) :
    evalB (pcPrims d) (pcE1 d .nil) t pcParts.1 = some (pcE2 d .nil, t, .norm) := by
  go_simp [pcParts, pcStmt, Progs.fac_populateComponent, pcPrims, pcFn, pcE1, pcE2, propsVal]

theorem pc2_cond (d : PC) (t : List PEv) :
    evalE (pcPrims d) (pcE2 d .nil) t pcParts.2.1 = some (.bool (decide (d.props.length > 0)), t) := by
  go_simp [pcParts, pcStmt, Progs.fac_populateComponent, pcE2, propsVal]

theorem pc2_coll (d : PC) (t : List PEv) :
    evalE (pcPrims d) (pcE2 d .nil) t pcParts.2.2.1 = some (propsVal d, t) := by
  go_simp [pcParts, pcStmt, Progs.fac_populateComponent, pcPrims, pcFn, pcE2, propsVal]

/-- the range over the property nodes -/
theorem pc2_range (d : PC) (t : List PEv) (hr : AllReset d t) :
    ∃ e, evalS (pcPrims d) (pcE2 d .nil) t (.range "_" "node" pcParts.2.2.1 [pcParts.2.2.2]) =
      some (pcE2 d e, t ++ (nodesLoop d 0 d.props).1, if (nodesLoop d 0 d.props).2 then .norm else .ret errP) := by
  simp only [evalS, pc2_coll, propsVal]
  have := loopM_nodes d
    (fun i x e w' => (evalB (pcPrims d) (Env.def (Env.def e "_" (.int i)) "node" x) w' [pcParts.2.2.2]).map
      (fun (e', w'', c) => (Env.leave e' e.length, w'', c))) (pcE2 d) (by
      intro i k t hk hr
      refine ⟨nodeErr d k, ?_, ?_⟩
      · have hn := node_sem d k t hk hr
        have henv : Env.def (Env.def (pcE2 d .nil) "_" (.int i)) "node" (.ref k 20) = pcEN d k .nil := by
          simp [Env.def, pcEN]
        simp only [henv, evalB_cons, hn]
        cases (nodeStep d k (depsOf d k)).2 <;> simp [evalB_nil, Env.leave, pcEN, pcE2]
      · intro hok
        unfold nodeErr
        unfold nodeStep at hok
        cases hde : (depsOf d k).isEmpty with
        | true => simp
        | false =>
          simp only [hde, Bool.false_eq_true, if_false] at hok
          cases hg : (getLoop d (depsOf d k)).2 with
          | false => simp
          | true =>
            simp only [hg, Bool.not_true, Bool.false_eq_true, if_false] at hok
            simp [hok]) d.props 0 0 t (by simp) hr
  exact this

theorem pcReset_shape : pcReset = .range "_" "node" (.mcall (.var "meta") "GetComponentProperties" [])
    [.store (.var "node") "Injects" .nil] := rfl

def resetStep (k : Nat) (_ : Unit) (t : List PEv) : Unit × List PEv × Option Val := ((), t ++ [.reset k], none)

theorem resetStep_loop (ks : List Nat) (t : List PEv) :
    stepLoop resetStep ks () t = ((), t ++ ks.map PEv.reset, none) := by
  induction ks generalizing t with
  | nil => simp [stepLoop]
  | cons k ks ih => simp [stepLoop, resetStep, ih, List.append_assoc]

/-- the reset loop: every property node, in order -/
theorem pc_reset (d : PC) (t : List PEv) :
    evalS (pcPrims d) [("name", .int (d.n : Int)), ("meta", .ref d.n 0)] t pcReset =
      some ([("name", .int (d.n : Int)), ("meta", .ref d.n 0)], t ++ resets d, .norm) := by
  rw [pcReset_shape]
  simp only [evalS]
  have hcoll : evalE (pcPrims d) [("name", .int (d.n : Int)), ("meta", .ref d.n 0)] t (.mcall (.var "meta") "GetComponentProperties" []) =
      some (.list ((List.range' 0 d.props.length).map (fun j => Val.ref j 20)), t) := by go_simp [pcPrims, pcFn]
  rw [hcoll]; simp only []
  have := loopM_state (fun j => Val.ref j 20)
    (fun i x e w' => (evalB (pcPrims d) (Env.def (Env.def e "_" (.int i)) "node" x) w' [.store (.var "node") "Injects" .nil]).map
      (fun (e', w'', c) => (Env.leave e' e.length, w'', c)))
    (fun (_ : Unit) => [("name", .int (d.n : Int)), ("meta", .ref d.n 0)]) resetStep
    (fun i k _ w' => by go_simp [pcPrims, pcFn, resetStep, ctlOf]) (List.range' 0 d.props.length) 0 () t
  rw [this, resetStep_loop]
  simp [ctlOf, resets]

theorem allReset_resets (d : PC) (u : List PEv) : AllReset d (resets d ++ u) := by
  intro i hi
  apply List.mem_append_left
  simp only [resets, List.mem_map, List.mem_range'_1]
  exact ⟨i, ⟨by omega, by omega⟩, rfl⟩

/-- populateComponent, regenerated: every property node's `Injects` is reset, ResolveAfterInstantiation, then for each
    property in order every candidate through doGetComponent (stop at the first error), then Inject with what was obtained —
    `populateModel`, whatever an earlier attempt left in the nodes (`d.stale`) -/
theorem populateComponent_sem (d : PC) :
    ∃ out, run (pcPrims d) Progs.fac_populateComponent [.int d.n, .ref d.n 0] [] = some (out, (populateModel d).1) ∧
      out = (if (populateModel d).2 then .nil else errP) := by
  simp only [run, pc_params, pc_body, List.length_cons, List.length_nil, if_true, List.zip_cons_cons, List.zip_nil_right]
  rw [evalB_cons, pc_reset]; simp only [List.nil_append]
  rw [evalB_cons, pc_s0]; simp only []
  rw [evalB_cons, pc_s1]
  unfold populateModel
  have hrs : AllReset d (resets d ++ [PEv.resolve]) := allReset_resets d _
  cases hr : d.resolveOk with
  | false => exact ⟨errP, by simp, by simp⟩
  | true =>
    simp only [if_true, Bool.not_true, Bool.false_eq_true, if_false]
    rw [evalB_cons, pc2_shape]
    by_cases hlen : d.props.length > 0
    · rw [evalS_ifs_true (w1 := resets d ++ [PEv.resolve]) (w2 := resets d ++ [PEv.resolve]) _ _ _ _ _ _ _ _ (pc2_init d _) (by rw [pc2_cond]; simp [hlen])]
      obtain ⟨e, he⟩ := pc2_range d (resets d ++ [PEv.resolve]) hrs
      rw [evalB_cons, he]
      cases hok : (nodesLoop d 0 d.props).2 with
      | false => exact ⟨errP, by simp, by simp⟩
      | true =>
        refine ⟨.nil, ?_, by simp⟩
        simp only [if_true, evalB_nil, Option.map]
        go_simp [pcStmt, Progs.fac_populateComponent, pcE2, pcE1]
    · have h0 : d.props = [] := by
        cases hp : d.props with
        | nil => rfl
        | cons a b => rw [hp] at hlen; simp at hlen
      rw [evalS_ifs_false (w1 := resets d ++ [PEv.resolve]) (w2 := resets d ++ [PEv.resolve]) _ _ _ _ _ _ _ _ (pc2_init d _) (by rw [pc2_cond]; simp [h0])]
      refine ⟨.nil, ?_, by simp [h0, nodesLoop]⟩
      simp only [evalB_nil, Option.map, h0, nodesLoop]
      go_simp [pcStmt, Progs.fac_populateComponent, pcE2, pcE1]


/-- `populateModel` does not look at the leftovers -/
theorem getLoop_stale (d : PC) (l : Nat → List Nat) (deps : List Nat) : getLoop { d with stale := l } deps = getLoop d deps := by
  induction deps with
  | nil => rfl
  | cons x rest ih => simp only [getLoop, ih]

theorem nodesLoop_stale (d : PC) (l : Nat → List Nat) (ps : List (List Nat)) (k : Nat) :
    nodesLoop { d with stale := l } k ps = nodesLoop d k ps := by
  induction ps generalizing k with
  | nil => rfl
  | cons deps rest ih => simp only [nodesLoop, nodeStep, getLoop_stale, ih]

theorem populateModel_stale (d : PC) (l : Nat → List Nat) : populateModel { d with stale := l } = populateModel d := by
  simp only [populateModel, nodesLoop_stale, resets]

end Ioc.Sem
