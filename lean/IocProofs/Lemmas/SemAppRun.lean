/-
  Semantic theorems for the REGENERATED App.initiate, App.Run and registry.RegisterSingleton (interpretation: Ioc.SemAppRun).
-/
import Ioc.SemAppRun
import IocProofs.Lemmas.GoTactics
set_option linter.unusedSimpArgs false
namespace Ioc.Sem
open Ioc Ioc.Go

/-- initiate: a missing configure / registry / factory is reported (in that order) and NOTHING is set or registered; otherwise
    the factory is given the registry and the configure, and the App itself and the nine built-in processors are registered,
    in the order written -/
theorem initiate_sem (p : AIP) (w : List ACall) :
    run (aiPrims p) Progs.app_initiate [] w =
      some (if !p.hasConf then (.str "missing configure", w)
            else if !p.hasReg then (.str "missing registry", w)
            else if !p.hasFac then (.str "missing factory", w)
            else (.nil, w ++ [.setRegistry, .setConfigure] ++ builtinOrder.map ACall.register)) := by
  obtain ⟨c, r, f⟩ := p
  cases c <;> cases r <;> cases f <;>
    go_simp [Progs.app_initiate, aiPrims, aiFn, loopM, builtinOrder]

/-! ### App.Run -/

def runBody1 : List Stmt := match Progs.app_Run.body with | (.range _ _ _ b) :: _ => b | _ => []
def runRest : List Stmt := match Progs.app_Run.body with | _ :: rest => rest | _ => []
theorem run_shape : Progs.app_Run.body =
    (.range "_" "op" (.call "append..." [(.var "ops"), (.glob "globalOptions")]) runBody1) :: runRest := rfl

def optStep (i : Nat) (_ : Unit) (w : List ACall) : Unit × List ACall × Option Val := ((), w ++ [.option i], none)

theorem optStep_loop (l : List Nat) (w : List ACall) :
    stepLoop optStep l () w = ((), w ++ l.map ACall.option, none) := by
  induction l generalizing w with
  | nil => simp [stepLoop]
  | cons i rest ih => simp [stepLoop, optStep, ih, List.append_assoc]

def encOptE : Option String → Val
  | none => .nil
  | some e => .str e

/-- Run: the options given are applied first, in the order given, then the package-level ones; then `initiate`; when it
    fails, `Fatalf` is called — and when that returns (log level above Fatal) the start goes ON to `run` with whatever is
    unset, otherwise Run never returns; when `initiate` succeeds `run` is called once and its error returned as it is -/
theorem appRun_sem (p : ARP) (ops : List Nat) (w : List ACall) :
    run (arPrims p) Progs.app_Run [optVals ops] w =
      (if p.initErr.isSome && !p.fatalReturns then none
       else some (encOptE p.runErr, w ++ (ops ++ p.globals).map ACall.option ++ [.initiate, .run])) := by
  simp only [run, run_shape, show Progs.app_Run.params = ["ops"] from rfl, List.length_cons, List.length_nil, if_true,
    List.zip_cons_cons, List.zip_nil_right]
  rw [evalB_cons]
  simp only [evalS]
  have hcoll : evalE (arPrims p) [("ops", optVals ops)] w (.call "append..." [(.var "ops"), (.glob "globalOptions")]) =
      some (.list ((ops ++ p.globals).map (fun i => Val.ref i 110)), w) := by
    go_simp [arPrims, arFn, optVals, List.map_append]
  rw [hcoll]; simp only []
  have hl := loopM_state (fun i => Val.ref i 110)
    (fun j x e w' => (evalB (arPrims p) (Env.def (Env.def e "_" (.int j)) "op" x) w' runBody1).map
      (fun (e', w'', ctl) => (Env.leave e' e.length, w'', ctl)))
    (fun (_ : Unit) => [("ops", optVals ops)]) optStep
    (fun j i _ w' => by go_simp [runBody1, Progs.app_Run, arPrims, arFn, optStep, ctlOf]) (ops ++ p.globals) 0 () w
  rw [hl, optStep_loop]
  simp only [ctlOf]
  obtain ⟨g, ie, re, fr⟩ := p
  cases ie with
  | none => cases re <;> go_simp [runRest, Progs.app_Run, arPrims, arFn, encOptE, List.append_assoc]
  | some e =>
    cases fr with
    | false => go_simp [runRest, Progs.app_Run, arPrims, arFn, encOptE]
    | true => cases re <;> go_simp [runRest, Progs.app_Run, arPrims, arFn, encOptE, List.append_assoc]

/-! ### registry.RegisterSingleton -/

/-- RegisterSingleton: a new name is stored; the SAME object again is a no-op; a different object under a name that is taken
    panics (`none`) and the registry keeps what it had -/
theorem registerSingleton_sem (nameOf : Nat → String) (i : Nat) (w : CMap) :
    run (rsPrims nameOf) Progs.sreg_RegisterSingleton [.ref i 0] w =
      (match cmLoad w (nameOf i) with
       | none => some (.tuple [], cmStore (nameOf i) i w)
       | some j => if j = i then some (.tuple [], w) else none) := by
  cases hl : cmLoad w (nameOf i) with
  | none => go_simp [Progs.sreg_RegisterSingleton, rsPrims, rsFn, hl]
  | some j =>
    by_cases hj : j = i
    · have hb : (j == i) = true := by simpa using hj
      go_simp [Progs.sreg_RegisterSingleton, rsPrims, rsFn, hl, hj, hb]
    · have hb : (j == i) = false := by simpa using hj
      go_simp [Progs.sreg_RegisterSingleton, rsPrims, rsFn, hl, hj, hb]

end Ioc.Sem
