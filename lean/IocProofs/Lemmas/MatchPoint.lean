/-
  Lemmas about Ioc.Match at the level of one resolved point (`resolveOne`): soundness of what is injected,
  the by-name point, the empty optional point, the loop `resolveAll`, and order independence.
-/
import IocProofs.Lemmas.MatchSpec
namespace Ioc.Match
open Ioc Ioc.Tag

/-- reading a successful `resolveOne` through the closed form -/
theorem resolveOne_some {pop : List Prov} {s : Slot} {v : Bytes} {a0 : Args} {pt : RPoint}
    (hp : parse? s.tag = some (v, a0)) (h : resolveOne pop s = some pt) :
    pt.cands = picked pop s v a0 ∧ pt.slice = s.kind.isSlice ∧ pt.required = isRequired a0 ∧
    pt.incompat = (picked pop s v a0).filter (incompatPred (byId pop) s.kind) ∧
    (qualified pop s v a0 = [] → isRequired a0 = false) := by
  rw [resolveOne_closed pop s v a0 hp] at h
  split at h
  · cases h
  · rename_i hn
    cases h
    refine ⟨rfl, rfl, rfl, rfl, ?_⟩
    intro he
    cases hr : isRequired a0 with
    | false => rfl
    | true => exact absurd ⟨he, hr⟩ hn

theorem found_assignable {s : Slot} {v : Bytes} {a0 : Args} {p : Prov} (h : found s v a0 p = true) :
    assignable s.kind p = true := by
  unfold found at h
  simp only [Bool.and_eq_true] at h
  exact h.1

theorem found_methOK {s : Slot} {v : Bytes} {a0 : Args} {p : Prov} (hf : s.isFunc = true) (h : found s v a0 p = true) :
    methOK v a0 p = true := by
  unfold found at h
  simp only [Bool.and_eq_true, hf, if_true] at h
  exact h.2

theorem found_wire {s : Slot} (hf : s.isFunc = false) (v : Bytes) (a0 : Args) (p : Prov) :
    found s v a0 p = assignable s.kind p := by
  simp [found, hf]

/-- SOUNDNESS of a by-type point: everything injected passed the discovery test -/
theorem picked_found (pop : List Prov) (s : Slot) (v : Bytes) (a0 : Args) (hb : ByType s v) :
    ∀ c ∈ picked pop s v a0, ∃ p ∈ pop, p.id = c ∧ found s v a0 p = true :=
  fun c hc => mem_qualified_found pop s v a0 hb c (picked_subset_qualified pop s v a0 c hc)

theorem injAssignable_raw {k : Kind} {p : Prov} (h : p.inj = none) : injAssignable k p = assignable k p := by
  simp [injAssignable, h]

/-- no post-processor substitutes an object of another Go type (`hraw`): what was discovered by type is assignable -/
theorem picked_compat_nil (pop : List Prov) (hid : (pop.map (·.id)).Nodup) (hraw : ∀ p ∈ pop, p.inj = none)
    (s : Slot) (v : Bytes) (a0 : Args)
    (hb : ByType s v) : (picked pop s v a0).filter (incompatPred (byId pop) s.kind) = [] := by
  rw [List.filter_eq_nil_iff]
  intro c hc
  obtain ⟨p, hp, rfl, hf⟩ := picked_found pop s v a0 hb c hc
  unfold incompatPred
  rw [byId_of_mem hid hp]
  simp [injAssignable_raw (hraw p hp), found_assignable hf]

theorem selfRemoved_ne (holder : Nat) (l : List Nat) (hex : ∃ d ∈ l, d ≠ holder) :
    ∀ c ∈ selfRemoved holder l, c ≠ holder := by
  intro c hc
  unfold selfRemoved at hc
  split at hc
  · rename_i he
    obtain ⟨d, hd, hne⟩ := hex
    rw [List.isEmpty_iff, List.filter_eq_nil_iff] at he
    exact absurd (by simpa using hne) (he d hd)
  · simpa using (List.mem_filter.mp hc).2

/-- a single-valued point never picks its own holder while somebody else is qualified -/
theorem picked_single_ne_holder (pop : List Prov) (s : Slot) (v : Bytes) (a0 : Args) (hs : s.kind.isSlice = false)
    (hex : ∃ d ∈ qualified pop s v a0, d ≠ s.holder) : ∀ c ∈ picked pop s v a0, c ≠ s.holder := by
  intro c hc
  rcases picked_single pop s v a0 hs with ⟨_, h⟩ | ⟨d, hd, h⟩
  · rw [h] at hc; cases hc
  · rw [h] at hc
    simp at hc; subst hc
    exact selfRemoved_ne _ _ hex _ (choose_spec _ _ _ hd).1

theorem picked_single_length (pop : List Prov) (s : Slot) (v : Bytes) (a0 : Args) (hs : s.kind.isSlice = false)
    (hne : qualified pop s v a0 ≠ []) : (picked pop s v a0).length = 1 := by
  rcases picked_single pop s v a0 hs with ⟨h, _⟩ | ⟨d, _, h⟩
  · exact absurd h hne
  · rw [h]; rfl

/-! ### by name -/

theorem qualFilter_none (byId : Nat → Option Prov) (args : Args) (l : List Nat) (h : find args kQualifier = none) :
    qualFilter byId args l = l := by
  unfold qualFilter; rw [h]

theorem resolveOne_named (pop : List Prov) (hid : (pop.map (·.id)).Nodup) (hnm : (pop.map (·.name)).Nodup)
    (s : Slot) (nm : Bytes) (a0 : Args) (p : Prov)
    (hf : s.isFunc = false) (hp : parse? s.tag = some (nm, a0)) (hv : nm ≠ [])
    (hk : (∃ t, s.kind = .ptr t) ∨ (∃ i, s.kind = .iface i))
    (hq : find a0 kQualifier = none) (hm : p ∈ pop) (hn : p.name = nm) :
    resolveOne pop s = some { cands := [p.id], slice := false, required := isRequired a0,
                              incompat := if injAssignable s.kind p then [] else [p.id] } := by
  have hs : s.kind.isSlice = false := by
    rcases hk with ⟨t, h⟩ | ⟨i, h⟩ <;> rw [h] <;> rfl
  have hadm : qualified pop s nm a0 = [p.id] := by
    unfold qualified
    rw [qualFilter_none _ _ _ (by rw [find_effArgs_qual]; exact hq)]
    exact discovered_named hnm s nm _ hf hv hk hm hn
  have hpk : picked pop s nm a0 = [p.id] := by
    unfold picked survivorsOf
    rw [hs, hadm, selfRemoved_single, choose_single]
    rfl
  rw [resolveOne_closed pop s nm a0 hp, hadm, hpk, hs]
  have hi : incompatPred (byId pop) s.kind p.id = !injAssignable s.kind p := by
    unfold incompatPred; rw [byId_of_mem hid hm]
  cases ha : injAssignable s.kind p <;> simp [List.filter, hi, ha]

theorem resolveOne_empty (pop : List Prov) (s : Slot) (v : Bytes) (a0 : Args)
    (hp : parse? s.tag = some (v, a0)) (he : qualified pop s v a0 = []) :
    resolveOne pop s = if isRequired a0 = true then none
      else some { cands := [], slice := s.kind.isSlice, required := false, incompat := [] } := by
  rw [resolveOne_closed pop s v a0 hp]
  have hpk : picked pop s v a0 = [] := by
    apply List.eq_nil_iff_forall_not_mem.mpr
    intro c hc
    have := picked_subset_qualified pop s v a0 c hc
    rw [he] at this; cases this
  cases hr : isRequired a0 <;> simp [he, hpk]

theorem qualified_nil_of_discovered_nil (pop : List Prov) (s : Slot) (v : Bytes) (a0 : Args)
    (h : discovered pop s v (effArgs a0) = []) : qualified pop s v a0 = [] := by
  unfold qualified; rw [h, qualFilter_nil]

/-! ### the loop over the fields of one holder -/

theorem resolveAll_eq_mapM (pop : List Prov) (slots : List Slot) :
    resolveAll pop slots = slots.mapM (resolveOne pop) := by
  induction slots with
  | nil => rfl
  | cons s rest ih =>
    rw [List.mapM_cons, resolveAll, ih]
    cases resolveOne pop s with
    | none => rfl
    | some p =>
      cases List.mapM (resolveOne pop) rest <;> rfl

/-- success iff every field resolves, and then the i-th point is `resolveOne` of the i-th field -/
theorem resolveAll_some_iff (pop : List Prov) (slots : List Slot) (pts : List RPoint) :
    resolveAll pop slots = some pts ↔ slots.map (resolveOne pop) = pts.map some := by
  induction slots generalizing pts with
  | nil =>
    simp only [resolveAll, Option.some.injEq, List.map_nil]
    constructor
    · intro h; subst h; rfl
    · intro h; cases pts with
      | nil => rfl
      | cons a t => cases h
  | cons s rest ih =>
    rw [resolveAll, List.map_cons]
    cases h1 : resolveOne pop s with
    | none =>
      simp only
      constructor
      · intro h; cases h
      · intro h; cases pts with
        | nil => cases h
        | cons a t => simp at h
    | some p =>
      simp only
      cases pts with
      | nil =>
        constructor
        · intro h; cases h2 : resolveAll pop rest <;> rw [h2] at h <;> cases h
        · intro h; cases h
      | cons a t =>
        rw [List.map_cons, List.cons.injEq, Option.some.injEq, ← ih t]
        cases h2 : resolveAll pop rest with
        | none => simp
        | some l => simp

/-! ### order independence of one point -/

theorem eq_nil_perm {α : Type} {l l' : List α} (h : l.Perm l') : l = [] ↔ l' = [] := by
  constructor
  · intro e; subst e; exact h.nil_eq.symm
  · intro e; subst e; exact h.symm.nil_eq.symm

/-- the core of C10_choice_perm, relative to the parsed tag -/
theorem resolveOne_perm {pop pop' : List Prov} (hperm : pop.Perm pop') (hid : (pop.map (·.id)).Nodup)
    (hnm : (pop.map (·.name)).Nodup) (s : Slot) (v : Bytes) (a0 : Args) (hp : parse? s.tag = some (v, a0)) :
    (resolveOne pop s = none ∧ resolveOne pop' s = none) ∨
    ∃ a b, resolveOne pop s = some a ∧ resolveOne pop' s = some b ∧
      a.required = b.required ∧ a.slice = b.slice ∧
      (∃ bad : Nat → Bool, a.incompat = a.cands.filter bad ∧ b.incompat = b.cands.filter bad) ∧
      (s.kind.isSlice = true → a.cands.Perm b.cands) ∧
      (s.kind.isSlice = false → TiedL (byId pop) (survivorsOf pop s v a0) = false → a.cands = b.cands) ∧
      (s.kind.isSlice = false →
        (∀ c ∈ a.cands, c ∈ tiedSetL (byId pop) (survivorsOf pop s v a0)) ∧
        (∀ c ∈ b.cands, c ∈ tiedSetL (byId pop) (survivorsOf pop s v a0))) := by
  have hadm := qualified_perm hperm hid hnm s v a0
  have hsur := survivorsOf_perm hperm hid hnm s v a0
  have hby := byId_perm hperm hid
  rw [resolveOne_closed pop s v a0 hp, resolveOne_closed pop' s v a0 hp]
  by_cases hn : qualified pop s v a0 = [] ∧ isRequired a0 = true
  · left
    have hn' : qualified pop' s v a0 = [] ∧ isRequired a0 = true := ⟨(eq_nil_perm hadm).mp hn.1, hn.2⟩
    rw [if_pos hn, if_pos hn']
    exact ⟨rfl, rfl⟩
  · right
    have hn' : ¬ (qualified pop' s v a0 = [] ∧ isRequired a0 = true) :=
      fun h => hn ⟨(eq_nil_perm hadm).mpr h.1, h.2⟩
    rw [if_neg hn, if_neg hn']
    refine ⟨_, _, rfl, rfl, rfl, rfl, ⟨incompatPred (byId pop) s.kind, rfl, by rw [hby]⟩, ?_, ?_, ?_⟩
    · intro hs
      show (picked pop s v a0).Perm (picked pop' s v a0)
      unfold picked; rw [hs]; exact hadm
    · intro hs ht
      show picked pop s v a0 = picked pop' s v a0
      rcases picked_single pop s v a0 hs with ⟨h1, h2⟩ | ⟨c, hc, h2⟩
      · rcases picked_single pop' s v a0 hs with ⟨_, h4⟩ | ⟨c', hc', _⟩
        · rw [h2, h4]
        · have : survivorsOf pop' s v a0 = [] := by
            unfold survivorsOf
            rw [(eq_nil_perm hadm).mp h1]; rfl
          rw [this] at hc'; cases hc'
      · rcases picked_single pop' s v a0 hs with ⟨h3, _⟩ | ⟨c', hc', h4⟩
        · have : survivorsOf pop s v a0 = [] := by
            unfold survivorsOf
            rw [(eq_nil_perm hadm).mpr h3]; rfl
          rw [this] at hc; cases hc
        · rw [← hby] at hc'
          rw [h2, h4, choose_perm_untied (byId pop) hsur ht c c' hc hc']
    · intro hs
      constructor
      · intro c hc
        change c ∈ picked pop s v a0 at hc
        rcases picked_single pop s v a0 hs with ⟨_, h2⟩ | ⟨d, hd, h2⟩
        · rw [h2] at hc; cases hc
        · rw [h2] at hc; simp at hc; subst hc
          exact choose_mem_tiedSetL _ _ _ hd
      · intro c hc
        change c ∈ picked pop' s v a0 at hc
        rcases picked_single pop' s v a0 hs with ⟨_, h2⟩ | ⟨d, hd, h2⟩
        · rw [h2] at hc; cases hc
        · rw [h2] at hc; simp at hc; subst hc
          rw [← hby] at hd
          exact (tiedSetL_perm (byId pop) hsur).mem_iff.mpr (choose_mem_tiedSetL _ _ _ hd)

end Ioc.Match
