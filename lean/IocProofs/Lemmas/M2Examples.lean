/-
  Concrete scenarios used by the non-vacuity examples of C05 / C09 / C13.
-/
import Ioc.App
namespace Ioc.M2.Ex
open Ioc.M2 Ioc.App

/-- all flags benign -/
def benign (names boot eager : List Nat) (points : Nat → Option (List Point)) : Scen :=
  { names := names, boot := boot, eager := eager, points := points,
    wired := fun _ => true, logged := fun _ => true, cfgOk := fun _ => true,
    fBefore := fun _ => false, fAps := fun _ => false, fInit := fun _ => false, fAfter := fun _ => false,
    fEarly := fun _ => false, earlyO := raw, afterO := raw }

def pt (cands : List Nat) (slice : Bool := false) (required : Bool := true) : Point :=
  { cands := cands, slice := slice, required := required, incompat := [] }

/-- a 3-cycle 0 → 1 → 2 → 0 with a diamond tail 2 → {3, 4} → 5; 6 is lazy and needed by nobody -/
def cycPoints (n : Nat) : Option (List Point) :=
  match n with
  | 0 => some [pt [1]]
  | 1 => some [pt [2]]
  | 2 => some [pt [0], pt [3], pt [4]]
  | 3 => some [pt [5]]
  | 4 => some [pt [5]]
  | _ => some []

def cyc : Scen := benign [0, 1, 2, 3, 4, 5, 6] [] [0, 1, 2] cycPoints

/-- the same graph, Init of component 5 fails -/
def cycInitFault : Scen := { cyc with fInit := fun n => n == 5 }

/-- the same graph, component 3 has a required point without candidate -/
def cycMissing : Scen :=
  { cyc with points := fun n => if n = 3 then none else cycPoints n }

/-- the same graph, 4 gets an optional point whose only candidate 7 is incompatible -/
def cycOptional : Scen :=
  { cyc with names := [0, 1, 2, 3, 4, 5, 6, 7],
             points := fun n => if n = 4 then some [pt [5], { cands := [7], slice := false, required := false, incompat := [7] }]
                                else cycPoints n }

/-- App (0) collects the runners 1, 2, 3 (lazy: created because the App needs them) into a slice; 4 is another eager component -/
def appPoints (n : Nat) : Option (List Point) :=
  match n with
  | 0 => some [pt [1, 2, 3] (slice := true)]
  | 2 => some [pt [4]]
  | _ => some []

def appSc : Scen := benign [0, 1, 2, 3, 4] [] [0, 4] appPoints

/-- 1 is plain, 2 is ordered (Order 5), 3 is priority-ordered (Order 9); `failing` is the runner whose Run fails -/
def appScen (failing : Nat) : AppScen :=
  { loaderFail := false, scanFail := false, sc := appSc, appRow := 0, runnersPoint := 0,
    runnerInfo := fun n =>
      match n with
      | 1 => (.plain, 0, failing == 1)
      | 2 => (.ord, 5, failing == 2)
      | 3 => (.prio, 9, failing == 3)
      | _ => (.plain, 0, false) }

end Ioc.M2.Ex
