/-
  Lemmas for C12: components supplied before instantiation (applyPostProcessBeforeInstantiation,
  ResolveBeforeInstantiation, the short-circuit of createComponent) and starts with several watched components.
  Core Lean only.
-/
import IocProofs.Lemmas.Order
namespace Ioc.Order

variable {α : Type}

/-! ### the before-instantiation chain -/

/-- the chain asks the InstantiationAware processors front to back, up to and including the first one that answers -/
theorem applyBeforeInstantiation_log {β : Type} (isInst : α → Bool) (bi : α → Res β) (l log : List α) :
    (applyBeforeInstantiation isInst bi l log).1 =
      log ++ takeUntil (fun p => (bi p).answers) (l.filter isInst) := by
  induction l generalizing log with
  | nil => simp [applyBeforeInstantiation, takeUntil]
  | cons x rest ih =>
    simp only [applyBeforeInstantiation]
    by_cases hi : isInst x = true
    · simp only [hi, if_true, List.filter_cons_of_pos, takeUntil]
      cases hb : bi x with
      | err => simp [Res.answers]
      | val c => simp [Res.answers]
      | nil => simp [Res.answers, ih, List.append_assoc]
    · have hi' : isInst x = false := by simpa using hi
      simp [hi', ih]

/-- …and its answer is the answer of that processor (nil when nobody answers) -/
theorem applyBeforeInstantiation_res {β : Type} (isInst : α → Bool) (bi : α → Res β) (l log : List α) :
    (applyBeforeInstantiation isInst bi l log).2 =
      match (l.filter isInst).find? (fun p => (bi p).answers) with
      | none => .nil
      | some p => bi p := by
  induction l generalizing log with
  | nil => simp [applyBeforeInstantiation]
  | cons x rest ih =>
    simp only [applyBeforeInstantiation]
    by_cases hi : isInst x = true
    · simp only [hi, if_true, List.filter_cons_of_pos]
      cases hb : bi x with
      | err => simp [hb, Res.answers]
      | val c => simp [hb, Res.answers]
      | nil => simp [hb, Res.answers, ih]
    · have hi' : isInst x = false := by simpa using hi
      simp [hi', ih]

theorem applyBeforeInstantiation_prefix {β : Type} (isInst : α → Bool) (bi : α → Res β) (l : List α) :
    (applyBeforeInstantiation isInst bi l []).1 <+: l.filter isInst := by
  rw [applyBeforeInstantiation_log]; simpa using takeUntil_prefix _ _

/-- when nobody answers, every InstantiationAware processor was asked -/
theorem applyBeforeInstantiation_all {β : Type} (isInst : α → Bool) (bi : α → Res β) (l : List α)
    (h : ∀ p, (bi p).answers = false) :
    applyBeforeInstantiation isInst bi l [] = (l.filter isInst, .nil) := by
  have h1 := applyBeforeInstantiation_log isInst bi l []
  have h2 := applyBeforeInstantiation_res isInst bi l []
  rw [takeUntil_all _ _ (fun x _ => h x)] at h1
  have h3 : (l.filter isInst).find? (fun p => (bi p).answers) = none := by
    simp [List.find?_eq_none, h]
  rw [h3] at h2
  exact Prod.ext (by simpa using h1) h2

theorem applyAfter_log_prefix {β : Type} (after : α → β → Res β) (l : List α) (c : β) :
    (applyAfter after l c []).1 <+: l ∧
    ((∀ p b, ∃ c', after p b = .val c') → (applyAfter after l c []).1 = l ∧ (applyAfter after l c []).2.isSome = true) := by
  obtain ⟨d, e, p, h⟩ := applyAfter_prefix after l c []
  simp only [List.nil_append] at e
  refine ⟨by rw [e]; exact p, ?_⟩
  intro hall
  obtain ⟨h1, h2⟩ := h hall
  exact ⟨by rw [e, h1], h2⟩

/-! ### createComponent -/

/-- a component supplied by the before-instantiation chain: the creation is the after-initialization chain over the
    supplied instance, nothing else -/
theorem createComponent_supplied {β : Type} (isInst : α → Bool) (bi : α → Res β) (instRes : α → Step)
    (before after : α → β → Res β) (initFails : β → Bool) (procs : List α) (raw c : β)
    (h : (applyBeforeInstantiation isInst bi procs []).2 = .val c) :
    createComponent true isInst bi instRes before after initFails procs raw =
      ({ binst := (applyBeforeInstantiation isInst bi procs []).1, after := (applyAfter after procs c []).1 },
       (applyAfter after procs c []).2) := by
  unfold createComponent resolveBeforeInstantiation
  simp only [if_true]
  cases hb : applyBeforeInstantiation isInst bi procs [] with
  | mk lb rb =>
    rw [hb] at h
    simp only at h
    subst h
    simp only
    cases ha : (applyAfter after procs c []).2 with
    | none => simp
    | some c' => simp

/-- a component nobody supplies (no InstantiationAware processor, or all of them answer nil): the ordinary creation -/
theorem createComponent_regular {β : Type} (hasInst : Bool) (isInst : α → Bool) (bi : α → Res β) (instRes : α → Step)
    (before after : α → β → Res β) (initFails : β → Bool) (procs : List α) (raw : β)
    (h : hasInst = false ∨ (applyBeforeInstantiation isInst bi procs []).2 = .nil) :
    createComponent hasInst isInst bi instRes before after initFails procs raw =
      (let lb := if hasInst then (applyBeforeInstantiation isInst bi procs []).1 else []
       let ri := resolveAfterInstantiation isInst instRes procs
       if ri.2 then ({ binst := lb, inst := ri.1 }, none) else
       let ic := initializeComponent before after initFails procs raw
       ({ binst := lb, inst := ri.1, before := ic.1, after := ic.2.1 }, ic.2.2)) := by
  unfold createComponent resolveBeforeInstantiation
  cases hasInst with
  | false => simp
  | true =>
    rcases h with h | h
    · cases h
    · simp only [if_true]
      cases hb : applyBeforeInstantiation isInst bi procs [] with
      | mk lb rb =>
        rw [hb] at h
        simp only at h
        subst h
        simp

/-- whatever the callbacks answer: the four logs of one creation are prefixes of the chain (of its InstantiationAware
    part for the two instantiation callbacks) -/
theorem createComponent_in_order {β : Type} (hasInst : Bool) (isInst : α → Bool) (bi : α → Res β) (instRes : α → Step)
    (before after : α → β → Res β) (initFails : β → Bool) (procs : List α) (raw : β) :
    let r := createComponent hasInst isInst bi instRes before after initFails procs raw
    r.1.binst <+: procs.filter isInst ∧ firsts r.1.inst <+: procs.filter isInst ∧
    r.1.before <+: procs ∧ r.1.after <+: procs := by
  have pI : firsts (resolveAfterInstantiation isInst instRes procs).1 <+: procs.filter isInst := by
    rw [resolveAfterInstantiation_firsts]; exact takeUntil_prefix _ _
  obtain ⟨hB, hA, _⟩ := initializeComponent_in_order before after initFails procs raw
  have pN := applyBeforeInstantiation_prefix isInst bi procs
  intro r
  have hr : r = createComponent hasInst isInst bi instRes before after initFails procs raw := rfl
  clear_value r
  unfold createComponent resolveBeforeInstantiation at hr
  cases hasInst with
  | false =>
    simp only [Bool.false_eq_true, if_false] at hr
    by_cases h2 : (resolveAfterInstantiation isInst instRes procs).2 = true
    · simp only [h2, if_true] at hr
      subst hr
      exact ⟨List.nil_prefix, pI, List.nil_prefix, List.nil_prefix⟩
    · simp only [h2, if_false, Bool.false_eq_true] at hr
      subst hr
      exact ⟨List.nil_prefix, pI, hB, hA⟩
  | true =>
    simp only [if_true] at hr
    cases hb : applyBeforeInstantiation isInst bi procs [] with
    | mk lb rb =>
      rw [hb] at hr pN
      simp only at pN
      cases rb with
      | err =>
        simp only at hr
        subst hr
        exact ⟨pN, by simp [firsts], List.nil_prefix, List.nil_prefix⟩
      | val c =>
        have pA := (applyAfter_log_prefix after procs c).1
        cases ha : (applyAfter after procs c []).2 with
        | none =>
          simp only [ha] at hr
          subst hr
          exact ⟨pN, by simp [firsts], List.nil_prefix, pA⟩
        | some c' =>
          simp only [ha] at hr
          subst hr
          exact ⟨pN, by simp [firsts], List.nil_prefix, pA⟩
      | nil =>
        simp only at hr
        by_cases h2 : (resolveAfterInstantiation isInst instRes procs).2 = true
        · simp only [h2, if_true] at hr
          subst hr
          exact ⟨pN, pI, List.nil_prefix, List.nil_prefix⟩
        · simp only [h2, if_false, Bool.false_eq_true] at hr
          subst hr
          exact ⟨pN, pI, hB, hA⟩

/-! ### Refresh over the watched components, a whole start -/

/-- every entry of the result is one creation of one of the components (each component at most once: the entries
    follow `cs` front to back) -/
theorem refreshLoop_entries {β γ : Type} (hasInst : Bool) (isInst : α → Bool) (bi : γ → α → Res β) (instRes : α → Step)
    (before after : α → β → Res β) (initFails : β → Bool) (procs : List α) (raw : γ → β)
    (cs : List γ) (acc : List (CompLog α × Option β)) :
    ∃ done, done <+: cs ∧
      (refreshLoop hasInst isInst bi instRes before after initFails procs raw cs acc).1 =
        acc ++ done.map (fun c => createComponent hasInst isInst (bi c) instRes before after initFails procs (raw c)) ∧
      ((refreshLoop hasInst isInst bi instRes before after initFails procs raw cs acc).2 = false → done = cs) := by
  induction cs generalizing acc with
  | nil => exact ⟨[], List.nil_prefix, by simp [refreshLoop], fun _ => rfl⟩
  | cons c rest ih =>
    simp only [refreshLoop]
    cases hc : (createComponent hasInst isInst (bi c) instRes before after initFails procs (raw c)).2 with
    | none =>
      refine ⟨[c], ⟨rest, rfl⟩, by simp, ?_⟩
      intro h; cases h
    | some v =>
      obtain ⟨d, p, e, f⟩ := ih (acc ++ [createComponent hasInst isInst (bi c) instRes before after initFails procs (raw c)])
      refine ⟨c :: d, List.cons_prefix_cons.mpr ⟨rfl, p⟩, by simp [e], ?_⟩
      intro h; rw [f h]

theorem startB_in_order {β γ : Type} {sort : (α → α → Bool) → List α → List α} {part : α → Part}
    (hs : SortSpec part sort)
    (loadRes : α → Step) (hasInst : Bool) (isInst : α → Bool) (bi : γ → α → Res β) (instRes : α → Step)
    (before after : α → β → Res β) (runFails : α → Bool) (raw : γ → β) (cs : List γ)
    (loaders procs runners : List α) :
    let g := startB sort part loadRes (fun x => some x) hasInst isInst bi instRes before after runFails raw cs loaders procs runners
    firsts g.loads <+: sortOrdered sort part loaders ∧
    g.comps.length ≤ cs.length ∧
    (∀ r ∈ g.comps,
      r.1.binst <+: (sortOrdered sort part procs).filter isInst ∧
      firsts r.1.inst <+: (sortOrdered sort part procs).filter isInst ∧
      r.1.before <+: sortOrdered sort part procs ∧
      r.1.after <+: sortOrdered sort part procs) ∧
    g.runs <+: sortOrdered sort part runners := by
  have hreg : invokeRegister sort part (fun x => some x) procs [] = (sortOrdered sort part procs, false) := by
    have := registerLoop_total (fun x : α => x) (sortOrdered sort part procs) []
    simpa [invokeRegister] using this
  have hL := loadConfigure_firsts (sort := sort) (part := part) loadRes loaders
  have pL := takeUntil_prefix (fun x => (loadRes x).stops) (sortOrdered sort part loaders)
  rw [← hL] at pL
  have hR := callRunners_eq hs runFails runners
  have pR := takeUntil_prefix runFails (sortOrdered sort part runners)
  obtain ⟨d, pd, ed, _⟩ := refreshLoop_entries hasInst isInst bi instRes before after (fun _ => false)
    (sortOrdered sort part procs) raw cs []
  simp only [List.nil_append] at ed
  have hlen : (refreshLoop hasInst isInst bi instRes before after (fun _ => false) (sortOrdered sort part procs) raw cs []).1.length
      ≤ cs.length := by
    rw [ed, List.length_map]; exact pd.length_le
  have hall : ∀ r ∈ (refreshLoop hasInst isInst bi instRes before after (fun _ => false) (sortOrdered sort part procs) raw cs []).1,
      r.1.binst <+: (sortOrdered sort part procs).filter isInst ∧
      firsts r.1.inst <+: (sortOrdered sort part procs).filter isInst ∧
      r.1.before <+: sortOrdered sort part procs ∧
      r.1.after <+: sortOrdered sort part procs := by
    intro r hr
    rw [ed] at hr
    obtain ⟨c, _, rfl⟩ := List.mem_map.mp hr
    exact createComponent_in_order hasInst isInst (bi c) instRes before after (fun _ => false) _ (raw c)
  intro g
  have hg : g = startB sort part loadRes (fun x => some x) hasInst isInst bi instRes before after runFails raw cs loaders procs runners := rfl
  clear_value g
  unfold startB at hg
  simp only [hreg] at hg
  by_cases h1 : (loadConfigure sort part loadRes loaders).2 = true
  · simp only [h1, if_true] at hg
    subst hg
    exact ⟨pL, by simp, by simp, List.nil_prefix⟩
  · simp only [h1, if_false, Bool.false_eq_true] at hg
    by_cases h2 : (refreshLoop hasInst isInst bi instRes before after (fun _ => false) (sortOrdered sort part procs) raw cs []).2 = true
    · simp only [h2, if_true] at hg
      subst hg
      exact ⟨pL, hlen, hall, List.nil_prefix⟩
    · simp only [h2, if_false, Bool.false_eq_true, hR] at hg
      subst hg
      exact ⟨pL, hlen, hall, pR⟩

end Ioc.Order
