/-
  The objects a frame has collected for its current point are, name by name, the candidates of that point it has asked for
  so far (`AccNames`) — for every scenario whose post-processors keep the name of the component they wrap (`Lc.WF`).
  `Good` bundles the run invariants of Lemmas/M2Step*.lean, M2Log*.lean that the success characterisation uses.
-/
import IocProofs.Lemmas.M2SucceedsDefs
import IocProofs.Lemmas.M2StepFresh
namespace Ioc.M2.Sx
open Ioc.M2 Ioc.M2.Lc

/-- the candidates of the point the frame is working on ([] when it is past its last point) -/
def candsAt (sc : Scen) (f : Frame) : List Nat := (((pts sc f.name)[f.p]?).map (·.cands)).getD []

def AccOk (sc : Scen) (f : Frame) : Prop := f.acc.map (·.name) = (candsAt sc f).take f.d

def AccNames (sc : Scen) (st : St) : Prop := ∀ f ∈ st.stack, AccOk sc f

theorem candsAt_eq {sc : Scen} {f : Frame} (hp : f.p < (pts sc f.name).length) :
    candsAt sc f = ((pts sc f.name)[f.p]).cands := by
  simp [candsAt, List.getElem?_eq_getElem hp]

theorem publish_stack (s : St) (n : Nat) (pub : Obj) (rest : List Frame) : (publish s n pub rest).stack = bump rest pub := by
  cases rest <;> rfl

theorem accOk_bump {sc : Scen} {stk : List Frame} {o : Obj} {c : Nat} (ho : o.name = c)
    (he : ∀ f rest, stk = f :: rest → Edge sc f c) (h : ∀ f ∈ stk, AccOk sc f) : ∀ f ∈ bump stk o, AccOk sc f := by
  cases stk with
  | nil => simp [bump]
  | cons g rest =>
    intro f hf
    simp only [bump, List.mem_cons] at hf
    rcases hf with rfl | hf
    · obtain ⟨pt, h1, h2⟩ := he g rest rfl
      have hg := h g (by simp)
      unfold AccOk candsAt at *
      simp only [h1, Option.map_some, Option.getD_some] at hg ⊢
      obtain ⟨hlt, hget⟩ := List.getElem?_eq_some_iff.mp h2
      rw [List.take_succ_eq_append_getElem hlt, List.map_append, hg, hget]
      simp [ho]
    · exact h f (by simp [hf])

theorem src_edge {sc : Scen} {st st0 : St} {c : Nat} (src : Src sc st st0 c) :
    ∀ f rest, st0.stack = f :: rest → Edge sc f c := by
  intro f rest hs
  cases src with
  | boot n t hs' hb => simp [hs'] at hs
  | todo n t hs' hb ht => simp [hs'] at hs
  | cand g rest' hs' hp hd =>
    rw [hs'] at hs
    injection hs with h1 h2
    subst h1
    exact ⟨_, List.getElem?_eq_getElem hp, List.getElem?_eq_getElem hd⟩

theorem pubCond_name {sc : Scen} (wf : WF sc) {st : St} (hn : NameInv st) {n : Nat} {pub : Obj}
    (h : Lc.PubCond sc st n pub) : pub.name = n := by
  rcases h with ⟨_, rfl⟩ | ⟨e, he, _, rfl⟩ | ⟨e, _, _, _, rfl⟩
  · exact wf.init_name n
  · exact hn.l2_name n _ he
  · exact wf.init_name n

theorem accNames_stepR (sc : Scen) (wf : WF sc) (st st' : St) (hn : NameInv st) (hch : Chain sc st.stack)
    (h : AccNames sc st) (hstep : StepR sc st st') : AccNames sc st' := by
  cases hstep with
  | done hs hb ht => exact h
  | hit st0 c src o ho =>
    have hn0 := nameInv_src src hn
    have hname : o.name = c := by
      rcases ho with ho | ⟨_, ho⟩
      · exact hn0.l1_name c o ho
      · exact hn0.l2_name c o ho
    exact accOk_bump hname (src_edge src) (by rw [src.same.2.2.2.1]; exact h)
  | promote st0 c src h1 h2 h3 hf =>
    intro f hf'
    have hf'' : f ∈ bump st0.stack (sc.earlyO c) := hf'
    exact accOk_bump (wf.early_name c) (src_edge src) (by rw [src.same.2.2.2.1]; exact h) f hf''
  | earlyFail st0 c src h1 h2 h3 hf => intro f hf'; simp [failAt] at hf'
  | unknown st0 c src h1 h2 h3 hn' => intro f hf'; simp [failAt] at hf'
  | enterU st0 c src h1 h2 h3 hn' hw =>
    intro f hf'
    simp only [push, List.mem_cons] at hf'
    rcases hf' with rfl | hf'
    · simp [AccOk]
    · exact h f (by rw [← src.same.2.2.2.1]; exact hf')
  | enterFail st0 c src h1 h2 h3 hn' hw hbad => intro f hf'; simp [failAt] at hf'
  | enterW st0 c src h1 h2 h3 hn' hw hcfg hpts =>
    intro f hf'
    simp only [addLog_stack, push, List.mem_cons] at hf'
    rcases hf' with rfl | hf'
    · simp [AccOk]
    · exact h f (by rw [← src.same.2.2.2.1]; exact hf')
  | advance f rest hs hp hd hwhy =>
    intro g hg
    simp only [List.mem_cons] at hg
    rcases hg with rfl | hg
    · simp [AccOk, advance]
    · exact h g (by rw [hs]; simp [hg])
  | injFail f rest hs hp hd hne hreq hwhy => intro f hf'; simp [failAt] at hf'
  | write f rest hs hp hd hne hm hc =>
    intro g hg
    simp only [List.mem_cons] at hg
    rcases hg with rfl | hg
    · simp [AccOk, advance]
    · exact h g (by rw [hs]; simp [hg])
  | cbFail f rest hs hp hcb => intro f hf'; simp [failAt] at hf'
  | stale f rest hs hp hcb e he hw hh => intro f hf'; simp [failAt] at hf'
  | publish f rest hs hp hcb pub hpub =>
    intro g hg
    rw [publish_stack] at hg
    refine accOk_bump (pubCond_name wf hn hpub) ?_ (fun g hg => h g (by rw [hs]; simp [hg])) g hg
    intro g' rest' hr
    rw [hs, hr] at hch
    exact hch.1

/-- the run invariants used by the success characterisation -/
structure Good (sc : Scen) (st : St) : Prop where
  inv : Lc.Inv sc st
  todo : TodoInv sc st
  reach : ReachInv sc st
  obj : ObjInv st
  chain : Chain sc st.stack
  fresh : Fresh st
  acc : AccNames sc st

theorem accNames_run (sc : Scen) (wf : WF sc) (k : Nat) : AccNames sc (run sc k (init sc)) := by
  have := run_inv sc (fun s => Lc.Inv sc s ∧ ObjInv s ∧ Chain sc s.stack ∧ AccNames sc s)
    (step_inv_of_rel sc _ (fun st st' hi hr h =>
      ⟨inv_stepR sc st st' hi.1 hr h, objInv_stepR sc wf st st' hi.1 hi.2.1 hr h, chain_stepR sc st st' hi.2.2.1 h,
       accNames_stepR sc wf st st' hi.2.1.1 hi.2.2.1 hi.2.2.2 h⟩))
    k _ ⟨Lc.inv_init sc, objInv_init sc, by simp [init]; trivial, by simp [AccNames, init]⟩
  exact this.2.2.2

theorem good_run (sc : Scen) (wf : WF sc) (k : Nat) : Good sc (run sc k (init sc)) :=
  ⟨Lc.inv_run sc k, todo_run sc k, reachInv_run sc k, (deps_run sc wf k).1, (deps_run sc wf k).2, fresh_run sc k,
   accNames_run sc wf k⟩

end Ioc.M2.Sx
