/-
  The regenerated programs of factory.go createComponent / getEarlyBeanReference / GetComponentByName compute
  Sem.createModel / Sem.earlyModel / the instance of what doGetComponent returned.
-/
import Ioc.SemFactory2
import IocProofs.Lemmas.GoTactics
namespace Ioc.Sem
open Ioc Ioc.Go

theorem createComponent_sem (d : CCC) :
    run (cccPrims d) Progs.fac_createComponent [.int d.n] [] = some (encMeta d.n (createModel d).1, (createModel d).2) := by
  obtain ⟨n, found, before, proxyOk, doCreate⟩ := d
  cases found with
  | false => go_simp [Progs.fac_createComponent, cccPrims, cccFn, createModel, encMeta, errF]
  | true =>
    rcases before with _ | _ | v
    · go_simp [Progs.fac_createComponent, cccPrims, cccFn, createModel, encMeta, errF]
    · cases doCreate <;> go_simp [Progs.fac_createComponent, cccPrims, cccFn, createModel, encMeta, errF]
    · cases v with
      | zero => go_simp [Progs.fac_createComponent, cccPrims, cccFn, createModel, encMeta, errF]
      | succ k =>
        have h1 : (1000 + (k + 1) == 1000) = false := by simp
        have h2 : 1000 + (k + 1) - 1000 = k + 1 := by omega
        cases proxyOk <;> go_simp [Progs.fac_createComponent, cccPrims, cccFn, createModel, encMeta, errF, h1, h2]

theorem getEarlyBeanReference_sem (d : GEB) :
    run (gebPrims d) Progs.fac_getEarlyBeanReference [.int d.n, .ref d.n 0] [] =
      some (encMeta d.n (earlyModel d).1, (earlyModel d).2) := by
  obtain ⟨n, early, proxyOk⟩ := d
  rcases early with _ | v
  · go_simp [Progs.fac_getEarlyBeanReference, gebPrims, gebFn, earlyModel, encMeta, errF]
  · cases v with
    | zero => go_simp [Progs.fac_getEarlyBeanReference, gebPrims, gebFn, earlyModel, encMeta, errF]
    | succ k =>
      have h1 : (1000 + (k + 1) == 1000) = false := by simp
      have h2 : 1000 + (k + 1) - 1000 = k + 1 := by omega
      cases proxyOk <;> go_simp [Progs.fac_getEarlyBeanReference, gebPrims, gebFn, earlyModel, encMeta, errF, h1, h2]

theorem getComponentByName_sem (n : Nat) (res : Option Nat) :
    run (gcbPrims res) Progs.fac_GetComponentByName [.int n] () =
      some (match res with
            | some v => .tuple [.ref n (1000 + v), .nil]
            | none => .tuple [.nil, errF], ()) := by
  cases res <;> go_simp [Progs.fac_GetComponentByName, gcbPrims, gcbFn, errF]

end Ioc.Sem
