/-
  Lemmas about Ioc.Match (M3): a closed form of `resolveOne`.
  The pipeline of one injection point is split into named stages
      discovered  →  qualified (qualifier)  →  survivors (self removal)  →  picked (choice loop)
  and `resolveOne_closed` shows that `resolveOne` is exactly their composition.  Nothing here changes the model;
  every stage is a sub-term of `narrow` / `resolveOne` given a name.
-/
import Ioc.Match
namespace Ioc.Match
open Ioc Ioc.Tag

/-! ### names for the sub-terms of `resolveOne` -/

/-- the `byId` of `resolveOne`: first provider of the enumeration with that id -/
def byId (pop : List Prov) : Nat → Option Prov := fun i => pop.find? (fun p => p.id == i)

/-- the scanner's `Required` default applied to the parsed arguments -/
def effArgs (a0 : Args) : Args := if has a0 kRequired [] then a0 else setArg a0 kRequired []

/-- the func tag's method test (FuncName, or FuncNameAndResult for one of the `returns` items) -/
def methOK (fn : Bytes) (args : Args) (p : Prov) : Bool :=
  match find args kReturns with
  | some rs => rs.any (fun r => funcNameAndResult fn r p)
  | none => funcName fn p

/-- discovery predicate of a by-type point: assignable, and for the func tag exposing the method -/
def found (s : Slot) (fn : Bytes) (args : Args) (p : Prov) : Bool :=
  assignable s.kind p && (if s.isFunc then methOK fn args p else true)

/-- the non-nil Metas handed to filterDependencies -/
def discovered (pop : List Prov) (s : Slot) (v : Bytes) (args : Args) : List Nat :=
  (if s.isFunc then candidatesFunc pop s.kind v args else candidatesWire pop s.kind v).filterMap id

/-- the qualifier test of filterDependencies on one candidate -/
def qualPred (byId : Nat → Option Prov) (args : Args) (c : Nat) : Bool :=
  match byId c with
  | some p => (match p.qual with
      | some q => has args kQualifier [q]
      | none => false)
  | none => false

def qualFilter (byId : Nat → Option Prov) (args : Args) (r1 : List Nat) : List Nat :=
  match find args kQualifier with
  | some _ => r1.filter (qualPred byId args)
  | none => r1

/-- the holder is dropped when somebody else remains -/
def selfRemoved (holder : Nat) (r2 : List Nat) : List Nat :=
  if (r2.filter (· != holder)).isEmpty then r2 else r2.filter (· != holder)

/-- the value check of Inject on one candidate -/
def incompatPred (byId : Nat → Option Prov) (k : Kind) (c : Nat) : Bool :=
  match byId c with
  | some p => !injAssignable k p
  | none => true

/-- candidates after the qualifier filter -/
def qualified (pop : List Prov) (s : Slot) (v : Bytes) (a0 : Args) : List Nat :=
  qualFilter (byId pop) (effArgs a0) (discovered pop s v (effArgs a0))

/-- what the Primary / unnamed loop chooses from (single-valued points) -/
def survivorsOf (pop : List Prov) (s : Slot) (v : Bytes) (a0 : Args) : List Nat :=
  selfRemoved s.holder (qualified pop s v a0)

/-- `prop.Injects` at the end of the iteration -/
def picked (pop : List Prov) (s : Slot) (v : Bytes) (a0 : Args) : List Nat :=
  if s.kind.isSlice then qualified pop s v a0
  else match choose (byId pop) (survivorsOf pop s v a0) with
    | some c => [c]
    | none => []

/-! ### argument bookkeeping -/

theorem kRequired_eq : kRequired = [82, 101, 113, 117, 105, 114, 101, 100] := by decide

theorem setArg_kRequired (a : Args) (v : List Bytes) : setArg a kRequired v = ainsert kRequired v a := by
  rw [kRequired_eq]
  have : upperFirst 82 = [82] := by decide
  simp [setArg, this]

theorem find_setRequired (a : Args) (k : Bytes) (hk : formatArgType? k ≠ some kRequired) (v : List Bytes) :
    find (setArg a kRequired v) k = find a k := by
  rw [setArg_kRequired]
  unfold find
  cases h : formatArgType? k with
  | none => rfl
  | some k' =>
    simp only
    apply alookup_ainsert_other
    intro e; apply hk; rw [h, e]

theorem find_effArgs (a0 : Args) (k : Bytes) (hk : formatArgType? k ≠ some kRequired) :
    find (effArgs a0) k = find a0 k := by
  unfold effArgs; split
  · rfl
  · exact find_setRequired a0 k hk []

theorem find_effArgs_qual (a0 : Args) : find (effArgs a0) kQualifier = find a0 kQualifier :=
  find_effArgs a0 kQualifier (by decide)

theorem find_effArgs_returns (a0 : Args) : find (effArgs a0) kReturns = find a0 kReturns :=
  find_effArgs a0 kReturns (by decide)

theorem has_effArgs_qual (a0 : Args) (w : List Bytes) : has (effArgs a0) kQualifier w = has a0 kQualifier w := by
  simp only [has, find_effArgs_qual]

theorem methOK_effArgs (fn : Bytes) (a0 : Args) (p : Prov) : methOK fn (effArgs a0) p = methOK fn a0 p := by
  simp only [methOK, find_effArgs_returns]

/-- the scanner default never changes whether a point is required -/
theorem isRequired_effArgs (a0 : Args) : isRequired (effArgs a0) = isRequired a0 := by
  unfold effArgs; split
  · rfl
  · rename_i h
    have hk : formatArgType? kRequired = some kRequired := by decide
    have h0 : find a0 kRequired = none := by
      cases hf : find a0 kRequired with
      | none => rfl
      | some items => exfalso; apply h; simp [has, hf]
    have h1 : find (setArg a0 kRequired []) kRequired = some [] := by
      rw [setArg_kRequired]; simp [find, hk, alookup_ainsert_same]
    simp [isRequired, has, h0, h1]

/-! ### `byId` -/

theorem byId_some {pop : List Prov} {c : Nat} {p : Prov} (h : byId pop c = some p) : p ∈ pop ∧ p.id = c := by
  unfold byId at h
  have h1 := List.find?_some h
  exact ⟨List.mem_of_find?_eq_some h, by simpa using h1⟩

/-- in a list without repeated keys a key determines the element -/
theorem eq_of_key_nodup {α β : Type} (key : α → β) :
    ∀ (l : List α), (l.map key).Nodup → ∀ a ∈ l, ∀ b ∈ l, key a = key b → a = b
  | [], _, a, ha, _, _, _ => by cases ha
  | x :: l, hnd, a, ha, b, hb, hk => by
    rw [List.map_cons, List.nodup_cons] at hnd
    rcases List.mem_cons.mp ha with rfl | ha' <;> rcases List.mem_cons.mp hb with rfl | hb'
    · rfl
    · exact absurd (hk ▸ List.mem_map_of_mem hb') hnd.1
    · exact absurd (hk ▸ List.mem_map_of_mem ha') hnd.1
    · exact eq_of_key_nodup key l hnd.2 a ha' b hb' hk

theorem find?_key_of_mem {α β : Type} [BEq β] [LawfulBEq β] (key : α → β) (l : List α) (hnd : (l.map key).Nodup)
    (a : α) (ha : a ∈ l) : l.find? (fun x => key x == key a) = some a := by
  cases h : l.find? (fun x => key x == key a) with
  | none =>
    rw [List.find?_eq_none] at h
    exact absurd (by simp) (h a ha)
  | some b =>
    have hb := List.mem_of_find?_eq_some h
    have hk : key b = key a := by simpa using List.find?_some h
    rw [eq_of_key_nodup key l hnd b hb a ha hk]

theorem byId_of_mem {pop : List Prov} (hid : (pop.map (·.id)).Nodup) {p : Prov} (hp : p ∈ pop) :
    byId pop p.id = some p :=
  find?_key_of_mem (fun q : Prov => q.id) pop hid p hp

/-- a lookup by key does not depend on the enumeration order -/
theorem find?_key_perm {α β : Type} [BEq β] [LawfulBEq β] (key : α → β) {l l' : List α} (hperm : l.Perm l')
    (hnd : (l.map key).Nodup) (k : β) : l.find? (fun x => key x == k) = l'.find? (fun x => key x == k) := by
  have hnd' : (l'.map key).Nodup := (hperm.map key).nodup_iff.mp hnd
  cases h : l.find? (fun x => key x == k) with
  | some a =>
    have ha := List.mem_of_find?_eq_some h
    have hk : key a = k := by simpa using List.find?_some h
    subst hk
    exact (find?_key_of_mem key l' hnd' a (hperm.mem_iff.mp ha)).symm
  | none =>
    symm
    rw [List.find?_eq_none] at h ⊢
    intro x hx
    exact h x (hperm.mem_iff.mpr hx)

theorem byId_perm {pop pop' : List Prov} (hperm : pop.Perm pop') (hid : (pop.map (·.id)).Nodup) :
    byId pop = byId pop' := by
  funext c
  exact find?_key_perm (fun q : Prov => q.id) hperm hid c

/-! ### the closed form -/

theorem narrow_eq (byId : Nat → Option Prov) (holder : Nat) (k : Kind) (args : Args) (cs : List (Option Nat)) :
    narrow byId holder k args cs =
      if (cs.filterMap id).isEmpty then (if isRequired args then .fail else .skip)
      else if (qualFilter byId args (cs.filterMap id)).isEmpty then (if isRequired args then .fail else .skip)
      else if (qualFilter byId args (cs.filterMap id)).length > 1 && k.isSingle then
        match choose byId (selfRemoved holder (qualFilter byId args (cs.filterMap id))) with
        | some c => .ok [c]
        | none => .ok (selfRemoved holder (qualFilter byId args (cs.filterMap id)))
      else .ok (qualFilter byId args (cs.filterMap id)) := by
  rfl

theorem qualFilter_nil (byId : Nat → Option Prov) (args : Args) : qualFilter byId args [] = [] := by
  unfold qualFilter; split <;> rfl

theorem selfRemoved_eq_nil (holder : Nat) (l : List Nat) : selfRemoved holder l = [] ↔ l = [] := by
  unfold selfRemoved
  split
  · exact Iff.rfl
  · rename_i h
    constructor
    · intro e; rw [e] at h; simp at h
    · intro e; subst e; rfl

theorem selfRemoved_single (holder x : Nat) : selfRemoved holder [x] = [x] := by
  unfold selfRemoved
  by_cases h : x = holder <;> simp [h]

theorem chooseGo_nil (byId : Nat → Option Prov) (c : Nat) : chooseGo byId [] c = c := rfl

theorem choose_single (byId : Nat → Option Prov) (x : Nat) : choose byId [x] = some x := by
  simp only [choose, chooseGo]
  cases byId x with
  | none => rfl
  | some p => simp only; split
              · rfl
              · simp

theorem choose_isSome (byId : Nat → Option Prov) (l : List Nat) (h : l ≠ []) : ∃ c, choose byId l = some c := by
  cases l with
  | nil => exact absurd rfl h
  | cons m rest => exact ⟨_, rfl⟩

/-- `narrow` on a single-valued point: always the result of the choice loop on the survivors
    (for one remaining candidate the loop is the identity) -/
theorem narrow_single (byId : Nat → Option Prov) (holder : Nat) (k : Kind) (args : Args) (cs : List (Option Nat))
    (hk : k.isSingle = true) (hne : qualFilter byId args (cs.filterMap id) ≠ []) :
    ∃ c, choose byId (selfRemoved holder (qualFilter byId args (cs.filterMap id))) = some c ∧
      narrow byId holder k args cs = .ok [c] := by
  rw [narrow_eq]
  generalize hr2 : qualFilter byId args (cs.filterMap id) = r2 at hne ⊢
  have h1 : (cs.filterMap id).isEmpty = false := by
    cases h : cs.filterMap id with
    | nil => rw [h, qualFilter_nil] at hr2; exact absurd hr2.symm hne
    | cons a l => rfl
  have h2 : r2.isEmpty = false := by cases r2 with
    | nil => exact absurd rfl hne
    | cons a l => rfl
  simp only [h1, h2, hk, Bool.false_eq_true, if_false, Bool.and_true]
  obtain ⟨c, hc⟩ := choose_isSome byId (selfRemoved holder r2) (by rw [Ne, selfRemoved_eq_nil]; exact hne)
  refine ⟨c, hc, ?_⟩
  by_cases hl : r2.length > 1
  · simp [hl, hc]
  · simp only [decide_eq_true_eq, hl, if_false]
    match r2, hne, hl, hc with
    | [x], _, _, hc =>
      rw [selfRemoved_single, choose_single] at hc
      cases hc; rfl
    | _ :: _ :: _, _, hl, _ => simp at hl

theorem narrow_slice (byId : Nat → Option Prov) (holder : Nat) (k : Kind) (args : Args) (cs : List (Option Nat))
    (hk : k.isSingle = false) (hne : qualFilter byId args (cs.filterMap id) ≠ []) :
    narrow byId holder k args cs = .ok (qualFilter byId args (cs.filterMap id)) := by
  rw [narrow_eq]
  generalize hr2 : qualFilter byId args (cs.filterMap id) = r2 at hne ⊢
  have h1 : (cs.filterMap id).isEmpty = false := by
    cases h : cs.filterMap id with
    | nil => rw [h, qualFilter_nil] at hr2; exact absurd hr2.symm hne
    | cons a l => rfl
  have h2 : r2.isEmpty = false := by cases r2 with
    | nil => exact absurd rfl hne
    | cons a l => rfl
  simp [h1, h2, hk]

theorem narrow_empty (byId : Nat → Option Prov) (holder : Nat) (k : Kind) (args : Args) (cs : List (Option Nat))
    (he : qualFilter byId args (cs.filterMap id) = []) :
    narrow byId holder k args cs = if isRequired args then .fail else .skip := by
  rw [narrow_eq, he]
  by_cases h : (cs.filterMap id).isEmpty <;> simp [h]

theorem resolveOne_unfold (pop : List Prov) (s : Slot) (v : Bytes) (a0 : Args) (hp : parse? s.tag = some (v, a0)) :
    resolveOne pop s =
      match narrow (byId pop) s.holder s.kind (effArgs a0)
          (if s.isFunc then candidatesFunc pop s.kind v (effArgs a0) else candidatesWire pop s.kind v) with
      | .fail => none
      | .skip => some { cands := [], slice := s.kind.isSlice, required := isRequired (effArgs a0), incompat := [] }
      | .ok l => some { cands := l, slice := s.kind.isSlice, required := isRequired (effArgs a0),
                        incompat := l.filter (incompatPred (byId pop) s.kind) } := by
  unfold resolveOne
  rw [hp]
  rfl

/-- CLOSED FORM of `resolveOne`: a start-up error exactly when a required point has no qualified candidate;
    otherwise the picked candidates, with the incompatible ones marked. -/
theorem resolveOne_closed (pop : List Prov) (s : Slot) (v : Bytes) (a0 : Args) (hp : parse? s.tag = some (v, a0)) :
    resolveOne pop s =
      if qualified pop s v a0 = [] ∧ isRequired a0 = true then none
      else some { cands := picked pop s v a0, slice := s.kind.isSlice, required := isRequired a0,
                  incompat := (picked pop s v a0).filter (incompatPred (byId pop) s.kind) } := by
  rw [resolveOne_unfold pop s v a0 hp, isRequired_effArgs]
  by_cases he : qualified pop s v a0 = []
  · have he' := he
    unfold qualified discovered at he'
    rw [narrow_empty _ _ _ _ _ he', isRequired_effArgs]
    have hpk : picked pop s v a0 = [] := by
      unfold picked survivorsOf
      rw [he]
      cases s.kind.isSlice <;> rfl
    cases hr : isRequired a0
    · simp [he, hpk]
    · simp [he]
  · have he' := he
    unfold qualified discovered at he'
    cases hs : s.kind.isSlice
    · have hk : s.kind.isSingle = true := by simp [Kind.isSingle, hs]
      obtain ⟨c, hc, hn⟩ := narrow_single (byId pop) s.holder s.kind (effArgs a0) _ hk he'
      rw [hn]
      have hpk : picked pop s v a0 = [c] := by
        unfold picked survivorsOf qualified discovered
        rw [hs, hc]; rfl
      simp [he, hpk]
    · have hk : s.kind.isSingle = false := by simp [Kind.isSingle, hs]
      rw [narrow_slice (byId pop) s.holder s.kind (effArgs a0) _ hk he']
      have hpk : picked pop s v a0 = qualified pop s v a0 := by
        unfold picked; rw [hs]; rfl
      simp only [he, false_and, if_false, hpk]
      rfl

end Ioc.Match
