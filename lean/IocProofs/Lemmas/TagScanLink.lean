/-
  The tag-scan model of Ioc.Scan (`propsOf`, on which the C11 theorems are stated) is the function the REGENERATED
  PostProcessDefinitionRegistry computes (`tagScanSpec`, IocProofs.Lemmas.SemTagScan.tagScan_sem).
-/
import Ioc.SemTagScan
import IocProofs.Lemmas.SemTagScan
set_option linter.unusedSectionVars false
set_option linter.unusedSimpArgs false
namespace Ioc.Sem
open Ioc Ioc.Scan

theorem filterMap_as_range {α β : Type} (g : α → Option β) (l : List α) :
    l.filterMap g = (List.range l.length).filterMap (fun i => (l[i]?).bind g) := by
  induction l with
  | nil => rfl
  | cons x rest ih =>
    rw [List.length_cons, List.range_succ_eq_map]
    simp only [List.filterMap_cons, List.filterMap_map, List.getElem?_cons_zero, Option.bind_some, Function.comp_def,
      List.getElem?_cons_succ]
    rw [ih]

section link
variable (e : Bytes → String) (dec : String → Bytes) (hdec : ∀ b, dec (e b) = b) (he0 : ∀ b, e b = "" ↔ b = [])
include hdec he0

omit he0 in
theorem point_mk (d : TagProc) (fields : List ScannedField) (i : Nat) (f : ScannedField) (hf : fields[i]? = some f)
    (t tv : Bytes) :
    propOf dec fields (TSProp.applyReq (tsdOf e dec d fields) ⟨i, e d.nodeType, e t, e tv, false⟩) = some (mkProperty d f t tv) := by
  cases hr : d.required <;> cases hh : Tag.has (parseD tv).2 Tag.kRequired [] <;>
    simp [TSProp.applyReq, TSProp.has, tsdOf, propOf, hf, hdec, mkProperty, requiredDefault, hr, hh]

theorem recog_eq (d : TagProc) (hnp : ∀ h, d.extract = some h → ∀ f, h f ≠ .panic) (fields : List ScannedField) (i : Nat)
    (f : ScannedField) (hf : fields[i]? = some f) :
    recogS (tsdOf e dec d fields) i =
      (match recognise d f with
       | .yes t tv => some (e t, e tv)
       | _ => none) := by
  have htag : (e d.tag = "") = (d.tag = []) := propext (he0 d.tag)
  have h0 : e [] = "" := (he0 []).mpr rfl
  unfold recogS recognise
  simp only [tsdOf, hf, Option.bind_some, ne_eq, htag]
  by_cases ht : d.tag = []
  · simp only [ht, not_true_eq_false, if_false]
    cases hx : d.extract with
    | none => simp
    | some h =>
      have := hnp h hx f
      cases hh : h f with
      | no => simp [hh]
      | panic => exact absurd hh this
      | yes t tv =>
        have : (e t = "") = (t = []) := propext (he0 t)
        by_cases ht2 : t = [] <;> simp [hh, this, ht2, ht]
  · simp only [ht, not_false_eq_true, if_true]
    cases hl : lookupTag d.tag f.info.tags with
    | some tv => simp
    | none =>
      cases hx : d.extract with
      | none => simp
      | some h =>
        have := hnp h hx f
        cases hh : h f with
        | no => simp [hh]
        | panic => exact absurd hh this
        | yes t tv =>
          have : (e t = "") = (t = []) := propext (he0 t)
          by_cases ht2 : t = [] <;> simp [hh, this, ht2, h0]

theorem tagScan_point (d : TagProc) (hnp : ∀ h, d.extract = some h → ∀ f, h f ≠ .panic) (fields : List ScannedField) (i : Nat)
    (f : ScannedField) (hf : fields[i]? = some f) :
    ((recogS (tsdOf e dec d fields) i).map
        (fun r => TSProp.applyReq (tsdOf e dec d fields) ⟨i, (tsdOf e dec d fields).nodeType, r.1, r.2, false⟩)).bind (propOf dec fields) =
      (match recognise d f with
       | .yes t tv => some (mkProperty d f t tv)
       | _ => none) := by
  rw [recog_eq e dec hdec he0 d hnp fields i f hf]
  cases hr : recognise d f with
  | no => rfl
  | panic => rfl
  | yes t tv =>
    simp only [Option.map_some, Option.bind_some]
    exact point_mk e dec hdec d fields i f hf t tv

/-- `propsOf` of the model is what the regenerated function hands over -/
theorem propsOf_is_tagScanSpec (d : TagProc) (hnp : ∀ h, d.extract = some h → ∀ f, h f ≠ .panic) (fields : List ScannedField) :
    (tagScanSpec (tsdOf e dec d fields) (List.range fields.length)).filterMap (propOf dec fields) = propsOf d fields := by
  unfold propsOf tagScanSpec
  conv => rhs; rw [filterMap_as_range]
  rw [List.filterMap_filterMap]
  apply filterMap_congr_mem
  intro i hi
  have hlt : i < fields.length := List.mem_range.mp hi
  have hf : fields[i]? = some fields[i] := List.getElem?_eq_getElem hlt
  rw [hf, Option.bind_some]
  exact tagScan_point e dec hdec he0 d hnp fields i _ hf

end link

/-! a concrete pair (e, dec): bytes as characters below 256 -/

def encB (b : Bytes) : String := String.ofList (b.map (fun u => Char.ofNat u.toNat))

theorem char_rt (u : UInt8) : UInt8.ofNat (Char.ofNat u.toNat).toNat = u := by
  have h : u.toNat < 256 := u.toNat_lt
  have hv : (u.toNat).isValidChar := by
    left; omega
  have : (Char.ofNat u.toNat).toNat = u.toNat := by
    simp [Char.ofNat, hv, Char.toNat, Char.ofNatAux]
  rw [this]; simp

theorem dec_encB (b : Bytes) : ofString (encB b) = b := by
  unfold ofString encB
  simp [List.map_map, Function.comp_def, char_rt]

theorem encB_empty (b : Bytes) : encB b = "" ↔ b = [] := by
  constructor
  · intro h
    have := congrArg ofString h
    rw [dec_encB] at this
    simpa [ofString] using this
  · intro h; subst h; rfl

/-! ### the built-in handlers of the model are the regenerated ones -/

theorem encB_append (a b : Bytes) : encB (a ++ b) = encB a ++ encB b := by
  simp [encB, List.map_append, String.ofList_append]

theorem encB_nil : encB [] = "" := rfl
theorem encB_open : encB (ofString "${") = "${" := by decide
theorem encB_close : encB (ofString "}") = "}" := by decide

/-- what the value handler is told about a scanned field of the model -/
def vxOf (f : ScannedField) : VXOps where
  lookup := (lookupTag tProp f.info.tags).map encB
  idx := fun s => Tag.index Tag.cComma Tag.isLB Tag.isRB (ofString s)
  sliceTo := fun s i => (slice? (ofString s) 0 i).map encB
  sliceFrom := fun s i => (slice? (ofString s) i (ofString s).length).map encB

def encExtractB : Extract → Option (String × String × Bool)
  | .no => some ("", "", false)
  | .yes t tv => some (encB t, encB tv, true)
  | .panic => none

theorem valueExtract_is_code (f : ScannedField) : valueExtractS (vxOf f) = encExtractB (valueExtract f) := by
  unfold valueExtractS valueExtract vxOf
  cases hl : lookupTag tProp f.info.tags with
  | none => rfl
  | some tv =>
    simp only [Option.map_some, dec_encB, Tag.propShorthand?]
    by_cases hi : Tag.index Tag.cComma Tag.isLB Tag.isRB tv = -1
    · simp [hi, encExtractB, fmtProp, encB_append, encB_open, encB_close, encB_nil, String.append_assoc]
    · simp only [hi, if_false]
      cases h1 : slice? tv 0 (Tag.index Tag.cComma Tag.isLB Tag.isRB tv) with
      | none => simp [encExtractB]
      | some k =>
        cases h2 : slice? tv (Tag.index Tag.cComma Tag.isLB Tag.isRB tv) tv.length with
        | none => simp [encExtractB]
        | some rest => simp [encExtractB, fmtProp, encB_append, encB_open, encB_close, encB_nil, String.append_assoc]

theorem markerExtract_is_code (f : ScannedField) :
    (match f.info.marker.map encB with
     | some p => some ("", p, true)
     | none => some ("", "", false)) = encExtractB (markerExtract f) := by
  unfold markerExtract
  cases f.info.marker <;> rfl

end Ioc.Sem
