/-
  Lemmas about Ioc.Config.merge / get / mergeAll (C15).
  `t` is always the target (what is already loaded), `s` the source (the later document).
  Only the SOURCE needs unique keys (`wf`): the target is consulted through first-match lookups only.
-/
import Ioc.Config
namespace Ioc.Config

/-! ### association-list facts -/

theorem lookup_updKv_same (f : Cfg → Cfg) (k : Key) (dflt : Cfg) (a : Kvs) :
    lookup k (updKv f k dflt a) = some (match lookup k a with | some x => f x | none => dflt) := by
  induction a with
  | nil => simp [updKv, lookup]
  | cons e rest ih =>
    obtain ⟨k', v'⟩ := e
    by_cases h : k' = k
    · simp [updKv, lookup, h]
    · simp [updKv, lookup, h, ih]

theorem lookup_updKv_other (f : Cfg → Cfg) (k k2 : Key) (dflt : Cfg) (a : Kvs) (h : k ≠ k2) :
    lookup k2 (updKv f k dflt a) = lookup k2 a := by
  induction a with
  | nil => simp [updKv, lookup, h]
  | cons e rest ih =>
    obtain ⟨k', v'⟩ := e
    by_cases h1 : k' = k
    · subst h1; simp [updKv, lookup, h]
    · by_cases h2 : k' = k2
      · subst h2; simp [updKv, lookup, h1]
      · simp [updKv, lookup, h1, h2, ih]

theorem lookup_none_of_not_contains (k : Key) (b : Kvs) (h : (keysOf b).contains k = false) : lookup k b = none := by
  induction b with
  | nil => rfl
  | cons e rest ih =>
    obtain ⟨k', v'⟩ := e
    simp only [keysOf, List.map_cons, List.contains_cons, Bool.or_eq_false_iff, beq_eq_false_iff_ne] at h
    have hne : k' ≠ k := fun e => h.1 e.symm
    simp only [lookup, hne, if_false]
    exact ih (by simpa [keysOf] using h.2)

theorem wfKvs_cons (k : Key) (v : Cfg) (rest : Kvs) (h : wfKvs ((k, v) :: rest) = true) :
    (keysOf rest).contains k = false ∧ v.wf = true ∧ wfKvs rest = true := by
  simp only [wfKvs, Bool.and_eq_true, Bool.not_eq_true'] at h
  exact ⟨h.1.1, h.1.2, h.2⟩

theorem wf_of_lookup (k : Key) (b : Kvs) (y : Cfg) (hb : wfKvs b = true) (h : lookup k b = some y) : y.wf = true := by
  induction b with
  | nil => simp [lookup] at h
  | cons e rest ih =>
    obtain ⟨k', v'⟩ := e
    obtain ⟨_, hv, hr⟩ := wfKvs_cons k' v' rest hb
    by_cases hk : k' = k
    · simp [lookup, hk] at h; subst h; exact hv
    · simp [lookup, hk] at h; exact ih hr h

theorem wf_map (b : Kvs) : (Cfg.map b).wf = wfKvs b := by simp [Cfg.wf]

/-- one key of a merged map: the four cases of viper's mergeMaps loop body -/
theorem lookup_mergeKvs (a b : Kvs) (k : Key) (hb : wfKvs b = true) :
    lookup k (mergeKvs a b) =
      match lookup k a, lookup k b with
      | some x, some y => some (merge x y)
      | some x, none => some x
      | none, some y => some y
      | none, none => none := by
  induction b generalizing a with
  | nil => simp only [mergeKvs, lookup]; cases lookup k a <;> rfl
  | cons e rest ih =>
    obtain ⟨k1, v1⟩ := e
    obtain ⟨hnc, _, hr⟩ := wfKvs_cons k1 v1 rest hb
    simp only [mergeKvs]
    rw [ih _ hr]
    by_cases hk : k1 = k
    · subst hk
      rw [lookup_updKv_same, lookup_none_of_not_contains _ _ hnc]
      simp only [lookup, if_true]
      cases lookup k1 a <;> rfl
    · rw [lookup_updKv_other _ _ _ _ _ hk]
      simp only [lookup, hk, if_false]

/-! ### merge equations -/

theorem merge_map_map (a b : Kvs) : merge (.map a) (.map b) = .map (mergeKvs a b) := by simp [merge]

theorem merge_map_nonmap (a : Kvs) (s : Cfg) (h : s.isMap = false) : merge (.map a) s = .map a := by
  cases s with
  | map b => simp [Cfg.isMap] at h
  | scalar x => simp [merge]
  | list l => simp [merge]

theorem merge_nonmap (t s : Cfg) (h : t.isMap = false) : merge t s = s := by
  cases t with
  | map a => simp [Cfg.isMap] at h
  | scalar x => simp [merge]
  | list l => simp [merge]

theorem get_nil (c : Cfg) : c.get [] = some c := by cases c <;> rfl

theorem get_cons_map (kvs : Kvs) (k : Key) (p : Path) :
    (Cfg.map kvs).get (k :: p) = match lookup k kvs with | some v => v.get p | none => none := by
  cases h : lookup k kvs <;> simp [Cfg.get, h]

theorem get_cons_nonmap (c : Cfg) (k : Key) (p : Path) (h : c.isMap = false) : c.get (k :: p) = none := by
  cases c with
  | map a => simp [Cfg.isMap] at h
  | scalar x => rfl
  | list l => rfl

theorem get_empty_map (p : Path) (hp : p ≠ []) : (Cfg.map []).get p = none := by
  cases p with
  | nil => exact absurd rfl hp
  | cons k p' => simp [Cfg.get, lookup]

/-- a document that defines a non-empty path is a map, and so is every value on the way -/
theorem isMap_of_get_cons (c : Cfg) (k : Key) (p : Path) (v : Cfg) (h : c.get (k :: p) = some v) : c.isMap = true := by
  cases c with
  | map a => rfl
  | scalar x => simp [Cfg.get] at h
  | list l => simp [Cfg.get] at h

/-- does the value hold a map at the path? -/
def mapAt (c : Cfg) (p : Path) : Bool :=
  match c.get p with
  | some x => x.isMap
  | none => false

/-! ### one merge step -/

/-- FRAME: a source that does not define `p` leaves `p` exactly as it was (whatever the target holds). -/
theorem get_merge_src_none (t s : Cfg) (p : Path) (hs : s.wf = true) (h : s.get p = none) :
    (merge t s).get p = t.get p := by
  induction p generalizing t s with
  | nil => simp [get_nil] at h
  | cons k p ih =>
    cases hsm : s.isMap with
    | false =>
      cases htm : t.isMap with
      | false => rw [merge_nonmap t s htm, h, get_cons_nonmap t k p htm]
      | true =>
        cases t with
        | map a => rw [merge_map_nonmap a s hsm]
        | scalar x => simp [Cfg.isMap] at htm
        | list l => simp [Cfg.isMap] at htm
    | true =>
      cases s with
      | scalar x => simp [Cfg.isMap] at hsm
      | list l => simp [Cfg.isMap] at hsm
      | map b =>
        rw [wf_map] at hs
        cases htm : t.isMap with
        | false => rw [merge_nonmap t _ htm, h, get_cons_nonmap t k p htm]
        | true =>
          cases t with
          | scalar x => simp [Cfg.isMap] at htm
          | list l => simp [Cfg.isMap] at htm
          | map a =>
            rw [merge_map_map, get_cons_map, get_cons_map, lookup_mergeKvs a b k hs]
            rw [get_cons_map] at h
            cases hb : lookup k b with
            | none => cases lookup k a <;> rfl
            | some y =>
              rw [hb] at h
              have hy := wf_of_lookup k b y hs hb
              cases ha : lookup k a with
              | none => exact h
              | some x => exact ih x y hy h

/-- a source that defines `p` where the target does not: the source's value appears (no condition). -/
theorem get_merge_tgt_none (t s : Cfg) (p : Path) (v : Cfg) (hs : s.wf = true)
    (ht : t.get p = none) (h : s.get p = some v) : (merge t s).get p = some v := by
  induction p generalizing t s with
  | nil => simp [get_nil] at ht
  | cons k p ih =>
    have hsm := isMap_of_get_cons s k p v h
    cases s with
    | scalar x => simp [Cfg.isMap] at hsm
    | list l => simp [Cfg.isMap] at hsm
    | map b =>
      rw [wf_map] at hs
      cases htm : t.isMap with
      | false => rw [merge_nonmap t _ htm, h]
      | true =>
        cases t with
        | scalar x => simp [Cfg.isMap] at htm
        | list l => simp [Cfg.isMap] at htm
        | map a =>
          rw [merge_map_map, get_cons_map, lookup_mergeKvs a b k hs]
          rw [get_cons_map] at h ht
          cases hb : lookup k b with
          | none => rw [hb] at h; simp at h
          | some y =>
            rw [hb] at h
            have hy := wf_of_lookup k b y hs hb
            cases ha : lookup k a with
            | none => exact h
            | some x => rw [ha] at ht; exact ih x y hy ht h

/-- LAST WINS, one step: a source holding a leaf at `p` puts that leaf there, provided the target does not
    hold a MAP at `p` (that is the viper rule behind KF-C15-1). -/
theorem get_merge_src_leaf (t s : Cfg) (p : Path) (v : Cfg) (hs : s.wf = true)
    (h : s.get p = some v) (ht : mapAt t p = false) : (merge t s).get p = some v := by
  induction p generalizing t s with
  | nil =>
    simp only [mapAt, get_nil] at ht
    rw [merge_nonmap t s ht]; exact h
  | cons k p ih =>
    have hsm := isMap_of_get_cons s k p v h
    cases s with
    | scalar x => simp [Cfg.isMap] at hsm
    | list l => simp [Cfg.isMap] at hsm
    | map b =>
      rw [wf_map] at hs
      cases htm : t.isMap with
      | false => rw [merge_nonmap t _ htm, h]
      | true =>
        cases t with
        | scalar x => simp [Cfg.isMap] at htm
        | list l => simp [Cfg.isMap] at htm
        | map a =>
          rw [merge_map_map, get_cons_map, lookup_mergeKvs a b k hs]
          rw [get_cons_map] at h
          simp only [mapAt, get_cons_map] at ht
          cases hb : lookup k b with
          | none => rw [hb] at h; simp at h
          | some y =>
            rw [hb] at h
            have hy := wf_of_lookup k b y hs hb
            cases ha : lookup k a with
            | none => exact h
            | some x =>
              rw [ha] at ht
              exact ih x y hy h (by simpa [mapAt] using ht)

/-- where a merged tree holds a map, the target or the source held one -/
theorem mapAt_merge (t s : Cfg) (p : Path) (hs : s.wf = true) (h : mapAt (merge t s) p = true) :
    mapAt t p = true ∨ mapAt s p = true := by
  induction p generalizing t s with
  | nil =>
    simp only [mapAt, get_nil] at h ⊢
    cases htm : t.isMap with
    | true => exact Or.inl rfl
    | false => rw [merge_nonmap t s htm] at h; exact Or.inr h
  | cons k p ih =>
    cases htm : t.isMap with
    | false => rw [merge_nonmap t s htm] at h; exact Or.inr h
    | true =>
      cases t with
      | scalar x => simp [Cfg.isMap] at htm
      | list l => simp [Cfg.isMap] at htm
      | map a =>
        cases hsm : s.isMap with
        | false => rw [merge_map_nonmap a s hsm] at h; exact Or.inl h
        | true =>
          cases s with
          | scalar x => simp [Cfg.isMap] at hsm
          | list l => simp [Cfg.isMap] at hsm
          | map b =>
            rw [wf_map] at hs
            simp only [mapAt, merge_map_map, get_cons_map, lookup_mergeKvs a b k hs] at h ⊢
            cases hb : lookup k b with
            | none =>
              rw [hb] at h
              cases ha : lookup k a with
              | none => rw [ha] at h; simp at h
              | some x => rw [ha] at h; exact Or.inl h
            | some y =>
              rw [hb] at h
              have hy := wf_of_lookup k b y hs hb
              cases ha : lookup k a with
              | none => rw [ha] at h; exact Or.inr h
              | some x =>
                rw [ha] at h
                have := ih x y hy (by simpa [mapAt] using h)
                simpa [mapAt] using this

/-- what the source defines is defined after the merge -/
theorem isSome_get_merge_of_src (t s : Cfg) (p : Path) (hs : s.wf = true) (h : (s.get p).isSome = true) :
    ((merge t s).get p).isSome = true := by
  induction p generalizing t s with
  | nil => simp [get_nil]
  | cons k p ih =>
    obtain ⟨v, hv⟩ := Option.isSome_iff_exists.mp h
    have hsm := isMap_of_get_cons s k p v hv
    cases s with
    | scalar x => simp [Cfg.isMap] at hsm
    | list l => simp [Cfg.isMap] at hsm
    | map b =>
      rw [wf_map] at hs
      cases htm : t.isMap with
      | false => rw [merge_nonmap t _ htm]; exact h
      | true =>
        cases t with
        | scalar x => simp [Cfg.isMap] at htm
        | list l => simp [Cfg.isMap] at htm
        | map a =>
          rw [merge_map_map, get_cons_map, lookup_mergeKvs a b k hs]
          rw [get_cons_map] at h
          cases hb : lookup k b with
          | none => rw [hb] at h; simp at h
          | some y =>
            rw [hb] at h
            have hy := wf_of_lookup k b y hs hb
            cases ha : lookup k a with
            | none => exact h
            | some x => exact ih x y hy h

/-- what the target defines stays defined after the merge (NOTHING IS DROPPED) -/
theorem isSome_get_merge_of_tgt (t s : Cfg) (p : Path) (hs : s.wf = true) (h : (t.get p).isSome = true) :
    ((merge t s).get p).isSome = true := by
  cases hsp : s.get p with
  | none => rw [get_merge_src_none t s p hs hsp]; exact h
  | some v => exact isSome_get_merge_of_src t s p hs (by rw [hsp]; rfl)

/-- what is defined after the merge was defined by the target or by the source -/
theorem isSome_get_merge_inv (t s : Cfg) (p : Path) (hs : s.wf = true) (h : ((merge t s).get p).isSome = true) :
    (t.get p).isSome = true ∨ (s.get p).isSome = true := by
  cases hsp : s.get p with
  | none => rw [get_merge_src_none t s p hs hsp] at h; exact Or.inl h
  | some v => exact Or.inr rfl

/-! ### folds over document lists -/

theorem fold_get_none (docs : List Cfg) (acc : Cfg) (p : Path)
    (hwf : ∀ d ∈ docs, d.wf = true) (h : ∀ d ∈ docs, d.get p = none) :
    (docs.foldl merge acc).get p = acc.get p := by
  induction docs generalizing acc with
  | nil => rfl
  | cons d rest ih =>
    simp only [List.foldl_cons]
    rw [ih _ (fun e he => hwf e (List.mem_cons_of_mem _ he)) (fun e he => h e (List.mem_cons_of_mem _ he))]
    exact get_merge_src_none acc d p (hwf d List.mem_cons_self) (h d List.mem_cons_self)

theorem mapAt_fold (docs : List Cfg) (acc : Cfg) (p : Path) (hwf : ∀ d ∈ docs, d.wf = true)
    (h : mapAt (docs.foldl merge acc) p = true) : mapAt acc p = true ∨ ∃ d ∈ docs, mapAt d p = true := by
  induction docs generalizing acc with
  | nil => exact Or.inl h
  | cons d rest ih =>
    simp only [List.foldl_cons] at h
    rcases ih _ (fun e he => hwf e (List.mem_cons_of_mem _ he)) h with h1 | ⟨e, he, h2⟩
    · rcases mapAt_merge acc d p (hwf d List.mem_cons_self) h1 with h3 | h3
      · exact Or.inl h3
      · exact Or.inr ⟨d, List.mem_cons_self, h3⟩
    · exact Or.inr ⟨e, List.mem_cons_of_mem _ he, h2⟩

theorem mapAt_empty (p : Path) (hp : p ≠ []) : mapAt (.map []) p = false := by
  simp [mapAt, get_empty_map p hp]

/-- LAST WINS in split form: `d` holds a leaf at `p`, nothing after `d` defines `p`, nothing before `d`
    holds a map at `p`. -/
theorem last_wins_split (pre post : List Cfg) (d : Cfg) (p : Path) (v : Cfg)
    (hwf : ∀ e ∈ pre ++ d :: post, e.wf = true) (hp : p ≠ [])
    (hd : d.get p = some v) (hpre : ∀ e ∈ pre, mapAt e p = false) (hpost : ∀ e ∈ post, e.get p = none) :
    (mergeAll (pre ++ d :: post)).get p = some v := by
  simp only [mergeAll, List.foldl_append, List.foldl_cons]
  rw [fold_get_none post _ p (fun e he => hwf e (by simp [he])) hpost]
  apply get_merge_src_leaf _ d p v (hwf d (by simp)) hd
  cases hm : mapAt (pre.foldl merge (.map [])) p with
  | false => rfl
  | true =>
    rcases mapAt_fold pre _ p (fun e he => hwf e (by simp [he])) hm with h1 | ⟨e, he, h2⟩
    · rw [mapAt_empty p hp] at h1; exact absurd h1 (by simp)
    · rw [hpre e he] at h2; exact absurd h2 (by simp)

/-- ONLY ONE in split form: no other document defines `p`. -/
theorem only_one_split (pre post : List Cfg) (d : Cfg) (p : Path) (v : Cfg)
    (hwf : ∀ e ∈ pre ++ d :: post, e.wf = true) (hp : p ≠ [])
    (hd : d.get p = some v) (hpre : ∀ e ∈ pre, e.get p = none) (hpost : ∀ e ∈ post, e.get p = none) :
    (mergeAll (pre ++ d :: post)).get p = some v := by
  simp only [mergeAll, List.foldl_append, List.foldl_cons]
  rw [fold_get_none post _ p (fun e he => hwf e (by simp [he])) hpost]
  apply get_merge_tgt_none _ d p v (hwf d (by simp)) _ hd
  rw [fold_get_none pre _ p (fun e he => hwf e (by simp [he])) hpre]
  exact get_empty_map p hp

/-- `t2` shows at least the paths `t1` shows -/
def Covers (t1 t2 : Cfg) : Prop := ∀ p, (t1.get p).isSome = true → (t2.get p).isSome = true

theorem covers_merge (t1 t2 s : Cfg) (hs : s.wf = true) (h : Covers t1 t2) : Covers (merge t1 s) (merge t2 s) := by
  intro p hp
  rcases isSome_get_merge_inv t1 s p hs hp with h1 | h1
  · exact isSome_get_merge_of_tgt t2 s p hs (h p h1)
  · exact isSome_get_merge_of_src t2 s p hs h1

theorem covers_fold (docs : List Cfg) (t1 t2 : Cfg) (hwf : ∀ d ∈ docs, d.wf = true) (h : Covers t1 t2) :
    Covers (docs.foldl merge t1) (docs.foldl merge t2) := by
  induction docs generalizing t1 t2 with
  | nil => exact h
  | cons d rest ih =>
    simp only [List.foldl_cons]
    exact ih _ _ (fun e he => hwf e (List.mem_cons_of_mem _ he)) (covers_merge t1 t2 d (hwf d List.mem_cons_self) h)

/-- NOTHING IS DROPPED: a further document, wherever it lands in the sequence, hides no path. -/
theorem insert_doc_covers (pre post : List Cfg) (d : Cfg) (hwf : ∀ e ∈ pre ++ d :: post, e.wf = true) :
    Covers (mergeAll (pre ++ post)) (mergeAll (pre ++ d :: post)) := by
  simp only [mergeAll, List.foldl_append, List.foldl_cons]
  apply covers_fold post _ _ (fun e he => hwf e (by simp [he]))
  intro p hp
  exact isSome_get_merge_of_tgt _ d p (hwf d (by simp)) hp

/-! ### index form ↔ split form -/

theorem split_at (docs : List Cfg) (i : Nat) (hi : i < docs.length) :
    docs = docs.take i ++ docs[i] :: docs.drop (i + 1) := by
  rw [← List.drop_eq_getElem_cons hi, List.take_append_drop]

theorem mem_drop_index (docs : List Cfg) (n : Nat) (e : Cfg) (h : e ∈ docs.drop n) :
    ∃ j, ∃ hj : j < docs.length, n ≤ j ∧ docs[j] = e := by
  obtain ⟨m, hm, rfl⟩ := List.mem_iff_getElem.mp h
  rw [List.length_drop] at hm
  exact ⟨n + m, by omega, by omega, by rw [List.getElem_drop]⟩

theorem mem_take_index (docs : List Cfg) (n : Nat) (e : Cfg) (h : e ∈ docs.take n) :
    ∃ j, ∃ hj : j < docs.length, j < n ∧ docs[j] = e := by
  obtain ⟨m, hm, rfl⟩ := List.mem_iff_getElem.mp h
  rw [List.length_take] at hm
  exact ⟨m, by omega, by omega, by rw [List.getElem_take]⟩

end Ioc.Config
