/-
  C15 — Configuration sources merge in loader order; adding a source drops nothing.
  PROPERTY THEOREMS ONLY (lemmas live in IocProofs/Lemmas/Config.lean and ConfigSeq.lean).

  Model: Ioc.Config — `merge` is viper's mergeMaps rule (third party, modelled), `mergeAll` one
  viper.MergeConfig per document, `loaderSeq` the SortOrderedComponents rule on loaders, `loadAll` the loop of
  configure.loadConfigure, `applyOptions` the option fold of App.Run starting from configure.Default().
  Documents are Go maps: `Cfg.wf` (unique keys per map) is the representation invariant, not a restriction.
  Several Initialize calls on one live Configure: `St` (stored loader list + binder content), `stepOpt`, `initOnce`,
  `runPhase`.  Several Apps in one process with sources registered through `app.Settings`: `runApp`, `runProc`
  (`C15_history_splits` … `C15_registered_source_is_loaded`).  The code theorems tie the REGENERATED source of configure.go (loadConfigure, Initialize) to the loop
  the model mirrors, so an edit of that file is a C15 proof obligation.
-/
import IocProofs.Lemmas.Config
import IocProofs.Lemmas.ConfigSeq
import IocProofs.Lemmas.ConfigInit
import IocProofs.Lemmas.SemConfigure
import IocProofs.Lemmas.SemAppOptions
import IocProofs.Lemmas.SemLoaders
import IocProofs.Lemmas.SemConfDefault
import IocProofs.Lemmas.SemAppRun
import IocProofs.Lemmas.SemTypeId
namespace Ioc.C15
open Ioc Ioc.Config

/-- no document holds a MAP at `p` (decidable) — the hypothesis that excludes the viper rule of KF-C15-1 -/
def noMapAt (docs : List Cfg) (p : Path) : Bool := docs.all fun e => !mapAt e p

/-
  FULL STATEMENT (false of the code, see C15_counterexample):
    for every path p and the last document docs[i] that defines p with a leaf:  (mergeAll docs).get p = docs[i].get p.
  PROVED: the same with the extra hypothesis `noMapAt docs p` — no document holds a map at p itself (so in
  particular docs[i] holds a leaf there).  This is weaker than "no map/scalar conflict on any prefix of p":
  conflicts on proper prefixes do no harm to p.
-/
/-- LAST WINS.  `i` is the last document defining the leaf path `p`; the merged configuration shows exactly
    that document's value. -/
theorem C15_last_wins_partial (docs : List Cfg) (p : Path) (i : Nat) (hi : i < docs.length)
    (hwf : ∀ d ∈ docs, d.wf = true) (hp : p ≠ [])
    (v : Cfg) (hdef : docs[i].get p = some v)
    (hlast : ∀ j (hj : j < docs.length), i < j → docs[j].get p = none)
    (hnc : noMapAt docs p = true) :
    (mergeAll docs).get p = docs[i].get p := by
  rw [hdef]
  have hs := split_at docs i hi
  rw [hs]
  have hmem : ∀ e, e ∈ docs.take i ++ docs[i] :: docs.drop (i + 1) → e ∈ docs := fun e he => by rw [hs]; exact he
  apply last_wins_split _ _ _ p v (fun e he => hwf e (hmem e he)) hp hdef
  · intro e he
    have := List.all_eq_true.mp hnc e (List.mem_of_mem_take he)
    simpa using this
  · intro e he
    obtain ⟨j, hj, hle, rfl⟩ := mem_drop_index docs (i + 1) e he
    exact hlast j hj (by omega)

/-- ONLY ONE (full strength, no conflict hypothesis): a path defined by exactly one document is visible
    with that document's value — leaf or whole subtree — whatever the other documents contain. -/
theorem C15_only_one (docs : List Cfg) (p : Path) (i : Nat) (hi : i < docs.length)
    (hwf : ∀ d ∈ docs, d.wf = true) (hp : p ≠ [])
    (v : Cfg) (hdef : docs[i].get p = some v)
    (hothers : ∀ j (hj : j < docs.length), j ≠ i → docs[j].get p = none) :
    (mergeAll docs).get p = docs[i].get p := by
  rw [hdef]
  have hs := split_at docs i hi
  rw [hs]
  have hmem : ∀ e, e ∈ docs.take i ++ docs[i] :: docs.drop (i + 1) → e ∈ docs := fun e he => by rw [hs]; exact he
  apply only_one_split _ _ _ p v (fun e he => hwf e (hmem e he)) hp hdef
  · intro e he
    obtain ⟨j, hj, hlt, rfl⟩ := mem_take_index docs i e he
    exact hothers j hj (by omega)
  · intro e he
    obtain ⟨j, hj, hle, rfl⟩ := mem_drop_index docs (i + 1) e he
    exact hothers j hj (by omega)

/-- FRAME: a further document that does not define `p` changes nothing at `p`, wherever it is merged. -/
theorem C15_silent_source (pre post : List Cfg) (d : Cfg) (p : Path)
    (hwf : ∀ e ∈ pre ++ d :: post, e.wf = true) (hd : d.get p = none) (hpost : ∀ e ∈ post, e.get p = none) :
    (mergeAll (pre ++ d :: post)).get p = (mergeAll pre).get p := by
  simp only [mergeAll, List.foldl_append, List.foldl_cons]
  rw [fold_get_none post _ p (fun e he => hwf e (by simp [he])) hpost]
  exact get_merge_src_none _ d p (hwf d (by simp)) hd

/-- NOTHING IS DROPPED (documents): every path visible without the document `d` is visible with it,
    wherever `d` lands in the sequence. Holds without any conflict hypothesis. -/
theorem C15_source_never_hides (pre post : List Cfg) (d : Cfg) (p : Path)
    (hwf : ∀ e ∈ pre ++ d :: post, e.wf = true)
    (h : ((mergeAll (pre ++ post)).get p).isSome = true) : ((mergeAll (pre ++ d :: post)).get p).isSome = true :=
  insert_doc_covers pre post d hwf p h

/-- THE LOADER SEQUENCE: a permutation of the configured loaders (each consulted exactly once) made of the
    priority loaders sorted by Order(), then the ordered ones sorted by Order(), then all others in the order
    in which they were added. -/
theorem C15_sequence (ls : List Loader) :
    (loaderSeq ls).Perm ls ∧
    ∃ a b c, loaderSeq ls = a ++ b ++ c ∧
      a.Perm (ls.filter (·.cls.isPrio)) ∧ a.Pairwise (fun x y => x.cls.key ≤ y.cls.key) ∧
      b.Perm (ls.filter (·.cls.isOrd)) ∧ b.Pairwise (fun x y => x.cls.key ≤ y.cls.key) ∧
      c = ls.filter (·.cls.isPlain) :=
  ⟨loaderSeq_perm ls, _, _, _, rfl, sortByKey_perm _, sortByKey_sorted _, sortByKey_perm _, sortByKey_sorted _, rfl⟩

/-- THE LOADER SEQUENCE IS DETERMINED, for every number of loaders: when no two priority loaders and no two ordered
    loaders have the same Order(), ANY arrangement that meets the description of `C15_sequence` (priority class
    ascending, ordered class ascending, the rest as added) is the model's `loaderSeq` — so the sequence does not
    depend on the sorting algorithm (Go's sort.Slice switches from insertion sort to pdqsort at 13 elements;
    only the placement of EQUAL Order() values, on which the property is silent, can differ). -/
theorem C15_sequence_determined (ls a b c : List Loader)
    (hdp : (ls.filter (·.cls.isPrio)).Pairwise (fun x y => x.cls.key ≠ y.cls.key))
    (hdo : (ls.filter (·.cls.isOrd)).Pairwise (fun x y => x.cls.key ≠ y.cls.key))
    (ha : a.Perm (ls.filter (·.cls.isPrio))) (has : a.Pairwise (fun x y => x.cls.key ≤ y.cls.key))
    (hb : b.Perm (ls.filter (·.cls.isOrd))) (hbs : b.Pairwise (fun x y => x.cls.key ≤ y.cls.key))
    (hc : c = ls.filter (·.cls.isPlain)) :
    a ++ b ++ c = loaderSeq ls := by
  rw [sortByKey_unique _ a hdp ha has, sortByKey_unique _ b hdo hb hbs, hc]
  rfl

/-- Files (and any priority loaders with one common Order()) are read in the order in which they were added:
    with only FileLoaders in the priority class the sequence is files, then ordered, then the rest. -/
theorem C15_files_keep_order (ls : List Loader) (k : Int) (h : ∀ l ∈ ls, l.cls.isPrio = true → l.cls.key = k) :
    loaderSeq ls = ls.filter (·.cls.isPrio) ++ sortByKey (ls.filter (·.cls.isOrd)) ++ ls.filter (·.cls.isPlain) := by
  simp only [loaderSeq]
  rw [sortByKey_const _ k (fun y hy => by
    have := List.mem_filter.mp hy
    exact h y this.1 (by simpa using this.2))]

/-- the loop of loadConfigure over well-behaved loaders computes the fold of merges over the documents in
    loader sequence -/
theorem C15_load_is_merge (ls : List Loader) (h : ∀ l ∈ ls, l.good = true) :
    loadAll ls = .ok (mergeAll (docsOf ls)) :=
  loadAll_good ls h

/-- ADDING NEVER DISCARDS: after AddConfigLoader / SetConfig(file) / Configure.AddLoaders every loader
    configured so far is still configured (for any starting list, in particular configure.Default()). -/
theorem C15_add_keeps (opts : List Opt) (o : Opt)
    (ho : (∃ ls, o = .addLoaders ls) ∨ (∃ f, o = .setConfig f) ∨ (∃ ls, o = .configureAdd ls)) :
    ∀ x ∈ applyOptions opts, x ∈ applyOptions (opts ++ [o]) := by
  intro x hx
  simp only [applyOptions, applyFrom_snoc] at hx ⊢
  rcases ho with ⟨ls, rfl⟩ | ⟨f, rfl⟩ | ⟨ls, rfl⟩ <;> simp [applyStep, hx]

/-- … and the added loaders are configured too. -/
theorem C15_add_adds (opts : List Opt) (ls : List Loader) (f : Loader) :
    (∀ x ∈ ls, x ∈ applyOptions (opts ++ [.addLoaders ls])) ∧ (∀ x ∈ ls, x ∈ applyOptions (opts ++ [.configureAdd ls])) ∧
    f ∈ applyOptions (opts ++ [.setConfig f]) := by
  simp only [applyOptions, applyFrom_snoc, applyStep]
  refine ⟨fun x hx => ?_, fun x hx => ?_, ?_⟩ <;> simp [*]

/-- SetConfigLoader (and SetConfigure) REPLACE what was configured before — documented behaviour, not "add". -/
theorem C15_set_replaces (opts : List Opt) (ls : List Loader) :
    applyOptions (opts ++ [.setLoaders ls]) = ls ∧ applyOptions (opts ++ [.setConfigure ls]) = ls := by
  simp [applyOptions, applyFrom_snoc, applyStep]

/-- NOTHING IS DROPPED (end to end): appending one more well-behaved loader to the configured list — whatever
    its class, i.e. wherever SortOrderedComponents puts it — hides no path of the effective configuration. -/
theorem C15_add_loader_never_hides (ls : List Loader) (l : Loader)
    (hgood : ∀ x ∈ ls ++ [l], x.good = true) (hwf : ∀ d ∈ docsOf (ls ++ [l]), d.wf = true) :
    ∃ c c', loadAll ls = .ok c ∧ loadAll (ls ++ [l]) = .ok c' ∧
      ∀ p, (c.get p).isSome = true → (c'.get p).isSome = true := by
  refine ⟨_, _, loadAll_good ls (fun x hx => hgood x (by simp [hx])), loadAll_good _ hgood, ?_⟩
  obtain ⟨pre, post, e1, e2⟩ := loaderSeq_snoc ls l
  simp only [docsOf, e1, e2, List.filterMap_append, List.filterMap_cons] at hwf ⊢
  intro p hp
  cases hd : docOf l with
  | none => simpa [hd] using hp
  | some d =>
    rw [hd] at hwf
    exact insert_doc_covers _ _ d hwf p hp

/-! ### several Initialize calls on one live Configure -/

/-- The first Initialize of an App (`Run(opts…)`) in the history model is the one-shot model `loadAll ∘ applyOptions`
    all theorems above are about. -/
theorem C15_first_initialize (opts : List Opt) :
    (runPhase St.app opts).map (·.acc) = loadAll (applyOptions opts) := by
  simp only [runPhase, St.app, foldl_stepOpt_fresh, initOnce, loadAll, applyOptions]
  cases h : applyFrom [defaultLoader] opts with
  | nil => rfl
  | cons a t =>
    simp only [List.isEmpty_cons, Bool.false_eq_true, if_false]
    cases loadLoop (loaderSeq (a :: t)) (.map []) <;> rfl

/-- EVERY INITIALIZE LOADS EVERYTHING: whatever the binder holds (`docs` merged by earlier calls), one more Initialize
    merges the documents of ALL currently configured loaders, in loader sequence, on top of it, and stores the sorted
    list.  There is no "already loaded" state: a source added after an Initialize is read by the next one wherever the
    sort puts it. -/
theorem C15_initialize_is_merge (s : St) (docs : List Cfg) (hacc : s.acc = mergeAll docs)
    (hgood : ∀ l ∈ s.loaders, l.good = true) :
    initOnce s = .ok ⟨loaderSeq s.loaders, mergeAll (docs ++ docsOf s.loaders)⟩ := by
  rw [initOnce_good s hgood, hacc]
  simp [mergeAll, List.foldl_append]

/-- The sorted list that loadConfigure stores back does not disturb later calls: loaders appended to it and sorted
    again stand where the order of ADDITION puts them (the insertion sort is stable). -/
theorem C15_resort_stable (ls new : List Loader) : loaderSeq (loaderSeq ls ++ new) = loaderSeq (ls ++ new) :=
  loaderSeq_stored ls new

/-
  FULL STATEMENT (false of the code for the same reason as C15_last_wins_partial: C15_counterexample):
    after any Initialize the value at a leaf path is the one of the last CURRENT document defining it.
  PROVED: with the hypothesis that no document merged so far (earlier calls and this one) holds a map at p.
-/
/-- LAST WINS AFTER EVERY INITIALIZE: `i` is the last document of the current loader sequence defining the leaf path
    `p`; after the Initialize the configuration shows that document's value, whatever earlier Initialize calls merged
    (`docs0`) — in particular when document `i` belongs to a loader added after them and sorted to the front. -/
theorem C15_reinit_last_wins_partial (s : St) (docs0 : List Cfg) (hacc : s.acc = mergeAll docs0)
    (hgood : ∀ l ∈ s.loaders, l.good = true) (hwf : ∀ d ∈ docs0 ++ docsOf s.loaders, d.wf = true)
    (p : Path) (hp : p ≠ []) (i : Nat) (hi : i < (docsOf s.loaders).length)
    (v : Cfg) (hdef : (docsOf s.loaders)[i].get p = some v)
    (hlast : ∀ j (hj : j < (docsOf s.loaders).length), i < j → (docsOf s.loaders)[j].get p = none)
    (hnc : noMapAt (docs0 ++ docsOf s.loaders) p = true) :
    ∃ s', initOnce s = .ok s' ∧ s'.loaders = loaderSeq s.loaders ∧ s'.acc.get p = some v := by
  refine ⟨_, C15_initialize_is_merge s docs0 hacc hgood, rfl, ?_⟩
  have hs := split_at (docsOf s.loaders) i hi
  have e : docs0 ++ docsOf s.loaders =
      (docs0 ++ (docsOf s.loaders).take i) ++ (docsOf s.loaders)[i] :: (docsOf s.loaders).drop (i + 1) := by
    rw [List.append_assoc, ← hs]
  show (mergeAll (docs0 ++ docsOf s.loaders)).get p = some v
  rw [e]
  apply last_wins_split _ _ _ p v (fun d hd => hwf d (by rw [e]; exact hd)) hp hdef
  · intro d hd
    have hm : d ∈ docs0 ++ docsOf s.loaders := by
      rcases List.mem_append.mp hd with h | h
      · exact List.mem_append_left _ h
      · exact List.mem_append_right _ (List.mem_of_mem_take h)
    have := List.all_eq_true.mp hnc d hm
    simpa using this
  · intro d hd
    obtain ⟨j, hj, hle, rfl⟩ := mem_drop_index (docsOf s.loaders) (i + 1) d hd
    exact hlast j hj (by omega)

/-- NOTHING IS MISSING after an Initialize, for ANY content of the binder: every path some currently configured
    loader supplies is visible, and so is every path that was visible before the call. -/
theorem C15_initialize_never_drops (s : St) (hgood : ∀ l ∈ s.loaders, l.good = true)
    (hwf : ∀ d ∈ docsOf s.loaders, d.wf = true) :
    ∃ s', initOnce s = .ok s' ∧
      (∀ d ∈ docsOf s.loaders, ∀ p, (d.get p).isSome = true → (s'.acc.get p).isSome = true) ∧
      (∀ p, (s.acc.get p).isSome = true → (s'.acc.get p).isSome = true) :=
  ⟨_, initOnce_good s hgood, fun d hd p h => isSome_fold_of_mem _ _ p hwf d hd h,
    fun p h => isSome_fold_of_acc _ _ p hwf h⟩

/-- A SOURCE ADDED TO A LIVE CONFIGURE IS LOADED: after AddConfigLoader / SetConfig(file) / Configure.AddLoaders with a
    loader `l` of ANY class on a Configure in any state (any number of earlier Initialize calls) and one more
    Initialize, every path of `l`'s document is visible. -/
theorem C15_late_source_is_loaded (s : St) (l : Loader) (d : Cfg) (hd : docOf l = some d) (o : Opt)
    (ho : o = .addLoaders [l] ∨ o = .setConfig l ∨ o = .configureAdd [l])
    (hgood : ∀ x ∈ s.loaders ++ [l], x.good = true) (hwf : ∀ e ∈ docsOf (s.loaders ++ [l]), e.wf = true) :
    ∃ s', runPhase s [o] = .ok s' ∧ ∀ p, (d.get p).isSome = true → (s'.acc.get p).isSome = true := by
  have e : [o].foldl stepOpt s = ⟨s.loaders ++ [l], s.acc⟩ := by
    rcases ho with rfl | rfl | rfl <;> rfl
  obtain ⟨s', h1, h2, _⟩ := C15_initialize_never_drops ⟨s.loaders ++ [l], s.acc⟩ hgood hwf
  refine ⟨s', by simpa [runPhase, e] using h1, fun p hp => h2 d ?_ p hp⟩
  exact List.mem_filterMap.mpr ⟨l, (loaderSeq_perm _).mem_iff.mpr (by simp), hd⟩

/-! ### code tie: the regenerated configure.go (re-stated from C12, proved in Lemmas/SemConfigure.lean) -/

/-- configure.loadConfigure, REGENERATED from /repo on every run (configure/configure.go:54-72): the loader list is
    replaced by what SortOrderedComponents returns and ALL of it is walked, from the first loader on, on every call —
    LoadConfig, then SetConfig when the document is not empty; the first error ends the walk (M4's `twoStepLoop`, the
    loop `loadLoop`/`initOnce` mirror).  An edit of the function changes the term and this obligation with it. -/
theorem C15_code_loadConfigure (res : Nat → Ioc.Order.Step) (sorted : List Nat) (w : Ioc.Sem.CfgW) :
    Ioc.Go.run (Ioc.Sem.cfgPrims res sorted) Ioc.Progs.cfg_loadConfigure [] w =
      some (if (Ioc.Order.twoStepLoop res sorted w.log).2 then Ioc.Sem.errG else Ioc.Go.Val.nil,
            { loaders := sorted, log := (Ioc.Order.twoStepLoop res sorted w.log).1 }) :=
  Ioc.Sem.loadConfigure_sem res sorted w

/-- Configure.Initialize, regenerated: nothing for an empty loader list, otherwise loadConfigure — on EVERY call; the
    function keeps no "already initialised" / "already loaded" state. -/
theorem C15_code_Initialize (res : Nat → Ioc.Order.Step) (sorted : List Nat) (w : Ioc.Sem.CfgW) :
    Ioc.Go.run (Ioc.Sem.initPrims res sorted) Ioc.Progs.cfg_Initialize [] w =
      if w.loaders.isEmpty then some (Ioc.Go.Val.nil, w)
      else some (if (Ioc.Order.twoStepLoop res sorted w.log).2 then Ioc.Sem.errG else Ioc.Go.Val.nil,
                 { loaders := sorted, log := (Ioc.Order.twoStepLoop res sorted w.log).1 }) :=
  Ioc.Sem.initialize_sem res sorted w

/-- KF-C15-1: the full-strength "last one wins" is FALSE of the code.  First loader `a: {b: 1}`, second loader
    `a: x`: viper keeps the map, the later scalar is ignored (replayed on the real code by the harness corpus
    case `map-then-scalar`). -/
theorem C15_counterexample :
    let a := ofString "a"; let b := ofString "b"
    let d0 : Cfg := .map [(a, .map [(b, .scalar (.val (ofString "1")))])]
    let d1 : Cfg := .map [(a, .scalar (.val (ofString "x")))]
    d0.wf = true ∧ d1.wf = true ∧ d1.get [a] = some (.scalar (.val (ofString "x"))) ∧
    (mergeAll [d0, d1]).get [a] = d0.get [a] ∧ (mergeAll [d0, d1]).get [a] ≠ d1.get [a] ∧
    noMapAt [d0, d1] [a] = false := by
  decide

/-! ### non-vacuity: concrete inputs satisfying the hypotheses above -/


/-! ### the process command line (`--app.config=path=value`): the loader every new App is born with -/

/-- add-type options (app.AddConfigLoader, app.SetConfig(file), Configure.AddLoaders) and the loaders they add -/
def isAddOpt : Opt → Bool
  | .addLoaders _ | .setConfig _ | .configureAdd _ => true
  | _ => false
def addedBy : Opt → List Loader
  | .addLoaders ls | .configureAdd ls | .setLoaders ls | .setConfigure ls => ls
  | .setConfig f => [f]

/-- a process started without `--app.config` arguments: the command-line loader is the silent default loader all
    theorems above start from -/
theorem C15_cmdline_none :
    cmdLoader [] = defaultLoader ∧ St.appCmd [] = St.app ∧ ∀ opts, applyOptionsCmd [] opts = applyOptions opts :=
  ⟨rfl, rfl, fun _ => rfl⟩

/-- the first Initialize of an App in a process started with the command-line pairs `pairs` is the one-shot model on the
    option fold that starts from the command-line loader -/
theorem C15_first_initialize_cmd (pairs : List (Path × Cfg)) (opts : List Opt) :
    (runPhase (St.appCmd pairs) opts).map (·.acc) = loadAll (applyOptionsCmd pairs opts) := by
  simp only [runPhase, St.appCmd, foldl_stepOpt_fresh, initOnce, loadAll, applyOptionsCmd]
  cases h : applyFrom [cmdLoader pairs] opts with
  | nil => rfl
  | cons a t =>
    simp only [List.isEmpty_cons, Bool.false_eq_true, if_false]
    cases loadLoop (loaderSeq (a :: t)) (.map []) <;> rfl

/-- THE COMMAND LINE IS THE FIRST LOADER ADDED: under add-type options the configured list is the command-line loader
    followed by everything the options added, in the order of the options. -/
theorem C15_cmdline_first (pairs : List (Path × Cfg)) (opts : List Opt) (hadd : ∀ o ∈ opts, isAddOpt o = true) :
    applyOptionsCmd pairs opts = cmdLoader pairs :: opts.flatMap addedBy := by
  unfold applyOptionsCmd
  suffices h : ∀ init, applyFrom init opts = init ++ opts.flatMap addedBy from h [cmdLoader pairs]
  induction opts with
  | nil => intro init; simp [applyFrom]
  | cons o rest ih =>
    intro init
    have ho := hadd o List.mem_cons_self
    have hr := ih (fun x hx => hadd x (List.mem_cons_of_mem _ hx))
    simp only [applyFrom, List.foldl_cons] at hr ⊢
    cases o <;> simp_all [isAddOpt, applyStep, addedBy, List.flatMap_cons]

/-- … so in the loader sequence it stands behind the priority and the ordered loaders (files) and BEFORE every other
    loader added by an option: on a shared key each of those is the later source and wins (C15_last_wins_partial on
    this sequence), a file is the earlier one and loses. -/
theorem C15_cmdline_before_added (pairs : List (Path × Cfg)) (ls : List Loader) :
    loaderSeq (cmdLoader pairs :: ls) =
      sortByKey (ls.filter (·.cls.isPrio)) ++ sortByKey (ls.filter (·.cls.isOrd)) ++
        cmdLoader pairs :: ls.filter (·.cls.isPlain) := by
  simp [loaderSeq, cmdLoader, Cls.isPrio, Cls.isOrd, Cls.isPlain]

section examples
def ka := ofString "a"
def kb := ofString "b"
def kc := ofString "c"
def sv (s : String) : Cfg := .scalar (.val (ofString s))
/-- three documents: overlap on a.b (1, then 2), disjoint a.c, a scalar→map change at `c` -/
def e0 : Cfg := .map [(ka, .map [(kb, sv "1")]), (kc, sv "s")]
def e1 : Cfg := .map [(ka, .map [(kb, sv "2"), (kc, sv "only")])]
def e2 : Cfg := .map [(kc, .map [(ka, sv "deep")])]

-- hypotheses of C15_last_wins_partial for p = a.b, i = 1 (the last document defining it), and its conclusion
example : (∀ d ∈ [e0, e1, e2], d.wf = true) ∧ [e0, e1, e2][1].get [ka, kb] = some (sv "2") ∧ (sv "2").isMap = false ∧
    e2.get [ka, kb] = none ∧ noMapAt [e0, e1, e2] [ka, kb] = true ∧
    (mergeAll [e0, e1, e2]).get [ka, kb] = some (sv "2") := by decide
-- hypotheses of C15_only_one for p = a.c (only e1 defines it)
example : e0.get [ka, kc] = none ∧ e1.get [ka, kc] = some (sv "only") ∧ e2.get [ka, kc] = none ∧
    (mergeAll [e0, e1, e2]).get [ka, kc] = some (sv "only") := by decide
-- scalar then map: the later map replaces the scalar (a conflict on a prefix that does no harm)
example : (mergeAll [e0, e1, e2]).get [kc, ka] = some (sv "deep") := by decide
-- C15_source_never_hides / C15_silent_source: e1 in the middle hides nothing of e0, e2
example : ((mergeAll [e0, e2]).get [ka, kb]).isSome = true ∧ ((mergeAll [e0, e1, e2]).get [ka, kb]).isSome = true ∧
    e2.get [ka, kb] = none ∧ (mergeAll [e0, e1, e2]).get [ka, kb] = (mergeAll [e0, e1]).get [ka, kb] := by decide

def lRaw (id : Nat) (c : Cfg) : Loader := ⟨id, .plain, .doc c⟩
-- the README order: SetConfigLoader(raw), SetConfig(file): the file is read FIRST although added last
example : (loaderSeq (applyOptions [.setLoaders [lRaw 1 e0], .setConfig (fileLoader 2 (.doc e1))])).map (·.id) = [2, 1] := by
  decide
-- all three classes, ties and negative orders
example : (loaderSeq [⟨1, .plain, .empty⟩, ⟨2, .prio 0, .empty⟩, ⟨3, .ord (-1), .empty⟩, ⟨4, .prio 0, .empty⟩,
    ⟨5, .prio (-2), .empty⟩, ⟨6, .plain, .empty⟩, ⟨7, .ord (-1), .empty⟩]).map (·.id) = [5, 2, 4, 3, 7, 1, 6] := by decide
-- C15_add_keeps / C15_set_replaces on the default configure
/-- non-vacuity of C15_sequence_determined: 14 priority loaders with pairwise different orders added in a scrambled
    order between plain ones; the hypotheses hold and the sequence is the ascending one -/
def manyLs : List Loader :=
  [⟨1, .plain, .empty⟩, ⟨2, .prio 5, .empty⟩, ⟨3, .prio (-7), .empty⟩, ⟨4, .prio 3, .empty⟩, ⟨5, .prio 9, .empty⟩,
   ⟨6, .plain, .empty⟩, ⟨7, .prio 8, .empty⟩, ⟨8, .prio (-2), .empty⟩, ⟨9, .prio 6, .empty⟩, ⟨10, .ord 1, .empty⟩,
   ⟨11, .prio (-5), .empty⟩, ⟨12, .prio (-1), .empty⟩, ⟨13, .prio 7, .empty⟩, ⟨14, .prio 2, .empty⟩, ⟨15, .plain, .empty⟩,
   ⟨16, .prio (-6), .empty⟩, ⟨17, .prio 4, .empty⟩, ⟨18, .prio 0, .empty⟩, ⟨19, .ord (-1), .empty⟩, ⟨20, .plain, .empty⟩]
example : ((manyLs.filter (·.cls.isPrio)).length = 14) ∧
    decide ((manyLs.filter (·.cls.isPrio)).Pairwise (fun x y => x.cls.key ≠ y.cls.key)) = true ∧
    decide ((manyLs.filter (·.cls.isOrd)).Pairwise (fun x y => x.cls.key ≠ y.cls.key)) = true ∧
    (loaderSeq manyLs).map (·.id) = [3, 16, 11, 8, 12, 18, 14, 4, 17, 2, 9, 13, 7, 5, 19, 10, 1, 6, 15, 20] := by
  decide

example : (applyOptions [.addLoaders [lRaw 1 e0], .setConfig (fileLoader 2 (.doc e1)), .configureAdd [lRaw 3 e2]]).map (·.id)
    = [0, 1, 2, 3] := by decide
example : (applyOptions [.addLoaders [lRaw 1 e0], .setLoaders [lRaw 3 e2]]).map (·.id) = [3] := by decide
-- hypotheses of C15_add_loader_never_hides hold for a real case, and loadAll succeeds
example : (∀ x ∈ [lRaw 1 e0, fileLoader 2 (.doc e1)] ++ [lRaw 3 e2], x.good = true) ∧
    (∀ d ∈ docsOf ([lRaw 1 e0, fileLoader 2 (.doc e1)] ++ [lRaw 3 e2]), d.wf = true) := by decide
-- viper reads keys case-insensitively; an upper-case spelling shadows the lower-case one in the same document
example : insens (.map [(ofString "a", sv "1"), (ofString "A", sv "2"), (ofString "Kb", .map [(ofString "X", sv "3")])])
    = .map [(ofString "a", sv "2"), (ofString "kb", .map [(ofString "x", sv "3")])] := by decide
-- several Initialize calls (the history of seeded change C15E): base document, Initialize, then a FILE (sorted to the
-- front) and another document, Initialize: the loader sequence is file, base, extra and every key is there
def hBase : Cfg := .map [(ka, .map [(kb, sv "base"), (kc, sv "8080")])]
def hFile : Cfg := .map [(ka, .map [(kb, sv "file"), (ofString "d", sv "true")]), (kc, .map [(ka, sv "data")])]
def hExtra : Cfg := .map [(ka, .map [(kc, sv "9090")])]
def hOpts1 : List Opt := [.setLoaders [lRaw 1 hBase]]
def hOpts2 : List Opt := [.setConfig (fileLoader 2 (.doc hFile)), .addLoaders [lRaw 3 hExtra]]
def hAfter (p : Path) : Option (Option Cfg) :=
  ((runPhase St.app hOpts1).bind fun s => runPhase s hOpts2).toOption.map fun s => s.acc.get p
example : ((runPhase St.app hOpts1).toOption.map fun s => (s.loaders.map (·.id), s.acc.get [ka, kb])) =
    some ([1], some (sv "base")) := by decide
example : (((runPhase St.app hOpts1).bind fun s => runPhase s hOpts2).toOption.map fun s => s.loaders.map (·.id)) =
    some [2, 1, 3] := by decide
example : hAfter [ka, kb] = some (some (sv "base")) ∧ hAfter [ka, kc] = some (some (sv "9090")) ∧
    hAfter [ka, ofString "d"] = some (some (sv "true")) ∧ hAfter [kc, ka] = some (some (sv "data")) := by decide
-- hypotheses of C15_reinit_last_wins_partial at the second Initialize for p = a.d (only the late file defines it; it is
-- document 0 of the current sequence) and of C15_late_source_is_loaded / C15_initialize_never_drops
example : let s : St := ⟨[lRaw 1 hBase, fileLoader 2 (.doc hFile), lRaw 3 hExtra], mergeAll [insens hBase]⟩
    (∀ l ∈ s.loaders, l.good = true) ∧ (∀ d ∈ [insens hBase] ++ docsOf s.loaders, d.wf = true) ∧
    (docsOf s.loaders).length = 3 ∧ ((docsOf s.loaders)[0]?.bind (·.get [ka, ofString "d"])) = some (sv "true") ∧
    ((docsOf s.loaders)[1]?.bind (·.get [ka, ofString "d"])) = none ∧
    ((docsOf s.loaders)[2]?.bind (·.get [ka, ofString "d"])) = none ∧
    noMapAt ([insens hBase] ++ docsOf s.loaders) [ka, ofString "d"] = true := by decide
-- the regenerated Initialize on a Configure that was initialised before (log not empty, list sorted): both loaders are
-- walked again, the first one included
example : Ioc.Go.run (Ioc.Sem.initPrims (fun _ => .next false) [1, 0]) Ioc.Progs.cfg_Initialize []
      { loaders := [0, 1], log := [.first 0, .second 0] } =
    some (Ioc.Go.Val.nil, { loaders := [1, 0], log := [.first 0, .second 0, .first 1, .second 1, .first 0, .second 0] }) :=
  (C15_code_Initialize _ _ _).trans (by rfl)
-- the process command line `--app.config=a.b=cli --app.config=a.c=7`, a file and a raw document added by options: the
-- loader sequence is file, command line, raw; the raw document wins on a.b, the command line beats the file on a.c
def cPairs : List (Path × Cfg) := [([ka, kb], sv "cli"), ([ka, kc], sv "7")]
def cOpts : List Opt := [.addLoaders [lRaw 1 (.map [(ka, .map [(kb, sv "raw")])])],
  .setConfig (fileLoader 2 (.doc (.map [(ka, .map [(kb, sv "file"), (kc, sv "1"), (ofString "d", sv "f")])])))]
example : (∀ o ∈ cOpts, isAddOpt o = true) ∧ (applyOptionsCmd cPairs cOpts).map (·.id) = [0, 1, 2] ∧
    (loaderSeq (applyOptionsCmd cPairs cOpts)).map (·.id) = [2, 0, 1] := by decide
example : ((runPhase (St.appCmd cPairs) cOpts).toOption.map fun s =>
      (s.acc.get [ka, kb], s.acc.get [ka, kc], s.acc.get [ka, ofString "d"])) =
    some (some (sv "raw"), some (sv "7"), some (sv "f")) := by decide
end examples

/-! ### the REGENERATED start options of package app (app/options.go)

    Every option constructor returns a function literal; it is translated curried (the App last).  The loaders reach the
    Configure AS THEY WERE GIVEN (no wrapper in between: the ordering markers of a loader stay visible to
    `SortOrderedComponents`), `SetConfig(path)` adds a file loader, and every configure option acts on the Configure the App
    holds when the option runs. -/
section options
open Ioc.Go Ioc.Sem

theorem C15_code_loader_options (ls b : Go.Val) (p : String) (w : AW) :
    run aoptPrims Progs.aopt_AddConfigLoader [ls, .ref 0 1] w =
      some (.tuple [], { w with cfgOps := w.cfgOps ++ [(w.configure, .addLoaders ls)] }) ∧
    run aoptPrims Progs.aopt_SetConfigLoader [ls, .ref 0 1] w =
      some (.tuple [], { w with cfgOps := w.cfgOps ++ [(w.configure, .setLoaders ls)] }) ∧
    run aoptPrims Progs.aopt_SetConfig [.str p, .ref 0 1] w =
      some (.tuple [], { w with cfgOps := w.cfgOps ++ [(w.configure, .addLoaders (.tuple [.str "file", .str p]))] }) ∧
    run aoptPrims Progs.aopt_SetConfigBinder [b, .ref 0 1] w =
      some (.tuple [], { w with cfgOps := w.cfgOps ++ [(w.configure, .setBinder b)] }) :=
  ⟨addConfigLoader_sem ls w, setConfigLoader_sem ls w, setConfig_sem p w, setConfigBinder_sem b w⟩

theorem C15_code_SetConfigure (c : Nat) (w : AW) :
    run aoptPrims Progs.aopt_SetConfigure [.ref c 4, .ref 0 1] w = some (.tuple [], { w with configure := c }) :=
  setConfigure_sem c w

end options

/-! ### the three loaders, REGENERATED (interpretation Ioc.SemLoaders: string functions, strconv2.ParseAny, the properties map,
    yaml.Marshal and os.ReadFile are parameters) -/
section loaders
open Ioc.Go Ioc.Sem

/-- ArgsLoader.LoadConfig: the arguments in order; only those with the prefix `--app.config` count; each is `key[=value]` split
    at the FIRST "=", the value (empty when there is none) parsed into a typed value and set under the key, later arguments
    after earlier ones; a parse error ends the call; no setting at all gives (nil, nil) — no document rather than an empty one,
    so this source then contributes nothing and drops nothing; otherwise the YAML of the settings, a marshalling error wrapped -/
theorem C15_code_ArgsLoader (p : ALP) (w : List (String × Nat)) :
    run (alPrims p) Progs.loader_Args [] w =
      (let r := stepLoop (alStep p) p.args () w
       match r.2.2 with
       | some v => some (v, r.2.1)
       | none =>
         if p.plen r.2.1 = 0 then some (.tuple [.nil, .nil], r.2.1)
         else some (match p.marshal r.2.1 with
                    | .ok b => .tuple [.ref b 151, .nil]
                    | .error e => .tuple [.nil, .str ("marshal to YAML: " ++ e)], r.2.1)) :=
  argsLoader_sem p w

/-- FileLoader: the file's bytes, a read error wrapped with no bytes; RawLoader: the bytes it was built from, never an error -/
theorem C15_code_File_Raw_Loader (path : String) (read : String → Except String Nat) (raw : Go.Val) :
    run (flPrims path read) Progs.loader_File [] () =
      some (match read path with
            | .ok b => .tuple [.ref b 151, .nil]
            | .error e => .tuple [.nil, .str ("read file: " ++ e)], ()) ∧
    run (rlPrims raw) Progs.loader_Raw [] () = some (.tuple [raw, .nil], ()) :=
  ⟨fileLoader_sem path read, rawLoader_sem raw⟩

end loaders

/-- configure.Default / NewConfigure / the setters, regenerated (interpretation Ioc.SemConfDefault): the default configure has
    ONE loader, the command-line loader over os.Args, and its binder is the viper binder for yaml ITSELF (no layer between
    the configure and the binder: what `SetConfig` merges and `Set` writes is what `Get` reads); SetLoaders replaces,
    AddLoaders appends in the order given, SetBinder replaces the binder -/
theorem C15_code_configure_Default (w : Sem.CfgObj) (ls : List Go.Val) (b : Go.Val) :
    Go.run Sem.cdPrims Progs.cfg_Default [] w =
      some (.ref 0 180, ⟨[.tuple [.str "ArgsLoader", .str "os.Args"]], .tuple [.str "ViperBinder", .str "yaml"]⟩) ∧
    Go.run Sem.cdPrims Progs.cfg_NewConfigure [] w = some (.ref 0 180, ⟨[], .nil⟩) ∧
    Go.run Sem.cdPrims Progs.cfg_SetLoaders [.list ls] w = some (.tuple [], { w with loaders := ls }) ∧
    Go.run Sem.cdPrims Progs.cfg_AddLoaders [.list ls] w = some (.tuple [], { w with loaders := w.loaders ++ ls }) ∧
    Go.run Sem.cdPrims Progs.cfg_SetBinder [b] w = some (.tuple [], { w with binder := b }) :=
  ⟨Sem.cfgDefault_sem w, Sem.newConfigure_sem w, (Sem.cfgSetters_sem w ls b).1, (Sem.cfgSetters_sem w ls b).2.1,
   (Sem.cfgSetters_sem w ls b).2.2⟩

/-- App.Run (regenerated, `C13_code_App_Run`) applies, on EVERY call, the options it is given and then ALL package-level
    options (`app.Settings`): a configuration source registered through `app.Settings` is a source of every App started in
    the process, not only of the first -/
theorem C15_code_Run_applies_global_options (p : Sem.ARP) (ops : List Nat) (w : List Sem.ACall) :
    Go.run (Sem.arPrims p) Progs.app_Run [Sem.optVals ops] w =
      (if p.initErr.isSome && !p.fatalReturns then none
       else some (Sem.encOptE p.runErr, w ++ (ops ++ p.globals).map Sem.ACall.option ++ [.initiate, .run])) :=
  Sem.appRun_sem p ops w

/-! ### several Apps in one process: sources registered through `app.Settings` (`runApp`, `runProc`)

    `C15_code_Run_applies_global_options` above is the code tie (the regenerated `Run` walks the call's options and then
    ALL package-level ones on every call); these are the property-level consequences in the configuration model. -/

/-- THE REGISTERED OPTIONS ARE NOT USED UP: the Apps started after a stretch `pre` of a process history are started with
    everything that was registered before and during it — the earlier Apps take nothing away. -/
theorem C15_history_splits (g : List Opt) (pre rest : List ProcStep) :
    runProc g (pre ++ rest) = runProc g pre ++ runProc (g ++ registeredBy pre) rest := by
  induction pre generalizing g with
  | nil => simp [runProc, registeredBy]
  | cons st more ih =>
    cases st with
    | settings ops => simp [runProc, registeredBy, ih, List.append_assoc]
    | newApp ops => simp [runProc, registeredBy, ih]

/-- … so EVERY App of a history — the first, the second, the tenth — is `runApp` on all options registered before its
    start: its result does not depend on how many Apps were started before it. -/
theorem C15_every_app_gets_registered (g : List Opt) (pre rest : List ProcStep) (ops : List Opt) :
    (runProc g (pre ++ .newApp ops :: rest))[(runProc g pre).length]? = some (runApp (g ++ registeredBy pre) ops) := by
  rw [C15_history_splits]
  simp [runProc]

/-- under add-type registered options the configured list of an App is its own list followed by every registered loader,
    in the order of registration (whatever its own options were, set-type ones included) -/
theorem C15_registered_sources_configured (globals ops : List Opt) (hadd : ∀ o ∈ globals, isAddOpt o = true) :
    applyOptions (ops ++ globals) = applyOptions ops ++ globals.flatMap addedBy := by
  unfold applyOptions
  suffices h : ∀ init, applyFrom init globals = init ++ globals.flatMap addedBy by
    simp only [applyFrom, List.foldl_append] at h ⊢
    exact h _
  intro init
  induction globals generalizing init with
  | nil => simp [applyFrom]
  | cons o rest ih =>
    have ho := hadd o List.mem_cons_self
    have hr := ih (fun x hx => hadd x (List.mem_cons_of_mem _ hx))
    simp only [applyFrom, List.foldl_cons] at hr ⊢
    cases o <;> simp_all [isAddOpt, applyStep, addedBy, List.flatMap_cons]

/-- A REGISTERED SOURCE IS A SOURCE OF EVERY APP: a loader `l` registered through `app.Settings` with an add-type option
    (AddConfigLoader / SetConfig(file) / Configure.AddLoaders) is loaded by any App started afterwards — whatever the App's
    own options — and every path of its document is visible in that App's configuration. -/
theorem C15_registered_source_is_loaded (globals ops : List Opt) (hadd : ∀ o ∈ globals, isAddOpt o = true)
    (o : Opt) (ho : o ∈ globals) (l : Loader) (hl : l ∈ addedBy o) (d : Cfg) (hd : docOf l = some d)
    (hgood : ∀ x ∈ applyOptions (ops ++ globals), x.good = true)
    (hwf : ∀ e ∈ docsOf (applyOptions (ops ++ globals)), e.wf = true) :
    ∃ s', runApp globals ops = .ok s' ∧ l ∈ s'.loaders ∧ ∀ p, (d.get p).isSome = true → (s'.acc.get p).isSome = true := by
  have hmem : l ∈ applyOptions (ops ++ globals) := by
    rw [C15_registered_sources_configured globals ops hadd]
    exact List.mem_append_right _ (List.mem_flatMap.mpr ⟨o, ho, hl⟩)
  have e : (ops ++ globals).foldl stepOpt St.app = ⟨applyOptions (ops ++ globals), .map []⟩ :=
    foldl_stepOpt_fresh [defaultLoader] (ops ++ globals)
  refine ⟨⟨loaderSeq (applyOptions (ops ++ globals)), (docsOf (applyOptions (ops ++ globals))).foldl merge (.map [])⟩, ?_, ?_, ?_⟩
  · simp only [runApp, runPhase, e]
    exact initOnce_good ⟨applyOptions (ops ++ globals), .map []⟩ hgood
  · exact (loaderSeq_perm _).mem_iff.mpr hmem
  · intro p hp
    exact isSome_fold_of_mem _ _ p hwf d (List.mem_filterMap.mpr ⟨l, (loaderSeq_perm _).mem_iff.mpr hmem, hd⟩) hp

section procExamples
/-- the history of seeded change C15R: one raw document registered, then three Apps, each with a raw document and a
    config file of its own -/
def gDoc : Cfg := .map [(ofString "global", .map [(ofString "only", sv "g")]), (ofString "shared", .map [(ofString "global", sv "true")])]
def aRaw (i : String) : Cfg := .map [(ofString "raw", .map [(ofString "only", sv i)]), (ofString "shared", .map [(ofString "from", sv "raw")])]
def aFile (i : String) : Cfg := .map [(ofString "file", .map [(ofString "only", sv i)]), (ofString "shared", .map [(ofString "from", sv "file")])]
def pHist : List ProcStep :=
  [.settings [.addLoaders [lRaw 1 gDoc]],
   .newApp [.addLoaders [lRaw 2 (aRaw "1")], .setConfig (fileLoader 3 (.doc (aFile "1")))],
   .newApp [.addLoaders [lRaw 4 (aRaw "2")], .setConfig (fileLoader 5 (.doc (aFile "2")))],
   .newApp [.addLoaders [lRaw 6 (aRaw "3")], .setConfig (fileLoader 7 (.doc (aFile "3")))]]
def pSee (r : Except Bool St) : Option (List Nat × Option Cfg × Option Cfg × Option Cfg) :=
  r.toOption.map fun s => (s.loaders.map (·.id), s.acc.get [ofString "global", ofString "only"],
    s.acc.get [ofString "shared", ofString "global"], s.acc.get [ofString "shared", ofString "from"])
-- every App — not only the first — holds the registered loader (#1) and shows its keys; the file is read first
example : (runProc [] pHist).map pSee =
    [some ([3, 0, 2, 1], some (sv "g"), some (sv "true"), some (sv "raw")),
     some ([5, 0, 4, 1], some (sv "g"), some (sv "true"), some (sv "raw")),
     some ([7, 0, 6, 1], some (sv "g"), some (sv "true"), some (sv "raw"))] := by decide
-- hypotheses of C15_registered_source_is_loaded for the second App
example : let globals : List Opt := [.addLoaders [lRaw 1 gDoc]]
    let ops : List Opt := [.addLoaders [lRaw 4 (aRaw "2")], .setConfig (fileLoader 5 (.doc (aFile "2")))]
    (∀ o ∈ globals, isAddOpt o = true) ∧ (globals.flatMap addedBy).map (·.id) = [1] ∧
    docOf (lRaw 1 gDoc) = some (insens gDoc) ∧ (∀ x ∈ applyOptions (ops ++ globals), x.good = true) ∧
    (∀ e ∈ docsOf (applyOptions (ops ++ globals)), e.wf = true) ∧
    ((registeredBy (pHist.take 2)).flatMap addedBy).map (·.id) = [1] := by decide
-- a registration between two Apps reaches the Apps started after it, not the one started before
example : ((runProc [] [.newApp [], .settings [.setConfig (fileLoader 1 (.doc gDoc))], .newApp [], .newApp [.setLoaders []]]).map pSee).map
      (fun r => r.map (·.1)) = [some [0], some [1, 0], some [1]] := by decide
end procExamples

/-- FileLoader.Order, regenerated: 0 (with the Priority marker: file sources sort before the unordered ones) -/
theorem C15_code_FileLoader_Order :
    Go.run (Sem.tiPrims [] id (· ++ ·)) Progs.loader_File_Order [] () = some (.int 0, ()) :=
  Sem.fileLoaderOrder_sem

end Ioc.C15
