/-
  C13 — Runners execute once, in order, only after the container is ready.
  PROPERTY THEOREMS ONLY (lemmas: IocProofs/Lemmas/AppLemmas.lean, M2Step.lean, M2StepInv.lean).

  Model: Ioc.App (`appRun` = configuration → factory preparation → refresh → runners, app/app.go:80-154;
  `sortOrdered` = util/framework_helper/order_component.go with a stable insertion sort; `callRunners` = app.go
  callRunners) over the factory machine Ioc.Container.  Every theorem is for ALL application scenarios `a`
  (every dependency graph, candidate order, post-processor behaviour, fault placement, runner classes / orders).
  `Ready a` = no configuration loader failed, no definition scanner failed, the factory machine ended in `done`.
  The collected runners are the objects injected into the App's own `ApplicationRunners` slice field
  (`runnersOf a (final a.sc)`); that this field holds every component implementing the interface is C06's business.
-/
import IocProofs.Lemmas.AppLemmas
import IocProofs.Lemmas.M2StepInv
import IocProofs.Lemmas.M2Examples
import IocProofs.Lemmas.SemApp
import IocProofs.Lemmas.ConcStart
import IocProofs.Lemmas.SemIocRun
import IocProofs.Lemmas.SemAppOptions
import IocProofs.Lemmas.SemAppRun
import IocProofs.Lemmas.SemRefresh
namespace Ioc.C13
open Ioc Ioc.M2 Ioc.App

/-- The invoked runners are a prefix of the collected runners in contract order; nobody before the last invoked one
    failed; the prefix is either everything (and nobody failed) or ends at — and includes — the first failing runner.
    If a stage before the runners failed, nothing is invoked. -/
theorem C13_prefix (a : AppScen) :
    ∃ rest, sortOrdered (runnersOf a (final a.sc)) = (appRun a).invoked ++ rest ∧
      (∀ r ∈ (appRun a).invoked.dropLast, r.fails = false) ∧
      (Ready a → (rest = [] ∧ ∀ r ∈ (appRun a).invoked, r.fails = false) ∨
                 (∃ r, (appRun a).invoked.getLast? = some r ∧ r.fails = true)) ∧
      (¬ Ready a → (appRun a).invoked = []) := by
  by_cases hr : Ready a
  · obtain ⟨_, hinv, _⟩ := appRun_ready a hr
    obtain ⟨rest, he, hd, hok, hbad⟩ := callRunners_spec (sortOrdered (runnersOf a (final a.sc)))
    rw [hinv]
    refine ⟨rest, he, hd, fun _ => ?_, fun h => absurd hr h⟩
    cases hb : (callRunners (sortOrdered (runnersOf a (final a.sc)))).2 with
    | true => exact Or.inl (hok hb)
    | false => exact Or.inr (hbad hb)
  · obtain ⟨hinv, _, _⟩ := appRun_not_ready a hr
    rw [hinv]
    exact ⟨_, rfl, by simp, fun h => absurd h hr, fun _ => rfl⟩

/-- Exactly once: when no stage before the runners failed and no collected runner fails, the invoked runners are the
    whole sorted list — a permutation of the collected runners, each invoked once — and Run succeeds. -/
theorem C13_once (a : AppScen) (hr : Ready a) (hok : ∀ r ∈ runnersOf a (final a.sc), r.fails = false) :
    (appRun a).invoked = sortOrdered (runnersOf a (final a.sc)) ∧
    (appRun a).invoked.Perm (runnersOf a (final a.sc)) ∧ (appRun a).outcome = .ok := by
  obtain ⟨hout, hinv, _⟩ := appRun_ready a hr
  have hall : ∀ r ∈ sortOrdered (runnersOf a (final a.sc)), r.fails = false :=
    fun r h => hok r ((sortOrdered_perm _).mem_iff.mp h)
  rw [callRunners_all_ok _ hall] at hinv hout
  exact ⟨hinv, by rw [hinv]; exact sortOrdered_perm _, by simpa using hout⟩

/-- A failing runner that was invoked is the LAST invoked one (no later runner is invoked, nobody before it failed)
    and Run returns the runner error; conversely the runner error means the last invoked runner failed. -/
theorem C13_error (a : AppScen) :
    (∀ r ∈ (appRun a).invoked, r.fails = true →
      (appRun a).outcome = .errRunners ∧ ∃ pre, (appRun a).invoked = pre ++ [r] ∧ ∀ q ∈ pre, q.fails = false) ∧
    ((appRun a).outcome = .errRunners → ∃ r, (appRun a).invoked.getLast? = some r ∧ r.fails = true) := by
  by_cases hr : Ready a
  · obtain ⟨hout, hinv, _⟩ := appRun_ready a hr
    constructor
    · intro r hmem hf
      rw [hinv] at hmem ⊢
      obtain ⟨hb, hlast⟩ := callRunners_fail_last _ r hmem hf
      exact ⟨by rw [hout, hb]; rfl, hlast⟩
    · intro he
      obtain ⟨rest, _, _, _, hbad⟩ := callRunners_spec (sortOrdered (runnersOf a (final a.sc)))
      rw [hinv]
      apply hbad
      cases hb : (callRunners (sortOrdered (runnersOf a (final a.sc)))).2 with
      | true => rw [hout, hb] at he; cases he
      | false => rfl
  · obtain ⟨hinv, _, hne⟩ := appRun_not_ready a hr
    exact ⟨fun r hmem => (by rw [hinv] at hmem; cases hmem), fun he => absurd he hne⟩

/-- The ordering contract: `sortOrdered l` is a permutation of `l` of the form priority-ordered ++ ordered ++ rest;
    inside the first two groups the Order values are non-decreasing and runners with equal Order keep their
    registration order (stable); the unordered rest keeps the registration order. -/
theorem C13_sorted (l : List Runner) :
    (sortOrdered l).Perm l ∧
    ∃ p o n, sortOrdered l = p ++ o ++ n ∧
      (∀ r ∈ p, r.cls = .prio) ∧ (∀ r ∈ o, r.cls = .ord) ∧ (∀ r ∈ n, r.cls = .plain) ∧
      p.Pairwise (fun x y => x.key ≤ y.key) ∧ o.Pairwise (fun x y => x.key ≤ y.key) ∧
      (∀ k, p.filter (fun r => r.key == k) = (l.filter (fun r => r.cls == .prio)).filter (fun r => r.key == k)) ∧
      (∀ k, o.filter (fun r => r.key == k) = (l.filter (fun r => r.cls == .ord)).filter (fun r => r.key == k)) ∧
      n = l.filter (fun r => r.cls == .plain) := by
  refine ⟨sortOrdered_perm l, _, _, _, sortOrdered_eq l, ?_, ?_, ?_, isortStable_sorted _, isortStable_sorted _,
    fun k => isortStable_filter_key _ k, fun k => isortStable_filter_key _ k, rfl⟩
  · intro r hr
    have := (isortStable_perm _ _).mem_iff.mp hr
    simpa [isPrio] using (List.mem_filter.mp this).2
  · intro r hr
    have := (isortStable_perm _ _).mem_iff.mp hr
    simpa [isOrd] using (List.mem_filter.mp this).2
  · intro r hr
    simpa [isPlain] using (List.mem_filter.mp hr).2

/-- The container is ready at every step count `k`: a `done` state has published every boot and every eager name. -/
theorem C13_done_published (sc : Scen) (k : Nat) (hd : (run sc k (init sc)).status = .done) :
    ∀ n ∈ sc.boot ++ sc.eager, (run sc k (init sc)).l1 n ≠ none :=
  Lc.done_all_published sc k hd

/-- Runners only after the container is ready: if any runner was invoked then the factory machine had ended in
    `done`, and in that state every eagerly created component (boot post-processors and non-lazy definitions) is
    published — it has finished its initialization (C05_once_in_order: its whole lifecycle is in the log). -/
theorem C13_after_ready (a : AppScen) :
    ((appRun a).invoked ≠ [] → Ready a) ∧
    ((final a.sc).status = .done → ∀ n ∈ a.sc.boot ++ a.sc.eager, (final a.sc).l1 n ≠ none) := by
  refine ⟨fun h => ?_, fun hd => Lc.done_all_published a.sc _ hd⟩
  apply Classical.byContradiction
  intro hr
  exact h (appRun_not_ready a hr).1

/-! ### non-vacuity -/

open Ioc.M2.Ex

/-- three runners of the three classes, the ordered one (2) fails: priority-ordered 3 first, then 2, then nothing -/
example : Ready (appScen 2) ∧ (appRun (appScen 2)).invoked.map (·.obj.name) = [3, 2] ∧
    (appRun (appScen 2)).outcome = .errRunners := by decide

/-- nobody fails: all three exactly once, in contract order, although registration order is 1, 2, 3 -/
example : Ready (appScen 0) ∧ (∀ r ∈ runnersOf (appScen 0) (final (appScen 0).sc), r.fails = false) ∧
    (runnersOf (appScen 0) (final (appScen 0).sc)).map (·.obj.name) = [1, 2, 3] ∧
    (appRun (appScen 0)).invoked.map (·.obj.name) = [3, 2, 1] ∧ (appRun (appScen 0)).outcome = .ok := by decide

/-- the eager components 0 and 4 and the lazy runners are published when the runners start -/
example : (final appSc).status = .done ∧ ∀ n ∈ [0, 1, 2, 3, 4], (final appSc).l1 n ≠ none := by decide

/-- a failing factory: nothing is invoked -/
example : ¬ Ready { appScen 0 with sc := cycInitFault } ∧
    (appRun { appScen 0 with sc := cycInitFault }).invoked.map (·.obj.name) = [] := by decide

/-! ### the tie to the code: `callRunners` of the model IS the regenerated program

`Ioc.Progs.app_callRunners` is the syntax tree of `App.callRunners` (app/app.go), re-translated from /repo's source on every
run into the MiniGo deep embedding (Ioc.GoSem).  Run by the interpreter — `Run()` of the runner at position i fails iff the
model's runner does, `SortOrderedComponents` answers with an arbitrary arrangement `sorted` of the positions (its contract is
C12's business) — it invokes exactly the model's prefix, in that order, returns nil iff no invoked runner failed, and clears
the runner list only then.  For EVERY list of runners and every arrangement. -/

theorem C13_code_callRunners (rs : List Runner) (sorted : List Nat) :
    Go.run (Sem.crPrims rs sorted) Progs.app_callRunners [] {} =
      if rs.length = 0 then some (.nil, {})
      else some (if (Sem.callIdx rs sorted).2 then .nil else Sem.errA,
                 { invoked := (Sem.callIdx rs sorted).1, cleared := (Sem.callIdx rs sorted).2 }) :=
  Sem.app_callRunners_sem rs sorted

/-- the positions the program invoked are the runners `App.callRunners` (the model function of C13_prefix / C13_error)
    invokes on the sorted list, with the same verdict -/
theorem C13_code_is_model (rs : List Runner) (sorted : List Nat) (hv : ∀ i ∈ sorted, i < rs.length) :
    App.callRunners (sorted.filterMap (fun i => rs[i]?)) =
      (((Sem.callIdx rs sorted).1).filterMap (fun i => rs[i]?), (Sem.callIdx rs sorted).2) :=
  Sem.callIdx_model rs sorted hv

/-- non-vacuity: three runners, sorted as 2,0,1, the one at position 0 fails: positions 2 and 0 are invoked, an error is
    returned, the list is not cleared -/
example : Go.run (Sem.crPrims [⟨⟨7, 0⟩, .plain, 0, true⟩, ⟨⟨8, 0⟩, .plain, 0, false⟩, ⟨⟨9, 0⟩, .prio, 1, false⟩] [2, 0, 1])
    Progs.app_callRunners [] {} = some (Sem.errA, { invoked := [2, 0], cleared := false }) :=
  (Sem.app_callRunners_sem _ _).trans (by rfl)

/-! ### concurrent starts of different Apps in one process (Ioc.Conc section 4: the option loop of App.Run,
    `for _, op := range append(ops, globalOptions...) { op(s) }`, over Go slices with capacities)

    "Exactly once per start" needs every App to register ITS runners: the theorems above then give one invocation per
    registered runner per start. Which options an App applies while other Apps start at the same time: -/

open Ioc.Conc in
/-- For every number of Apps, every content and CAPACITY of globalOptions (every history of app.Settings calls), every
    option list per App and every interleaving of the Apps' `append` and loop steps: an App that has left its option loop
    applied exactly its own options, in order, followed by the global ones — no option of another App, none twice. -/
theorem C13_concurrent_starts_isolated (c : StartCfg) (h0 : Heap) (next0 : Nat) (wf : StartWF c next0) (s : StartSt)
    (hr : StartSteps c (startInit h0 next0) s) (i : Nat) (hi : i < c.napps) (hd : startDone s i) :
    s.applied i = readSlice h0 (c.ops i) ++ readSlice h0 c.g :=
  starts_isolated c h0 next0 wf s hr i hi hd

open Ioc.Conc in
/-- … so, when App i's caller passes the SetComponents option with App i's runners (standard layout: any number of global
    options of any capacity, none of them a SetComponents; nops ≥ 1 options per App), App i registers the runners of App j
    iff j = i — under every interleaving of the concurrent starts. -/
theorem C13_concurrent_starts_own_runners (glen gcap nops napps : Nat) (hn : 1 ≤ nops) (s : StartSt)
    (hr : StartSteps (stdCfg false glen gcap nops napps) (startInit stdHeap (napps + 1)) s)
    (i : Nat) (hi : i < napps) (hd : startDone s i) (j : Nat) :
    SOpt.comps j ∈ s.applied i ↔ j = i := by
  rw [C13_concurrent_starts_isolated _ stdHeap (napps + 1) (stdCfg_wf glen gcap nops napps) s hr i hi hd]
  exact std_comps_mem glen gcap nops napps hn i j

open Ioc.Conc in
/-- What the argument order of `append` buys: with `append(globalOptions, ops...)` and ONE spare slot behind three global
    options (three app.Settings calls of one option each), the schedule "both Apps evaluate append, then both run their
    loops" makes App 0 apply the SetComponents option of App 1: the runners of App 1 are invoked by two starts, those of
    App 0 by none. -/
theorem C13_globals_first_counterexample :
    let c := stdCfg true 3 4 1 2
    let s := startRendezvous c (startInit stdHeap 3)
    StartSteps c (startInit stdHeap 3) s ∧ s.pos 0 = 4 ∧ s.pos 1 = 4 ∧
      s.applied 0 = [.other, .other, .other, .comps 1] ∧ s.applied 1 = [.other, .other, .other, .comps 1] ∧
      runsOf c s 0 = 0 ∧ runsOf c s 1 = 2 ∧ foreignOf c s 1 = 1 :=
  ⟨startRendezvous_sound _ _, by decide, by decide, by decide, by decide, by decide, by decide, by decide⟩

open Ioc.Conc in
/-- non-vacuity of the two theorems above: the same schedule under the code that exists (own options first), four Apps,
    three global options with a spare slot: a run of the system in which every App has left its loop, having applied its
    own SetComponents and the three global options; every runner is invoked by exactly one start, its own -/
example :
    let c := stdCfg false 3 4 1 4
    let s := startRendezvous c (startInit stdHeap 5)
    StartSteps c (startInit stdHeap 5) s ∧ startDone s 2 ∧ s.applied 2 = [.comps 2, .other, .other, .other] ∧
      (List.range 4).map (runsOf c s) = [1, 1, 1, 1] ∧ (List.range 4).map (foreignOf c s) = [0, 0, 0, 0] :=
  ⟨startRendezvous_sound _ _, ⟨⟨5 + 2, 4, 4⟩, by decide, by decide⟩, by decide, by decide, by decide⟩

/-! ### the REGENERATED package-level entry points (run.go)

    `ioc.Register` only remembers a `SetComponents` option; `ioc.Run` starts ONE App with the options of the call first and the
    remembered ones after them — a registry (factory, configure) chosen by the call is in place before the registered
    components, runners and closers among them, are added to it. -/
section entry
open Ioc.Go Ioc.Sem

theorem C13_code_ioc_Register (flag : String) (rf : Bool) (cs : Go.Val) (w : IRW) :
    run (iocPrims flag rf) Progs.ioc_Register [cs] w =
      some (.tuple [], { w with reg := w.reg ++ [.tuple [.str "SetComponents", cs]] }) :=
  iocRegister_sem flag rf cs w

theorem C13_code_ioc_Run (flag : String) (rf : Bool) (ops : List Go.Val) (w : IRW) :
    run (iocPrims flag rf) Progs.ioc_Run [.list ops] w =
      some (if rf then .tuple [.nil, .str "error"] else .tuple [.ref 0 1, .nil],
            { w with started := w.started ++ [ops ++ w.reg] }) :=
  iocRun_sem flag rf ops w

/-- the options that decide WHERE components go: `SetRegistry` / `SetFactory` replace what the App holds, `SetComponents`
    registers every component, in the order given, into the registry the App holds when the option runs, `Options` applies the
    given options once each in the order given -/
theorem C13_code_component_options (r f : Nat) (cs : List Go.Val) (ops : List Nat) (w : AW) :
    run aoptPrims Progs.aopt_SetRegistry [.ref r 2, .ref 0 1] w = some (.tuple [], { w with registry := r }) ∧
    run aoptPrims Progs.aopt_SetFactory [.ref f 3, .ref 0 1] w = some (.tuple [], { w with factory := f }) ∧
    run aoptPrims Progs.aopt_SetComponents [.list cs, .ref 0 1] w =
      some (.tuple [], { w with registered := w.registered ++ cs.map (fun c => (w.registry, c)) }) ∧
    run aoptPrims Progs.aopt_Options [.list (ops.map (fun i => Go.Val.ref i 5)), .ref 0 1] w =
      some (.tuple [], { w with applied := w.applied ++ ops }) :=
  ⟨setRegistry_sem r w, setFactory_sem f w, setComponents_sem cs w, options_sem ops w⟩

end entry

section apprun
open Ioc.Go Ioc.Sem

/-- App.Run, regenerated (interpretation Ioc.SemAppRun; `Fatalf` is kept as a call — it returns only when the log level is
    above Fatal): the options given are applied first, in the order given, then the package-level ones; then `initiate`,
    then — when it succeeded — `run` exactly once, whose error is returned as it is.  When `initiate` fails, Run either never
    returns or (Fatalf returned) goes on to `run`: it does not return initiate's error -/
theorem C13_code_App_Run (p : ARP) (ops : List Nat) (w : List ACall) :
    run (arPrims p) Progs.app_Run [optVals ops] w =
      (if p.initErr.isSome && !p.fatalReturns then none
       else some (encOptE p.runErr, w ++ (ops ++ p.globals).map ACall.option ++ [.initiate, .run])) :=
  appRun_sem p ops w

/-- App.initiate, regenerated: a missing configure / registry / factory is reported, in that order, before anything is set or
    registered; otherwise the factory gets the registry and the configure, and the App itself and the nine built-in
    processors are registered in the order written -/
theorem C13_code_initiate (p : AIP) (w : List ACall) :
    run (aiPrims p) Progs.app_initiate [] w =
      some (if !p.hasConf then (.str "missing configure", w)
            else if !p.hasReg then (.str "missing registry", w)
            else if !p.hasFac then (.str "missing factory", w)
            else (.nil, w ++ [.setRegistry, .setConfigure] ++ builtinOrder.map ACall.register)) :=
  initiate_sem p w

end apprun

/-- "only after the container is ready": Refresh (regenerated, `C10_code_Refresh`) asks the factory for every non-lazy name of
    the DEFINITION REGISTRY AS IT IS WHEN Refresh RUNS — definitions added by factory post-processors included — in sorted
    order, and stops at the first failing creation; `run` calls the runners only after it returned nil -/
theorem C13_code_Refresh_reads_registry (sort : (Nat → Nat → Bool) → List Nat → List Nat) (metas : List Nat)
    (lazy getFails : Nat → Bool) :
    Go.run (Sem.refreshPrims sort metas lazy getFails) Progs.fac_Refresh [] [] =
      some (if (Order.runLoop getFails (Sem.refreshNames sort metas lazy) []).2 then Sem.errN else .nil,
            (Order.runLoop getFails (Sem.refreshNames sort metas lazy) []).1) :=
  Sem.refresh_sem sort metas lazy getFails

end Ioc.C13
