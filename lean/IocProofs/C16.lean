/-
  C16 — Placeholders resolve to the configured value, else the default, and terminate.
  PROPERTY THEOREMS ONLY (lemmas live in IocProofs/Lemmas/Placeholder.lean).

  Model: Ioc.Placeholder (M7) — the scanner for `\${[^{}]*}`, strings.Replace(…, 1), the callback of
  configQuoteAwarePostProcessors (SplitN ":" 2, viper Get, presence test, ParseAny∘FormatAny of the default) and the
  loop of el.ReplaceAllContent as written, with the bound that the facts translator reads from the source
  (`Facts.replaceBound`).  Go panics are the explicit outcome `panic`; running out of fuel is `outOfFuel` ("hangs").
-/
import IocProofs.Lemmas.Placeholder
import IocProofs.Lemmas.PlaceholderLayers
import IocProofs.Lemmas.PlaceholderSources
import IocProofs.Lemmas.SemStages
import IocProofs.Lemmas.TagRound
import IocProofs.Lemmas.SemConfDefault
import IocProofs.Lemmas.SemTagScan
namespace Ioc.C16
open Ioc Ioc.Placeholder

/-! ### the source has a bound (regenerated fact); without it this file does not compile -/

theorem C16_bound_present : Facts.replaceBound.isSome = true := by decide

/-! ### the scanner and the replacement -/

/-- `findFirst` returns the LEFTMOST match of `${` [^{}]* `}`: the text splits around it, the content has no brace,
    and no match starts at any earlier position. -/
theorem C16_find_leftmost (s pre c post : Bytes) (h : findFirst s = some (pre, c, post)) :
    s = pre ++ matchText c ++ post ∧ braceFree c = true ∧
      ∀ p q, pre = p ++ q → q ≠ [] → tryHere (q ++ (matchText c ++ post)) = none :=
  findFirst_some s pre c post h

/-- … and it finds a match whenever there is one: `none` means no position starts a match. -/
theorem C16_find_complete (s : Bytes) (h : findFirst s = none) : ∀ p q, s = p ++ q → tryHere q = none :=
  findFirst_none s h

/-- strings.Replace(result, elr, r, 1) rewrites the regexp match itself: every occurrence of the matched text is a
    match, so the first occurrence of the text is the leftmost match. -/
theorem C16_replace_hits_match (s pre c post r : Bytes) (h : findFirst s = some (pre, c, post)) :
    replaceFirst (matchText c) r s = pre ++ r ++ post := by
  obtain ⟨e, bf, nm⟩ := findFirst_some s pre c post h
  rw [e]; exact replaceFirst_leftmost c r post bf pre nm

/-- One round of ReplaceAllContent (any callback `f`, bound not yet reached): the leftmost placeholder is replaced
    in place by the callback's answer. -/
theorem C16_step (f : Bytes → StepRes) (bound : Option Nat) (fuel round : Nat) (s pre c post r : Bytes)
    (hf : findFirst s = some (pre, c, post)) (hb : ∀ b, bound = some b → round < b) (hr : f c = .ok r) :
    loopF f bound (fuel + 1) round s = loopF f bound fuel (round + 1) (pre ++ r ++ post) :=
  loopF_step f bound fuel round s pre c post r hf hb hr

/-! ### the callback: configured value when present, else the default -/

/-- `${key}` / `${key:default}` with a configured (non-nil, non-empty) value: the formatted value, whatever the default. -/
theorem C16_present (cfg : Cfg) (key : Bytes) (dflt : Option Bytes) (content : Bytes) (v : CVal)
    (hs : splitColon content = (key, dflt)) (hg : get cfg key = .val (some v)) (hp : isAbsent (some v) = false) :
    repl cfg content = .ok (format v) :=
  repl_present cfg content key dflt v hs hg hp

/-- Absent key — Go nil, YAML null, an EMPTY map or an EMPTY list all count as absent: the answer depends on the default
    text only ("" without one). -/
theorem C16_absent (cfg : Cfg) (key : Bytes) (dflt : Option Bytes) (content : Bytes) (v : Option CVal)
    (hs : splitColon content = (key, dflt)) (hg : get cfg key = .val v)
    (ha : v = none ∨ v = some .null ∨ v = some (.map []) ∨ v = some (.list [])) :
    repl cfg content = defaultAnswer dflt := by
  refine repl_absent cfg content key dflt v hs hg ?_
  rcases ha with rfl | rfl | rfl | rfl <;> rfl

/-- the default: "" without a (non-empty) default text, else the text parsed and re-formatted -/
theorem C16_default_answer (d : Bytes) :
    defaultAnswer none = .ok [] ∧ defaultAnswer (some []) = .ok [] ∧ (d ≠ [] → defaultAnswer (some d) = normDefault d) := by
  refine ⟨rfl, rfl, ?_⟩
  intro h; cases d with
  | nil => exact absurd rfl h
  | cons _ _ => rfl

/-- the content splits at its first `:` -/
theorem C16_split (k d : Bytes) (hk : (58 : UInt8) ∉ k) :
    splitColon k = (k, none) ∧ splitColon (k ++ 58 :: d) = (k, some d) :=
  ⟨splitColon_key k hk, splitColon_key_default k d hk⟩

/-- A default that is not true/false, a number, a bracketed literal or quoted is used as it stands. -/
theorem C16_default_plain (d : Bytes) (h : plainDefault d = true) : normDefault d = .ok d :=
  normDefault_plain d h

/-- A default written in single or double quotes is used without the quotes (the container's literal syntax). -/
theorem C16_default_quoted (q : UInt8) (inner : Bytes) (hq : q = 39 ∨ q = 34) :
    normDefault (q :: (inner ++ [q])) = .ok inner :=
  normDefault_quoted q inner hq

example : plainDefault (ofString "some text: a,b") = true := by decide +kernel
example : normDefault (ofString "'quoted'") = .ok (ofString "quoted") := by decide +kernel
example : normDefault (ofString "TRUE") = .ok (ofString "true") := by decide +kernel
example : normDefault (ofString "1.10") = .ok (ofString "1.1") := by decide +kernel
example : normDefault (ofString "007") = .ok (ofString "7") := by decide +kernel
example : normDefault (ofString "+1234567") = .ok (ofString "1.234567e+06") := by decide +kernel
example : normDefault (ofString "0.00001") = .ok (ofString "1e-05") := by decide +kernel

/-! ### no placeholder survives -/

/-- A result that is a value contains no placeholder any more (for every callback, bound, fuel). -/
theorem C16_no_placeholder_left (cfg : Cfg) (s r : Bytes) (h : process cfg s = .value r) : findFirst r = none := by
  unfold process at h
  split at h
  · rename_i hn; simp only [Res.value.injEq] at h; subst h; exact hn
  · exact loopF_value_no_match (repl cfg) Facts.replaceBound _ _ s r h

/-! ### termination -/

/-- Brace-free answers (any callback): each round removes one `{` and adds none, so the loop stops by itself —
    WITHOUT any bound — after at most (number of `{`) rounds. -/
theorem C16_terminates_safe (f : Bytes → StepRes)
    (safe : ∀ c r, braceFree c = true → f c = .ok r → braceFree r = true) (s : Bytes) (fuel round : Nat)
    (hfuel : s.count 123 < fuel) :
    loopF f none fuel round s ≠ .outOfFuel :=
  loopF_safe f safe fuel round s hfuel

/-- … and then a bound of at least that many rounds never fires: the bounded and the unbounded loop agree. -/
theorem C16_safe_bound_never_fires (f : Bytes → StepRes)
    (safe : ∀ c r, braceFree c = true → f c = .ok r → braceFree r = true) (b : Nat) (s : Bytes) (fuel : Nat)
    (hb : s.count 123 ≤ b) :
    loopF f (some b) fuel 0 s = loopF f none fuel 0 s :=
  loopF_bound_irrelevant f safe b fuel 0 s (by omega)

/-- `safe` holds for the real callback under the EMPTY configuration (every placeholder is answered by its default, and
    the default of a brace-free content is brace-free) … -/
theorem C16_empty_config_safe (c r : Bytes) (hc : braceFree c = true) (h : repl [] c = .ok r) : braceFree r = true :=
  repl_nil_safe c r hc h

/-- … so under the empty configuration EVERY tag text resolves without any bound. -/
theorem C16_empty_config_terminates_unbounded (s : Bytes) (fuel round : Nat) (hfuel : s.count 123 < fuel) :
    loop [] none fuel round s ≠ .outOfFuel :=
  loopF_safe (repl []) repl_nil_safe fuel round s hfuel

example : ∀ c r, braceFree c = true → (fun _ : Bytes => StepRes.ok (ofString "v")) c = .ok r → braceFree r = true := by
  intro c r _ h; simp only [StepRes.ok.injEq] at h; subst h; decide

/-- EVERY configuration, every tag text: with the bound found in the source the loop as written ends in a value or an
    error after at most b+1 rounds — never in `outOfFuel`. -/
theorem C16_terminates (cfg : Cfg) (s : Bytes) (b : Nat) (hb : Facts.replaceBound = some b) :
    ∀ fuel, fuel ≥ b + 2 → loop cfg Facts.replaceBound fuel 0 s ≠ .outOfFuel := by
  intro fuel hfuel
  rw [hb]
  exact loopF_terminates (repl cfg) b fuel 0 s (by omega) (by omega)

/-- the processor never hangs (closed form: uses `C16_bound_present`, so it breaks when the bound is removed) -/
theorem C16_process_terminates (cfg : Cfg) (s : Bytes) : process cfg s ≠ .outOfFuel := by
  obtain ⟨b, hb⟩ := Option.isSome_iff_exists.mp C16_bound_present
  unfold process
  split
  · simp
  · unfold replaceAll
    have := C16_terminates cfg s b hb (fuelFor Facts.replaceBound) (by rw [hb]; simp [fuelFor])
    exact this

/-- `a: "${a}"` with the tag `${a}`: ends in an error. -/
theorem C16_cycle_errors (b : Nat) (hb : Facts.replaceBound = some b) : process selfCfg selfTag = .error := by
  have hf : findFirst selfTag ≠ none := by rw [self_find]; simp
  unfold process
  split
  · rename_i h; exact absurd h hf
  · unfold replaceAll loop
    rw [hb]
    exact self_errors b (fuelFor (some b)) 0 (by omega) (by simp [fuelFor])

/-- Why the bound matters: without it the same configuration exhausts EVERY fuel (the defect D11 that was repaired). -/
theorem C16_diverges_unbounded (fuel round : Nat) : loop selfCfg none fuel round selfTag = .outOfFuel :=
  self_diverges fuel round

/-! ### structured tags: several placeholders, nested inside keys and defaults to any depth -/

/-- For a tag built from brace-free literals and placeholders (keys and defaults being tags again) whose replacements
    are brace-free, resolution computes exactly the inner-first substitution `eval`; in particular an empty map / list
    behaves like an absent key because `eval` goes through the same callback (`C16_absent`). -/
theorem C16_structured (cfg : Cfg) (t : Tag) (v : Bytes) (h : eval cfg t = some v)
    (hb : ∀ b, Facts.replaceBound = some b → phCount t ≤ b) :
    replaceAll cfg (render t) = .value v := by
  obtain ⟨b, hb'⟩ := Option.isSome_iff_exists.mp C16_bound_present
  have hle := hb b hb'
  unfold replaceAll loop
  exact loopF_structured (repl cfg) Facts.replaceBound t v h hb _ (by rw [hb']; simp [fuelFor]; omega)

/-- the same for any callback and any bound (or none) -/
theorem C16_structured_any (f : Bytes → StepRes) (bound : Option Nat) (t : Tag) (v : Bytes)
    (h : evalF f t = some v) (hb : ∀ b, bound = some b → phCount t ≤ b) (fuel : Nat) (hfuel : phCount t < fuel) :
    loopF f bound fuel 0 (render t) = .value v :=
  loopF_structured f bound t v h hb fuel hfuel

/-! ### non-vacuity -/

example : render exTag = ofString "x${a${p}}-${zz:${n}}${e:dflt}${el}${m.k}" := by decide +kernel
example : eval exCfg exTag = some (ofString "xhit-42dflttrue") := by decide +kernel
example : ∀ b, Facts.replaceBound = some b → phCount exTag ≤ b := by decide
example : process exCfg (render exTag) = .value (ofString "xhit-42dflttrue") := by decide +kernel
example : process exCfg (ofString "${m}${zz}|${}") =
    .value (ofString "{\"k\":true}|{\"ab\":\"hit\",\"el\":[],\"m\":{\"k\":true},\"n\":42,\"p\":\"b\"}") := by decide +kernel
example : findFirst (ofString "a$${x{${k:d}}") = some (ofString "a$${x{", ofString "k:d", ofString "}") := by decide +kernel
example : repl exCfg (ofString "e:dd") = .ok (ofString "dd") ∧ repl exCfg (ofString "zz:dd") = .ok (ofString "dd") ∧
    repl exCfg (ofString "el") = .ok [] ∧ repl exCfg (ofString "z") = .ok [] ∧ repl exCfg (ofString "zz") = .ok [] := by
  decide +kernel

/-! indirect placeholders: a configured value that carries placeholders is processed as if the tag had been written
    with it — a key reached twice in one tag (repetition, a diamond, inside a default, inside another placeholder's key)
    resolves every time; only a real cycle ends in the error -/
example : process diaCfg (ofString "${base}/bin:${base}/lib") = .value (ofString "/opt/app/bin:/opt/app/lib") := by decide +kernel
example : process diaCfg (ofString "${bin}:${lib}") = .value (ofString "/opt/app/bin:/opt/app/lib") := by decide +kernel
example : process diaCfg (ofString "${twice}${zz:${base}}") = .value (ofString "/opt/app:/opt/app/opt/app") := by decide +kernel
example : process diaCfg (ofString "${k${sel}}${k${sel}}") = .value (ofString "/opt/app!/opt/app!") := by decide +kernel
example : process diaCfg (ofString "${left}") = .error := by decide +kernel


/-! ### the configuration changes between two resolutions (`Layers`: what was handed to Configure.Set, over the documents)

    A placeholder is replaced by "the configured value of key": after Set that is what was set — at the path, below it,
    above it, in any letter case.  The lookup is a function of the two layers as they are NOW (nothing remembers an earlier
    answer, present or absent), and with nothing set it is the lookup every theorem above speaks about. -/

/-- With nothing set the layered model IS the model of the theorems above: same lookup, same callback, same result. -/
theorem C16_no_set (cfg : Cfg) :
    (∀ key, (Layers.mk [] cfg).get key = get cfg key) ∧ replL ⟨[], cfg⟩ = repl cfg ∧
      ∀ s, processL ⟨[], cfg⟩ s = process cfg s :=
  ⟨get_no_set cfg, replL_no_set cfg, processL_no_set cfg⟩

/-- Set, then a lookup of the same path written in any letter case: the value that was set (any value but nil), whatever
    was configured, set or looked up before — also when the key was ABSENT before. -/
theorem C16_set_get (l : Layers) (path path' : Bytes) (v : CVal) (hp : path' ≠ []) (hc : lower path' = lower path)
    (hv : lowerKeys v ≠ .null) : (l.set path v).get path' = .val (some (lowerKeys v)) :=
  set_get l path path' v hp hc hv

/-- Set ABOVE, lookup BELOW: after Set("a", map) a key "a.q" that the map gives a value resolves to that value
    (`svc.url` after Set("svc", {url: …}); `cache.ttl`, absent before, after Set("cache", {ttl: 60})). -/
theorem C16_set_seen_below (l : Layers) (a q : Bytes) (vm : Cfg) (w : CVal)
    (h : searchOver (lowerKeysM vm) (splitDots (lower q)) = some w) :
    (l.set a (.map vm)).get (a ++ 46 :: q) = .val (some w) :=
  set_seen_below l a q vm w h

/-- Set BELOW, lookup ABOVE: after Set("a.q", v) the ancestor `a` answers with a map in which the rest of the path leads
    to v. -/
theorem C16_set_seen_through_ancestor (l : Layers) (a q : Bytes) (ha : a ≠ []) (v : CVal) :
    ∃ sub, (l.set (a ++ 46 :: q) v).get a = .val (some (.map sub)) ∧
      searchOver sub (splitDots (lower q)) = nilToNone (lowerKeys v) :=
  set_seen_through_ancestor l a q ha v

/-- … and the placeholder: `${key}` / `${key:default}` whose path has a present value in the override layer is replaced by
    that value, formatted — not by an earlier answer, not by the default. -/
theorem C16_set_present (l : Layers) (content key : Bytes) (dflt : Option Bytes) (v : CVal) (hk : key ≠ [])
    (hs : splitColon content = (key, dflt)) (h : searchOver l.over (splitDots (lower key)) = some v)
    (hp : isAbsent (some v) = false) : replL l content = .ok (format v) :=
  replL_of_over l content key dflt v hk hs h hp

/-- A second resolution of a tag is a first resolution under the configuration as it is then. -/
theorem C16_resolve_again_current (cfg : Cfg) (ops : List (Bytes × CVal)) (tags : List Bytes) :
    (resolveTwice cfg ops tags).2 = tags.map (processL ((Layers.mk [] cfg).setAll ops)) ∧
      (resolveTwice cfg ops tags).1 = tags.map (process cfg) := by
  refine ⟨rfl, ?_⟩
  simp only [resolveTwice]
  exact List.map_congr_left (fun s _ => processL_no_set cfg s)

def svcCfg : Cfg := [(ofString "svc", .map [(ofString "url", .str (ofString "http://old")), (ofString "name", .str (ofString "billing"))])]
def svcTags : List Bytes := [ofString "${svc.url}/${svc.name}?ttl=${cache.ttl:30}", ofString "${SVC.URL}"]
example : resolveTwice svcCfg [(ofString "svc", .map [(ofString "URL", .str (ofString "http://new")), (ofString "name", .str (ofString "billing"))]),
      (ofString "cache", .map [(ofString "ttl", .num (ofString "60"))])] svcTags =
    ([.value (ofString "http://old/billing?ttl=30"), .value (ofString "http://old")],
     [.value (ofString "http://new/billing?ttl=60"), .value (ofString "http://new")]) := by decide +kernel
example : resolveTwice svcCfg [(ofString "SVC.URL", .str (ofString "http://new")), (ofString "cache.ttl", .num (ofString "60"))] svcTags =
    ([.value (ofString "http://old/billing?ttl=30"), .value (ofString "http://old")],
     [.value (ofString "http://new/billing?ttl=60"), .value (ofString "http://new")]) := by decide +kernel
example : searchOver (lowerKeysM [(ofString "URL", .str (ofString "http://new"))]) (splitDots (lower (ofString "url"))) =
    some (.str (ofString "http://new")) := by rfl
/-! ### known findings pinned by the model (KF-C16-1, KF-C16-2): Go panics, not errors -/

/-- a default that is a lone quote character: strconv2.ParseAny slices `val[1:0]` -/
theorem C16_default_lone_quote_panics_counterexample :
    process [] (ofString "${x:'}") = .panic ∧ process [] (ofString "${x:\"}") = .panic := by
  constructor <;> decide +kernel

/-- a negative index into a configured list: viper indexes `sourceSlice[-1]` -/
theorem C16_negative_index_panics_counterexample :
    process [(ofString "l", .list [.num (ofString "1")])] (ofString "${l.-1}") = .panic := by
  decide +kernel

/-! ### the REGENERATED loop and quote stage

    `el_ReplaceAllContent` is the syntax tree of elHelper.ReplaceAllContent as it is in /repo now, `quote_PostProcessProperties`
    that of configQuoteAwarePostProcessors.PostProcessProperties INCLUDING the function literal it hands to the loop.
    Under the interpretation Ioc.SemStages (the regexp search, strings.Replace, SplitN, Configure.Get, ParseAny, FormatAny are
    parameters) they are `elLoop` and `stageLoop (quoteNode …)`; the byte-level model of this file (`loopF`, `repl`) is the
    instance of the same loop and the same decision at the byte-level operations. -/
section code
open Ioc.Go Ioc.Sem

/-- ReplaceAllContent for EVERY string-operation table, callback (which may change the world), bound and input: the same
    rounds in the same order — search, stop when nothing matches, THEN the bound check, then the callback on the content,
    the first callback error ends it, else replace the first occurrence of the matched text and go round again -/
theorem C16_code_ReplaceAllContent {σ : Type} (ops : ElOps String) (cb : String → σ → Except String String × σ)
    (bound fuel : Nat) (hE : ∀ s, ops.isEmpty s = (s == "")) (s : String) (w : σ) :
    run (elPrims ops cb bound fuel) Progs.el_ReplaceAllContent [.str s, .ref 0 40] w =
      (elLoop ops cb "unresolved" bound fuel 0 s w).map (fun r => (encElRes r.1, r.2)) :=
  el_sem ops cb bound hE fuel s w

/-- … and it ends, whatever the callback answers: `bound + 1` rounds of fuel always suffice -/
theorem C16_code_loop_terminates {σ S ε : Type} (ops : ElOps S) (cb : S → σ → Except ε S × σ) (be : ε) (bound : Nat) (s : S) (w : σ) :
    (elLoop ops cb be bound (bound + 1) 0 s w).isSome = true :=
  elLoop_terminates bound ops cb be (bound + 1) 0 s w (by omega) (by omega)

/-- a callback that fails is the end: nothing is searched or replaced after it, its error is the result -/
theorem C16_code_loop_first_error {σ S ε : Type} (ops : ElOps S) (cb : S → σ → Except ε S × σ) (be : ε) (bound fuel round : Nat)
    (s : S) (w w' : σ) (e : ε) (hm : ops.isEmpty (ops.find s) = false) (hb : round < bound)
    (hc : cb (ops.content (ops.find s)) w = (.error e, w')) :
    elLoop ops cb be bound (fuel + 1) round s w = some (.error e, w') := by
  have : ¬ round ≥ bound := by omega
  simp [elLoop, hm, this, hc]

/-- the quote stage with its function literal -/
theorem C16_code_quote_stage (props : List SProp) (ops : ElOps String) (splitN : String → String × Option String)
    (cfg : String → Option QV) (lenOf : Nat → Nat) (parse : String → Except String Nat) (fmtAny : Nat → Except String String)
    (bound fuel : Nat) (hE : ∀ s, ops.isEmpty s = (s == "")) (hfuel : bound + 1 ≤ fuel) (n : Nat) (w : SW) :
    run (quotePrims props ops splitN cfg lenOf parse fmtAny bound fuel) Progs.quote_PostProcessProperties
        [.list ((List.range' 0 n).map (fun i => Go.Val.ref i 20)), .str "c", .str "n"] w =
      some (stageResult (stageLoop (quoteNode props ops splitN cfg lenOf parse fmtAny bound fuel) (List.range' 0 n) w).2,
            (stageLoop (quoteNode props ops splitN cfg lenOf parse fmtAny bound fuel) (List.range' 0 n) w).1) :=
  quote_sem props ops splitN cfg lenOf parse fmtAny bound fuel hE hfuel n w

/-- the byte-level string operations of this file's model -/
def bytesOps : ElOps Bytes where
  find s := match findFirst s with
    | none => []
    | some (_, c, _) => matchText c
  isEmpty s := s.isEmpty
  content elr := (elr.drop 2).dropLast
  replace1 s old new := replaceFirst old new s

def stepToExcept : StepRes → Except Res Bytes
  | .ok r => .ok r
  | .err => .error .error
  | .panic => .error .panic
  | .unmodelled => .error .unmodelled

def loopResult : Option (Except Res Bytes × Unit) → Res
  | none => .outOfFuel
  | some (.ok r, _) => .value r
  | some (.error e, _) => e

theorem bytesOps_content (c : Bytes) : bytesOps.content (matchText c) = c := by
  simp [bytesOps, matchText]

/-- the byte-level loop `loopF` (with the bound) IS `elLoop` at the byte-level operations -/
theorem C16_loopF_is_elLoop (f : Bytes → StepRes) (b : Nat) : ∀ (fuel round : Nat) (s : Bytes),
    loopF f (some b) fuel round s =
      loopResult (elLoop bytesOps (fun c (_ : Unit) => (stepToExcept (f c), ())) Res.error b fuel round s ()) := by
  intro fuel
  induction fuel with
  | zero => intro round s; rfl
  | succ n ih =>
    intro round s
    simp only [loopF, elLoop]
    cases hff : findFirst s with
    | none => simp [bytesOps, hff, loopResult]
    | some m =>
      obtain ⟨pre, c, post⟩ := m
      have hfind : bytesOps.find s = matchText c := by simp [bytesOps, hff]
      have hne : bytesOps.isEmpty (matchText c) = false := by simp [bytesOps, matchText]
      simp only [hfind, hne, Bool.false_eq_true, if_false, bytesOps_content, hitBound]
      by_cases hb : round ≥ b
      · simp [hb, loopResult]
      · simp only [hb, decide_false, Bool.false_eq_true, if_false]
        cases hf : f c with
        | ok r =>
          have e1 : stepToExcept (.ok r) = .ok r := rfl
          simp only [e1]
          exact ih (round + 1) (replaceFirst (matchText c) r s)
        | err =>
          have e1 : stepToExcept .err = .error Res.error := rfl
          simp only [e1, loopResult]
        | panic =>
          have e1 : stepToExcept .panic = .error Res.panic := rfl
          simp only [e1, loopResult]
        | unmodelled =>
          have e1 : stepToExcept .unmodelled = .error Res.unmodelled := rfl
          simp only [e1, loopResult]

/-- the byte-level callback `repl` takes the decision `quoteDecision` (the decision of the regenerated function literal,
    `quoteCb`): a present value is formatted, an absent one (nil, empty map, empty list) falls to the default, an empty or
    missing default gives the empty text, a default that does not parse is the error -/
theorem C16_repl_is_quoteDecision (cfg : Cfg) (content : Bytes) (v : Option CVal)
    (hget : get cfg (splitColon content).1 = .val v) :
    repl cfg content =
      match quoteDecision (ε := StepRes) (isAbsent v) (formatOpt v) (splitColon content).2 (fun d => d.isEmpty)
              (fun d => match normDefault d with | .ok r => .ok r | e => .error e) with
      | .error e => e
      | .ok none => .ok []
      | .ok (some t) => .ok t := by
  unfold repl quoteDecision
  rcases hs : splitColon content with ⟨key, dflt⟩
  rw [hs] at hget
  simp only [hget]
  cases hab : isAbsent v with
  | false => simp
  | true =>
    simp only [if_true]
    cases dflt with
    | none => simp [defaultAnswer]
    | some d =>
      cases hd : d.isEmpty with
      | true => simp [defaultAnswer, hd]
      | false =>
        simp only [defaultAnswer, hd, Bool.false_eq_true, if_false]
        cases normDefault d <;> simp [Except.map]

end code

/-! ### from the tag TEXT (seventh round): the arguments are cut off OUTSIDE the placeholders -/

/-- A tag text `v,name=items,…` whose value part `v` is bracket-balanced with its commas inside brackets only - in
    particular every comma inside a `${…}` / `#{…}` block, nested to any depth, also one that follows an inner `}` - reaches
    the placeholder processor with exactly `v` as its TagStr: the text is processed as `v` alone is. -/
theorem C16_arguments_cut_outside (cfg : Cfg) (v : Bytes) (as : List (Bytes × List Bytes))
    (hv : Ioc.Tag.WFpre Ioc.Tag.cComma Ioc.Tag.isLB Ioc.Tag.isRB v 0 = true) (has : ∀ a ∈ as, Ioc.Tag.WFArg a) :
    processText cfg (Ioc.Tag.render v as) = some (v, process cfg v) := by
  simp [processText, Ioc.Tag.parse?_render v as hv has]

/-- … and the parser never panics on the way: every tag text reaches the processor. -/
theorem C16_text_total (cfg : Cfg) (text : Bytes) : ∃ v, processText cfg text = some (v, process cfg v) := by
  obtain ⟨v, a, h⟩ := Ioc.Tag.parse?_total text
  exact ⟨v, by simp [processText, h]⟩

def motdCfg : Cfg := [(ofString "lang", .str (ofString "de")),
  (ofString "motd", .map [(ofString "de", .str (ofString "Hallo, Fremder"))]),
  (ofString "tier", .str (ofString "gold")), (ofString "quota", .map [(ofString "gold", .num (ofString "500"))])]

example : Ioc.Tag.WFpre Ioc.Tag.cComma Ioc.Tag.isLB Ioc.Tag.isRB (ofString "${motd.${lang}:Welcome, stranger}") 0 = true := by decide
example : Ioc.Tag.render (ofString "${motd.${lang}:Welcome, stranger}") [(ofString "required", [[]])]
    = ofString "${motd.${lang}:Welcome, stranger},required=" := by decide
example : processText motdCfg (ofString "${motd.${lang}:Welcome, stranger},required") =
    some (ofString "${motd.${lang}:Welcome, stranger}", .value (ofString "Hallo, Fremder")) := by decide +kernel
example : processText motdCfg (ofString "${motd.${nolang:fr}:Welcome, stranger},required=true,validate=required") =
    some (ofString "${motd.${nolang:fr}:Welcome, stranger}", .value (ofString "Welcome, stranger")) := by decide +kernel
example : processText motdCfg (ofString "#{max(${low:1},${quota.${tier}:100})},validate=min=1") =
    some (ofString "#{max(${low:1},${quota.${tier}:100})}", .value (ofString "#{max(1,500)}")) := by decide +kernel

/-! ### as written (eighth round): the text a tag resolves to, written as a tag, is handed on unchanged

  "The tag is then processed as if it had been written with the replacement text": the placeholder stage writes TagVal, every
  later stage (expression, value, validate) reads TagVal and the arguments only.  So it is enough that the tag `T'` written
  with the text `T` resolves to leaves the placeholder stage with that very text - under EVERY configuration, because it
  holds no placeholder any more.  (What the later stages read is the regenerated fact of `C18_code_expr_reads_quote_result`
  and, for whole Apps, the oracle `placeholder-as-written`: two real starts, `T` against `T'`.) -/

/-- If `T` resolves to the text `r`, the tag written `r` resolves to `r` (whatever the configuration is then): both
    properties carry the same TagVal into the later stages. -/
theorem C16_as_written (cfg cfg' : Cfg) (s r : Bytes) (h : process cfg s = .value r) : process cfg' r = .value r := by
  have hn := C16_no_placeholder_left cfg s r h
  unfold process
  rw [hn]

/-- … also from the tag TEXT with the same arguments behind: when the value part `v` resolves to `r` and `r` is
    bracket-balanced with its commas inside brackets (otherwise NO written tag has the value part `r`), the text
    `r,args` reaches the later stages with TagStr = TagVal = `r` and the arguments of `v,args`. -/
theorem C16_as_written_text (cfg : Cfg) (v r : Bytes) (as : List (Bytes × List Bytes))
    (hv : Ioc.Tag.WFpre Ioc.Tag.cComma Ioc.Tag.isLB Ioc.Tag.isRB v 0 = true)
    (hr : Ioc.Tag.WFpre Ioc.Tag.cComma Ioc.Tag.isLB Ioc.Tag.isRB r 0 = true) (has : ∀ a ∈ as, Ioc.Tag.WFArg a)
    (h : process cfg v = .value r) :
    processText cfg (Ioc.Tag.render v as) = some (v, .value r) ∧
    processText cfg (Ioc.Tag.render r as) = some (r, .value r) := by
  rw [C16_arguments_cut_outside cfg v as hv has, C16_arguments_cut_outside cfg r as hr has, h,
    C16_as_written cfg cfg v r h]
  exact ⟨rfl, rfl⟩

def cacheCfg : Cfg := [(ofString "region", .str (ofString "eu")),
  (ofString "cache", .map [(ofString "ttl", .str (ofString "#{60*60}")), (ofString "label", .str (ofString "#{'cache-'+'${region}'}"))])]

-- the expression reaches the tag only through the configured value: nothing in the written tag says "expression"
example : process cacheCfg (ofString "${cache.ttl}") = .value (ofString "#{60*60}") := by decide +kernel
example : process cacheCfg (ofString "${cache.label}") = .value (ofString "#{'cache-'+'eu'}") := by decide +kernel
example : process cacheCfg (ofString "#{60*60}") = .value (ofString "#{60*60}") := by decide +kernel
example : Ioc.Tag.WFpre Ioc.Tag.cComma Ioc.Tag.isLB Ioc.Tag.isRB (ofString "#{'cache-'+'eu'}") 0 = true := by decide
example : processText cacheCfg (ofString "${cache.ttl},validate=min=1") = some (ofString "${cache.ttl}", .value (ofString "#{60*60}")) := by
  decide +kernel

/-! ### sources merged after the start (ninth round): the configured value is the one the binder holds NOW

    `Conf` is the library's default configure as `C16_code_configure_Default` reads it off the source: a loader list and the
    viper binder itself.  Configure.SetConfig hands a document straight to the binder (viper.MergeConfig into what it holds),
    AddLoaders + Initialize loads every loader again; a lookup is a function of the binder's two layers as they are then -
    nothing between the configure and the binder remembers what a key resolved to before. -/

/-- A second resolution of a tag, after any sequence of SetConfig / AddLoaders + Initialize / Set, is a first resolution
    under the layers those steps leave; the first one is the resolution under the base document. -/
theorem C16_sources_resolve_again_current (base : Cfg) (steps : List Step) (tags : List Bytes) :
    (resolveAround base steps tags).2 = tags.map (processL ((Conf.start base).steps steps).layers) ∧
      (resolveAround base steps tags).1 = tags.map (process (mergeDoc [] base)) := by
  refine ⟨rfl, ?_⟩
  simp only [resolveAround, start_layers]
  exact List.map_congr_left (fun s _ => processL_no_set _ s)

/-- A document that says `key: v` (the nested form of the dotted path, as insensitiviseMap leaves it), merged with SetConfig
    at ANY point of a history: unless the binder holds a map at that very path (viper keeps a map against a scalar) and unless
    a Set stands in front of the path, the lookup of the key - in any letter case - answers v from then on, whatever it
    answered before. -/
theorem C16_merged_value_seen (c : Conf) (key : Bytes) (hk : key ≠ []) (v : CVal) (doc : Cfg)
    (hdoc : lowerKeysM doc = pathDoc (splitDots (lower key)) v)
    (ho : searchOver c.layers.over (splitDots (lower key)) = none) (hs : shadowed c.layers.over (splitDots (lower key)) = false)
    (hm : mapAt c.layers.conf (splitDots (lower key)) = false) :
    (c.step (.setConfig doc)).layers.get key = .val (nilToNone v) := by
  rw [step_setConfig_layers, get_of_conf ⟨c.layers.over, mergeDoc c.layers.conf doc⟩ key hk ho hs]
  simp only [mergeDoc, hdoc]
  exact search_merge_pathDoc _ (splitDots_ne_nil _) v _ hm

/-- … the same for a source added with AddLoaders and loaded by the next Initialize: it is merged LAST, after every loader
    the configure already had, so the condition speaks about what those leave. -/
theorem C16_added_source_seen (c : Conf) (key : Bytes) (hk : key ≠ []) (v : CVal) (doc : Cfg)
    (hdoc : lowerKeysM doc = pathDoc (splitDots (lower key)) v)
    (ho : searchOver c.layers.over (splitDots (lower key)) = none) (hs : shadowed c.layers.over (splitDots (lower key)) = false)
    (hm : mapAt (c.loaders.foldl mergeDoc c.layers.conf) (splitDots (lower key)) = false) :
    (c.step (.addLoader doc)).layers.get key = .val (nilToNone v) := by
  rw [step_addLoader_layers, get_of_conf ⟨c.layers.over, mergeDoc (c.loaders.foldl mergeDoc c.layers.conf) doc⟩ key hk ho hs]
  simp only [mergeDoc, hdoc]
  exact search_merge_pathDoc _ (splitDots_ne_nil _) v _ hm

/-- … and the placeholder: after the merge `${key}` / `${key:default}` is replaced by the merged value, formatted - not by
    what the key resolved to before the merge, not by the default. -/
theorem C16_merged_value_replaces (c : Conf) (content key : Bytes) (dflt : Option Bytes) (v : CVal) (doc : Cfg) (hk : key ≠ [])
    (hsp : splitColon content = (key, dflt)) (hdoc : lowerKeysM doc = pathDoc (splitDots (lower key)) v)
    (ho : searchOver c.layers.over (splitDots (lower key)) = none) (hs : shadowed c.layers.over (splitDots (lower key)) = false)
    (hm : mapAt c.layers.conf (splitDots (lower key)) = false) (hp : isAbsent (some v) = false) :
    replL (c.step (.setConfig doc)).layers content = .ok (format v) := by
  have hv : nilToNone v = some v := by cases v <;> simp_all [nilToNone, isAbsent]
  rw [step_setConfig_layers]
  apply replL_of_conf ⟨c.layers.over, mergeDoc c.layers.conf doc⟩ content key dflt v hk hsp ho hs _ hp
  simp only [mergeDoc, hdoc]
  rw [← hv]
  exact search_merge_pathDoc _ (splitDots_ne_nil _) v _ hm

def regionCfg : Cfg := [(ofString "region", .str (ofString "us")), (ofString "greeting", .str (ofString "hello from ${region}"))]
def regionTags : List Bytes := [ofString "${region:none}", ofString "${greeting}", ofString "/srv/${region:none}/${REGION}.log"]
def regionEu : Cfg := [(ofString "region", .str (ofString "eu"))]

-- the hypotheses of C16_merged_value_seen hold for the running configure of the example and the document `region: eu`
example : lowerKeysM regionEu = pathDoc (splitDots (lower (ofString "REGION"))) (.str (ofString "eu")) := by rfl
example : searchOver (Conf.start regionCfg).layers.over (splitDots (lower (ofString "REGION"))) = none ∧
    shadowed (Conf.start regionCfg).layers.over (splitDots (lower (ofString "REGION"))) = false ∧
    mapAt (Conf.start regionCfg).layers.conf (splitDots (lower (ofString "REGION"))) = false := by decide
example : resolveAround regionCfg [.setConfig regionEu] regionTags =
    ([.value (ofString "us"), .value (ofString "hello from us"), .value (ofString "/srv/us/us.log")],
     [.value (ofString "eu"), .value (ofString "hello from eu"), .value (ofString "/srv/eu/eu.log")]) := by decide +kernel
example : resolveAround regionCfg [.addLoader regionEu] regionTags =
    ([.value (ofString "us"), .value (ofString "hello from us"), .value (ofString "/srv/us/us.log")],
     [.value (ofString "eu"), .value (ofString "hello from eu"), .value (ofString "/srv/eu/eu.log")]) := by decide +kernel
-- Initialize loads the base document again: after SetConfig(region: eu), a loader that does not mention the key brings `us` back
example : (resolveAround regionCfg [.setConfig regionEu, .addLoader [(ofString "other", .str (ofString "x"))]] regionTags).2 =
    [.value (ofString "us"), .value (ofString "hello from us"), .value (ofString "/srv/us/us.log")] := by decide +kernel
-- what was Set stays in front of every source
example : (resolveAround regionCfg [.set (ofString "Region") (.str (ofString "ap")), .setConfig regionEu] regionTags).2 =
    [.value (ofString "ap"), .value (ofString "hello from ap"), .value (ofString "/srv/ap/ap.log")] := by decide +kernel
-- viper keeps a map against a scalar (the condition `mapAt … = false` of the theorem is needed)
example : (resolveAround [(ofString "region", .map [(ofString "name", .str (ofString "us"))])] [.setConfig regionEu]
    [ofString "${region.name}", ofString "${region}"]).2 = [.value (ofString "us"), .value (ofString "{\"name\":\"us\"}")] := by decide +kernel

/-- configure.Default / NewConfigure / the setters, regenerated (interpretation Ioc.SemConfDefault): the default configure has
    ONE loader, the command-line loader over os.Args, and its binder is the viper binder for yaml ITSELF (no layer between
    the configure and the binder: what `SetConfig` merges and `Set` writes is what `Get` reads); SetLoaders replaces,
    AddLoaders appends in the order given, SetBinder replaces the binder -/
theorem C16_code_configure_Default (w : Sem.CfgObj) (ls : List Go.Val) (b : Go.Val) :
    Go.run Sem.cdPrims Progs.cfg_Default [] w =
      some (.ref 0 180, ⟨[.tuple [.str "ArgsLoader", .str "os.Args"]], .tuple [.str "ViperBinder", .str "yaml"]⟩) ∧
    Go.run Sem.cdPrims Progs.cfg_NewConfigure [] w = some (.ref 0 180, ⟨[], .nil⟩) ∧
    Go.run Sem.cdPrims Progs.cfg_SetLoaders [.list ls] w = some (.tuple [], { w with loaders := ls }) ∧
    Go.run Sem.cdPrims Progs.cfg_AddLoaders [.list ls] w = some (.tuple [], { w with loaders := w.loaders ++ ls }) ∧
    Go.run Sem.cdPrims Progs.cfg_SetBinder [b] w = some (.tuple [], { w with binder := b }) :=
  ⟨Sem.cfgDefault_sem w, Sem.newConfigure_sem w, (Sem.cfgSetters_sem w ls b).1, (Sem.cfgSetters_sem w ls b).2.1,
   (Sem.cfgSetters_sem w ls b).2.2⟩

/-- the `prop` shorthand IS a placeholder: the value scanner's ExtractHandler (regenerated, `C11_code_valueExtract`) wraps
    EVERY `prop` key — whatever it starts with, nested placeholders included — into `${key}` followed by the argument text -/
theorem C16_code_prop_is_placeholder (o : Sem.VXOps) :
    Go.run (Sem.vxPrims o) Progs.scan_valueExtract [.ref 0 1, .ref 0 60] () =
      (Sem.valueExtractS o).map (fun r => (Sem.encExtract r, ())) :=
  Sem.valueExtract_sem o

end Ioc.C16
