/-
  C03 — no stale version: when post-processors substitute a component (early reference and/or after initialization), no
  holder keeps a version other than the published one; if a finished holder already has the early version and
  InitializeComponent returns another object, the start FAILS (it never silently keeps both).

  About the Go code
    container/factory/factory.go:164-250   doCreateComponent: early exposure, populate, InitializeComponent, the version check
                                           (lines 222-247: compare with the early reference, look for holders that have it)
    container/factory/factory.go:285-299   getEarlyBeanReference
    container/support/singleton_component_registry.go   the three cache levels
    component_definition/property.go       Inject
  through the model Ioc.Container (M2).  `sc.earlyO` and `sc.afterO` are ARBITRARY functions, so every substitution timing is
  covered: early only, after only, both consistently, both inconsistently, early with the raw instance returned later.

  Proofs: IocProofs/Lemmas/M2InvStep.lean, IocProofs/Lemmas/M2Inv.lean.
-/
import IocProofs.Lemmas.M2Inv
import Ioc.FactorySkel
import Ioc.Generated.Facts
import IocProofs.Lemmas.SemCreate
import IocProofs.Lemmas.M2IsCode
import IocProofs.Lemmas.SemFactory2
import IocProofs.Lemmas.SemDelegate
import IocProofs.Lemmas.M2Lookups
import IocProofs.Lemmas.SemMeta
import IocProofs.Lemmas.SemPrepare
namespace Ioc.C03
open Ioc.M2

/-- After a successful start every field holds the published version. -/
theorem C03_no_stale (sc : Scen) (wf : WF sc) (h : (final sc).status = .done) :
    ∀ k i o, o ∈ (final sc).fields k i → (final sc).l1 o.name = some o := by
  have hi : Inv sc (final sc) := inv_run sc wf (fuelBound sc)
  exact hi.quiescent (NF_of_done h) (hi.quiet (by rw [h]; intro h'; cases h'))

/-
  Full statement asked for:
    theorem C03_consistent_everywhere (sc) (wf) (n : Nat) : ∀ k i o, o ∈ (run sc n (init sc)).fields k i →
      (run sc n (init sc)).l1 o.name = some o ∨ (run sc n (init sc)).l2 o.name = some o
  FALSE after a failed start (the failed components are removed from the cache, components published before keep the
  references they were given: `C03_consistent_everywhere_counterexample`).  Proved: it holds at every reachable state of a
  start that has not failed, and "never two versions" holds at every reachable state without exception.
-/
theorem C03_consistent_everywhere_partial (sc : Scen) (wf : WF sc) (n : Nat)
    (hnf : ∀ w s, (run sc n (init sc)).status ≠ .failed w s) :
    ∀ k i o, o ∈ (run sc n (init sc)).fields k i →
      (run sc n (init sc)).l1 o.name = some o ∨ (run sc n (init sc)).l2 o.name = some o :=
  fun k i o ho => ((inv_run sc wf n).fld hnf k i o ho).cur

/-- At EVERY reachable state (running, done or failed) all stored objects of one name are one and the same version. -/
theorem C03_one_version_everywhere (sc : Scen) (wf : WF sc) (n : Nat) :
    ∀ k i k' i' o o', o ∈ (run sc n (init sc)).fields k i → o' ∈ (run sc n (init sc)).fields k' i' →
      o.name = o'.name → o = o' :=
  fun k i k' i' o o' => (inv_run sc wf n).one_ver k i o k' i' o'

/-- The published and the early level never hold the same name at once, and an early version exists only for a component
    still in creation. -/
theorem C03_levels_exclusive (sc : Scen) (wf : WF sc) (n : Nat) (x : Nat) (o : Obj)
    (h : (run sc n (init sc)).l1 x = some o) : (run sc n (init sc)).l2 x = none :=
  (inv_run sc wf n).l1_l2 x o h

/-- A published entry is final. -/
theorem C03_published_final (sc : Scen) (wf : WF sc) (n m : Nat) (x : Nat) (o : Obj) :
    (run sc n (init sc)).l1 x = some o → (run sc (n + m) (init sc)).l1 x = some o := by
  intro h
  rw [run_add]
  exact l1_stable_run sc wf m _ (inv_run sc wf n) x o h

/-- Whenever a step publishes `x` as `pub`, no field of any holder holds an object named `x` other than `pub`. -/
theorem C03_stale_fails (sc : Scen) (wf : WF sc) (st : St) (hi : Inv sc st) (x : Nat) (pub : Obj)
    (h0 : st.l1 x = none) (h1 : (step sc st).l1 x = some pub) :
    ∀ k i o, o ∈ (step sc st).fields k i → o.name = x → o = pub :=
  publish_no_stale sc wf st hi x pub h0 h1

/-- ... and what is published is the early version or the result of InitializeComponent, nothing else. -/
theorem C03_published_source (sc : Scen) (wf : WF sc) (n : Nat) (x : Nat) (o : Obj)
    (h : (run sc n (init sc)).l1 x = some o) : o = sc.earlyO x ∨ o = initResult sc x :=
  (inv_run sc wf n).l1_src x o h

/-- factory.go:222-247 read directly: the creation of `f.name` has resolved all its points, the callbacks succeed,
    InitializeComponent returned a substitute, an early version `e` was handed out, and a finished holder has it:
    the start fails at this component. -/
theorem C03_wrapped_with_finished_holder_fails (sc : Scen) (st st' : St) (f : Frame) (rest : List Frame) (e : Obj)
    (hr : st.status = .running) (hs : st.stack = f :: rest) (hp : ¬ f.p < (pts sc f.name).length)
    (hcb : initCallbacks sc st f.name = (st', true)) (hw : initResult sc f.name ≠ raw f.name)
    (h2 : st'.l2 f.name = some e) (hh : finishedHolderHas sc st' e = true) :
    (step sc st).status = .failed f.name st.stage := by
  have hst : st'.stage = st.stage := by
    have := (initCallbacks_same sc st f.name).stage
    rw [hcb] at this; exact this
  simp [step, hr, hs, hp, hcb, h2, hw, hh, failAt, hst]

/-! ### non-vacuity -/

def mk (names : List Nat) (points : Nat → Option (List Point)) (earlyO afterO : Nat → Obj)
    (fInit : Nat → Bool := fun _ => false) : Scen :=
  { names := names, boot := [], eager := names, points := points, wired := fun _ => true, logged := fun _ => true,
    cfgOk := fun _ => true, fBefore := fun _ => false, fAps := fun _ => false, fInit := fInit, fAfter := fun _ => false,
    fEarly := fun _ => false, earlyO := earlyO, afterO := afterO }

/-- E14: H(0){S:[A,B]} A(1){B} B(2){A}; A is substituted after initialization; candidate order of the slice is the input -/
def e14 (order : List Nat) : Scen := mk [0, 1, 2]
  (fun n => if n = 0 then some [⟨order, true, true, []⟩] else if n = 1 then some [⟨[2], false, true, []⟩]
            else if n = 2 then some [⟨[1], false, true, []⟩] else some [])
  raw (fun n => if n = 1 then ⟨1, 7⟩ else raw n)

theorem e14_wf (order : List Nat) : WF (e14 order) :=
  ⟨fun _ => rfl, fun n => by simp only [e14, mk]; split <;> simp_all [raw]⟩

/-- order [A, B]: A is created first, B (finished before A) holds A's early version, A comes back wrapped: the start fails -/
example : (final (e14 [1, 2])).status = .failed 1 .refresh := by decide
/-- order [B, A]: B is created first, A finishes inside B's creation before anybody has seen an early version: success,
    and everybody holds the wrapped A -/
example : (final (e14 [2, 1])).status = .done ∧ (final (e14 [2, 1])).l1 1 = some ⟨1, 7⟩ ∧
    (final (e14 [2, 1])).fields 0 0 = [raw 2, ⟨1, 7⟩] ∧ (final (e14 [2, 1])).fields 2 0 = [⟨1, 7⟩] := by decide
example : ∀ k i o, o ∈ (final (e14 [2, 1])).fields k i → (final (e14 [2, 1])).l1 o.name = some o :=
  C03_no_stale _ (e14_wf _) (by decide)

/-- the hypotheses of `C03_wrapped_with_finished_holder_fails` hold in the run of `e14 [1, 2]` after 7 steps
    (the frame of A has resolved its point; B is finished and holds `raw 1`) -/
example : (step (e14 [1, 2]) (run (e14 [1, 2]) 7 (init (e14 [1, 2])))).status = .failed 1 .refresh :=
  C03_wrapped_with_finished_holder_fails (e14 [1, 2]) (run (e14 [1, 2]) 7 (init (e14 [1, 2])))
    (initCallbacks (e14 [1, 2]) (run (e14 [1, 2]) 7 (init (e14 [1, 2]))) 1).1 ⟨1, 1, 0, []⟩ [⟨0, 0, 0, []⟩] (raw 1)
    (by decide) (by rfl) (by decide) (by rfl) (by decide) (by decide) (by decide)

/-- E10 (adapted: the self point is optional, since Inject filters the holder out of its own candidates):
    A(0){Me:[A], B} B(1){A}; A has an early substitute ⟨0,1⟩ which B receives; with `after` InitializeComponent returns yet
    another object ⟨0,2⟩ (both, inconsistently) -/
def e10 (after : Bool) : Scen := mk [0, 1]
  (fun n => if n = 0 then some [⟨[0], true, false, []⟩, ⟨[1], false, true, []⟩]
            else if n = 1 then some [⟨[0], false, true, []⟩] else some [])
  (fun n => if n = 0 then ⟨0, 1⟩ else raw n) (fun n => if n = 0 ∧ after then ⟨n, 2⟩ else raw n)

theorem e10_wf (after : Bool) : WF (e10 after) :=
  ⟨fun n => by simp only [e10, mk]; split <;> simp_all [raw], fun n => by simp only [e10, mk]; split <;> simp_all [raw]⟩

/-- early substitute, raw instance returned later: the early version is what gets published, B holds it -/
example : (final (e10 false)).status = .done ∧ (final (e10 false)).l1 0 = some ⟨0, 1⟩ ∧
    (final (e10 false)).fields 1 0 = [⟨0, 1⟩] ∧ (final (e10 false)).fields 0 0 = [] := by decide
/-- early and after substitutes that differ: B is finished with ⟨0,1⟩, the start fails -/
example : (final (e10 true)).status = .failed 0 .refresh := by decide

/-- 0 {1, 2}, 1 {0}, Init of 2 fails -/
def dangling : Scen := mk [0, 1, 2]
  (fun n => match n with
    | 0 => some [⟨[1], false, true, []⟩, ⟨[2], false, true, []⟩]
    | 1 => some [⟨[0], false, true, []⟩]
    | _ => some []) raw raw (fun n => n == 2)

/-- the full `C03_consistent_everywhere` fails after a failed start: the published 1 holds the early reference of the
    abandoned 0 -/
theorem C03_consistent_everywhere_counterexample :
    WF dangling ∧ (final dangling).status = .failed 2 .refresh ∧ raw 0 ∈ (final dangling).fields 1 0 ∧
    (final dangling).l1 0 = none ∧ (final dangling).l2 0 = none :=
  ⟨⟨fun _ => rfl, fun _ => rfl⟩, by decide, by decide, by decide, by decide⟩


/-! ### regenerated facts: what the model abstracts about Inject and the version check is still what the source does -/

/-- Property.Inject: self filter, assignability loop, and in the slice branch `dependOn` is called for EVERY element
    (the machine's `finishedHolderHas` relies on every holder of an early reference being recorded) -/
theorem C03_inject_skeleton : Ioc.Facts.injectSkel = Ioc.expectedInjectSkel ∧ Ioc.Facts.isSelfSkel = Ioc.expectedIsSelfSkel :=
  ⟨rfl, rfl⟩

/-- doCreateComponent / getEarlyBeanReference: early exposure before population, the version check reads the early
    reference with allowEarlyReference = false and consults the dependents of BOTH the early reference and the raw meta -/
theorem C03_version_check_skeleton : Ioc.Facts.factorySkel = Ioc.expectedFactorySkel := rfl

/-! ### the tie to the code: the version check IS the regenerated program of doCreateComponent

`Ioc.Progs.fac_doCreateComponent` is the syntax tree of `defaultFactory.doCreateComponent` (container/factory/factory.go),
re-translated from /repo's source on every run into the MiniGo deep embedding (Ioc.GoSem).  Its collaborators — the registry
calls, populateComponent, InitializeComponent, genProxyComponent, the dependents lists — are arbitrary data (`Sem.DCC`).
Run by the interpreter it returns `Sem.createDecision` and makes its effectful calls in the order `createDecision` lists:
early exposure (AddSingletonFactory) BEFORE population, then initialization, then the reconciliation with the early
reference.  Any edit of that function (which earlier seeded changes C01A, C03A, C03D, C04D all were) changes the term this
theorem is about. -/

theorem C03_code_doCreateComponent (d : Sem.DCC) (hc : Sem.dccConsistent d) :
    Go.run (Sem.dccPrims d) Progs.fac_doCreateComponent [.int d.n, .ref d.n 0] [] =
      some (Sem.encDecision d.n (Sem.createDecision d).1, (Sem.createDecision d).2) :=
  Sem.doCreateComponent_sem d hc

/-- what that decision guarantees when an early reference of version `e` was handed out (the situation of a cycle):
    a component that initialization did not wrap is published AS that early reference; a wrapped one is published only
    if no dependent of the early reference (or of the raw instance) has already finished — otherwise the creation fails.
    This is the rule `C03_stale_fails` / `C03_wrapped_with_finished_holder_fails` state for the machine. -/
theorem C03_code_decision (d : Sem.DCC) (e w : Nat)
    (hx : (d.singleton && d.allow && d.inCrOf d.n) = true) (hp : d.populateOk = true) (hi : d.initRes = some w)
    (hpr : d.proxyOk = true) (he : d.earlyRes = some (some e)) :
    (w = 0 → (Sem.createDecision d).1 = some e) ∧
    (w ≠ 0 → ((Sem.createDecision d).1 = some w ↔ ∀ x ∈ d.depsEarly ++ d.depsRaw, d.inCrOf x = true) ∧
             ((Sem.createDecision d).1 = none ↔ ∃ x ∈ d.depsEarly ++ d.depsRaw, d.inCrOf x = false)) := by
  constructor
  · intro hw
    simp [Sem.createDecision, hx, hp, hi, hpr, he, hw]
  · intro hw
    by_cases hall : ∀ x ∈ d.depsEarly ++ d.depsRaw, d.inCrOf x = true
    · have hemp : ((d.depsEarly ++ d.depsRaw).filter (fun x => !(d.inCrOf x))).isEmpty = true := by
        simp only [List.isEmpty_iff, List.filter_eq_nil_iff]
        intro x hxm; simp [hall x hxm]
      have hne : ¬ ∃ x ∈ d.depsEarly ++ d.depsRaw, d.inCrOf x = false := by
        rintro ⟨x, hxm, hf⟩; rw [hall x hxm] at hf; exact absurd hf (by decide)
      simp only [Sem.createDecision, hx, hp, hi, hpr, he, hw, hemp]
      simp [hw]
      intro x hxm; exact hall x (by simpa using hxm)
    · have hemp : ((d.depsEarly ++ d.depsRaw).filter (fun x => !(d.inCrOf x))).isEmpty = false := by
        cases h : ((d.depsEarly ++ d.depsRaw).filter (fun x => !(d.inCrOf x))).isEmpty with
        | false => rfl
        | true =>
          exfalso; apply hall
          intro x hxm
          simp only [List.isEmpty_iff, List.filter_eq_nil_iff] at h
          have := h x hxm
          simpa using this
      have hex : ∃ x ∈ d.depsEarly ++ d.depsRaw, d.inCrOf x = false := by
        apply Classical.byContradiction
        intro hno
        apply hall
        intro x hxm
        cases hv : d.inCrOf x with
        | true => rfl
        | false => exact absurd ⟨x, hxm, hv⟩ hno
      simp only [Sem.createDecision, hx, hp, hi, hpr, he, hw, hemp]
      simp [hw]
      obtain ⟨x, hxm, hf⟩ := hex
      exact ⟨x, by simpa using hxm, hf⟩

/-- THE MACHINE IS THE CODE at the step that decides C03.  At every reachable state of every scenario whose top frame has
    all its points done, the factory machine's `step` (initialization callbacks, version check, publication or failure —
    what `C03_no_stale`, `C03_stale_fails`, `C03_published_source` are about) does exactly what the REGENERATED
    doCreateComponent returns when its collaborators answer from the machine state (`M2.dccOf`: the name is in creation,
    InitializeComponent returns `initResult`, GetSingleton(name,false) returns the level-2 entry, GetDependents lists the
    holders whose fields contain the object, IsSingletonCurrentlyInCreation is membership of the creation stack). -/
theorem C03_machine_finish_is_code (sc : Scen) (wf : WF sc) (k : Nat) (f : Frame) (rest : List Frame)
    (hrun : (run sc k (init sc)).status = .running) (hst : (run sc k (init sc)).stack = f :: rest)
    (hp : ¬ f.p < (pts sc f.name).length) :
    ∃ r t, Go.run (Sem.dccPrims (M2.dccOf sc (run sc k (init sc)) f.name)) Progs.fac_doCreateComponent
              [.int f.name, .ref f.name 0] [] = some (Sem.encDecision f.name r, t) ∧
      step sc (run sc k (init sc)) =
        (match r with
         | none => failAt (initCallbacks sc (run sc k (init sc)) f.name).1 f.name
         | some v => publish (initCallbacks sc (run sc k (init sc)) f.name).1 f.name ⟨f.name, v⟩ rest) := by
  have hi := inv_run sc wf k
  refine ⟨_, _, Sem.doCreateComponent_sem _ (M2.dccOf_consistent sc _ hi f.name), ?_⟩
  exact M2.step_finish_is_code sc wf _ hi f rest hrun hst hp

/-- non-vacuity: a wrapped component (version 2) whose early reference (version 1) sits in a holder that already
    finished (3, not in creation) is refused; with that holder still in creation it is published as version 2 -/
def exDCC (inCr : Nat → Bool) : Sem.DCC :=
  { n := 7, singleton := true, allow := true, populateOk := true, initRes := some 2, proxyOk := true,
    earlyRes := some (some 1), depsEarly := [3], depsRaw := [], inCrOf := inCr }
example : (Sem.createDecision (exDCC (· == 7))).1 = none := by decide
example : (Sem.createDecision (exDCC (fun x => x == 7 || x == 3))).1 = some 2 := by decide
example : Sem.dccConsistent (exDCC (· == 7)) := by intro h; cases h

/-- getEarlyBeanReference (factory.go:285-299), regenerated: the early reference is what the processors' chain returns for
    the raw instance — the raw meta itself when they return the instance unchanged, a proxy meta of that version when they
    substitute, an error when they or the proxy creation fail (the machine's `earlyO` / `fEarly`) -/
theorem C03_code_getEarlyBeanReference (d : Sem.GEB) :
    Go.run (Sem.gebPrims d) Progs.fac_getEarlyBeanReference [.int d.n, .ref d.n 0] [] =
      some (Sem.encMeta d.n (Sem.earlyModel d).1, (Sem.earlyModel d).2) :=
  Sem.getEarlyBeanReference_sem d

/-- the delegate's GetEarlyBeanReference, regenerated (delegate:232-246): the early version handed to holders is the
    composition, in the order of `componentPostProcessors`, of the GetEarlyBeanReference callbacks of the Smart processors —
    `Order.getEarlyBeanReference`; without an InstantiationAware processor nobody is asked and the component itself is the early
    reference.  This is the `early` version of the machine (`C03_code_getEarlyBeanReference` is the factory side). -/
theorem C03_code_delegate_GetEarlyBeanReference (procs : List Nat) (hasInst : Bool) (isSmart : Nat → Bool)
    (get : Nat → Nat → Option Nat) (c : Nat) :
    Go.run (Sem.dgebPrims procs hasInst isSmart get) Progs.del_GetEarlyBeanReference [.str "n", Sem.encC c] [] =
      some (Sem.encEarlyD (Order.getEarlyBeanReference hasInst isSmart get procs c).2,
            (Order.getEarlyBeanReference hasInst isSmart get procs c).1) :=
  Sem.delegateEarlyRef_sem procs hasInst isSmart get c

/-- non-vacuity: two smart processors wrap 5 → 6 → 12, a third (not smart) is skipped -/
example : Order.getEarlyBeanReference true (fun p => p != 3) (fun p c => some (if p == 1 then c + 1 else c * 2)) [1, 3, 2] 5 =
    ([1, 2], some 12) := by decide

/-! ### KF-C03-1 (D21) in the model: a refused retry leaves a stale partner behind

`M2.lookupAfter` resumes creation for one name after a start (or an earlier lookup) has ended — registries and fields as the
last run left them.  A LAZY cycle H ⇄ P, H substituted when its early reference is requested AND (by another object) after
initialization, P's `Init` failing the first time: the first lookup of H fails in P; the second is REFUSED by the
stale-version check — correctly — but P, completed meanwhile with H's early version, stays published (`failAt` removes the
cache entries of what was in creation, nothing else); the third lookup of H succeeds, nobody asks for an early reference any
more, and the after-initialization version is published: P holds ⟨1,1⟩, the lookup gives ⟨1,2⟩.  The full statement of C03
fails on this history; `C03_no_stale` is about one start. -/
namespace Retry
def lazyRing : Scen :=
  { names := [1, 2], boot := [], eager := [],
    points := fun n => match n with
      | 1 => some [⟨[2], false, true, []⟩]
      | 2 => some [⟨[1], false, true, []⟩]
      | _ => some [],
    wired := fun _ => true, logged := fun _ => true, cfgOk := fun _ => true,
    fBefore := fun _ => false, fAps := fun _ => false, fInit := fun _ => false, fAfter := fun _ => false,
    fEarly := fun _ => false,
    earlyO := fun n => if n = 1 then ⟨1, 1⟩ else raw n,
    afterO := fun n => if n = 1 then ⟨1, 2⟩ else raw n }
def lazyRingFail : Scen := { lazyRing with fInit := fun n => n == 2 }
def a0 : St := final lazyRingFail
def a1 : St := lookupAfter lazyRingFail a0 1
def a2 : St := lookupAfter lazyRing a1 1
def a3 : St := lookupAfter lazyRing a2 1
end Retry

theorem C03_retry_counterexample :
    Retry.a0.status = .done ∧
    Retry.a1.status = .failed 2 .refresh ∧ Retry.a1.l1 2 = none ∧
    Retry.a2.status = .failed 1 .refresh ∧ Retry.a2.l1 2 = some (raw 2) ∧ Retry.a2.fields 2 0 = [⟨1, 1⟩] ∧
    Retry.a3.status = .done ∧ Retry.a3.l1 1 = some ⟨1, 2⟩ ∧ Retry.a3.fields 2 0 = [⟨1, 1⟩] := by decide

/-- the positive side of the retry story: over any sequence of lookups after the start none of which FAILS (substituting
    post-processors, cycles, lazily created components included), every holder and the by-name lookup see the one version
    that is published — the invariant of one start is carried from lookup to lookup (`Lc.lookupsAfter_inv`) -/
theorem C03_no_stale_after_lookups (sc : Scen) (wf : WF sc) (ns : List Nat)
    (hall : Lc.AllNF sc (final sc) ns) (hd : (Lc.lookupsAfter sc (final sc) ns).status = .done) :
    ∀ k i o, o ∈ (Lc.lookupsAfter sc (final sc) ns).fields k i → (Lc.lookupsAfter sc (final sc) ns).l1 o.name = some o := by
  obtain ⟨hi, hnf⟩ := Lc.lookupsAfter_inv sc wf ns (final sc) (inv_run sc wf (fuelBound sc)) hall
  exact hi.quiescent hnf (hi.quiet (by rw [hd]; intro h'; cases h'))

/-! ### the REGENERATED dependents bookkeeping (meta.go: dependOn, GetDependents)

    The stale-version check of doCreateComponent reads `GetDependents()`: under the interpretation Ioc.SemMeta a holder is
    recorded ONCE PER ID in the definition's OWN set (state of the receiver: nothing outside the definition is consulted), in
    the order of first recording, and `GetDependents` answers with the names of exactly the recorded holders. -/
section dependents
open Ioc.Go Ioc.Sem

theorem C03_code_dependOn (idOf nameOf : Nat → String) (isComp : Nat → Bool) (d : Nat) (w : MW) :
    run (metaPrims idOf nameOf isComp) Progs.meta_dependOn [.ref d 0] w =
      some (.tuple [], if w.depSet.contains (idOf d) then w
                       else { w with dependent := w.dependent ++ [d], depSet := w.depSet ++ [idOf d] }) :=
  metaDependOn_sem idOf nameOf isComp d w

theorem C03_code_GetDependents (idOf nameOf : Nat → String) (isComp : Nat → Bool) (w : MW) :
    run (metaPrims idOf nameOf isComp) Progs.meta_GetDependents [] w = some (encStrs (w.dependent.map nameOf), w) :=
  metaGetDependents_sem idOf nameOf isComp w

end dependents


/-! ### NewMeta, CreateProxy, genProxyComponent, REGENERATED (interpretation Ioc.SemPrepare) -/
section proxy
open Ioc.Go Ioc.Sem

/-- NewMeta: ONE new definition for the component, named by the naming helper, Raw = the component, no proxy link, its fields
    scanned once with a holder of this very definition -/
theorem C03_code_NewMeta (naming : Nat → String × String) (icept : Nat → Option String) (c : Nat) (w : NMW) :
    run (nmPrims naming icept) Progs.meta_NewMeta [.ref c 0] w =
      some (.ref w.metas.length 1, { w with metas := w.metas ++ [⟨c, (naming c).1, (naming c).2, none, true⟩] }) :=
  newMeta_sem naming icept c w

/-- CreateProxy: ONE new definition for the substituted component, carrying the name it is GIVEN (the name under which the
    origin is registered — not the new component's own), and `ProxyMeta` = the origin: the version chain; interceptors run in
    order on it, the first error ends the call with no definition.  genProxyComponent is this without interceptors -/
theorem C03_code_CreateProxy (naming : Nat → String × String) (icept : Nat → Option String) (o c : Nat) (n : String)
    (ks : List Nat) (w : NMW) :
    run (cpPrims naming icept) Progs.meta_CreateProxy [.ref o 1, .str n, .ref c 0, .list (ks.map (fun k => Val.ref k 140))] w =
      some (match (icRun icept ks).2 with
            | none => .tuple [.ref w.metas.length 1, .nil]
            | some e => .tuple [.nil, .str e],
            { metas := w.metas ++ [⟨c, n, (naming c).2, some o, true⟩],
              intercepted := w.intercepted ++ (icRun icept ks).1 }) ∧
    run (cpPrims naming icept) Progs.factory_genProxyComponent [.ref o 1, .str n, .ref c 0] w =
      some (.tuple [.ref w.metas.length 1, .nil], { w with metas := w.metas ++ [⟨c, n, (naming c).2, some o, true⟩] }) :=
  ⟨createProxy_sem naming icept o c n ks w, genProxy_sem naming icept o c n w⟩

end proxy

end Ioc.C03
